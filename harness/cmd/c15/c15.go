package main

// C15: contract execution is atomic, pays for itself and cannot overspend.
//
// Real chains (chainfx: real node start-up, 100 dummy identities so that fees / minimum stakes are affordable) run
// generated deploy / call / terminate sequences on every embedded contract type and on the bundled wasm contracts.
//
//   shadow mode: two persistent check states of the same node; every tx is applied to A with the untouched
//                applyTxOnState + VmImpl.Run and to B with applyTxOnState + the recording Run (shims vm--c15,
//                vm__wasm--c15: same dispatch, contracts constructed over recording decorators of the real env).
//                A and B must agree (receipt, every touched account, store); fabricated headers let heights and
//                block times jump so that voting / lock deadlines are reachable.
//   chain mode:  single-tx blocks through pool -> ProposeBlock -> AddBlock on the real chain; B runs on a check state
//                with the proposed header; the full state before / after the block is dumped.
//
// Correspondence: per tx the op lines carry the wrapper inputs, the pre-state facts of everything the trace touches,
// the recorded env-call trace and post-state queries; the Lean model (Model/ContractEnv.lean) has to predict the gas
// limit, every call's result (and gas), the receipt and the post state.  Answers come from path A / the real chain.
// Independent oracle (no model, no trace): see oracle().

import (
	"bytes"
	"encoding/json"
	"fmt"
	"math/big"
	"math/rand"
	"os"
	"sort"
	"strings"
	"time"

	"github.com/idena-network/idena-go/blockchain/fee"
	"github.com/idena-network/idena-go/blockchain/types"
	"github.com/idena-network/idena-go/blockchain/validation"
	"github.com/idena-network/idena-go/common"
	"github.com/idena-network/idena-go/config"
	"github.com/idena-network/idena-go/core/appstate"
	"github.com/idena-network/idena-go/core/state"
	"github.com/idena-network/idena-go/vm"
	"github.com/idena-network/idena-go/vm/env"
	"github.com/idena-network/idena-go/vm/wasm"

	"verifharness/internal/chainfx"
	"verifharness/internal/hx"
)

func init() { hx.Register("C15", runC15) }

type c15case struct {
	Seed int64  `json:"seed"`
	Mode string `json:"mode"`          // shadow | chain | fuzz | congest
	N    int    `json:"n"`             // number of generated transactions
	Fpg  string `json:"fpg,omitempty"` // shadow mode: overwrite FeePerGas of both check states (decimal)
	Ver  int    `json:"ver,omitempty"` // consensus version of the chain: 0 = the fixture's default (12), 11, 10, 9
}

// ------------------------------------------------------------------------------------------ snapshots

type acct struct {
	Bal    *big.Int
	HasCon bool
	Stake  *big.Int // nil = no contract or nil stake
	Code   int
	Nonce  uint32
	Epoch  uint16
	Store  [][2]string // sorted by key
	Order  [][2]string // in the order StateDB.IterateContractStore yields (what EnvImp.Iterate's second phase follows)
}

func snapAcct(st *state.StateDB, a common.Address, codes *codetab) acct {
	r := acct{Bal: new(big.Int).Set(st.GetBalance(a)), Nonce: st.GetNonce(a), Epoch: st.GetEpoch(a)}
	if h := st.GetCodeHash(a); h != nil {
		r.HasCon = true
		r.Code = codes.id(*h)
		if s := st.GetContractStake(a); s != nil {
			r.Stake = new(big.Int).Set(s)
		}
	}
	st.IterateContractStore(a, nil, nil, func(k, v []byte) bool {
		r.Store = append(r.Store, [2]string{hx0(k), hx0(v)})
		return false
	})
	r.Order = append([][2]string{}, r.Store...)
	sort.Slice(r.Store, func(i, j int) bool { return r.Store[i][0] < r.Store[j][0] })
	return r
}

func (a acct) stake0() *big.Int {
	if a.Stake == nil {
		return new(big.Int)
	}
	return a.Stake
}

// stakeTok: a nil stake pointer (wasm contracts) is not a zero stake for MoveToStake
func (a acct) stakeTok() string {
	if a.Stake == nil {
		return "nil"
	}
	return a.Stake.String()
}

func (a acct) conStr() string {
	if !a.HasCon {
		return "nocon"
	}
	return fmt.Sprintf("con %s %d", a.stake0(), a.Code)
}

func (a acct) storeStr() string {
	if len(a.Store) == 0 {
		return "st"
	}
	p := make([]string, len(a.Store))
	for i, kv := range a.Store {
		p[i] = kv[0] + "=" + kv[1]
	}
	return "st " + strings.Join(p, ",")
}

func (a acct) equal(b acct) bool {
	return a.Bal.Cmp(b.Bal) == 0 && a.conStr() == b.conStr() && a.Nonce == b.Nonce && a.Epoch == b.Epoch && a.storeStr() == b.storeStr()
}

func (a acct) String() string {
	return fmt.Sprintf("{bal %s %s nonce %d/%d %s}", a.Bal, a.conStr(), a.Nonce, a.Epoch, a.storeStr())
}

// ------------------------------------------------------------------------------------------ recording VM

type txRun struct {
	tr       *trace
	began    bool
	wasm     bool
	gasLimit int64
	rawGas   uint64
}

type recVM struct {
	real vm.VM
	run  *txRun
}

func (r *recVM) Read(a common.Address, m string, args ...[]byte) ([]byte, error) {
	return r.real.Read(a, m, args...)
}
func (r *recVM) IsWasm(tx *types.Transaction) bool { return r.real.IsWasm(tx) }
func (r *recVM) ContractAddr(tx *types.Transaction, from *common.Address) common.Address {
	return r.real.ContractAddr(tx, from)
}

func (r *recVM) Run(tx *types.Transaction, from *common.Address, gasLimit int64, commit bool) *types.TxReceipt {
	impl := r.real.(*vm.VmImpl)
	t := r.run.tr
	h := &vm.C15Hooks{
		WrapE: func(e env.Env) env.Env { return &recEnv{in: e, t: t} },
		WrapW: t.wrapHost,
		Begin: func(w bool, gl int64) {
			r.run.began, r.run.wasm, r.run.gasLimit, t.wasm = true, w, gl, w
			if !w {
				t.gas = impl.C15GasUsed
			}
		},
		OnDeploy:    t.recDeploy,
		OnTerminate: t.recTerminate,
		OnCommit:    t.recCommit,
		OnPanic:     func(interface{}) {},
	}
	rc := impl.C15Run(tx, from, gasLimit, commit, h)
	if r.run.wasm {
		r.run.rawGas = wasm.C15RawGas
	}
	return rc
}

func (t *trace) recDeploy(ctx env.CallContext, do func()) {
	op := fmt.Sprintf("deploy %d %s %d", t.ids.id(ctx.ContractAddr()), bigs(ctx.PayAmount()), t.codes.id(ctx.CodeHash()))
	defer t.guard(op)
	do()
	t.add(op, "ok")
}

func (t *trace) recTerminate(ctx env.CallContext, keep [][]byte, dest common.Address, do func()) {
	ks := make([]string, len(keep))
	for i, k := range keep {
		ks[i] = hx0(k)
	}
	op := fmt.Sprintf("terminate %d %d %s", t.ids.id(ctx.ContractAddr()), t.ids.id(dest), strings.Join(append([]string{"k"}, ks...), ","))
	defer t.guard(op)
	do()
	t.add(op, "ok")
}

func (t *trace) recCommit(do func()) {
	op := "commit"
	if t.wasm {
		op = "1 commit"
	}
	defer t.guard(op)
	do()
	t.add(op, "ok")
}

// ------------------------------------------------------------------------------------------ one transaction

type applied struct {
	fee *big.Int
	rc  *types.TxReceipt
	err string // "" | err | panic
}

func applyWith(n *chainfx.Node, st *appstate.AppState, hdr *types.Header, tx *types.Transaction, mk func(vm.VM) vm.VM) (a applied) {
	defer func() {
		if r := recover(); r != nil {
			a.err = "panic"
		}
	}()
	f, rc, err := n.Chain.C15ApplyTx(st, hdr, tx, mk)
	a.fee, a.rc = f, rc
	if err != nil {
		a.err = "err"
	}
	return
}

func rcStr(a applied) string {
	if a.err != "" {
		return a.err
	}
	if a.rc == nil {
		return "norc"
	}
	s := 0
	if a.rc.Success {
		s = 1
	}
	return fmt.Sprintf("rc %d %d %s %s ev%d", s, a.rc.GasUsed, bigs(a.rc.GasCost), bigs(a.fee), len(a.rc.Events))
}

type txInfo struct {
	Tx     *types.Transaction
	Sender common.Address
	Desc   string
	pd     pending // what the generator wants to learn from the outcome
}

func kindName(t uint16) string {
	switch t {
	case types.DeployContractTx:
		return "deploy"
	case types.CallContractTx:
		return "call"
	}
	return "terminate"
}

// emit writes the op lines of one transaction and the implementation's answers.
// pre/post: snapshots (by id) taken on the untouched path; run: the recorded trace; ap: the untouched path's result.
func emit(c *hx.Ctx, mode string, ti txInfo, run *txRun, ids *idtab, pre, post []acct, ap applied, implGasLimit int64,
	txFee, fpg *big.Int, u11 bool, skipPost map[int]bool) {
	tx := ti.Tx
	c.Line("new "+mode, "ok")
	w, u := 0, 0
	if run.wasm {
		w = 1
	}
	if u11 {
		u = 1
	}
	cAddr := 0
	if run.tr.contract != nil {
		cAddr = ids.id(*run.tr.contract)
	}
	c.Line(fmt.Sprintf("tx %s %d %d %d %s %s %s %s %s %d %d %d", kindName(tx.Type), w, ids.id(ti.Sender), cAddr,
		tx.AmountOrZero(), tx.TipsOrZero(), tx.MaxFeeOrZero(), txFee, fpg, u, tx.AccountNonce, tx.Epoch),
		fmt.Sprintf("gl %d", implGasLimit))
	for i, a := range pre {
		id := i + 1
		c.Line(fmt.Sprintf("i bal %d %s", id, a.Bal), "ok")
		if a.HasCon {
			c.Line(fmt.Sprintf("i con %d %s %d", id, a.stakeTok(), a.Code), "ok")
		}
		for _, kv := range a.Order {
			c.Line(fmt.Sprintf("i st %d %s %s", id, kv[0], kv[1]), "ok")
		}
	}
	sid := ids.id(ti.Sender)
	c.Line(fmt.Sprintf("i acct %d %d %d", sid, pre[sid-1].Nonce, pre[sid-1].Epoch), "ok")
	for _, e := range run.tr.evs {
		c.Line("c "+e.Op, e.Res)
	}
	endOk := "fail"
	if ap.rc != nil && ap.rc.Success {
		endOk = "ok"
	}
	ghost := " m0" // wasm: the runtime's host calls must not create or destroy coins on balance (AddBalance / pay vs SubBalance)
	if !run.wasm {
		ghost = " b0"
		if endOk == "ok" {
			ghost = " b" + burnsOf(run.tr, pre).String()
		}
	}
	rcs := rcStr(ap)
	if strings.HasPrefix(rcs, "rc ") {
		rcs += ghost
	}
	c.Line(fmt.Sprintf("end %s %d", endOk, run.rawGas), rcs)
	for i, a := range post {
		id := i + 1
		if skipPost[id] {
			continue
		}
		c.Line(fmt.Sprintf("q bal %d", id), "n"+a.Bal.String())
		c.Line(fmt.Sprintf("q con %d", id), a.conStr())
		c.Line(fmt.Sprintf("q st %d", id), a.storeStr())
	}
	c.Line(fmt.Sprintf("q acct %d", sid), fmt.Sprintf("%d %d", post[sid-1].Nonce, post[sid-1].Epoch))
}

// oracle: the property on the observable behaviour of the untouched path, without the model and without the trace
// (burnt amounts are the only trace-derived input, and only for the equality form of conservation).
func oracle(fail func(sig, detail string), ti txInfo, ids *idtab, pre, post []acct, ap applied, txFee, fpg *big.Int, burns *big.Int, label string) {
	tx := ti.Tx
	if ap.err != "" || ap.rc == nil {
		return // refused by applyTxOnState (not applied at all); handled by the caller
	}
	sid := ids.id(ti.Sender)
	maxFee := tx.MaxFeeOrZero()
	// charged <= MaxFee ; gasUsed*fpg <= what MaxFee buys
	if ap.fee.Cmp(maxFee) > 0 {
		fail("C15:fee-exceeds-maxfee", fmt.Sprintf("%s: %s charged fee %s > maxFee %s (txFee %s gasUsed %d fpg %s)", label, ti.Desc, ap.fee, maxFee, txFee, ap.rc.GasUsed, fpg))
	}
	gasCost := new(big.Int).Mul(new(big.Int).SetUint64(ap.rc.GasUsed), fpg)
	if new(big.Int).Add(gasCost, txFee).Cmp(maxFee) > 0 {
		fail("C15:gas-exceeds-what-maxfee-buys", fmt.Sprintf("%s: %s gasUsed %d * fpg %s + txFee %s > maxFee %s", label, ti.Desc, ap.rc.GasUsed, fpg, txFee, maxFee))
	}
	if ap.rc.GasCost == nil || ap.rc.GasCost.Cmp(gasCost) != 0 || new(big.Int).Add(txFee, gasCost).Cmp(ap.fee) != 0 {
		fail("C15:receipt-gascost-inconsistent", fmt.Sprintf("%s: %s gasCost %s fee %s vs gasUsed %d fpg %s txFee %s", label, ti.Desc, bigs(ap.rc.GasCost), ap.fee, ap.rc.GasUsed, fpg, txFee))
	}
	// no negative balance or stake
	for i, a := range post {
		if a.Bal.Sign() < 0 || a.stake0().Sign() < 0 {
			fail("C15:negative-balance", fmt.Sprintf("%s: %s address #%d %s ends with %s", label, ti.Desc, i+1, ids.list[i].Hex(), a))
		}
	}
	charge := new(big.Int).Add(ap.fee, tx.TipsOrZero())
	if !ap.rc.Success {
		// failed => no trace except nonce/epoch and fee(+tips)
		for i := range post {
			id := i + 1
			want := pre[i]
			if id == sid {
				want.Bal = new(big.Int).Sub(pre[i].Bal, charge)
				want.Nonce, want.Epoch = tx.AccountNonce, tx.Epoch
			}
			if !want.equal(post[i]) {
				fail("C15:failed-tx-left-trace", fmt.Sprintf("%s: %s failed (%v) but address #%d %s changed: %s -> %s (expected %s)", label, ti.Desc, ap.rc.Error, id, ids.list[i].Hex(), pre[i], post[i], want))
			}
		}
	}
	// conservation over everything the execution touched
	sum := func(as []acct) *big.Int {
		s := new(big.Int)
		for _, a := range as {
			s.Add(s, a.Bal)
			s.Add(s, a.stake0())
		}
		return s
	}
	delta := new(big.Int).Sub(sum(post), sum(pre))
	want := new(big.Int).Neg(charge)
	if delta.Cmp(want) > 0 {
		fail("C15:value-created", fmt.Sprintf("%s: %s balances+stakes of touched addresses changed by %s > -(fee+tips) = %s", label, ti.Desc, delta, want))
	}
	if ap.rc.Success {
		want.Sub(want, burns)
	}
	if delta.Cmp(want) != 0 {
		fail("C15:value-not-conserved", fmt.Sprintf("%s: %s balances+stakes of touched addresses changed by %s, expected -(fee+tips)-burns = %s (burns %s)", label, ti.Desc, delta, want, burns))
	}
	if sp := post[sid-1]; sp.Nonce != tx.AccountNonce || sp.Epoch != tx.Epoch {
		fail("C15:nonce-not-set", fmt.Sprintf("%s: %s sender nonce/epoch %d/%d", label, ti.Desc, sp.Nonce, sp.Epoch))
	}
}

// sharedConstants: the package-wide big.Int constants every getter hands out for "no value" (StateDB.GetBalance of a
// missing account returns common.Big0, GetGasCost returns it for a zero fee, BurnAll stores it) must be what they claim
// after every execution; a corrupted one is put back so that the rest of the run is not judged on a poisoned process.
func sharedConstants(fail func(sig, detail string), what string) {
	if common.Big0.Sign() != 0 || common.Big1.Cmp(big.NewInt(1)) != 0 || common.Big2.Cmp(big.NewInt(2)) != 0 {
		fail("C15:shared-constant-corrupted", fmt.Sprintf("%s: after the execution common.Big0 = %s, common.Big1 = %s, common.Big2 = %s (every account that does not exist now reports common.Big0 as its balance)",
			what, common.Big0, common.Big1, common.Big2))
		common.Big0.SetInt64(0)
		common.Big1.SetInt64(1)
		common.Big2.SetInt64(2)
	}
}

// dryRun: before the real application on A, the same transaction is run on A WITHOUT commit, the way the estimate API
// (vm.Run(..., commitToState=false)) and -- before upgrade 12, for wasm transactions -- the proposer's pre-check
// (Blockchain.tryExecuteTx, filterTxs :2201) do.  A dry run, successful or not, must not change the state: everything the
// recorded execution touches is compared before / after.  (That the real run then gives the result of a state that never saw a
// dry run is the A-vs-B comparison: B never sees one.)
func (cc *caseCtx) dryRun(A *appstate.AppState, hdr *types.Header, ti txInfo, ids *idtab, pre []acct, gl int64, isWasm bool) {
	if !isWasm && cc.r.Intn(3) != 0 {
		return
	}
	check := func(how string) {
		for i, a := range ids.list {
			if now := snapAcct(A.State, a, cc.codes); !now.equal(pre[i]) {
				cc.fail("C15:dry-run-wrote-state", fmt.Sprintf("%s: %s of %s changed address #%d %s: %s -> %s", "shadow", how, ti.Desc, i+1, a.Hex(), pre[i], now))
				return
			}
		}
	}
	func() {
		defer func() { recover() }()
		cc.n.Chain.C15Vm(A, hdr).Run(ti.Tx, nil, gl, false)
	}()
	check("vm.Run(commitToState=false)")
	cc.c.Hit("dry-run:vm.Run")
	if isWasm && !cc.n.Cfg.Consensus.EnableUpgrade12 && !cc.bad {
		func() {
			defer func() { recover() }()
			cc.n.Chain.C15TryExecuteTx(A, hdr, ti.Tx)
		}()
		check("tryExecuteTx (proposer pre-check)")
		cc.c.Hit("dry-run:tryExecuteTx")
	}
	sharedConstants(cc.fail, "dry run: "+ti.Desc)
}

// gasOracle: an execution must not get past its gas limit.  Embedded: the real gas counter is logged after every
// environment call; a call that completed (anything but an out-of-gas / panic result) with the counter above the limit
// getGasLimit granted ran unmetered -- whatever the receipt says afterwards (GasUsed is capped to the limit, so
// GasUsed <= limit cannot see it; a limit of exactly 0 is the sharpest case).  Wasm: a successful execution must not report
// more runtime gas than the limit handed to the runtime.
func gasOracle(fail func(sig, detail string), ti txInfo, run *txRun, gl int64, ap applied, label string) {
	if ap.err != "" || ap.rc == nil || gl < 0 {
		return
	}
	if run.wasm {
		if ap.rc.Success && run.rawGas > uint64(gl)*100 {
			fail("C15:execution-beyond-gas-limit", fmt.Sprintf("%s: %s succeeded with runtime gas %d > limit %d*100", label, ti.Desc, run.rawGas, gl))
		}
		return
	}
	for _, e := range run.tr.evs {
		f := strings.Fields(e.Res)
		if len(f) == 0 || f[0] == "oog" || f[0] == "panic" {
			continue
		}
		last := f[len(f)-1]
		if !strings.HasPrefix(last, "g") {
			continue
		}
		var g int64
		if _, err := fmt.Sscan(last[1:], &g); err != nil {
			continue
		}
		if g > gl {
			fail("C15:execution-beyond-gas-limit", fmt.Sprintf("%s: %s (maxFee %s buys %d gas, receipt success=%v gasUsed=%d): environment call `%s` completed with the gas counter at %d",
				label, ti.Desc, ti.Tx.MaxFeeOrZero(), gl, ap.rc.Success, ap.rc.GasUsed, e.Op, g))
			return
		}
	}
}

// burnsOf: coins explicitly destroyed according to the recorded trace (BurnAll amounts, wasm Burn, the unrefunded
// half of a terminated contract's stake). Only counted for envs whose effects reach the state.
func burnsOf(tr *trace, pre []acct) *big.Int {
	b := new(big.Int)
	for _, e := range tr.evs {
		f := strings.Fields(e.Op)
		r := strings.Fields(e.Res)
		if len(f) == 0 || len(r) == 0 || r[0] != "ok" {
			continue
		}
		switch {
		case f[0] == "burnall" && len(r) > 1 && strings.HasPrefix(r[1], "b"):
			v, _ := new(big.Int).SetString(r[1][1:], 10)
			if v != nil {
				b.Add(b, v)
			}
		case f[0] == "terminate":
			var id int
			fmt.Sscan(f[1], &id)
			st := pre[id-1].stake0()
			b.Add(b, new(big.Int).Sub(st, new(big.Int).Quo(st, big.NewInt(2))))
		}
	}
	return b
}

// ------------------------------------------------------------------------------------------ channel

func runC15(c *hx.Ctx) error {
	defer os.RemoveAll("./testdata")
	defer os.RemoveAll("./testdata2")
	c.Rep.Rule = "per case a real 100+ identity chain; generated deploy/call/terminate (+funding sends) over all 5 embedded contract types (valid lifecycles and arbitrary methods / argument vectors) and the 5 bundled wasm contracts (cross-contract calls, sub-deployments), arbitrary maxFee (gas limits incl. too small), pay amounts, tips; shadow mode (two check states, untouched Run vs recording Run), chain mode (single-tx blocks through pool/propose/add), fuzz mode (synthetic call traces on the real EnvImp / WasmEnv objects), block mode (2-5 transactions through ONE shared VM as processTxs does, every prefix compared with a fresh VM per transaction), congest mode (fee per gas driven above 2e16 by real full blocks, then calls whose maxFee leaves just under one gas unit)"
	var cases []c15case
	if c.Replay != "" {
		b, err := os.ReadFile(c.Replay)
		if err != nil {
			return err
		}
		var rp struct {
			Replay c15case `json:"replay"`
		}
		if err := json.Unmarshal(b, &rp); err != nil {
			return err
		}
		cases = []c15case{rp.Replay}
	} else {
		nShadow, nChain := c.Scale(6, 60), c.Scale(2, 12)
		for i := 0; i < nShadow; i++ {
			cases = append(cases, c15case{Seed: c.Rng.Int63(), Mode: "shadow", N: c.Scale(140, 400)})
		}
		for i := 0; i < nChain; i++ {
			cases = append(cases, c15case{Seed: c.Rng.Int63(), Mode: "chain", N: c.Scale(40, 120)})
		}
		// older consensus versions: the fork conditions of the wrapper (terminate amount before upgrade 11), the proposer's
		// dry run of wasm transactions (tryExecuteTx, before upgrade 12), the pre-upgrade-10 contract versions
		for _, ver := range []int{11, 10, 9} {
			for i := 0; i < c.Scale(1, 4); i++ {
				cases = append(cases, c15case{Seed: c.Rng.Int63(), Mode: "shadow", N: c.Scale(90, 300), Ver: ver})
			}
		}
		for i := 0; i < c.Scale(1, 10); i++ {
			cases = append(cases, c15case{Seed: c.Rng.Int63(), Mode: "fuzz", N: c.Scale(1200, 4000)})
		}
		for i := 0; i < c.Scale(1, 4); i++ {
			cases = append(cases, c15case{Seed: c.Rng.Int63(), Mode: "congest", N: 4})
		}
		for i := 0; i < c.Scale(2, 12); i++ {
			cases = append(cases, c15case{Seed: c.Rng.Int63(), Mode: "block", N: c.Scale(60, 150)})
		}
	}
	for _, cs := range cases {
		if err := runCase(c, cs); err != nil {
			return err
		}
	}
	return nil
}

type caseCtx struct {
	c     *hx.Ctx
	cs    c15case
	w     *chainfx.World
	n     *chainfx.Node
	r     *rand.Rand
	codes *codetab
	g     *gen
	idx   int
	bad   bool
}

func (cc *caseCtx) fail(sig, detail string) {
	cs := cc.cs
	cs.N = cc.idx + 1 // shrink: the prefix up to the failing transaction
	cc.c.Fail(sig, detail, cs)
	cc.bad = true
}

func runCase(c *hx.Ctx, cs c15case) error {
	if cs.Mode == "congest" {
		return runCongest(c, cs)
	}
	r := rand.New(rand.NewSource(cs.Seed))
	w := chainfx.NewWorld(cs.Seed, 8, 100, time.Date(2030, 1, 1, 0, 0, 0, 0, time.UTC))
	if cs.Ver != 0 {
		ver := cs.Ver
		w.Opts.Tweak = func(cfg *config.Config) { // an older consensus: the fork flags as they were before the upgrade
			cfg.Consensus.EnableUpgrade12 = ver >= 12
			cfg.Consensus.EnableUpgrade11 = ver >= 11
			cfg.Consensus.EnableUpgrade10 = ver >= 10
		}
	}
	h, err := chainfx.Bootstrap(w, chainfx.HistoryOpts{}, r, false)
	if err != nil {
		return err
	}
	n := h.N
	step := func() (*types.Block, error) {
		chainfx.Advance(20 * time.Second)
		p, err := n.Propose()
		if err != nil {
			return nil, err
		}
		return p.Block, n.Add(p.Block)
	}
	for i := 0; i < 2; i++ { // god online; FeePerGas set
		if _, err := step(); err != nil {
			return fmt.Errorf("bootstrap block: %w", err)
		}
	}
	cc := &caseCtx{c: c, cs: cs, w: w, n: n, r: r, codes: newCodetab()}
	cc.g = newGen(cc)
	if cs.Mode == "chain" {
		return cc.runChain(step)
	}
	if cs.Mode == "fuzz" {
		return cc.runFuzz()
	}
	if cs.Mode == "block" {
		return cc.runBlock(step)
	}
	return cc.runShadow()
}

func (cc *caseCtx) runShadow() error {
	n := cc.n
	height := n.Chain.Head.Height()
	A, err := n.App.ForCheck(height)
	if err != nil {
		return err
	}
	B, err := n.App.ForCheck(height)
	if err != nil {
		return err
	}
	if cc.cs.Fpg != "" {
		v, ok := new(big.Int).SetString(cc.cs.Fpg, 10)
		if !ok {
			return fmt.Errorf("bad fpg")
		}
		A.State.SetFeePerGas(v)
		B.State.SetFeePerGas(new(big.Int).Set(v))
	}
	hh, tt := height+1, n.Chain.Head.Time()+20
	for cc.idx = 0; cc.idx < cc.cs.N && !cc.bad; cc.idx++ {
		// fabricated header: heights / times jump so that deadlines and voting periods are reachable
		switch cc.r.Intn(40) {
		case 0, 1, 2, 3:
			hh += uint64(1 + cc.r.Intn(4))
		case 4:
			hh += uint64(100 + cc.r.Intn(200))
		case 5, 6, 7:
			tt += int64(cc.r.Intn(5000))
		}
		hh += 1 + cc.g.jump
		tt += 20 * int64(1+cc.g.jump)
		cc.g.jump = 0
		var seed types.Seed
		seed.SetBytes(common.ToBytes(hh))
		hdr := &types.Header{ProposedHeader: &types.ProposedHeader{Height: hh, Time: tt, BlockSeed: seed}}
		ti, ok := cc.g.next(A, hdr)
		if !ok {
			continue
		}
		cc.oneShadow(A, B, hdr, ti)
	}
	return nil
}

func (cc *caseCtx) oneShadow(A, B *appstate.AppState, hdr *types.Header, ti txInfo) {
	c, n := cc.c, cc.n
	tx := ti.Tx
	minFpg := fee.GetFeePerGasForNetwork(A.ValidatorsCache.NetworkSize())
	if err := safeValidate(A, tx, minFpg); err != nil {
		c.Hit("rejected-by-validation:" + kindName(tx.Type))
		cc.g.rejected(ti)
		return
	}
	if tx.Type != types.DeployContractTx && tx.Type != types.CallContractTx && tx.Type != types.TerminateContractTx {
		// funding sends etc.: applied to both states, not a contract execution
		a := applyWith(n, A, hdr, tx, func(v vm.VM) vm.VM { return v })
		b := applyWith(n, B, hdr, tx, func(v vm.VM) vm.VM { return v })
		if a.err != "" || b.err != "" {
			cc.fail("C15:harness-funding-tx-refused", ti.Desc)
		}
		cc.g.applied(ti, a, A)
		c.Hit("aux-tx")
		return
	}
	fpg := new(big.Int).Set(A.State.FeePerGas())
	txFee := n.Chain.C15TxFee(A, tx)
	gl := n.Chain.C15GasLimit(A, tx)
	// B first (recording), then the pre-state of everything it touched from A, then A
	ids := newIdtab()
	run := &txRun{tr: &trace{ids: ids, codes: cc.codes}}
	ids.id(ti.Sender)
	ca := cc.g.contractAddr(A, ti)
	run.tr.contract = &ca
	ids.id(ca)
	bp := applyWith(n, B, hdr, tx, func(v vm.VM) vm.VM { return &recVM{real: v, run: run} })
	pre := make([]acct, len(ids.list))
	for i, a := range ids.list {
		pre[i] = snapAcct(A.State, a, cc.codes)
	}
	cc.dryRun(A, hdr, ti, ids, pre, gl, run.wasm)
	ap := applyWith(n, A, hdr, tx, func(v vm.VM) vm.VM { return v })
	sharedConstants(cc.fail, "shadow: "+ti.Desc)
	post := make([]acct, len(ids.list))
	postB := make([]acct, len(ids.list))
	for i, a := range ids.list {
		post[i] = snapAcct(A.State, a, cc.codes)
		postB[i] = snapAcct(B.State, a, cc.codes)
	}
	// the untouched path is what is judged (oracle) and what the model has to predict (answers); a divergence of the
	// recording path is reported, the rest still runs on the untouched path's result
	if rcStr(ap) != rcStr(bp) {
		cc.fail("C15:recorder-diverges", fmt.Sprintf("%s: untouched Run %s vs recording Run %s", ti.Desc, rcStr(ap), rcStr(bp)))
	}
	for i := range post {
		if !post[i].equal(postB[i]) {
			cc.fail("C15:recorder-diverges", fmt.Sprintf("%s: address #%d after untouched Run %s vs recording Run %s", ti.Desc, i+1, post[i], postB[i]))
			break
		}
	}
	if ap.err != "" {
		// applyTxOnState refused a validated tx (or panicked): both states are unusable for the rest of the case
		cc.fail("C15:validated-tx-refused-by-apply:"+ap.err, ti.Desc)
		return
	}
	cc.account(ti, run, ap)
	emit(c, "shadow", ti, run, ids, pre, post, ap, gl, txFee, fpg, n.Cfg.Consensus.EnableUpgrade11, nil)
	oracle(cc.fail, ti, ids, pre, post, ap, txFee, fpg, burnsOf(run.tr, pre), "shadow")
	gasOracle(cc.fail, ti, run, gl, ap, "shadow")
	cc.g.applied(ti, ap, A)
	c.Rep.Evaluations++
	if ti.Desc == "deploy-wasm-wallet" && ap.rc != nil && ap.rc.Success {
		// as the upstream test does (vm_test.go Test_SharedFungibleToken): give the wallet a token balance, on both states
		tokens := big.NewInt(int64(1000 + cc.r.Intn(1000))).Bytes()
		for _, st := range []*appstate.AppState{A, B} {
			st.State.SetContractValue(ap.rc.ContractAddress, []byte("b"), tokens)
		}
	}
}

func (cc *caseCtx) account(ti txInfo, run *txRun, ap applied) {
	c := cc.c
	k := kindName(ti.Tx.Type)
	eng := "embedded"
	if run.wasm {
		eng = "wasm"
	}
	res := "fail"
	if ap.rc != nil && ap.rc.Success {
		res = "ok"
	}
	c.Hit(fmt.Sprintf("%s:%s:%s:%s", cc.cs.Mode, eng, k, res))
	c.Hit("desc:" + strings.SplitN(ti.Desc, " ", 2)[0] + ":" + res)
	if res == "fail" && ap.rc != nil && ap.rc.Error != nil && !strings.HasPrefix(ti.Desc, "junk") {
		e := ap.rc.Error.Error()
		if len(e) > 40 {
			e = e[:40]
		}
		c.Hit("why:" + strings.SplitN(ti.Desc, " ", 2)[0] + ":" + e)
	}
	ops := map[string]bool{}
	for _, e := range run.tr.evs {
		f := strings.Fields(e.Op)
		name := f[0]
		if run.wasm && len(f) > 1 {
			name = "w-" + f[1]
		}
		if name == "rd" || name == "w-rd" {
			continue
		}
		rs := strings.Fields(e.Res)[0]
		if rs != "ok" && rs != "err" && rs != "oog" && rs != "panic" {
			rs = "val"
		}
		ops[name+"="+rs] = true
	}
	keys := make([]string, 0, len(ops))
	for o := range ops {
		c.Hit("envcall:" + o)
		keys = append(keys, o)
	}
	sort.Strings(keys)
	if c.Distinct(fmt.Sprintf("%s|%s|%s|%d|%s", ti.Desc, res, strings.Join(keys, ","), len(run.tr.evs), rcStr(ap))) {
		c.Sample(map[string]interface{}{"tx": ti.Desc, "result": rcStr(ap), "trace_len": len(run.tr.evs)})
	}
}

func safeValidate(st *appstate.AppState, tx *types.Transaction, minFpg *big.Int) (err error) {
	defer func() {
		if r := recover(); r != nil {
			err = fmt.Errorf("panic: %v", r)
		}
	}()
	return validation.ValidateTx(st, tx, minFpg, validation.InBlockTx)
}

// ------------------------------------------------------------------------------------------ chain mode

type fullDump struct {
	accts  map[common.Address]acct
	idents map[common.Address]string
}

func dumpAll(st *state.StateDB, codes *codetab) fullDump {
	d := fullDump{accts: map[common.Address]acct{}, idents: map[common.Address]string{}}
	var addrs []common.Address
	st.IterateOverAccounts(func(a common.Address, _ state.Account) { addrs = append(addrs, a) })
	for _, a := range addrs {
		d.accts[a] = snapAcct(st, a, codes)
	}
	st.IterateOverIdentities(func(a common.Address, id state.Identity) {
		b, _ := id.ToBytes()
		d.idents[a] = hx0(b)
	})
	return d
}

func (cc *caseCtx) runChain(step func() (*types.Block, error)) error {
	n, w := cc.n, cc.w
	snd := chainfx.NewSender(w)
	// baseline: what an empty block does to the ledger
	l0 := n.Ledger()
	if _, err := step(); err != nil {
		return err
	}
	l1 := n.Ledger()
	emptyGrowth := new(big.Int).Sub(l1.Total, l0.Total)
	for cc.idx = 0; cc.idx < cc.cs.N && !cc.bad; cc.idx++ {
		nextHdr := &types.Header{ProposedHeader: &types.ProposedHeader{Height: n.Chain.Head.Height() + 1, Time: n.Chain.Head.Time() + 20}}
		ti, ok := cc.g.next(n.App, nextHdr)
		if !ok {
			continue
		}
		if cc.oneChain(snd, ti, emptyGrowth) {
			break
		}
	}
	return nil
}

// oneChain: one transaction in its own block on the real chain (pool -> ProposeBlock -> AddBlock), with the recording
// run on a check state under the proposed header, full state dumps around the block and all oracles. Returns true
// when the case cannot continue.
func (cc *caseCtx) oneChain(snd *chainfx.Sender, ti txInfo, emptyGrowth *big.Int) bool {
	c, n, w := cc.c, cc.n, cc.w
	god := w.Addrs[0]
	ki := w.Index(ti.Sender)
	stx, err := snd.Send(n, ki, ti.Tx)
	if err != nil {
		c.Hit("rejected-by-pool:" + kindName(ti.Tx.Type))
		if len(c.Rep.Notes) < 8 {
			c.Rep.Notes = append(c.Rep.Notes, fmt.Sprintf("pool refused %s: %v", ti.Desc, err))
		}
		cc.g.rejected(ti)
		return false
	}
	ti.Tx = stx
	chainfx.Advance(20 * time.Second)
	p, err := n.Propose()
	if err != nil {
		cc.fail("C15:propose-failed", err.Error())
		return true
	}
	blk := p.Block
	if len(blk.Body.Transactions) != 1 || blk.Body.Transactions[0].Hash() != stx.Hash() {
		c.Hit("chain:not-included")
		cc.g.rejected(ti)
		if err := n.Add(blk); err != nil {
			cc.fail("C15:own-block-rejected", err.Error())
			return true
		}
		return false
	}
	isContract := stx.Type == types.DeployContractTx || stx.Type == types.CallContractTx || stx.Type == types.TerminateContractTx
	var run *txRun
	var ids *idtab
	var bp applied
	var txFee, fpg *big.Int
	var gl int64
	if isContract {
		B, err := n.App.ForCheck(n.Chain.Head.Height())
		if err != nil {
			cc.fail("C15:harness-forcheck", err.Error())
			return true
		}
		fpg = new(big.Int).Set(n.App.State.FeePerGas())
		txFee = n.Chain.C15TxFee(n.App, stx)
		gl = n.Chain.C15GasLimit(n.App, stx)
		ids = newIdtab()
		run = &txRun{tr: &trace{ids: ids, codes: cc.codes}}
		ids.id(ti.Sender)
		ca := cc.g.contractAddr(n.App, ti)
		run.tr.contract = &ca
		ids.id(ca)
		bp = applyWith(n, B, blk.Header, stx, func(v vm.VM) vm.VM { return &recVM{real: v, run: run} })
	}
	before := dumpAll(n.App.State, cc.codes)
	lb := n.Ledger()
	if err := n.Add(blk); err != nil {
		cc.fail("C15:own-block-rejected", fmt.Sprintf("%s: %v", ti.Desc, err))
		return true
	}
	sharedConstants(cc.fail, "chain: "+ti.Desc)
	after := dumpAll(n.App.State, cc.codes)
	la := n.Ledger()
	if !isContract {
		cc.g.applied(ti, applied{}, n.App)
		c.Hit("aux-tx")
		return false
	}
	rc := n.Chain.GetReceipt(stx.Hash())
	if rc == nil {
		cc.fail("C15:no-receipt", ti.Desc)
		return true
	}
	// the chain's result in the shape of `applied` (fee = what the receipt and the fee rule say)
	ap := applied{rc: rc, fee: new(big.Int).Add(txFee, rc.GasCost)}
	if rcStr(ap) != rcStr(bp) {
		cc.fail("C15:recorder-diverges", fmt.Sprintf("%s: chain receipt %s vs recording Run %s", ti.Desc, rcStr(ap), rcStr(bp)))
	}
	pre := make([]acct, len(ids.list))
	post := make([]acct, len(ids.list))
	get := func(d fullDump, a common.Address) acct {
		if x, ok := d.accts[a]; ok {
			return x
		}
		return acct{Bal: new(big.Int)}
	}
	skip := map[int]bool{}
	for i, a := range ids.list {
		pre[i], post[i] = get(before, a), get(after, a)
		if a == god {
			skip[i+1] = true // the proposer's balance also receives the block reward
		}
	}
	cc.account(ti, run, ap)
	if !skip[ids.id(ti.Sender)] {
		emit(c, "chain", ti, run, ids, pre, post, ap, gl, txFee, fpg, n.Cfg.Consensus.EnableUpgrade11, skip)
	}
	burns := burnsOf(run.tr, pre)
	if len(skip) == 0 {
		oracle(cc.fail, ti, ids, pre, post, ap, txFee, fpg, burns, "chain")
		gasOracle(cc.fail, ti, run, gl, ap, "chain")
	}
	// full-state oracle: nothing outside the touched set (and the proposer) changed; identities untouched
	touched := map[common.Address]bool{god: true}
	for _, a := range ids.list {
		touched[a] = true
	}
	for a, x := range after.accts {
		if touched[a] {
			return false
		}
		if y, ok := before.accts[a]; !ok || !x.equal(y) {
			cc.fail("C15:untouched-account-changed", fmt.Sprintf("%s: %s: %s -> %s", ti.Desc, a.Hex(), before.accts[a], x))
		}
	}
	for a, y := range before.accts {
		if _, ok := after.accts[a]; !ok && !touched[a] && (y.Bal.Sign() != 0 || y.HasCon || y.Nonce != 0 || len(y.Store) > 0) {
			cc.fail("C15:untouched-account-changed", fmt.Sprintf("%s: %s vanished: %s", ti.Desc, a.Hex(), y))
		}
	}
	for a, x := range after.idents {
		if a != god && before.idents[a] != x {
			cc.fail("C15:identity-changed-by-contract-tx", fmt.Sprintf("%s: identity %s", ti.Desc, a.Hex()))
		}
	}
	if !rc.Success {
		// failed: every account except sender (fee, nonce) and proposer (reward) is byte-identical, all stores too
		for a, x := range after.accts {
			if a == god || a == ti.Sender {
				return false
			}
			if y, ok := before.accts[a]; !ok || !x.equal(y) {
				cc.fail("C15:failed-tx-left-trace", fmt.Sprintf("%s failed (%v): %s: %s -> %s", ti.Desc, rc.Error, a.Hex(), before.accts[a], x))
			}
		}
		if ti.Sender != god {
			x, y := after.accts[ti.Sender], before.accts[ti.Sender]
			if x.conStr() != y.conStr() || x.storeStr() != y.storeStr() {
				cc.fail("C15:failed-tx-left-trace", fmt.Sprintf("%s failed: sender %s -> %s", ti.Desc, y, x))
			}
		}
	}
	// ledger: growth of the whole ledger <= growth of an empty block - burns (fees are partly burnt, never minted)
	if len(la.Negative) > 0 {
		cc.fail("C15:negative-balance", fmt.Sprintf("%s: %v", ti.Desc, la.Negative))
	}
	growth := new(big.Int).Sub(la.Total, lb.Total)
	bound := new(big.Int).Set(emptyGrowth)
	if rc.Success {
		bound.Sub(bound, burns)
	}
	if growth.Cmp(bound) > 0 {
		cc.fail("C15:ledger-grew", fmt.Sprintf("%s: ledger total grew by %s > empty-block growth %s - burns %s", ti.Desc, growth, emptyGrowth, burns))
	}
	cc.g.applied(ti, ap, n.App)
	c.Rep.Evaluations++
	return false
}

var _ = bytes.Compare
