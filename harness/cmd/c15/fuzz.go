package main

// Synthetic traces on the REAL environments (no contract, no wasm runtime): the theorems quantify over every call trace,
// the real contracts only produce some.  envFuzz drives a real *env.EnvImp, hostFuzz a real *wasm.WasmEnv tree, with
// arbitrary call sequences (refused transfers, negative amounts, oversized keys, bad event names, writes during an
// iteration, repeated Deploy / Terminate, MoveToStake on deployed / dropped contracts, deep nesting, commits of the root
// in the middle, abandoned sub-environments) through the same recording decorators; the Lean model has to predict every
// result, the gas counter and the state after Commit / without it.  Oracle: no balance may end negative.

import (
	"fmt"
	"math/big"

	"github.com/idena-network/idena-go/blockchain/types"
	"github.com/idena-network/idena-go/common"
	"github.com/idena-network/idena-go/core/appstate"
	"github.com/idena-network/idena-go/vm/env"
	"github.com/idena-network/idena-go/vm/wasm"
	"github.com/idena-network/idena-wasm-binding/lib"
)

var fuzzKeys = [][]byte{[]byte("a"), []byte("b"), []byte("ab"), []byte("k1"), []byte("k2"), {0x00}, {0xff, 0x01}, []byte("zz"),
	[]byte("0123456789012345678901234567890123456789")} // the last one is longer than MaxContractStoreKeyLength

func (cc *caseCtx) fuzzAddr(i int) common.Address { return common.Address{0xF0, byte(i)} }

func (cc *caseCtx) prepFuzzState(F *appstate.AppState) {
	r := cc.r
	for i := 0; i < 5; i++ {
		a := cc.fuzzAddr(i)
		F.State.SetBalance(a, big.NewInt(int64(r.Intn(5000))))
		if i < 3 {
			var h common.Hash
			h.SetBytes([]byte{byte(1 + r.Intn(5))})
			F.State.DeployContract(a, h, big.NewInt(int64(r.Intn(3)*(100+r.Intn(1000))+r.Intn(2))))
		}
		for k := 0; k < r.Intn(4); k++ {
			F.State.SetContractValue(a, fuzzKeys[r.Intn(8)], []byte{byte(r.Intn(256)), byte(k)})
		}
	}
}

func (cc *caseCtx) amtAround(b *big.Int) *big.Int {
	r := cc.r
	switch r.Intn(8) {
	case 0:
		return new(big.Int).Set(b)
	case 1:
		return new(big.Int).Add(b, big.NewInt(1))
	case 2:
		return big.NewInt(-int64(1 + r.Intn(9)))
	case 3:
		return big.NewInt(0)
	case 4:
		return new(big.Int).Quo(b, big.NewInt(2))
	}
	return big.NewInt(int64(r.Intn(3000)))
}

type fuzzOut struct {
	ids       *idtab
	tr        *trace
	pre, post []acct
	wasm      bool
	limit     int64
	ok        bool
	gas       int
}

func (cc *caseCtx) emitFuzz(f fuzzOut, contract common.Address) {
	c := cc.c
	w := 0
	if f.wasm {
		w = 1
	}
	c.Line("new fuzz", "ok")
	c.Line(fmt.Sprintf("fz %d %d %d", w, f.ids.id(contract), f.limit), "ok")
	for i, a := range f.pre {
		id := i + 1
		c.Line(fmt.Sprintf("i bal %d %s", id, a.Bal), "ok")
		if a.HasCon {
			c.Line(fmt.Sprintf("i con %d %s %d", id, a.stakeTok(), a.Code), "ok")
		}
		for _, kv := range a.Order {
			c.Line(fmt.Sprintf("i st %d %s %s", id, kv[0], kv[1]), "ok")
		}
	}
	for _, e := range f.tr.evs {
		c.Line("c "+e.Op, e.Res)
	}
	v := "fail"
	if f.ok {
		v = "ok"
	}
	c.Line("endraw "+v, "ok")
	sharedConstants(cc.fail, "synthetic trace on the real environment")
	for i, a := range f.post {
		id := i + 1
		c.Line(fmt.Sprintf("q bal %d", id), "n"+a.Bal.String())
		c.Line(fmt.Sprintf("q con %d", id), a.conStr())
		c.Line(fmt.Sprintf("q st %d", id), a.storeStr())
		if a.Bal.Sign() < 0 || a.stake0().Sign() < 0 {
			cc.fail("C15:negative-balance", fmt.Sprintf("synthetic trace on the real environment: address #%d ends with %s", id, a))
		}
	}
	c.Rep.Evaluations++
	kind := "envfuzz"
	if f.wasm {
		kind = "hostfuzz"
	}
	c.Hit(fmt.Sprintf("%s:traces", kind))
	seen := map[string]bool{}
	for _, e := range f.tr.evs {
		var a, b, d string
		fmt.Sscan(e.Op, &a, &b)
		name := a
		if f.wasm {
			name = b
		}
		fmt.Sscan(e.Res, &d)
		if len(d) > 0 && (d[0] == 'n' || d[0] == 'v' || d[0] == 'c') && d != "err" {
			d = "val"
		}
		k := kind + ":" + name + "=" + d
		if !seen[k] {
			seen[k] = true
			c.Hit(k)
		}
	}
	c.Distinct(fmt.Sprintf("fuzz|%v|%d|%v", f.wasm, len(f.tr.evs), f.tr.evs))
}

// envFuzz: one synthetic trace on a real EnvImp over F.
func (cc *caseCtx) envFuzz(F *appstate.AppState, hdr *types.Header) {
	r := cc.r
	ids := newIdtab()
	t := &trace{ids: ids, codes: cc.codes}
	gc := new(env.GasCounter)
	limit := int64(-1)
	switch r.Intn(4) {
	case 0:
		limit = int64(r.Intn(600))
		if r.Intn(4) == 0 {
			limit = 0 // a limit of exactly zero is a limit, not "unlimited"
		}
	case 1:
		limit = int64(r.Intn(4000))
	case 2:
		limit = 100000
	}
	gc.Reset(int(limit))
	e := env.NewEnvImp(F, hdr, gc, nil)
	t.gas = func() int { return gc.UsedGas }
	re := &recEnv{in: e, t: t}
	nc := 1 + r.Intn(2)
	ctxs := make([]env.CallContext, nc)
	from := cc.w.Addrs[1]
	for i := range ctxs {
		to := cc.fuzzAddr(r.Intn(5))
		var h common.Hash
		h.SetBytes([]byte{byte(1 + r.Intn(5))})
		tx := &types.Transaction{Type: types.CallContractTx, To: &to, Amount: big.NewInt(int64(r.Intn(4) * (1 + r.Intn(900)))), AccountNonce: 1}
		ctxs[i] = env.NewCallContextImpl(tx, &from, h)
		ids.id(to)
	}
	main := ctxs[0].ContractAddr()
	for i := 0; i < 5; i++ {
		ids.id(cc.fuzzAddr(i))
	}
	pre := make([]acct, 0, 8)
	snapAll := func() []acct {
		out := make([]acct, len(ids.list))
		for i, a := range ids.list {
			out[i] = snapAcct(F.State, a, cc.codes)
		}
		return out
	}
	pre = snapAll()
	nPre := len(ids.list)
	dead := false
	var op func(depth int)
	op = func(depth int) {
		ctx := ctxs[r.Intn(nc)]
		key := fuzzKeys[r.Intn(len(fuzzKeys)-1)]
		if r.Intn(40) == 0 {
			key = fuzzKeys[len(fuzzKeys)-1]
		}
		other := cc.fuzzAddr(r.Intn(5))
		switch r.Intn(19) {
		case 0, 1:
			val := []byte{byte(r.Intn(256))}
			switch r.Intn(4) {
			case 0:
				val = nil
			case 1:
				val = make([]byte, r.Intn(40))
			}
			re.SetValue(ctx, key, val)
		case 2:
			re.GetValue(ctx, key)
		case 3:
			re.ReadContractData(other, key)
		case 4:
			re.RemoveValue(ctx, key)
		case 5, 6, 7:
			re.Send(ctx, other, cc.amtAround(e.C15Balance(ctx.ContractAddr())))
		case 8:
			re.Balance(other)
		case 9:
			re.ContractStake(other)
		case 10:
			re.MoveToStake(ctx, cc.amtAround(e.C15Balance(ctx.ContractAddr())))
		case 11:
			re.BurnAll(ctx)
		case 12:
			name := []string{"ev", "", "reward", "nöt-ascii", "0123456789012345678901234567890123", "a\nb"}[r.Intn(6)]
			re.Event(name, make([]byte, r.Intn(20)))
		case 13:
			if r.Intn(3) == 0 {
				t.recDeploy(ctx, func() { e.Deploy(ctx) })
			} else {
				re.Epoch()
			}
		case 14:
			if r.Intn(3) == 0 {
				var keep [][]byte
				for k := 0; k < r.Intn(3); k++ {
					keep = append(keep, fuzzKeys[r.Intn(8)])
				}
				t.recTerminate(ctx, keep, other, func() { e.Terminate(ctx, keep, other) })
			} else {
				re.BlockNumber()
			}
		case 15, 16:
			if depth < 2 {
				var lo, hi []byte
				if r.Intn(3) == 0 {
					lo = fuzzKeys[r.Intn(8)]
				}
				if r.Intn(3) == 0 {
					hi = fuzzKeys[r.Intn(8)]
				}
				re.Iterate(ctx, lo, hi, func(k, v []byte) bool {
					for j := 0; j < r.Intn(3); j++ {
						op(depth + 1)
					}
					return r.Intn(5) == 0
				})
			}
		case 17:
			re.DiscriminationFlags(other)
		default:
			re.State(other)
		}
	}
	n := 1 + r.Intn(25)
	func() {
		defer func() {
			if rec := recover(); rec != nil {
				dead = true
			}
		}()
		for i := 0; i < n; i++ {
			op(0)
		}
	}()
	ok := !dead && r.Intn(10) < 7
	if ok {
		t.recCommit(func() { e.Commit() })
	}
	// addresses first seen during the trace were not snapshotted before: they are untouched by construction only if
	// nothing was committed; take their pre-state from a second look at what the trace could not have changed
	if len(ids.list) != nPre {
		cc.fail("C15:harness-fuzz-ids", "address table grew during a synthetic trace")
		return
	}
	cc.emitFuzz(fuzzOut{ids: ids, tr: t, pre: pre, post: snapAll(), limit: limit, ok: ok, gas: gc.UsedGas}, main)
}

// hostFuzz: one synthetic trace on a real WasmEnv tree over F.
func (cc *caseCtx) hostFuzz(F *appstate.AppState, hdr *types.Header) {
	r := cc.r
	ids := newIdtab()
	t := &trace{ids: ids, codes: cc.codes, wasm: true}
	to := cc.fuzzAddr(r.Intn(5))
	tx := &types.Transaction{Type: types.CallContractTx, To: &to, Amount: big.NewInt(int64(r.Intn(3) * r.Intn(500))), AccountNonce: 1}
	ctx := wasm.NewContractContext(tx)
	root := wasm.NewWasmEnv(F, cc.n.Chain, ctx, hdr, "fuzz", false, true, cc.n.Cfg.Consensus.EnableUpgrade12, nil)
	ids.id(to)
	for i := 0; i < 5; i++ {
		ids.id(cc.fuzzAddr(i))
	}
	snapAll := func() []acct {
		out := make([]acct, len(ids.list))
		for i, a := range ids.list {
			out[i] = snapAcct(F.State, a, cc.codes)
		}
		return out
	}
	// code blobs the trace may deploy: make their ids known before the pre-state is written
	blobs := [][]byte{{1, 2, 3}, {4, 5}, {6}}
	for _, b := range blobs {
		cc.codes.ofCode(b)
	}
	pre := snapAll()
	nPre := len(ids.list)
	stack := []lib.HostEnv{t.wrapHost(root)}
	m := &lib.GasMeter{}
	n := 1 + r.Intn(40)
	deep := r.Intn(12) == 0
	func() {
		defer func() { recover() }()
		for i := 0; i < n; i++ {
			if len(stack) > 1 && r.Intn(7) == 0 {
				stack = stack[:1+r.Intn(len(stack)-1)] // the runtime returns to a parent: everything above it is abandoned
			}
			h := stack[len(stack)-1]
			key := fuzzKeys[r.Intn(8)]
			other := cc.fuzzAddr(r.Intn(5))
			k := r.Intn(20)
			if deep && len(stack) < 19 {
				k = 12
			}
			switch k {
			case 0, 1:
				h.SetStorage(m, key, []byte{byte(r.Intn(256))})
			case 2:
				h.GetStorage(m, key)
			case 3:
				h.ReadContractData(m, other, key)
			case 4:
				h.RemoveStorage(m, key)
			case 5:
				h.Balance(m)
			case 6, 7:
				h.SubBalance(m, cc.amtAround(h.(*recHost).in.Balance(&lib.GasMeter{})))
			case 8, 9:
				h.AddBalance(m, other, big.NewInt(int64(r.Intn(3)*r.Intn(800))))
			case 10:
				h.Burn(m, cc.amtAround(h.(*recHost).in.Balance(&lib.GasMeter{})))
			case 11, 12, 13:
				pay := big.NewInt(int64(r.Intn(3) * r.Intn(600)))
				if r.Intn(15) == 0 {
					pay = big.NewInt(-3)
				}
				sub, err := h.CreateSubEnv(other, "m", pay, r.Intn(3) == 0)
				if err == nil {
					stack = append(stack, sub)
				}
			case 14, 15, 16:
				h.Commit()
			case 17:
				h.Deploy(blobs[r.Intn(len(blobs))])
			case 18:
				if r.Intn(2) == 0 {
					h.GetCode(other)
				} else {
					h.ContractCodeHash(other)
				}
			default:
				h.Event(m, []string{"ev", "", "rewärd"}[r.Intn(3)], []byte{1})
			}
		}
	}()
	ok := r.Intn(2) == 0
	if ok {
		t.recCommit(func() { root.InternalCommit() })
	}
	if len(ids.list) != nPre {
		cc.fail("C15:harness-fuzz-ids", "address table grew during a synthetic trace")
		return
	}
	cc.emitFuzz(fuzzOut{ids: ids, tr: t, pre: pre, post: snapAll(), wasm: true, ok: ok}, to)
}

func (cc *caseCtx) runFuzz() error {
	n := cc.n
	F, err := n.App.ForCheck(n.Chain.Head.Height())
	if err != nil {
		return err
	}
	cc.prepFuzzState(F)
	var seed types.Seed
	hdr := &types.Header{ProposedHeader: &types.ProposedHeader{Height: n.Chain.Head.Height() + 1, Time: n.Chain.Head.Time() + 20, BlockSeed: seed}}
	for cc.idx = 0; cc.idx < cc.cs.N && !cc.bad; cc.idx++ {
		if cc.idx%2 == 0 {
			cc.envFuzz(F, hdr)
		} else {
			cc.hostFuzz(F, hdr)
		}
		if cc.idx%40 == 39 {
			cc.prepFuzzState(F)
		}
	}
	return nil
}
