package main

// Generator: deploy / call / terminate sequences over every embedded contract type (guided lifecycles so that deep
// states are reached, plus arbitrary method names and argument vectors) and the bundled wasm contracts.

import (
	"fmt"
	"math/big"
	"math/rand"
	"sort"

	"github.com/idena-network/idena-go/blockchain/attachments"
	"github.com/idena-network/idena-go/blockchain/fee"
	"github.com/idena-network/idena-go/blockchain/types"
	"github.com/idena-network/idena-go/common"
	"github.com/idena-network/idena-go/core/appstate"
	"github.com/idena-network/idena-go/crypto"
	"github.com/idena-network/idena-go/vm/embedded"
	"github.com/idena-network/idena-go/vm/env"
	"github.com/idena-network/idena-go/vm/wasm"
	"github.com/idena-network/idena-go/vm/wasm/testdata"
)

type vote struct {
	v    byte
	salt []byte
}

type contract struct {
	addr   common.Address
	typ    int    // 1..5 embedded, 0 wasm
	wname  string // wasm: erc20 | inc | sum | wallet | cases
	owner  int
	votes  map[int]vote // oracle voting: proofs sent per key index
	phase  int          // oracle voting: 0 pending, 1 started, 2 finished (generator's belief)
	dead   bool
	height uint64 // header height at start of voting
	voters []int  // multisig: key indexes the owner tried to add
}

type pending struct {
	c    *contract // contract a successful deploy creates
	hook func(ok bool)
}

type gen struct {
	cc        *caseCtx
	r         *rand.Rand
	contracts []*contract
	wasmCode  map[string][]byte
	wnonce    int
	focus     *contract // a voting contract the guided calls concentrate on for a while
	lowGas    bool      // block mode, inside a multi-tx block: many executions that run out of gas after writing
	jump      uint64    // shadow mode: extra blocks the next fabricated header skips
	lateTerm  *contract // voting contract to terminate after the jump
}

func newGen(cc *caseCtx) *gen {
	g := &gen{cc: cc, r: cc.r, wasmCode: map[string][]byte{}}
	g.wasmCode["erc20"], _ = testdata.Erc20()
	g.wasmCode["inc"], _ = testdata.IncFunc()
	g.wasmCode["sum"], _ = testdata.SumFunc()
	g.wasmCode["wallet"], _ = testdata.SharedFungibleToken()
	g.wasmCode["cases"], _ = testdata.TestCases()
	return g
}

var embeddedTypes = []common.Hash{embedded.TimeLockContract, embedded.OracleVotingContract, embedded.OracleLockContract,
	embedded.RefundableOracleLockContract, embedded.MultisigContract}

func u64(v uint64) []byte { return common.ToBytes(v) }

func (g *gen) user() int { return 1 + g.r.Intn(len(g.cc.w.Keys)-1) }

func (g *gen) anyAddr() common.Address {
	switch g.r.Intn(6) {
	case 0:
		return common.Address{}
	case 1:
		if len(g.contracts) > 0 {
			return g.contracts[g.r.Intn(len(g.contracts))].addr
		}
	case 2:
		return common.Address{0xAA, byte(g.r.Intn(4))}
	}
	return g.cc.w.Addrs[g.user()]
}

func (g *gen) junkArgs() [][]byte {
	n := g.r.Intn(5)
	args := make([][]byte, n)
	for i := range args {
		switch g.r.Intn(6) {
		case 0:
			args[i] = nil
		case 1:
			args[i] = []byte{}
		case 2:
			args[i] = u64(uint64(g.r.Intn(1000)))
		case 3:
			args[i] = g.anyAddr().Bytes()
		case 4:
			args[i] = chainfx_dna(int64(g.r.Intn(500))).Bytes()
		default:
			b := make([]byte, 1+g.r.Intn(40))
			g.r.Read(b)
			args[i] = b
		}
	}
	return args
}

func chainfx_dna(n int64) *big.Int { return new(big.Int).Mul(big.NewInt(n), common.DnaBase) }

var junkMethods = []string{"", "transfer", "push", "deposit", "nosuch", "deploy", "terminate", "add", "send", "refund", "startVoting",
	"finishVoting", "inc", "invoke", "test", "transferTo", "_sum", "_deployCallback", "receive", "allocate", "checkOracleVoting", "addStake", "prolongVoting"}

func (g *gen) find(pred func(*contract) bool) *contract {
	var c []*contract
	for _, x := range g.contracts {
		if !x.dead && pred(x) {
			c = append(c, x)
		}
	}
	if len(c) == 0 {
		return nil
	}
	return c[g.r.Intn(len(c))]
}

// next builds (and in shadow mode signs) the next transaction against the given state.
func (g *gen) next(st *appstate.AppState, hdr *types.Header) (txInfo, bool) {
	r := g.r
	fpg := st.State.FeePerGas()
	now := uint64(hdr.Time())
	var tx *types.Transaction
	var desc string
	var pd pending
	sender := g.user()
	big0 := false // maxFee budget class
	lateBudget := false
	deployE := func(typ int, args [][]byte, what string) {
		p, _ := attachments.CreateDeployContractAttachment(embeddedTypes[typ-1], nil, nil, args...).ToBytes()
		amt := new(big.Int).Mul(fpg, big.NewInt(3000000))
		switch r.Intn(10) {
		case 0:
			amt.Sub(amt, big.NewInt(1)) // below the minimum stake: validation refuses
		case 1, 2:
			amt.Add(amt, chainfx_dna(int64(r.Intn(50))))
		case 3:
			amt.Add(amt, big.NewInt(int64(r.Intn(7)))) // odd stake (termination halves it)
		}
		tx = &types.Transaction{Type: types.DeployContractTx, Amount: amt, Payload: p}
		desc = fmt.Sprintf("deploy-%s", what)
		pd.c = &contract{typ: typ, owner: sender, votes: map[int]vote{}}
	}
	call := func(c *contract, method string, amt *big.Int, args ...[]byte) {
		p, _ := attachments.CreateCallContractAttachment(method, args...).ToBytes()
		a := c.addr
		tx = &types.Transaction{Type: types.CallContractTx, To: &a, Amount: amt, Payload: p}
		desc = fmt.Sprintf("call-%s.%s", cname(c), method)
	}
	someAmt := func() *big.Int {
		switch r.Intn(5) {
		case 0:
			return nil
		case 1:
			return big.NewInt(int64(r.Intn(1000)))
		case 2:
			return chainfx_dna(int64(1 + r.Intn(40)))
		case 3:
			return new(big.Int).Mul(fpg, big.NewInt(int64(10000+r.Intn(100000))))
		}
		return big.NewInt(0)
	}
	balOf := func(a common.Address) *big.Int { return st.State.GetBalance(a) }
	amtAround := func(b *big.Int) *big.Int { // amounts around a balance: below, equal, above
		switch r.Intn(5) {
		case 0:
			return new(big.Int).Set(b)
		case 1:
			return new(big.Int).Add(b, big.NewInt(1))
		case 2:
			return new(big.Int).Mul(b, big.NewInt(2))
		case 3:
			return new(big.Int).Quo(b, big.NewInt(int64(2+r.Intn(3))))
		}
		return big.NewInt(int64(r.Intn(100000)))
	}

	choice := r.Intn(100)
	if g.lateTerm != nil {
		c := g.lateTerm
		g.lateTerm = nil
		if r.Intn(4) != 0 {
			sender = c.owner
		}
		p, _ := attachments.CreateTerminateContractAttachment(g.cc.w.Addrs[g.user()].Bytes()).ToBytes()
		a := c.addr
		tx = &types.Transaction{Type: types.TerminateContractTx, To: &a, Payload: p}
		if !g.cc.n.Cfg.Consensus.EnableUpgrade11 {
			tx.Amount = chainfx_dna(int64(1 + r.Intn(5000)))
		}
		desc = "late-terminate-" + cname(c)
		lateBudget = c.typ == 2
		cc := c
		pd.hook = func(ok bool) {
			if ok {
				cc.dead = true
			}
		}
		choice = -1
	}
	switch {
	case choice < 0:
	case choice < 14 || len(g.contracts) == 0: // embedded deploy
		typ := 1 + r.Intn(5)
		if r.Intn(6) == 0 {
			deployE(typ, g.junkArgs(), fmt.Sprint("junk-", typ))
			break
		}
		switch typ {
		case 1:
			ts := now
			switch r.Intn(3) {
			case 0:
				ts = now - 1000
			case 1:
				ts = now + uint64(r.Intn(3000))
			}
			deployE(1, [][]byte{u64(ts)}, "timelock")
		case 2:
			vd := uint64(2 + r.Intn(5))
			if g.cc.cs.Mode == "shadow" {
				vd = uint64(30 + r.Intn(200))
			}
			quorum := byte(1)
			if r.Intn(4) == 0 {
				quorum = byte(2 + r.Intn(20))
			}
			pvd := uint64(100)
			if g.cc.cs.Mode == "shadow" && r.Intn(4) != 0 {
				pvd = 4000
			}
			args := [][]byte{[]byte("fact"), u64(now - uint64(r.Intn(100))), u64(vd), u64(pvd), {byte(51 + r.Intn(20))},
				{quorum}, u64(uint64(50 + r.Intn(200))), big.NewInt(int64(1 + r.Intn(1000))).Bytes(), {byte(r.Intn(3) * 10)}}
			if r.Intn(3) == 0 {
				args = append(args, chainfx_dna(int64(r.Intn(100))).Bytes(), g.anyAddr().Bytes())
			}
			if r.Intn(4) == 0 {
				args = args[:2+r.Intn(len(args)-2)]
			}
			deployE(2, args, "voting")
		case 3:
			ov := g.anyAddr()
			if c := g.find(func(c *contract) bool { return c.typ == 2 }); c != nil && r.Intn(4) != 0 {
				ov = c.addr
			}
			deployE(3, [][]byte{ov.Bytes(), {byte(r.Intn(3))}, g.anyAddr().Bytes(), g.anyAddr().Bytes()}, "oraclelock")
		case 4:
			ov := g.anyAddr()
			if c := g.find(func(c *contract) bool { return c.typ == 2 }); c != nil && r.Intn(4) != 0 {
				ov = c.addr
			}
			args := [][]byte{ov.Bytes(), {byte(r.Intn(3))}, g.anyAddr().Bytes(), g.anyAddr().Bytes(), u64(uint64(r.Intn(50))), u64(now + uint64(r.Intn(20000))), u64(uint64(r.Intn(2000)))}
			if r.Intn(3) == 0 {
				args[2], args[3] = nil, nil
			}
			deployE(4, args, "refundlock")
		case 5:
			mx := byte(1 + r.Intn(3))
			deployE(5, [][]byte{{mx}, {byte(1 + r.Intn(int(mx)))}}, "multisig")
		}
	case choice < 24: // wasm deploy
		names := []string{"erc20", "inc", "sum", "wallet", "cases"}
		nm := names[r.Intn(len(names))]
		var args [][]byte
		switch nm {
		case "sum":
			a := g.anyAddr()
			if c := g.find(func(c *contract) bool { return c.wname == "inc" }); c != nil && r.Intn(5) != 0 {
				a = c.addr
			}
			args = [][]byte{a.Bytes()}
		case "wallet":
			args = [][]byte{g.cc.w.Addrs[sender].Bytes(), g.anyAddr().Bytes()}
		}
		if r.Intn(8) == 0 {
			args = g.junkArgs()
		}
		g.wnonce++
		nonce := []byte{byte(g.wnonce), byte(g.wnonce >> 8)}
		if r.Intn(10) == 0 && g.wnonce > 1 {
			nonce = []byte{byte(g.wnonce - 1), byte((g.wnonce - 1) >> 8)} // same address as an earlier deployment (if same code/args)
		}
		codeHash := common.Hash{}
		if r.Intn(10) == 0 {
			codeHash = embeddedTypes[r.Intn(5)] // embedded hash AND code: the wasm path wins
		}
		p, _ := attachments.CreateDeployContractAttachment(codeHash, g.wasmCode[nm], nonce, args...).ToBytes()
		tx = &types.Transaction{Type: types.DeployContractTx, Amount: someAmt(), Payload: p}
		desc = "deploy-wasm-" + nm
		pd.c = &contract{wname: nm, owner: sender}
		big0 = true
	case choice < 32: // fund a contract with a plain send
		c := g.contracts[r.Intn(len(g.contracts))]
		a := c.addr
		amt := someAmt()
		if c.typ == 2 && r.Intn(2) == 0 {
			amt = chainfx_dna(int64(5000 + r.Intn(500)))
		}
		if c.typ == 0 && r.Intn(2) == 0 {
			amt = chainfx_dna(int64(100 + r.Intn(2000))) // sub-deployments / cross-contract calls with pay amounts
		}
		if (c.typ == 1 || c.typ == 5) && balOf(a).Sign() == 0 && r.Intn(2) == 0 {
			// dust: 0 < balance <= 100 * fee per gas is what TimeLock / Multisig burn (BurnAll) when terminated
			amt = new(big.Int).Add(big.NewInt(1), new(big.Int).Rand(r, new(big.Int).Mul(fpg, big.NewInt(101))))
		}
		tx = &types.Transaction{Type: types.SendTx, To: &a, Amount: amt}
		desc = "fund-" + cname(c)
	case choice < 42: // terminate
		c := g.contracts[r.Intn(len(g.contracts))]
		if d := g.find(func(x *contract) bool {
			b := balOf(x.addr)
			return (x.typ == 1 || x.typ == 5) && b.Sign() > 0 && b.Cmp(new(big.Int).Mul(fpg, big.NewInt(100))) <= 0
		}); d != nil && r.Intn(2) == 0 {
			c = d // a contract holding dust
		}
		if c.typ != 0 && r.Intn(3) != 0 {
			sender = c.owner
		}
		args := [][]byte{g.cc.w.Addrs[g.user()].Bytes()}
		switch r.Intn(8) { // aliasing destinations of the stake refund
		case 0, 1:
			args = [][]byte{c.addr.Bytes()} // the contract itself
		case 2:
			args = [][]byte{g.cc.w.Addrs[sender].Bytes()}
		case 3:
			args = [][]byte{common.Address{}.Bytes()}
		case 4:
			args = [][]byte{g.contracts[r.Intn(len(g.contracts))].addr.Bytes()}
		}
		if r.Intn(8) == 0 {
			args = g.junkArgs()
		}
		p, _ := attachments.CreateTerminateContractAttachment(args...).ToBytes()
		a := c.addr
		tx = &types.Transaction{Type: types.TerminateContractTx, To: &a, Payload: p}
		if !g.cc.n.Cfg.Consensus.EnableUpgrade11 && r.Intn(2) == 0 {
			tx.Amount = someAmt() // before upgrade 11 a termination may carry an amount (it is not debited, blockchain.go:1697)
		}
		desc = "terminate-" + cname(c)
		cc := c
		pd.hook = func(ok bool) {
			if ok {
				cc.dead = true
			}
		}
	case choice < 50: // arbitrary method / arguments on any contract
		c := g.contracts[r.Intn(len(g.contracts))]
		call(c, junkMethods[r.Intn(len(junkMethods))], someAmt(), g.junkArgs()...)
		desc = "junk-" + desc
	default: // guided call
		c := g.find(func(*contract) bool { return true })
		if c == nil {
			return txInfo{}, false
		}
		if g.focus == nil || g.focus.dead || r.Intn(40) == 0 {
			g.focus = g.find(func(x *contract) bool { return x.typ == 2 })
		}
		if g.focus != nil && !g.focus.dead && r.Intn(100) < 45 {
			c = g.focus
		}
		if r.Intn(3) != 0 {
			sender = c.owner
		}
		switch {
		case c.typ == 1:
			call(c, "transfer", someAmt(), g.anyAddr().Bytes(), amtAround(balOf(c.addr)).Bytes())
		case c.typ == 2:
			if ftx, fdesc := g.votingCall(st, c, &sender, call, someAmt, hdr); ftx != nil {
				tx, desc = ftx, fdesc
			}
		case c.typ == 3:
			if r.Intn(2) == 0 {
				call(c, "push", someAmt())
			} else {
				call(c, "checkOracleVoting", someAmt())
			}
		case c.typ == 4:
			switch r.Intn(4) {
			case 0, 1:
				sender = g.user()
				call(c, "deposit", new(big.Int).Mul(fpg, big.NewInt(int64(9990+r.Intn(30000)))))
			case 2:
				call(c, "push", someAmt())
			default:
				call(c, "refund", someAmt())
			}
		case c.typ == 5:
			switch r.Intn(4) {
			case 0, 1:
				sender = c.owner
				v := g.user()
				cc := c
				pd.hook = func(ok bool) {
					if ok {
						cc.voters = append(cc.voters, v)
					}
				}
				call(c, "add", nil, g.cc.w.Addrs[v].Bytes())
			case 2:
				sender = g.user()
				if len(c.voters) > 0 && r.Intn(5) != 0 {
					sender = c.voters[r.Intn(len(c.voters))]
				}
				call(c, "send", someAmt(), g.cc.w.Addrs[1+r.Intn(2)].Bytes(), big.NewInt(int64(1+r.Intn(2))*1000).Bytes())
			default:
				call(c, "push", someAmt(), g.cc.w.Addrs[1+r.Intn(2)].Bytes(), big.NewInt(int64(1+r.Intn(2))*1000).Bytes())
			}
		case c.wname == "erc20":
			switch r.Intn(3) {
			case 0:
				call(c, "transfer", someAmt(), g.anyAddr().Bytes(), big.NewInt(int64(r.Intn(2000))).Bytes())
			case 1:
				call(c, "approve", someAmt(), g.anyAddr().Bytes(), big.NewInt(int64(r.Intn(2000))).Bytes())
			default:
				call(c, "transferFrom", someAmt(), g.cc.w.Addrs[c.owner].Bytes(), g.anyAddr().Bytes(), big.NewInt(int64(r.Intn(2000))).Bytes())
			}
			big0 = true
		case c.wname == "inc":
			call(c, "inc", someAmt(), u64(uint64(r.Intn(100))))
			big0 = true
		case c.wname == "sum":
			call(c, "invoke", someAmt(), u64(uint64(r.Intn(100))), u64(uint64(r.Intn(100))))
			big0 = true
		case c.wname == "wallet":
			call(c, "transferTo", someAmt(), g.anyAddr().Bytes(), big.NewInt(int64(r.Intn(300))).Bytes())
			big0 = true
		case c.wname == "cases":
			names := []string{"sum", "inc", "erc20", "cases"}
			call(c, "test", someAmt(), common.ToBytes(uint32(r.Intn(6))), g.wasmCode[names[r.Intn(len(names))]])
			big0 = true
		}
	}
	if tx == nil {
		return txInfo{}, false
	}
	// tips / maxFee: txFee plus a gas budget from several classes (none, a few calls' worth, ample)
	if r.Intn(6) == 0 {
		tx.Tips = big.NewInt(int64(r.Intn(100000)))
	}
	var budget int64
	ample := int64(150000)
	if big0 {
		ample = 3000000
	}
	switch k := r.Intn(10); {
	case k == 0:
		budget = 0
	case k <= 2:
		budget = int64(r.Intn(3000))
		if big0 {
			budget = int64(r.Intn(120000))
		}
	case k == 3:
		budget = int64(r.Intn(400))
		if big0 {
			budget = int64(r.Intn(30000))
		}
	default:
		budget = ample
	}
	if g.cc.cs.Fpg != "" {
		budget = int64(r.Intn(1500))
	}
	if g.cc.cs.Mode == "block" && g.lowGas && !big0 && r.Intn(2) == 0 {
		budget = int64(150 + r.Intn(1200)) // fails somewhere after the first writes
	}
	if lateBudget && r.Intn(4) != 0 {
		budget = int64(200 + r.Intn(3300)) // runs out somewhere inside the termination
	}
	nsz := st.ValidatorsCache.NetworkSize()
	ti := txInfo{Tx: tx, Sender: g.cc.w.Addrs[sender], Desc: desc}
	{
		ep := st.State.Epoch()
		nonce := st.State.GetNonce(ti.Sender)
		if st.State.GetEpoch(ti.Sender) < ep {
			nonce = 0
		}
		tx.AccountNonce, tx.Epoch = nonce+1, ep
	}
	tx.MaxFee = new(big.Int).Mul(fpg, big.NewInt(budget+1000000)) // provisional, for the size
	txFee := fee.CalculateFee(nsz, fpg, tx)
	tx.MaxFee = new(big.Int).Add(txFee, new(big.Int).Mul(fpg, big.NewInt(budget)))
	if len(tx.MaxFee.Bytes()) != len(new(big.Int).Mul(fpg, big.NewInt(budget+1000000)).Bytes()) {
		tx.MaxFee.Add(tx.MaxFee, new(big.Int).Mul(fpg, big.NewInt(20))) // the size changed by a byte
	}
	if r.Intn(3) == 0 {
		tx.MaxFee.Add(tx.MaxFee, new(big.Int).Rand(r, fpg)) // a remainder below one gas unit
	}
	if g.cc.cs.Fpg != "" && r.Intn(2) == 0 {
		// a remainder just below a full gas unit (getGasLimit divides with 16 decimal digits, half-up)
		tx.MaxFee = new(big.Int).Add(txFee, new(big.Int).Mul(fpg, big.NewInt(budget)))
		tx.MaxFee.Add(tx.MaxFee, new(big.Int).Sub(fpg, big.NewInt(int64(1+r.Intn(2)))))
	}
	if r.Intn(7) == 0 && g.cc.cs.Mode != "block" {
		// the boundary of the gas limit, for every kind of contract transaction: maxFee = (exact fee of the signed
		// transaction) + {0, 1, fpg-1, fpg, fpg+1, 2*fpg-1}: the fee buys exactly 0 / 0 / 0 / 1 / 1 / 1 gas units.
		// The fee depends on the signed size, which depends on the byte length of maxFee: fixed point.
		deltas := []*big.Int{big.NewInt(0), big.NewInt(1), new(big.Int).Sub(fpg, big.NewInt(1)), new(big.Int).Set(fpg),
			new(big.Int).Add(fpg, big.NewInt(1)), new(big.Int).Sub(new(big.Int).Mul(fpg, big.NewInt(2)), big.NewInt(1))}
		delta := deltas[r.Intn(len(deltas))]
		maxFee := new(big.Int).Add(txFee, delta)
		for it := 0; it < 5; it++ {
			tx.MaxFee = new(big.Int).Set(maxFee)
			stx, err := types.SignTx(tx, g.cc.w.Keys[sender])
			if err != nil {
				panic(err)
			}
			nf := new(big.Int).Add(fee.CalculateFee(nsz, fpg, stx), delta)
			if nf.Cmp(maxFee) == 0 {
				break
			}
			maxFee = nf
		}
		tx.MaxFee = maxFee
		ti.Desc += "@gas-boundary"
	}
	if g.cc.cs.Mode == "shadow" {
		stx, err := types.SignTx(tx, g.cc.w.Keys[sender])
		if err != nil {
			panic(err)
		}
		ti.Tx = stx
	}
	ti.pd = pd
	return ti, true
}

func cname(c *contract) string {
	if c.typ == 0 {
		return "wasm-" + c.wname
	}
	return []string{"", "timelock", "voting", "oraclelock", "refundlock", "multisig"}[c.typ]
}

func (g *gen) votingCall(st *appstate.AppState, c *contract, sender *int, call func(*contract, string, *big.Int, ...[]byte), someAmt func() *big.Int, hdr *types.Header) (*types.Transaction, string) {
	r := g.r
	u64of := func(key string) uint64 {
		v := st.State.GetContractValue(c.addr, []byte(key))
		if len(v) != 8 {
			return 0
		}
		var x uint64
		for i := 7; i >= 0; i-- {
			x = x<<8 | uint64(v[i])
		}
		return x
	}
	shadow := g.cc.cs.Mode == "shadow"
	switch c.phase {
	case 0:
		dep := new(big.Int).SetBytes(st.State.GetContractValue(c.addr, []byte("ownerDeposit")))
		if st.State.GetBalance(c.addr).Cmp(dep) < 0 && r.Intn(5) != 0 {
			a := c.addr
			amt := new(big.Int).Add(dep, chainfx_dna(int64(r.Intn(30))))
			if r.Intn(6) == 0 {
				amt = new(big.Int).Sub(dep, big.NewInt(1)) // one unit short
			}
			return &types.Transaction{Type: types.SendTx, To: &a, Amount: amt}, "fund-voting"
		}
		if r.Intn(6) == 0 {
			call(c, "addStake", someAmt())
		} else {
			call(c, "startVoting", nil)
		}
	case 1:
		dur := hdr.Height() - u64of("startBlock")
		vd := u64of("votingDuration")
		if shadow && len(c.votes) == 0 && r.Intn(6) == 0 {
			// a started voting nobody took part in, terminated long after its end (stake-dependent delay)
			g.jump, g.lateTerm = 45000+uint64(r.Intn(3000)), c
			call(c, "prolongVoting", nil)
			return nil, ""
		}
		k := r.Intn(10)
		switch {
		case dur < vd && k < 7: // secret vote by an identity
			*sender = []int{1, 2, 3, 5}[r.Intn(4)] // Verified, Newbie, Human, Verified
			if r.Intn(8) == 0 {
				*sender = g.user()
			}
			v := vote{v: byte(r.Intn(2)), salt: []byte{byte(r.Intn(256)), 7}}
			h := crypto.Hash(append(common.ToBytes(v.v), v.salt...))
			call(c, "sendVoteProof", big.NewInt(int64(1000+r.Intn(2000))), h[:])
			if _, ok := c.votes[*sender]; !ok {
				c.votes[*sender] = v
			}
			if shadow && len(c.votes) >= 2 && r.Intn(2) == 0 && vd > dur {
				g.jump = vd - dur // the public voting starts
			}
		case dur >= vd && k < 6: // open vote
			voters := make([]int, 0, len(c.votes))
			for i := range c.votes {
				voters = append(voters, i)
			}
			sort.Ints(voters)
			for _, i := range voters {
				v := c.votes[i]
				if r.Intn(2) == 0 {
					continue
				}
				*sender = i
				salt := v.salt
				if r.Intn(10) == 0 {
					salt = []byte{1}
				}
				call(c, "sendVote", nil, []byte{v.v}, salt)
				return nil, ""
			}
			call(c, "sendVote", nil, []byte{1}, []byte{2})
		case k < 8:
			call(c, "finishVoting", someAmt())
		case k == 8:
			call(c, "prolongVoting", nil)
			if shadow && r.Intn(2) == 0 {
				g.jump = 150
			}
		default:
			call(c, "addStake", someAmt())
		}
	default:
		if shadow && r.Intn(2) == 0 {
			g.jump, g.lateTerm = 45000+uint64(r.Intn(3000)), c
		}
		call(c, "finishVoting", nil)
	}
	return nil, ""
}

func (g *gen) contractAddr(st *appstate.AppState, ti txInfo) common.Address {
	tx := ti.Tx
	if tx.Type == types.DeployContractTx {
		if a := attachments.ParseDeployContractAttachment(tx); a != nil && len(a.Code) > 0 {
			return wasm.CreateContractAddr(tx)
		}
		return env.ComputeContractAddr(tx, ti.Sender)
	}
	if tx.To != nil {
		return *tx.To
	}
	return common.Address{}
}

func (g *gen) take(ti txInfo) pending { return ti.pd }

func (g *gen) rejected(ti txInfo) { g.take(ti) }

// applied: the generator learns from the (untouched path's) outcome which contracts exist and in which phase.
func (g *gen) applied(ti txInfo, ap applied, st *appstate.AppState) {
	pd := g.take(ti)
	ok := ap.rc != nil && ap.rc.Success
	if pd.c != nil && ok {
		pd.c.addr = g.contractAddr(st, ti)
		dup := false
		for _, x := range g.contracts {
			if x.addr == pd.c.addr {
				dup = true
			}
		}
		if !dup {
			g.contracts = append(g.contracts, pd.c)
			if !g.cc.n.Cfg.Consensus.EnableUpgrade11 && (pd.c.typ == 1 || pd.c.typ == 5) && g.r.Intn(2) == 0 {
				g.lateTerm = pd.c // a fresh lock (no balance): its owner can terminate it right away
			}
		}
	}
	if pd.hook != nil {
		pd.hook(ok)
	}
	// voting phases follow the contract's own state byte
	for _, c := range g.contracts {
		if c.typ == 2 && !c.dead {
			if v := st.State.GetContractValue(c.addr, []byte("state")); len(v) == 1 {
				c.phase = int(v[0])
			}
		}
	}
}

var _ = rand.Intn
