package main

// block mode: processTxs / filterTxs create ONE VmImpl per block and run every transaction of the block through it
// (blockchain.go:1365, :2158); VmImpl.Run resets the shared env at the start of every run.  Here 2-5 transactions
// (failing after writes and succeeding, different signers, embedded and wasm, plain sends in between) go through the
// real processTxs on a check state, on every prefix of the list, and are compared with the same transactions applied one by
// one with a fresh VM each (FxApplyTx): the two must agree on every account and every receipt, and in the shared run
// a failed transaction may change nothing but its signer's balance and nonce.

import (
	"fmt"
	"math/big"
	"strings"

	"github.com/idena-network/idena-go/blockchain/attachments"
	"github.com/idena-network/idena-go/blockchain/fee"
	"github.com/idena-network/idena-go/blockchain/types"
	"github.com/idena-network/idena-go/blockchain/validation"
	"github.com/idena-network/idena-go/common"
	"github.com/idena-network/idena-go/vm"
	"github.com/idena-network/idena-go/vm/embedded"
	"github.com/idena-network/idena-go/vm/env"

	"verifharness/internal/chainfx"
)

func isContractTx(t uint16) bool {
	return t == types.DeployContractTx || t == types.CallContractTx || t == types.TerminateContractTx
}

func diffDumps(a, b fullDump) string {
	for addr, x := range a.accts {
		y, ok := b.accts[addr]
		if !ok {
			y = acct{Bal: new(big.Int)}
		}
		if !x.equal(y) {
			return fmt.Sprintf("%s: %s vs %s", addr.Hex(), x, y)
		}
	}
	for addr, y := range b.accts {
		if _, ok := a.accts[addr]; !ok && !(acct{Bal: new(big.Int)}).equal(y) {
			return fmt.Sprintf("%s: absent vs %s", addr.Hex(), y)
		}
	}
	return ""
}

func (cc *caseCtx) runBlock(step func() (*types.Block, error)) error {
	c, n, w, r := cc.c, cc.n, cc.w, cc.r
	snd := chainfx.NewSender(w)
	l0 := n.Ledger()
	if _, err := step(); err != nil {
		return err
	}
	emptyGrowth := new(big.Int).Sub(n.Ledger().Total, l0.Total)
	setup := cc.cs.N / 3
	for cc.idx = 0; cc.idx < setup && !cc.bad; cc.idx++ { // contracts to work with: single-tx blocks (chain mode)
		nextHdr := &types.Header{ProposedHeader: &types.ProposedHeader{Height: n.Chain.Head.Height() + 1, Time: n.Chain.Head.Time() + 20}}
		ti, ok := cc.g.next(n.App, nextHdr)
		if !ok {
			continue
		}
		if cc.oneChain(snd, ti, emptyGrowth) {
			return nil
		}
	}
	for ; cc.idx < cc.cs.N && !cc.bad; cc.idx++ {
		head := n.Chain.Head.Height()
		var seed types.Seed
		seed.SetBytes(common.ToBytes(head + 1))
		hdr := &types.Header{ProposedHeader: &types.ProposedHeader{Height: head + 1, Time: n.Chain.Head.Time() + 20, BlockSeed: seed}}
		cc.g.lowGas = true
		want := 2 + r.Intn(4)
		var cands []txInfo
		used := map[common.Address]bool{}
		guided := r.Intn(2) == 0
		if guided {
			cands, hdr = cc.guidedBlock(hdr)
		} else {
			for try := 0; try < 12 && len(cands) < want; try++ {
				ti, ok := cc.g.next(n.App, hdr)
				if !ok || used[ti.Sender] {
					continue
				}
				stx, err := types.SignTx(ti.Tx, w.Keys[w.Index(ti.Sender)])
				if err != nil {
					panic(err)
				}
				ti.Tx = stx
				used[ti.Sender] = true
				cands = append(cands, ti)
			}
		}
		cc.g.lowGas = false
		tis, descs, ok := cc.checkBlock(hdr, cands)
		if !ok {
			return nil
		}
		if len(tis) < 2 || guided {
			continue // a guided block runs under a fabricated header (block time weeks ahead): it is not put on the chain
		}
		if cc.bad {
			break
		}
		// the block for real: pool -> ProposeBlock -> AddBlock (the order is the pool's); the generator learns from the chain
		for _, ti := range tis {
			if err := n.Pool.AddExternalTxs(validation.InboundTx, ti.Tx); err != nil {
				c.Hit("block:pool-refused")
			}
		}
		if _, err := step(); err != nil {
			cc.fail("C15:own-block-rejected", fmt.Sprintf("%s: %v", descs, err))
			break
		}
		for _, ti := range tis {
			if isContractTx(ti.Tx.Type) {
				if rc := n.Chain.GetReceipt(ti.Tx.Hash()); rc != nil {
					cc.g.applied(ti, applied{rc: rc}, n.App)
					continue
				}
				cc.g.rejected(ti)
			} else {
				cc.g.applied(ti, applied{}, n.App)
			}
		}
	}
	return nil
}

// checkBlock: the candidates that pass validation in sequence, (a) one by one with a fresh VM each on a reference state,
// (b) every prefix through processTxs (ONE VM) on a fresh check state; all oracles of the block mode.
func (cc *caseCtx) checkBlock(hdr *types.Header, cands []txInfo) (tis []txInfo, descs string, ok bool) {
	c, n := cc.c, cc.n
	head := n.Chain.Head.Height()
	R, err := n.App.ForCheck(head)
	if err != nil {
		cc.fail("C15:harness-forcheck", err.Error())
		return nil, "", false
	}
	minFpg := fee.GetFeePerGasForNetwork(R.ValidatorsCache.NetworkSize())
	var refs []applied
	var refDumps []fullDump
	for _, ti := range cands {
		stx := ti.Tx
		if func() (e error) {
			defer func() {
				if rec := recover(); rec != nil {
					e = fmt.Errorf("panic")
				}
			}()
			return validation.ValidateTx(R, stx, minFpg, validation.InBlockTx)
		}() != nil {
			c.Hit("block:rejected-by-validation")
			continue
		}
		ap := applyWith(n, R, hdr, stx, func(v vm.VM) vm.VM { return v })
		sharedConstants(cc.fail, "block (fresh VM): "+ti.Desc)
		if ap.err != "" {
			cc.fail("C15:validated-tx-refused-by-apply:"+ap.err, ti.Desc)
			return nil, "", false
		}
		tis = append(tis, ti)
		refs = append(refs, ap)
		refDumps = append(refDumps, dumpAll(R.State, cc.codes))
	}
	if len(tis) < 2 {
		return tis, "", true
	}
	total := func(d fullDump) *big.Int {
		t := new(big.Int)
		for _, x := range d.accts {
			t.Add(t, x.Bal)
			t.Add(t, x.stake0())
		}
		return t
	}
	txs := make([]*types.Transaction, len(tis))
	for i, ti := range tis {
		txs[i] = ti.Tx
		res := "-"
		if refs[i].rc != nil {
			res = fmt.Sprint(refs[i].rc.Success)
		}
		descs += fmt.Sprintf("[%d %s ok=%s] ", i+1, ti.Desc, res)
	}
	P0, err := n.App.ForCheck(head)
	if err != nil {
		cc.fail("C15:harness-forcheck", err.Error())
		return nil, "", false
	}
	prev := dumpAll(P0.State, cc.codes)
	for j := 1; j <= len(txs) && !cc.bad; j++ {
		P, err := n.App.ForCheck(head)
		if err != nil {
			cc.fail("C15:harness-forcheck", err.Error())
			return nil, "", false
		}
		var receipts types.TxReceipts
		var perr error
		func() {
			defer func() {
				if rec := recover(); rec != nil {
					perr = fmt.Errorf("panic: %v", rec)
				}
			}()
			_, _, receipts, _, perr = n.Chain.FxProcessTxs(P, hdr, txs[:j])
		}()
		if perr != nil {
			cc.fail("C15:block-prefix-refused", fmt.Sprintf("processTxs on the first %d of %s: %v", j, descs, perr))
			break
		}
		sharedConstants(cc.fail, fmt.Sprintf("block: after %d of %s", j, descs))
		cur := dumpAll(P.State, cc.codes)
		ti := tis[j-1]
		// (1) one shared VM == a fresh VM per transaction
		if d := diffDumps(cur, refDumps[j-1]); d != "" {
			cc.fail("C15:stale-vm-buffers-leak", fmt.Sprintf("after %d of %s through ONE VM (processTxs) the state differs from the same transactions with a fresh VM each: %s", j, descs, d))
		}
		// (2) receipts agree
		if isContractTx(ti.Tx.Type) {
			var rc *types.TxReceipt
			for _, x := range receipts {
				if x.TxHash == ti.Tx.Hash() {
					rc = x
				}
			}
			if rc == nil || refs[j-1].rc == nil || rc.Success != refs[j-1].rc.Success || rc.GasUsed != refs[j-1].rc.GasUsed {
				cc.fail("C15:stale-vm-buffers-leak", fmt.Sprintf("receipt of tx %d of %s differs between the shared VM and a fresh VM", j, descs))
			} else if !rc.Success {
				// (3) in the shared run a failed transaction changes nothing but its signer's balance / nonce / epoch
				for a, x := range cur.accts {
					y, ok := prev.accts[a]
					if !ok {
						y = acct{Bal: new(big.Int)}
					}
					if a == ti.Sender {
						if x.conStr() != y.conStr() || x.storeStr() != y.storeStr() || x.Bal.Cmp(y.Bal) > 0 {
							cc.fail("C15:failed-tx-left-trace", fmt.Sprintf("block: tx %d of %s failed, signer %s -> %s", j, descs, y, x))
						}
					} else if !x.equal(y) {
						cc.fail("C15:failed-tx-left-trace", fmt.Sprintf("block: tx %d of %s failed but %s changed: %s -> %s", j, descs, a.Hex(), y, x))
					}
				}
			}
			c.Hit(fmt.Sprintf("block:tx:%v", rc != nil && rc.Success))
			if ti.Tx.Type == types.TerminateContractTx || strings.HasSuffix(ti.Desc, ".addStake") || strings.Contains(ti.Desc, "after-drain") {
				c.Hit(fmt.Sprintf("block:%s:%v", ti.Desc, rc != nil && rc.Success))
			}
		} else {
			c.Hit("block:tx:aux")
		}
		// (3b) a contract transaction is paid for: the signer held amount + tips + max fee when it was accepted in-block
		// (validation.go validateTotalCost), it never gains by a transaction it pays for, and it does not end below zero
		if isContractTx(ti.Tx.Type) {
			pb, ok := prev.accts[ti.Sender]
			if !ok {
				pb = acct{Bal: new(big.Int)}
			}
			need := new(big.Int).Add(ti.Tx.AmountOrZero(), ti.Tx.TipsOrZero())
			need.Add(need, ti.Tx.MaxFeeOrZero())
			cb := cur.accts[ti.Sender]
			switch {
			case pb.Bal.Cmp(need) < 0:
				cc.fail("C15:contract-tx-not-paid-for", fmt.Sprintf("block: tx %d of %s was accepted in-block although its signer held %s < amount+tips+maxFee = %s (balance afterwards %s)", j, descs, pb.Bal, need, bigs(cb.Bal)))
			case cb.Bal != nil && cb.Bal.Sign() < 0:
				cc.fail("C15:contract-tx-not-paid-for", fmt.Sprintf("block: tx %d of %s left its signer at %s", j, descs, cb.Bal))
			}
		}
		// (4) a transaction never makes balances + contract stakes grow; a terminated contract is gone
		if g := new(big.Int).Sub(total(cur), total(prev)); g.Sign() > 0 {
			cc.fail("C15:value-created", fmt.Sprintf("block: tx %d of %s through ONE VM made balances+stakes grow by %s", j, descs, g))
		}
		if ti.Tx.Type == types.TerminateContractTx && ti.Tx.To != nil {
			for _, x := range receipts {
				if x.TxHash == ti.Tx.Hash() && x.Success {
					if y, ok := cur.accts[*ti.Tx.To]; ok && y.HasCon {
						cc.fail("C15:value-not-conserved", fmt.Sprintf("block: tx %d of %s terminated %s successfully but the contract record is still there: %s", j, descs, ti.Tx.To.Hex(), y))
					}
				}
			}
		}
		// (5) no negative balance
		for a, x := range cur.accts {
			if x.Bal.Sign() < 0 || x.stake0().Sign() < 0 {
				cc.fail("C15:negative-balance", fmt.Sprintf("block: after %d of %s: %s %s", j, descs, a.Hex(), x))
			}
		}
		prev = cur
		c.Rep.Evaluations++
	}
	c.Hit(fmt.Sprintf("block:size-%d", len(txs)))
	c.Distinct("block|" + descs)
	return tis, descs, true
}

// guidedBlock: same-block sequences that buffer something about a contract X and then terminate X successfully:
//
//	[deploy voting X, (fund X), addStake X (amount > 0), (a failing call), terminate X]   under a header 40 days ahead
//	  (a voting that was never started may be terminated by anybody 30 days after its start time)
//	[addStake X', terminate X'] for a pending voting X' already on the chain
//	[deploy multisig M, add voter (store writes), terminate M]  /  [deploy time lock T, terminate T]   by the owner
func (cc *caseCtx) guidedBlock(hdr *types.Header) ([]txInfo, *types.Header) {
	n, w, r := cc.n, cc.w, cc.r
	st := n.App
	fpg := st.State.FeePerGas()
	nonces := map[int]uint32{}
	nextNonce := func(ki int) uint32 {
		a := w.Addrs[ki]
		if _, ok := nonces[ki]; !ok {
			nn := st.State.GetNonce(a)
			if st.State.GetEpoch(a) < st.State.Epoch() {
				nn = 0
			}
			nonces[ki] = nn
		}
		nonces[ki]++
		return nonces[ki]
	}
	sign := func(ki int, tx *types.Transaction, nonce uint32) *types.Transaction {
		tx.AccountNonce, tx.Epoch = nonce, st.State.Epoch()
		stx, err := types.SignTx(tx, w.Keys[ki])
		if err != nil {
			panic(err)
		}
		return stx
	}
	mk := func(ki int, tx *types.Transaction, desc string, lowGas bool) txInfo {
		tx.MaxFee = new(big.Int).Mul(fpg, big.NewInt(400000))
		if lowGas {
			tx.MaxFee = new(big.Int).Mul(fpg, big.NewInt(int64(2500+r.Intn(900))))
		}
		return txInfo{Tx: sign(ki, tx, nextNonce(ki)), Sender: w.Addrs[ki], Desc: desc}
	}
	users := r.Perm(len(w.Keys) - 1)
	u := func(i int) int { return 1 + users[i%len(users)] }
	minStake := new(big.Int).Mul(fpg, big.NewInt(3000000))
	far := &types.Header{ProposedHeader: &types.ProposedHeader{Height: hdr.Height(), Time: hdr.Time() + 40*24*3600, BlockSeed: hdr.Seed()}}
	var out []txInfo
	term := func(ki int, x common.Address, what string) txInfo {
		p, _ := attachments.CreateTerminateContractAttachment(w.Addrs[u(5)].Bytes()).ToBytes()
		return mk(ki, &types.Transaction{Type: types.TerminateContractTx, To: &x, Payload: p}, "terminate-"+what, false)
	}
	callTx := func(ki int, x common.Address, method string, amt *big.Int, low bool, what string, args ...[]byte) txInfo {
		p, _ := attachments.CreateCallContractAttachment(method, args...).ToBytes()
		return mk(ki, &types.Transaction{Type: types.CallContractTx, To: &x, Amount: amt, Payload: p}, "call-"+what+"."+method, low)
	}
	termTo := func(ki int, x, dest common.Address, what string) txInfo {
		p, _ := attachments.CreateTerminateContractAttachment(dest.Bytes()).ToBytes()
		return mk(ki, &types.Transaction{Type: types.TerminateContractTx, To: &x, Payload: p}, "terminate-"+what, false)
	}
	nsz := st.ValidatorsCache.NetworkSize()
	deployLock := func(ki int) (txInfo, common.Address, string) {
		if r.Intn(2) == 0 {
			p, _ := attachments.CreateDeployContractAttachment(embedded.MultisigContract, nil, nil, []byte{1}, []byte{1}).ToBytes()
			dep := mk(ki, &types.Transaction{Type: types.DeployContractTx, Amount: new(big.Int).Set(minStake), Payload: p}, "deploy-multisig", false)
			return dep, env.ComputeContractAddr(dep.Tx, dep.Sender), "multisig"
		}
		p, _ := attachments.CreateDeployContractAttachment(embedded.TimeLockContract, nil, nil, u64(1)).ToBytes()
		dep := mk(ki, &types.Transaction{Type: types.DeployContractTx, Amount: new(big.Int).Set(minStake), Payload: p}, "deploy-timelock", false)
		return dep, env.ComputeContractAddr(dep.Tx, dep.Sender), "timelock"
	}
	switch k := r.Intn(9); {
	case k == 5 || k == 6:
		// a lock holding dust (0 < balance <= 100 * fee per gas: Terminate burns it with BurnAll) terminated with an
		// aliasing destination of the stake refund: the contract itself, the signer, the zero address, a bystander
		owner := u(0)
		dep, x, what := deployLock(owner)
		dust := new(big.Int).Add(big.NewInt(1), new(big.Int).Rand(r, new(big.Int).Mul(fpg, big.NewInt(100))))
		if r.Intn(5) == 0 {
			dust = new(big.Int).Mul(fpg, big.NewInt(100)) // exactly the threshold
		}
		out = append(out, dep, mk(u(1), &types.Transaction{Type: types.SendTx, To: &x, Amount: dust}, "fund-dust-"+what, false))
		dest := x
		switch r.Intn(6) {
		case 0:
			dest = w.Addrs[owner]
		case 1:
			dest = common.Address{}
		case 2:
			dest = w.Addrs[u(3)]
		}
		t := termTo(owner, x, dest, what)
		switch dest {
		case x:
			t.Desc += "(to-itself,dust)"
		case w.Addrs[owner]:
			t.Desc += "(to-signer,dust)"
		default:
			t.Desc += "(dust)"
		}
		out = append(out, t)
		return out, hdr
	case k == 7 || k == 8:
		// the signer drains its account (a transfer whose max fee is exactly its fee) and, later in the same block, sends a
		// contract transaction whose declared max fee it can no longer afford: in-block validation has to refuse it
		// (validateTotalCost reserves amount + tips + maxFee for contract transactions)
		a := u(0)
		addr := w.Addrs[a]
		bal := new(big.Int).Set(st.State.GetBalance(addr))
		var x common.Address
		what := "timelock"
		kind := r.Intn(3) // 0 terminate, 1 call, 2 deploy
		if kind != 2 {
			S, err := n.App.ForCheck(n.Chain.Head.Height())
			if err != nil {
				return nil, hdr
			}
			var dep txInfo
			dep, x, what = deployLock(a)
			if ap := applyWith(n, S, hdr, dep.Tx, func(v vm.VM) vm.VM { return v }); ap.err != "" || ap.rc == nil || !ap.rc.Success {
				return nil, hdr
			}
			bal = new(big.Int).Set(S.State.GetBalance(addr))
			out = append(out, dep)
		}
		nD := nextNonce(a)
		n2 := nextNonce(a)
		third := w.Addrs[u(3)]
		var tx2 *types.Transaction
		desc2 := ""
		amt2 := new(big.Int)
		switch kind {
		case 0:
			p, _ := attachments.CreateTerminateContractAttachment(third.Bytes()).ToBytes()
			tx2, desc2 = &types.Transaction{Type: types.TerminateContractTx, To: &x, Payload: p}, "terminate-"+what+"(after-drain)"
		case 1:
			method, args := "transfer", [][]byte{third.Bytes(), big.NewInt(0).Bytes()}
			if what == "multisig" {
				method, args = "add", [][]byte{third.Bytes()}
			}
			p, _ := attachments.CreateCallContractAttachment(method, args...).ToBytes()
			tx2, desc2 = &types.Transaction{Type: types.CallContractTx, To: &x, Payload: p}, "call-"+what+"."+method+"(after-drain)"
		default:
			p, _ := attachments.CreateDeployContractAttachment(embedded.TimeLockContract, nil, nil, u64(1)).ToBytes()
			amt2 = new(big.Int).Set(minStake)
			tx2, desc2 = &types.Transaction{Type: types.DeployContractTx, Amount: amt2, Payload: p}, "deploy-timelock(after-drain)"
		}
		tx2.MaxFee = new(big.Int).Mul(fpg, big.NewInt(400000))
		stx2 := sign(a, tx2, n2)
		reserve := new(big.Int).Add(fee.CalculateFee(nsz, fpg, stx2), amt2)
		reserve.Add(reserve, new(big.Int).Mul(fpg, big.NewInt(int64([]int{0, 40, 400}[r.Intn(3)]))))
		// the draining transfer: amount = balance - fee - reserve, maxFee = fee (the size depends on both: fixed point)
		f := new(big.Int).Mul(fpg, big.NewInt(2000))
		var drain *types.Transaction
		for it := 0; it < 6; it++ {
			amt := new(big.Int).Sub(bal, f)
			amt.Sub(amt, reserve)
			if amt.Sign() <= 0 {
				return nil, hdr
			}
			drain = sign(a, &types.Transaction{Type: types.SendTx, To: &third, Amount: amt, MaxFee: new(big.Int).Set(f)}, nD)
			nf := fee.CalculateFee(nsz, fpg, drain)
			if nf.Cmp(f) == 0 {
				break
			}
			f = nf
		}
		out = append(out, txInfo{Tx: drain, Sender: addr, Desc: "drain-transfer"}, txInfo{Tx: stx2, Sender: addr, Desc: desc2})
		return out, hdr

	case k <= 1: // a voting deployed, staked and terminated within one block
		args := [][]byte{[]byte("fact"), u64(uint64(hdr.Time() - 100)), u64(30), u64(100), {60}, {1}, u64(100), big.NewInt(100).Bytes(), {0}}
		p, _ := attachments.CreateDeployContractAttachment(embedded.OracleVotingContract, nil, nil, args...).ToBytes()
		dep := mk(u(0), &types.Transaction{Type: types.DeployContractTx, Amount: new(big.Int).Add(minStake, big.NewInt(int64(r.Intn(5)))), Payload: p}, "deploy-voting", false)
		x := env.ComputeContractAddr(dep.Tx, dep.Sender)
		out = append(out, dep)
		if r.Intn(2) == 0 {
			out = append(out, mk(u(1), &types.Transaction{Type: types.SendTx, To: &x, Amount: chainfx_dna(int64(1 + r.Intn(50)))}, "fund-voting", false))
		}
		out = append(out, callTx(u(2), x, "addStake", chainfx_dna(int64(1+r.Intn(30))), false, "voting"))
		if r.Intn(2) == 0 {
			out = append(out, callTx(u(3), x, "addStake", chainfx_dna(int64(1+r.Intn(30))), true, "voting")) // may run out of gas
		}
		out = append(out, term(u(4), x, "voting"))
		return out, far
	case k == 2: // a pending voting of the chain
		if c := cc.g.find(func(c *contract) bool { return c.typ == 2 && c.phase == 0 }); c != nil {
			out = append(out, callTx(u(0), c.addr, "addStake", chainfx_dna(int64(1+r.Intn(30))), false, "voting"))
			if r.Intn(2) == 0 {
				out = append(out, callTx(u(1), c.addr, "startVoting", nil, true, "voting"))
			}
			out = append(out, term(u(2), c.addr, "voting"))
			return out, far
		}
		fallthrough
	case k == 3: // a multisig deployed, written to and terminated by its owner
		p, _ := attachments.CreateDeployContractAttachment(embedded.MultisigContract, nil, nil, []byte{2}, []byte{1}).ToBytes()
		dep := mk(u(0), &types.Transaction{Type: types.DeployContractTx, Amount: new(big.Int).Set(minStake), Payload: p}, "deploy-multisig", false)
		x := env.ComputeContractAddr(dep.Tx, dep.Sender)
		out = append(out, dep, callTx(u(0), x, "add", nil, false, "multisig", w.Addrs[u(1)].Bytes()))
		if r.Intn(2) == 0 {
			out = append(out, callTx(u(0), x, "add", nil, true, "multisig", w.Addrs[u(2)].Bytes()))
		}
		out = append(out, term(u(0), x, "multisig"))
		return out, hdr
	default: // a time lock deployed and terminated by its owner
		p, _ := attachments.CreateDeployContractAttachment(embedded.TimeLockContract, nil, nil, u64(1)).ToBytes()
		dep := mk(u(0), &types.Transaction{Type: types.DeployContractTx, Amount: new(big.Int).Add(minStake, big.NewInt(int64(r.Intn(3)))), Payload: p}, "deploy-timelock", false)
		x := env.ComputeContractAddr(dep.Tx, dep.Sender)
		out = append(out, dep)
		if r.Intn(2) == 0 {
			out = append(out, callTx(u(1), x, "transfer", big.NewInt(5), true, "timelock", w.Addrs[u(2)].Bytes(), big.NewInt(1).Bytes()))
		}
		out = append(out, term(u(0), x, "timelock"))
		return out, hdr
	}
}
