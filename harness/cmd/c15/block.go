package main

// block mode: processTxs / filterTxs create ONE VmImpl per block and run every transaction of the block through it
// (blockchain.go:1365, :2158); VmImpl.Run resets the shared env at the start of every run.  Here 2-5 transactions
// (failing after writes and succeeding, different signers, embedded and wasm, plain sends in between) go through the
// real processTxs on a check state, on every prefix of the list, and are compared with the same transactions applied one by
// one with a fresh VM each (FxApplyTx): the two must agree on every account and every receipt, and in the shared run
// a failed transaction may change nothing but its signer's balance and nonce.

import (
	"fmt"
	"math/big"

	"github.com/idena-network/idena-go/blockchain/fee"
	"github.com/idena-network/idena-go/blockchain/types"
	"github.com/idena-network/idena-go/blockchain/validation"
	"github.com/idena-network/idena-go/common"
	"github.com/idena-network/idena-go/vm"

	"verifharness/internal/chainfx"
)

func isContractTx(t uint16) bool {
	return t == types.DeployContractTx || t == types.CallContractTx || t == types.TerminateContractTx
}

func diffDumps(a, b fullDump) string {
	for addr, x := range a.accts {
		y, ok := b.accts[addr]
		if !ok {
			y = acct{Bal: new(big.Int)}
		}
		if !x.equal(y) {
			return fmt.Sprintf("%s: %s vs %s", addr.Hex(), x, y)
		}
	}
	for addr, y := range b.accts {
		if _, ok := a.accts[addr]; !ok && !(acct{Bal: new(big.Int)}).equal(y) {
			return fmt.Sprintf("%s: absent vs %s", addr.Hex(), y)
		}
	}
	return ""
}

func (cc *caseCtx) runBlock(step func() (*types.Block, error)) error {
	c, n, w, r := cc.c, cc.n, cc.w, cc.r
	snd := chainfx.NewSender(w)
	l0 := n.Ledger()
	if _, err := step(); err != nil {
		return err
	}
	emptyGrowth := new(big.Int).Sub(n.Ledger().Total, l0.Total)
	setup := cc.cs.N / 3
	for cc.idx = 0; cc.idx < setup && !cc.bad; cc.idx++ { // contracts to work with: single-tx blocks (chain mode)
		nextHdr := &types.Header{ProposedHeader: &types.ProposedHeader{Height: n.Chain.Head.Height() + 1, Time: n.Chain.Head.Time() + 20}}
		ti, ok := cc.g.next(n.App, nextHdr)
		if !ok {
			continue
		}
		if cc.oneChain(snd, ti, emptyGrowth) {
			return nil
		}
	}
	for ; cc.idx < cc.cs.N && !cc.bad; cc.idx++ {
		head := n.Chain.Head.Height()
		var seed types.Seed
		seed.SetBytes(common.ToBytes(head + 1))
		hdr := &types.Header{ProposedHeader: &types.ProposedHeader{Height: head + 1, Time: n.Chain.Head.Time() + 20, BlockSeed: seed}}
		// reference: the same transactions one by one, a fresh VM each
		R, err := n.App.ForCheck(head)
		if err != nil {
			return err
		}
		minFpg := fee.GetFeePerGasForNetwork(R.ValidatorsCache.NetworkSize())
		var tis []txInfo
		var refs []applied
		var refDumps []fullDump
		used := map[common.Address]bool{}
		cc.g.lowGas = true
		want := 2 + r.Intn(4)
		for try := 0; try < 12 && len(tis) < want; try++ {
			ti, ok := cc.g.next(n.App, hdr)
			if !ok || used[ti.Sender] {
				continue
			}
			stx, err := types.SignTx(ti.Tx, w.Keys[w.Index(ti.Sender)])
			if err != nil {
				panic(err)
			}
			ti.Tx = stx
			if func() (e error) {
				defer func() {
					if rec := recover(); rec != nil {
						e = fmt.Errorf("panic")
					}
				}()
				return validation.ValidateTx(R, stx, minFpg, validation.InBlockTx)
			}() != nil {
				c.Hit("block:rejected-by-validation")
				continue
			}
			ap := applyWith(n, R, hdr, stx, func(v vm.VM) vm.VM { return v })
			if ap.err != "" {
				cc.fail("C15:validated-tx-refused-by-apply:"+ap.err, ti.Desc)
				return nil
			}
			used[ti.Sender] = true
			tis = append(tis, ti)
			refs = append(refs, ap)
			refDumps = append(refDumps, dumpAll(R.State, cc.codes))
		}
		cc.g.lowGas = false
		if len(tis) < 2 {
			continue
		}
		txs := make([]*types.Transaction, len(tis))
		descs := ""
		for i, ti := range tis {
			txs[i] = ti.Tx
			res := "-"
			if refs[i].rc != nil {
				res = fmt.Sprint(refs[i].rc.Success)
			}
			descs += fmt.Sprintf("[%d %s ok=%s] ", i+1, ti.Desc, res)
		}
		P0, err := n.App.ForCheck(head)
		if err != nil {
			return err
		}
		prev := dumpAll(P0.State, cc.codes)
		for j := 1; j <= len(txs) && !cc.bad; j++ {
			P, err := n.App.ForCheck(head)
			if err != nil {
				return err
			}
			var receipts types.TxReceipts
			var perr error
			func() {
				defer func() {
					if rec := recover(); rec != nil {
						perr = fmt.Errorf("panic: %v", rec)
					}
				}()
				_, _, receipts, _, perr = n.Chain.FxProcessTxs(P, hdr, txs[:j])
			}()
			if perr != nil {
				cc.fail("C15:block-prefix-refused", fmt.Sprintf("processTxs on the first %d of %s: %v", j, descs, perr))
				break
			}
			cur := dumpAll(P.State, cc.codes)
			ti := tis[j-1]
			// (1) one shared VM == a fresh VM per transaction
			if d := diffDumps(cur, refDumps[j-1]); d != "" {
				cc.fail("C15:stale-vm-buffers-leak", fmt.Sprintf("after %d of %s through ONE VM (processTxs) the state differs from the same transactions with a fresh VM each: %s", j, descs, d))
			}
			// (2) receipts agree
			if isContractTx(ti.Tx.Type) {
				var rc *types.TxReceipt
				for _, x := range receipts {
					if x.TxHash == ti.Tx.Hash() {
						rc = x
					}
				}
				if rc == nil || refs[j-1].rc == nil || rc.Success != refs[j-1].rc.Success || rc.GasUsed != refs[j-1].rc.GasUsed {
					cc.fail("C15:stale-vm-buffers-leak", fmt.Sprintf("receipt of tx %d of %s differs between the shared VM and a fresh VM", j, descs))
				} else if !rc.Success {
					// (3) in the shared run a failed transaction changes nothing but its signer's balance / nonce / epoch
					for a, x := range cur.accts {
						y, ok := prev.accts[a]
						if !ok {
							y = acct{Bal: new(big.Int)}
						}
						if a == ti.Sender {
							if x.conStr() != y.conStr() || x.storeStr() != y.storeStr() || x.Bal.Cmp(y.Bal) > 0 {
								cc.fail("C15:failed-tx-left-trace", fmt.Sprintf("block: tx %d of %s failed, signer %s -> %s", j, descs, y, x))
							}
						} else if !x.equal(y) {
							cc.fail("C15:failed-tx-left-trace", fmt.Sprintf("block: tx %d of %s failed but %s changed: %s -> %s", j, descs, a.Hex(), y, x))
						}
					}
				}
				c.Hit(fmt.Sprintf("block:tx:%v", rc != nil && rc.Success))
			} else {
				c.Hit("block:tx:aux")
			}
			// (4) no negative balance
			for a, x := range cur.accts {
				if x.Bal.Sign() < 0 || x.stake0().Sign() < 0 {
					cc.fail("C15:negative-balance", fmt.Sprintf("block: after %d of %s: %s %s", j, descs, a.Hex(), x))
				}
			}
			prev = cur
			c.Rep.Evaluations++
		}
		c.Hit(fmt.Sprintf("block:size-%d", len(txs)))
		c.Distinct("block|" + descs)
		if cc.bad {
			break
		}
		// the block for real: pool -> ProposeBlock -> AddBlock (the order is the pool's); the generator learns from the chain
		for _, ti := range tis {
			if err := n.Pool.AddExternalTxs(validation.InboundTx, ti.Tx); err != nil {
				c.Hit("block:pool-refused")
			}
		}
		if _, err := step(); err != nil {
			cc.fail("C15:own-block-rejected", fmt.Sprintf("%s: %v", descs, err))
			break
		}
		for _, ti := range tis {
			if isContractTx(ti.Tx.Type) {
				if rc := n.Chain.GetReceipt(ti.Tx.Hash()); rc != nil {
					cc.g.applied(ti, applied{rc: rc}, n.App)
					continue
				}
				cc.g.rejected(ti)
			} else {
				cc.g.applied(ti, applied{}, n.App)
			}
		}
	}
	return nil
}
