package main

// congest mode: reach a fee per gas >= 2*10^16 on a REAL chain by real blocks only (a three-identity network whose
// blocks are filled with large-payload sends: the fee per gas rises by up to 12.5 % per full block), then send contract
// calls whose maxFee leaves a remainder just below one gas unit. This is where getGasLimit's decimal rounding
// (16 digits, half-up) grants one gas unit more than the fee buys.

import (
	"fmt"
	"math/big"
	"math/rand"
	"time"

	"github.com/idena-network/idena-go/blockchain/attachments"
	"github.com/idena-network/idena-go/blockchain/fee"
	"github.com/idena-network/idena-go/blockchain/types"
	"github.com/idena-network/idena-go/common"
	"github.com/idena-network/idena-go/vm/embedded"

	"verifharness/internal/chainfx"
	"verifharness/internal/hx"
)

func runCongest(c *hx.Ctx, cs c15case) error {
	r := rand.New(rand.NewSource(cs.Seed))
	w := chainfx.NewWorld(cs.Seed, 2, 0, time.Date(2030, 1, 1, 0, 0, 0, 0, time.UTC))
	for _, a := range w.Addrs {
		al := w.Opts.Alloc[a]
		al.Balance = chainfx.Dna(4000000000)
		w.Opts.Alloc[a] = al
	}
	h, err := chainfx.Bootstrap(w, chainfx.HistoryOpts{}, r, false)
	if err != nil {
		return err
	}
	n := h.N
	step := func() error {
		chainfx.Advance(20 * time.Second)
		p, err := n.Propose()
		if err != nil {
			return err
		}
		return n.Add(p.Block)
	}
	for i := 0; i < 2; i++ {
		if err := step(); err != nil {
			return fmt.Errorf("bootstrap block: %w", err)
		}
	}
	cc := &caseCtx{c: c, cs: cs, w: w, n: n, r: r, codes: newCodetab()}
	cc.g = newGen(cc)
	snd := chainfx.NewSender(w)
	l0 := n.Ledger()
	if err := step(); err != nil {
		return err
	}
	emptyGrowth := new(big.Int).Sub(n.Ledger().Total, l0.Total)
	fpgNow := func() *big.Int { return new(big.Int).Set(n.App.State.FeePerGas()) }
	ample := func() *big.Int { return new(big.Int).Mul(fpgNow(), big.NewInt(400000)) }

	// a time lock owned by user 1 (unlocked), funded
	p, _ := attachments.CreateDeployContractAttachment(embedded.TimeLockContract, nil, nil, common.ToBytes(uint64(1))).ToBytes()
	dep := txInfo{Tx: &types.Transaction{Type: types.DeployContractTx, Amount: new(big.Int).Mul(fpgNow(), big.NewInt(3000000)), Payload: p, MaxFee: ample()},
		Sender: w.Addrs[1], Desc: "deploy-timelock"}
	if cc.oneChain(snd, dep, emptyGrowth) || cc.bad {
		return nil
	}
	var lock common.Address
	for _, x := range cc.g.contracts {
		lock = x.addr
	}
	if len(cc.g.contracts) == 0 {
		// the generator only learns about contracts it proposed itself: find it through the receipt instead
		c.Rep.Notes = append(c.Rep.Notes, "congest: contract list empty after deploy")
	}
	_ = lock
	return cc.congestRest(snd, emptyGrowth, step)
}

func (cc *caseCtx) congestRest(snd *chainfx.Sender, emptyGrowth *big.Int, step func() error) error {
	c, n, w, r := cc.c, cc.n, cc.w, cc.r
	// the deployed lock: the only contract account of the chain
	var lock common.Address
	found := false
	for _, a := range dumpAddrs(n) {
		if n.App.State.GetCodeHash(a) != nil {
			lock, found = a, true
		}
	}
	if !found {
		cc.fail("C15:congest-setup", "time lock not deployed")
		return nil
	}
	fund := txInfo{Tx: &types.Transaction{Type: types.SendTx, To: &lock, Amount: chainfx.Dna(1000), MaxFee: new(big.Int).Mul(n.App.State.FeePerGas(), big.NewInt(100000))}, Sender: w.Addrs[2], Desc: "fund-timelock"}
	if cc.oneChain(snd, fund, emptyGrowth) || cc.bad {
		return nil
	}
	target := new(big.Int).Mul(big.NewInt(2), new(big.Int).Exp(big.NewInt(10), big.NewInt(16), nil))
	// every block with a single small transaction lowers the fee per gas by 12.5 %: overshoot accordingly
	over := new(big.Int).Set(target)
	for i := 0; i <= cc.cs.N; i++ {
		over.Mul(over, big.NewInt(8))
		over.Quo(over, big.NewInt(7))
	}
	maxBlockGas := int64(types.MaxBlockSize(true))
	for b := 0; b < 120 && n.App.State.FeePerGas().Cmp(over) < 0; b++ {
		fpg := new(big.Int).Set(n.App.State.FeePerGas())
		minFpg := fee.GetFeePerGasForNetwork(n.App.ValidatorsCache.NetworkSize())
		// TooHighMaxFee: maxFee / minFpg <= maxBlockGas, with maxFee = 1.25 * gas * fpg
		capGas := new(big.Int).Mul(big.NewInt(maxBlockGas*8/10), minFpg)
		capGas.Quo(capGas, fpg).Int64()
		g := capGas.Int64()
		if g > maxBlockGas/8 {
			g = maxBlockGas / 8
		}
		payload := int(g/10) - 400
		if payload < 100 {
			break
		}
		sent := int64(0)
		for k := 0; sent+g <= maxBlockGas && k < 90; k++ {
			ki := k % 3
			to := w.Addrs[(ki+1)%3]
			tx := &types.Transaction{Type: types.SendTx, To: &to, Amount: big.NewInt(1), Payload: make([]byte, payload),
				MaxFee: new(big.Int).Quo(new(big.Int).Mul(new(big.Int).Mul(fpg, big.NewInt(g)), big.NewInt(5)), big.NewInt(4))}
			if _, err := snd.Send(n, ki, tx); err != nil {
				c.Hit("congest:filler-rejected")
				continue
			}
			sent += g
		}
		if err := step(); err != nil {
			cc.fail("C15:own-block-rejected", err.Error())
			return nil
		}
		c.Hit("congest:filler-block")
		if b%10 == 0 && len(c.Rep.Notes) < 12 {
			c.Rep.Notes = append(c.Rep.Notes, fmt.Sprintf("b%d fpg=%s g=%d sent=%d txs=%d", b, fpg, g, sent, len(n.Chain.GetBlock(n.Chain.Head.Hash()).Body.Transactions)))
		}
		if left := len(n.Pool.GetPendingTransaction(true, true, common.MultiShard, false)); left > 0 {
			c.Hit("congest:filler-left-in-pool")
		}
	}
	fpg := new(big.Int).Set(n.App.State.FeePerGas())
	c.Rep.Notes = append(c.Rep.Notes, fmt.Sprintf("congest: fee per gas %s after %d blocks (network size %d)", fpg, n.Chain.Head.Height(), n.App.ValidatorsCache.NetworkSize()))
	if fpg.Cmp(target) < 0 {
		c.Hit("congest:target-not-reached")
		return nil
	}
	c.Hit("congest:target-reached")
	// contract calls with a remainder just below one gas unit and too little gas for the call
	for i := 0; i < cc.cs.N && !cc.bad; i++ {
		cc.idx = i
		fpg = new(big.Int).Set(n.App.State.FeePerGas())
		if fpg.Cmp(target) < 0 {
			break
		}
		k := int64(r.Intn(120))
		rem := new(big.Int).Sub(fpg, big.NewInt(int64(1+r.Intn(2))))
		if r.Intn(4) == 0 {
			rem = new(big.Int).Rand(r, fpg)
		}
		pl, _ := attachments.CreateCallContractAttachment("transfer", w.Addrs[2].Bytes(), big.NewInt(5).Bytes()).ToBytes()
		mk := func(maxFee *big.Int) *types.Transaction {
			return &types.Transaction{Type: types.CallContractTx, To: &lock, Payload: pl, MaxFee: maxFee}
		}
		// the tx fee depends on the size of the signed tx (and so on the byte length of maxFee): fixed point
		maxFee := new(big.Int).Mul(fpg, big.NewInt(5000))
		for it := 0; it < 4; it++ {
			stx := snd.Sign(n, 1, mk(new(big.Int).Set(maxFee)))
			tf := n.Chain.C15TxFee(n.App, stx)
			nf := new(big.Int).Add(tf, new(big.Int).Mul(fpg, big.NewInt(k)))
			nf.Add(nf, rem)
			if nf.Cmp(maxFee) == 0 {
				break
			}
			maxFee = nf
		}
		ti := txInfo{Tx: mk(maxFee), Sender: w.Addrs[1], Desc: fmt.Sprintf("call-timelock.transfer(congested,k=%d)", k)}
		if cc.oneChain(snd, ti, emptyGrowth) {
			break
		}
	}
	return nil
}

func dumpAddrs(n *chainfx.Node) []common.Address {
	d := dumpAll(n.App.State, newCodetab())
	var out []common.Address
	for a := range d.accts {
		out = append(out, a)
	}
	return out
}
