package main

// Recording decorators around the REAL contract environments:
//   recEnv  wraps env.Env (the interface the embedded contracts are written against; the real *env.EnvImp inside)
//   recHost wraps lib.HostEnv (the interface the wasm runtime calls back into; the real *wasm.WasmEnv inside,
//           sub-environments returned by CreateSubEnv are wrapped again)
// Every call is forwarded unchanged; the call, its arguments, its result and (embedded) the gas counter after it are
// appended to the trace. A panic inside the real env (out of gas, oversized key, bad event name) is recorded and re-raised.

import (
	"encoding/hex"
	"fmt"
	"math/big"

	"github.com/idena-network/idena-go/common"
	"github.com/idena-network/idena-go/core/state"
	"github.com/idena-network/idena-go/crypto"
	"github.com/idena-network/idena-go/vm/env"
	"github.com/idena-network/idena-wasm-binding/lib"
)

type ev struct {
	Op  string // op line sent to the model (without the leading "c ")
	Res string // the implementation's answer
}

type trace struct {
	evs      []ev
	ids      *idtab
	gas      func() int // embedded: gas counter after the call
	wasm     bool
	nextEnv  int
	codes    *codetab
	contract *common.Address
	inPanic  bool // a panic of the real env has been recorded and is still propagating
}

// idtab maps addresses to small numbers (per case) for the model.
type idtab struct {
	m    map[common.Address]int
	list []common.Address
}

func newIdtab() *idtab { return &idtab{m: map[common.Address]int{}} }

func (t *idtab) id(a common.Address) int {
	if i, ok := t.m[a]; ok {
		return i
	}
	i := len(t.list) + 1
	t.m[a] = i
	t.list = append(t.list, a)
	return i
}

// codetab maps code hashes to small numbers: 1..5 = embedded contract types, >= 100 wasm code blobs.
type codetab struct {
	m map[common.Hash]int
}

func newCodetab() *codetab {
	c := &codetab{m: map[common.Hash]int{}}
	for i := 1; i <= 5; i++ {
		var h common.Hash
		h.SetBytes([]byte{byte(i)})
		c.m[h] = i
	}
	return c
}

func (c *codetab) id(h common.Hash) int {
	if h == (common.Hash{}) {
		return 0 // the zero hash: a contract record that only SetContractStake created (no code, nothing stored under it)
	}
	if i, ok := c.m[h]; ok {
		return i
	}
	i := 100 + len(c.m)
	c.m[h] = i
	return i
}

func (c *codetab) ofCode(code []byte) int { return c.id(common.Hash(crypto.Hash(code))) }

func hx0(b []byte) string { // value token: "-" for nil, "x.." otherwise
	if b == nil {
		return "-"
	}
	return "x" + hex.EncodeToString(b)
}

func bigs(b *big.Int) string {
	if b == nil {
		return "nil"
	}
	return b.String()
}

func (t *trace) add(op, res string) {
	if !t.wasm && t.gas != nil {
		res = fmt.Sprintf("%s g%d", res, t.gas())
	}
	t.evs = append(t.evs, ev{op, res})
	t.inPanic = false
}

// guard records a panic of the real env as the call's result and re-raises it.
func (t *trace) guard(op string) {
	if r := recover(); r != nil {
		if t.inPanic {
			panic(r)
		}
		res := "panic"
		if s, ok := r.(string); ok && s == "not enough gas" {
			res = "oog"
		}
		if _, ok := r.(lib.OutOfGas); ok {
			res = "oog"
		}
		t.add(op, res)
		t.inPanic = true
		panic(r)
	}
}

// ---------------------------------------------------------------------------------------------- embedded

type recEnv struct {
	in env.Env
	t  *trace
}

func (r *recEnv) c(ctx env.CallContext) int { return r.t.ids.id(ctx.ContractAddr()) }

func (r *recEnv) rd(name string, f func()) {
	defer r.t.guard(name)
	f()
	r.t.add(name, "ok")
}

func (r *recEnv) BlockNumber() (v uint64) {
	r.rd("rd blocknumber", func() { v = r.in.BlockNumber() })
	return
}
func (r *recEnv) BlockTimeStamp() (v int64) {
	r.rd("rd blocktime", func() { v = r.in.BlockTimeStamp() })
	return
}
func (r *recEnv) MinFeePerGas() (v *big.Int) {
	r.rd("rd minfeepergas", func() { v = r.in.MinFeePerGas() })
	return
}
func (r *recEnv) BlockSeed() (v []byte) {
	r.rd("rd blockseed", func() { v = r.in.BlockSeed() })
	return
}
func (r *recEnv) NetworkSize() (v int) {
	r.rd("rd networksize", func() { v = r.in.NetworkSize() })
	return
}
func (r *recEnv) Epoch() (v uint16) { r.rd("rd epoch", func() { v = r.in.Epoch() }); return }
func (r *recEnv) State(a common.Address) (v state.IdentityState) {
	r.rd("rd state", func() { v = r.in.State(a) })
	return
}
func (r *recEnv) PubKey(a common.Address) (v []byte) {
	r.rd("rd pubkey", func() { v = r.in.PubKey(a) })
	return
}
func (r *recEnv) Delegatee(a common.Address) (v *common.Address) {
	r.rd("rd delegatee", func() { v = r.in.Delegatee(a) })
	return
}
func (r *recEnv) DiscriminationFlags(a common.Address) (v state.DiscriminationFlag) {
	r.rd("rd discrimination", func() { v = r.in.DiscriminationFlags(a) })
	return
}

func (r *recEnv) SetValue(ctx env.CallContext, key []byte, value []byte) {
	op := fmt.Sprintf("set %d %s %s", r.c(ctx), hx0(key), hx0(value))
	defer r.t.guard(op)
	r.in.SetValue(ctx, key, value)
	r.t.add(op, "ok")
}

func (r *recEnv) GetValue(ctx env.CallContext, key []byte) []byte {
	op := fmt.Sprintf("get %d %s", r.c(ctx), hx0(key))
	defer r.t.guard(op)
	v := r.in.GetValue(ctx, key)
	r.t.add(op, "v"+hx0(v))
	return v
}

func (r *recEnv) ReadContractData(a common.Address, key []byte) []byte {
	op := fmt.Sprintf("get %d %s", r.t.ids.id(a), hx0(key))
	defer r.t.guard(op)
	v := r.in.ReadContractData(a, key)
	r.t.add(op, "v"+hx0(v))
	return v
}

func (r *recEnv) RemoveValue(ctx env.CallContext, key []byte) {
	op := fmt.Sprintf("rm %d %s", r.c(ctx), hx0(key))
	defer r.t.guard(op)
	r.in.RemoveValue(ctx, key)
	r.t.add(op, "ok")
}

func (r *recEnv) Send(ctx env.CallContext, dest common.Address, amount *big.Int) error {
	op := fmt.Sprintf("send %d %d %s", r.c(ctx), r.t.ids.id(dest), bigs(amount))
	defer r.t.guard(op)
	err := r.in.Send(ctx, dest, amount)
	r.t.add(op, okErr(err))
	return err
}

func okErr(err error) string {
	if err != nil {
		return "err"
	}
	return "ok"
}

func (r *recEnv) Balance(a common.Address) *big.Int {
	op := fmt.Sprintf("bal %d", r.t.ids.id(a))
	defer r.t.guard(op)
	v := r.in.Balance(a)
	r.t.add(op, "n"+bigs(v))
	return v
}

func (r *recEnv) ContractStake(a common.Address) *big.Int {
	op := fmt.Sprintf("stake %d", r.t.ids.id(a))
	defer r.t.guard(op)
	v := r.in.ContractStake(a)
	s := "n" + bigs(v)
	if v == nil {
		s = "n0" // a missing contract / nil stake and a zero stake are the same thing in the model
	}
	r.t.add(op, s)
	return v
}

func (r *recEnv) MoveToStake(ctx env.CallContext, amount *big.Int) error {
	op := fmt.Sprintf("mvstake %d %s", r.c(ctx), bigs(amount))
	defer r.t.guard(op)
	err := r.in.MoveToStake(ctx, amount)
	r.t.add(op, okErr(err))
	return err
}

func (r *recEnv) BurnAll(ctx env.CallContext) {
	op := fmt.Sprintf("burnall %d", r.c(ctx))
	defer r.t.guard(op)
	burnt := "?"
	if imp, ok := r.in.(*env.EnvImp); ok {
		burnt = bigs(imp.C15Balance(ctx.ContractAddr())) // gas-free peek (shim), taken before the burn
	}
	r.in.BurnAll(ctx)
	r.t.add(op, "ok b"+burnt)
}

func (r *recEnv) Event(name string, args ...[]byte) {
	size := 0
	for _, a := range args {
		size += len(a)
	}
	op := fmt.Sprintf("event %s %d", hx0([]byte(name)), size)
	defer r.t.guard(op)
	r.in.Event(name, args...)
	r.t.add(op, "ok")
}

// Iterate: `iter c min max` opens an iteration (the model snapshots the cached keys as env.go:224 does); every callback
// invocation is an `item` line whose answer (key, value) the model has to predict from its own store; the callback's
// own env calls follow; `itret stop|go` closes the item; `itend` closes the iteration.
func (r *recEnv) Iterate(ctx env.CallContext, minKey []byte, maxKey []byte, f func(key []byte, value []byte) bool) {
	op := fmt.Sprintf("iter %d %s %s", r.c(ctx), hx0(minKey), hx0(maxKey))
	r.t.add(op, "ok")
	defer r.t.guard("item")
	stopped := false
	r.in.Iterate(ctx, minKey, maxKey, func(k, v []byte) bool {
		r.t.add("item", "kv "+hx0(k)+" "+hx0(v))
		stop := f(k, v)
		if stop {
			stopped = true
			r.t.add("itret stop", "ok")
		} else {
			r.t.add("itret go", "ok")
		}
		return stop
	})
	if !stopped {
		r.t.add("item", "done")
	}
}

// ---------------------------------------------------------------------------------------------- wasm

type recHost struct {
	in lib.HostEnv
	t  *trace
	id int
}

func (t *trace) wrapHost(in lib.HostEnv) lib.HostEnv {
	t.nextEnv++
	return &recHost{in: in, t: t, id: t.nextEnv}
}

func (h *recHost) op(s string, a ...interface{}) string {
	return fmt.Sprintf("%d ", h.id) + fmt.Sprintf(s, a...)
}

func (h *recHost) rd(name string, f func()) {
	op := h.op("rd " + name)
	defer h.t.guard(op)
	f()
	h.t.add(op, "ok")
}

func (h *recHost) SetStorage(m *lib.GasMeter, k []byte, v []byte) {
	op := h.op("set %s %s", hx0(k), hx0(v))
	defer h.t.guard(op)
	h.in.SetStorage(m, k, v)
	h.t.add(op, "ok")
}
func (h *recHost) GetStorage(m *lib.GasMeter, k []byte) []byte {
	op := h.op("get %s", hx0(k))
	defer h.t.guard(op)
	v := h.in.GetStorage(m, k)
	h.t.add(op, "v"+hx0(v))
	return v
}
func (h *recHost) RemoveStorage(m *lib.GasMeter, k []byte) {
	op := h.op("rm %s", hx0(k))
	defer h.t.guard(op)
	h.in.RemoveStorage(m, k)
	h.t.add(op, "ok")
}
func (h *recHost) ReadContractData(m *lib.GasMeter, a lib.Address, k []byte) []byte {
	op := h.op("rcd %d %s", h.t.ids.id(a), hx0(k))
	defer h.t.guard(op)
	v := h.in.ReadContractData(m, a, k)
	h.t.add(op, "v"+hx0(v))
	return v
}
func (h *recHost) BlockNumber(m *lib.GasMeter) (v uint64) {
	h.rd("blocknumber", func() { v = h.in.BlockNumber(m) })
	return
}
func (h *recHost) BlockTimestamp(m *lib.GasMeter) (v int64) {
	h.rd("blocktime", func() { v = h.in.BlockTimestamp(m) })
	return
}
func (h *recHost) MinFeePerGas(m *lib.GasMeter) (v *big.Int) {
	h.rd("minfeepergas", func() { v = h.in.MinFeePerGas(m) })
	return
}
func (h *recHost) BlockSeed(m *lib.GasMeter) (v []byte) {
	h.rd("blockseed", func() { v = h.in.BlockSeed(m) })
	return
}
func (h *recHost) NetworkSize(m *lib.GasMeter) (v uint64) {
	h.rd("networksize", func() { v = h.in.NetworkSize(m) })
	return
}
func (h *recHost) Identity(m *lib.GasMeter, a lib.Address) (v []byte) {
	h.rd("identity", func() { v = h.in.Identity(m, a) })
	return
}
func (h *recHost) Caller(m *lib.GasMeter) (v lib.Address) {
	h.rd("caller", func() { v = h.in.Caller(m) })
	return
}
func (h *recHost) OriginalCaller(m *lib.GasMeter) (v lib.Address) {
	h.rd("origcaller", func() { v = h.in.OriginalCaller(m) })
	return
}
func (h *recHost) ContractAddress(m *lib.GasMeter) (v lib.Address) {
	h.rd("contractaddress", func() { v = h.in.ContractAddress(m) })
	return
}
func (h *recHost) ContractAddr(m *lib.GasMeter, code []byte, args []byte, nonce []byte) (v lib.Address) {
	h.rd("contractaddr", func() { v = h.in.ContractAddr(m, code, args, nonce) })
	return
}
func (h *recHost) ContractAddrByHash(m *lib.GasMeter, hash []byte, args []byte, nonce []byte) (v lib.Address) {
	h.rd("contractaddrbyhash", func() { v = h.in.ContractAddrByHash(m, hash, args, nonce) })
	return
}
func (h *recHost) OwnCode(m *lib.GasMeter) (v []byte) {
	h.rd("owncode", func() { v = h.in.OwnCode(m) })
	return
}
func (h *recHost) CodeHash(m *lib.GasMeter) (v []byte) {
	h.rd("codehash", func() { v = h.in.CodeHash(m) })
	return
}
func (h *recHost) Epoch(m *lib.GasMeter) (v uint16) {
	h.rd("epoch", func() { v = h.in.Epoch(m) })
	return
}
func (h *recHost) PayAmount(m *lib.GasMeter) (v *big.Int) {
	h.rd("payamount", func() { v = h.in.PayAmount(m) })
	return
}
func (h *recHost) IsDebug() bool { return h.in.IsDebug() }
func (h *recHost) BlockHeader(m *lib.GasMeter, height uint64) (v []byte) {
	h.rd("blockheader", func() { v = h.in.BlockHeader(m, height) })
	return
}
func (h *recHost) Keccak256(m *lib.GasMeter, data []byte) (v []byte) {
	h.rd("keccak", func() { v = h.in.Keccak256(m, data) })
	return
}
func (h *recHost) GlobalState(m *lib.GasMeter) (v []byte) {
	h.rd("globalstate", func() { v = h.in.GlobalState(m) })
	return
}
func (h *recHost) Ecrecover(m *lib.GasMeter, data []byte, sig []byte) (v []byte) {
	h.rd("ecrecover", func() { v = h.in.Ecrecover(m, data, sig) })
	return
}
func (h *recHost) Event(m *lib.GasMeter, name string, args ...[]byte) {
	size := 0
	for _, a := range args {
		size += len(a)
	}
	op := h.op("event %s %d", hx0([]byte(name)), size)
	defer h.t.guard(op)
	h.in.Event(m, name, args...)
	h.t.add(op, "ok")
}
func (h *recHost) Balance(m *lib.GasMeter) *big.Int {
	op := h.op("bal")
	defer h.t.guard(op)
	v := h.in.Balance(m)
	h.t.add(op, "n"+bigs(v))
	return v
}
func (h *recHost) SubBalance(m *lib.GasMeter, amount *big.Int) error {
	op := h.op("sub %s", bigs(amount))
	defer h.t.guard(op)
	err := h.in.SubBalance(m, amount)
	h.t.add(op, okErr(err))
	return err
}
func (h *recHost) AddBalance(m *lib.GasMeter, a lib.Address, amount *big.Int) {
	op := h.op("add %d %s", h.t.ids.id(a), bigs(amount))
	defer h.t.guard(op)
	h.in.AddBalance(m, a, amount)
	h.t.add(op, "ok")
}
func (h *recHost) Burn(m *lib.GasMeter, amount *big.Int) error {
	op := h.op("burn %s", bigs(amount))
	defer h.t.guard(op)
	err := h.in.Burn(m, amount)
	h.t.add(op, okErr(err))
	return err
}
func (h *recHost) CreateSubEnv(contract lib.Address, method string, payAmount *big.Int, isDeploy bool) (lib.HostEnv, error) {
	dep := 0
	if isDeploy {
		dep = 1
	}
	op := h.op("subenv %d %s %d", h.t.ids.id(contract), bigs(payAmount), dep)
	defer h.t.guard(op)
	sub, err := h.in.CreateSubEnv(contract, method, payAmount, isDeploy)
	if err != nil {
		h.t.add(op, "err")
		return nil, err
	}
	w := h.t.wrapHost(sub).(*recHost)
	h.t.add(op, fmt.Sprintf("env %d", w.id))
	return w, nil
}
func (h *recHost) GetCode(a lib.Address) []byte {
	op := h.op("code %d", h.t.ids.id(a))
	defer h.t.guard(op)
	v := h.in.GetCode(a)
	if len(v) == 0 {
		h.t.add(op, "c0")
	} else {
		h.t.add(op, fmt.Sprintf("c%d", h.t.codes.ofCode(v)))
	}
	return v
}
func (h *recHost) ContractCodeHash(a lib.Address) *[]byte {
	op := h.op("hascode %d", h.t.ids.id(a))
	defer h.t.guard(op)
	v := h.in.ContractCodeHash(a)
	if v == nil {
		h.t.add(op, "cnil")
	} else {
		var hh common.Hash
		hh.SetBytes(*v)
		h.t.add(op, fmt.Sprintf("c%d", h.t.codes.id(hh)))
	}
	return v
}
func (h *recHost) Commit() {
	op := h.op("commit")
	defer h.t.guard(op)
	h.in.Commit()
	h.t.add(op, "ok")
}
func (h *recHost) Deploy(code []byte) {
	op := h.op("deploy %d", h.t.codes.ofCode(code))
	defer h.t.guard(op)
	h.in.Deploy(code)
	h.t.add(op, "ok")
}
