package main

// C08: a fork is adopted only if valid and certified; adoption equals a clean sync.
//
// Every case builds real replicas over a shared genesis: the observed node A (plus a second proposer replica of its
// branch), the fork branch B (two proposer replicas) and a clean follower C of the fork.  After a common prefix the
// two branches diverge (own blocks / fork blocks: proposed with transactions, empty, identity-update blocks caused by
// kill transactions and by delayed online-status switches).  The fork is turned into the answer a peer would give to
// GetForkBlockRange (block bundles with certificates of every shape: nil, empty non-nil, valid with real keys of the
// online validators, exact-threshold, under-quorum, duplicated signer, forged signer, wrong round / hash / parent;
// tampered blocks; hostile lists) and handed to the REAL ForkResolver.processBlocks -> checkForkSize ->
// ValidateSubChain and, when a fork was found applicable, to the REAL ApplyFork.
//   - correspondence: the abstract scenario (ids, heights, parents, flags, seed ranks, certificate classes) goes to
//     the Lean model, which must answer the same verdicts and the same post-adoption observables;
//   - independent oracle: acceptance of an invalid / uncertified fork, any panic, any observable of A after the
//     adoption differing from the clean follower C, abandoned transactions not handed back.
import (
	"bytes"
	"crypto/ecdsa"
	"encoding/json"
	"fmt"
	"math/rand"
	"os"
	"runtime/debug"
	"sort"
	"strings"
	"time"

	"github.com/idena-network/idena-go/blockchain/types"
	"github.com/idena-network/idena-go/blockchain/validation"
	"github.com/idena-network/idena-go/common"
	"github.com/idena-network/idena-go/config"
	"github.com/idena-network/idena-go/consensus"
	"github.com/idena-network/idena-go/core/state"
	"github.com/idena-network/idena-go/crypto"
	"github.com/idena-network/idena-go/stats/collector"

	"verifharness/internal/chainfx"
	"verifharness/internal/hx"
)

type c08case struct {
	Seed       int64    `json:"seed"`
	Online     int      `json:"online"`      // identities asked to go online in the prefix (god first), 1..5
	Prefix     int      `json:"prefix"`      // number of common blocks after genesis
	Own        []string `json:"own"`         // kinds of A's own blocks after the common ancestor: e|q|p|k|s
	Fork       []string `json:"fork"`        // kinds of the fork blocks
	Certs      []string `json:"certs"`       // certificate shape per fork block
	Tamper     int      `json:"tamper"`      // index of the tampered fork block, -1 = none
	TamperKind string   `json:"tamper_kind"` // root|droptx|flags|time
	List       string   `json:"list"`        // ok|shuffled|gap|dup|dropfirst|height0|height0tip|far|known|peer|none
	ListArg    int      `json:"list_arg"`
	Share      bool     `json:"share"`             // offer the same signed transactions to both branches
	Advance    []string `json:"advance,omitempty"` // own blocks the node adds between fork validation and ApplyFork
}

// block kinds: e = empty block, q = proposed without new transactions, p = proposed with ordinary transactions,
// k = proposed with a kill transaction (identity update at once), s = proposed with an online-status switch
// (identity update at the next height divisible by 3), S = proposed with online-status switches of all four validator users

const (
	c08Validators = 4 // users 1..4 are Verified/Human and may go online
	c08Users      = 11
)

type c08blk struct {
	b         *types.Block
	preOnline []common.Address // online validators of the state the block was built on (sorted)
	god       common.Address
}

type c08scen struct {
	cs                c08case
	w                 *chainfx.World
	a, a1, b, b1, c   *chainfx.Node
	prefix, own, fork []c08blk
	r                 *rand.Rand
	outsider          *ecdsa.PrivateKey
	victims           []int
	stats             map[string]int
}

func c08world(seed int64) *chainfx.World {
	w := chainfx.NewWorld(seed, c08Users, 0, time.Date(2030, 1, 1, 0, 0, 0, 0, time.UTC))
	sts := []state.IdentityState{state.Verified, state.Verified, state.Human, state.Verified, // 1..4 validators
		state.Verified, state.Verified, state.Zombie, state.Suspended, state.Human, state.Verified, state.Newbie}
	for i := 1; i <= c08Users; i++ {
		al := w.Opts.Alloc[w.Addrs[i]]
		al.State = uint8(sts[i-1])
		w.Opts.Alloc[w.Addrs[i]] = al
	}
	return w
}

func c08online(n *chainfx.Node) []common.Address {
	var res []common.Address
	for _, v := range n.App.ValidatorsCache.GetAllOnlineValidators().ToSlice() {
		res = append(res, v.(common.Address))
	}
	sort.Slice(res, func(i, j int) bool { return bytes.Compare(res[i][:], res[j][:]) < 0 })
	return res
}

type c08branch struct {
	props     []*chainfx.Node
	followers []*chainfx.Node
	snd       *chainfx.Sender
	victim    int
}

func (s *c08scen) offer(br *c08branch, i int, tx *types.Transaction, other *c08branch) {
	stx, err := br.snd.Send(br.props[0], i, tx)
	if err != nil {
		s.stats["tx-refused"]++
		return
	}
	s.stats["tx-offered"]++
	for _, n := range br.props[1:] {
		n.Pool.AddExternalTxs(validation.InboundTx, stx)
	}
	if other != nil {
		for _, n := range other.props {
			n.Pool.AddExternalTxs(validation.InboundTx, stx)
		}
	}
}

// produce makes one block of the given kind on the branch and inserts it into every replica of the branch.
func (s *c08scen) produce(br *c08branch, kind string, other *c08branch) (c08blk, error) {
	r, w := s.r, s.w
	chainfx.Advance(20 * time.Second)
	lead := br.props[0]
	rec := c08blk{preOnline: c08online(lead), god: lead.App.State.GodAddress()}
	var blk *types.Block
	if kind == "e" {
		blk = lead.Chain.GenerateEmptyBlock()
	} else {
		switch kind {
		case "p":
			for j, n := 0, 1+r.Intn(3); j < n; j++ {
				i := 1 + r.Intn(c08Users)
				to := w.Addrs[r.Intn(len(w.Addrs))]
				s.offer(br, i, &types.Transaction{Type: types.SendTx, To: &to, Amount: chainfx.Dna(int64(1 + r.Intn(40)))}, other)
			}
		case "k":
			if br.victim < len(s.victims) {
				s.offer(br, s.victims[br.victim], &types.Transaction{Type: types.KillTx}, other)
				br.victim++
			}
		case "s":
			i := 1 + r.Intn(c08Validators)
			on := !lead.App.ValidatorsCache.IsOnlineIdentity(w.Addrs[i])
			s.offer(br, i, chainfx.OnlineTx(on), other)
		case "S":
			for i := 1; i <= c08Validators; i++ {
				s.offer(br, i, chainfx.OnlineTx(!lead.App.ValidatorsCache.IsOnlineIdentity(w.Addrs[i])), other)
			}
		}
		var elig []*chainfx.Node
		for _, n := range br.props {
			if n.IsEligibleProposer() {
				elig = append(elig, n)
			}
		}
		if len(elig) == 0 {
			return rec, fmt.Errorf("no eligible proposer")
		}
		p, err := elig[r.Intn(len(elig))].Propose()
		if err != nil {
			return rec, err
		}
		blk = p.Block
	}
	for _, n := range append(append([]*chainfx.Node{}, br.props...), br.followers...) {
		cb, err := chainfx.CloneBlock(blk)
		if err != nil {
			return rec, err
		}
		if err := n.Add(cb); err != nil {
			return rec, fmt.Errorf("replica refused a block of its own branch (height %d kind %s): %v", blk.Height(), kind, err)
		}
	}
	rec.b, _ = chainfx.CloneBlock(blk)
	return rec, nil
}

func c08threshold(cnt int) int {
	switch {
	case cnt <= 1:
		return 1
	case cnt <= 3:
		return 2
	case cnt <= 5:
		return 3
	case cnt <= 7:
		return 4
	}
	return 5
}

func c08sign(k *ecdsa.PrivateKey, h *types.VoteHeader) *types.BlockCertSignature {
	v := &types.Vote{Header: h}
	hash := crypto.SignatureHash(v)
	sig, err := crypto.Sign(hash[:], k)
	if err != nil {
		panic(err)
	}
	return &types.BlockCertSignature{Signature: sig, TurnOffline: h.TurnOffline, Upgrade: h.Upgrade}
}

// mkCert builds a certificate of the given shape for blk.  The class is decided by a reference rule that does not
// look at the code under test: n (nil) | e (non-nil without signatures) | ok (every signature is by an online
// validator of the state the block was built on, over the right round / hash / parent, and the distinct signers
// reach the quorum table) | bad (at least one signature, not acceptable).  `stale` = the online validators at the
// fork point (shape "prevview": a quorum of the validator set the fork started from).
func (s *c08scen) mkCert(blk c08blk, shape string, stale []common.Address) (*types.BlockCert, string) {
	r := s.r
	committee := append([]common.Address{}, blk.preOnline...)
	if len(committee) == 0 {
		committee = []common.Address{blk.god}
	}
	need := c08threshold(len(blk.preOnline))
	signers := append([]common.Address{}, committee...)
	r.Shuffle(len(signers), func(i, j int) { signers[i], signers[j] = signers[j], signers[i] })
	step := []uint8{1, 2, 3, types.Final}[r.Intn(4)]
	hdr := func() *types.VoteHeader {
		return &types.VoteHeader{Round: blk.b.Height(), Step: step, ParentHash: blk.b.Header.ParentHash(), VotedHash: blk.b.Hash(),
			TurnOffline: r.Intn(6) == 0, Upgrade: uint32(r.Intn(2))}
	}
	cert := &types.BlockCert{Round: blk.b.Height(), Step: step, VotedHash: blk.b.Hash()}
	var used []common.Address
	hdrOK := true
	add := func(a common.Address, h *types.VoteHeader) {
		cert.Signatures = append(cert.Signatures, c08sign(s.w.Keys[s.w.Index(a)], h))
		used = append(used, a)
	}
	foreign := false
	switch shape {
	case "nil":
		return nil, "n"
	case "empty":
		return &types.BlockCert{}, "e"
	case "emptyhdr":
	case "valid":
		for _, a := range signers {
			add(a, hdr())
		}
	case "min":
		for _, a := range signers[:need] {
			add(a, hdr())
		}
	case "under":
		for _, a := range signers[:need-1] {
			add(a, hdr())
		}
	case "dupsig":
		for _, a := range signers[:need-1] {
			add(a, hdr())
		}
		if len(cert.Signatures) > 0 {
			cert.Signatures = append(cert.Signatures, cert.Signatures[0])
		}
	case "forged":
		for _, a := range signers[:need] {
			add(a, hdr())
		}
		cert.Signatures = append(cert.Signatures, c08sign(s.outsider, hdr()))
		foreign = true
		r.Shuffle(len(cert.Signatures), func(i, j int) { cert.Signatures[i], cert.Signatures[j] = cert.Signatures[j], cert.Signatures[i] })
	case "outsider":
		for i := 0; i < need; i++ {
			cert.Signatures = append(cert.Signatures, c08sign(chainfx.DetKey(s.cs.Seed, 900+i), hdr()))
		}
		foreign = true
	case "badlen", "badrecid", "badzero":
		// a full quorum of good votes PLUS one signature no public key can be recovered from (wrong length, recovery id
		// out of range, r = s = 0): block sync / ValidateBlockCertOnHead refuse such a certificate ("invalid voter")
		for _, a := range signers {
			add(a, hdr())
		}
		junk := c08sign(s.outsider, hdr())
		switch shape {
		case "badlen":
			junk.Signature = junk.Signature[:64]
		case "badrecid":
			junk.Signature[64] = 7
		case "badzero":
			junk.Signature = make([]byte, 65)
		}
		pos := r.Intn(len(cert.Signatures) + 1)
		cert.Signatures = append(cert.Signatures[:pos:pos], append([]*types.BlockCertSignature{junk}, cert.Signatures[pos:]...)...)
		foreign = true
	case "prevview":
		st := append([]common.Address{}, stale...)
		if len(st) == 0 {
			st = []common.Address{blk.god}
		}
		for _, a := range st {
			add(a, hdr())
		}
	case "round":
		cert.Round++
		hdrOK = false
		for _, a := range signers {
			h := hdr()
			h.Round++
			add(a, h)
		}
	case "hash":
		cert.VotedHash[3] ^= 0x10
		hdrOK = false
		for _, a := range signers {
			h := hdr()
			h.VotedHash = cert.VotedHash
			add(a, h)
		}
	case "parent":
		hdrOK = false
		for _, a := range signers {
			h := hdr()
			h.ParentHash[5] ^= 1
			add(a, h)
		}
	default:
		panic("unknown cert shape " + shape)
	}
	if len(cert.Signatures) == 0 {
		return cert, "e"
	}
	distinct := map[common.Address]bool{}
	for _, a := range used {
		in := false
		for _, c := range committee {
			in = in || c == a
		}
		if !in {
			foreign = true
		}
		distinct[a] = true
	}
	if hdrOK && !foreign && len(distinct) >= need {
		return cert, "ok"
	}
	return cert, "bad"
}

func c08cloneCert(c *types.BlockCert) *types.BlockCert {
	if c == nil {
		return nil // batch.go: a nil certificate is not put on the wire and stays nil at the receiver
	}
	raw, err := c.ToBytes()
	if err != nil {
		panic(err)
	}
	n := new(types.BlockCert)
	if err := n.FromBytes(raw); err != nil {
		panic(err)
	}
	return n
}

func c08start(cs c08case) (*c08scen, error) {
	w := c08world(cs.Seed)
	chainfx.SetTime(w.T0)
	s := &c08scen{cs: cs, w: w, r: rand.New(rand.NewSource(cs.Seed ^ 0x5eed)), outsider: chainfx.DetKey(cs.Seed, 777),
		victims: []int{5, 6, 7, 8, 9, 10, 4}, stats: map[string]int{}}
	var err error
	mk := func(ki int) *chainfx.Node {
		if err != nil {
			return nil
		}
		var n *chainfx.Node
		n, err = w.StartNode(nil, ki, false)
		return n
	}
	s.a, s.a1, s.b, s.b1, s.c = mk(0), mk(1), mk(0), mk(1), mk(2)
	if err != nil {
		return nil, err
	}
	return s, nil
}

// build produces prefix, own branch and fork branch.
func (s *c08scen) build() error {
	cs := s.cs
	all := &c08branch{props: []*chainfx.Node{s.a, s.a1}, followers: []*chainfx.Node{s.b, s.b1, s.c}, snd: chainfx.NewSender(s.w)}
	for i := 0; i < cs.Online && i <= c08Validators; i++ {
		s.offer(all, i, chainfx.OnlineTx(true), nil)
	}
	for i := 0; i < cs.Prefix; i++ {
		kind := "q"
		if i > 0 && s.r.Intn(3) == 0 {
			kind = "p"
		}
		rec, err := s.produce(all, kind, nil)
		if err != nil {
			return fmt.Errorf("prefix: %v", err)
		}
		s.prefix = append(s.prefix, rec)
	}
	brA := &c08branch{props: []*chainfx.Node{s.a, s.a1}, snd: chainfx.NewSender(s.w)}
	brB := &c08branch{props: []*chainfx.Node{s.b, s.b1}, followers: []*chainfx.Node{s.c}, snd: chainfx.NewSender(s.w), victim: 0}
	var shareTo *c08branch
	if cs.Share {
		shareTo = brB
	}
	for _, k := range cs.Own {
		rec, err := s.produce(brA, k, shareTo)
		if err != nil {
			return fmt.Errorf("own branch: %v", err)
		}
		s.own = append(s.own, rec)
	}
	if !cs.Share {
		brB.victim = 1 // different victims on the two branches unless transactions are shared
	}
	for _, k := range cs.Fork {
		rec, err := s.produce(brB, k, nil)
		if err != nil {
			return fmt.Errorf("fork branch: %v", err)
		}
		s.fork = append(s.fork, rec)
	}
	return nil
}

type c08item struct {
	bundle types.BlockBundle
	cls    string // certificate class
	valid  bool   // the block is an untampered block of the fork branch (or of the common prefix)
	fake   bool
}

func c08tamper(b *types.Block, kind string) *types.Block {
	nb, _ := chainfx.CloneBlock(b)
	switch kind {
	case "droptx":
		if len(nb.Body.Transactions) > 0 {
			nb.Body.Transactions = nb.Body.Transactions[1:]
			break
		}
		fallthrough
	case "root":
		if nb.IsEmpty() {
			nb.Header.EmptyBlockHeader.Root[7] ^= 1
		} else {
			nb.Header.ProposedHeader.Root[7] ^= 1
		}
	case "flags":
		if nb.IsEmpty() {
			nb.Header.EmptyBlockHeader.Flags ^= types.IdentityUpdate
		} else {
			nb.Header.ProposedHeader.Flags ^= types.IdentityUpdate
		}
	case "time":
		// a timestamp before the parent's (a merely shifted timestamp that keeps the minimal delay is still a valid block:
		// headers carry no proposer signature)
		if nb.IsEmpty() {
			nb.Header.EmptyBlockHeader.Time = 1000
		} else {
			nb.Header.ProposedHeader.Time = 1000
		}
	case "idroot":
		if nb.IsEmpty() {
			nb.Header.EmptyBlockHeader.IdentityRoot[2] ^= 4
		} else {
			nb.Header.ProposedHeader.IdentityRoot[2] ^= 4
		}
	default:
		panic("unknown tamper kind " + kind)
	}
	nb, _ = chainfx.CloneBlock(nb)
	return nb
}

func c08fakeEmpty(height uint64, parent common.Hash) *types.Block {
	return &types.Block{Header: &types.Header{EmptyBlockHeader: &types.EmptyBlockHeader{Height: height, ParentHash: parent}}, Body: &types.Body{}}
}

// peerAnswer builds the bundle list the peer sends.
func (s *c08scen) peerAnswer() []c08item {
	cs := s.cs
	var items []c08item
	for i, f := range s.fork {
		shape := "nil"
		if i < len(cs.Certs) {
			shape = cs.Certs[i]
		}
		blk := f
		valid := true
		if cs.Tamper == i {
			blk.b = c08tamper(f.b, cs.TamperKind)
			valid = false
		}
		cert, cls := s.mkCert(blk, shape, s.fork[0].preOnline)
		items = append(items, c08item{bundle: types.BlockBundle{Block: blk.b, Cert: c08cloneCert(cert)}, cls: cls, valid: valid})
	}
	n := len(items)
	arg := cs.ListArg
	switch cs.List {
	case "ok":
	case "shuffled":
		s.r.Shuffle(n, func(i, j int) { items[i], items[j] = items[j], items[i] })
	case "gap":
		if n >= 3 {
			k := 1 + arg%(n-2)
			items = append(items[:k:k], items[k+1:]...)
		}
	case "dup":
		k := arg % n
		d := items[k]
		d.bundle.Block, _ = chainfx.CloneBlock(d.bundle.Block)
		items = append(items[:k+1:k+1], append([]c08item{d}, items[k+1:]...)...)
	case "dropfirst":
		if n >= 2 {
			items = items[1:]
		}
	case "height0":
		items = []c08item{{bundle: types.BlockBundle{Block: c08fakeEmpty(0, common.Hash{}), Cert: &types.BlockCert{}}, cls: "e", fake: true}}
	case "height0tip":
		items = append([]c08item{{bundle: types.BlockBundle{Block: c08fakeEmpty(0, common.Hash{})}, cls: "n", fake: true}}, items...)
	case "far":
		items = []c08item{{bundle: types.BlockBundle{Block: c08fakeEmpty(s.a.Chain.Head.Height()+50, s.a.Chain.Head.Hash()), Cert: &types.BlockCert{}}, cls: "e", fake: true}}
	case "known":
		// the answer starts below the real common ancestor: the last k common blocks (certified) come first
		k := 1 + arg%len(s.prefix)
		var pre []c08item
		for _, p := range s.prefix[len(s.prefix)-k:] {
			cert, cls := s.mkCert(p, "valid", nil)
			pre = append(pre, c08item{bundle: types.BlockBundle{Block: p.b, Cert: c08cloneCert(cert)}, cls: cls, valid: true})
		}
		items = append(pre, items...)
	case "none":
		items = nil
	case "peer":
		// what the real peer code answers: B stores the certificates it has (the engine never stores nil ones),
		// A sends its top block hashes, B answers with ReadBlockForForkedPeer
		byHash := map[common.Hash]c08item{}
		for _, it := range items {
			byHash[it.bundle.Block.Hash()] = it
			if it.bundle.Cert != nil {
				s.b.Chain.WriteCertificate(it.bundle.Block.Hash(), it.bundle.Cert, false)
			}
		}
		var res []c08item
		for _, bd := range s.b.Chain.ReadBlockForForkedPeer(s.a.Chain.GetTopBlockHashes(100)) {
			it, ok := byHash[bd.Block.Hash()]
			if !ok {
				continue
			}
			cb, _ := chainfx.CloneBlock(bd.Block)
			cls := it.cls
			if bd.Cert == nil {
				cls = "n"
			}
			res = append(res, c08item{bundle: types.BlockBundle{Block: cb, Cert: c08cloneCert(bd.Cert)}, cls: cls, valid: true})
		}
		items = res
	default:
		panic("unknown list mode " + cs.List)
	}
	return items
}

func c08guard(f func() error) (res string, detail string) {
	defer func() {
		if rec := recover(); rec != nil {
			res, detail = "panic", fmt.Sprintf("%v\n%s", rec, debug.Stack())
		}
	}()
	if err := f(); err != nil {
		return "err", err.Error()
	}
	return "ok", ""
}

type c08ids struct {
	blk map[common.Hash]int
	tx  map[common.Hash]int
}

func (ids *c08ids) b(h common.Hash) int {
	if v, ok := ids.blk[h]; ok {
		return v
	}
	ids.blk[h] = len(ids.blk) + 1
	return ids.blk[h]
}
func (ids *c08ids) t(h common.Hash) int {
	if v, ok := ids.tx[h]; ok {
		return v
	}
	ids.tx[h] = len(ids.tx) + 1
	return ids.tx[h]
}
func (ids *c08ids) txs(l []*types.Transaction) string {
	if len(l) == 0 {
		return "-"
	}
	var p []string
	for _, t := range l {
		p = append(p, fmt.Sprint(ids.t(t.Hash())))
	}
	return strings.Join(p, ",")
}

func c08b(v bool) int {
	if v {
		return 1
	}
	return 0
}

// c08certClass: what the certificate index holds for a block: - (no record) | e (a record without signatures) | c
func c08certClass(c *types.BlockCert) string {
	if c == nil {
		return "-"
	}
	if c.Empty() {
		return "e"
	}
	return "c"
}

func c08certBytes(c *types.BlockCert) []byte {
	if c == nil {
		return nil
	}
	raw, _ := c.ToBytes()
	return append([]byte{1}, raw...)
}

type c08result struct {
	signature string
	detail    string
}

// c08run executes one case; returns the first oracle failure (nil if none) and whether the case was non-trivial.
func c08run(c *hx.Ctx, cs c08case, emit bool) (*c08result, error) {
	defer os.RemoveAll("./testdata")
	defer os.RemoveAll("./testdata2")
	s, err := c08start(cs)
	if err != nil {
		return nil, err
	}
	if err := s.build(); err != nil {
		if emit {
			c.Hit("scenario-unbuildable")
		}
		return nil, nil // the generator asked for something the chain rules do not allow; not a property matter
	}
	A, C := s.a, s.c
	line := func(op, ans string) {
		if emit {
			c.Line(op, ans)
		}
	}
	hit := func(b string) {
		if emit {
			c.Hit(b)
		}
	}
	var fail *c08result
	bad := func(sig, detail string) {
		if fail == nil {
			fail = &c08result{sig, detail}
		}
	}
	items := s.peerAnswer()
	ids := &c08ids{blk: map[common.Hash]int{}, tx: map[common.Hash]int{}}

	// ---- abstract scenario for the model
	oldHead := A.Chain.Head.Height()
	var ownBlocks []*types.Block
	base := uint64(0)
	for h := uint64(0); h <= oldHead; h++ {
		if b := A.Chain.GetBlockByHeight(h); b != nil {
			if len(ownBlocks) == 0 {
				base = h
			}
			ownBlocks = append(ownBlocks, b)
		}
	}
	var seeds [][]byte
	for _, b := range ownBlocks {
		sd := b.Seed()
		seeds = append(seeds, sd[:])
	}
	for _, it := range items {
		sd := it.bundle.Block.Seed()
		seeds = append(seeds, sd[:])
	}
	sort.Slice(seeds, func(i, j int) bool { return bytes.Compare(seeds[i], seeds[j]) < 0 })
	rank := func(sd types.Seed) int {
		r := 0
		for i, x := range seeds {
			if i > 0 && !bytes.Equal(seeds[i-1], x) {
				r++
			}
			if bytes.Equal(x, sd[:]) {
				return r
			}
		}
		return -1
	}
	line(fmt.Sprintf("new %d", base), "ok")
	for _, b := range ownBlocks {
		pid := 0
		if b.Height() > base {
			pid = ids.b(b.Header.ParentHash())
		}
		line(fmt.Sprintf("own %d %d %d %d %d %s", ids.b(b.Hash()), b.Height(), pid, c08b(b.IsEmpty()), rank(b.Seed()), ids.txs(b.Body.Transactions)), "ok")
	}
	for _, it := range items {
		b := it.bundle.Block
		line(fmt.Sprintf("fb %d %d %d %d %d %d %d %s %s", ids.b(b.Hash()), b.Height(), ids.b(b.Header.ParentHash()), c08b(b.IsEmpty()),
			c08b(b.Header.Flags().HasFlag(types.IdentityUpdate)), c08b(it.valid && !it.fake), rank(b.Seed()), it.cls, ids.txs(b.Body.Transactions)), "ok")
		hit("cert-class:" + it.cls)
		if b.Header.Flags().HasFlag(types.IdentityUpdate) {
			hit("fork-block:identity-update")
		}
		if b.IsEmpty() {
			hit("fork-block:empty")
		}
	}

	// ---- snapshot of A before anything (validation must not change it)
	type snap struct {
		head         common.Hash
		root, idRoot common.Hash
		canon        []common.Hash
	}
	snapshot := func(n *chainfx.Node, upTo uint64) snap {
		sn := snap{head: n.Chain.Head.Hash(), root: n.App.State.Root(), idRoot: n.App.IdentityState.Root()}
		for h := uint64(0); h <= upTo; h++ {
			if hd := n.Chain.GetBlockHeaderByHeight(h); hd != nil {
				sn.canon = append(sn.canon, hd.Hash())
			} else {
				sn.canon = append(sn.canon, common.Hash{})
			}
		}
		return sn
	}
	before := snapshot(A, oldHead+2)

	bundles := func() []types.BlockBundle {
		var l []types.BlockBundle
		for _, it := range items {
			l = append(l, it.bundle)
		}
		return l
	}
	resolver := consensus.VerifNewForkResolver(nil, A.Chain, collector.NewStatsCollector())

	// sorted view (real sortBlocks on a copy)
	var sorted []types.BlockBundle
	if r, d := c08guard(func() error { sorted = consensus.VerifSortBlocks(bundles()); return nil }); r == "panic" {
		bad("C08:fork-resolver-panic", "sortBlocks: "+d)
	}
	{
		var p []string
		for _, b := range sorted {
			p = append(p, fmt.Sprint(ids.b(b.Block.Hash())))
		}
		line("sort", strings.Join(append([]string{"ids"}, p...), " "))
	}
	// real checkForkSize and ValidateSubChain separately (no side effects expected), then the real processBlocks
	cfs, d := c08guard(func() error { return resolver.VerifCheckForkSize(sorted) })
	if cfs == "panic" {
		bad("C08:fork-resolver-panic", "checkForkSize: "+d)
	}
	line("cfs", cfs)
	hit("checkForkSize:" + cfs)
	vsc := "skip"
	if len(sorted) > 0 {
		vsc, d = c08guard(func() error { return A.Chain.ValidateSubChain(sorted[0].Block.Height()-1, sorted) })
		if vsc == "panic" {
			bad("C08:fork-resolver-panic", "ValidateSubChain: "+d)
		}
		line("vsc", vsc)
		if os.Getenv("C08_DEBUG") != "" {
			fmt.Fprintf(os.Stderr, "case %s\n  cfs=%s vsc=%s %s\n", c08key(cs), cfs, vsc, strings.SplitN(d, "\n", 2)[0])
			if vsc == "err" {
				for i := 1; i <= len(sorted); i++ {
					if e := A.Chain.ValidateSubChain(sorted[0].Block.Height()-1, sorted[:i]); e != nil && !strings.Contains(e.Error(), "last block") {
						b := sorted[i-1].Block
						fmt.Fprintf(os.Stderr, "  first failing index %d height %d empty=%v flags=%v txs=%d: %v\n", i-1, b.Height(), b.IsEmpty(), b.Header.Flags(), len(b.Body.Transactions), e)
						for _, tx := range b.Body.Transactions {
							sd, _ := types.Sender(tx)
							fmt.Fprintf(os.Stderr, "    tx type %d sender %d nonce %d\n", tx.Type, s.w.Index(sd), tx.AccountNonce)
						}
						break
					}
				}
			}
		}
		hit("ValidateSubChain:" + vsc)
	}
	// (only for a common ancestor well inside the window of 100 saved versions: outside of it a refusal is right)
	if vsc == "err" && cs.Tamper < 0 && (cs.List == "ok" || cs.List == "shuffled" || cs.List == "known") && len(cs.Own)+cs.Prefix < 99 {
		allOK := len(items) > 0
		for _, it := range items {
			allOK = allOK && it.cls == "ok" && it.valid
		}
		if allOK {
			bad("C08:honest-fork-refused", "ValidateSubChain refused a fork that a clean follower accepted block by block and whose every block carries a quorum certificate of its parent state's online validators: "+strings.SplitN(d, "\n", 2)[0])
		}
	}
	proc, d := c08guard(func() error { return resolver.VerifProcessBlocks(bundles()) })
	if proc == "panic" {
		bad("C08:fork-resolver-panic", "processBlocks: "+d)
	}
	commonH, applicable, loaded := resolver.VerifApplicable()
	line("process", fmt.Sprintf("%s %d", proc, c08b(loaded)))
	hit(fmt.Sprintf("processBlocks:%s:list=%s", proc, cs.List))
	if (proc == "ok") != loaded {
		bad("C08:resolver-verdict-inconsistent", fmt.Sprintf("processBlocks=%s but HasLoadedFork=%v", proc, loaded))
	}
	if after := snapshot(A, oldHead+2); fmt.Sprint(after) != fmt.Sprint(before) {
		bad("C08:validation-changed-node", "head/roots/canonical hashes of the node changed during fork validation")
	}

	// ---- oracle: what must be refused (decided from how the case was constructed, not from the code or the model)
	if loaded {
		tipIdx := -1
		// is the (sorted) answer a chain on top of one of the node's canonical blocks? (decided from the headers alone)
		ref := bundles()
		sort.SliceStable(ref, func(i, j int) bool { return ref[i].Block.Height() < ref[j].Block.Height() })
		structural := len(ref) == 0
		for i, b := range ref {
			if i == 0 {
				anc := A.Chain.GetBlockHeaderByHeight(b.Block.Height() - 1)
				structural = structural || b.Block.Height() == 0 || anc == nil || anc.Hash() != b.Block.Header.ParentHash()
			} else {
				structural = structural || b.Block.Height() != ref[i-1].Block.Height()+1 || b.Block.Header.ParentHash() != ref[i-1].Block.Hash()
			}
		}
		if structural {
			bad("C08:invalid-fork-accepted:not-a-chain", "a block list (mode "+cs.List+") that is not a chain on top of a canonical block of the node was found applicable")
		}
		for i, it := range items {
			if tipIdx < 0 || it.bundle.Block.Height() >= items[tipIdx].bundle.Block.Height() {
				tipIdx = i
			}
		}
		if tipIdx >= 0 && !structural {
			switch items[tipIdx].cls {
			case "n":
				bad("C08:fork-accepted-with-missing-tip-cert", "the last fork block has no certificate")
			case "e":
				bad("C08:fork-accepted-with-empty-tip-cert", "the last fork block carries an empty (non-nil) certificate")
			case "bad":
				sig := "C08:fork-accepted-with-invalid-tip-cert"
				if cs.Certs[len(cs.Certs)-1] == "prevview" {
					sig += ":stale-validator-view"
				}
				bad(sig, fmt.Sprintf("the last fork block carries a certificate (shape %s) that is not a quorum of the online validators of its parent state", cs.Certs[len(cs.Certs)-1]))
			}
		}
		for i, it := range items {
			if !it.valid || it.fake {
				bad("C08:invalid-fork-accepted:tampered-block", fmt.Sprintf("fork with a tampered block (%s at index %d) was found applicable", cs.TamperKind, i))
			}
			if it.cls == "bad" && i != tipIdx {
				shape := ""
				if cs.List == "ok" && i < len(cs.Certs) {
					shape = " (shape " + cs.Certs[i] + ")"
				}
				bad("C08:fork-accepted-with-invalid-intermediate-cert", fmt.Sprintf("fork block at height %d carries a non-empty certificate%s that is not a quorum certificate of its parent state's online validators (block sync refuses it)", it.bundle.Block.Height(), shape))
			}
			if it.bundle.Block.Header.Flags().HasFlag(types.IdentityUpdate) && it.cls != "ok" {
				bad("C08:fork-accepted-identity-update-uncertified", fmt.Sprintf("identity-update block at height %d carries certificate class %s", it.bundle.Block.Height(), it.cls))
			}
		}
	}

	// ---- adoption
	if loaded && fail == nil {
		hit("adoption-attempted")
		// the node's own chain moves on between loadAndVerifyFork and the engine's ApplyFork
		if len(cs.Advance) > 0 {
			brAdv := &c08branch{props: []*chainfx.Node{s.a, s.a1}, snd: chainfx.NewSender(s.w)}
			for _, k := range cs.Advance {
				rec, err := s.produce(brAdv, k, nil)
				if err != nil {
					return nil, nil
				}
				b := rec.b
				line(fmt.Sprintf("adv %d %d %d %d %d %s", ids.b(b.Hash()), b.Height(), ids.b(b.Header.ParentHash()), c08b(b.IsEmpty()), 0, ids.txs(b.Body.Transactions)), "ok")
			}
			oldHead = A.Chain.Head.Height()
			hit(fmt.Sprintf("advance-before-apply:%d", len(cs.Advance)))
		}
		preApply := snapshot(A, oldHead+2)
		preHead := A.Chain.Head
		var abandoned []*types.Transaction
		var abandonedBlocks []common.Hash
		for h := commonH + 1; h <= oldHead; h++ {
			if b := A.Chain.GetBlockByHeight(h); b != nil {
				abandoned = append(abandoned, b.Body.Transactions...)
				abandonedBlocks = append(abandonedBlocks, b.Hash())
			}
		}
		var reverted []*types.Transaction
		ap, d := c08guard(func() error {
			var e error
			reverted, e = resolver.ApplyFork()
			return e
		})
		line("apply", ap)
		hit("ApplyFork:" + ap)
		switch ap {
		case "panic":
			first := strings.SplitN(d, "\n", 2)[0]
			nilCert := false
			for _, b := range applicable {
				nilCert = nilCert || b.Cert == nil
			}
			sig := "C08:fork-adoption-panic"
			if nilCert && strings.Contains(d, "WriteCertificate") {
				sig = "C08:fork-adoption-panic:nil-certificate-write"
			}
			bad(sig, fmt.Sprintf("ApplyFork panicked after the fork had been found applicable (%s); node left at height %d of the fork (tip %d)", first, A.Chain.Head.Height(), applicable[len(applicable)-1].Block.Height()))
		case "err":
			// the state of the common height left the window of 100 saved versions while the own chain moved on: the
			// rollback must fail, and a failed adoption must leave the node exactly as it was
			if oldHead-commonH < uint64(state.MaxSavedStatesCount) {
				bad("C08:adoption-failed-after-validation", "ApplyFork returned an error for a fork that ValidateSubChain accepted: "+d)
				break
			}
			hit("ApplyFork:err:common-state-out-of-window")
			line("head", fmt.Sprint(ids.b(A.Chain.Head.Hash())))
			for _, h := range []uint64{commonH, commonH + 1, oldHead, oldHead + 1} {
				ans := "-"
				if b := A.Chain.GetBlockByHeight(h); b != nil {
					ans = fmt.Sprint(ids.b(b.Hash()))
				}
				line(fmt.Sprintf("canon %d", h), ans)
			}
			changed := func(what string) {
				bad("C08:failed-adoption-changed-node", fmt.Sprintf("ApplyFork failed (%s) but did not leave the node as it was: %s (own head %d, common %d)", strings.SplitN(d, "\n", 2)[0], what, preHead.Height(), commonH))
			}
			if A.Chain.Head.Hash() != preHead.Hash() {
				changed(fmt.Sprintf("head is now block %d", A.Chain.Head.Height()))
			}
			if st := A.Chain.GetHead(); st == nil || st.Hash() != preHead.Hash() {
				changed("the stored head pointer moved")
			}
			if A.Chain.Head.Root() != A.App.State.Root() || A.Chain.Head.IdentityRoot() != A.App.IdentityState.Root() {
				changed(fmt.Sprintf("head (height %d) and loaded state (version %d) disagree", A.Chain.Head.Height(), A.App.State.Version()))
			}
			if fmt.Sprint(snapshot(A, oldHead+2)) != fmt.Sprint(preApply) {
				changed("head / roots / canonical hashes changed")
			}
			if va, v1 := A.App.ValidatorsCache, s.a1.App.ValidatorsCache; va.NetworkSize() != v1.NetworkSize() || va.OnlineSize() != v1.OnlineSize() || fmt.Sprint(c08online(A)) != fmt.Sprint(c08online(s.a1)) {
				changed("validator view differs from the replica of the own branch")
			}
			if r, d2 := c08guard(func() error { _, e := A.App.ForCheck(preHead.Height()); return e }); r != "ok" {
				changed("the state of the own head cannot be loaded: " + strings.SplitN(d2, "\n", 2)[0])
			}
			if r, d2 := c08guard(func() error { return A.Chain.EnsureIntegrity() }); r != "ok" {
				changed("EnsureIntegrity: " + strings.SplitN(d2, "\n", 2)[0])
			}
			if A.Chain.Head.Hash() != preHead.Hash() {
				changed("EnsureIntegrity moved the head")
			}
			if fail == nil { // the node goes on with its own chain
				if _, err := s.produce(&c08branch{props: []*chainfx.Node{s.a, s.a1}, snd: chainfx.NewSender(s.w)}, "p", nil); err != nil {
					changed("the node cannot add the next own block: " + strings.SplitN(err.Error(), "\n", 2)[0])
				} else if A.Chain.Head.ParentHash() != preHead.Hash() {
					changed("the next own block is not on top of the own head")
				}
			}
		case "ok":
			// C followed the fork from the start; bring it to the adopted tip if the peer answer was shorter than the fork
			tip := applicable[len(applicable)-1].Block
			if C.Chain.Head.Height() > tip.Height() {
				if _, err := C.Chain.ResetTo(tip.Height()); err != nil {
					return nil, err
				}
			}
			// the clean follower stores certificates the way the sync path does (full.go:86: non-empty ones only)
			for _, b := range applicable {
				if !b.Cert.Empty() {
					C.Chain.WriteCertificate(b.Block.Hash(), b.Cert, true)
				}
			}
			line("head", fmt.Sprint(ids.b(A.Chain.Head.Hash())))
			if A.Chain.Head.Hash() != C.Chain.Head.Hash() {
				bad("C08:adoption-differs:head", fmt.Sprintf("head %s vs follower %s", A.Chain.Head.Hash().Hex(), C.Chain.Head.Hash().Hex()))
			}
			if A.App.State.Root() != C.App.State.Root() || A.App.IdentityState.Root() != C.App.IdentityState.Root() {
				bad("C08:adoption-differs:roots", "state / identity roots differ from the follower")
			}
			if A.Chain.Head.Root() != A.App.State.Root() || A.Chain.Head.IdentityRoot() != A.App.IdentityState.Root() {
				bad("C08:adoption-differs:roots", "loaded state does not match the head header")
			}
			va, vc := A.App.ValidatorsCache, C.App.ValidatorsCache
			if va.NetworkSize() != vc.NetworkSize() || va.OnlineSize() != vc.OnlineSize() || va.ValidatorsSize() != vc.ValidatorsSize() ||
				va.ForkCommitteeSize() != vc.ForkCommitteeSize() || fmt.Sprint(c08online(A)) != fmt.Sprint(c08online(C)) || va.Height() != vc.Height() {
				bad("C08:adoption-differs:validators", fmt.Sprintf("validator view (network %d online %d validators %d height %d) vs follower (%d %d %d %d)",
					va.NetworkSize(), va.OnlineSize(), va.ValidatorsSize(), va.Height(), vc.NetworkSize(), vc.OnlineSize(), vc.ValidatorsSize(), vc.Height()))
			}
			for i := range s.w.Addrs {
				a := s.w.Addrs[i]
				if va.IsValidated(a) != vc.IsValidated(a) || va.IsOnlineIdentity(a) != vc.IsOnlineIdentity(a) || va.IsDiscriminated(a) != vc.IsDiscriminated(a) || va.IsPool(a) != vc.IsPool(a) {
					bad("C08:adoption-differs:validators", fmt.Sprintf("validator view differs for identity %d", i))
				}
			}
			top := oldHead
			if tip.Height() > top {
				top = tip.Height()
			}
			for h := base; h <= top+1; h++ {
				ha, hc := A.Chain.GetBlockByHeight(h), C.Chain.GetBlockByHeight(h)
				ans := "-"
				if ha != nil {
					ans = fmt.Sprint(ids.b(ha.Hash()))
				}
				if h > commonH || h == base {
					line(fmt.Sprintf("canon %d", h), ans)
				}
				if A.Chain.FxRepo().ReadCanonicalHash(h) != C.Chain.FxRepo().ReadCanonicalHash(h) {
					bad("C08:adoption-differs:canonical", fmt.Sprintf("stored canonical hash at height %d differs from the follower (%s vs %s)", h,
						A.Chain.FxRepo().ReadCanonicalHash(h).Hex(), C.Chain.FxRepo().ReadCanonicalHash(h).Hex()))
				}
				if (ha == nil) != (hc == nil) || ha != nil && ha.Hash() != hc.Hash() {
					bad("C08:adoption-differs:canonical", fmt.Sprintf("canonical block at height %d differs from the follower", h))
				}
				if ha != nil {
					ca, cc := A.Chain.GetCertificate(ha.Hash()), C.Chain.GetCertificate(hc.Hash())
					if h > commonH {
						line(fmt.Sprintf("cert %d", ids.b(ha.Hash())), c08certClass(ca))
					}
					if !bytes.Equal(c08certBytes(ca), c08certBytes(cc)) {
						bad("C08:adoption-differs:certificates", fmt.Sprintf("certificate record of canonical block %d: %s (%d signatures) vs follower %s", h, c08certClass(ca), func() int {
							if ca == nil {
								return 0
							}
							return len(ca.Signatures)
						}(), c08certClass(cc)))
					}
				}
			}
			for _, hb := range abandonedBlocks {
				if A.Chain.GetBlock(hb) != nil && C.Chain.GetBlock(hb) == nil {
					bad("C08:adoption-differs:abandoned-block-still-served", "an abandoned block is still returned by GetBlock")
				}
			}
			// transaction index: fork transactions and abandoned transactions
			var probe []*types.Transaction
			for _, b := range applicable {
				probe = append(probe, b.Block.Body.Transactions...)
			}
			probe = append(probe, abandoned...)
			seenTx := map[common.Hash]bool{}
			for _, tx := range probe {
				if seenTx[tx.Hash()] {
					continue
				}
				seenTx[tx.Hash()] = true
				ta, ia := A.Chain.GetTx(tx.Hash())
				tc, ic := C.Chain.GetTx(tx.Hash())
				ans := "-"
				if ta != nil {
					ans = fmt.Sprintf("%d %d", ids.b(ia.BlockHash), ia.Idx)
				}
				line(fmt.Sprintf("txidx %d", ids.t(tx.Hash())), ans)
				if (ta == nil) != (tc == nil) || ta != nil && (ia.BlockHash != ic.BlockHash || ia.Idx != ic.Idx) {
					bad("C08:adoption-differs:tx-index", fmt.Sprintf("transaction %s resolves differently from the follower", tx.Hash().Hex()))
				}
				if ta != nil {
					for _, hb := range abandonedBlocks {
						if ia.BlockHash == hb {
							onFork := false
							for _, b := range applicable {
								onFork = onFork || b.Block.Hash() == hb
							}
							if !onFork {
								bad("C08:adoption-differs:tx-index", "transaction index resolves to an abandoned block")
							}
						}
					}
				}
			}
			line("reverted", ids.txs(reverted))
			if ids.txs(reverted) != ids.txs(abandoned) {
				bad("C08:reverted-txs-not-handed-back", fmt.Sprintf("ApplyFork returned %s, abandoned blocks held %s", ids.txs(reverted), ids.txs(abandoned)))
			}
			hit(fmt.Sprintf("reverted-txs:%d", c08b(len(reverted) > 0)))
			// what the adopted node serves to a node of the old branch that asks for the fork (GetForkBlockRange):
			// the same as the follower serves, and acceptable to the asker
			if len(cs.Own)+cs.Prefix < 90 {
				asker := s.a1
				hashes := asker.Chain.GetTopBlockHashes(100)
				var sa, sc []types.BlockBundle
				if r, d := c08guard(func() error {
					sa = A.Chain.ReadBlockForForkedPeer(hashes)
					sc = C.Chain.ReadBlockForForkedPeer(hashes)
					return nil
				}); r != "ok" {
					bad("C08:fork-resolver-panic", "ReadBlockForForkedPeer: "+d)
				}
				desc := func(l []types.BlockBundle) string {
					var p []string
					for _, b := range l {
						p = append(p, fmt.Sprintf("%d:%s", ids.b(b.Block.Hash()), c08certClass(b.Cert)))
					}
					return strings.Join(append([]string{"srv"}, p...), " ")
				}
				var asked []string
				for _, hh := range hashes {
					asked = append(asked, fmt.Sprint(ids.b(hh)))
				}
				line(fmt.Sprintf("serve %d %s", A.Cfg.Blockchain.StoreCertRange, strings.Join(asked, ",")), desc(sa))
				same := len(sa) == len(sc)
				for k := 0; same && k < len(sa); k++ {
					same = sa[k].Block.Hash() == sc[k].Block.Hash() && bytes.Equal(c08certBytes(sa[k].Cert), c08certBytes(sc[k].Cert))
				}
				if !same {
					bad("C08:adoption-differs:served-fork", fmt.Sprintf("fork served to an old-branch node: %s, the follower serves %s", desc(sa), desc(sc)))
				}
				// (a range whose last block has no certificate record is what any node serves when more than StoreCertRange
				// consecutive blocks are uncertified; the asker refuses it, the follower serves the same)
				if len(sa) > 0 && sa[len(sa)-1].Cert == nil {
					hit("served-fork:uncertified-tip-like-follower")
				} else if len(sa) > 0 {
					var wire []types.BlockBundle
					for _, b := range sa {
						cb, _ := chainfx.CloneBlock(b.Block)
						wire = append(wire, types.BlockBundle{Block: cb, Cert: c08cloneCert(b.Cert)})
					}
					if r, d := c08guard(func() error { return asker.Chain.ValidateSubChain(wire[0].Block.Height()-1, wire) }); r != "ok" {
						bad("C08:adoption-differs:served-fork", fmt.Sprintf("the fork served by the adopted node (%s) is refused by a node of the old branch: %s", desc(sa), strings.SplitN(d, "\n", 2)[0]))
					}
					hit("served-fork:accepted-by-old-branch")
				} else {
					hit("served-fork:empty")
				}
			}
			// continue both nodes with two more blocks of the fork branch: hidden state must agree as well
			for k := 0; k < 2 && fail == nil; k++ {
				if s.b.Chain.Head.Hash() != A.Chain.Head.Hash() {
					break // the peer answer was shorter than the fork branch
				}
				rec, err := s.produce(&c08branch{props: []*chainfx.Node{s.b, s.b1}, snd: chainfx.NewSender(s.w)}, []string{"p", "e"}[k], nil)
				if err != nil {
					break
				}
				for _, n := range []*chainfx.Node{A, C} {
					cb, _ := chainfx.CloneBlock(rec.b)
					if r, d := c08guard(func() error { return n.Chain.AddBlock(cb, nil, collector.NewStatsCollector()) }); r != "ok" {
						if n == A {
							bad("C08:adoption-differs:continuation", "the node refused the next block of the adopted chain: "+d)
						}
					}
				}
				if A.App.State.Root() != C.App.State.Root() || A.App.IdentityState.Root() != C.App.IdentityState.Root() || A.Chain.Head.Hash() != C.Chain.Head.Hash() {
					bad("C08:adoption-differs:continuation", "roots differ from the follower after continuing the adopted chain")
				}
			}
		}
	}
	if emit {
		for k, v := range s.stats {
			for i := 0; i < v; i++ {
				c.Hit(k)
			}
		}
		hit(fmt.Sprintf("online-at-fork-point:%d", len(func() []common.Address {
			if len(s.fork) > 0 {
				return s.fork[0].preOnline
			}
			return nil
		}())))
		hit(fmt.Sprintf("fork-len:%d", len(cs.Fork)))
		hit(fmt.Sprintf("own-len:%d", len(cs.Own)))
		hit("list:" + cs.List)
		if cs.Tamper >= 0 {
			hit("tamper:" + cs.TamperKind)
		}
	}
	return fail, nil
}

var c08shapes = []string{"badlen", "nil", "empty", "badrecid", "emptyhdr", "under", "badzero", "dupsig", "forged", "outsider", "prevview", "round", "hash", "parent", "valid", "min"}

func c08gen(r *rand.Rand, i int) c08case {
	cs := c08case{Seed: r.Int63n(1 << 40), Online: 1 + r.Intn(5), Prefix: 1 + r.Intn(8), Tamper: -1, List: "ok", Share: r.Intn(3) == 0}
	if r.Intn(4) != 0 && cs.Prefix < 4 {
		cs.Prefix += 3
	}
	kinds := func(n int, idupd bool) []string {
		var l []string
		for j := 0; j < n; j++ {
			switch x := r.Intn(10); {
			case x < 2:
				l = append(l, "e")
			case x < 4:
				l = append(l, "q")
			case x < 7 || !idupd:
				l = append(l, "p")
			case x < 8:
				l = append(l, "k")
			default:
				l = append(l, "s")
			}
		}
		return l
	}
	nOwn := []int{0, 1, 1, 2, 2, 3, 4, 6}[r.Intn(8)]
	nFork := 1 + r.Intn(6)
	if r.Intn(4) == 0 {
		nFork = 1 + r.Intn(20)
	}
	cs.Own = kinds(nOwn, r.Intn(2) == 0)
	cs.Fork = kinds(nFork, true)
	// certificates: a plausible honest layout first (valid where needed is unknown before building, so: tip valid,
	// others mixed), then one defect in most cases
	for j := 0; j < nFork; j++ {
		cs.Certs = append(cs.Certs, []string{"nil", "empty", "valid", "valid", "min", "valid"}[r.Intn(6)])
	}
	cs.Certs[nFork-1] = []string{"valid", "min"}[r.Intn(2)]
	fam := i % 11
	if fam == 10 && (i/11)%2 == 1 { // the window-edge family costs about a second per case: every other turn only
		fam = 0
	}
	switch fam {
	case 10: // common ancestor at the edge of the window of 100 saved versions (head-98 / head-99 / head-100), the node
		// adds 0/1/2 own blocks between fork validation and ApplyFork: the rollback fails once the version is pruned
		combo := [][2]int{{99, 1}, {98, 2}, {99, 0}, {98, 1}, {99, 2}, {100, 0}, {98, 0}, {101, 1}}[(i/22)%8]
		cs.Online, cs.Share, cs.Own, cs.Fork, cs.Certs, cs.Advance = 1+r.Intn(2), false, nil, nil, nil, nil
		cs.Prefix = 4 + r.Intn(2)
		for j := 0; j < combo[0]; j++ {
			cs.Own = append(cs.Own, "e")
		}
		for j := 0; j < combo[1]; j++ {
			cs.Advance = append(cs.Advance, []string{"e", "q"}[r.Intn(2)])
		}
		for j := 0; j <= combo[0]; j++ { // one block longer than the own branch: the weight rule lets it through
			cs.Fork = append(cs.Fork, "q")
			cs.Certs = append(cs.Certs, "nil")
		}
		cs.Certs[len(cs.Certs)-1] = "valid"
	case 8, 9: // the validator set changes inside the fork (all four validator users switch), blocks follow the switch
		cs.Online = []int{1, 5}[r.Intn(2)]
		if cs.Prefix < 4 {
			cs.Prefix += 4
		}
		cs.Share = false
		j := 0
		for (cs.Prefix+2+j)%3 != 0 { // genesis has height 1: fork block j has height prefix+2+j
			j++
		}
		cs.Fork = []string{"S"}
		for k := 0; k < j; k++ {
			cs.Fork = append(cs.Fork, "q")
		}
		for k, n := 0, 1+r.Intn(3); k < n; k++ {
			cs.Fork = append(cs.Fork, []string{"e", "q", "p"}[r.Intn(3)])
		}
		cs.Certs = nil
		for range cs.Fork {
			cs.Certs = append(cs.Certs, []string{"valid", "min"}[r.Intn(2)])
		}
		if i%11 == 8 { // a tip certificate by a quorum of the validator set the fork started from
			cs.Certs[len(cs.Certs)-1] = "prevview"
		}
	case 0: // honest: everything certified (identity-update blocks need it)
		for j := range cs.Certs {
			if cs.Certs[j] == "nil" || cs.Certs[j] == "empty" {
				cs.Certs[j] = "valid"
			}
		}
		if (i/11)%2 == 1 { // shorter but heavier fork: the own branch is longer and made of empty blocks (weight rule + seed decide)
			cs.Own = nil
			for j, n := 0, nFork+1+r.Intn(2); j < n; j++ {
				cs.Own = append(cs.Own, "e")
			}
			if cs.Fork[0] == "e" {
				cs.Fork[0] = "q"
			}
			cs.Share = false
		}
	case 1: // honest with uncertified middle blocks where allowed: identity updates are excluded from the fork
		for j, k := range cs.Fork {
			if k == "k" || k == "s" {
				cs.Fork[j] = "p"
			}
		}
		if (i/11)%3 != 2 { // deliberately: a non-tip block delivered with the empty (non-nil) certificate shape
			if nFork < 2 {
				cs.Fork = append([]string{"q"}, cs.Fork...)
				cs.Certs = append([]string{"nil"}, cs.Certs...)
				nFork = 2
			}
			cs.Certs[[]int{nFork - 2, 0, r.Intn(nFork - 1)}[(i/11)%3]] = []string{"emptyhdr", "empty"}[(i/33)%2]
			if cs.Prefix < 4 {
				cs.Prefix += 3 // the pending online switches of the prefix are applied before the fork starts
			}
			if (i/11)%2 == 0 {
				cs.Own = nil // the asker's head is the common block: the served range ends right after the first fork block
			}
		}
	case 2, 3: // one defective certificate, everything else certified: on the tip (2) / on a non-tip block (3); every shape in turn
		for j := range cs.Certs {
			if cs.Certs[j] == "nil" || cs.Certs[j] == "empty" {
				cs.Certs[j] = "valid"
			}
		}
		if fam == 2 {
			cs.Certs[nFork-1] = c08shapes[(i/11)%len(c08shapes)]
		} else {
			if nFork < 2 {
				cs.Fork = append(cs.Fork, "q")
				cs.Certs = append(cs.Certs, "valid")
				nFork = 2
			}
			cs.Certs[r.Intn(nFork-1)] = c08shapes[(i/11)%len(c08shapes)]
		}
	case 4: // tampered block: every operator in turn, first / middle / last block
		kinds := []string{"root", "droptx", "flags", "time", "idroot"}
		cs.TamperKind = kinds[(i/11)%len(kinds)]
		cs.Tamper = []int{0, nFork / 2, nFork - 1}[(i/55)%3]
	case 5: // hostile list: every mode in turn, with the tip above and not above the own head
		modes := []string{"gap-low", "height0", "dup-low", "gap", "dup", "dropfirst", "height0tip", "far", "none", "shuffled", "dropfirst-low"}
		m := modes[(i/11)%len(modes)]
		cs.ListArg = r.Intn(1000)
		if strings.HasSuffix(m, "-low") {
			m = strings.TrimSuffix(m, "-low")
			if nFork < 3 {
				add := kinds(3-nFork, false)
				cs.Fork = append(cs.Fork, add...)
				for range add {
					cs.Certs = append(cs.Certs, "valid")
				}
				nFork = 3
			}
			cs.Own = kinds(nFork+r.Intn(3), false)
		}
		cs.List = m
	case 6: // answer of the real peer code / answer starting below the common ancestor
		cs.List, cs.ListArg = []string{"peer", "known", "shuffled"}[r.Intn(3)], r.Intn(1000)
		for j := range cs.Certs {
			if cs.Certs[j] == "empty" {
				cs.Certs[j] = "nil"
			}
		}
	case 7: // every certificate random
		for j := range cs.Certs {
			cs.Certs[j] = c08shapes[r.Intn(len(c08shapes))]
		}
	}
	return cs
}

// c08shrink tries smaller variants of a failing case that keep the failure signature.
func c08shrink(c *hx.Ctx, cs c08case, sig string) c08case {
	tries := 0
	try := func(cand c08case) bool {
		tries++
		if tries > 30 { // long own branches (window-edge family) make every attempt cost about a second
			return false
		}
		f, err := c08run(c, cand, false)
		return err == nil && f != nil && f.signature == sig
	}
	for changed := true; changed; {
		changed = false
		if len(cs.Advance) > 0 {
			cand := cs
			cand.Advance = cs.Advance[:len(cs.Advance)-1]
			if try(cand) {
				cs, changed = cand, true
				continue
			}
		}
		if len(cs.Own) > 0 && len(cs.Own) < 90 {
			cand := cs
			cand.Own = cs.Own[:len(cs.Own)-1]
			if try(cand) {
				cs, changed = cand, true
				continue
			}
		}
		if len(cs.Fork) > 1 && cs.Tamper < len(cs.Fork)-1 {
			cand := cs
			cand.Fork = append([]string{}, cs.Fork[:len(cs.Fork)-1]...)
			cand.Certs = append(append([]string{}, cs.Certs[:len(cs.Certs)-2]...), cs.Certs[len(cs.Certs)-1])
			if try(cand) {
				cs, changed = cand, true
				continue
			}
		}
		for j := 0; j+1 < len(cs.Fork) && !changed; j++ {
			if cs.Tamper >= 0 {
				break
			}
			cand := cs
			cand.Fork = append(append([]string{}, cs.Fork[:j]...), cs.Fork[j+1:]...)
			cand.Certs = append(append([]string{}, cs.Certs[:j]...), cs.Certs[j+1:]...)
			if try(cand) {
				cs, changed = cand, true
			}
		}
		if changed {
			continue
		}
		if cs.List != "ok" {
			cand := cs
			cand.List, cand.ListArg = "ok", 0
			if try(cand) {
				cs, changed = cand, true
				continue
			}
		}
		if cs.Share {
			cand := cs
			cand.Share = false
			if try(cand) {
				cs, changed = cand, true
				continue
			}
		}
		if cs.Prefix > 1 {
			cand := cs
			cand.Prefix--
			if try(cand) {
				cs, changed = cand, true
				continue
			}
		}
		if cs.Online > 1 {
			cand := cs
			cand.Online--
			if try(cand) {
				cs, changed = cand, true
				continue
			}
		}
		for j, k := range cs.Fork {
			if k != "q" {
				cand := cs
				cand.Fork = append([]string{}, cs.Fork...)
				cand.Fork[j] = "q"
				if try(cand) {
					cs, changed = cand, true
					break
				}
			}
		}
	}
	return cs
}

func c08key(cs c08case) string {
	return fmt.Sprint(cs.Online, cs.Prefix, cs.Own, cs.Fork, cs.Certs, cs.Tamper, cs.TamperKind, cs.List, cs.Share, cs.Advance)
}

func init() {
	hx.Register("C08", func(c *hx.Ctx) error {
		runOne := func(cs c08case) error {
			f, err := c08run(c, cs, true)
			if err != nil {
				return err
			}
			c.Rep.Evaluations++
			if f != nil {
				small := cs
				if c.Replay == "" {
					small = c08shrink(c, cs, f.signature)
					if f2, err := c08run(c, small, false); err == nil && f2 != nil && f2.signature == f.signature {
						f = f2
					}
				}
				c.Fail(f.signature, f.detail, small)
			}
			return nil
		}
		if c.Replay != "" {
			raw, err := os.ReadFile(c.Replay)
			if err != nil {
				return err
			}
			var wrap struct {
				Replay c08case `json:"replay"`
			}
			if err := json.Unmarshal(raw, &wrap); err != nil {
				return err
			}
			return runOne(wrap.Replay)
		}
		c.Rep.Rule = "three real replica groups over one genesis (observed node A, fork branch B, clean follower C; 11 identities, 1-5 online validators, two proposer keys); common prefix 1-11, own branch 0-6, fork 1-20 blocks of kinds empty / proposed / with transactions / kill transaction (identity update) / online switch; per fork block one of 16 certificate shapes (incl. a full quorum plus one signature no key can be recovered from: wrong length / recovery id / zero) signed with the real validator keys; 11 case families (i mod 11): fully certified, uncertified middle blocks, defective tip certificate, defective certificate anywhere, tampered block (5 operators), hostile lists (gap, duplicate, first block dropped, height 0, height 0 + tip, far future, none, shuffled), real peer answer (GetTopBlockHashes -> ReadBlockForForkedPeer) / answer starting below the ancestor, all certificates random, validator set switched inside the fork with a tip certificate by the old quorum / by the new one, common ancestor at head-98/-99/-100 of the 100-version window with 0/1/2 own blocks added between fork validation and ApplyFork (failed rollback must change nothing); distinct = distinct (shape) cases; non-trivial = the real processBlocks was reached with a non-empty list"
		n := c.Scale(198, 3300)
		for i := 0; i < n; i++ {
			cs := c08gen(c.Rng, i)
			if c.Distinct(c08key(cs)) {
				c.Rep.Distinct++
			}
			c.Sample(cs)
			t0 := time.Now()
			if err := runOne(cs); err != nil {
				return err
			}
			if os.Getenv("C08_DEBUG") != "" {
				fmt.Fprintf(os.Stderr, "TIME %d %.2fs %s\n", i, time.Since(t0).Seconds(), c08key(cs))
			}
			if len(c.Rep.Failures) >= 3 {
				break
			}
		}
		return nil
	})
}

var _ = config.Config{}
