package main

// C16: flip lottery + private flip key packages, on the REAL code of /repo.
//
//   - correspondence: every shard of every case becomes a block of op lines (`new`, `authors`, `flips`, `solve`,
//     `rcp`, `key`) answered by the implementation and, from the same lines, by the Lean model
//     (lean/IdenaModel/Model/Lottery.lean).  The math/rand permutations on the op lines are computed HERE with the
//     seed derivations the code is expected to use (lottery.go:299, :88, :155), so a changed / missing seeding in
//     /repo shows up as a disagreement.
//   - two ways into the code: "fn" = GetAuthorsDistribution / GetFlipsDistribution / getFlipsToSolve directly (any
//     shortFlipsCount), "cer" = a ValidationCeremony running calculateCeremonyCandidates from its epoch db (several
//     shards, non-candidate identities in between, production shortFlipsCount).  In both the key-package side is the
//     real PrivateEncryptionKeyCandidates / getPrivateKeyPackageIndex / EncryptPrivateKeysPackage / GetFlipKeys /
//     getEncryptedKeyFromPackage / ECIES decrypt.
//     "seq" = 2-3 consecutive ceremonies on ONE running node (one KeysPool / Flipper / ValidationCeremony, real completeEpoch
//     -> KeysPool.Clear between them, signed key messages through the pool's real validation, every (candidate, author)
//     pair fetched in every epoch, compared with a pool constructed at that moment = a restarted node).
//   - independent oracle (this file): the predicates of the property evaluated directly on what the code returned.

import (
	"bytes"
	"crypto/ecdsa"
	"encoding/binary"
	"encoding/hex"
	"encoding/json"
	"fmt"
	"math/rand"
	"os"
	"reflect"
	"sort"
	"strconv"
	"strings"

	"github.com/idena-network/idena-go/blockchain/types"
	"github.com/idena-network/idena-go/common"
	"github.com/idena-network/idena-go/common/eventbus"
	"github.com/idena-network/idena-go/config"
	"github.com/idena-network/idena-go/core/appstate"
	"github.com/idena-network/idena-go/core/ceremony"
	"github.com/idena-network/idena-go/core/flip"
	"github.com/idena-network/idena-go/core/mempool"
	"github.com/idena-network/idena-go/core/state"
	"github.com/idena-network/idena-go/crypto"
	"github.com/idena-network/idena-go/crypto/ecies"
	"github.com/idena-network/idena-go/database"
	"github.com/idena-network/idena-go/events"
	"github.com/idena-network/idena-go/ipfs"
	"github.com/idena-network/idena-go/secstore"
	dbm "github.com/tendermint/tm-db"

	"verifharness/internal/hx"
)

type c16id struct {
	Shard int  `json:"s"`             // shifted shard id, 1-based
	Flips int  `json:"f"`             // flips submitted
	Non   bool `json:"non,omitempty"` // not a ceremony candidate (skipped by the lottery; takes no index)
	Bad   int  `json:"bad,omitempty"` // stored PubKey: 0 well-formed, 1 empty (never activated: genesis / god), 2 garbage, 3 wrong length
}

type c16case struct {
	Level  string     `json:"level"` // fn | cer | seq
	Q      int        `json:"q"`     // shortFlipsCount (cer, seq: the production constant)
	Seed   uint64     `json:"seed"`  // first 8 bytes (little endian) of the lottery seed
	KSeed  int64      `json:"kseed"` // sampling of (candidate, author) pairs for the key-package part
	Ids    []c16id    `json:"ids,omitempty"`
	Epochs []c16epoch `json:"epochs,omitempty"` // seq: consecutive validation ceremonies on ONE running node
}

// one ceremony of a multi-epoch sequence: who takes part (in lottery-identity order, so positions change between
// epochs), how many flips each submitted this epoch, and the lottery seed
type c16epoch struct {
	Seed uint64   `json:"seed"`
	Ids  []c16pid `json:"ids"`
}

type c16pid struct {
	G int `json:"g"`             // identity (same key and address in every epoch); >= c16nodeBase: the node's own identity
	F int `json:"f"`             // flips submitted in this epoch
	B int `json:"bad,omitempty"` // stored PubKey kind (see c16id.Bad)
}

// identities c16nodeBase+k are "the node itself" with node key number k: in a seq case the secStore holds that key and
// the node's key messages go out through the real broadcastPublicFipKey / broadcastPrivateFlipKeysPackage
const c16nodeBase = 100000

const c16prodQ = int(common.ShortSessionFlips + common.ShortSessionExtraFlips)

// ---------------------------------------------------------------- fixture (one per process)

type c16fixture struct {
	appState *appstate.AppState
	cfg      *config.Config
	ss       *secstore.SecStore
	keysPool *mempool.KeysPool
	keys     map[int]*ecdsa.PrivateKey
	addrs    map[int]common.Address
	pubs     map[int][]byte
	fks      map[int][2]*ecies.PrivateKey
}

var c16fx *c16fixture

func c16derive(tag string, i int) *ecdsa.PrivateKey {
	for n := 0; ; n++ {
		h := crypto.Hash([]byte(fmt.Sprintf("c16-%s-%d-%d", tag, i, n)))
		if k, err := crypto.ToECDSA(h[:]); err == nil {
			return k
		}
	}
}

func c16getFixture() *c16fixture {
	if c16fx != nil {
		return c16fx
	}
	bus := eventbus.New()
	as, err := appstate.NewAppState(dbm.NewMemDB(), bus)
	if err != nil {
		panic(err)
	}
	if err := as.Initialize(0); err != nil {
		panic(err)
	}
	ss := secstore.NewSecStore()
	ss.AddKey(crypto.FromECDSA(c16derive("coinbase", 0)))
	cfg := &config.Config{Validation: &config.ValidationConfig{}, Blockchain: &config.BlockchainConfig{}, Consensus: config.GetDefaultConsensusConfig()}
	c16fx = &c16fixture{appState: as, cfg: cfg, ss: ss, keysPool: mempool.NewKeysPool(dbm.NewMemDB(), as, bus, ss),
		keys: map[int]*ecdsa.PrivateKey{}, addrs: map[int]common.Address{}, pubs: map[int][]byte{}, fks: map[int][2]*ecies.PrivateKey{}}
	return c16fx
}

func (fx *c16fixture) key(i int) *ecdsa.PrivateKey {
	if k, ok := fx.keys[i]; ok {
		return k
	}
	k := c16derive("id", i)
	if i >= c16nodeBase {
		k = c16derive("node", i-c16nodeBase)
	}
	fx.keys[i] = k
	fx.addrs[i] = crypto.PubkeyToAddress(k.PublicKey)
	fx.pubs[i] = crypto.FromECDSAPub(&k.PublicKey)
	return k
}
func (fx *c16fixture) addr(i int) common.Address { fx.key(i); return fx.addrs[i] }

// the author's flip key pair (public flip key: published; private flip key: goes into the package)
func (fx *c16fixture) flipKeys(i int) (*ecies.PrivateKey, *ecies.PrivateKey) {
	if k, ok := fx.fks[i]; ok {
		return k[0], k[1]
	}
	k := [2]*ecies.PrivateKey{ecies.ImportECDSA(c16derive("pubfk", i)), ecies.ImportECDSA(c16derive("privfk", i))}
	fx.fks[i] = k
	return k[0], k[1]
}
func (fx *c16fixture) pub(i int) []byte { fx.key(i); return fx.pubs[i] }

// pubOf: what the identity state stores as PubKey (unique per identity except the empty one)
func (fx *c16fixture) pubOf(i, bad int) []byte {
	switch bad {
	case 1:
		return nil
	case 2: // 65 bytes, uncompressed marker, not a curve point
		h1, h2 := crypto.Hash([]byte(fmt.Sprintf("c16-garbage-x-%d", i))), crypto.Hash([]byte(fmt.Sprintf("c16-garbage-y-%d", i)))
		return append(append([]byte{4}, h1[:]...), h2[:]...)
	case 3:
		return append([]byte{}, fx.pub(i)[:33]...)
	}
	return fx.pub(i)
}

// c16flipKeyVariants: Flipper.generateFlipEncryptionKey (flipper.go:272) re-derived for the PUBLIC flip key of an epoch.
// The derivation feeds the node's signature into crypto.GenerateKeyFromSeed -> ecdsa.GenerateKey, which (Go >= 1.20)
// first calls randutil.MaybeReadByte on the reader: the same node key and epoch give one of TWO keys, chosen by a coin
// flip at the moment the Flipper derives it.  Returned: whether some variant has a scalar with a zero top byte.
func c16flipKeyVariants(node *ecdsa.PrivateKey, epoch int) (short bool) {
	h := crypto.Hash([]byte(fmt.Sprintf("flip-key-for-epoch-%v", epoch)))
	sig, _ := crypto.Sign(h[:], node)
	for t := 0; t < 6; t++ {
		k, _ := crypto.GenerateKeyFromSeed(bytes.NewReader(sig))
		if len(k.D.Bytes()) < 32 {
			return true
		}
	}
	return false
}

var c16shortScalars [][2]int // (node key number, epoch) for which the public flip key scalar can have a zero most significant byte
var c16shortNext = 1

// c16findShortScalars: about 1 of 128 (node key, epoch) pairs; found by walking deterministic node keys
func c16findShortScalars(want int) [][2]int {
	for ; len(c16shortScalars) < want && c16shortNext < 20000; c16shortNext++ {
		node := c16derive("node", c16shortNext)
		for e := 0; e < 3; e++ {
			if c16flipKeyVariants(node, e) {
				c16shortScalars = append(c16shortScalars, [2]int{c16shortNext, e})
			}
		}
	}
	return c16shortScalars
}

func c16cid(i, j int) []byte {
	return []byte{0x01, 0x55, byte(i >> 16), byte(i >> 8), byte(i), byte(j), 0xf1}
}

// ---------------------------------------------------------------- formatting (same as Drivers/C16.lean)

func c16L(l []int) string {
	if len(l) == 0 {
		return "_"
	}
	var sb strings.Builder
	for i, v := range l {
		if i > 0 {
			sb.WriteByte(',')
		}
		sb.WriteString(strconv.Itoa(v))
	}
	return sb.String()
}

func c16LL(ll [][]int, sep string) string {
	if len(ll) == 0 {
		return "-"
	}
	parts := make([]string, len(ll))
	for i, l := range ll {
		parts[i] = c16L(l)
	}
	return strings.Join(parts, sep)
}

// a map[int][]int as the list of its values for keys 0..n-1; keys outside are reported
func c16map(m map[int][]int, n int) string {
	ll := make([][]int, n)
	extra := false
	for k, v := range m {
		if k < 0 || k >= n {
			extra = true
			continue
		}
		ll[k] = v
	}
	s := c16LL(ll, "|")
	if extra {
		s += "+keys-out-of-range"
	}
	return s
}

// ---------------------------------------------------------------- the permutation streams the code must use

func c16randSeed(seed uint64) int64 { return int64(seed) }

func c16seedBytes(seed uint64) []byte {
	b := make([]byte, 32)
	binary.LittleEndian.PutUint64(b, seed)
	for i := 8; i < 32; i++ {
		b[i] = byte(i * 7)
	}
	return b
}

// p1: fillAuthorsQueue (lottery.go:299-312): Perm(authors) once, and again each time the index wraps
func c16p1(seed uint64, n, m, q int) [][]int {
	if n == 0 || m == 0 {
		return nil
	}
	r := rand.New(rand.NewSource(c16randSeed(seed)*21 - 77))
	total := n * q
	cnt := (total + m - 1) / m
	if cnt < 1 {
		cnt = 1
	}
	out := make([][]int, cnt)
	for i := range out {
		out[i] = r.Perm(m)
	}
	return out
}

// p2: appendAdditionalCandidates (lottery.go:88-99,112): Perm(candidates), again whenever the queue ran empty at
// the start of an author's turn; at most 12 pops per author and n per permutation, so 14 permutations always suffice
func c16p2(seed uint64, n, m int) [][]int {
	if n == 0 || m <= 7 {
		return nil
	}
	r := rand.New(rand.NewSource(c16randSeed(seed)*77 + 55))
	const cnt = 14 // proved sufficient: Props/C16.lean lottery_ok_of_valid_streams (Proofs: appendLoop_ne_bad)
	out := make([][]int, cnt)
	for i := range out {
		out[i] = r.Perm(n)
	}
	return out
}

// p3: GetFlipsDistribution (lottery.go:154-156)
func c16p3(seed uint64, n int) []int {
	r := rand.New(rand.NewSource(c16randSeed(seed)*12 + 3))
	return r.Perm(n)
}

// ---------------------------------------------------------------- running a case

type c16fail struct{ sig, detail string }

type c16out struct {
	lines [][2]string
	fails []c16fail
	hits  []string
}

func (o *c16out) line(op, ans string) { o.lines = append(o.lines, [2]string{op, ans}) }
func (o *c16out) fail(sig, f string, a ...interface{}) {
	if len(o.fails) < 20 {
		o.fails = append(o.fails, c16fail{sig, fmt.Sprintf(f, a...)})
	}
}
func (o *c16out) hit(s string) { o.hits = append(o.hits, s) }

type c16shardIn struct {
	sid  int
	gidx []int // global identity index of candidate i of the shard
	fl   []int // flips of candidate i
	bad  []int // stored PubKey kind of candidate i
}

func c16shardsOf(cs c16case) []c16shardIn {
	maxS := 1
	for _, id := range cs.Ids {
		if id.Shard > maxS {
			maxS = id.Shard
		}
	}
	out := make([]c16shardIn, maxS)
	for s := range out {
		out[s].sid = s + 1
	}
	for g, id := range cs.Ids {
		if id.Non {
			continue
		}
		sh := &out[id.Shard-1]
		sh.gidx = append(sh.gidx, g)
		sh.fl = append(sh.fl, id.Flips)
		sh.bad = append(sh.bad, id.Bad)
	}
	return out
}

func c16protect(f func()) (panicked bool, what string) {
	defer func() {
		if r := recover(); r != nil {
			panicked, what = true, fmt.Sprint(r)
		}
	}()
	f()
	return
}

// c16run executes one case on the real code and evaluates the oracle.
func c16run(cs c16case) *c16out { return c16runK(cs, true) }

// c16runK: withKeys=false skips the (expensive) real encryption / decryption sampling
func c16runK(cs c16case, withKeys bool) *c16out {
	if cs.Level == "seq" {
		return c16runSeq(cs, withKeys)
	}
	fx := c16getFixture()
	o := &c16out{}
	shards := c16shardsOf(cs)
	seedBytes := c16seedBytes(cs.Seed)
	q := cs.Q
	if cs.Level == "cer" {
		q = c16prodQ
	}
	fx.keysPool.VerifC16Reset()

	type built struct {
		f  *ceremony.VerifC16Ceremony
		sh []*ceremony.VerifC16Shard // per shard (nil on panic)
		// function level: stage at which the real code panicked (0 none, 1 authors, 2 flips)
		stage []int
		what  string
	}
	build := func() *built {
		b := &built{sh: make([]*ceremony.VerifC16Shard, len(shards)), stage: make([]int, len(shards))}
		if cs.Level == "cer" {
			var ids []database.DbLotteryIdentity
			for g, id := range cs.Ids {
				li := database.DbLotteryIdentity{Address: fx.addr(g), ShiftedShardId: common.ShardId(id.Shard), PubKey: fx.pubOf(g, id.Bad),
					State: uint8(state.Verified), HasDoneAllRequiredFlips: true}
				if id.Non {
					if g%2 == 0 {
						li.State = uint8(state.Killed)
					} else {
						li.HasDoneAllRequiredFlips = false
					}
				}
				for j := 0; j < id.Flips; j++ {
					li.FlipCids = append(li.FlipCids, c16cid(g, j))
				}
				ids = append(ids, li)
				if id.Shard != 1 {
					fx.appState.State.SetShardId(li.Address, common.ShardId(id.Shard))
				}
			}
			fx.appState.State.SetShardsNum(uint32(len(shards)))
			p, what := c16protect(func() {
				b.f = ceremony.VerifC16NewCeremony(fx.appState, fx.cfg, fx.ss, fx.keysPool, ids, seedBytes)
			})
			if p || b.f == nil || !b.f.Finished() {
				b.what = what
				for s := range shards {
					b.stage[s] = 1
				}
				return b
			}
			for s := range shards {
				b.sh[s] = b.f.Shard(common.ShardId(s + 1))
				if b.sh[s] == nil {
					b.stage[s] = 1
				}
			}
			return b
		}
		// function level: one shard
		in := shards[0]
		addrs := make([]common.Address, len(in.gidx))
		pubs := make([][]byte, len(in.gidx))
		cids := make([][][]byte, len(in.gidx))
		for i, g := range in.gidx {
			addrs[i], pubs[i] = fx.addr(g), fx.pubOf(g, in.bad[i])
			for j := 0; j < in.fl[i]; j++ {
				cids[i] = append(cids[i], c16cid(g, j))
			}
		}
		sh := ceremony.VerifC16NewShard(addrs, pubs, cids)
		b.sh[0] = sh
		if p, what := c16protect(func() { sh.Authors(seedBytes, q) }); p {
			b.stage[0], b.what = 1, what
			return b
		}
		if p, what := c16protect(func() { sh.FlipsDist(seedBytes, q) }); p {
			b.stage[0], b.what = 2, what
			return b
		}
		b.f = sh.AsCeremony(fx.appState, fx.ss, fx.keysPool)
		return b
	}
	b1 := build()
	b2 := build() // determinism: same inputs, fresh objects
	defer fx.appState.State.Reset()

	krng := rand.New(rand.NewSource(cs.KSeed))
	orng := rand.New(rand.NewSource(cs.KSeed + 1)) // oracle-only sampling (never influences the op lines)
	for s, in := range shards {
		c16shard(o, &c16shardCtx{in: in, q: q, seed: cs.Seed, sh: b1.sh[s], sh2: b2.sh[s], stage: b1.stage[s], stage2: b2.stage[s],
			what: b1.what, f: b1.f, krng: krng, orng: orng, withKeys: withKeys})
	}
	return o
}

// c16shardCtx: one shard of one lottery (one epoch) as the real code built it, plus how keys get published
type c16shardCtx struct {
	in            c16shardIn
	q             int
	seed          uint64
	sh, sh2       *ceremony.VerifC16Shard // sh2: second run for determinism
	stage, stage2 int                     // function level: stage at which the real code panicked (0 none, 1 authors, 2 flips)
	what          string
	f             *ceremony.VerifC16Ceremony
	krng, orng    *rand.Rand
	withKeys      bool
	epoch         int // position in a multi-epoch sequence (0 otherwise)
	seq           *c16world
	cidEpoch      int // flips of epoch e are numbered from 8*e (fresh cids every epoch)
}

func c16shard(o *c16out, x *c16shardCtx) {
	fx := c16getFixture()
	in, q := x.in, x.q
	n := len(in.fl)
	m, total := 0, 0
	var flipAuthor []int // candidate index (in the shard) of each global flip index
	for i, k := range in.fl {
		if k > 0 {
			m++
		}
		total += k
		for j := 0; j < k; j++ {
			flipAuthor = append(flipAuthor, i)
		}
	}
	op := fmt.Sprintf("new %d %s", q, c16flToken(in.fl))
	sh := x.sh
	if sh == nil {
		o.line(op, "panic")
		o.fail("C16:panic", "the lottery panicked building shard %d: %s", in.sid, x.what)
		return
	}
	nAuth := 0
	for _, a := range sh.IsAuthor {
		if a {
			nAuth++
		}
	}
	o.line(op, fmt.Sprintf("ok n=%d authors=%d flips=%d", len(sh.Candidates), nAuth, len(sh.Flips)))
	var badList []int
	for i := range in.fl {
		if i < len(in.bad) && in.bad[i] != 0 {
			badList = append(badList, i)
		}
	}
	isBad := func(c int) bool { return c >= 0 && c < len(in.bad) && in.bad[c] != 0 }
	if len(badList) > 0 {
		o.line("badkeys "+c16L(badList), "ok")
		o.hit("bad-pubkey-candidates")
	}
	// the shard must be laid out as the case says (candidate order, flip order)
	layoutOK := len(sh.Candidates) == n && len(sh.Flips) == total
	if layoutOK {
		for i, g := range in.gidx {
			if sh.Candidates[i] != fx.addr(g) {
				layoutOK = false
			}
		}
		f := 0
		for i, g := range in.gidx {
			for j := 0; j < in.fl[i]; j++ {
				if !bytes.Equal(sh.Flips[f], c16cid(g, j+8*x.cidEpoch)) {
					layoutOK = false
				}
				f++
			}
		}
	}
	if !layoutOK {
		o.fail("C16:shard-layout", "shard %d: candidates/flips not laid out in identity order", in.sid)
		return
	}
	p1, p2, p3 := c16p1(x.seed, n, m, q), c16p2(x.seed, n, m), c16p3(x.seed, n)
	opA := "authors " + c16LL(p1, ";") + " " + c16LL(p2, ";")
	if x.stage == 1 {
		o.line(opA, "panic")
		o.fail("C16:panic", "GetAuthorsDistribution panicked: %s", x.what)
		return
	}
	o.line(opA, "apc "+c16map(sh.Apc, n)+" cpa "+c16map(sh.Cpa, n))
	opF := "flips " + c16flToken(p3)
	if x.stage == 2 {
		o.line(opF, "panic")
		o.fail("C16:panic", "GetFlipsDistribution panicked: %s", x.what)
		return
	}
	o.line(opF, "short "+c16LL(sh.Short, "|")+" long "+c16LL(sh.Long, "|"))

	// ---- determinism
	if s2 := x.sh2; s2 == nil || x.stage2 != 0 || !reflect.DeepEqual(sh.Apc, s2.Apc) || !reflect.DeepEqual(sh.Cpa, s2.Cpa) ||
		!reflect.DeepEqual(sh.Short, s2.Short) || !reflect.DeepEqual(sh.Long, s2.Long) {
		o.fail("C16:nondeterministic", "two runs on the same candidates, flips and seed differ (shard %d)", in.sid)
	}

	// ---- what candidates are told to solve (real getFlipsToSolve / Get*FlipsToSolve)
	cidIdx := map[string]int{}
	for f, cid := range sh.Flips {
		cidIdx[string(cid)] = f
	}
	toIdx := func(cids [][]byte) []int {
		out := make([]int, len(cids))
		for i, c := range cids {
			if v, ok := cidIdx[string(c)]; ok {
				out[i] = v
			} else {
				out[i] = -1
			}
		}
		return out
	}
	ts, tl := make([][]int, n), make([][]int, n)
	solvePanic := false
	for i := 0; i < n && !solvePanic; i++ {
		i := i
		p, what := c16protect(func() {
			ts[i] = toIdx(x.f.ToSolve(sh.Candidates[i], common.ShardId(in.sid), false))
			tl[i] = toIdx(x.f.ToSolve(sh.Candidates[i], common.ShardId(in.sid), true))
		})
		if p {
			solvePanic = true
			o.fail("C16:panic", "getFlipsToSolve panicked for candidate %d: %s", i, what)
		}
	}
	if solvePanic {
		o.line("solve", "panic")
		return
	}
	o.line("solve", "ts "+c16LL(ts, "|")+" tl "+c16LL(tl, "|"))

	// ---- oracle on the lists
	if len(sh.Short) != n || len(sh.Long) != n {
		o.fail("C16:list-count", "shard %d: %d candidates but %d short / %d long lists", in.sid, n, len(sh.Short), len(sh.Long))
		return
	}
	for c := 0; c < n; c++ {
		for si, lst := range [][]int{sh.Short[c], sh.Long[c]} {
			sess := []string{"short", "long"}[si]
			seen := map[int]bool{}
			for _, f := range lst {
				if total == 0 {
					o.fail("C16:placeholder-on-empty-shard", "shard without flips: candidate %d gets %s list %v (candidates=%d, flips=[])", c, sess, lst, n)
					break
				}
				if f < 0 || f >= total {
					o.fail("C16:flip-out-of-range", "candidate %d %s list %v: flip %d does not exist (%d flips)", c, sess, lst, f, total)
				}
				if seen[f] {
					o.fail("C16:duplicate-flip", "candidate %d %s list %v lists flip %d twice", c, sess, lst, f)
				}
				seen[f] = true
			}
		}
		if len(sh.Short[c]) > q {
			o.fail("C16:short-quota", "candidate %d short list %v exceeds the quota %d", c, sh.Short[c], q)
		}
		if total > 0 && len(sh.Long[c]) == 0 {
			o.fail("C16:long-empty", "candidate %d has an empty long list although the shard has %d flips", c, total)
		}
		if total == 0 && (len(ts[c]) > 0 || len(tl[c]) > 0) {
			o.fail("C16:solve-on-empty-shard", "shard without flips: candidate %d is told to solve %v / %v", c, ts[c], tl[c])
		}
		if total > 0 && (!reflect.DeepEqual(ts[c], append([]int{}, sh.Short[c]...)) || !reflect.DeepEqual(tl[c], append([]int{}, sh.Long[c]...))) {
			o.fail("C16:solve-differs", "candidate %d is told to solve %v / %v but was assigned %v / %v", c, ts[c], tl[c], sh.Short[c], sh.Long[c])
		}
	}
	// symmetry of the two maps
	for c, as := range sh.Apc {
		for _, a := range as {
			if !c16contains(sh.Cpa[a], c) {
				o.fail("C16:asymmetric", "author %d is in authorsPerCandidate[%d] but %d is not in candidatesPerAuthor[%d]=%v", a, c, c, a, sh.Cpa[a])
			}
		}
	}
	for a, cands := range sh.Cpa {
		for _, c := range cands {
			if !c16contains(sh.Apc[c], a) {
				o.fail("C16:asymmetric", "candidate %d is in candidatesPerAuthor[%d] but %d is not in authorsPerCandidate[%d]=%v", c, a, a, c, sh.Apc[c])
			}
		}
	}

	// ---- recipients: the real PrivateEncryptionKeyCandidates of every candidate
	pubIdx := map[string]int{}
	for i, g := range in.gidx {
		pubIdx[hex.EncodeToString(fx.pubOf(g, in.bad[i]))] = i
	}
	rcp := make([][]int, n)   // recipients of author a (candidate indexes), nil = error
	rcpErr := make([]bool, n) // PrivateEncryptionKeyCandidates returned an error
	isRcp := make([]map[int]bool, n)
	rcpPanic := false
	for a := 0; a < n && !rcpPanic; a++ {
		a := a
		p, what := c16protect(func() {
			pks, err := x.f.Recipients(sh.Candidates[a])
			if err != nil {
				rcpErr[a] = true
				return
			}
			isRcp[a] = map[int]bool{}
			for _, pk := range pks {
				i, ok := pubIdx[hex.EncodeToString(pk)]
				if !ok {
					i = -1
				}
				rcp[a] = append(rcp[a], i)
				isRcp[a][i] = true
			}
		})
		if p {
			rcpPanic = true
			o.fail("C16:panic", "PrivateEncryptionKeyCandidates panicked for candidate %d: %s", a, what)
		}
	}
	if rcpPanic {
		return
	}
	// assigned <-> recipient, with the structural placeholder exemption
	authorsOf := make([][]int, n) // authors that encrypt for c
	for a := 0; a < n; a++ {
		for c := range isRcp[a] {
			if c >= 0 && c < n {
				authorsOf[c] = append(authorsOf[c], a)
			}
		}
	}
	flipStart := make([]int, n+1)
	for i, k := range in.fl {
		flipStart[i+1] = flipStart[i] + k
	}
	if total > 0 {
		for c := 0; c < n; c++ {
			inShort := map[int]bool{}
			for _, f := range sh.Short[c] {
				inShort[f] = true
			}
			placeholder := len(sh.Long[c]) == 1 && sh.Long[c][0] == 0
			if placeholder {
				for _, a := range authorsOf[c] {
					for f := flipStart[a]; f < flipStart[a+1]; f++ {
						if !inShort[f] {
							placeholder = false
						}
					}
				}
			}
			if placeholder {
				o.hit("placeholder")
			}
			assigned := map[int]bool{}
			for si, lst := range [][]int{sh.Short[c], sh.Long[c]} {
				if si == 1 && placeholder {
					continue
				}
				for _, f := range lst {
					if f < 0 || f >= total {
						continue
					}
					a := flipAuthor[f]
					assigned[a] = true
					if !isRcp[a][c] {
						o.fail("C16:assigned-not-recipient", "candidate %d is assigned flip %d of author %d (session %d) but is not among the author's key recipients %v", c, f, a, si, rcp[a])
					}
				}
			}
			for _, a := range authorsOf[c] {
				if !assigned[a] {
					o.fail("C16:recipient-not-assigned", "author %d encrypts its key for candidate %d, which is assigned none of its flips (short %v long %v)", a, c, sh.Short[c], sh.Long[c])
				}
			}
		}
	}

	// ---- rcp lines (correspondence of the recipient lists)
	var rcpWho []int
	if n <= 24 {
		for a := 0; a < n; a++ {
			rcpWho = append(rcpWho, a)
		}
	} else {
		for i := 0; i < 16; i++ {
			rcpWho = append(rcpWho, x.krng.Intn(n))
		}
	}
	for _, a := range rcpWho {
		if rcpErr[a] {
			o.line(fmt.Sprintf("rcp %d", a), "err")
		} else {
			o.line(fmt.Sprintf("rcp %d", a), c16L(rcp[a]))
		}
	}

	// ---- key packages for sampled authors: real encryption, extraction, decryption
	if !x.withKeys {
		return
	}
	var authors []int
	for a := 0; a < n; a++ {
		if in.fl[a] > 0 && !rcpErr[a] && (len(rcp[a]) <= 48 || x.seq != nil) {
			authors = append(authors, a)
		}
	}
	if m > 0 && len(authors) == 0 {
		o.hit("key:skipped-large-package")
	}
	if x.seq == nil { // a multi-epoch sequence publishes and fetches for EVERY author in every epoch
		x.krng.Shuffle(len(authors), func(i, j int) { authors[i], authors[j] = authors[j], authors[i] })
		if len(badList) > 0 { // authors that encrypt for a candidate without a usable public key first
			hasBad := func(a int) bool {
				for _, c := range rcp[a] {
					if isBad(c) {
						return true
					}
				}
				return false
			}
			sort.SliceStable(authors, func(i, j int) bool { return hasBad(authors[i]) && !hasBad(authors[j]) })
		}
		if maxA := map[bool]int{true: 2, false: 1}[n <= 12]; len(authors) > maxA {
			authors = authors[:maxA]
		}
	}
	unreachable := "C16:recipient-cannot-obtain-key"
	if x.epoch > 0 {
		unreachable = "C16:key-unreachable-after-epoch-change"
	}
	for _, a := range authors {
		ga := in.gidx[a]
		pubFK, privFK := fx.flipKeys(ga)
		if x.seq != nil {
			pubFK, privFK = fx.flipKeys(ga*16 + 7000 + x.epoch) // a fresh flip key pair every epoch
		}
		ownNode := x.seq != nil && ga >= c16nodeBase // the node's own identity: the REAL broadcast path
		if ownNode {
			// the Flipper's own (cached for the epoch) key pair
			pubFK, privFK = x.seq.flipper.GetFlipPublicEncryptionKey(), x.seq.flipper.GetFlipPrivateEncryptionKey()
			if len(pubFK.D.Bytes()) < 32 {
				o.hit("seq:own-flip-key-scalar-with-leading-zero")
			}
		}
		want := crypto.FromECDSA(privFK.ExportECDSA())
		var pkg []byte
		nEntries := 0
		entryCache := map[int][]byte{}
		entry := func(i int) []byte { // getEncryptedKeyFromPackage (opens the outer layer every time)
			if e, ok := entryCache[i]; ok {
				return e
			}
			e, err := mempool.VerifC16KeyFromPackage(pubFK, pkg, i)
			if err != nil {
				e = nil
			}
			entryCache[i] = e
			return e
		}
		if p, what := c16protect(func() {
			pks, _ := x.f.Recipients(sh.Candidates[a])
			nEntries = len(pks)
			if ownNode {
				// broadcastPrivateFlipKeysPackage + broadcastPublicFipKey of the live ceremony (flip keys from the Flipper,
				// signatures from the secStore, KeysPool.AddPrivateKeysPackage / AddPublicFlipKey with own=true)
				o.hit("seq:own-broadcast")
				pubSent, pkgSent := x.f.BroadcastOwnKeys()
				pkg = x.seq.pool.VerifC16Package(sh.Candidates[a])
				if k := x.seq.pool.GetPublicFlipKey(sh.Candidates[a]); !pubSent || k == nil {
					o.fail("C16:own-public-flip-key-not-published", "epoch %d: the node (key %d) is an author, but after broadcastPublicFipKey its pool holds no public flip key of it (sent flag %v; flip key scalar has %d significant bytes)",
						x.epoch, ga-c16nodeBase, pubSent, len(pubFK.D.Bytes()))
				} else if !bytes.Equal(crypto.FromECDSA(k.ExportECDSA()), crypto.FromECDSA(pubFK.ExportECDSA())) {
					o.fail("C16:own-public-flip-key-not-published", "epoch %d: the pool holds another public flip key for the node than the Flipper derives", x.epoch)
				}
				if !pkgSent || pkg == nil {
					o.fail("C16:own-key-package-not-published", "epoch %d: the node (key %d) is an author, but after broadcastPrivateFlipKeysPackage its pool holds no package of it", x.epoch, ga-c16nodeBase)
				}
				return
			}
			pkg = mempool.EncryptPrivateKeysPackage(pubFK, privFK, pks)
			if x.seq != nil {
				// what broadcastPublicFipKey / broadcastPrivateFlipKeysPackage do: signed messages through the pool's validation
				if err := x.seq.publish(fx.key(ga), pubFK, pkg); err != nil {
					o.fail("C16:key-message-refused", "epoch %d: the pool refuses the key messages of author %d: %v", x.epoch, a, err)
				}
				return
			}
			fx.keysPool.VerifC16Put(sh.Candidates[a], &types.PublicFlipKey{Key: crypto.FromECDSA(pubFK.ExportECDSA()), Epoch: 0},
				&types.PrivateFlipKeysPackage{Data: pkg, Epoch: 0})
		}); p {
			o.fail("C16:panic", "building the key package of author %d panicked: %s", a, what)
			continue
		}
		// ---- the package is positional: entry i is recipient i's (empty for a recipient without a usable public key)
		if pkg != nil && (nEntries <= 16 || len(badList) > 0) {
			layout := make([]string, nEntries)
			shifted := -1
			for i := 0; i < nEntries; i++ {
				c := rcp[a][i]
				e, err := mempool.VerifC16KeyFromPackage(pubFK, pkg, i)
				opens := func(c int) bool {
					if c < 0 || c >= n {
						return false
					}
					dec, err := ecies.ImportECDSA(fx.key(in.gidx[c])).Decrypt(e, nil, nil)
					return err == nil && bytes.Equal(dec, want)
				}
				switch {
				case err != nil:
					layout[i] = "!" // the package has no such position
				case len(e) == 0:
					layout[i] = "x"
				case opens(c):
					layout[i] = strconv.Itoa(c)
				default:
					layout[i] = "?"
					for c2 := 0; c2 < n; c2++ {
						if opens(c2) {
							layout[i] = strconv.Itoa(c2)
							break
						}
					}
				}
				expect := strconv.Itoa(c)
				if isBad(c) {
					expect = "x"
				}
				if layout[i] != expect && shifted < 0 {
					shifted = i
				}
			}
			lay := strings.Join(layout, ",")
			if nEntries == 0 {
				lay = "_"
			}
			o.line(fmt.Sprintf("pkg %d", a), lay)
			if shifted >= 0 {
				o.fail("C16:package-position-shifted", "epoch %d: author %d encrypts for recipients %v (no usable public key: %v); position %d of its package holds %q (layout %s): every recipient must find its own entry at its own position",
					x.epoch, a, rcp[a], badList, shifted, layout[shifted], lay)
			}
		}
		var who []int
		if n <= 8 || x.seq != nil {
			for c := 0; c < n; c++ {
				who = append(who, c)
			}
		} else {
			if len(rcp[a]) > 0 {
				who = append(who, rcp[a][x.krng.Intn(len(rcp[a]))], rcp[a][x.krng.Intn(len(rcp[a]))])
			}
			who = append(who, a)
			for i := 0; i < 3; i++ {
				who = append(who, x.krng.Intn(n))
			}
		}
		for _, c := range who {
			if c < 0 || c >= n {
				continue
			}
			kc := ecies.ImportECDSA(fx.key(in.gidx[c]))
			idx, got := -2, false
			var encKey []byte
			if p, what := c16protect(func() {
				idx = x.f.PackageIndex(sh.Candidates[c], sh.Candidates[a])
				pubKey, ek, err := x.f.FlipKeys(sh.Candidates[c], c16cid(ga, 8*x.cidEpoch))
				if err == nil {
					encKey = ek
					if !bytes.Equal(pubKey, crypto.FromECDSA(pubFK.ExportECDSA())) {
						o.fail("C16:wrong-public-flip-key", "GetFlipKeys(candidate %d, flip of author %d) returned another public flip key", c, a)
					}
					if dec, err := kc.Decrypt(ek, nil, nil); err == nil && bytes.Equal(dec, want) {
						got = true
					}
				}
			}); p {
				o.line(fmt.Sprintf("key %d %d", c, a), "panic")
				o.fail("C16:panic", "GetFlipKeys / getPrivateKeyPackageIndex panicked for candidate %d, author %d: %s", c, a, what)
				continue
			}
			ans := fmt.Sprintf("idx=%d ", idx)
			if got {
				ans += "ok"
			} else {
				ans += "no"
			}
			o.line(fmt.Sprintf("key %d %d", c, a), ans)
			o.hit(map[bool]string{true: "key:recipient", false: "key:non-recipient"}[isRcp[a][c]])
			// oracle
			if isRcp[a][c] && isBad(c) {
				// a recipient without a usable public key has an empty slot: nothing to obtain (and nothing required)
			} else if isRcp[a][c] {
				if !got {
					o.fail(unreachable, "epoch %d: candidate %d is a key recipient of author %d (recipients %v) but cannot extract and decrypt the author's current key (index %d, got %d bytes)", x.epoch, c, a, rcp[a], idx, len(encKey))
				}
				if idx < 0 || idx >= len(rcp[a]) || rcp[a][idx] != c {
					o.fail("C16:wrong-package-index", "package index %d of candidate %d in author %d's recipients %v", idx, c, a, rcp[a])
				} else if !bytes.Equal(entry(idx), encKey) {
					o.fail("C16:extraction-differs", "getEncryptedKeyFromPackage(index %d) and GetFlipKeys disagree for candidate %d, author %d", idx, c, a)
				}
			} else {
				if got || idx != -1 {
					o.fail("C16:non-recipient-obtains-key", "candidate %d is not a key recipient of author %d (recipients %v) but index=%d, decrypted=%v", c, a, rcp[a], idx, got)
				}
				for t := 0; t < nEntries && t < 6; t++ {
					i := t
					if nEntries > 6 {
						i = x.orng.Intn(nEntries)
					}
					if dec, err := kc.Decrypt(entry(i), nil, nil); err == nil && bytes.Equal(dec, want) {
						o.fail("C16:non-recipient-obtains-key", "candidate %d is not a key recipient of author %d but decrypts package entry %d", c, a, i)
					}
				}
			}
		}
	}
	if x.seq != nil {
		// a node restarted now (new KeysPool over the same db, Initialize loads this epoch's messages) must serve the same
		maxIdx := 2
		for _, a := range authors {
			if len(rcp[a])+2 > maxIdx {
				maxIdx = len(rcp[a]) + 2
			}
		}
		var addrs []common.Address
		for _, a := range authors {
			addrs = append(addrs, sh.Candidates[a])
		}
		if p, what := c16protect(func() {
			if i, a, live, fresh := x.seq.compareWithRestart(addrs, maxIdx); i >= 0 {
				o.fail("C16:stale-key-served", "epoch %d: the running pool serves %d bytes for entry %d of author %d's package, a restarted node %d bytes (recipients %v)",
					x.epoch, live, i, authors[a], fresh, rcp[authors[a]])
			}
		}); p {
			o.fail("C16:panic", "restarted pool panicked: %s", what)
		}
	}
}

// ---------------------------------------------------------------- several epochs on one running node

// c16world: one node's long-lived objects: state, KeysPool, Flipper, ValidationCeremony over one db.
type c16world struct {
	db       dbm.DB
	bus      eventbus.Bus
	appState *appstate.AppState
	pool     *mempool.KeysPool
	f        *ceremony.VerifC16Ceremony
	flipper  *flip.Flipper
	head     *types.Header
	height   uint64
}

func (w *c16world) commit() error {
	w.height++
	w.appState.Precommit()
	if err := w.appState.CommitAt(w.height); err != nil {
		return err
	}
	if err := w.appState.Initialize(w.height); err != nil {
		return err
	}
	w.head = &types.Header{ProposedHeader: &types.ProposedHeader{Height: w.height, Time: 1}}
	return nil
}

// publish: the author's signed public flip key and private keys package go through the pool's real validation
func (w *c16world) publish(author *ecdsa.PrivateKey, pubFK *ecies.PrivateKey, pkg []byte) error {
	epoch := w.appState.State.Epoch()
	p, err := types.SignFlipKeysPackage(&types.PrivateFlipKeysPackage{Data: pkg, Epoch: epoch}, author)
	if err != nil {
		return err
	}
	if err := w.pool.AddPrivateKeysPackage(p, false); err != nil {
		return err
	}
	k, err := types.SignFlipKey(&types.PublicFlipKey{Key: crypto.FromECDSA(pubFK.ExportECDSA()), Epoch: epoch}, author)
	if err != nil {
		return err
	}
	return w.pool.AddPublicFlipKey(k, false)
}

// compareWithRestart: a KeysPool constructed now over the same db (what a restarted node has: Initialize re-reads the
// current epoch's messages) against the running one, entry by entry.  Returns the first difference (entry, author position).
func (w *c16world) compareWithRestart(authors []common.Address, maxIdx int) (int, int, int, int) {
	fresh := mempool.NewKeysPool(w.db, w.appState, eventbus.New(), c16getFixture().ss)
	fresh.VerifC16QuietTracker()
	fresh.Initialize(w.head)
	for a, addr := range authors {
		for i := 0; i < maxIdx; i++ {
			x, y := w.pool.GetEncryptedPrivateFlipKey(i, addr), fresh.GetEncryptedPrivateFlipKey(i, addr)
			if !bytes.Equal(x, y) {
				return i, a, len(x), len(y)
			}
		}
	}
	return -1, -1, 0, 0
}

func c16newWorld() (*c16world, error) {
	fx := c16getFixture()
	w := &c16world{db: dbm.NewMemDB(), bus: eventbus.New()}
	as, err := appstate.NewAppState(w.db, w.bus)
	if err != nil {
		return nil, err
	}
	if err := as.Initialize(0); err != nil {
		return nil, err
	}
	w.appState = as
	w.pool = mempool.NewKeysPool(w.db, as, w.bus, fx.ss)
	w.pool.VerifC16QuietTracker()
	return w, nil
}

// c16runSeq: consecutive ceremonies on one node.  Per epoch: the state gets the epoch's flips and (from the second
// epoch on) the next epoch number, a block event moves the pool's head, the real completeEpoch runs (KeysPool.Clear,
// Flipper.Clear, new epoch db), the real lottery runs from the epoch db, EVERY author publishes signed key messages
// through the pool's validation, EVERY (candidate, author) pair fetches through GetFlipKeys and decrypts.
func c16runSeq(cs c16case, withKeys bool) *c16out {
	fx := c16getFixture()
	o := &c16out{}
	w, err := c16newWorld()
	if err != nil {
		o.fail("C16:fixture", "world: %v", err)
		return o
	}
	// the node's own identity (if it takes part): its key is THE key of the node's secStore for this case
	for _, ep := range cs.Epochs {
		for _, id := range ep.Ids {
			if id.G >= c16nodeBase {
				fx.ss.Destroy()
				fx.ss.AddKey(crypto.FromECDSA(fx.key(id.G)))
				defer func() {
					fx.ss.Destroy()
					fx.ss.AddKey(crypto.FromECDSA(c16derive("coinbase", 0)))
				}()
				goto nodeSet
			}
		}
	}
nodeSet:
	flipper := flip.NewFlipper(w.db, ipfs.NewMemoryIpfsProxy(), w.pool, nil, fx.ss, w.appState, w.bus)
	w.flipper = flipper
	krng := rand.New(rand.NewSource(cs.KSeed))
	orng := rand.New(rand.NewSource(cs.KSeed + 1))
	var prev []c16pid
	for e, ep := range cs.Epochs {
		st := w.appState.State
		if e > 0 {
			st.IncEpoch()
			for _, id := range prev {
				st.ClearFlips(fx.addr(id.G))
			}
		}
		var ids []database.DbLotteryIdentity
		in := c16shardIn{sid: 1}
		for _, id := range ep.Ids {
			li := database.DbLotteryIdentity{Address: fx.addr(id.G), ShiftedShardId: 1, PubKey: fx.pubOf(id.G, id.B), State: uint8(state.Verified), HasDoneAllRequiredFlips: true}
			for j := 0; j < id.F; j++ {
				cid := c16cid(id.G, j+8*e)
				li.FlipCids = append(li.FlipCids, cid)
				st.AddFlip(li.Address, cid, 0)
			}
			ids = append(ids, li)
			in.gidx = append(in.gidx, id.G)
			in.fl = append(in.fl, id.F)
			in.bad = append(in.bad, id.B)
		}
		prev = ep.Ids
		if err := w.commit(); err != nil {
			o.fail("C16:fixture", "commit: %v", err)
			return o
		}
		var sh *ceremony.VerifC16Shard
		stage := 0
		p, what := c16protect(func() {
			if e == 0 {
				w.pool.Initialize(w.head)
				w.f = ceremony.VerifC16NewLiveCeremony(w.appState, w.db, fx.cfg, fx.ss, w.pool, flipper)
			} else {
				w.bus.Publish(&events.NewBlockEvent{Block: &types.Block{Header: w.head, Body: &types.Body{}}}) // the pool follows the head
				w.f.CompleteEpoch()
			}
			// when the node's public flip key of this epoch CAN have a scalar with a zero top byte, make the Flipper derive
			// that variant (Clear drops the cached pair, the next Get derives again)
			for _, id := range ep.Ids {
				if id.G >= c16nodeBase && id.F > 0 && c16flipKeyVariants(fx.key(id.G), e) {
					for t := 0; t < 64 && len(flipper.GetFlipPublicEncryptionKey().D.Bytes()) == 32; t++ {
						flipper.Clear()
					}
				}
			}
			w.f.StartLottery(ids, c16seedBytes(ep.Seed))
			if w.f.Finished() {
				sh = w.f.Shard(1)
			}
		})
		if p || sh == nil {
			stage = 1
		}
		c16shard(o, &c16shardCtx{in: in, q: c16prodQ, seed: ep.Seed, sh: sh, sh2: sh, stage: stage, what: what, f: w.f,
			krng: krng, orng: orng, withKeys: withKeys, epoch: e, seq: w, cidEpoch: e})
		if stage != 0 {
			return o
		}
	}
	return o
}

func c16contains(l []int, v int) bool {
	for _, x := range l {
		if x == v {
			return true
		}
	}
	return false
}

func c16flToken(fl []int) string {
	if len(fl) == 0 {
		return "-"
	}
	return c16L(fl)
}

// ---------------------------------------------------------------- shrinking

func c16hasSig(o *c16out, sig string) bool {
	for _, f := range o.fails {
		if f.sig == sig {
			return true
		}
	}
	return false
}

// c16shrinkSeq: drop whole epochs, then participants of single epochs, then flips
func c16shrinkSeq(cs c16case, fails func(c16case) bool) c16case {
	clone := func(c c16case) c16case {
		t := c
		t.Epochs = make([]c16epoch, len(c.Epochs))
		for i, e := range c.Epochs {
			t.Epochs[i] = c16epoch{Seed: e.Seed, Ids: append([]c16pid{}, e.Ids...)}
		}
		return t
	}
	budget := 200
	for changed := true; changed && budget > 0; {
		changed = false
		for i := 0; i < len(cs.Epochs) && len(cs.Epochs) > 1 && budget > 0; i++ {
			t := clone(cs)
			t.Epochs = append(t.Epochs[:i], t.Epochs[i+1:]...)
			budget--
			if fails(t) {
				cs, changed = t, true
				i--
			}
		}
		for e := range cs.Epochs {
			for i := 0; i < len(cs.Epochs[e].Ids) && budget > 0; i++ {
				t := clone(cs)
				t.Epochs[e].Ids = append(t.Epochs[e].Ids[:i], t.Epochs[e].Ids[i+1:]...)
				budget--
				if fails(t) {
					cs, changed = t, true
					i--
				}
			}
			for i := range cs.Epochs[e].Ids {
				for cs.Epochs[e].Ids[i].F > 1 && budget > 0 {
					t := clone(cs)
					t.Epochs[e].Ids[i].F--
					budget--
					if fails(t) {
						cs, changed = t, true
					} else {
						break
					}
				}
			}
		}
	}
	return cs
}

func c16shrink(cs c16case, sig string) c16case {
	keySig := map[string]bool{"C16:recipient-cannot-obtain-key": true, "C16:non-recipient-obtains-key": true, "C16:wrong-package-index": true,
		"C16:extraction-differs": true, "C16:wrong-public-flip-key": true, "C16:panic": true,
		"C16:key-unreachable-after-epoch-change": true, "C16:stale-key-served": true, "C16:key-message-refused": true}[sig]
	fails := func(c c16case) bool { return c16hasSig(c16runK(c, keySig), sig) }
	budget := 300
	if cs.Level == "seq" {
		return c16shrinkSeq(cs, fails)
	}
	for changed := true; changed && budget > 0; {
		changed = false
		// drop halves, then single identities
		for chunk := len(cs.Ids) / 2; chunk >= 1 && budget > 0; chunk /= 2 {
			for i := 0; i+chunk <= len(cs.Ids) && budget > 0; {
				t := cs
				t.Ids = append(append([]c16id{}, cs.Ids[:i]...), cs.Ids[i+chunk:]...)
				budget--
				if fails(t) {
					cs, changed = t, true
				} else {
					i += chunk
				}
			}
		}
		for i := range cs.Ids {
			for cs.Ids[i].Flips > 0 && budget > 0 {
				t := cs
				t.Ids = append([]c16id{}, cs.Ids...)
				t.Ids[i].Flips--
				budget--
				if fails(t) {
					cs, changed = t, true
				} else {
					break
				}
			}
		}
		if cs.Level == "fn" {
			for cs.Q > 0 && budget > 0 {
				t := cs
				t.Q--
				budget--
				if fails(t) {
					cs, changed = t, true
				} else {
					break
				}
			}
		}
	}
	return cs
}

// ---------------------------------------------------------------- generator

// c16genSeq: 2-3 consecutive ceremonies among a small population; some identities author in every epoch; every epoch
// has its own participants, order (hence candidate indexes and package positions), flip counts and seed
func c16genSeq(c *hx.Ctx) c16case {
	node := 0
	if c.Rng.Intn(2) == 0 {
		node = 1 + c.Rng.Intn(200)
	}
	return c16genSeqWith(c.Rng, node, 2+c.Rng.Intn(2))
}

// node > 0: the node's own identity (node key number `node`) takes part and authors in every epoch, its key messages
// go out through the real broadcast functions
func c16genSeqWith(r *rand.Rand, node, epochs int) c16case {
	cs := c16case{Level: "seq", Q: c16prodQ, KSeed: r.Int63()}
	pop := 3 + r.Intn(8)
	persistent := map[int]bool{}
	for k := 1 + r.Intn(3); k > 0; k-- {
		persistent[r.Intn(pop)] = true
	}
	name := func(g int) int { return g }
	if node > 0 {
		persistent[0] = true
		name = func(g int) int {
			if g == 0 {
				return c16nodeBase + node
			}
			return g
		}
	}
	bad := map[int]int{} // identities whose stored PubKey is unusable (at most one empty: recipients are told apart by PubKey)
	if r.Intn(3) == 0 {
		for k, kinds := 1+r.Intn(2), r.Perm(3); k > 0; k-- {
			if g := 1 + r.Intn(pop-1); bad[g] == 0 {
				bad[g] = 1 + kinds[k-1]
			}
		}
	}
	pAuthor := []float64{0.1, 0.3, 0.6, 1}[r.Intn(4)]
	for e := 0; e < epochs; e++ {
		ep := c16epoch{Seed: r.Uint64()}
		for _, g := range r.Perm(pop) {
			if !persistent[g] && r.Intn(4) == 0 {
				continue // sits this ceremony out
			}
			id := c16pid{G: name(g), B: bad[g]}
			if persistent[g] || r.Float64() < pAuthor {
				id.F = 1 + r.Intn(3)
			}
			ep.Ids = append(ep.Ids, id)
		}
		cs.Epochs = append(cs.Epochs, ep)
	}
	return cs
}

func c16gen(c *hx.Ctx) c16case {
	r := c.Rng
	if r.Intn(12) == 0 {
		return c16genSeq(c)
	}
	cs := c16case{Level: "fn", Q: c16prodQ, Seed: r.Uint64(), KSeed: r.Int63()}
	switch r.Intn(40) {
	case 0:
		cs.Seed = 0
	case 1:
		cs.Seed = ^uint64(0)
	case 2:
		cs.Seed = uint64(r.Intn(1000))
	}
	if r.Intn(3) == 0 {
		cs.Level = "cer"
	} else if r.Intn(2) == 0 {
		cs.Q = []int{0, 1, 1, 2, 2, 3, 3, 4, 5, 6, 7, 9, 12}[r.Intn(13)]
	}
	// size
	var n int
	big := 600
	if c.Tier == "quick" {
		big = 400
	}
	switch x := r.Intn(100); {
	case x < 45:
		n = r.Intn(13)
	case x < 75:
		n = 13 + r.Intn(18)
	case x < 93:
		n = 31 + r.Intn(90)
	case x < 98:
		n = 121 + r.Intn(180)
	default:
		n = 301 + r.Intn(big-300)
	}
	// authors
	pAuthor := []float64{0, 0.05, 0.15, 0.3, 0.5, 0.7, 0.9, 1}[r.Intn(8)]
	exact := -1
	if r.Intn(4) == 0 {
		exact = []int{1, 2, 3, 6, 7, 8, 9, 13}[r.Intn(8)] // around the `authors > 7` top-up and the quota
	}
	flipMode := r.Intn(5) // 0: all 1 (placeholder), 1: all 3, 2..: 1..4
	flips := func() int {
		switch flipMode {
		case 0:
			return 1
		case 1:
			return 3
		}
		return 1 + r.Intn(4)
	}
	nShards := 1
	if cs.Level == "cer" && r.Intn(2) == 0 {
		nShards = 2 + r.Intn(2)
	}
	for i := 0; i < n; i++ {
		id := c16id{Shard: 1 + r.Intn(nShards)}
		if exact < 0 && r.Float64() < pAuthor {
			id.Flips = flips()
		}
		cs.Ids = append(cs.Ids, id)
	}
	if exact >= 0 && n > 0 {
		for _, i := range r.Perm(n) {
			if exact == 0 {
				break
			}
			cs.Ids[i].Flips = flips()
			exact--
		}
	}
	if n > 1 && r.Intn(5) == 0 {
		// candidates whose identity state holds no usable PubKey (never activated by a tx: genesis / god identities, or junk):
		// at most one empty one per case (recipients are told apart by their PubKey), early positions preferred so that
		// they are not the last recipient of a package
		kinds := r.Perm(3)
		for k := 1 + r.Intn(3); k > 0; k-- {
			i := r.Intn(n)
			if r.Intn(2) == 0 {
				i = r.Intn(1 + n/4)
			}
			if cs.Ids[i].Bad == 0 {
				cs.Ids[i].Bad = 1 + kinds[k-1]
			}
		}
	}
	if cs.Level == "cer" && r.Intn(2) == 0 {
		// identities that are not ceremony candidates, in between (they take no candidate index)
		for k := r.Intn(4); k > 0; k-- {
			at := r.Intn(len(cs.Ids) + 1)
			id := c16id{Shard: 1 + r.Intn(nShards), Flips: r.Intn(3), Non: true}
			cs.Ids = append(cs.Ids[:at], append([]c16id{id}, cs.Ids[at:]...)...)
		}
	}
	return cs
}

// exhaustive small layouts: every fl in {0..maxF}^n for n <= maxN
func c16exhaustive(maxN, maxF int, qs []int, seeds []uint64, emit func(c16case)) {
	for n := 0; n <= maxN; n++ {
		fl := make([]int, n)
		for {
			for _, q := range qs {
				for _, sd := range seeds {
					cs := c16case{Level: "fn", Q: q, Seed: sd, KSeed: int64(sd) + int64(q)}
					for _, k := range fl {
						cs.Ids = append(cs.Ids, c16id{Shard: 1, Flips: k})
					}
					emit(cs)
				}
			}
			i := 0
			for ; i < n; i++ {
				if fl[i] < maxF {
					fl[i]++
					break
				}
				fl[i] = 0
			}
			if i == n {
				break
			}
		}
	}
}

var c16sigCount = map[string]int{}

func c16emit(c *hx.Ctx, cs c16case) {
	o := c16run(cs)
	for _, l := range o.lines {
		c.Line(l[0], l[1])
	}
	for _, h := range o.hits {
		c.Hit(h)
	}
	reported := map[string]bool{}
	for _, f := range o.fails {
		if reported[f.sig] {
			continue
		}
		reported[f.sig] = true
		c16sigCount[f.sig]++
		if c16sigCount[f.sig] > 3 { // three shrunk reproductions per failure class are enough
			c.Hit("fail(not shrunk):" + f.sig)
			continue
		}
		small := c16shrink(cs, f.sig)
		detail := f.detail
		for _, f2 := range c16run(small).fails {
			if f2.sig == f.sig {
				detail = f2.detail
				break
			}
		}
		c.Fail(f.sig, detail, small)
	}
	// distribution
	if cs.Level == "seq" {
		c.Hit("level:seq")
		c.Hit("seq:epochs=" + strconv.Itoa(len(cs.Epochs)))
		returning := 0 // authors of an epoch that authored in the previous one as well
		for e := 1; e < len(cs.Epochs); e++ {
			was := map[int]bool{}
			for _, id := range cs.Epochs[e-1].Ids {
				if id.F > 0 {
					was[id.G] = true
				}
			}
			for _, id := range cs.Epochs[e].Ids {
				if id.F > 0 && was[id.G] {
					returning++
				}
			}
		}
		if returning > 0 {
			c.Hit("seq:returning-author")
		}
		key, _ := json.Marshal(cs.Epochs)
		if c.Distinct("seq" + string(key)) {
			c.Rep.Distinct++
		}
		return
	}
	n, m, tot := 0, 0, 0
	for _, id := range cs.Ids {
		if !id.Non {
			n++
			if id.Flips > 0 {
				m++
			}
			tot += id.Flips
		}
	}
	c.Hit("level:" + cs.Level)
	switch {
	case n == 0:
		c.Hit("candidates:0")
	case n <= 12:
		c.Hit("candidates:1-12")
	case n <= 30:
		c.Hit("candidates:13-30")
	case n <= 120:
		c.Hit("candidates:31-120")
	case n <= 300:
		c.Hit("candidates:121-300")
	default:
		c.Hit("candidates:301-600")
	}
	switch {
	case m == 0:
		c.Hit("authors:0")
	case m <= 7:
		c.Hit("authors:1-7")
	default:
		c.Hit("authors:>7(top-up)")
	}
	if tot == 0 && n > 0 {
		c.Hit("shard-without-flips")
	}
	q := cs.Q
	if cs.Level == "cer" {
		q = c16prodQ
	}
	c.Hit("q:" + strconv.Itoa(q))
	key, _ := json.Marshal(struct {
		L   string
		Q   int
		S   uint64
		Ids []c16id
	}{cs.Level, q, cs.Seed, cs.Ids})
	if tot > 0 && c.Distinct(string(key)) {
		c.Rep.Distinct++
	}
}

func init() {
	hx.Register("C16", func(c *hx.Ctx) error {
		if c.Replay != "" {
			b, err := os.ReadFile(c.Replay)
			if err != nil {
				return err
			}
			var wrap struct {
				Replay c16case `json:"replay"`
			}
			if err := json.Unmarshal(b, &wrap); err != nil {
				return err
			}
			c16emit(c, wrap.Replay)
			c.Rep.Evaluations = 1
			return nil
		}
		c.Rep.Rule = "shard layouts (0..600 candidates, mostly <= 30; author subsets incl. exactly 1,2,3,6,7,8,9,13 authors; 0-4 flips per author incl. all-one-flip; shortFlipsCount 0..12 at function level; 1-3 shards with non-candidate identities in between at ceremony level; random and corner seeds) through the real GetAuthorsDistribution/GetFlipsDistribution/getFlipsToSolve resp. calculateCeremonyCandidates, real PrivateEncryptionKeyCandidates/getPrivateKeyPackageIndex/EncryptPrivateKeysPackage/GetFlipKeys/getEncryptedKeyFromPackage/ECIES for sampled (candidate, author) pairs; exhaustive flips-per-candidate vectors for small candidate counts; distinct = distinct (level, q, seed, layout) with at least one flip"
		emit := func(cs c16case) {
			c16emit(c, cs)
			c.Rep.Evaluations++
			if c.Rep.Evaluations <= 3 || (len(c.Rep.Samples) < 5 && len(cs.Ids) > 3 && len(cs.Ids) < 12) {
				c.Sample(cs)
			}
		}
		if c.Tier == "thorough" {
			c16exhaustive(6, 2, []int{1, 2, 3, 8}, []uint64{1, 0x9e3779b97f4a7c15}, emit)
			c16exhaustive(4, 4, []int{2, 8}, []uint64{7}, emit)
		} else if c.Tier == "quick" {
			c16exhaustive(4, 2, []int{1, 2, 8}, []uint64{uint64(c.Seed)}, emit)
		}
		// the node's public flip key scalar of an epoch with a zero most significant byte (1 of 256): searched, not awaited
		for i, h := range c16findShortScalars(map[bool]int{true: 10, false: 3}[c.Tier == "thorough"]) {
			emit(c16genSeqWith(rand.New(rand.NewSource(c.Seed*1000+int64(i))), h[0], h[1]+1+i%2))
		}
		n := c.Scale(1400, 40000)
		for i := 0; i < n; i++ {
			emit(c16gen(c))
		}
		return nil
	})
}
