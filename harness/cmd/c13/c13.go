package main

// C13 (store part): real database.BackedMemDb over a tm-db MemDB, random operation sequences.
//   - correspondence: every op line and the implementation's canonical answer go to the Lean model
//     (Overlay.step); the driver diffs the two streams.
//   - independent oracle (this file): a plain Go map pre-loaded with the base content must answer the
//     same, and the base store must be byte-identical after the sequence.
import (
	"bytes"
	"encoding/json"
	"fmt"
	"os"
	"sort"
	"strings"

	"github.com/idena-network/idena-go/database"
	dbm "github.com/tendermint/tm-db"

	"verifharness/internal/hx"
)

type c13bop struct {
	Del bool   `json:"del,omitempty"`
	K   string `json:"k"`
	V   string `json:"v,omitempty"`
}

type c13op struct {
	Kind string   `json:"kind"` // get has set del batch iter riter
	K    string   `json:"k,omitempty"`
	V    string   `json:"v,omitempty"`
	Lo   string   `json:"lo,omitempty"`
	Hi   string   `json:"hi,omitempty"`
	Sync bool     `json:"sync,omitempty"`
	B    []c13bop `json:"b,omitempty"`
}

type c13case struct {
	Base [][2]string `json:"base"`
	Ops  []c13op     `json:"ops"`
}

func (o c13op) line() string {
	switch o.Kind {
	case "bnew", "bwrite", "bclose":
		return o.Kind
	case "bs":
		return "bs " + o.K + " " + o.V
	case "bd":
		return "bd " + o.K
	case "get", "has", "del":
		return o.Kind + " " + o.K
	case "set":
		return "set " + o.K + " " + o.V
	case "batch":
		var it []string
		for _, b := range o.B {
			if b.Del {
				it = append(it, "d:"+b.K)
			} else {
				it = append(it, "s:"+b.K+":"+b.V)
			}
		}
		if len(it) == 0 {
			return "batch"
		}
		return "batch " + strings.Join(it, ",")
	default:
		return o.Kind + " " + o.Lo + " " + o.Hi
	}
}

func c13kvs(keys, vals [][]byte) string {
	var sb strings.Builder
	sb.WriteString("kvs ")
	for i := range keys {
		if i > 0 {
			sb.WriteByte(',')
		}
		sb.WriteString(hx.Hex(keys[i]))
		sb.WriteByte('=')
		sb.WriteString(hx.Hex(vals[i]))
	}
	return sb.String()
}

func mustUnhex(s string) []byte {
	b, err := hx.UnHex(s)
	if err != nil {
		panic(err)
	}
	return b
}

// c13exec runs one op on a tm-db DB (the real overlay) and returns the canonical answer.
// `open` holds the batch object of the bnew/bs/bd/bwrite/bclose operations.
func c13exec(db dbm.DB, open *dbm.Batch, o c13op) (ans string) {
	defer func() {
		if r := recover(); r != nil {
			ans = fmt.Sprintf("panic %v", r)
		}
	}()
	switch o.Kind {
	case "bnew":
		if *open != nil {
			(*open).Close()
		}
		*open = db.NewBatch()
		return "ok"
	case "bs":
		if *open == nil {
			if len(mustUnhex(o.K)) == 0 || o.V == "-" {
				return "err"
			}
			return "ok"
		}
		if err := (*open).Set(mustUnhex(o.K), mustUnhex(o.V)); err != nil {
			return "err"
		}
		return "ok"
	case "bd":
		if *open == nil {
			if len(mustUnhex(o.K)) == 0 {
				return "err"
			}
			return "ok"
		}
		if err := (*open).Delete(mustUnhex(o.K)); err != nil {
			return "err"
		}
		return "ok"
	case "bwrite":
		if *open == nil {
			return "ok"
		}
		var err error
		if o.Sync {
			err = (*open).WriteSync()
		} else {
			err = (*open).Write()
		}
		(*open).Close()
		*open = nil
		if err != nil {
			return "err"
		}
		return "ok"
	case "bclose":
		if *open != nil {
			(*open).Close()
			*open = nil
		}
		return "ok"
	case "get":
		v, err := db.Get(mustUnhex(o.K))
		if err != nil {
			return "err"
		}
		return "val " + hx.Hex(v)
	case "has":
		h, err := db.Has(mustUnhex(o.K))
		if err != nil {
			return "err"
		}
		if h {
			return "bool t"
		}
		return "bool f"
	case "set":
		var err error
		if o.Sync {
			err = db.SetSync(mustUnhex(o.K), mustUnhex(o.V))
		} else {
			err = db.Set(mustUnhex(o.K), mustUnhex(o.V))
		}
		if err != nil {
			return "err"
		}
		return "ok"
	case "del":
		var err error
		if o.Sync {
			err = db.DeleteSync(mustUnhex(o.K))
		} else {
			err = db.Delete(mustUnhex(o.K))
		}
		if err != nil {
			return "err"
		}
		return "ok"
	case "batch":
		b := db.NewBatch()
		for _, e := range o.B {
			if e.Del {
				b.Delete(mustUnhex(e.K)) // refused entries (empty key) return an error and are not part of the batch
			} else {
				b.Set(mustUnhex(e.K), mustUnhex(e.V))
			}
		}
		var err error
		if o.Sync {
			err = b.WriteSync()
		} else {
			err = b.Write()
		}
		b.Close()
		if err != nil {
			return "err"
		}
		return "ok"
	case "iter", "riter":
		var it dbm.Iterator
		var err error
		if o.Kind == "iter" {
			it, err = db.Iterator(mustUnhex(o.Lo), mustUnhex(o.Hi))
		} else {
			it, err = db.ReverseIterator(mustUnhex(o.Lo), mustUnhex(o.Hi))
		}
		if err != nil {
			return "err"
		}
		var ks, vs [][]byte
		for n := 0; it.Valid(); it.Next() {
			ks = append(ks, append([]byte{}, it.Key()...))
			v := it.Value()
			if v != nil {
				v = append([]byte{}, v...)
			}
			vs = append(vs, v)
			if n++; n > 10000 {
				return "hang"
			}
		}
		it.Close()
		return c13kvs(ks, vs)
	}
	return "bad-op"
}

// c13ref is the independent reference: "an ordinary store pre-loaded with the underlying data",
// written directly from tm-db's documented contract (empty key / nil value refused, [start,end) domain).
type c13ref map[string][]byte

// c13refBatch is the reference's batch object: staged entries are invisible until written.
type c13refBatch struct {
	open   bool
	staged []c13bop
}

func (r c13ref) execX(rb *c13refBatch, o c13op) string {
	emptyK := func(s string) bool { b := mustUnhex(s); return len(b) == 0 }
	switch o.Kind {
	case "bnew":
		rb.open, rb.staged = true, nil
		return "ok"
	case "bs":
		if emptyK(o.K) || o.V == "-" {
			return "err"
		}
		if rb.open {
			rb.staged = append(rb.staged, c13bop{K: o.K, V: o.V})
		}
		return "ok"
	case "bd":
		if emptyK(o.K) {
			return "err"
		}
		if rb.open {
			rb.staged = append(rb.staged, c13bop{Del: true, K: o.K})
		}
		return "ok"
	case "bwrite":
		if rb.open {
			r.exec(c13op{Kind: "batch", B: rb.staged})
		}
		rb.open, rb.staged = false, nil
		return "ok"
	case "bclose":
		rb.open, rb.staged = false, nil
		return "ok"
	}
	return r.exec(o)
}

func (r c13ref) exec(o c13op) string {
	emptyK := func(s string) bool { b := mustUnhex(s); return len(b) == 0 }
	switch o.Kind {
	case "get":
		if emptyK(o.K) {
			return "err"
		}
		v, ok := r[string(mustUnhex(o.K))]
		if !ok {
			return "val -"
		}
		return "val " + hx.Hex(v)
	case "has":
		if emptyK(o.K) {
			return "err"
		}
		if _, ok := r[string(mustUnhex(o.K))]; ok {
			return "bool t"
		}
		return "bool f"
	case "set":
		if emptyK(o.K) || o.V == "-" {
			return "err"
		}
		r[string(mustUnhex(o.K))] = mustUnhex(o.V)
		return "ok"
	case "del":
		if emptyK(o.K) {
			return "err"
		}
		delete(r, string(mustUnhex(o.K)))
		return "ok"
	case "batch":
		for _, e := range o.B {
			if emptyK(e.K) {
				continue
			}
			if e.Del {
				delete(r, string(mustUnhex(e.K)))
			} else if e.V != "-" {
				r[string(mustUnhex(e.K))] = mustUnhex(e.V)
			}
		}
		return "ok"
	case "iter", "riter":
		lo, hi := mustUnhex(o.Lo), mustUnhex(o.Hi)
		if (lo != nil && len(lo) == 0) || (hi != nil && len(hi) == 0) {
			return "err"
		}
		var ks [][]byte
		for k := range r {
			kb := []byte(k)
			if lo != nil && bytes.Compare(kb, lo) < 0 {
				continue
			}
			if hi != nil && bytes.Compare(kb, hi) >= 0 {
				continue
			}
			ks = append(ks, kb)
		}
		sort.Slice(ks, func(i, j int) bool {
			if o.Kind == "riter" {
				return bytes.Compare(ks[i], ks[j]) > 0
			}
			return bytes.Compare(ks[i], ks[j]) < 0
		})
		vs := make([][]byte, len(ks))
		for i, k := range ks {
			vs[i] = r[string(k)]
		}
		return c13kvs(ks, vs)
	}
	return "bad-op"
}

func c13dump(db dbm.DB) string {
	it, _ := db.Iterator(nil, nil)
	defer it.Close()
	var sb strings.Builder
	for ; it.Valid(); it.Next() {
		fmt.Fprintf(&sb, "%x=%x;", it.Key(), it.Value())
	}
	return sb.String()
}

// c13run executes a case on the real overlay; returns answers and the first oracle failure ("" if none).
func c13run(cs c13case) (answers []string, failure string) {
	perm := dbm.NewMemDB()
	ref := c13ref{}
	for _, kv := range cs.Base {
		k, v := mustUnhex(kv[0]), mustUnhex(kv[1])
		perm.Set(k, v)
		ref[string(k)] = v
	}
	before := c13dump(perm)
	o := database.NewBackedMemDb(perm)
	var open dbm.Batch
	var rb c13refBatch
	for i, op := range cs.Ops {
		a := c13exec(o, &open, op)
		answers = append(answers, a)
		want := ref.execX(&rb, op)
		if a != want && failure == "" {
			failure = fmt.Sprintf("op %d (%s): overlay answered %q, an ordinary pre-loaded store answers %q", i, op.line(), a, want)
		}
	}
	if after := c13dump(perm); after != before && failure == "" {
		failure = "base store changed by operations on the view"
	}
	return
}

func c13shrink(cs c13case) c13case {
	fails := func(c c13case) bool { _, f := c13run(c); return f != "" }
	for changed := true; changed; {
		changed = false
		for i := 0; i < len(cs.Ops); i++ {
			t := c13case{Base: cs.Base, Ops: append(append([]c13op{}, cs.Ops[:i]...), cs.Ops[i+1:]...)}
			if fails(t) {
				cs, changed = t, true
				i--
			}
		}
		for i := 0; i < len(cs.Base); i++ {
			t := c13case{Base: append(append([][2]string{}, cs.Base[:i]...), cs.Base[i+1:]...), Ops: cs.Ops}
			if fails(t) {
				cs, changed = t, true
				i--
			}
		}
		for i := range cs.Ops {
			if cs.Ops[i].Kind == "batch" {
				for j := 0; j < len(cs.Ops[i].B); j++ {
					nb := append(append([]c13bop{}, cs.Ops[i].B[:j]...), cs.Ops[i].B[j+1:]...)
					t := c13case{Base: cs.Base, Ops: append([]c13op{}, cs.Ops...)}
					t.Ops[i].B = nb
					if fails(t) {
						cs, changed = t, true
						j--
					}
				}
			}
		}
	}
	return cs
}

var c13alphabet = [][]byte{{0}, {0, 0}, {1}, {1, 0}, {1, 1}, {2}, {0xff}, {0xff, 0xff}, {1, 0xff}, {1, 0, 0}, {0x61}, {0x61, 0x62}, {0x62}}

func c13gen(c *hx.Ctx, maxOps int) c13case {
	r := c.Rng
	key := func() string {
		if r.Intn(40) == 0 {
			return "x" // empty key: refused by the store
		}
		return hx.Hex(c13alphabet[r.Intn(len(c13alphabet))])
	}
	val := func() string {
		switch r.Intn(12) {
		case 0:
			return "x" // empty (non-nil) value
		case 1:
			return "-" // nil value: refused by Set
		}
		return hx.Hex([]byte{byte(r.Intn(4))})
	}
	bound := func() string {
		switch r.Intn(8) {
		case 0, 1:
			return "-"
		case 2:
			if r.Intn(6) == 0 {
				return "x"
			}
		}
		return hx.Hex(c13alphabet[r.Intn(len(c13alphabet))])
	}
	var cs c13case
	seen := map[string]bool{}
	for i, n := 0, r.Intn(7); i < n; i++ {
		k := hx.Hex(c13alphabet[r.Intn(len(c13alphabet))])
		if seen[k] {
			continue
		}
		seen[k] = true
		v := val()
		if v == "-" {
			v = "x"
		}
		cs.Base = append(cs.Base, [2]string{k, v})
	}
	nops := 1 + r.Intn(maxOps)
	for s := 0; s < nops; s++ {
		var op c13op
		switch r.Intn(14) {
		case 10:
			op = c13op{Kind: "bnew"}
		case 11:
			if r.Intn(3) == 0 {
				op = c13op{Kind: "bd", K: key()}
			} else {
				op = c13op{Kind: "bs", K: key(), V: val()}
			}
		case 12:
			if r.Intn(2) == 0 {
				op = c13op{Kind: "bs", K: key(), V: val()}
			} else {
				op = c13op{Kind: "get", K: key()}
			}
		case 13:
			if r.Intn(3) == 0 {
				op = c13op{Kind: "bclose"}
			} else {
				op = c13op{Kind: "bwrite", Sync: r.Intn(4) == 0}
			}
		case 0, 1:
			op = c13op{Kind: "set", K: key(), V: val(), Sync: r.Intn(4) == 0}
		case 2:
			op = c13op{Kind: "del", K: key(), Sync: r.Intn(4) == 0}
		case 3:
			op = c13op{Kind: "get", K: key()}
		case 4:
			op = c13op{Kind: "has", K: key()}
		case 5, 6:
			op = c13op{Kind: "batch", Sync: r.Intn(4) == 0}
			for j, n := 0, r.Intn(5); j < n; j++ {
				if r.Intn(3) == 0 {
					op.B = append(op.B, c13bop{Del: true, K: key()})
				} else {
					op.B = append(op.B, c13bop{K: key(), V: val()})
				}
			}
		case 7, 8:
			op = c13op{Kind: "iter", Lo: bound(), Hi: bound()}
		default:
			op = c13op{Kind: "riter", Lo: bound(), Hi: bound()}
		}
		cs.Ops = append(cs.Ops, op)
	}
	return cs
}

func c13emit(c *hx.Ctx, cs c13case) {
	var base []string
	for _, kv := range cs.Base {
		base = append(base, kv[0]+"="+kv[1])
	}
	if len(base) == 0 {
		c.Line("new", "ok")
	} else {
		c.Line("new "+strings.Join(base, ","), "ok")
	}
	answers, failure := c13run(cs)
	for i, op := range cs.Ops {
		c.Line(op.line(), answers[i])
		c.Hit("op:" + op.Kind)
		if strings.HasPrefix(answers[i], "err") {
			c.Hit("answer:err")
		}
		if strings.HasPrefix(answers[i], "kvs ") && strings.Contains(answers[i], ",") {
			c.Hit("answer:iter>=2")
		}
	}
	if failure != "" {
		small := c13shrink(cs)
		_, f2 := c13run(small)
		sig := "C13:overlay-vs-ordinary-store"
		for _, op := range small.Ops {
			if op.Kind == "batch" {
				for _, b := range op.B {
					if !b.Del && b.V == "-" {
						sig = "C13:batch-refused-nil-set-masks-key"
					}
				}
			}
		}
		c.Fail(sig, f2, small)
	}
}

func init() {
	hx.Register("C13", func(c *hx.Ctx) error {
		if c.Replay != "" {
			b, err := os.ReadFile(c.Replay)
			if err != nil {
				return err
			}
			var wrap struct {
				Replay c13case `json:"replay"`
			}
			if err := json.Unmarshal(b, &wrap); err != nil {
				return err
			}
			c13emit(c, wrap.Replay)
			c.Rep.Evaluations = 1
			return nil
		}
		n, maxOps := c.Scale(3000, 300000), 40
		if c.Tier == "thorough" {
			maxOps = 60
		}
		c.Rep.Rule = "random op sequences (get/has/set/del/batch/iter/riter, sync variants, refused keys/values, range borders on shadowed and deleted keys) on the real BackedMemDb over a MemDB with random base content; distinct = distinct (base, op sequence); non-trivial = at least one write followed by a read or iteration"
		for i := 0; i < n; i++ {
			cs := c13gen(c, maxOps)
			c13emit(c, cs)
			c.Rep.Evaluations++
			key, _ := json.Marshal(cs)
			wrote, nontrivial := false, false
			for _, op := range cs.Ops {
				switch op.Kind {
				case "set", "del", "batch":
					wrote = true
				default:
					if wrote {
						nontrivial = true
					}
				}
			}
			if nontrivial && c.Distinct(string(key)) {
				c.Rep.Distinct++
			}
			if i < 2 {
				c.Sample(cs)
			}
		}
		return nil
	})
}
