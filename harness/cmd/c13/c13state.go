package main

// C13 (state part): the REAL AppState/StateDB over a MemDB.  Canonical writes (account balances) and commits build
// versions; speculative views (AppState.ForCheck) are written to and even committed on their own; read-only views
// (AppState.Readonly) of retained heights are read.  The Lean model of the versioned store answers the same lines;
// the independent oracle keeps a plain Go record of what was committed at every height and compares the canonical
// root / version / full database hash before and after every piece of speculative work.
import (
	"crypto/sha256"
	"encoding/json"
	"fmt"
	"math/big"
	"math/rand"
	"os"
	"sort"
	"strings"

	"github.com/idena-network/idena-go/common"
	"github.com/idena-network/idena-go/common/eventbus"
	"github.com/idena-network/idena-go/core/appstate"
	"github.com/idena-network/idena-go/core/state"
	dbm "github.com/tendermint/tm-db"

	"verifharness/internal/hx"
)

type c13sCase struct {
	Seed   int64 `json:"seed"`
	Blocks int   `json:"blocks"`
}

func c13sDbHash(db dbm.DB) string {
	it, _ := db.Iterator(nil, nil)
	defer it.Close()
	h := sha256.New()
	for ; it.Valid(); it.Next() {
		h.Write(it.Key())
		h.Write([]byte{0})
		h.Write(it.Value())
		h.Write([]byte{1})
	}
	return fmt.Sprintf("%x", h.Sum(nil)[:10])
}

func c13sAddr(k int) common.Address { return common.Address{0x77, byte(k >> 8), byte(k)} }

// Modelled keys: K = kind*100 + k.  kind 0: balance of account 0x77,k; kind 1: identity status of 0x79,k (values 1..8);
// kind 2: value under key k of the contract 0x7a,0; kind 3: nonce of account 0x78,k.  The zero value is "absent".
var c13sContract = common.Address{0x7a, 0}

func c13sNorm(K int, v int64) int64 {
	if K/100 == 1 && v != 0 {
		// a status other than Killed (a Killed identity is removed from the state when the block is committed)
		return []int64{1, 2, 3, 4, 6, 7, 8}[v%7]
	}
	return v
}

func c13sSet(s *state.StateDB, K int, v int64) {
	k := K % 100
	switch K / 100 {
	case 0:
		s.SetBalance(c13sAddr(k), big.NewInt(v))
	case 1:
		s.SetState(common.Address{0x79, byte(k)}, state.IdentityState(v))
	case 2:
		if v == 0 {
			s.RemoveContractValue(c13sContract, []byte{byte(k)})
		} else {
			s.SetContractValue(c13sContract, []byte{byte(k)}, []byte(fmt.Sprint(v)))
		}
	default:
		s.SetNonce(common.Address{0x78, byte(k)}, uint32(v))
	}
}

func c13sBal(s *state.StateDB, K int) string {
	k := K % 100
	switch K / 100 {
	case 0:
		b := s.GetBalance(c13sAddr(k))
		if b == nil || b.Sign() == 0 {
			return "val -"
		}
		return "val " + b.String()
	case 1:
		st := s.GetIdentityState(common.Address{0x79, byte(k)})
		if st == 0 {
			return "val -"
		}
		return fmt.Sprintf("val %d", st)
	case 2:
		v := s.GetContractValue(c13sContract, []byte{byte(k)})
		if len(v) == 0 {
			return "val -"
		}
		return "val " + string(v)
	default:
		n := s.GetNonce(common.Address{0x78, byte(k)})
		if n == 0 {
			return "val -"
		}
		return fmt.Sprintf("val %d", n)
	}
}

// c13sValidated: the validated flag of identity K-400 as a view's validator cache shows it
func c13sValidated(a *appstate.AppState, K int) string {
	if a.ValidatorsCache != nil && a.ValidatorsCache.IsValidated(common.Address{0x7b, byte(K - 400)}) {
		return "val 1"
	}
	return "val -"
}

// c13sKey picks a modelled key: half of the time a balance, else one of the other kinds
func c13sKey(r *rand.Rand, nKeys int) int {
	if r.Intn(2) == 0 {
		return r.Intn(nKeys)
	}
	return (1+r.Intn(3))*100 + r.Intn(6)
}

// c13sIter: range iteration of the tree behind a StateDB (IterateAccounts: the tree only, in key order), restricted to
// the modelled balance keys (addresses 0x77..): "items k=v,k=v".  The typed IterateOverAccounts (object cache first, in
// map order, then the tree entries that are not cached; a deleted account shows as a cached empty one) must yield the
// same set of non-empty accounts.
func c13sIter(s *state.StateDB) string {
	var parts []string
	raw := map[int]string{}
	s.IterateAccounts(func(key []byte, value []byte) bool {
		if key == nil {
			return true
		}
		a := state.StateDbKeys.AddressKeyToAddress(key)
		if a[0] != 0x77 {
			return false
		}
		var acc state.Account
		b := "undecodable"
		if err := acc.FromBytes(value); err == nil {
			b = "0"
			if acc.Balance != nil {
				b = acc.Balance.String()
			}
		}
		k := int(a[1])<<8 | int(a[2])
		parts = append(parts, fmt.Sprintf("%d=%s", k, b))
		raw[k] = b
		return false
	})
	typed := map[int]string{}
	s.IterateOverAccounts(func(a common.Address, acc state.Account) {
		if a[0] != 0x77 || acc.Balance == nil || acc.Balance.Sign() == 0 {
			return
		}
		k := int(a[1])<<8 | int(a[2])
		if _, dup := typed[k]; dup {
			typed[k] = "twice"
			return
		}
		typed[k] = acc.Balance.String()
	})
	if c13sWant(typed) != c13sWant(raw) {
		parts = append(parts, "typed-iteration-differs:"+strings.ReplaceAll(c13sWant(typed), " ", "_"))
	}
	return "items " + strings.Join(parts, ",")
}

func c13sWant(m map[int]string) string {
	var ks []int
	for k := range m {
		if k < 100 { // range iteration lines cover the balance keys
			ks = append(ks, k)
		}
	}
	sort.Ints(ks)
	var parts []string
	for _, k := range ks {
		parts = append(parts, fmt.Sprintf("%d=%s", k, m[k]))
	}
	return "items " + strings.Join(parts, ",")
}

// c13sRichWrites touches every kind of state object through the exported setters: identities, stakes, contract
// deployments (embedded and wasm code), contract store values, global parameters, burnt coins, delegations, registry.
func c13sRichWrites(a *appstate.AppState, r *rand.Rand, height int) {
	s := a.State
	for j, n := 0, 1+r.Intn(6); j < n; j++ {
		ad := common.Address{0x88, byte(r.Intn(6))}
		switch r.Intn(14) {
		case 0:
			s.SetState(ad, state.IdentityState(1+r.Intn(8)))
		case 1:
			s.AddStake(ad, big.NewInt(int64(r.Intn(100))))
		case 2:
			code := make([]byte, 8+r.Intn(24))
			r.Read(code)
			s.DeployWasmContract(common.Address{0x99, byte(r.Intn(4))}, code)
		case 3:
			s.DeployContract(common.Address{0x9a, byte(r.Intn(4))}, common.Hash{byte(r.Intn(5))}, big.NewInt(int64(r.Intn(50))))
		case 4:
			s.SetContractValue(common.Address{0x99, byte(r.Intn(4))}, []byte{byte(r.Intn(5))}, []byte{byte(r.Intn(200)), 1})
		case 5:
			s.SetNonce(ad, uint32(r.Intn(9)))
		case 6:
			s.AddInvite(ad, 1)
		case 7:
			s.SetFeePerGas(big.NewInt(int64(10 + r.Intn(1000))))
		case 8:
			s.AddBurntCoins(uint64(height), ad, "k", big.NewInt(int64(1+r.Intn(9))))
		case 9:
			s.SetDelegatee(ad, common.Address{0x88, byte(r.Intn(6))})
		case 10:
			s.ToggleStatusSwitchAddress(ad)
		case 11:
			s.SetPenaltySeconds(ad, uint16(r.Intn(100)))
		case 12:
			a.IdentityState.SetValidated(ad, r.Intn(2) == 0)
			a.IdentityState.SetOnline(ad, r.Intn(2) == 0)
		default:
			s.IncEpoch()
		}
	}
}

func c13sRun(c *hx.Ctx, cs c13sCase) error {
	r := c.Rng
	db := dbm.NewMemDB()
	app, err := appstate.NewAppState(db, eventbus.New())
	if err != nil {
		return err
	}
	if err := app.Initialize(0); err != nil {
		return err
	}
	// twin: the same canonical writes and commits, but no view is ever opened on it
	twin, err := appstate.NewAppState(dbm.NewMemDB(), eventbus.New())
	if err != nil {
		return err
	}
	if err := twin.Initialize(0); err != nil {
		return err
	}
	// the contract whose store holds the kind-2 keys exists from the first commit on (on both states)
	app.State.DeployContract(c13sContract, common.Hash{1}, big.NewInt(1))
	twin.State.DeployContract(c13sContract, common.Hash{1}, big.NewInt(1))
	keep := state.MaxSavedStatesCount
	c.Line(fmt.Sprintf("new %d", keep), "ok")
	fail := func(sig, detail string) { c.Fail(sig, detail, cs) }
	const nKeys = 12
	committed := map[int]map[int]string{} // height -> key -> balance string
	cur := map[int]string{}
	height := 0
	maxHeight := 0 // the highest height ever committed: version v-keep is pruned at commit v and a rollback brings nothing back
	justRolled := false
	// a read-only view of a retained height, compared with what was committed at that height
	readRetained := func(h int) {
		defer func() {
			if rec := recover(); rec != nil {
				fail("C13:readonly-view-of-retained-height-panics", fmt.Sprintf("Readonly(%d) at canonical height %d: %v", h, height, rec))
			}
		}()
		k := c13sKey(r, nKeys)
		ro, err := app.Readonly(uint64(h))
		if err != nil {
			c.Line(fmt.Sprintf("rget %d %d", h, k), "nover")
			fail("C13:retained-version-not-readable", fmt.Sprintf("Readonly(%d) at height %d: %v", h, height, err))
			return
		}
		kv := 400 + r.Intn(6)
		gv := c13sValidated(ro, kv)
		c.Line(fmt.Sprintf("rget %d %d", h, kv), gv)
		wv := "val -"
		if _, ok := committed[h][kv]; ok {
			wv = "val 1"
		}
		if gv != wv {
			fail("C13:view-validators-not-of-its-height", fmt.Sprintf("Readonly(%d).ValidatorsCache.IsValidated(identity %d) = %s, committed at that height: %s (canonical height %d)", h, kv-400, gv, wv, height))
		}
		for j := 0; j < 3; j++ {
			got := c13sBal(ro.State, k)
			c.Line(fmt.Sprintf("rget %d %d", h, k), got)
			want := "val -"
			if v, ok := committed[h][k]; ok {
				want = "val " + v
			}
			if got != want {
				fail("C13:readonly-view-not-exact", fmt.Sprintf("Readonly(%d).GetBalance(key %d) = %s, committed at that height: %s (canonical height %d)", h, k, got, want, height))
			}
			k = c13sKey(r, nKeys)
		}
	}
	for b := 0; b < cs.Blocks; b++ {
		// the validated flag of six identities (kind 4: 400+k), written through the identity state of both twins; views see it
		// through their ValidatorsCache (built for the height the view is opened on)
		if r.Intn(3) == 0 {
			k := 400 + r.Intn(6)
			ad := common.Address{0x7b, byte(k - 400)}
			if _, on := cur[k]; on && r.Intn(2) == 0 {
				app.IdentityState.SetValidated(ad, false)
				twin.IdentityState.SetValidated(ad, false)
				delete(cur, k)
				c.Line(fmt.Sprintf("cset %d -", k), "ok")
			} else {
				app.IdentityState.SetValidated(ad, true)
				twin.IdentityState.SetValidated(ad, true)
				cur[k] = "1"
				c.Line(fmt.Sprintf("cset %d 1", k), "ok")
			}
		}
		// canonical writes
		for j, n := 0, r.Intn(5); j < n; j++ {
			k := c13sKey(r, nKeys)
			if r.Intn(5) == 0 {
				c13sSet(app.State, k, 0)
				c13sSet(twin.State, k, 0)
				delete(cur, k)
				c.Line(fmt.Sprintf("cset %d -", k), "ok")
			} else {
				v := c13sNorm(k, int64(1+r.Intn(1000)))
				c13sSet(app.State, k, v)
				c13sSet(twin.State, k, v)
				cur[k] = fmt.Sprint(v)
				c.Line(fmt.Sprintf("cset %d %d", k, v), "ok")
			}
		}
		// other kinds of canonical state (not modelled line by line; covered by the twin comparison)
		if r.Intn(3) == 0 {
			seedW := r.Int63()
			c13sRichWrites(app, rand.New(rand.NewSource(seedW)), height)
			c13sRichWrites(twin, rand.New(rand.NewSource(seedW)), height)
		}
		if err := app.Commit(nil); err != nil {
			return err
		}
		if err := twin.Commit(nil); err != nil {
			return err
		}
		if app.State.Root() != twin.State.Root() || app.IdentityState.Root() != twin.IdentityState.Root() {
			fail("C13:view-work-leaked-into-canonical-commit", fmt.Sprintf("height %d: canonical root differs from a twin that received the same writes but never had views", height+1))
			return nil
		}
		height++
		if height > maxHeight {
			maxHeight = height
		}
		c.Line("commit", fmt.Sprintf("ver %d", app.State.Version()))
		snap := map[int]string{}
		for k, v := range cur {
			snap[k] = v
		}
		committed[height] = snap
		if justRolled {
			// another block now stands at a height the rolled-back chain had: views of it must show this block
			readRetained(height)
			if height > 1 {
				readRetained(height - 1)
			}
			justRolled = false
			c.Hit("readonly:after-rollback-and-new-block")
		}
		// range iteration right after the commit, then (often) an abandoned block attempt: writes that reach the working
		// tree, iteration over the dirty tree, Reset — nothing of it may stay visible to point reads or range iteration
		it0 := c13sIter(app.State)
		c.Line("citer", it0)
		if it0 != c13sWant(snap) {
			fail("C13:iteration-differs-from-committed", fmt.Sprintf("height %d: %s, committed %s", height, it0, c13sWant(snap)))
		}
		if r.Intn(2) == 0 {
			for j, n := 0, 1+r.Intn(4); j < n; j++ {
				k := c13sKey(r, nKeys)
				if r.Intn(4) == 0 {
					c13sSet(app.State, k, 0)
					c.Line(fmt.Sprintf("cset %d -", k), "ok")
				} else {
					v := c13sNorm(k, int64(7000+r.Intn(1000)))
					c13sSet(app.State, k, v)
					c.Line(fmt.Sprintf("cset %d %d", k, v), "ok")
				}
			}
			if r.Intn(3) == 0 {
				c13sRichWrites(app, rand.New(rand.NewSource(r.Int63())), height+3)
			}
			switch r.Intn(3) {
			case 0:
				app.State.Precommit(true)
				c.Hit("attempt:state-precommit")
			case 1:
				app.Precommit()
				c.Hit("attempt:appstate-precommit")
			default:
				c.Hit("attempt:cache-only")
			}
			c13sIter(app.State) // iterate the dirty tree (not compared: it legitimately shows the attempt)
			app.Reset()
			c.Line("reset", "ok")
			it1 := c13sIter(app.State)
			c.Line("citer", it1)
			if it1 != c13sWant(snap) {
				fail("C13:abandoned-writes-visible-after-reset", fmt.Sprintf("height %d: iteration after Reset %s, committed %s", height, it1, c13sWant(snap)))
			}
			k := c13sKey(r, nKeys)
			c.Line(fmt.Sprintf("cget %d", k), c13sBal(app.State, k))
			if app.State.Root() != twin.State.Root() || app.IdentityState.Root() != twin.IdentityState.Root() {
				fail("C13:abandoned-writes-left-trace", fmt.Sprintf("height %d: roots differ from the twin after Reset", height))
			}
		}
		root0, ver0, db0 := app.State.Root(), app.State.Version(), c13sDbHash(db)
		// speculative work on a view of a retained (or not retained) height
		if r.Intn(2) == 0 {
			h := height - r.Intn(6)
			if r.Intn(8) == 0 {
				h = height - keep - r.Intn(3) // beyond retention
			}
			if h >= 1 {
				view, err := app.ForCheck(uint64(h))
				if err != nil {
					c.Line(fmt.Sprintf("view %d", h), "nover")
					if _, ok := committed[h]; ok && h > maxHeight-keep {
						fail("C13:retained-version-not-loadable", fmt.Sprintf("ForCheck(%d) at height %d: %v", h, height, err))
					}
				} else {
					c.Line(fmt.Sprintf("view %d", h), "ok")
					for j := 0; j < 2; j++ {
						k := 400 + r.Intn(6)
						c.Line(fmt.Sprintf("vget %d", k), c13sValidated(view, k))
					}
					for j, n := 0, 1+r.Intn(5); j < n; j++ {
						k := c13sKey(r, nKeys)
						if r.Intn(3) == 0 {
							a := c13sBal(view.State, k)
							c.Line(fmt.Sprintf("vget %d", k), a)
						} else if r.Intn(5) == 0 {
							c13sSet(view.State, k, 0)
							c.Line(fmt.Sprintf("vset %d -", k), "ok")
						} else {
							v := c13sNorm(k, int64(5000+r.Intn(1000)))
							c13sSet(view.State, k, v)
							c.Line(fmt.Sprintf("vset %d %d", k, v), "ok")
						}
					}
					k := c13sKey(r, nKeys)
					c.Line(fmt.Sprintf("vget %d", k), c13sBal(view.State, k))
					if r.Intn(2) == 0 {
						c13sRichWrites(view, rand.New(rand.NewSource(r.Int63())), height+7)
						c.Hit("view-rich-writes")
					}
					if r.Intn(2) == 0 {
						view.Commit(nil) // the view commits on its own overlay
						c.Hit("view-committed")
					} else {
						view.Precommit()
					}
					c.Line("viter", c13sIter(view.State)) // the view's writes are in its tree now
					c.Hit("views")
				}
			}
		}
		// read-only views of retained heights
		for j := 0; j < 3; j++ {
			h := height - r.Intn(keep+3)
			if h < 1 {
				continue
			}
			k := c13sKey(r, nKeys)
			if h <= maxHeight-keep {
				// a pruned height: the property makes no claim (observed only: AppState.Readonly keeps the last requested
				// height in a cache that is not dropped when that version is pruned, so this may error, panic or read stale nodes)
				func() {
					defer func() {
						if rec := recover(); rec != nil {
							c.Hit("readonly:pruned:panic")
						}
					}()
					if ro, err := app.Readonly(uint64(h)); err != nil {
						c.Hit("readonly:pruned:error")
					} else {
						c13sBal(ro.State, k)
						c.Hit("readonly:pruned:answered")
					}
				}()
				continue
			}
			ro, err := app.Readonly(uint64(h))
			if err != nil {
				c.Line(fmt.Sprintf("rget %d %d", h, k), "nover")
				fail("C13:retained-version-not-readable", fmt.Sprintf("Readonly(%d) at height %d: %v", h, height, err))
				continue
			}
			kv := 400 + r.Intn(6)
			gv := c13sValidated(ro, kv)
			c.Line(fmt.Sprintf("rget %d %d", h, kv), gv)
			wv := "val -"
			if _, ok := committed[h][kv]; ok {
				wv = "val 1"
			}
			if gv != wv {
				fail("C13:view-validators-not-of-its-height", fmt.Sprintf("Readonly(%d).ValidatorsCache.IsValidated(identity %d) = %s, committed at that height: %s (canonical height %d)", h, kv-400, gv, wv, height))
			}
			got := c13sBal(ro.State, k)
			c.Line(fmt.Sprintf("rget %d %d", h, k), got)
			want := "val -"
			if v, ok := committed[h][k]; ok {
				want = "val " + v
			}
			if got != want {
				fail("C13:readonly-view-not-exact", fmt.Sprintf("Readonly(%d).GetBalance(key %d) = %s, committed at that height: %s (canonical height %d)", h, k, got, want, height))
			}
			c.Hit("readonly:retained")
		}
		hq := height - r.Intn(keep+4)
		if hq >= 1 {
			has := app.State.HasVersion(uint64(hq))
			a := "bool f"
			if has {
				a = "bool t"
			}
			c.Line(fmt.Sprintf("has %d", hq), a)
		}
		// canonical store must be exactly as it was after the commit
		if app.State.Root() != root0 || app.State.Version() != ver0 {
			fail("C13:speculative-work-changed-canonical-state", fmt.Sprintf("height %d: root/version changed by work on views", height))
		}
		if d := c13sDbHash(db); d != db0 {
			fail("C13:speculative-work-wrote-database", fmt.Sprintf("height %d: database content changed by work on views (%s -> %s)", height, db0, d))
		}
		k := c13sKey(r, nKeys)
		c.Line(fmt.Sprintf("cget %d", k), c13sBal(app.State, k))
		// a rollback of committed blocks (AppState.ResetTo, as a fork switch does): the versions above the target are gone and
		// the next blocks are other blocks at the same heights; reads of the old head before and of the new head after it
		// (whatever is cached per height must not outlive the rollback)
		if r.Intn(5) == 0 && height >= 4 {
			d := 1
			if r.Intn(3) == 0 {
				d = 2 + r.Intn(2)
			}
			readRetained(height)
			if err := app.ResetTo(uint64(height - d)); err != nil {
				fail("C13:rollback-to-retained-version-failed", fmt.Sprintf("ResetTo(%d) at height %d: %v", height-d, height, err))
				return nil
			}
			if err := twin.ResetTo(uint64(height - d)); err != nil {
				return err
			}
			c.Line(fmt.Sprintf("rollto %d", height-d), "ok")
			for h := height - d + 1; h <= height; h++ {
				delete(committed, h)
			}
			height -= d
			cur = map[int]string{}
			for kk, v := range committed[height] {
				cur[kk] = v
			}
			readRetained(height)
			c.Line("citer", c13sIter(app.State))
			justRolled = true
			c.Hit(fmt.Sprintf("rollback:%d", d))
		}
	}
	return nil
}

func init() {
	hx.Register("C13state", func(c *hx.Ctx) error {
		if c.Replay != "" {
			b, err := os.ReadFile(c.Replay)
			if err != nil {
				return err
			}
			var wrap struct {
				Replay c13sCase `json:"replay"`
			}
			if err := json.Unmarshal(b, &wrap); err != nil {
				return err
			}
			c.Rng.Seed(wrap.Replay.Seed)
			c.Rep.Evaluations = 1
			return c13sRun(c, wrap.Replay)
		}
		c.Rep.Rule = "real AppState over a MemDB: histories of canonical balance writes + commits (more than MaxSavedStatesCount of them), speculative ForCheck views of retained / pruned heights that are written, precommitted or committed on their own, Readonly views of random heights; distinct = history seeds; non-trivial = every history has > retention commits, views and read-only reads"
		n := c.Scale(6, 200)
		for i := 0; i < n; i++ {
			cs := c13sCase{Seed: c.Seed*1000 + int64(i), Blocks: 130}
			c.Rng.Seed(cs.Seed)
			if err := c13sRun(c, cs); err != nil {
				return err
			}
			c.Rep.Evaluations++
			c.Rep.Distinct++
			c.Sample(cs)
		}
		return nil
	})
}
