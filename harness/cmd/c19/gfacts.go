package main

// (G) generated facts for C19, computed at run time from the source files the harness binary was compiled
// from (the directory of rpc.NewServer as recorded in the binary's line table, i.e. $VERIF_REPO/rpc), and
// emitted as `gfact` op lines; the Lean driver evaluates `gateFirst` / `callGraphOk` on them
// (theorem `gate_before_every_branch`).  Anything the extractor cannot classify is emitted as such and
// fails the predicate.

import (
	"bytes"
	"fmt"
	"go/ast"
	"go/parser"
	"go/printer"
	"go/token"
	"os"
	"path/filepath"
	"reflect"
	"runtime"
	"sort"
	"strings"

	"github.com/idena-network/idena-go/rpc"
)

func c19rpcDir() string {
	f := runtime.FuncForPC(reflect.ValueOf(rpc.NewServer).Pointer())
	if f != nil {
		if file, _ := f.FileLine(f.Entry()); file != "" {
			return filepath.Dir(file)
		}
	}
	repo := os.Getenv("VERIF_REPO")
	if repo == "" {
		repo = "/repo"
	}
	return filepath.Join(repo, "rpc")
}

func exprText(fset *token.FileSet, n ast.Node) string {
	var b bytes.Buffer
	printer.Fprint(&b, fset, n)
	return strings.Join(strings.Fields(b.String()), " ")
}

type c19gline struct{ op, want string }

// c19gfacts returns the op lines (with the answer the implementation side claims: always `ok`, and the
// all-ok verdict for `gfact-check`)
func c19gfacts() ([]c19gline, error) {
	dir := c19rpcDir()
	fset := token.NewFileSet()
	pkgs, err := parser.ParseDir(fset, dir, func(fi os.FileInfo) bool { return !strings.HasSuffix(fi.Name(), "_test.go") }, 0)
	if err != nil {
		return nil, err
	}
	pkg := pkgs["rpc"]
	if pkg == nil {
		return nil, fmt.Errorf("package rpc not found in %s", dir)
	}
	var lines []c19gline
	emit := func(f string, a ...interface{}) { lines = append(lines, c19gline{fmt.Sprintf(f, a...), "ok"}) }
	funcs := map[string]*ast.FuncDecl{}
	fileOf := map[*ast.FuncDecl]string{}
	var names []string
	for fname, f := range pkg.Files {
		for _, d := range f.Decls {
			if fd, ok := d.(*ast.FuncDecl); ok && fd.Body != nil {
				funcs[fd.Name.Name] = fd
				fileOf[fd] = filepath.Base(fname)
				names = append(names, fd.Name.Name)
			}
		}
	}
	sort.Strings(names)

	// --- statement list of the readRequest loop body
	rr := funcs["readRequest"]
	if rr == nil || rr.Recv == nil || len(rr.Recv.List) != 1 || len(rr.Recv.List[0].Names) != 1 {
		emit("gfact stmt unclassified")
		emit("gfact loop no-readRequest")
	} else {
		recv := rr.Recv.List[0].Names[0].Name
		loopFact := "other"
		var loop *ast.RangeStmt
		hdr := ""
		okShape := true
		for i, st := range rr.Body.List {
			switch s := st.(type) {
			case *ast.AssignStmt:
				txt := exprText(fset, s)
				if i == 0 && len(s.Lhs) == 3 && strings.HasSuffix(txt, ":= codec.ReadRequestHeaders()") {
					if id, ok := s.Lhs[0].(*ast.Ident); ok {
						hdr = id.Name
					}
				} else if !(strings.HasPrefix(txt, "requests := make([]*serverRequest, len("+hdr+"))")) {
					okShape = false
				}
			case *ast.IfStmt:
				// only `if err != nil { return nil, batch, err }`
				if exprText(fset, s.Cond) != "err != nil" || len(s.Body.List) != 1 {
					okShape = false
				} else if _, isRet := s.Body.List[0].(*ast.ReturnStmt); !isRet {
					okShape = false
				}
			case *ast.RangeStmt:
				if loop != nil {
					okShape = false
				}
				loop = s
			case *ast.ReturnStmt:
			default:
				okShape = false
			}
		}
		val := ""
		if loop != nil && hdr != "" && okShape {
			if x, ok := loop.X.(*ast.Ident); ok && x.Name == hdr {
				if v, ok := loop.Value.(*ast.Ident); ok && loop.Key != nil {
					val = v.Name
					loopFact = "range-all-headers"
				}
			}
		}
		emit("gfact loop %s", loopFact)
		if loop == nil {
			emit("gfact stmt unclassified")
		} else {
			if val == "" {
				if v, ok := loop.Value.(*ast.Ident); ok {
					val = v.Name
				}
			}
			gateCond := fmt.Sprintf(`%s.apiKey != "" && %s.key != %s.apiKey`, recv, val, recv)
			n := len(loop.Body.List)
			for i, st := range loop.Body.List {
				kind := "unclassified"
				switch s := st.(type) {
				case *ast.DeclStmt:
					if !containsCall(s) {
						kind = "decl"
					}
				case *ast.IfStmt:
					cond := exprText(fset, s.Cond)
					body := s.Body.List
					endsContinue := false
					if len(body) > 0 {
						if b, ok := body[len(body)-1].(*ast.BranchStmt); ok && b.Tok == token.CONTINUE && b.Label == nil {
							endsContinue = true
						}
					}
					simple := s.Init == nil && s.Else == nil && len(body) == 2 && endsContinue
					first := ""
					if len(body) > 0 {
						first = exprText(fset, body[0])
					}
					switch {
					case cond == val+".err != nil":
						if simple && strings.HasPrefix(first, "requests[i] = &serverRequest{") && strings.Contains(first, "err: "+val+".err") {
							kind = "parseErr"
						}
					case strings.Contains(cond, "apiKey") || strings.Contains(cond, ".key"):
						if cond == gateCond && simple && strings.HasPrefix(first, "requests[i] = &serverRequest{") &&
							strings.Contains(first, "err: &invalidApiKeyError{}") && !strings.Contains(first, "callb") {
							kind = "gate"
						}
					default:
						kind = "branch"
					}
				case *ast.AssignStmt:
					if i == n-1 && strings.Contains(exprText(fset, s), "err: &methodNotFoundError{") {
						kind = "tail"
					}
				}
				emit("gfact stmt %s", kind)
			}
		}
	}

	// --- first statement of handle
	hf := "other"
	if h := funcs["handle"]; h != nil && len(h.Body.List) > 0 {
		if s, ok := h.Body.List[0].(*ast.IfStmt); ok && s.Init == nil && exprText(fset, s.Cond) == "req.err != nil" && len(s.Body.List) == 1 {
			if r, ok := s.Body.List[0].(*ast.ReturnStmt); ok && len(r.Results) == 2 &&
				strings.HasPrefix(exprText(fset, r.Results[0]), "codec.CreateErrorResponse(") && exprText(fset, r.Results[1]) == "nil" {
				hf = "err-return"
			}
		}
	}
	emit("gfact handle-first %s", hf)

	// --- call sites on the path codec -> service method (client.go is the client side and is skipped)
	watched := map[string]bool{"handle": true, "createSubscription": true, "exec": true, "execBatch": true,
		"readRequest": true, "serveRequest": true, "unsubscribe": true}
	seen := map[string]bool{}
	for _, name := range names {
		fd := funcs[name]
		if fileOf[fd] == "client.go" {
			continue
		}
		ast.Inspect(fd.Body, func(n ast.Node) bool {
			ce, ok := n.(*ast.CallExpr)
			if !ok {
				return true
			}
			callee := ""
			switch f := ce.Fun.(type) {
			case *ast.SelectorExpr:
				switch {
				case f.Sel.Name == "Call" || f.Sel.Name == "CallSlice":
					callee = "Func.Call"
				case watched[f.Sel.Name]:
					callee = f.Sel.Name
				}
			case *ast.Ident:
				if watched[f.Name] {
					callee = f.Name
				}
			}
			if callee != "" && !seen[callee+" "+name] {
				seen[callee+" "+name] = true
				emit("gfact site %s %s", callee, name)
			}
			return true
		})
	}
	if err := c19keyflow(filepath.Dir(dir), emit); err != nil {
		return nil, err
	}
	initialOrder, err := c19ctorfacts(filepath.Dir(dir), emit)
	if err != nil {
		return nil, err
	}
	lines = append(lines, c19gline{"gfact-check", "gate-first=ok callgraph=ok handle-first=ok loop=ok keyflow=ok ctor=ok initial-endpoint=after-key-resolution"})
	_ = initialOrder // the extracted order travels in the `gfact initial-order` line; the driver echoes it
	return lines, nil
}

// c19ctorfacts: every construction path resolves the key before an RPC server of the node can exist.
// Facts over package node (non-test files):
//   gfact nodector <func> <yes|no>       a function that builds a Node value (composite literal); yes = it calls
//                                         SetApiKey before that point (a Node cannot exist with an unresolved key)
//   gfact rpcstart <callee> <encl> <recv|norecv>   call sites of startRPC/startHTTP; recv = inside a method of *Node
//                                         (the full RPC endpoint is only opened from a constructed Node)
//   gfact setapikey <pkg>.<func>          every non-test call site of SetApiKey in the repository
//   gfact initial-order <before|after|none>   where the constructor calls startInitialRPC relative to SetApiKey
//                                         (must be after: finding F34; part of `ctorOk`, echoed by the driver)
func c19ctorfacts(repo string, emit func(string, ...interface{})) (string, error) {
	fset := token.NewFileSet()
	dir := filepath.Join(repo, "node")
	pkgs, err := parser.ParseDir(fset, dir, func(fi os.FileInfo) bool { return !strings.HasSuffix(fi.Name(), "_test.go") }, 0)
	if err != nil {
		return "", err
	}
	pkg := pkgs["node"]
	if pkg == nil {
		return "", fmt.Errorf("package node not found in %s", dir)
	}
	var fnames []string
	for n := range pkg.Files {
		fnames = append(fnames, n)
	}
	sort.Strings(fnames)
	order := "none"
	isNodeRecv := func(fd *ast.FuncDecl) bool {
		if fd.Recv == nil || len(fd.Recv.List) != 1 {
			return false
		}
		t := fd.Recv.List[0].Type
		if st, ok := t.(*ast.StarExpr); ok {
			t = st.X
		}
		id, ok := t.(*ast.Ident)
		return ok && id.Name == "Node"
	}
	for _, fname := range fnames {
		for _, d := range pkg.Files[fname].Decls {
			fd, ok := d.(*ast.FuncDecl)
			if !ok || fd.Body == nil {
				continue
			}
			var litPos, setPos, initPos token.Pos
			ast.Inspect(fd.Body, func(n ast.Node) bool {
				switch x := n.(type) {
				case *ast.CompositeLit:
					if id, ok := x.Type.(*ast.Ident); ok && id.Name == "Node" && litPos == token.NoPos {
						litPos = x.Pos()
					}
				case *ast.CallExpr:
					name := ""
					switch f := x.Fun.(type) {
					case *ast.SelectorExpr:
						name = f.Sel.Name
					case *ast.Ident:
						name = f.Name
					}
					switch name {
					case "SetApiKey":
						if setPos == token.NoPos {
							setPos = x.Pos()
						}
					case "startInitialRPC", "startInitialHTTP":
						if initPos == token.NoPos {
							initPos = x.Pos()
						}
					case "startRPC", "startHTTP":
						r := "norecv"
						if isNodeRecv(fd) {
							r = "recv"
						}
						emit("gfact rpcstart %s %s %s", name, fd.Name.Name, r)
					}
				}
				return true
			})
			if litPos != token.NoPos {
				ok := "no"
				if setPos != token.NoPos && setPos < litPos {
					ok = "yes"
				}
				emit("gfact nodector %s %s", fd.Name.Name, ok)
				if initPos != token.NoPos {
					switch {
					case setPos == token.NoPos:
						order = "none"
					case initPos < setPos:
						order = "before"
					default:
						order = "after"
					}
				}
			}
		}
	}
	emit("gfact initial-order %s", order)
	return order, nil
}

// c19keyflow: how the configured key reaches rpc.NewServer.  Every non-test call of NewServer in the
// repository is listed with the kind of its argument (a parameter of the enclosing function, the config
// field, the empty literal, other) and the number of non-test call sites of the enclosing function; for
// parameters the argument is traced through the callers up to the config field `….RPC.APIKey`.
func c19keyflow(repo string, emit func(string, ...interface{})) error {
	fset := token.NewFileSet()
	type site struct {
		callee string
		encl   *ast.FuncDecl
		call   *ast.CallExpr
	}
	var sites []site
	err := filepath.Walk(repo, func(p string, fi os.FileInfo, err error) error {
		if err != nil {
			return nil
		}
		if fi.IsDir() {
			n := fi.Name()
			if p != repo && (strings.HasPrefix(n, ".") || n == "node_modules" || strings.HasPrefix(n, "testdata") || n == "datadir" || n == "vendor") {
				return filepath.SkipDir
			}
			return nil
		}
		if !strings.HasSuffix(p, ".go") || strings.HasSuffix(p, "_test.go") {
			return nil
		}
		f, err := parser.ParseFile(fset, p, nil, 0)
		if err != nil {
			return nil // a file that does not parse cannot be compiled in either
		}
		for _, d := range f.Decls {
			fd, ok := d.(*ast.FuncDecl)
			if !ok || fd.Body == nil {
				continue
			}
			ast.Inspect(fd.Body, func(n ast.Node) bool {
				ce, ok := n.(*ast.CallExpr)
				if !ok {
					return true
				}
				switch fn := ce.Fun.(type) {
				case *ast.Ident:
					sites = append(sites, site{fn.Name, fd, ce})
				case *ast.SelectorExpr:
					sites = append(sites, site{fn.Sel.Name, fd, ce})
				}
				return true
			})
		}
		return nil
	})
	if err != nil {
		return err
	}
	paramIndex := func(fd *ast.FuncDecl, name string) int {
		i := 0
		for _, fl := range fd.Type.Params.List {
			for _, n := range fl.Names {
				if n.Name == name {
					return i
				}
				i++
			}
			if len(fl.Names) == 0 {
				i++
			}
		}
		return -1
	}
	classify := func(encl *ast.FuncDecl, arg ast.Expr) (string, int) {
		switch a := arg.(type) {
		case *ast.BasicLit:
			if a.Value == `""` {
				return "empty", -1
			}
		case *ast.Ident:
			if q := paramIndex(encl, a.Name); q >= 0 {
				return "param", q
			}
		case *ast.SelectorExpr:
			if strings.HasSuffix(exprText(fset, a), ".RPC.APIKey") {
				return "cfgkey", -1
			}
		}
		return "other", -1
	}
	callers := func(name string) (out []site) {
		for _, s := range sites {
			if s.callee == name {
				out = append(out, s)
			}
		}
		return
	}
	visited := map[string]bool{}
	var trace func(fn string, p int, depth int)
	trace = func(fn string, p int, depth int) {
		key := fmt.Sprintf("%s/%d", fn, p)
		if visited[key] || depth > 6 {
			return
		}
		visited[key] = true
		cs := callers(fn)
		if len(cs) == 0 {
			emit("gfact keypass - %s nocaller", fn)
		}
		for _, s := range cs {
			if p >= len(s.call.Args) {
				emit("gfact keypass %s %s other", s.encl.Name.Name, fn)
				continue
			}
			kind, q := classify(s.encl, s.call.Args[p])
			emit("gfact keypass %s %s %s", s.encl.Name.Name, fn, kind)
			if kind == "param" {
				trace(s.encl.Name.Name, q, depth+1)
			}
		}
	}
	for _, s := range callers("NewServer") {
		// rpc.NewServer (selector on package rpc) or NewServer inside package rpc
		if sel, ok := s.call.Fun.(*ast.SelectorExpr); ok {
			if x, ok := sel.X.(*ast.Ident); !ok || x.Name != "rpc" {
				continue
			}
		}
		kind, q := "other", -1
		if len(s.call.Args) == 1 {
			kind, q = classify(s.encl, s.call.Args[0])
		}
		emit("gfact newserver %s %s %d", s.encl.Name.Name, kind, len(callers(s.encl.Name.Name)))
		if kind == "param" {
			trace(s.encl.Name.Name, q, 0)
		}
	}
	return nil
}

func containsCall(n ast.Node) bool {
	found := false
	ast.Inspect(n, func(x ast.Node) bool {
		if _, ok := x.(*ast.CallExpr); ok {
			found = true
		}
		return !found
	})
	return found
}
