package main

import (
	"encoding/json"
	"fmt"
	"os"
	"sort"
	"strings"

	"verifharness/internal/hx"
)

// c19shrink removes messages and batch elements while the same failure signature persists
func c19shrink(cs c19case, sig string) c19case {
	budget := 150
	fails := func(c c19case) bool {
		if budget <= 0 {
			return false
		}
		budget--
		_, fs, err := c19run(c)
		if err != nil {
			return false
		}
		for _, f := range fs {
			if f.Sig == sig {
				return true
			}
		}
		return false
	}
	for changed := true; changed && budget > 0; {
		changed = false
		for i := 0; i < len(cs.Msgs); i++ {
			t := c19case{Transport: cs.Transport, ApiKey: cs.ApiKey, Msgs: append(append([]c19msg{}, cs.Msgs[:i]...), cs.Msgs[i+1:]...)}
			if fails(t) {
				cs, changed = t, true
				i--
			}
		}
		for i := range cs.Msgs {
			if cs.Msgs[i].Kind != "batch" {
				continue
			}
			for j := 0; j < len(cs.Msgs[i].Elems); j++ {
				t := c19case{Transport: cs.Transport, ApiKey: cs.ApiKey, Msgs: append([]c19msg{}, cs.Msgs...)}
				m := t.Msgs[i]
				m.Elems = append(append([]c19elem{}, m.Elems[:j]...), m.Elems[j+1:]...)
				t.Msgs[i] = m
				if fails(t) {
					cs, changed = t, true
					j--
				}
			}
		}
	}
	return cs
}

var c19sigCount = map[string]int{}

func c19emit(c *hx.Ctx, cs c19case, shrink bool) error {
	obs, fails, err := c19run(cs)
	if err != nil {
		return err
	}
	for i, o := range obs {
		c.Line(o.Op, o.Ans)
		if i == 0 {
			continue
		}
		m := cs.Msgs[i-1]
		c.Hit("transport:" + cs.Transport)
		c.Hit("msg:" + m.Kind)
		if cs.ApiKey == "" {
			c.Hit("server:no-key-configured")
		}
		c.Hit("reply:" + o.kind)
		for j, e := range m.Elems {
			cls := "unkeyed"
			switch {
			case cs.ApiKey == "":
				cls = "nokeycfg"
			case carries(e, cs.ApiKey):
				cls = "keyed"
			case len(e.Keys) == 0:
				cls = "absent"
			case len(e.Keys) > 1:
				cls = "dup-unkeyed"
			case e.Keys[0].K != "s":
				cls = "key-" + e.Keys[0].K
			}
			if len(e.Keys) > 1 && cls == "keyed" {
				cls = "dup-keyed"
			}
			kind := "call"
			if e.Method != nil {
				switch {
				case strings.HasSuffix(*e.Method, "_subscribe"):
					kind = "subscribe"
				case strings.HasSuffix(*e.Method, "_unsubscribe"):
					kind = "unsubscribe"
				}
			}
			c.Hit("elem:" + cls + ":" + kind)
			if m.Kind == "batch" && len(m.Elems) > 1 && cs.ApiKey != "" {
				pos := "mid"
				if j == 0 {
					pos = "first"
				} else if j == len(m.Elems)-1 {
					pos = "last"
				}
				c.Hit("batchpos:" + pos + ":" + map[bool]string{true: "keyed", false: "unkeyed"}[carries(e, cs.ApiKey)])
			}
			if j < len(o.toks) && (o.kind == "one" || o.kind == "many") {
				t := o.toks[j]
				if strings.HasPrefix(t, "sub") || strings.HasPrefix(t, "unsub") {
					t = strings.TrimRight(t, "0123456789")
				}
				c.Hit("outcome:" + t)
			}
		}
	}
	for _, f := range fails {
		// one shrunk witness per signature and run; the rest is only counted
		c19sigCount[f.Sig]++
		if c19sigCount[f.Sig] > 1 {
			continue
		}
		small := cs
		detail := f.Detail
		if shrink {
			small = c19shrink(cs, f.Sig)
			if _, fs, err := c19run(small); err == nil {
				for _, g := range fs {
					if g.Sig == f.Sig {
						detail = g.Detail
						break
					}
				}
			}
		}
		c.Fail(f.Sig, detail, small)
	}
	return nil
}

func c19nontrivial(cs c19case) bool {
	// a configured key and at least one element that does not carry it, in a message that reaches the gate
	if cs.ApiKey == "" {
		return false
	}
	for _, m := range cs.Msgs {
		for _, e := range m.Elems {
			if !carries(e, cs.ApiKey) {
				return true
			}
		}
	}
	return false
}

func init() {
	hx.Register("C19", func(c *hx.Ctx) error {
		if c.Replay != "" {
			b, err := os.ReadFile(c.Replay)
			if err != nil {
				return err
			}
			var probe struct {
				Replay map[string]json.RawMessage `json:"replay"`
			}
			if err := json.Unmarshal(b, &probe); err != nil {
				return err
			}
			c.Rep.Evaluations = 1
			if _, isNode := probe.Replay["entry"]; isNode { // a node construction case (nodekey.go)
				var wrap struct {
					Replay c19nodeCase `json:"replay"`
				}
				if err := json.Unmarshal(b, &wrap); err != nil {
					return err
				}
				c.Line("new http x x70:x61/0/-:", "ok")
				op, ans, err := c19nodeCaseRun(c, wrap.Replay)
				if err != nil {
					return err
				}
				c.Line(op, ans)
				return nil
			}
			if _, isSetKey := probe.Replay["flag"]; isSetKey { // a SetApiKey case (setkey.go)
				return c19setkey(c)
			}
			var wrap struct {
				Replay c19case `json:"replay"`
			}
			if err := json.Unmarshal(b, &wrap); err != nil {
				return err
			}
			return c19emit(c, wrap.Replay, false)
		}
		c.Rep.Rule = "real rpc.Server with probe services (call, ctx call, failing call, 2-arg call, subscriptions) over HTTP (rpc.StartHTTPEndpoint, as node.startHTTP), " +
			"WebSocket handler, net.Pipe codec (inproc) and unix-socket ServeListener (ipc); cases = 1..6 messages (single / batch of 0..8 / garbage) of abstract requests " +
			"rendered to JSON with key member name variants (case, \\u212a Kelvin sign, escapes), duplicates, null/non-string keys, wrong-key families (empty, prefix, suffix, extension, " +
			"case swap, padding, NUL, quoted), near-miss member names carrying the key, key offered in URL/headers, odd ids/params/method names, pub-sub variants with @n references to live " +
			"subscriptions; plus every batch of length <= L over a 13-shape alphabet on each transport; (G) facts extracted from rpc/*.go at run time. " +
			"distinct = distinct (transport, key, message texts); non-trivial = key configured and some element does not carry it"
		// how the node gets its key
		if err := c19setkey(c); err != nil {
			return fmt.Errorf("setkey: %v", err)
		}
		// key resolution on every construction path of a node (real constructors + the node's own startRPC)
		if err := c19nodekeys(c); err != nil {
			return fmt.Errorf("nodekey: %v", err)
		}
		// (G) facts
		gl, err := c19gfacts()
		if err != nil {
			return fmt.Errorf("gfacts: %v", err)
		}
		c.Line("new http x x70:x61/0/-:", "ok") // a `new` line so that ./check can cut the fact block out as a case
		for _, l := range gl {
			c.Line(l.op, l.want)
		}
		count := func(cs c19case) {
			c.Rep.Evaluations++
			if c19nontrivial(cs) {
				var sb strings.Builder
				sb.WriteString(cs.Transport + "|" + cs.ApiKey)
				for _, m := range cs.Msgs {
					sb.WriteString("|" + m.text())
				}
				if c.Distinct(sb.String()) {
					c.Rep.Distinct++
				}
			}
		}
		// systematic batches
		var sysErr error
		sys := func(transport string, maxLen int) {
			c19systematic(c.Rng, transport, maxLen, func(cs c19case) {
				if sysErr != nil {
					return
				}
				sysErr = c19emit(c, cs, true)
				count(cs)
				c.Hit("gen:systematic")
			})
		}
		if c.Tier == "thorough" {
			sys("http", 3)
			sys("ws", 3)
			sys("pipe", 3)
			sys("ipc", 3)
		} else {
			sys("http", 3)
			sys("ws", 2)
			sys("pipe", 2)
			sys("ipc", 2)
		}
		if sysErr != nil {
			return sysErr
		}
		// random cases
		n := c.Scale(5000, 150000)
		for i := 0; i < n; i++ {
			cs := c19genCase(c.Rng, 6)
			if err := c19emit(c, cs, true); err != nil {
				return err
			}
			count(cs)
			c.Hit("gen:random")
			if i < 2 {
				c.Sample(cs)
			}
		}
		for sig, n := range c19sigCount {
			c.Rep.Notes = append(c.Rep.Notes, fmt.Sprintf("%s: %d failing messages in this run", sig, n))
		}
		sort.Strings(c.Rep.Notes)
		return nil
	})
}
