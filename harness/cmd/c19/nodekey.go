package main

// Key resolution per node construction path.  For every entry point that builds a node config
//   cli    : config.MakeConfig (main.go) + node.NewNode
//   mobile : config.MakeMobileConfig (node.StartMobileNode) + node.NewNode
//   struct : a hand-built config.Config + node.NewNodeWithInjections
// and every combination of configured key (flag / JSON / field) and <datadir>/api.key content, the REAL
// constructor is run as far as it goes in the sandbox (it stops at the stubbed ipfs constructor, which comes
// after the key resolution), then the node's own startRPC is run on that config (shim VerifC19StartRPC) and
// asked over HTTP without key, with a wrong key and with the key the node is supposed to run with.
// The constructor is given a free local port, so the *initial* endpoint it opens first thing
// (startInitialRPC) is observed too, with a key-less bcn_syncing: it must be gated by the resolved key as well
// (finding F34: before fix 1048d0bd it was opened before the key resolution).
//
// Lean predicts every field from `setApiKey` + `serve` (driver op `nodekey`).
// Oracle: after construction the key is non-empty, equals the configured value / the trimmed api.key content /
// what was written to api.key, and the endpoint of startRPC refuses key-less and wrong-key requests with -32800.

import (
	"bytes"
	"encoding/json"
	"flag"
	"fmt"
	"io"
	"net"
	"net/http"
	"os"
	"path/filepath"
	"strings"
	"time"

	"github.com/idena-network/idena-go/common/eventbus"
	"github.com/idena-network/idena-go/config"
	"github.com/idena-network/idena-go/node"
	"github.com/idena-network/idena-go/rpc"
	"github.com/idena-network/idena-go/stats/collector"
	"github.com/urfave/cli"

	"verifharness/internal/hx"
)

// finding F34 (fixed by 1048d0bd): an initial endpoint that serves a key-less request is an oracle failure
const c19InitialEndpointIsViolation = true

type c19nodeCase struct {
	Entry string  `json:"entry"`
	Flag  string  `json:"configuredKey"`
	File  *string `json:"apiKeyFile"`
	// api.key location unusable: "dir" a directory sits at <datadir>/api.key, "symlink" a dangling link whose
	// target directory does not exist, "parentfile" the data directory lies below a regular file
	Fault string `json:"fault,omitempty"`
}

// c19prepDataDir creates the data directory with the api.key content or the fault of the case
func c19prepDataDir(nc c19nodeCase, base, dataDir string) error {
	if nc.Fault == "parentfile" {
		return nil // the caller put dataDir below the regular file base/blocker
	}
	if err := os.MkdirAll(dataDir, 0755); err != nil {
		return err
	}
	switch nc.Fault {
	case "dir":
		return os.MkdirAll(filepath.Join(dataDir, "api.key"), 0700)
	case "symlink":
		return os.Symlink(filepath.Join(base, "missing", "sub", "key"), filepath.Join(dataDir, "api.key"))
	}
	if nc.File != nil { // api.key exists before the config is made, as on a node that ran before
		return os.WriteFile(filepath.Join(dataDir, "api.key"), []byte(*nc.File), 0600)
	}
	return nil
}

func freePort() (int, error) {
	l, err := net.Listen("tcp", "127.0.0.1:0")
	if err != nil {
		return 0, err
	}
	p := l.Addr().(*net.TCPAddr).Port
	l.Close()
	return p, nil
}

func c19post(url, body string) string {
	client := &http.Client{Timeout: c19timeout}
	req, err := http.NewRequest("POST", url, bytes.NewBufferString(body))
	if err != nil {
		return "reqerr"
	}
	req.Header.Set("Content-Type", "application/json")
	req.Close = true
	resp, err := client.Do(req)
	if err != nil {
		return "unreachable"
	}
	defer resp.Body.Close()
	b, _ := io.ReadAll(resp.Body)
	var r struct {
		Error  *struct{ Code int } `json:"error"`
		Result json.RawMessage     `json:"result"`
	}
	if err := json.Unmarshal(b, &r); err != nil {
		return "unparsable"
	}
	if r.Error != nil {
		return fmt.Sprintf("e%d", r.Error.Code)
	}
	return "ok"
}

func c19buildConfig(nc c19nodeCase, base string, port int) (cfg *config.Config, dataDir string, err error) {
	root := base
	if nc.Fault == "parentfile" {
		root = filepath.Join(base, "blocker")
		if err := os.WriteFile(root, []byte("a regular file"), 0600); err != nil {
			return nil, "", err
		}
	}
	switch nc.Entry {
	case "cli":
		dataDir = filepath.Join(root, "clidata")
		set := flag.NewFlagSet("verif", flag.ContinueOnError)
		set.String(config.DataDirFlag.Name, "", "")
		set.String(config.RpcHostFlag.Name, "", "")
		set.Int(config.RpcPortFlag.Name, 0, "")
		set.String(config.ApiKeyFlag.Name, "", "")
		args := []string{"--" + config.DataDirFlag.Name, dataDir, "--" + config.RpcHostFlag.Name, "127.0.0.1",
			"--" + config.RpcPortFlag.Name, fmt.Sprint(port)}
		if nc.Flag != "" {
			args = append(args, "--"+config.ApiKeyFlag.Name, nc.Flag)
		}
		if err := set.Parse(args); err != nil {
			return nil, "", err
		}
		if err := c19prepDataDir(nc, base, dataDir); err != nil {
			return nil, "", err
		}
		cfg, err = config.MakeConfig(cli.NewContext(cli.NewApp(), set, nil), func(*config.Config) {})
		return cfg, dataDir, err
	case "mobile":
		dataDir = filepath.Join(root, config.DefaultDataDir)
		rpcCfg := map[string]interface{}{"HTTPHost": "127.0.0.1", "HTTPPort": port}
		if nc.Flag != "" {
			rpcCfg["APIKey"] = nc.Flag
		}
		js, _ := json.Marshal(map[string]interface{}{"RPC": rpcCfg})
		if err := c19prepDataDir(nc, base, dataDir); err != nil {
			return nil, "", err
		}
		cfg, err = config.MakeMobileConfig(root, string(js))
		return cfg, dataDir, err
	case "struct":
		dataDir = filepath.Join(root, "structdata")
		if err := c19prepDataDir(nc, base, dataDir); err != nil {
			return nil, "", err
		}
		r := rpc.GetDefaultRPCConfig("127.0.0.1", port)
		r.APIKey = nc.Flag
		return &config.Config{DataDir: dataDir, Network: 0x2, RPC: r, IpfsConf: config.GetDefaultIpfsConfig()}, dataDir, nil
	}
	return nil, "", fmt.Errorf("unknown entry %q", nc.Entry)
}

func c19nodeCaseRun(c *hx.Ctx, nc c19nodeCase) (op, ans string, err error) {
	ftok := "-"
	if nc.File != nil {
		ftok = "x" + hexs(*nc.File)
	}
	op = fmt.Sprintf("nodekey %s x%s %s", nc.Entry, hexs(nc.Flag), ftok)
	if nc.Fault != "" {
		op = fmt.Sprintf("nodestart %s x%s %s", nc.Entry, hexs(nc.Flag), nc.Fault)
	}
	base, err := os.MkdirTemp("", "c19node")
	if err != nil {
		return op, "", err
	}
	defer os.RemoveAll(base)
	port, err := freePort()
	if err != nil {
		return op, "", err
	}
	cfg, dataDir, err := c19buildConfig(nc, base, port)
	if err != nil {
		return op, "config-error", nil
	}
	// the real constructor, as far as it goes here
	ctorErr := func() (e error) {
		defer func() {
			if r := recover(); r != nil {
				e = fmt.Errorf("panic: %v", r)
			}
		}()
		if nc.Entry == "struct" {
			_, e = node.NewNodeWithInjections(cfg, eventbus.New(), collector.NewStatsCollector(), "verif")
		} else {
			_, e = node.NewNode(cfg, "verif")
		}
		return e
	}()
	if ctorErr == nil || !strings.Contains(ctorErr.Error(), "stub") {
		if nc.Fault != "" && ctorErr != nil {
			// the constructor gave up before the ipfs stub: the node refuses to start (no endpoint is left open:
			// the key resolution comes before startInitialRPC)
			if got := c19post(fmt.Sprintf("http://127.0.0.1:%d", port), `{"jsonrpc":"2.0","id":1,"method":"bcn_syncing","params":[]}`); got != "unreachable" {
				c.Fail("C19:node-runs-ungated-after-key-persist-failure:"+nc.Entry, fmt.Sprintf("entry point %s, configured key %q, api.key location fault %s: the constructor failed (%v) but left an endpoint that answers a key-less bcn_syncing with %s", nc.Entry, nc.Flag, nc.Fault, ctorErr, got), nc)
				return op, "start=refused-but-endpoint-open:" + got, nil
			}
			return op, "start=refused", nil
		}
		// the sandbox constructor is expected to stop exactly at the stubbed ipfs constructor
		return op, fmt.Sprintf("ctor-stopped-elsewhere:%v", ctorErr), nil
	}
	key := cfg.RPC.APIKey
	// the initial endpoint the constructor opened on `port` is still there (nobody holds a handle to stop it)
	initial := c19post(fmt.Sprintf("http://127.0.0.1:%d", port), `{"jsonrpc":"2.0","id":1,"method":"bcn_syncing","params":[]}`)
	// expected key by the statement of the mechanism (independent of the Lean model)
	after, ferr := os.ReadFile(filepath.Join(dataDir, "api.key"))
	want, kind := "", ""
	switch {
	case nc.Flag != "":
		want, kind = nc.Flag, "configured"
	case nc.File != nil && strings.TrimSpace(*nc.File) != "":
		want, kind = strings.TrimSpace(*nc.File), "file"
	default:
		kind = "random"
		if ferr == nil {
			want = string(after)
		}
	}
	ktok := "x" + hexs(key)
	switch {
	case key == "":
		ktok = "empty"
	case kind == "random" && c19hex32.MatchString(key):
		ktok = "random"
	}
	atok := "-"
	if ferr == nil {
		atok = "x" + hexs(string(after))
		if string(after) == key {
			atok = "=key"
		}
	}
	fail := func(sig, f string, a ...interface{}) {
		if nc.Fault != "" { // the node went on although the key could not be persisted: one signature for all symptoms
			c.Fail("C19:node-runs-ungated-after-key-persist-failure:"+nc.Entry, fmt.Sprintf("entry point %s, configured key %q, api.key location fault %s (key cannot be written): the node starts all the same; ", nc.Entry, nc.Flag, nc.Fault)+fmt.Sprintf(f, a...), nc)
			return
		}
		c.Fail("C19:"+sig+":"+nc.Entry, fmt.Sprintf("entry point %s, configured key %q, api.key %v: ", nc.Entry, nc.Flag, fileDesc(nc.File))+fmt.Sprintf(f, a...), nc)
	}
	if key == "" {
		fail("entrypoint-unresolved-key", "after node construction config.RPC.APIKey is empty: the RPC server is created without a key")
	} else if want != "" && key != want {
		fail("entrypoint-wrong-key", "after node construction config.RPC.APIKey is %q, expected %q (%s)", key, want, kind)
	}
	// the endpoint startRPC opens on this config
	cfg.RPC.HTTPHost, cfg.RPC.HTTPPort = "127.0.0.1", 0
	addr, stop, err := node.VerifC19StartRPC(cfg)
	if err != nil {
		return op, "startrpc-error:" + strings.ReplaceAll(err.Error(), " ", "_"), nil
	}
	defer stop()
	url := "http://" + addr
	kj := func(k string) string { b, _ := json.Marshal(k); return string(b) }
	keyless := c19post(url, `{"jsonrpc":"2.0","id":1,"method":"rpc_modules"}`)
	wrongK := "wrong"
	if want != "" {
		wrongK = want[:len(want)-1]
	}
	wrong := c19post(url, `{"jsonrpc":"2.0","id":2,"method":"rpc_modules","key":`+kj(wrongK)+`}`)
	right := "nokey"
	if want != "" {
		right = c19post(url, `{"jsonrpc":"2.0","id":3,"method":"rpc_modules","key":`+kj(want)+`}`)
	}
	if keyless != "e-32800" {
		fail("entrypoint-keyless-served", "the endpoint opened by startRPC answered a key-less rpc_modules with %s", keyless)
	}
	if key != "" && wrong != "e-32800" {
		fail("entrypoint-wrongkey-served", "the endpoint opened by startRPC answered rpc_modules with key %q with %s", wrongK, wrong)
	}
	if key != "" && want != "" && right != "ok" {
		fail("entrypoint-key-refused", "the endpoint opened by startRPC answered rpc_modules with the node's key %q with %s", want, right)
	}
	if initial != "e-32800" && initial != "unreachable" {
		msg := fmt.Sprintf("the initial endpoint (startInitialRPC, opened by the node constructor) answered a key-less bcn_syncing with %s although the node's key is %s (%q): it was opened before the key was resolved", initial, kind, want)
		if nc.Fault != "" {
			fail("", "%s", msg)
		} else if c19InitialEndpointIsViolation {
			c.Fail("C19:initial-endpoint-before-key-resolution:"+nc.Entry, fmt.Sprintf("entry point %s, configured key %q, api.key %v: %s", nc.Entry, nc.Flag, fileDesc(nc.File), msg), nc)
		} else if len(c.Rep.Notes) < 3 {
			c.Rep.Notes = append(c.Rep.Notes, msg)
		}
		c.Hit("nodekey:initial-endpoint-keyless-served")
	}
	ans = fmt.Sprintf("key=%s file=%s initial=%s keyless=%s wrong=%s right=%s", ktok, atok, initial, keyless, wrong, right)
	if nc.Fault != "" {
		ans = fmt.Sprintf("start=ran key=%s initial=%s keyless=%s", ktok, initial, keyless)
	}
	return op, ans, nil
}

func fileDesc(f *string) string {
	if f == nil {
		return "<none>"
	}
	return fmt.Sprintf("%q", *f)
}

func c19nodekeys(c *hx.Ctx) error {
	flags := []string{"", "cfgkey", "0x12ab"}
	files := []*string{nil, sp(""), sp("0123456789abcdef0123456789abcdef"), sp(" filekey\n"), sp(" \n")}
	c.Line("new http x x70:x61/0/-:", "ok")
	t0 := time.Now()
	for _, entry := range []string{"cli", "mobile", "struct"} {
		for _, fl := range flags {
			for _, fi := range files {
				op, ans, err := c19nodeCaseRun(c, c19nodeCase{Entry: entry, Flag: fl, File: fi})
				// the port handed to the constructor can be taken by somebody else before it binds it: try again
				for try := 0; err == nil && strings.Contains(ans, "initial=unreachable") && try < 3; try++ {
					op, ans, err = c19nodeCaseRun(c, c19nodeCase{Entry: entry, Flag: fl, File: fi})
				}
				if err != nil {
					return err
				}
				c.Line(op, ans)
				c.Hit("nodekey:" + entry)
				c.Rep.Evaluations++
			}
		}
	}
	// start-ups where the key cannot be persisted: the node must refuse to start, or run gated by a non-empty key
	for _, entry := range []string{"cli", "mobile", "struct"} {
		for _, fl := range []string{"", "cfgkey"} {
			for _, fault := range []string{"dir", "symlink", "parentfile"} {
				op, ans, err := c19nodeCaseRun(c, c19nodeCase{Entry: entry, Flag: fl, Fault: fault})
				for try := 0; err == nil && strings.Contains(ans, "initial=unreachable") && try < 3; try++ {
					op, ans, err = c19nodeCaseRun(c, c19nodeCase{Entry: entry, Flag: fl, Fault: fault})
				}
				if err != nil {
					return err
				}
				c.Line(op, ans)
				c.Hit("nodestart:" + fault + ":" + strings.SplitN(ans, " ", 2)[0])
				c.Rep.Evaluations++
			}
		}
	}
	c.Rep.Coverage["nodekey_seconds"] = time.Since(t0).Seconds()
	return nil
}
