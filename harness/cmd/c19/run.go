package main

import (
	"bytes"
	"context"
	"encoding/json"
	"errors"
	"fmt"
	"io"
	"net"
	"net/http"
	"net/http/httptest"
	"os"
	"path/filepath"
	"sort"
	"strings"
	"sync"
	"time"

	"github.com/idena-network/idena-go/rpc"
	"golang.org/x/net/websocket"
)

const c19timeout = 20 * time.Second

// ---- probe service: every method body records that it ran ----

type c19subRec struct {
	sub *rpc.Subscription
	id  string
}

type c19log struct {
	mu      sync.Mutex
	entries []string
	subs    []c19subRec
}

func (l *c19log) rec(ns, m string, args ...string) {
	var hs []string
	for _, a := range args {
		hs = append(hs, "x"+hexs(a))
	}
	l.mu.Lock()
	l.entries = append(l.entries, ns+"."+m+"("+strings.Join(hs, ";")+")")
	l.mu.Unlock()
}

func (l *c19log) snapshot() (int, int) {
	l.mu.Lock()
	defer l.mu.Unlock()
	return len(l.entries), len(l.subs)
}

type Probe struct {
	ns string
	l  *c19log
}

func (p *Probe) Echo(s string) string { p.l.rec(p.ns, "echo", s); return s }
func (p *Probe) Noarg() int           { p.l.rec(p.ns, "noarg"); return 1 }
func (p *Probe) CtxEcho(ctx context.Context, s string) string {
	p.l.rec(p.ns, "ctxEcho", s)
	return s
}
func (p *Probe) Fail() error             { p.l.rec(p.ns, "fail"); return errors.New("probe failure") }
func (p *Probe) Two(a, b string) string  { p.l.rec(p.ns, "two", a, b); return a + b }
func (p *Probe) subscribe(ctx context.Context) (*rpc.Subscription, error) {
	n, ok := rpc.NotifierFromContext(ctx)
	if !ok {
		return nil, rpc.ErrNotificationsUnsupported
	}
	sub := n.CreateSubscription()
	p.l.mu.Lock()
	p.l.subs = append(p.l.subs, c19subRec{sub, string(sub.ID)})
	p.l.mu.Unlock()
	// buffered until the server activates the subscription (after the response is written); the harness
	// waits for it, so that a later unsubscribe never races with the activation
	n.Notify(sub.ID, "hello")
	return sub, nil
}
func (p *Probe) Sub(ctx context.Context) (*rpc.Subscription, error) {
	p.l.rec(p.ns, "sub")
	return p.subscribe(ctx)
}
func (p *Probe) SubArg(ctx context.Context, tag string) (*rpc.Subscription, error) {
	p.l.rec(p.ns, "subArg", tag)
	return p.subscribe(ctx)
}

// ---- transports ----

type c19conn interface {
	roundTrip(text string, deco int, key string) ([]byte, error)
	waitNotification(subID string) bool
	waitClosed() bool
	close()
}

type c19httpConn struct {
	url    string
	client *http.Client
}

func (h *c19httpConn) roundTrip(text string, deco int, key string) ([]byte, error) {
	u := h.url
	if deco == 1 {
		u += "/?key=" + urlEscape(key) + "&apikey=" + urlEscape(key)
	}
	req, err := http.NewRequest("POST", u, bytes.NewBufferString(text))
	if err != nil {
		return nil, err
	}
	req.Header.Set("Content-Type", "application/json")
	switch deco {
	case 2:
		req.Header.Set("Authorization", "Bearer "+asciiOnly(key))
	case 3:
		req.Header.Set("X-Api-Key", asciiOnly(key))
		req.Header.Set("Key", asciiOnly(key))
	case 4:
		req.Header.Set("Cookie", "key="+urlEscape(key))
	}
	resp, err := h.client.Do(req)
	if err != nil {
		return nil, err
	}
	defer resp.Body.Close()
	b, err := io.ReadAll(resp.Body)
	if err != nil {
		return nil, err
	}
	if resp.StatusCode != 200 {
		return nil, fmt.Errorf("http status %d", resp.StatusCode)
	}
	return b, nil
}
func (h *c19httpConn) waitNotification(string) bool { return false }
func (h *c19httpConn) waitClosed() bool             { return false }
func (h *c19httpConn) close()                       {}

func urlEscape(s string) string {
	var sb strings.Builder
	for _, b := range []byte(s) {
		fmt.Fprintf(&sb, "%%%02X", b)
	}
	return sb.String()
}

func asciiOnly(s string) string {
	var sb strings.Builder
	for _, c := range s {
		if c > 32 && c < 127 {
			sb.WriteRune(c)
		} else {
			sb.WriteByte('_')
		}
	}
	return sb.String()
}

// stream connection: one JSON document per message in both directions (WebSocket frames or a byte stream)
type c19stream struct {
	send    func(string) error
	closeFn func()
	resp    chan []byte
	notif   chan string
	closed  chan struct{}
	seen    map[string]bool
}

func newStream(send func(string) error, next func() ([]byte, error), closeFn func()) *c19stream {
	s := &c19stream{send: send, closeFn: closeFn, resp: make(chan []byte, 64), notif: make(chan string, 4096),
		closed: make(chan struct{}), seen: map[string]bool{}}
	go func() {
		defer close(s.closed)
		for {
			doc, err := next()
			if err != nil {
				return
			}
			var probe struct {
				Method string           `json:"method"`
				Id     *json.RawMessage `json:"id"`
				Params struct {
					Subscription string `json:"subscription"`
				} `json:"params"`
			}
			if json.Unmarshal(doc, &probe) == nil && probe.Method != "" && probe.Id == nil {
				s.notif <- probe.Params.Subscription
				continue
			}
			s.resp <- doc
		}
	}()
	return s
}

func (s *c19stream) roundTrip(text string, _ int, _ string) ([]byte, error) {
	// The write runs beside the wait for the response: on a net.Pipe a write returns only when the peer has
	// consumed every byte, and a server that answers a malformed message and closes the connection may
	// never read the trailing newline; the response (queued by the reader before it sees EOF) is what counts.
	errc := make(chan error, 1)
	go func() { errc <- s.send(text) }()
	var sendErr error
	t := time.NewTimer(c19timeout)
	defer t.Stop()
	for {
		select {
		case d := <-s.resp:
			return d, nil
		case <-s.closed:
			select { // a response may have been queued just before the close
			case d := <-s.resp:
				return d, nil
			default:
			}
			if sendErr != nil {
				return nil, fmt.Errorf("send: %v", sendErr)
			}
			return nil, errors.New("connection closed without response")
		case err := <-errc:
			sendErr, errc = err, nil
		case <-t.C:
			if sendErr != nil {
				return nil, fmt.Errorf("send: %v", sendErr)
			}
			return nil, errors.New("timeout waiting for response")
		}
	}
}

func (s *c19stream) waitNotification(id string) bool {
	if s.seen[id] {
		return true
	}
	t := time.NewTimer(c19timeout)
	defer t.Stop()
	for {
		select {
		case got := <-s.notif:
			s.seen[got] = true
			if got == id {
				return true
			}
		case <-s.closed:
			return false
		case <-t.C:
			return false
		}
	}
}

func (s *c19stream) waitClosed() bool {
	t := time.NewTimer(c19timeout)
	defer t.Stop()
	select {
	case <-s.closed:
		return true
	case <-t.C:
		return false
	}
}

func (s *c19stream) close() { s.closeFn() }

// ---- environment: one real server per case ----

type c19env struct {
	cs       c19case
	log      *c19log
	srv      *rpc.Server
	cleanup  []func()
	dial     func() (c19conn, error)
	conn     c19conn
	connGen  int
	subGen   map[int]int // subscription number -> connection generation that created it
	wasClose map[int]bool
}

func newEnv(cs c19case) (*c19env, error) {
	env := &c19env{cs: cs, log: &c19log{}, subGen: map[int]int{}, wasClose: map[int]bool{}}
	probe, alt := &Probe{"probe", env.log}, &Probe{"alt", env.log}
	persistent := rpc.OptionMethodInvocation | rpc.OptionSubscriptions
	if cs.Transport == "http" {
		// exactly what node.startHTTP does (node/node.go:381): the key travels through StartHTTPEndpoint
		apis := []rpc.API{{Namespace: "probe", Version: "1.0", Service: probe, Public: true},
			{Namespace: "alt", Version: "1.0", Service: alt, Public: true}}
		l, srv, hs, err := rpc.StartHTTPEndpoint("127.0.0.1:0", apis, nil, []string{"*"}, []string{"localhost"}, rpc.DefaultHTTPTimeouts, cs.ApiKey)
		if err != nil {
			return nil, err
		}
		env.srv = srv
		client := &http.Client{Timeout: c19timeout, Transport: &http.Transport{MaxIdleConnsPerHost: 4}}
		env.cleanup = append(env.cleanup, func() {
			client.CloseIdleConnections()
			hs.Close()
			l.Close()
			srv.Stop()
		})
		env.dial = func() (c19conn, error) {
			return &c19httpConn{url: "http://" + l.Addr().String(), client: client}, nil
		}
		return env, nil
	}
	srv := rpc.NewServer(cs.ApiKey)
	env.srv = srv
	if err := srv.RegisterName("probe", probe); err != nil {
		return nil, err
	}
	if err := srv.RegisterName("alt", alt); err != nil {
		return nil, err
	}
	env.cleanup = append(env.cleanup, srv.Stop)
	streamOver := func(c net.Conn) c19conn {
		dec := json.NewDecoder(c)
		return newStream(func(t string) error {
			c.SetWriteDeadline(time.Now().Add(c19timeout))
			_, err := c.Write([]byte(t + "\n"))
			return err
		}, func() ([]byte, error) {
			var raw json.RawMessage
			if err := dec.Decode(&raw); err != nil {
				return nil, err
			}
			return raw, nil
		}, func() { c.Close() })
	}
	switch cs.Transport {
	case "ws":
		ts := httptest.NewServer(srv.WebsocketHandler([]string{"*"}))
		env.cleanup = append(env.cleanup, ts.Close)
		env.dial = func() (c19conn, error) {
			ws, err := websocket.Dial("ws"+strings.TrimPrefix(ts.URL, "http"), "", "http://localhost")
			if err != nil {
				return nil, err
			}
			return newStream(func(t string) error {
				ws.SetWriteDeadline(time.Now().Add(c19timeout))
				return websocket.Message.Send(ws, t)
			}, func() ([]byte, error) {
				var s string
				if err := websocket.Message.Receive(ws, &s); err != nil {
					return nil, err
				}
				return []byte(s), nil
			}, func() { ws.Close() }), nil
		}
	case "pipe": // rpc/inproc.go: DialInProc serves the server end of a net.Pipe with NewJSONCodec
		env.dial = func() (c19conn, error) {
			p1, p2 := net.Pipe()
			go srv.ServeCodec(rpc.NewJSONCodec(p1), persistent)
			return streamOver(p2), nil
		}
	case "ipc": // rpc/ipc.go: ServeListener over a unix socket
		dir, err := os.MkdirTemp("", "c19ipc")
		if err != nil {
			return nil, err
		}
		path := filepath.Join(dir, "s.ipc")
		l, err := net.Listen("unix", path)
		if err != nil {
			os.RemoveAll(dir)
			return nil, err
		}
		go srv.ServeListener(l)
		env.cleanup = append(env.cleanup, func() { l.Close(); os.RemoveAll(dir) })
		env.dial = func() (c19conn, error) {
			c, err := net.Dial("unix", path)
			if err != nil {
				return nil, err
			}
			return streamOver(c), nil
		}
	default:
		return nil, fmt.Errorf("unknown transport %q", cs.Transport)
	}
	return env, nil
}

func (env *c19env) close() {
	if env.conn != nil {
		env.conn.close()
	}
	for i := len(env.cleanup) - 1; i >= 0; i-- {
		env.cleanup[i]()
	}
}

// ---- observation of one message ----

type c19obs struct {
	Op      string   `json:"op"`
	Ans     string   `json:"ans"`
	Sent    string   `json:"sent,omitempty"`
	Reply   string   `json:"reply,omitempty"`
	kind    string   // msgerr | one | many | none
	codes   []int    // per response: 0 = success, else error code
	toks    []string // per response token
	inv     []string
	newSubs []int
	closed  []int
}

func errClosed(ch <-chan error) bool {
	select {
	case <-ch:
		return true
	default:
		return false
	}
}

func firstArg(e c19elem) string {
	if e.Params.Kind == "arr" && len(e.Params.Args) > 0 && e.Params.Args[0].K == "s" {
		return e.Params.Args[0].S
	}
	return ""
}

func (env *c19env) exchange(m c19msg) c19obs {
	o := c19obs{Op: m.opLine()}
	if env.conn == nil {
		c, err := env.dial()
		if err != nil {
			o.Ans = "dialerr"
			return o
		}
		env.conn = c
		env.connGen++
	}
	text := m.text()
	env.log.mu.Lock()
	for i, s := range env.log.subs {
		text = strings.ReplaceAll(text, fmt.Sprintf(`"@%d"`, i), `"`+s.id+`"`)
	}
	env.log.mu.Unlock()
	o.Sent = text
	nInv, nSub := env.log.snapshot()
	reply, err := env.conn.roundTrip(text, m.Deco, env.cs.ApiKey)
	if err != nil {
		o.Ans = "transport-error " + strings.ReplaceAll(err.Error(), " ", "_")
		env.conn.close()
		env.conn = nil
		return o
	}
	o.Reply = string(reply)
	env.log.mu.Lock()
	o.inv = append([]string{}, env.log.entries[nInv:]...)
	subs := append([]c19subRec{}, env.log.subs...)
	env.log.mu.Unlock()
	newIDs := map[string]int{}
	for i := nSub; i < len(subs); i++ {
		o.newSubs = append(o.newSubs, i)
		env.subGen[i] = env.connGen
		newIDs[subs[i].id] = i
	}
	newlyClosed := map[int]bool{}
	for i, s := range subs {
		if errClosed(s.sub.Err()) && !env.wasClose[i] {
			env.wasClose[i] = true
			newlyClosed[i] = true
			o.closed = append(o.closed, i)
		}
	}
	// parse the reply
	parseOne := func(raw json.RawMessage, e *c19elem) (string, int, bool) {
		var members map[string]json.RawMessage
		if err := json.Unmarshal(raw, &members); err != nil {
			return "unparsable", -1, false
		}
		_, hasID := members["id"]
		var r struct {
			Error  *struct{ Code int } `json:"error"`
			Result json.RawMessage     `json:"result"`
		}
		if err := json.Unmarshal(raw, &r); err != nil {
			return "unparsable", -1, false
		}
		if r.Error != nil {
			return fmt.Sprintf("e%d", r.Error.Code), r.Error.Code, hasID
		}
		var s string
		if json.Unmarshal(r.Result, &s) == nil {
			if n, ok := newIDs[s]; ok {
				return fmt.Sprintf("sub%d", n), 0, hasID
			}
		}
		if string(r.Result) == "true" && e != nil {
			var n int
			if _, err := fmt.Sscanf(firstArg(*e), "@%d", &n); err == nil && newlyClosed[n] {
				return fmt.Sprintf("unsub%d", n), 0, hasID
			}
			return "true?", 0, hasID
		}
		return "ok", 0, hasID
	}
	trimmed := bytes.TrimSpace(reply)
	var head string
	switch {
	case len(trimmed) == 0:
		o.kind, head = "none", "none"
	case trimmed[0] == '[':
		var arr []json.RawMessage
		if err := json.Unmarshal(trimmed, &arr); err != nil {
			o.kind, head = "unparsable", "unparsable"
			break
		}
		o.kind = "many"
		for i, raw := range arr {
			var e *c19elem
			if m.Kind == "batch" && i < len(m.Elems) {
				e = &m.Elems[i]
			}
			tok, code, _ := parseOne(raw, e)
			o.toks, o.codes = append(o.toks, tok), append(o.codes, code)
		}
		head = "many:" + strings.Join(o.toks, ",")
	default:
		var e *c19elem
		if m.Kind == "single" {
			e = &m.Elems[0]
		}
		tok, code, hasID := parseOne(trimmed, e)
		o.toks, o.codes = []string{tok}, []int{code}
		if hasID {
			o.kind, head = "one", "one:"+tok
		} else {
			o.kind, head = "msgerr", fmt.Sprintf("msgerr:%d", code)
		}
	}
	// wait until the server has activated the subscriptions created by this message
	for _, i := range o.newSubs {
		if !env.conn.waitNotification(subs[i].id) {
			head += "!noactivation"
		}
	}
	conn := "-"
	if env.cs.Transport != "http" {
		conn = "open"
		if o.kind == "msgerr" {
			if env.conn.waitClosed() {
				conn = "closed"
			}
			env.conn.close()
			env.conn = nil
		}
	}
	var act []int
	if env.conn != nil {
		for i := range subs {
			if env.subGen[i] == env.connGen && !env.wasClose[i] {
				act = append(act, i)
			}
		}
	}
	sort.Ints(act)
	var as []string
	for _, a := range act {
		as = append(as, fmt.Sprint(a))
	}
	o.Ans = head + " inv=" + strings.Join(o.inv, ",") + " act=" + strings.Join(as, ",") + " conn=" + conn
	return o
}

// ---- independent property oracle (no Lean, no model of the server: only the statement of C19) ----

type c19fail struct {
	Sig    string
	Detail string
	Msg    int
}

// carries: the element carries exactly the configured key (encoding/json: the last string-valued `key`
// member counts, null members do not count, a non-string member makes the request unusable)
func carries(e c19elem, key string) bool {
	if e.Shape != "o" {
		return false
	}
	cur := ""
	for _, k := range e.Keys {
		switch k.K {
		case "s":
			cur = k.S
		case "o":
			return false
		}
	}
	return cur == key
}

// mentions: some key member has exactly the configured key as its value (strictest reading of "carries")
func mentions(e c19elem, key string) bool {
	for _, k := range e.Keys {
		if k.K == "s" && k.S == key {
			return true
		}
	}
	return false
}

// parses: the element does not make the server refuse the message as a whole — a JSON object with usable
// member types, a valid id, and (for *_subscribe) a subscription name
func parses(e c19elem) bool {
	if e.Shape != "o" || e.TyErr || e.Id != "k" {
		return false
	}
	for _, k := range e.Keys {
		if k.K == "o" {
			return false
		}
	}
	if e.Method != nil && strings.HasSuffix(*e.Method, "_subscribe") {
		return e.Params.Kind == "arr" && len(e.Params.Args) > 0 && e.Params.Args[0].K == "s"
	}
	return true
}

// wellFormed: "otherwise well-formed" — parses, and the method name has one of the accepted forms
// (service_method, *_subscribe, *_unsubscribe)
func wellFormed(e c19elem) bool {
	if !parses(e) || e.Method == nil {
		return false
	}
	m := *e.Method
	if strings.HasSuffix(m, "_subscribe") || strings.HasSuffix(m, "_unsubscribe") {
		return true
	}
	return strings.Count(m, "_") == 1
}

// callName: which service method a carrying element may legitimately run ("" = none)
func callName(e c19elem) string {
	if e.Method == nil {
		return ""
	}
	m := *e.Method
	switch {
	case strings.HasSuffix(m, "_subscribe"):
		return strings.TrimSuffix(m, "_subscribe") + "." + firstArg(e)
	case strings.HasSuffix(m, "_unsubscribe"):
		return ""
	}
	if strings.Count(m, "_") == 1 {
		return strings.Replace(m, "_", ".", 1)
	}
	return ""
}

func invName(entry string) string {
	if i := strings.IndexByte(entry, '('); i >= 0 {
		return entry[:i]
	}
	return entry
}

func c19oracle(cs c19case, mi int, m c19msg, o c19obs) []c19fail {
	if cs.ApiKey == "" || strings.HasPrefix(o.Ans, "transport-error") || o.Ans == "dialerr" {
		return nil // no key configured: the property says nothing
	}
	var fails []c19fail
	add := func(sig, f string, a ...interface{}) {
		fails = append(fails, c19fail{"C19:" + sig, fmt.Sprintf("message %d over %s: ", mi, cs.Transport) + fmt.Sprintf(f, a...) +
			fmt.Sprintf(" | sent %s | reply %s", o.Sent, o.Reply), mi})
	}
	elems := m.Elems
	nCarry := 0
	allowed := map[string]int{}
	allowedUnsub := map[int]bool{}
	// does the message as a whole have to be accepted?  batch: every element parses; single: it is well-formed
	// (a single request whose method name does not split is refused at message level, json.go:208)
	allOK := m.Kind != "garbage"
	for _, e := range elems {
		if !parses(e) || (m.Kind == "single" && !wellFormed(e)) {
			allOK = false
		}
		if carries(e, cs.ApiKey) {
			nCarry++
			if n := callName(e); n != "" {
				allowed[n]++
			}
			if e.Method != nil && (strings.HasSuffix(*e.Method, "_unsubscribe") || strings.HasSuffix(firstArg(e), "_unsubscribe")) {
				var n int
				for _, a := range e.Params.Args {
					if _, err := fmt.Sscanf(a.S, "@%d", &n); err == nil {
						allowedUnsub[n] = true
					}
				}
			}
		}
	}
	// (1) no service method runs for a request without the key
	for _, entry := range o.inv {
		n := invName(entry)
		if allowed[n] == 0 {
			add("unkeyed-invoked", "service method %s ran although no element carrying the key asks for it", entry)
		} else {
			allowed[n]--
		}
	}
	// (2) no subscription is created or cancelled for a request without the key
	if len(o.newSubs) > nCarry {
		add("unkeyed-subscribed", "%d subscriptions created by %d elements carrying the key", len(o.newSubs), nCarry)
	}
	for _, n := range o.closed {
		if !allowedUnsub[n] {
			add("unkeyed-unsubscribed", "subscription %d cancelled although no element carrying the key names it", n)
		}
	}
	// (3) every request without the key is answered with an error
	switch o.kind {
	case "msgerr":
		if allOK {
			add("wellformed-refused-whole", "every element is usable but the message was refused as a whole (code %d)", o.codes[0])
		}
	case "one", "many":
		if (o.kind == "one") != (m.Kind == "single") || len(o.codes) != len(elems) {
			add("response-shape", "%d responses (%s) for %d elements (%s)", len(o.codes), o.kind, len(elems), m.Kind)
			break
		}
		for i, e := range elems {
			c := carries(e, cs.ApiKey)
			if !c && o.codes[i] == 0 {
				add("unkeyed-not-error", "element %d does not carry the key (some key member has the configured value: %v) and was answered with a success response", i, mentions(e, cs.ApiKey))
			}
			if !c && wellFormed(e) && o.codes[i] != 0 && o.codes[i] != -32800 {
				add("wellformed-wrong-code", "element %d is well-formed without the key: error %d instead of -32800", i, o.codes[i])
			}
			// (4) requests that carry the key are still served
			if c && o.codes[i] == -32800 {
				add("keyed-refused", "element %d carries the key and was answered with the invalid-key error", i)
			}
			if c && wellFormed(e) {
				if exp := c19expectServed(cs, e); exp != "" {
					found := false
					for _, entry := range o.inv {
						if entry == exp {
							found = true
						}
					}
					if !found {
						add("keyed-not-served", "element %d carries the key and fits %s, which did not run", i, exp)
					}
					if o.codes[i] != 0 && !strings.Contains(exp, ".fail(") && !(cs.Transport == "http" && strings.Contains(exp, ".sub")) {
						add("keyed-not-served", "element %d carries the key and fits %s, answered with error %d", i, exp, o.codes[i])
					}
				}
			}
		}
	default:
		add("no-response", "reply kind %s", o.kind)
	}
	return fails
}

// c19expectServed: the log entry a keyed well-formed element must produce when it names a registered method
// with fitting string arguments ("" when the element is not of that simple kind)
func c19expectServed(cs c19case, e c19elem) string {
	name := callName(e)
	if name == "" {
		return ""
	}
	parts := strings.SplitN(name, ".", 2)
	isSub := strings.HasSuffix(*e.Method, "_subscribe")
	for _, s := range c19registry {
		if s.Name != parts[0] || s.Name == "rpc" {
			continue
		}
		list := s.Cbs
		if isSub {
			list = s.Subs
		}
		for _, cb := range list {
			if cb.Name != parts[1] {
				continue
			}
			var args []string
			if e.Params.Kind == "arr" {
				for _, a := range e.Params.Args {
					if a.K != "s" {
						return ""
					}
					args = append(args, a.S)
				}
			} else if e.Params.Kind != "a" {
				return ""
			}
			if isSub {
				args = args[1:]
			}
			if cb.Nargs == 0 && !isSub {
				args = nil // parameters of a method without arguments are ignored
			} else if len(args) != cb.Nargs {
				return ""
			}
			var hs []string
			for _, a := range args {
				hs = append(hs, "x"+hexs(a))
			}
			return name + "(" + strings.Join(hs, ";") + ")"
		}
	}
	return ""
}

// c19run executes a case against a fresh real server and returns the protocol lines and oracle failures
func c19run(cs c19case) (obs []c19obs, fails []c19fail, err error) {
	env, err := newEnv(cs)
	if err != nil {
		return nil, nil, err
	}
	defer env.close()
	obs = append(obs, c19obs{Op: fmt.Sprintf("new %s x%s %s", cs.Transport, hexs(cs.ApiKey), c19registryToken()), Ans: "ok"})
	for i, m := range cs.Msgs {
		o := func() (o c19obs) {
			defer func() {
				if r := recover(); r != nil {
					o = c19obs{Op: m.opLine(), Ans: fmt.Sprintf("panic %v", r)}
				}
			}()
			return env.exchange(m)
		}()
		obs = append(obs, o)
		fails = append(fails, c19oracle(cs, i, m, o)...)
	}
	return obs, fails, nil
}
