package main

// config.SetApiKey (config/config.go:137) is what gives the node its key (node.NewNode, node.go:170):
// the real function is run on a scratch data directory for every combination of configured value and
// api.key content; the Lean model `setApiKey` predicts the key and the file, theorem `node_key_nonempty`
// says the node never runs without a key.  Oracle: the resulting key is not empty.

import (
	"fmt"
	"os"
	"path/filepath"
	"regexp"

	"github.com/idena-network/idena-go/config"
	"github.com/idena-network/idena-go/rpc"

	"verifharness/internal/hx"
)

var c19hex32 = regexp.MustCompile(`^[0-9a-f]{32}$`)

func c19setkey(c *hx.Ctx) error {
	flags := []string{"", "", "k", "secret", " spaced ", " ", "0x12ab", "ключ"}
	files := []*string{nil, sp(""), sp("  \n"), sp("abc"), sp(" abc\n"), sp("\tabc def \r\n"), sp("\n\n"), sp("secret"), sp(" \v\f")}
	c.Line("new http x x70:x61/0/-:", "ok")
	for _, fl := range flags {
		for _, fi := range files {
			dir, err := os.MkdirTemp("", "c19key")
			if err != nil {
				return err
			}
			path := filepath.Join(dir, "api.key")
			ftok := "-"
			if fi != nil {
				if err := os.WriteFile(path, []byte(*fi), 0600); err != nil {
					return err
				}
				ftok = "x" + hexs(*fi)
			}
			cfg := &config.Config{DataDir: dir, RPC: &rpc.Config{APIKey: fl}}
			ans := func() (ans string) {
				defer func() {
					if r := recover(); r != nil {
						ans = "panic"
					}
				}()
				if err := cfg.SetApiKey(); err != nil {
					return "err"
				}
				key := cfg.RPC.APIKey
				ktok := "x" + hexs(key)
				if key != fl && c19hex32.MatchString(key) && (fi == nil || key != *fi) {
					ktok = "random"
				}
				after, err := os.ReadFile(path)
				atok := "-"
				if err == nil {
					atok = "x" + hexs(string(after))
					if string(after) == key {
						atok = "=key"
					}
				}
				if key == "" {
					c.Fail("C19:node-runs-without-key", fmt.Sprintf("SetApiKey with configured %q and api.key %v leaves an empty key", fl, fi), map[string]interface{}{"flag": fl, "file": fi})
				}
				return "key=" + ktok + " file=" + atok
			}()
			os.RemoveAll(dir)
			c.Line("setkey x"+hexs(fl)+" "+ftok, ans)
			c.Hit("setkey")
		}
	}
	return nil
}
