package main

// C19: "with an API key configured, no RPC request without it reaches any method".
//
// This file: the abstract request (what the Lean model `RpcGate.serve` is driven with), its rendering to
// concrete JSON text (member order, case variants and duplicates of the `key` member, escapes, near-miss
// member names, odd id/params forms), and the generators (random + systematic batches over a shape alphabet).
// run.go: probe service, transports (HTTP through rpc.StartHTTPEndpoint, WebSocket, in-process pipe, unix
// socket), the per-message observation and the independent property oracle.  gfacts.go: the go/ast
// extractor for the (G) facts (statement order of the readRequest loop, call graph, key flow).

import (
	"encoding/hex"
	"encoding/json"
	"fmt"
	"math/rand"
	"strings"
)

type c19kv struct {
	K string `json:"k"`           // "s" string, "n" null, "o" non-string
	S string `json:"s,omitempty"` // value when K == "s"
}

type c19params struct {
	Kind string  `json:"kind"`           // "a" absent, "n" null, "x" non-array, "arr"
	Args []c19kv `json:"args,omitempty"` // K: "s" string, "n" null, "o" other
}

type c19elem struct {
	Shape  string    `json:"shape"` // "o" object, "n" null, "x" other JSON value
	Keys   []c19kv   `json:"keys,omitempty"`
	Id     string    `json:"id"`               // "a" absent, "k" valid, "b" invalid
	Method *string   `json:"method,omitempty"` // nil: member absent / null
	TyErr  bool      `json:"tyErr,omitempty"`
	Params c19params `json:"params"`
	Text   string    `json:"text"` // concrete JSON text sent for this element
}

type c19msg struct {
	Kind  string    `json:"kind"` // "single", "batch", "garbage"
	Elems []c19elem `json:"elems,omitempty"`
	Text  string    `json:"text,omitempty"` // garbage only
	Deco  int       `json:"deco,omitempty"` // HTTP only: where else the key is (uselessly) offered: 1 query, 2 Authorization, 3 X-Api-Key, 4 cookie
}

type c19case struct {
	Transport string   `json:"transport"` // http ws pipe ipc
	ApiKey    string   `json:"apiKey"`
	Msgs      []c19msg `json:"msgs"`
}

func hexs(s string) string { return hex.EncodeToString([]byte(s)) }

func kvTok(v c19kv) string {
	switch v.K {
	case "s":
		return "s" + hexs(v.S)
	default:
		return v.K
	}
}

// opToken is the element as the Lean driver reads it: shape|keys|id|method|tyErr|params
func (e c19elem) opToken() string {
	keys := "-"
	if len(e.Keys) > 0 {
		var ks []string
		for _, k := range e.Keys {
			ks = append(ks, kvTok(k))
		}
		keys = strings.Join(ks, ",")
	}
	m := "-"
	if e.Method != nil {
		m = "s" + hexs(*e.Method)
	}
	te := "0"
	if e.TyErr {
		te = "1"
	}
	p := e.Params.Kind
	if p == "arr" {
		var as []string
		for _, a := range e.Params.Args {
			as = append(as, kvTok(a))
		}
		p = "[" + strings.Join(as, ",") + "]"
	}
	return strings.Join([]string{e.Shape, keys, e.Id, m, te, p}, "|")
}

func (m c19msg) opLine() string {
	switch m.Kind {
	case "garbage":
		return "garbage"
	case "single":
		return "single " + m.Elems[0].opToken()
	}
	toks := []string{"batch"}
	for _, e := range m.Elems {
		toks = append(toks, e.opToken())
	}
	return strings.Join(toks, " ")
}

func (m c19msg) text() string {
	switch m.Kind {
	case "garbage":
		return m.Text
	case "single":
		return m.Elems[0].Text
	}
	var ts []string
	for _, e := range m.Elems {
		ts = append(ts, e.Text)
	}
	return "[" + strings.Join(ts, ",") + "]"
}

// ---- registry of the probe services (mirrored into the `new` line for the Lean model) ----

type c19cb struct {
	Name  string
	Nargs int
	Flag  string // "-" | "e" returns error | "s" silent (invocation not visible to the harness)
}

type c19svc struct {
	Name string
	Cbs  []c19cb
	Subs []c19cb
}

// formatName'd method names of type Probe (run.go) as rpc.RegisterName exposes them, plus the built-in rpc service
var c19registry = []c19svc{
	{"probe", []c19cb{{"echo", 1, "-"}, {"noarg", 0, "-"}, {"ctxEcho", 1, "-"}, {"fail", 0, "e"}, {"two", 2, "-"}},
		[]c19cb{{"sub", 0, "-"}, {"subArg", 1, "-"}}},
	{"alt", []c19cb{{"echo", 1, "-"}, {"noarg", 0, "-"}, {"ctxEcho", 1, "-"}, {"fail", 0, "e"}, {"two", 2, "-"}},
		[]c19cb{{"sub", 0, "-"}, {"subArg", 1, "-"}}},
	{"rpc", []c19cb{{"modules", 0, "s"}}, nil},
}

func c19registryToken() string {
	var ss []string
	for _, s := range c19registry {
		f := func(l []c19cb) string {
			var xs []string
			for _, c := range l {
				xs = append(xs, fmt.Sprintf("x%s/%d/%s", hexs(c.Name), c.Nargs, c.Flag))
			}
			return strings.Join(xs, ",")
		}
		ss = append(ss, "x"+hexs(s.Name)+":"+f(s.Cbs)+":"+f(s.Subs))
	}
	return strings.Join(ss, ";")
}

// ---- rendering ----

// jstr renders a JSON string literal; mode 0 plain (json.Marshal), 1 every BMP rune as \uXXXX, 2 first rune escaped
func jstr(s string, mode int) string {
	if mode == 0 || strings.HasPrefix(s, "@") {
		b, _ := json.Marshal(s)
		return string(b)
	}
	var sb strings.Builder
	sb.WriteByte('"')
	for i, r := range s {
		if r < 0x10000 && (mode == 1 || i == 0) {
			fmt.Fprintf(&sb, "\\u%04x", r)
		} else {
			b, _ := json.Marshal(string(r))
			sb.WriteString(string(b[1 : len(b)-1]))
		}
	}
	sb.WriteByte('"')
	return sb.String()
}

// names that encoding/json matches to the struct field `key` (case-insensitive, Unicode simple folding)
var c19keyNames = []string{`"key"`, `"key"`, `"key"`, `"Key"`, `"KEY"`, `"kEy"`, `"keY"`, `"\u212aey"`, `"\u006bey"`, `"K\u0045Y"`, `"\u212aEY"`}

// near-miss member names: never the key as far as the server is concerned
// (\u043a, \u0435: Cyrillic look-alikes of k and e; they do not fold to ASCII)
var c19junkNames = []string{`"key "`, `" key"`, `"keys"`, `"apikey"`, `"api_key"`, `"apiKey"`, `"k"`, `"ke"`, `"key\u0000"`,
	`"\u043aey"`, `"x-api-key"`, `"k\u0435y"`, `"key1"`, `"_key"`, `"ke\u00ff"`, `"password"`, `"token"`, `"k\u0000ey"`, `"ke\u017f"`}

var c19nonString = []string{`5`, `true`, `false`, `1.5e3`, `0`, `{}`, `[]`}

type c19rend struct {
	r      *rand.Rand
	apiKey string
	nextID int
}

func (g *c19rend) nonStringKey() string {
	switch g.r.Intn(4) {
	case 0:
		return "[" + jstr(g.apiKey, 0) + "]"
	case 1:
		return `{"key":` + jstr(g.apiKey, 0) + "}"
	}
	return c19nonString[g.r.Intn(len(c19nonString))]
}

func (g *c19rend) ws() string {
	switch g.r.Intn(12) {
	case 0:
		return " "
	case 1:
		return "\n"
	case 2:
		return "\t "
	}
	return ""
}

// render fills e.Text from the abstract fields; inBatch allows array-typed non-object elements.
func (g *c19rend) render(e *c19elem, inBatch bool) {
	r := g.r
	switch e.Shape {
	case "n":
		e.Text = "null"
		return
	case "x":
		opts := []string{`5`, `"probe_echo"`, `true`, `-1.5`, jstr(g.apiKey, 0)}
		if inBatch {
			opts = append(opts, `[]`, `[{"jsonrpc":"2.0","id":1,"method":"probe_noarg","key":`+jstr(g.apiKey, 0)+`}]`)
		}
		e.Text = opts[r.Intn(len(opts))]
		return
	}
	var members []string
	add := func(name, val string) { members = append(members, name+g.ws()+":"+g.ws()+val) }
	// id
	switch e.Id {
	case "k":
		g.nextID++
		switch r.Intn(14) {
		case 0:
			add(`"id"`, fmt.Sprintf(`"id-%d"`, g.nextID))
		case 1:
			add(`"id"`, `null`)
		case 2:
			add(`"id"`, fmt.Sprintf(`%d.5`, g.nextID))
		case 3:
			add(`"ID"`, fmt.Sprintf(`%d`, g.nextID))
		case 4:
			add(`"id"`, `""`)
		default:
			add(`"id"`, fmt.Sprintf(`%d`, g.nextID))
		}
	case "b":
		add(`"id"`, []string{`{}`, `[1]`, `true`, `false`, `{"id":1}`}[r.Intn(5)])
	}
	// jsonrpc (never checked by the server)
	switch r.Intn(10) {
	case 0:
	case 1:
		add(`"jsonrpc"`, `"1.0"`)
	default:
		add(`"jsonrpc"`, `"2.0"`)
	}
	// method
	if e.Method != nil {
		name := `"method"`
		if r.Intn(15) == 0 {
			name = `"Method"`
		}
		add(name, jstr(*e.Method, []int{0, 0, 0, 0, 0, 0, 1, 2}[r.Intn(8)]))
	} else if r.Intn(2) == 0 {
		add(`"method"`, `null`)
	}
	// params
	switch e.Params.Kind {
	case "n":
		add(`"params"`, `null`)
	case "x":
		add(`"params"`, []string{`{"a":1}`, `5`, `"str"`, `true`, `{"key":` + jstr(g.apiKey, 0) + `}`}[r.Intn(5)])
	case "arr":
		var as []string
		for _, a := range e.Params.Args {
			switch a.K {
			case "s":
				as = append(as, jstr(a.S, []int{0, 0, 0, 0, 1}[r.Intn(5)]))
			case "n":
				as = append(as, `null`)
			default:
				as = append(as, []string{`5`, `{}`, `[]`, `true`, `{"key":1}`}[r.Intn(5)])
			}
		}
		add(`"params"`, "["+strings.Join(as, ","+g.ws())+"]")
	}
	// type error in a member other than key
	if e.TyErr {
		switch r.Intn(4) {
		case 0:
			add(`"jsonrpc"`, `2`)
		case 1:
			add(`"method"`, `7`)
		case 2:
			add(`"JSONRPC"`, `[]`)
		default:
			add(`"method"`, `["probe_echo"]`)
		}
	}
	// junk members that look like the key but are not
	for n := r.Intn(3) - 1; n > 0; n-- {
		add(c19junkNames[r.Intn(len(c19junkNames))], jstr(g.apiKey, 0))
	}
	if r.Intn(12) == 0 {
		add(`"auth"`, `{"key":`+jstr(g.apiKey, 0)+`}`)
	}
	r.Shuffle(len(members), func(i, j int) { members[i], members[j] = members[j], members[i] })
	// key members, in order, at random positions
	pos := make([]int, len(e.Keys))
	for i := range pos {
		pos[i] = r.Intn(len(members) + 1)
	}
	for i := 1; i < len(pos); i++ { // insertion sort keeps the relative order of the key members
		for j := i; j > 0 && pos[j] < pos[j-1]; j-- {
			pos[j], pos[j-1] = pos[j-1], pos[j]
		}
	}
	var out []string
	ki := 0
	for i := 0; i <= len(members); i++ {
		for ki < len(pos) && pos[ki] == i {
			k := e.Keys[ki]
			name := c19keyNames[r.Intn(len(c19keyNames))]
			var val string
			switch k.K {
			case "s":
				val = jstr(k.S, []int{0, 0, 0, 0, 0, 1, 2}[r.Intn(7)])
			case "n":
				val = "null"
			default:
				val = g.nonStringKey()
			}
			out = append(out, name+g.ws()+":"+g.ws()+val)
			ki++
		}
		if i < len(members) {
			out = append(out, members[i])
		}
	}
	e.Text = "{" + g.ws() + strings.Join(out, ","+g.ws()) + g.ws() + "}"
}

// ---- generation ----

var c19apiKeys = []string{"secret", "secret", "k", "0x12ab34", "Secret Key", "ключ-ключ", "null", "s3cr3t\"quote", "aA", ""}

func swapCase(s string) string {
	out := []rune(s)
	for i, c := range out {
		switch {
		case c >= 'a' && c <= 'z':
			out[i] = c - 32
		case c >= 'A' && c <= 'Z':
			out[i] = c + 32
		}
	}
	return string(out)
}

// wrongKey returns a string different from k (k non-empty) from the adversarial families
func wrongKey(r *rand.Rand, k string) string {
	rs := []rune(k)
	var c string
	switch r.Intn(13) {
	case 0:
		c = ""
	case 1:
		c = string(rs[:len(rs)-1]) // proper prefix
	case 2:
		c = k + "x"
	case 3:
		c = swapCase(k)
	case 4:
		c = " " + k
	case 5:
		c = k + " "
	case 6:
		c = k + "\x00"
	case 7:
		c = "wrong"
	case 8:
		c = string(rs[1:]) // proper suffix
	case 9:
		c = strings.ToUpper(k)
	case 10:
		c = k + k
	case 11:
		c = "null"
	default:
		c = "\"" + k + "\""
	}
	if c == k {
		c = k + "~"
	}
	return c
}

func (g *c19rend) genKeys() []c19kv {
	r := g.r
	right := c19kv{K: "s", S: g.apiKey}
	wrong := func() c19kv {
		if g.apiKey == "" {
			return c19kv{K: "s", S: []string{"x", "secret", " "}[r.Intn(3)]}
		}
		return c19kv{K: "s", S: wrongKey(r, g.apiKey)}
	}
	switch n := r.Intn(100); {
	case n < 20:
		return nil
	case n < 50:
		return []c19kv{right}
	case n < 74:
		return []c19kv{wrong()}
	case n < 79:
		return []c19kv{{K: "n"}}
	case n < 84:
		return []c19kv{{K: "o"}}
	}
	// duplicates
	var ks []c19kv
	for i, m := 0, 2+r.Intn(2); i < m; i++ {
		switch x := r.Intn(20); {
		case x < 8:
			ks = append(ks, right)
		case x < 15:
			ks = append(ks, wrong())
		case x < 19:
			ks = append(ks, c19kv{K: "n"})
		default:
			ks = append(ks, c19kv{K: "o"})
		}
	}
	return ks
}

func sp(s string) *string { return &s }

func strArgs(ss ...string) c19params {
	p := c19params{Kind: "arr", Args: []c19kv{}}
	for _, s := range ss {
		p.Args = append(p.Args, c19kv{K: "s", S: s})
	}
	return p
}

type c19gen struct {
	c19rend
	tag      int
	subsSeen   int  // rough count of subscriptions that may exist in the case so far (for @n references)
	persistent bool // transport with pub-sub
}

func (g *c19gen) newTag() string { g.tag++; return fmt.Sprintf("t%d", g.tag) }

func (g *c19gen) subRefArg() string {
	r := g.r
	switch {
	case g.subsSeen > 0 && r.Intn(10) < 7:
		return fmt.Sprintf("@%d", r.Intn(g.subsSeen))
	case r.Intn(3) == 0:
		return fmt.Sprintf("@%d", g.subsSeen+r.Intn(3))
	case r.Intn(2) == 0:
		return "0xdeadbeef"
	}
	return ""
}

// oddParams: parameter lists that do not fit
func (g *c19gen) oddParams(first string) c19params {
	r := g.r
	switch r.Intn(9) {
	case 0:
		return c19params{Kind: "a"}
	case 1:
		return c19params{Kind: "n"}
	case 2:
		return c19params{Kind: "x"}
	case 3:
		return c19params{Kind: "arr", Args: []c19kv{}}
	case 4:
		return c19params{Kind: "arr", Args: []c19kv{{K: "o"}}}
	case 5:
		return c19params{Kind: "arr", Args: []c19kv{{K: "n"}}}
	case 6:
		return strArgs(first, g.newTag(), g.newTag(), g.newTag())
	case 7:
		return c19params{Kind: "arr", Args: []c19kv{{K: "s", S: first}, {K: "o"}}}
	}
	return c19params{Kind: "arr", Args: []c19kv{{K: "s", S: first}, {K: "n"}}}
}

func (g *c19gen) genElem(inBatch bool) c19elem {
	r := g.r
	e := c19elem{Shape: "o", Id: "k", Params: c19params{Kind: "a"}}
	// features that fail the whole message are rarer inside batches (else few batches reach the gate)
	fatal := 1
	if inBatch {
		fatal = 4
	}
	if x := r.Intn(100 * fatal); x < 2 {
		e.Shape = "n"
	} else if x < 5 {
		e.Shape = "x"
	}
	e.Keys = g.genKeys()
	if inBatch && r.Intn(4) != 0 {
		for i := range e.Keys {
			if e.Keys[i].K == "o" {
				e.Keys[i] = c19kv{K: "n"}
			}
		}
	}
	if x := r.Intn(100 * fatal); x < 4 {
		e.Id = "a"
	} else if x < 7 {
		e.Id = "b"
	}
	e.TyErr = r.Intn(50*fatal) == 0
	svc := []string{"probe", "probe", "probe", "alt"}[r.Intn(4)]
	switch x := r.Intn(100); {
	case x < 14:
		e.Method, e.Params = sp(svc+"_echo"), strArgs(g.newTag())
	case x < 22:
		e.Method = sp(svc + "_noarg")
		if r.Intn(4) == 0 {
			e.Params = strArgs(g.newTag()) // ignored by the server: no argTypes
		}
	case x < 28:
		e.Method, e.Params = sp(svc+"_ctxEcho"), strArgs(g.newTag())
	case x < 32:
		e.Method = sp(svc + "_fail")
	case x < 37:
		e.Method, e.Params = sp(svc+"_two"), strArgs(g.newTag(), g.newTag())
	case x < 41:
		e.Method = sp("rpc_modules")
	case x < 46: // known method, odd params
		m := []string{"echo", "two", "ctxEcho", "noarg"}[r.Intn(4)]
		e.Method, e.Params = sp(svc+"_"+m), g.oddParams(g.newTag())
	case x < 50:
		e.Method, e.Params = sp("nosuch_echo"), strArgs(g.newTag())
	case x < 54:
		e.Method = sp(svc + []string{"_nosuch", "_Echo", "_sub", "_subscription", "_"}[r.Intn(5)])
	case x < 60: // method names that do not split in two
		e.Method = sp([]string{"badmethod", "probe_echo_x", "", "_", "probe", "probe__echo", "a_b_c_d", "probe echo"}[r.Intn(8)])
		if r.Intn(2) == 0 {
			e.Params = strArgs(g.newTag())
		}
	case x < 62:
		e.Method = nil
	case x < 64:
		e.Method, e.Params = sp([]string{"Probe_echo", "PROBE_ECHO", "probe_echo ", " probe_echo"}[r.Intn(4)]), strArgs(g.newTag())
	case x < 76: // subscribe, good
		if r.Intn(3) == 0 {
			e.Method, e.Params = sp(svc+"_subscribe"), strArgs("subArg", g.newTag())
		} else {
			e.Method, e.Params = sp(svc+"_subscribe"), strArgs("sub")
		}
		if g.persistent && e.Shape == "o" && carries(e, g.apiKey) {
			g.subsSeen++
		}
	case x < 83: // subscribe, odd
		switch r.Intn(6) {
		case 0:
			e.Method, e.Params = sp(svc+"_subscribe"), g.oddParams("sub")
		case 1:
			e.Method, e.Params = sp(svc+"_subscribe"), g.oddParams("subArg")
		case 2:
			e.Method, e.Params = sp(svc+"_subscribe"), strArgs("nosuch")
		case 3:
			e.Method, e.Params = sp("nosuch_subscribe"), strArgs("sub")
		case 4:
			e.Method, e.Params = sp("_subscribe"), strArgs("sub")
		default: // the subscription name itself ends in _unsubscribe: routed to the unsubscribe branch (server.go:398)
			e.Method, e.Params = sp(svc+"_subscribe"), strArgs("x_unsubscribe")
		}
	case x < 95: // unsubscribe
		m := []string{svc + "_unsubscribe", svc + "_unsubscribe", "nosuch_unsubscribe", "_unsubscribe", "a_b_unsubscribe"}[r.Intn(5)]
		e.Method, e.Params = sp(m), strArgs(g.subRefArg())
	default: // unsubscribe, odd params
		e.Method, e.Params = sp(svc+"_unsubscribe"), g.oddParams(g.subRefArg())
	}
	g.render(&e, inBatch)
	return e
}

var c19garbage = []string{`}{`, `{"jsonrpc" 1}`, `nope`, `{'id':1}`, `{"id":1,}`, `[1,]`, `[}`, `{"key":"secret",]`, `@`, `tru e`}

func (g *c19gen) genMsg(transport string) c19msg {
	r := g.r
	var m c19msg
	switch x := r.Intn(100); {
	case x < 2:
		m = c19msg{Kind: "garbage", Text: c19garbage[r.Intn(len(c19garbage))]}
	case x < 55:
		e := g.genElem(false)
		m = c19msg{Kind: "single", Elems: []c19elem{e}}
	default:
		n := []int{0, 1, 2, 2, 2, 3, 3, 3, 4, 4, 5, 6, 8}[r.Intn(13)]
		m = c19msg{Kind: "batch", Elems: []c19elem{}}
		for i := 0; i < n; i++ {
			m.Elems = append(m.Elems, g.genElem(true))
		}
	}
	if transport == "http" && r.Intn(4) == 0 {
		m.Deco = 1 + r.Intn(4)
	}
	return m
}

func c19genCase(r *rand.Rand, maxMsgs int) c19case {
	cs := c19case{Transport: []string{"http", "http", "ws", "ws", "pipe", "ipc"}[r.Intn(6)],
		ApiKey: c19apiKeys[r.Intn(len(c19apiKeys))]}
	g := &c19gen{c19rend: c19rend{r: r, apiKey: cs.ApiKey}, persistent: cs.Transport != "http"}
	if g.persistent {
		maxMsgs += 4
		if r.Intn(5) < 2 { // start with one or two subscriptions made with the key, so that there is something to cancel
			for i, n := 0, 1+r.Intn(2); i < n; i++ {
				e := c19elem{Shape: "o", Id: "k", Keys: []c19kv{{K: "s", S: cs.ApiKey}}, Method: sp("probe_subscribe"), Params: strArgs("sub")}
				g.render(&e, false)
				cs.Msgs = append(cs.Msgs, c19msg{Kind: "single", Elems: []c19elem{e}})
				g.subsSeen++
			}
		}
	}
	for i, n := 0, 1+r.Intn(maxMsgs); i < n; i++ {
		cs.Msgs = append(cs.Msgs, g.genMsg(cs.Transport))
	}
	return cs
}

// ---- systematic: every batch of length <= L over a 12-shape alphabet ----

func c19alphabet(g *c19gen) []func() c19elem {
	k := g.apiKey
	right := []c19kv{{K: "s", S: k}}
	mk := func(keys []c19kv, method string, p c19params) func() c19elem {
		return func() c19elem {
			e := c19elem{Shape: "o", Id: "k", Keys: keys, Method: sp(method), Params: p}
			if method == "probe_echo" {
				e.Params = strArgs(g.newTag())
			}
			g.render(&e, true)
			return e
		}
	}
	rk := []rune(k)
	return []func() c19elem{
		mk(right, "probe_echo", c19params{}),
		mk(nil, "probe_echo", c19params{}),
		mk([]c19kv{{K: "s", S: string(rk[:len(rk)-1])}}, "probe_echo", c19params{}),
		mk([]c19kv{{K: "s", S: swapCase(k)}}, "probe_noarg", c19params{Kind: "a"}),
		mk([]c19kv{{K: "n"}}, "probe_echo", c19params{}),
		mk([]c19kv{{K: "s", S: "wrong"}, {K: "s", S: k}}, "probe_echo", c19params{}),
		mk([]c19kv{{K: "s", S: k}, {K: "s", S: ""}}, "probe_echo", c19params{}),
		mk(right, "probe_subscribe", strArgs("sub")),
		mk(nil, "probe_subscribe", strArgs("sub")),
		mk(nil, "probe_unsubscribe", strArgs("@0")),
		mk(right, "probe_unsubscribe", strArgs("@0")),
		mk(nil, "badmethod", c19params{Kind: "a"}),
		mk([]c19kv{{K: "o"}}, "probe_echo", c19params{}),
	}
}

// c19systematic: one case per (transport, batch) with a keyed subscription made first so that @0 exists
func c19systematic(r *rand.Rand, transport string, maxLen int, emit func(c19case)) {
	g := &c19gen{c19rend: c19rend{r: r, apiKey: "secret"}}
	alpha := c19alphabet(g)
	var rec func(prefix []int)
	rec = func(prefix []int) {
		if len(prefix) > 0 {
			cs := c19case{Transport: transport, ApiKey: "secret"}
			setup := c19elem{Shape: "o", Id: "k", Keys: []c19kv{{K: "s", S: "secret"}}, Method: sp("probe_subscribe"), Params: strArgs("sub")}
			g.render(&setup, false)
			cs.Msgs = append(cs.Msgs, c19msg{Kind: "single", Elems: []c19elem{setup}})
			b := c19msg{Kind: "batch"}
			for _, i := range prefix {
				b.Elems = append(b.Elems, alpha[i]())
			}
			cs.Msgs = append(cs.Msgs, b)
			if len(prefix) == 1 {
				one := alpha[prefix[0]]()
				one.Text = ""
				g.render(&one, false)
				cs.Msgs = append(cs.Msgs, c19msg{Kind: "single", Elems: []c19elem{one}})
			}
			emit(cs)
		}
		if len(prefix) == maxLen {
			return
		}
		for i := range alpha {
			rec(append(append([]int{}, prefix...), i))
		}
	}
	rec(nil)
}
