package main

// Child-process plumbing: every channel body runs in a re-exec'd child.  The child writes its streams into <out>/child
// and, before every operation, the case in flight into <out>/inflight.json.  The parent merges the child's streams and
// report; if the child dies (Go "fatal error", unrecovered panic, signal) the death is an oracle failure
// (C14:put-refusal-corrupts-lock for "unlock of unlocked mutex", else C14:pool-process-died) whose replay is the
// operation sequence that was in flight, shrunk by re-running candidates in further children.

import (
	"bufio"
	"bytes"
	"encoding/json"
	"fmt"
	"os"
	"os/exec"
	"path/filepath"
	"strings"
	"time"

	"verifharness/internal/hx"
)

var c14inflightPath = os.Getenv("VERIF_C14_INFLIGHT")

// c14inflight records the case up to and including operation i (called right before it runs).
func c14inflight(cs *c14case, i int) {
	if c14inflightPath == "" {
		return
	}
	cp := *cs
	if i+1 < len(cp.Ops) {
		cp.Ops = cp.Ops[:i+1]
	}
	b, _ := json.Marshal(map[string]interface{}{"replay": cp})
	os.WriteFile(c14inflightPath, b, 0644)
}

type c14childResult struct {
	rc     int
	died   bool
	stderr string
}

func c14runChild(channel, tier string, seed int64, out, replay, inflight string) c14childResult {
	args := []string{channel, "-tier", tier, "-seed", fmt.Sprint(seed), "-out", out}
	if replay != "" {
		args = append(args, "-replay", replay)
	}
	cmd := exec.Command(os.Args[0], args...)
	cmd.Env = append(os.Environ(), "VERIF_C14_CHILD=1", "VERIF_C14_INFLIGHT="+inflight)
	var eb bytes.Buffer
	cmd.Stderr = &eb
	err := cmd.Run()
	res := c14childResult{}
	se := eb.String()
	if len(se) > 6000 {
		se = se[:3000] + "\n...\n" + se[len(se)-3000:]
	}
	res.stderr = se
	if err != nil {
		res.rc = -1
		if ee, ok := err.(*exec.ExitError); ok {
			res.rc = ee.ExitCode()
		}
		// hx.Main exits 3 for a channel error and 2 for usage errors with a one-line message; the Go runtime exits 2
		// with "fatal error:" / "panic:" and goroutine traces, or the process is killed by a signal (-1)
		res.died = res.rc == -1 || strings.Contains(se, "fatal error:") || strings.Contains(se, "panic:") || strings.Contains(se, "goroutine ")
	}
	return res
}

func c14deathLine(se string) string {
	for _, l := range strings.Split(se, "\n") {
		if strings.HasPrefix(l, "fatal error:") || strings.HasPrefix(l, "panic:") || strings.HasPrefix(l, "signal:") {
			return strings.TrimSpace(l)
		}
	}
	return "process ended abnormally"
}

func c14viaChild(c *hx.Ctx, channel string, body func(c *hx.Ctx) error) error {
	if os.Getenv("VERIF_C14_CHILD") == "1" {
		return body(c)
	}
	childOut := filepath.Join(c.Out, "child")
	inflight := filepath.Join(c.Out, "inflight.json")
	os.RemoveAll(childOut)
	os.Remove(inflight)
	res := c14runChild(channel, c.Tier, c.Seed, childOut, c.Replay, inflight)
	// merge the child's protocol streams (complete cases only if the child died: its buffers were not flushed)
	ops := c14readLines(filepath.Join(childOut, "ops.txt"))
	impl := c14readLines(filepath.Join(childOut, "impl.txt"))
	n := len(ops)
	if len(impl) < n {
		n = len(impl)
	}
	if res.died {
		for n > 0 && !strings.HasPrefix(ops[n-1], "new") {
			n--
		}
		if n > 0 {
			n-- // drop the started case
		}
	}
	for i := 0; i < n; i++ {
		c.Line(ops[i], impl[i])
	}
	if b, err := os.ReadFile(filepath.Join(childOut, "report.json")); err == nil {
		var rep hx.Report
		if json.Unmarshal(b, &rep) == nil {
			c.Rep.Evaluations, c.Rep.Distinct, c.Rep.Rule = rep.Evaluations, rep.Distinct, rep.Rule
			c.Rep.Samples, c.Rep.Notes = rep.Samples, rep.Notes
			for _, f := range rep.Failures {
				c.Fail(f.Signature, f.Detail, f.Replay)
			}
			if d, ok := rep.Coverage["distribution"].(map[string]interface{}); ok {
				for k, v := range d {
					if x, ok := v.(float64); ok {
						for j := 0; j < int(x); j++ {
							c.Hit(k)
						}
					}
				}
			}
		}
	}
	if !res.died {
		if res.rc != 0 {
			return fmt.Errorf("child process of channel %s failed (rc %d): %s", channel, res.rc, res.stderr)
		}
		return nil
	}
	sig := "C14:pool-process-died"
	if strings.Contains(res.stderr, "unlock of unlocked mutex") {
		sig = "C14:put-refusal-corrupts-lock"
	}
	var replay interface{} = map[string]interface{}{"concurrent": channel == "C14conc", "seed": c.Seed, "note": "no case in flight was recorded"}
	last := ""
	if b, err := os.ReadFile(inflight); err == nil {
		var wrap struct {
			Replay c14case `json:"replay"`
		}
		if json.Unmarshal(b, &wrap) == nil && len(wrap.Replay.Ops) > 0 {
			cs := c14shrinkDeath(c, channel, wrap.Replay)
			replay = cs
			lb, _ := json.Marshal(cs.Ops[len(cs.Ops)-1])
			last = fmt.Sprintf("; last operation of the %d in flight: %s", len(cs.Ops), lb)
		}
	}
	if c.Rep.Rule == "" {
		c.Rep.Rule = "the channel's child process died before it could write its report"
	}
	c.Hit("child-process-died")
	c.Fail(sig, fmt.Sprintf("the process running the real pool died: %s%s", c14deathLine(res.stderr), last), replay)
	return nil
}

// c14shrinkDeath drops operations while a child replaying the case still dies (bounded by time and runs).
func c14shrinkDeath(c *hx.Ctx, channel string, cs c14case) c14case {
	dir := filepath.Join(c.Out, "shrink")
	os.MkdirAll(dir, 0755)
	defer os.RemoveAll(dir)
	dies := func(t c14case) bool {
		b, _ := json.Marshal(map[string]interface{}{"replay": t})
		rp := filepath.Join(dir, "case.json")
		os.WriteFile(rp, b, 0644)
		r := c14runChild(channel, "quick", c.Seed, filepath.Join(dir, "out"), rp, filepath.Join(dir, "inflight.json"))
		return r.died
	}
	deadline := time.Now().Add(45 * time.Second)
	if !dies(cs) {
		return cs // not reproducible by a replay (schedule dependent): keep the recorded sequence
	}
	// first try big cuts of the prefix, then single operations (the last operation is the one that killed the process)
	for chunk := len(cs.Ops) / 2; chunk >= 1; chunk /= 2 {
		for i := len(cs.Ops) - 1 - chunk; i >= 0 && time.Now().Before(deadline); i -= chunk {
			t := cs
			t.Ops = append(append([]c14op{}, cs.Ops[:i]...), cs.Ops[i+chunk:]...)
			if dies(t) {
				cs = t
			}
		}
	}
	return cs
}

func c14readLines(p string) []string {
	f, err := os.Open(p)
	if err != nil {
		return nil
	}
	defer f.Close()
	var out []string
	sc := bufio.NewScanner(f)
	sc.Buffer(make([]byte, 1<<20), 64<<20)
	for sc.Scan() {
		out = append(out, sc.Text())
	}
	return out
}
