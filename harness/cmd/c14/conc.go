package main

// Channel C14conc — concurrency OBSERVATION (exploration, not a proof; no Lean model behind it): the real pool of node B
// on the real two-node chain under concurrent submitters, a list builder and a block driver.  Submitters also hand
// "foreign twins" (same sender and nonce, different hash) to the proposing node only, so that B's resets must drop
// leftovers the block does not list (nonce consumed by a foreign transaction, invalidation cascades).
// Watchdog: no single operation may block longer than 20 s (goroutine dump goes into the replay) => C14:deadlock;
// panics (recovered per goroutine, and the ones `add` converts into errors) => C14:panic; after quiescence the
// containers and lookups must be coherent.  Data races are NOT looked for (known open finding F13, kept by the lead).

import (
	"encoding/json"
	"fmt"
	"math/rand"
	"os"
	"runtime"
	"strings"
	"sync"
	"sync/atomic"
	"time"

	"github.com/idena-network/idena-go/blockchain/fee"
	"github.com/idena-network/idena-go/blockchain/types"
	"github.com/idena-network/idena-go/blockchain/validation"
	"github.com/idena-network/idena-go/common"
	"github.com/idena-network/idena-go/stats/collector"

	"verifharness/internal/hx"
)

const c14stall = 20 * time.Second

func c14isConcReplay(b []byte) bool {
	var conc struct {
		Replay struct {
			Concurrent bool `json:"concurrent"`
		} `json:"replay"`
	}
	return json.Unmarshal(b, &conc) == nil && conc.Replay.Concurrent
}

type c14slot struct {
	name  string
	what  atomic.Value // string
	since int64        // unix nano of the running operation's start; 0 = idle
}

func (s *c14slot) do(what string, f func()) {
	s.what.Store(what)
	atomic.StoreInt64(&s.since, time.Now().UnixNano())
	f()
	atomic.StoreInt64(&s.since, 0)
}

func c14concurrent(c *hx.Ctx, dur time.Duration, seed int64) error {
	nSub := 6
	cs := &c14case{Cfg: c14cfg{ES: 16, QS: 16, AEL: 8, AQL: 8}, NS: nSub}
	for i := 0; i < cs.NS; i++ {
		cs.Cand = append(cs.Cand, false)
		cs.Bal = append(cs.Bal, 100000000)
	}
	w, err := c14newWorld(cs)
	if err != nil {
		return err
	}
	if _, err := w.mine(0); err != nil {
		return err
	}
	B, A := w.B, w.A
	replay := map[string]interface{}{"concurrent": true, "seed": seed, "note": "schedule dependent: a replay re-runs the observation with the same seed, not the same schedule"}
	var mu sync.Mutex
	var problems [][2]string
	note := func(sig, f string, a ...interface{}) {
		mu.Lock()
		if len(problems) < 5 {
			problems = append(problems, [2]string{sig, fmt.Sprintf(f, a...)})
		}
		mu.Unlock()
	}
	var submitted, twins, built, blocks, leftovers int64
	stop := make(chan struct{})
	var wg sync.WaitGroup
	var slots []*c14slot
	spawn := func(name string, f func(r *rand.Rand, s *c14slot)) {
		s := &c14slot{name: name}
		s.what.Store("")
		slots = append(slots, s)
		wg.Add(1)
		k := int64(len(slots))
		go func() {
			defer wg.Done()
			defer func() {
				if rec := recover(); rec != nil {
					atomic.StoreInt64(&s.since, 0)
					note("C14:panic", "%s panicked during %v: %v", name, s.what.Load(), rec)
				}
			}()
			f(rand.New(rand.NewSource(seed*131+k)), s)
		}()
	}
	running := func() bool {
		select {
		case <-stop:
			return false
		default:
			return true
		}
	}
	sign := func(i int, n uint32, amt int64) *types.Transaction {
		to := w.addrs[(i+1)%cs.NS]
		tx := &types.Transaction{Type: types.SendTx, AccountNonce: n, Epoch: 0, To: &to, Amount: milliDna(amt), MaxFee: milliDna(10)}
		stx, _ := types.SignTx(tx, w.keys[i])
		return stx
	}
	for i := 0; i < nSub; i++ {
		i := i
		spawn(fmt.Sprintf("submitter-%d", i), func(r *rand.Rand, s *c14slot) {
			for running() {
				var st uint32
				s.do("State.GetNonce", func() { st = B.app.State.GetNonce(w.addrs[i]) })
				n := st + 1 + uint32(r.Intn(4))
				tx := sign(i, n, int64(1+r.Intn(9)))
				var e error
				if r.Intn(4) == 0 {
					s.do("AddInternalTx", func() { e = B.pool.AddInternalTx(tx) })
				} else {
					s.do("AddExternalTxs", func() { e = B.pool.AddExternalTxs(validation.InboundTx, tx) })
				}
				if c14class(e) == "panic" {
					note("C14:panic", "add recovered a panic: %v", e)
				}
				switch r.Intn(3) {
				case 0: // the proposer gets a foreign twin: same sender and nonce, another hash
					tw := sign(i, n, int64(20+r.Intn(9)))
					s.do("A.AddExternalTxs", func() { A.pool.AddExternalTxs(validation.InboundTx, tw) })
					atomic.AddInt64(&twins, 1)
				case 1: // the proposer gets the same transaction
					cp := new(types.Transaction)
					b, _ := tx.ToBytes()
					cp.FromBytes(b)
					s.do("A.AddExternalTxs", func() { A.pool.AddExternalTxs(validation.InboundTx, cp) })
				}
				s.do("lookups", func() {
					B.pool.GetPendingByAddress(w.addrs[i])
					B.pool.GetPendingTransaction(false, true, common.MultiShard, true)
					B.pool.GetTx(tx.Hash())
				})
				atomic.AddInt64(&submitted, 1)
				time.Sleep(time.Duration(200+r.Intn(800)) * time.Microsecond)
			}
		})
	}
	spawn("builder", func(r *rand.Rand, s *c14slot) {
		for running() {
			var l []*types.Transaction
			s.do("BuildBlockTransactions", func() { l = B.pool.BuildBlockTransactions() })
			last := map[common.Address]uint32{}
			seen := map[common.Hash]bool{}
			gas := uint64(0)
			for _, tx := range l {
				a, _ := types.Sender(tx)
				if p, ok := last[a]; ok && tx.AccountNonce != p+1 {
					note("C14:build-nonconsecutive", "concurrent build: nonce %d after %d", tx.AccountNonce, p)
				}
				last[a] = tx.AccountNonce
				if seen[tx.Hash()] {
					note("C14:build-dup", "concurrent build offers a transaction twice")
				}
				seen[tx.Hash()] = true
				gas += uint64(fee.CalculateGas(tx))
			}
			if gas > w.gasCap {
				note("C14:build-gas", "concurrent build: %d gas", gas)
			}
			atomic.AddInt64(&built, 1)
			time.Sleep(time.Millisecond)
		}
	})
	spawn("chain", func(r *rand.Rand, s *c14slot) {
		for k := 0; running(); k++ {
			w.now += 20
			common.VerifSetTime(time.Unix(w.now, 0))
			var prop *types.BlockProposal
			s.do("A.ProposeBlock", func() { prop = A.chain.ProposeBlock([]byte{}) })
			blk := c14clone(prop.Block)
			var e error
			s.do("A.AddBlock", func() { e = A.chain.AddBlock(prop.Block, nil, collector.NewStatsCollector()) })
			if e != nil {
				note("C14:chain", "A rejects its own block: %v", e)
				return
			}
			syncRound := k%7 == 5
			if syncRound {
				s.do("StartSync", func() { B.chain.StartSync() })
			}
			s.do("B.AddBlock(ResetTo)", func() { e = B.chain.AddBlock(blk, nil, collector.NewStatsCollector()) })
			if e != nil {
				note("C14:chain", "B rejects the block: %v", e)
				return
			}
			if syncRound {
				time.Sleep(3 * time.Millisecond)
				s.do("StopSync", func() { B.chain.StopSync() })
			}
			if len(blk.Body.Transactions) > 0 {
				atomic.AddInt64(&leftovers, 1)
			}
			atomic.AddInt64(&blocks, 1)
			time.Sleep(time.Duration(15+r.Intn(25)) * time.Millisecond)
		}
	})
	// watchdog
	deadline := time.Now().Add(dur)
	stopped := false
	done := make(chan struct{})
	for {
		time.Sleep(250 * time.Millisecond)
		if !stopped && time.Now().After(deadline) {
			close(stop)
			stopped = true
			go func() { wg.Wait(); close(done) }()
		}
		now := time.Now().UnixNano()
		var stuck []string
		for _, s := range slots {
			if t := atomic.LoadInt64(&s.since); t != 0 && now-t > int64(c14stall) {
				stuck = append(stuck, fmt.Sprintf("%s in %v for %.0f s", s.name, s.what.Load(), float64(now-t)/1e9))
			}
		}
		if len(stuck) > 0 {
			buf := make([]byte, 4<<20)
			n := runtime.Stack(buf, true)
			var keep []string
			for _, g := range strings.Split(string(buf[:n]), "\n\n") {
				if strings.Contains(g, "core/mempool") || strings.Contains(g, "nonce_cache") {
					if len(g) > 1500 {
						g = g[:1500]
					}
					keep = append(keep, g)
				}
			}
			if len(keep) > 12 {
				keep = keep[:12]
			}
			replay["goroutines"] = keep
			replay["stuck"] = stuck
			c.Fail("C14:deadlock", fmt.Sprintf("operations blocked longer than %v: %s (%d submissions, %d blocks so far)", c14stall, strings.Join(stuck, "; "), atomic.LoadInt64(&submitted), atomic.LoadInt64(&blocks)), replay)
			return nil
		}
		if stopped {
			select {
			case <-done:
			default:
				continue
			}
			break
		}
	}
	// quiescent coherence
	d := B.pool.VerifDump()
	inAll := map[common.Hash]bool{}
	for _, tx := range d.All {
		inAll[tx.Hash()] = true
	}
	cnt := 0
	for _, q := range d.Exec {
		if len(q) == 0 {
			note("C14:lookup-incoherent", "empty executable entry after the concurrent run")
		}
		for i, tx := range q {
			cnt++
			if !inAll[tx.Hash()] {
				note("C14:lookup-incoherent", "executable transaction missing from the hash index after the concurrent run")
			}
			if i > 0 && (q[i-1].AccountNonce >= tx.AccountNonce || q[i-1].Epoch != tx.Epoch) {
				note("C14:exec-unsorted", "executable queue not strictly increasing after the concurrent run")
			}
		}
	}
	for _, q := range d.Pend {
		for _, tx := range q {
			cnt++
			if !inAll[tx.Hash()] {
				note("C14:lookup-incoherent", "pending transaction missing from the hash index after the concurrent run")
			}
		}
	}
	if cnt != len(d.All) || d.Short != len(d.All) {
		note("C14:lookup-incoherent", "after the concurrent run the hash index has %d entries, the short index %d, the queues %d", len(d.All), d.Short, cnt)
	}
	for _, tx := range d.All {
		if B.pool.GetTx(tx.Hash()) == nil {
			note("C14:lookup-incoherent", "GetTx misses a transaction of the hash index after the concurrent run")
		}
	}
	for _, p := range problems {
		c.Fail(p[0], p[1], replay)
	}
	c.Hit("concurrent:runs")
	c.Rep.Notes = append(c.Rep.Notes, fmt.Sprintf("concurrency observation (%v, %d submitters + builder + chain/sync driver): %d submissions (%d foreign twins), %d builds, %d blocks (%d with transactions), %d problems; no operation blocked longer than %v",
		dur, nSub, submitted, twins, built, blocks, leftovers, len(problems), c14stall))
	c.Sample(map[string]interface{}{"submissions": submitted, "foreign_twins": twins, "builds": built, "blocks": blocks, "blocks_with_txs": leftovers})
	return nil
}

func init() {
	hx.Register("C14conc", func(c *hx.Ctx) error { return c14viaChild(c, "C14conc", c14concChannel) })
}

func c14concChannel(c *hx.Ctx) error {
	{
		defer os.RemoveAll("./testdata")
		defer os.RemoveAll("./testdata2")
		seed := c.Seed
		if c.Replay != "" {
			b, err := os.ReadFile(c.Replay)
			if err != nil {
				return err
			}
			if !c14isConcReplay(b) {
				return nil // a replay of the sequential channel (C14)
			}
			var conc struct {
				Replay struct {
					Seed int64 `json:"seed"`
				} `json:"replay"`
			}
			json.Unmarshal(b, &conc)
			seed = conc.Replay.Seed
		}
		dur := 10 * time.Second
		if c.Tier == "thorough" {
			dur = 90 * time.Second
		}
		c.Rep.Rule = "OBSERVATION (exploration, not a proof): one real-time run of the real TxPool under 6 concurrent submitters (external/internal, gapped nonces, foreign twins handed to the proposing node only), a list builder and a block/sync driver (really mined blocks, ResetTo, every 7th block inside StartSync/StopSync); watchdog 20 s per operation, panic capture, list clauses on every concurrent build, container coherence after quiescence"
		if err := c14concurrent(c, dur, seed); err != nil {
			return err
		}
		c.Rep.Evaluations = 1
		c.Rep.Distinct = 1
		return nil
	}
}
