package main

// Concurrency observation (thorough tier only; not part of any theorem): the same real pool under concurrent
// submitters, a list builder and a block/sync driver.  Detects deadlocks (timeout + goroutine dump), panics (recovered
// per goroutine; `add` itself converts panics into errors, which are counted), incoherent lists and an incoherent
// pool after quiescence.  Data races are NOT looked for here (known open finding F13 is kept by the lead).

import (
	"fmt"
	"math/rand"
	"runtime"
	"strings"
	"sync"
	"sync/atomic"
	"time"

	"github.com/idena-network/idena-go/blockchain/fee"
	"github.com/idena-network/idena-go/blockchain/types"
	"github.com/idena-network/idena-go/blockchain/validation"
	"github.com/idena-network/idena-go/common"
	"github.com/idena-network/idena-go/stats/collector"

	"verifharness/internal/hx"
)

func c14concurrent(c *hx.Ctx, dur time.Duration, seed int64) error {
	cs := &c14case{Cfg: c14cfg{ES: 8, QS: 8, AEL: 6, AQL: 6}, NS: 6}
	for i := 0; i < cs.NS; i++ {
		cs.Cand = append(cs.Cand, false)
		cs.Bal = append(cs.Bal, 100000000)
	}
	w, err := c14newWorld(cs)
	if err != nil {
		return err
	}
	if _, err := w.mine(0); err != nil {
		return err
	}
	B, A := w.B, w.A
	var mu sync.Mutex
	var problems []string
	note := func(sig, f string, a ...interface{}) {
		mu.Lock()
		if len(problems) < 5 {
			problems = append(problems, sig+"|"+fmt.Sprintf(f, a...))
		}
		mu.Unlock()
	}
	var submitted, built, blocks, swallowed int64
	stop := make(chan struct{})
	var wg sync.WaitGroup
	spawn := func(name string, f func(r *rand.Rand)) {
		wg.Add(1)
		go func() {
			defer wg.Done()
			defer func() {
				if rec := recover(); rec != nil {
					note("C14:panic-concurrent", "%s panicked: %v", name, rec)
				}
			}()
			f(rand.New(rand.NewSource(seed*131 + int64(len(name)))))
		}()
	}
	running := func() bool {
		select {
		case <-stop:
			return false
		default:
			return true
		}
	}
	for i := 0; i < cs.NS; i++ {
		i := i
		spawn(fmt.Sprintf("submitter-%d", i), func(r *rand.Rand) {
			for running() {
				st := B.app.State
				n := st.GetNonce(w.addrs[i]) + 1 + uint32(r.Intn(5))
				to := w.addrs[r.Intn(cs.NS)]
				tx := &types.Transaction{Type: types.SendTx, AccountNonce: n, Epoch: 0, To: &to, Amount: milliDna(int64(1 + r.Intn(9))), MaxFee: milliDna(10)}
				stx, _ := types.SignTx(tx, w.keys[i])
				var e error
				if r.Intn(3) == 0 {
					e = B.pool.AddInternalTx(stx)
				} else {
					e = B.pool.AddExternalTxs(validation.InboundTx, stx)
				}
				if c14class(e) == "panic" {
					atomic.AddInt64(&swallowed, 1)
					note("C14:panic-concurrent", "add recovered a panic: %v", e)
				}
				if r.Intn(2) == 0 {
					cp := new(types.Transaction)
					b, _ := stx.ToBytes()
					cp.FromBytes(b)
					A.pool.AddExternalTxs(validation.InboundTx, cp)
				}
				B.pool.GetPendingByAddress(w.addrs[i])
				B.pool.GetPendingTransaction(false, true, common.MultiShard, true)
				B.pool.GetTx(stx.Hash())
				atomic.AddInt64(&submitted, 1)
				time.Sleep(time.Duration(200+r.Intn(800)) * time.Microsecond)
			}
		})
	}
	spawn("builder", func(r *rand.Rand) {
		for running() {
			l := B.pool.BuildBlockTransactions()
			last := map[common.Address]uint32{}
			seen := map[common.Hash]bool{}
			gas := uint64(0)
			for _, tx := range l {
				a, _ := types.Sender(tx)
				if p, ok := last[a]; ok && tx.AccountNonce != p+1 {
					note("C14:build-nonconsecutive", "concurrent build: nonce %d after %d", tx.AccountNonce, p)
				}
				last[a] = tx.AccountNonce
				if seen[tx.Hash()] {
					note("C14:build-dup", "concurrent build offers a transaction twice")
				}
				seen[tx.Hash()] = true
				gas += uint64(fee.CalculateGas(tx))
			}
			if gas > w.gasCap {
				note("C14:build-gas", "concurrent build: %d gas", gas)
			}
			atomic.AddInt64(&built, 1)
			time.Sleep(time.Millisecond)
		}
	})
	spawn("chain", func(r *rand.Rand) {
		for k := 0; running(); k++ {
			w.now += 20
			common.VerifSetTime(time.Unix(w.now, 0))
			prop := A.chain.ProposeBlock([]byte{})
			blk := c14clone(prop.Block)
			if e := A.chain.AddBlock(prop.Block, nil, collector.NewStatsCollector()); e != nil {
				note("C14:chain", "A rejects its own block: %v", e)
				return
			}
			syncRound := k%5 == 3
			if syncRound {
				B.chain.StartSync()
			}
			if e := B.chain.AddBlock(blk, nil, collector.NewStatsCollector()); e != nil {
				note("C14:chain", "B rejects the block: %v", e)
				return
			}
			if syncRound {
				time.Sleep(5 * time.Millisecond)
				B.chain.StopSync()
			}
			atomic.AddInt64(&blocks, 1)
			time.Sleep(time.Duration(20+r.Intn(30)) * time.Millisecond)
		}
	})
	time.Sleep(dur)
	close(stop)
	done := make(chan struct{})
	go func() { wg.Wait(); close(done) }()
	select {
	case <-done:
	case <-time.After(60 * time.Second):
		buf := make([]byte, 1<<20)
		n := runtime.Stack(buf, true)
		dump := string(buf[:n])
		var keep []string
		for _, g := range strings.Split(dump, "\n\n") {
			if strings.Contains(g, "mempool") || strings.Contains(g, "nonce_cache") {
				keep = append(keep, g)
			}
		}
		c.Fail("C14:deadlock", "drivers did not finish within 60 s after the stop signal; goroutines in the pool:\n"+strings.Join(keep, "\n\n"), map[string]interface{}{"concurrent": true, "seed": seed})
		return nil
	}
	// quiescent coherence
	d := B.pool.VerifDump()
	inAll := map[common.Hash]bool{}
	for _, tx := range d.All {
		inAll[tx.Hash()] = true
	}
	cnt := 0
	for _, q := range d.Exec {
		if len(q) == 0 {
			note("C14:lookup-incoherent", "empty executable entry after the concurrent run")
		}
		for i, tx := range q {
			cnt++
			if !inAll[tx.Hash()] {
				note("C14:lookup-incoherent", "executable transaction missing from the hash index after the concurrent run")
			}
			if i > 0 && (q[i-1].AccountNonce >= tx.AccountNonce || q[i-1].Epoch != tx.Epoch) {
				note("C14:exec-unsorted", "executable queue not strictly increasing after the concurrent run")
			}
		}
	}
	for _, q := range d.Pend {
		for _, tx := range q {
			cnt++
			if !inAll[tx.Hash()] {
				note("C14:lookup-incoherent", "pending transaction missing from the hash index after the concurrent run")
			}
		}
	}
	if cnt != len(d.All) {
		note("C14:lookup-incoherent", "after the concurrent run the hash index has %d entries, the queues %d", len(d.All), cnt)
	}
	for _, p := range problems {
		i := strings.Index(p, "|")
		c.Fail(p[:i], p[i+1:], map[string]interface{}{"concurrent": true, "seed": seed, "note": "schedule dependent; rerun ./check C14 --tier thorough"})
	}
	c.Hit("concurrent:runs")
	c.Rep.Notes = append(c.Rep.Notes, fmt.Sprintf("concurrency observation (%v, 6 submitters + builder + chain/sync driver): %d submissions, %d builds, %d blocks, %d panics recovered inside add, %d problems; no deadlock",
		dur, submitted, built, blocks, swallowed, len(problems)))
	return nil
}
