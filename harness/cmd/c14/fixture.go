package main

// Two real nodes over MemDBs with the same genesis: A proposes every block (its own pool receives the
// "foreign" transactions), B is the node whose TxPool is under test.  Keys and clock are deterministic.

import (
	"crypto/ecdsa"
	"fmt"
	"math/big"
	"time"

	"github.com/idena-network/idena-go/blockchain"
	"github.com/idena-network/idena-go/blockchain/types"
	"github.com/idena-network/idena-go/blockchain/validation"
	"github.com/idena-network/idena-go/common"
	"github.com/idena-network/idena-go/common/eventbus"
	"github.com/idena-network/idena-go/config"
	"github.com/idena-network/idena-go/core/appstate"
	"github.com/idena-network/idena-go/core/mempool"
	"github.com/idena-network/idena-go/core/state"
	"github.com/idena-network/idena-go/core/upgrade"
	"github.com/idena-network/idena-go/crypto"
	"github.com/idena-network/idena-go/ipfs"
	"github.com/idena-network/idena-go/keystore"
	"github.com/idena-network/idena-go/secstore"
	"github.com/idena-network/idena-go/stats/collector"
	"github.com/idena-network/idena-go/subscriptions"
	dbm "github.com/tendermint/tm-db"
)

const c14T0 = int64(1700000000) // virtual time of the first block

type c14node struct {
	chain *blockchain.Blockchain
	app   *appstate.AppState
	pool  *mempool.TxPool
}

func c14key(label string) *ecdsa.PrivateKey {
	h := crypto.Hash([]byte("verif-c14-" + label))
	k, err := crypto.ToECDSA(h[:])
	if err != nil {
		panic(err)
	}
	return k
}

func milliDna(n int64) *big.Int {
	return new(big.Int).Mul(big.NewInt(n), new(big.Int).Div(common.DnaBase, big.NewInt(1000)))
}

func c14start(nodeKey *ecdsa.PrivateKey, cfg *config.Config) (n *c14node, err error) {
	defer func() {
		if r := recover(); r != nil {
			err = fmt.Errorf("startup panic: %v", r)
		}
	}()
	db := dbm.NewMemDB()
	bus := eventbus.New()
	app, e := appstate.NewAppState(db, bus)
	if e != nil {
		return nil, e
	}
	ss := secstore.NewSecStore()
	ss.AddKey(crypto.FromECDSA(nodeKey))
	txPool := mempool.NewTxPool(app, bus, cfg, collector.NewStatsCollector())
	offline := blockchain.NewOfflineDetector(cfg, db, app, ss, bus)
	ks := keystore.NewKeyStore("./testdata", keystore.StandardScryptN, keystore.StandardScryptP)
	sm, _ := subscriptions.NewManager("./testdata2")
	up := upgrade.NewUpgrader(cfg, app, db)
	chain := blockchain.NewBlockchain(cfg, db, txPool, app, ipfs.NewMemoryIpfsProxy(), ss, bus, offline, ks, sm, up)
	// the validation ceremony itself is not attached: every epoch ends as a failed validation (identities kept)
	chain.ProvideApplyNewEpochFunc(func(height uint64, appState *appstate.AppState, c collector.StatsCollector) types.TotalValidationResult {
		return types.TotalValidationResult{Failed: true, ShardResults: map[common.ShardId]*types.ValidationResults{}}
	})
	if e := chain.InitializeChain(); e != nil {
		return nil, fmt.Errorf("InitializeChain: %v", e)
	}
	if e := app.Initialize(chain.Head.Height()); e != nil {
		return nil, fmt.Errorf("Initialize: %v", e)
	}
	txPool.Initialize(chain.Head, ss.GetAddress(), false)
	return &c14node{chain, app, txPool}, nil
}

type c14world struct {
	A, B    *c14node
	keys    []*ecdsa.PrivateKey
	addrs   []common.Address
	idx     map[common.Address]int
	now     int64
	cfgB    *config.Config
	gasCap  uint64
	session bool
}

func c14mkcfg(cs *c14case, god common.Address, alloc map[common.Address]config.GenesisAllocation, mp *config.Mempool) *config.Config {
	ccfg := blockchain.GetDefaultConsensusConfig()
	ccfg.Automine = true
	first := int64(4070908800)
	if cs.Ceremony > 0 {
		first = c14T0 + int64(cs.Ceremony)
	}
	return &config.Config{Network: 0x99, Consensus: ccfg,
		GenesisConf: &config.GenesisConf{Alloc: alloc, GodAddress: god, FirstCeremonyTime: first},
		Validation: &config.ValidationConfig{ValidationInterval: 400 * time.Second, FlipLotteryDuration: 40 * time.Second,
			ShortSessionDuration: 40 * time.Second, LongSessionDuration: 40 * time.Second},
		Blockchain: &config.BlockchainConfig{}, OfflineDetection: config.GetDefaultOfflineDetectionConfig(), Mempool: mp}
}

func c14newWorld(cs *c14case) (*c14world, error) {
	w := &c14world{idx: map[common.Address]int{}}
	gkey := c14key("god")
	god := crypto.PubkeyToAddress(gkey.PublicKey)
	alloc := map[common.Address]config.GenesisAllocation{god: {Balance: milliDna(1000000)}}
	for i := 0; i < cs.NS; i++ {
		k := c14key(fmt.Sprintf("sender-%d", i))
		a := crypto.PubkeyToAddress(k.PublicKey)
		w.keys = append(w.keys, k)
		w.addrs = append(w.addrs, a)
		w.idx[a] = i
		ga := config.GenesisAllocation{Balance: milliDna(cs.Bal[i])}
		if cs.Cand[i] {
			ga.State = uint8(state.Candidate)
		}
		alloc[a] = ga
	}
	for i := 0; i < cs.Net; i++ {
		h := crypto.Hash([]byte(fmt.Sprintf("verif-c14-dummy-%d", i)))
		alloc[common.BytesToAddress(h[:20])] = config.GenesisAllocation{State: uint8(state.Verified)}
	}
	common.VerifSetTime(time.Unix(c14T0, 0))
	w.now = c14T0
	cfgA := c14mkcfg(cs, god, alloc, config.GetDefaultMempoolConfig())
	w.cfgB = c14mkcfg(cs, god, alloc, &config.Mempool{TxPoolQueueSlots: cs.Cfg.QS, TxPoolExecutableSlots: cs.Cfg.ES,
		TxPoolAddrQueueLimit: cs.Cfg.AQL, TxPoolAddrExecutableLimit: cs.Cfg.AEL, ResetInCeremony: cs.Cfg.RIC})
	validation.SetAppConfig(cfgA)
	var err error
	if w.A, err = c14start(gkey, cfgA); err != nil {
		return nil, err
	}
	if w.B, err = c14start(w.keys[0], w.cfgB); err != nil {
		return nil, err
	}
	if w.A.chain.Head.Hash() != w.B.chain.Head.Hash() {
		return nil, fmt.Errorf("genesis differs between the two nodes")
	}
	w.gasCap = types.MaxBlockSize(w.cfgB.Consensus.EnableUpgrade11)
	return w, nil
}

func c14clone(b *types.Block) *types.Block {
	data, _ := b.ToBytes()
	nb := &types.Block{}
	if err := nb.FromBytes(data); err != nil {
		panic(err)
	}
	return nb
}

// mine: A proposes at virtual time now+dt and inserts; B inserts the same block (pool reset unless B is syncing).
func (w *c14world) mine(dt int64) (blk *types.Block, err error) {
	defer func() {
		if r := recover(); r != nil {
			err = fmt.Errorf("panic while mining: %v", r)
		}
	}()
	w.now += dt
	common.VerifSetTime(time.Unix(w.now, 0))
	prop := w.A.chain.ProposeBlock([]byte{})
	if prop == nil || prop.Block == nil {
		return nil, fmt.Errorf("no proposal")
	}
	blk = c14clone(prop.Block)
	if e := w.A.chain.AddBlock(prop.Block, nil, collector.NewStatsCollector()); e != nil {
		return nil, fmt.Errorf("A rejects its own block: %v", e)
	}
	if e := w.B.chain.AddBlock(blk, nil, collector.NewStatsCollector()); e != nil {
		return nil, fmt.Errorf("B rejects A's block: %v", e)
	}
	return blk, nil
}
