package main

import (
	"sort"

	"github.com/idena-network/idena-go/blockchain/types"

	"verifharness/internal/hx"
)

// c14gen returns a fresh case header and a state-aware operation source: the generator looks at the real chain state
// and at the last pool dump to aim at the interesting neighbourhoods (next nonce, gaps, consumed nonces, competitors,
// exact duplicates); every produced operation is recorded in the case so that a replay needs no generator.
func c14gen(c *hx.Ctx, i int) (*c14case, func(r *c14run, k int) *c14op) {
	rng := c.Rng
	flavour := []string{"plain", "plain", "priogas", "ceremony", "ceremony", "gas", "sync", "drain", "ceremony", "gas"}[i%10]
	if i%40 == 26 {
		flavour = "flood"
	}
	if i%100 == 57 {
		flavour = "limit-addr"
	}
	if i%250 == 113 {
		flavour = "limit-global"
	}
	c.Hit("flavour:" + flavour)
	cs := &c14case{NS: 2 + rng.Intn(4)}
	if rng.Intn(2) == 0 {
		cs.Cfg = c14cfg{ES: -1, QS: -1, AEL: 0, AQL: 0}
		if rng.Intn(3) == 0 {
			cs.Cfg = c14cfg{ES: 1024, QS: 256, AEL: 32, AQL: 32}
		}
	} else {
		cs.Cfg = c14cfg{ES: 1 + rng.Intn(3), QS: 1 + rng.Intn(3), AEL: rng.Intn(4), AQL: rng.Intn(4)}
		c.Hit("cfg:small-limits")
	}
	cs.Cfg.RIC = rng.Intn(5) == 0
	if (flavour == "plain" && rng.Intn(4) == 0) || (flavour == "gas" && rng.Intn(3) == 0) {
		cs.Net = 3 // validated identities in the genesis: fees are charged, FeePerGas moves with block fullness
	}
	for s := 0; s < cs.NS; s++ {
		cs.Cand = append(cs.Cand, flavour == "ceremony" && rng.Intn(5) < 3)
		if cs.Net > 0 {
			cs.Bal = append(cs.Bal, []int64{30000, 200000000}[rng.Intn(2)])
		} else {
			cs.Bal = append(cs.Bal, []int64{50, 50, 2000, 100000, 100000}[rng.Intn(5)])
		}
	}
	nOps := 8 + rng.Intn(23)
	if flavour == "ceremony" {
		cs.Ceremony = 70 + rng.Intn(60)
		nOps = 30 + rng.Intn(25)
	}
	if flavour == "priogas" {
		// long session, every sender a candidate holding chains [big regular tx ..., big ceremony tx]: the PRIORITY
		// phase of the builder itself runs into the gas cap, with the crossing chain two or more transactions long
		cs.NS = 3 + rng.Intn(4)
		cs.Cand, cs.Bal = nil, nil
		for s := 0; s < cs.NS; s++ {
			cs.Cand = append(cs.Cand, true)
			cs.Bal = append(cs.Bal, 100000)
		}
		cs.Cfg = c14cfg{ES: -1, QS: -1, AEL: 0, AQL: 0, RIC: cs.Cfg.RIC}
		cs.Ceremony, cs.Net = 70, 0
		nOps = 18 + rng.Intn(14)
	}
	var script []c14op
	if flavour == "drain" {
		// victims hold: a current-epoch tx the next block includes, a second one that the balance drop makes
		// unaffordable (non-nonce failure at the reset), sometimes one behind it, and accepted NEXT-epoch transactions
		// (pending; their nonces restart at 1) which must survive that reset
		cs.NS = 2 + rng.Intn(3)
		cs.Cand, cs.Bal = nil, nil
		cs.Cfg = c14cfg{ES: -1, QS: -1, AEL: 0, AQL: 0, RIC: cs.Cfg.RIC}
		cs.Ceremony, cs.Net = 0, 0
		for s := 0; s < cs.NS; s++ {
			cs.Cand = append(cs.Cand, false)
			victim := s == 1 || rng.Intn(2) == 0
			if !victim {
				cs.Bal = append(cs.Bal, 100000)
				continue
			}
			cs.Bal = append(cs.Bal, 50)
			var mine []c14op
			mine = append(mine, c14op{K: "ext", To: "ab", Tx: &c14tx{S: s, N: 1, Ty: types.SendTx, Fee: 10, Amt: 25}})
			mine = append(mine, c14op{K: "ext", To: []string{"b", "ab"}[rng.Intn(2)], Tx: &c14tx{S: s, N: 2, Ty: types.SendTx, Fee: 10, Amt: 25}})
			if rng.Intn(2) == 0 {
				mine = append(mine, c14op{K: "ext", To: "b", Tx: &c14tx{S: s, N: 3, Ty: types.SendTx, Fee: 10, Amt: 1}})
			}
			for n := uint32(1); n <= 3; n++ {
				if rng.Intn(3) > 0 {
					op := c14op{K: "ext", To: "b", Mp: rng.Intn(6) == 0, Tx: &c14tx{S: s, N: n, E: 1, Ty: types.SendTx, Fee: 10, Amt: 1}}
					if rng.Intn(4) == 0 {
						op.K, op.To, op.Mp = "int", "", false
					}
					// anywhere after the first current-epoch submission
					at := 1 + rng.Intn(len(mine))
					mine = append(mine[:at], append([]c14op{op}, mine[at:]...)...)
				}
			}
			script = append(script, mine...)
		}
		script = append(script, c14op{K: "mine", Dt: 20})
		if rng.Intn(2) == 0 {
			script = append(script, c14op{K: "build"})
		}
		nOps = len(script) + 4 + rng.Intn(12)
	}
	if flavour == "limit-addr" || flavour == "limit-global" {
		// the DEFAULT limits (32 per address and queue, 256 pending senders): submissions that pass checkLimits and
		// validation but are refused by put (non-executable queue of the sender full / no pending slot left while the
		// executable queue is not full), with their neighbours exactly at the limit
		send := func(s int, n uint32, e uint16) c14op {
			return c14op{K: "ext", To: "b", Mp: rng.Intn(9) == 0, Tx: &c14tx{S: s, N: n, E: e, Ty: types.SendTx, Fee: 10, Amt: 1}}
		}
		cs.Cfg = c14cfg{ES: 1024, QS: 256, AEL: 32, AQL: 32, RIC: cs.Cfg.RIC}
		cs.Ceremony, cs.Net = 0, 0
		cs.NS = 3
		if flavour == "limit-global" {
			cs.NS = 259
		}
		cs.Cand, cs.Bal = nil, nil
		for s := 0; s < cs.NS; s++ {
			cs.Cand = append(cs.Cand, false)
			cs.Bal = append(cs.Bal, 100000)
		}
		if flavour == "limit-addr" {
			for _, j := range rng.Perm(32) { // nonces 2..33 out of order: the pending queue of sender 1 fills up
				script = append(script, send(1, uint32(2+j), 0))
			}
			script = append(script, send(1, 34, 0)) // refused by put
			if rng.Intn(2) == 0 {
				script = append(script, send(1, 1, 1)) // next epoch: same queue, refused by put
			}
			script = append(script, c14op{K: "int", Tx: &c14tx{S: 1, N: 35, Ty: types.SendTx, Fee: 10, Amt: 1}}) // refused by put
			script = append(script, send(1, 1, 0), c14op{K: "build"})                                            // executable, accepted
			for n := uint32(1); n <= 32; n++ {                                                                   // sender 2 fills its executable queue exactly
				script = append(script, send(2, n, 0))
			}
			script = append(script, send(2, 33, 0), c14op{K: "build"}) // executable queue full: goes to pending
			script = append(script, c14op{K: "mine", Dt: 20})          // promotion up to the executable limit
			script = append(script, send(1, 34, 0), send(1, 36, 0), c14op{K: "build"})
			nOps = len(script) + rng.Intn(6)
		} else {
			for s := 1; s <= 256; s++ { // 256 senders take the 256 pending slots
				script = append(script, send(s, 2, 0))
			}
			script = append(script, send(257, 2, 0)) // no slot left: refused by put
			script = append(script, send(257, 1, 0)) // executable: accepted
			script = append(script, send(257, 3, 0)) // not sequential -> pending -> no slot: refused by put
			script = append(script, send(1+rng.Intn(256), 3, 0), c14op{K: "build"})
			script = append(script, send(258, 1, 1)) // next epoch -> pending -> no slot: refused by put
			nOps = len(script)
		}
	}
	if flavour == "flood" {
		cs.NS = 3
		cs.Cand, cs.Bal = []bool{false, false, false}, []int64{100000, 100000, 100000}
		cs.Ceremony, cs.Net = 0, 0
		nOps = 112
	}

	pick := func(r *c14run, s int) c14tx {
		st := r.w.B.app.State
		a := r.w.addrs[s]
		epoch := st.Epoch()
		eff := st.GetNonce(a)
		if st.GetEpoch(a) < epoch {
			eff = 0
		}
		base := eff
		var mine []c14tx
		if r.last != nil {
			if q := r.last.Exec[a]; len(q) > 0 {
				base = q[len(q)-1].AccountNonce
			}
			var held []int // labels, sorted: the pending map's order must not leak into the generated case
			for _, tx := range append(append([]*types.Transaction{}, r.last.Exec[a]...), r.last.Pend[a]...) {
				held = append(held, r.ids[tx.Hash()])
			}
			sort.Ints(held)
			for _, id := range held {
				if m, ok := r.metaByID[id]; ok {
					mine = append(mine, m)
				}
			}
		}
		t := c14tx{S: s, E: epoch, Ty: types.SendTx, Fee: 10, Amt: []int64{1, 10, 400, 3000}[rng.Intn(4)]}
		if cs.Bal[s] == 50 {
			t.Amt = []int64{25, 25, 1, 10}[rng.Intn(4)] // two of these are affordable one by one but not in a row
		}
		switch p := rng.Intn(100); {
		case p < 55:
			t.N = base + 1
		case p < 70:
			t.N = base + 2 + uint32(rng.Intn(2))
			c.Hit("gen:gap")
		case p < 80 && eff >= 1:
			t.N = eff - uint32(rng.Intn(int(min32(eff, 2))))
			c.Hit("gen:consumed-nonce")
		case p < 92 && len(mine) > 0:
			t.N = mine[rng.Intn(len(mine))].N
			t.Salt = 1 + rng.Intn(5)
			c.Hit("gen:competitor")
		case len(mine) > 0:
			c.Hit("gen:exact-duplicate")
			return mine[rng.Intn(len(mine))]
		default:
			t.N = base + 1
		}
		switch p := rng.Intn(100); {
		case p < 7:
			t.E = epoch + 1
			if rng.Intn(2) == 0 {
				t.N = 1 + uint32(rng.Intn(2))
			}
			c.Hit("gen:future-epoch")
		case p < 12 && epoch > 0:
			t.E = epoch - 1
			c.Hit("gen:past-epoch")
		}
		if rng.Intn(12) == 0 {
			t.Amt = cs.Bal[s] + 1
			c.Hit("gen:unaffordable")
		}
		if cs.Cand[s] && (st.ValidationPeriod() != 0 && rng.Intn(10) < 7 || rng.Intn(8) == 0) {
			t.Ty = []uint16{types.SubmitAnswersHashTx, types.EvidenceTx, types.SubmitLongAnswersTx, types.SubmitAnswersHashTx}[rng.Intn(4)]
			t.Amt, t.Fee = 0, 0
			if rng.Intn(3) == 0 {
				t.Salt = rng.Intn(3)
			}
			c.Hit("gen:ceremony-type")
		}
		if t.Ty == types.SendTx {
			if flavour == "gas" && rng.Intn(10) < 7 {
				t.Pl = []int{60000, 130000, 260000, 400000}[rng.Intn(4)]
				c.Hit("gen:big-payload")
			} else if rng.Intn(10) == 0 {
				t.Pl = 50
			}
		}
		if cs.Net > 0 && t.Fee > 0 {
			// minimal fee = gas * 0.01 DNA / network size; MaxFee below, just above, or well above it
			gas := int64(t.Pl+120) * 10
			t.Fee = (gas*10/int64(cs.Net) + 1) * []int64{80, 102, 102, 150, 500}[rng.Intn(5)] / 100
		}
		return t
	}

	next := func(r *c14run, k int) *c14op {
		if k >= nOps {
			return nil
		}
		var op c14op
		if flavour == "flood" {
			switch {
			case k == 0:
				op = c14op{K: "ext", To: "b", Tx: &c14tx{S: 1, N: 1, Ty: types.SendTx, Fee: 10, Amt: 1}}
			case k == 1:
				op = c14op{K: "startsync"}
			case k == 60:
				op = c14op{K: "int", Tx: &c14tx{S: 0, N: 1, Ty: types.SendTx, Fee: 10, Amt: 1}}
			case k == 61:
				op = c14op{K: "ext", To: "b", Tx: &c14tx{S: 1, N: 5, Ty: types.SendTx, Fee: 10, Amt: 1}} // already known
			case k == 109:
				op = c14op{K: "mine", Dt: 20}
			case k == 110:
				op = c14op{K: "stopsync"}
			case k == 111:
				op = c14op{K: "build"}
			default:
				op = c14op{K: "ext", To: "b", Mp: k%7 == 0, Tx: &c14tx{S: 1 + k%2, N: uint32(k/2 + 1), Ty: types.SendTx, Fee: 10, Amt: 1}}
			}
		} else if k < len(script) {
			op = script[k]
		} else if flavour == "priogas" {
			switch {
			case k < 3:
				op = c14op{K: "mine", Dt: []int64{35, 40, 45}[k]} // FlipLottery, ShortSession, LongSession
			default:
				switch p := rng.Intn(100); {
				case p < 22:
					op = c14op{K: "build"}
				case p < 27:
					op = c14op{K: "mine", Dt: 20}
				default:
					s := rng.Intn(cs.NS)
					a := r.w.addrs[s]
					base := r.w.B.app.State.GetNonce(a)
					hasPrio := map[uint16]bool{}
					if r.last != nil {
						if q := r.last.Exec[a]; len(q) > 0 {
							base = q[len(q)-1].AccountNonce
						}
						for _, tx := range r.last.Exec[a] {
							hasPrio[tx.Type] = true
						}
					}
					t := c14tx{S: s, N: base + 1, E: r.w.B.app.State.Epoch(), Ty: types.SendTx, Fee: 10, Amt: 1, Pl: 20000 + rng.Intn(200)*1000 + rng.Intn(1000)}
					if base >= 1 && rng.Intn(10) < 6 {
						t.Ty = []uint16{types.EvidenceTx, types.SubmitLongAnswersTx}[rng.Intn(2)]
						t.Fee, t.Amt = 0, 0
						if rng.Intn(4) == 0 {
							t.Pl = 0
						}
						c.Hit("gen:big-ceremony-tx")
					}
					op = c14op{K: "ext", Tx: &t, To: []string{"b", "b", "ab"}[rng.Intn(3)]}
				}
			}
		} else {
			syncing := r.w.B.pool.IsSyncing()
			p := rng.Intn(100)
			mineP, buildP := 17, 12
			if flavour == "ceremony" {
				mineP = 38
			}
			syncP := 3
			if flavour == "sync" {
				syncP = 9
			}
			switch {
			case p < mineP:
				op = c14op{K: "mine", Dt: []int64{20, 20, 20, 30, 45}[rng.Intn(5)]}
			case p < mineP+buildP:
				op = c14op{K: "build"}
			case p < mineP+buildP+syncP:
				if syncing {
					op = c14op{K: "stopsync"}
				} else {
					op = c14op{K: "startsync"}
				}
			case p < mineP+buildP+syncP+3:
				op = c14op{K: "stopsync"}
			case p < mineP+buildP+syncP+3+8:
				s := rng.Intn(cs.NS)
				if rng.Intn(2) == 0 {
					s = 0
				}
				t := pick(r, s)
				op = c14op{K: "int", Tx: &t}
			case p < mineP+buildP+syncP+3+8+7:
				op = c14op{K: "batch", Mp: rng.Intn(4) == 0}
				s := rng.Intn(cs.NS)
				first := pick(r, s)
				op.Txs = append(op.Txs, first)
				for j, m := 1, 2+rng.Intn(3); j < m; j++ {
					if rng.Intn(3) == 0 {
						op.Txs = append(op.Txs, pick(r, rng.Intn(cs.NS)))
					} else {
						t := first
						t.N = first.N + uint32(j)
						op.Txs = append(op.Txs, t)
					}
				}
			default:
				t := pick(r, rng.Intn(cs.NS))
				op = c14op{K: "ext", Tx: &t, Mp: rng.Intn(8) == 0, To: []string{"b", "b", "b", "b", "ab", "ab", "ab", "a", "a", "ab"}[rng.Intn(10)]}
			}
		}
		cs.Ops = append(cs.Ops, op)
		cp := op
		return &cp
	}
	return cs, next
}

func min32(a, b uint32) uint32 {
	if a < b {
		return a
	}
	return b
}
