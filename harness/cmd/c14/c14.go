package main

// C14: the REAL mempool.TxPool of node B over a real two-node chain (A proposes, B follows), sequential histories of
// external/internal/batched submissions (in and out of nonce order, gaps, stale and future nonces/epochs, same-nonce
// competitors, duplicates, ceremony types, big payloads), per-address and global limits, new-block resets by really
// mined blocks (with transactions B never saw), blocks applied while syncing, StartSync/StopSync with the deferred
// queue, and list building.
//   - correspondence: every operation line + the implementation's canonical answer (error class, exact candidate
//     list, full dump of the pool's containers after every op) go to the Lean model (Model/Mempool.lean).
//   - independent oracle (this file, no Lean): the property's clauses evaluated on the real pool after every op.

import (
	"encoding/json"
	"fmt"
	"os"
	"sort"
	"strings"

	"github.com/idena-network/idena-go/blockchain/fee"
	"github.com/idena-network/idena-go/blockchain/types"
	"github.com/idena-network/idena-go/blockchain/validation"
	"github.com/idena-network/idena-go/common"
	"github.com/idena-network/idena-go/core/appstate"
	"github.com/idena-network/idena-go/core/mempool"
	"github.com/idena-network/idena-go/crypto"
	"github.com/pkg/errors"

	"verifharness/internal/hx"
)

type c14tx struct {
	S    int    `json:"s"`
	N    uint32 `json:"n"`
	E    uint16 `json:"e"`
	Ty   uint16 `json:"ty"`
	Pl   int    `json:"pl,omitempty"`   // payload length (SendTx)
	Amt  int64  `json:"amt,omitempty"`  // milli-DNA
	Fee  int64  `json:"fee,omitempty"`  // MaxFee, milli-DNA
	Salt int    `json:"salt,omitempty"` // distinguishes transactions with equal sender/nonce
}

type c14op struct {
	K   string  `json:"k"` // ext int batch mine build startsync stopsync
	Tx  *c14tx  `json:"tx,omitempty"`
	Txs []c14tx `json:"txs,omitempty"`
	To  string  `json:"to,omitempty"` // b | ab | a  (which node's pool receives the submission)
	Mp  bool    `json:"mp,omitempty"` // txType MempoolTx instead of InboundTx
	Dt  int64   `json:"dt,omitempty"`
}

type c14cfg struct {
	ES  int  `json:"es"`
	QS  int  `json:"qs"`
	AEL int  `json:"ael"`
	AQL int  `json:"aql"`
	RIC bool `json:"ric,omitempty"`
}

type c14case struct {
	Cfg      c14cfg  `json:"cfg"`
	NS       int     `json:"ns"`
	Cand     []bool  `json:"cand"`
	Bal      []int64 `json:"bal"`
	Net      int     `json:"net,omitempty"`
	Ceremony int     `json:"ceremony,omitempty"` // seconds between the first block and the first validation time; 0 = never
	Ops      []c14op `json:"ops"`
}

type c14fail struct{ sig, detail string }

type c14run struct {
	w        *c14world
	cs       *c14case
	emit     func(op, ans string)
	hit      func(string)
	ids      map[common.Hash]int
	raw      map[c14tx][]byte
	byID     map[int]*types.Transaction
	metaByID map[int]c14tx
	accepted map[int]bool
	included map[int]bool
	clean    bool // the last change of the chain view reached the pool through a full reset
	fail     *c14fail
	roH      uint64
	ro       *appstate.AppState
	last     *mempool.VerifPoolDump
}

func b2i(b bool) int {
	if b {
		return 1
	}
	return 0
}

func idsTok(l []int) string {
	if len(l) == 0 {
		return "-"
	}
	s := make([]string, len(l))
	for i, x := range l {
		s[i] = fmt.Sprint(x)
	}
	return strings.Join(s, ",")
}

func (r *c14run) failf(sig, f string, a ...interface{}) {
	if r.fail == nil {
		r.fail = &c14fail{sig, fmt.Sprintf(f, a...)}
	}
}

// mk builds and signs the described transaction (a fresh object on every call).
func (r *c14run) mk(t c14tx) *types.Transaction {
	b, ok := r.raw[t]
	if !ok {
		tx := &types.Transaction{AccountNonce: t.N, Epoch: t.E, Type: t.Ty, MaxFee: milliDna(t.Fee)}
		salt := crypto.Hash([]byte(fmt.Sprintf("salt-%d", t.Salt)))
		switch t.Ty {
		case types.SendTx:
			to := common.BytesToAddress(salt[:20])
			tx.To = &to
			tx.Amount = milliDna(t.Amt)
			if t.Pl > 0 {
				tx.Payload = make([]byte, t.Pl)
				for i := range tx.Payload {
					tx.Payload[i] = byte(i*7 + t.Salt)
				}
			}
		case types.SubmitAnswersHashTx:
			tx.Payload = salt[:]
		default: // EvidenceTx, SubmitLongAnswersTx (epoch 0): free payload
			tx.Payload = salt[:8]
			if t.Pl > 8 {
				tx.Payload = make([]byte, t.Pl)
				for i := range tx.Payload {
					tx.Payload[i] = byte(i*11 + t.Salt)
				}
			}
		}
		stx, err := types.SignTx(tx, r.w.keys[t.S])
		if err != nil {
			panic(err)
		}
		b, _ = stx.ToBytes()
		r.raw[t] = b
	}
	tx := new(types.Transaction)
	if err := tx.FromBytes(b); err != nil {
		panic(err)
	}
	return tx
}

func (r *c14run) senderIdx(tx *types.Transaction) int {
	a, _ := types.Sender(tx)
	if i, ok := r.w.idx[a]; ok {
		return i
	}
	return 99
}

// label returns the label of a transaction, introducing it to the model on first sight.
func (r *c14run) label(tx *types.Transaction) int {
	h := tx.Hash()
	if id, ok := r.ids[h]; ok {
		return id
	}
	id := len(r.ids) + 1
	r.ids[h] = id
	r.byID[id] = tx
	r.emit(fmt.Sprintf("tx %d %d %d %d %d %d", id, r.senderIdx(tx), tx.AccountNonce, tx.Epoch, fee.CalculateGas(tx), tx.Type), "ok")
	return id
}

func (r *c14run) labels(txs []*types.Transaction) []int {
	var l []int
	for _, tx := range txs {
		l = append(l, r.label(tx))
	}
	return l
}

func (r *c14run) readonly() *appstate.AppState {
	h := r.w.B.chain.Head.Height()
	if r.ro == nil || r.roH != h {
		ro, err := r.w.B.app.Readonly(h)
		if err != nil {
			panic(err)
		}
		r.ro, r.roH = ro, h
	}
	return r.ro
}

// validateErr is the real validation.ValidateTx on the committed head state.
func (r *c14run) validateErr(tx *types.Transaction, txType validation.TxType) error {
	app := r.readonly()
	cp := new(types.Transaction)
	b, _ := tx.ToBytes()
	cp.FromBytes(b)
	return validation.ValidateTx(app, cp, fee.GetFeePerGasForNetwork(app.ValidatorsCache.NetworkSize()), txType)
}

// restOk: the clauses of ValidateTx other than the epoch and the nonce clause (external predicate of the model).
func (r *c14run) restOk(tx *types.Transaction, txType validation.TxType) bool {
	err := r.validateErr(tx, txType)
	c := errors.Cause(err)
	return err == nil || c == validation.InvalidNonce || c == validation.InvalidEpoch
}

func c14class(err error) string {
	if err == nil {
		return "nil"
	}
	c := errors.Cause(err)
	switch {
	case c == mempool.DuplicateTxError:
		return "dup"
	case c == mempool.MempoolFullError:
		return "full"
	case c == mempool.VerifSetIsFullErr:
		return "addrfull"
	case c == validation.InvalidNonce:
		return "nonce"
	case c == validation.InvalidEpoch:
		return "epoch"
	case strings.HasPrefix(err.Error(), "multiple ceremony transaction"):
		return "multi"
	case strings.HasPrefix(err.Error(), "tx queue max size reached"):
		return "maxsize"
	case strings.Contains(err.Error(), "runtime error") || strings.Contains(err.Error(), "nil pointer"):
		return "panic"
	}
	return "invalid"
}

func (r *c14run) viewLine() string {
	st := r.w.B.app.State
	var acc []string
	for i, a := range r.w.addrs {
		acc = append(acc, fmt.Sprintf("%d:%d:%d", i, st.GetEpoch(a), st.GetNonce(a)))
	}
	return fmt.Sprintf("view %d %d %s", st.Epoch(), st.ValidationPeriod(), strings.Join(acc, ","))
}

func (r *c14run) groups(m map[common.Address][]*types.Transaction, sorted bool) string {
	type g struct {
		s   int
		ids []int
	}
	var gs []g
	for a, l := range m {
		s, ok := r.w.idx[a]
		if !ok {
			s = 99
		}
		ids := r.labels(l)
		if sorted {
			sort.Ints(ids)
		}
		gs = append(gs, g{s, ids})
	}
	if len(gs) == 0 {
		return "-"
	}
	sort.Slice(gs, func(i, j int) bool { return gs[i].s < gs[j].s })
	var parts []string
	for _, x := range gs {
		parts = append(parts, fmt.Sprintf("%d:%s", x.s, idsTok(x.ids)))
	}
	return strings.Join(parts, ";")
}

func (r *c14run) dumpLine(d *mempool.VerifPoolDump) string {
	all := r.labels(d.All)
	sort.Ints(all)
	def := "-"
	if len(d.Deferred) > 0 {
		var p []string
		for _, tx := range d.Deferred {
			f := "n"
			if tx.LoadHighPriority() {
				f = "h"
			}
			p = append(p, fmt.Sprintf("%d%s", r.label(tx), f))
		}
		def = strings.Join(p, ",")
	}
	var known []int
	for _, h := range d.Known {
		if id, ok := r.ids[h]; ok {
			known = append(known, id)
		} else {
			known = append(known, -1)
		}
	}
	sort.Ints(known)
	return fmt.Sprintf("E %s P %s A %s D %s K %s S %d", r.groups(d.Exec, false), r.groups(d.Pend, true), idsTok(all), def, idsTok(known), b2i(d.Syncing))
}

func (r *c14run) sortedKeys(m map[common.Address][]*types.Transaction) []common.Address {
	var ks []common.Address
	for a := range m {
		ks = append(ks, a)
	}
	sort.Slice(ks, func(i, j int) bool { return r.w.idx[ks[i]] < r.w.idx[ks[j]] })
	return ks
}

func (r *c14run) stale(tx *types.Transaction) bool {
	st := r.w.B.app.State
	a, _ := types.Sender(tx)
	if tx.Epoch < st.Epoch() {
		return true
	}
	return tx.Epoch == st.Epoch() && st.GetEpoch(a) == st.Epoch() && tx.AccountNonce <= st.GetNonce(a)
}

// afterOp: dump line for the model + the independent oracle on the pool's containers and exported lookups.
// before != nil marks a reset (ResetTo / StopSync) that delivered `block` to the pool.
func (r *c14run) afterOp(before *mempool.VerifPoolDump, block []*types.Transaction) {
	pool := r.w.B.pool
	d := pool.VerifDump()
	r.last = d
	r.emit("dump", r.dumpLine(d))
	inAll := map[common.Hash]bool{}
	for _, tx := range d.All {
		inAll[tx.Hash()] = true
	}
	// container coherence
	cnt := 0
	for _, a := range r.sortedKeys(d.Exec) {
		q := d.Exec[a]
		if len(q) == 0 {
			r.failf("C14:lookup-incoherent", "empty executable entry for sender %d", r.w.idx[a])
		}
		for i, tx := range q {
			cnt++
			if s, _ := types.Sender(tx); s != a {
				r.failf("C14:lookup-incoherent", "transaction filed under a foreign sender")
			}
			if !inAll[tx.Hash()] {
				r.failf("C14:lookup-incoherent", "executable transaction %d missing from the hash index", r.label(tx))
			}
			if i > 0 && (q[i-1].AccountNonce >= tx.AccountNonce || q[i-1].Epoch != tx.Epoch) {
				r.failf("C14:exec-unsorted", "executable queue of sender %d is not strictly increasing in one epoch", r.w.idx[a])
			}
		}
	}
	for _, a := range r.sortedKeys(d.Pend) {
		q := d.Pend[a]
		if len(q) == 0 {
			r.failf("C14:lookup-incoherent", "empty pending entry for sender %d", r.w.idx[a])
		}
		for _, tx := range q {
			cnt++
			if !inAll[tx.Hash()] {
				r.failf("C14:lookup-incoherent", "pending transaction %d missing from the hash index", r.label(tx))
			}
		}
	}
	if cnt != len(d.All) || d.Short != len(d.All) {
		r.failf("C14:lookup-incoherent", "hash index has %d entries, short index %d, queues hold %d", len(d.All), d.Short, cnt)
	}
	// exported lookups
	for id := 1; id <= len(r.byID); id++ {
		tx := r.byID[id]
		got := pool.GetTx(tx.Hash()) != nil
		if got != inAll[tx.Hash()] {
			r.failf("C14:lookup-incoherent", "GetTx(%d)=%v but index membership %v", id, got, inAll[tx.Hash()])
		}
	}
	for i, a := range r.w.addrs {
		l := pool.GetPendingByAddress(a)
		if len(l) != len(d.Exec[a])+len(d.Pend[a]) {
			r.failf("C14:lookup-incoherent", "GetPendingByAddress(sender %d) returns %d transactions, queues hold %d", i, len(l), len(d.Exec[a])+len(d.Pend[a]))
		}
		for _, tx := range l {
			if !inAll[tx.Hash()] {
				r.failf("C14:lookup-incoherent", "GetPendingByAddress returns a transaction that GetTx does not")
			}
		}
	}
	if l := pool.GetPendingTransaction(true, true, common.MultiShard, false); len(l) != len(d.All) {
		r.failf("C14:lookup-incoherent", "GetPendingTransaction returns %d of %d", len(l), len(d.All))
	}
	// none of a block's transactions remain after that block is applied
	for _, tx := range block {
		if pool.GetTx(tx.Hash()) != nil {
			r.failf("C14:block-tx-remains", "transaction %d of the applied block is still in the pool", r.label(tx))
		}
	}
	// observation: transactions of blocks applied while syncing that StopSync (inside the sessions) leaves in the pool
	if before != nil && !r.clean {
		for _, tx := range d.All {
			if r.included[r.label(tx)] {
				r.hit("observation:included-tx-kept-in-session")
				break
			}
		}
	}
	// accepted stays retrievable until included or made invalid
	var ids []int
	for id := range r.accepted {
		ids = append(ids, id)
	}
	sort.Ints(ids)
	for _, id := range ids {
		tx := r.byID[id]
		if inAll[tx.Hash()] {
			continue
		}
		just := ""
		if before != nil {
			if r.included[id] {
				just = "included"
			} else if r.validateErr(tx, validation.MempoolTx) != nil {
				just = "invalid"
			} else {
				// "removed by nonce" exists only inside the current epoch: a failing current-epoch transaction says nothing
				// about the sender's next-epoch transactions (their nonces restart at 1)
				a, _ := types.Sender(tx)
				cur := r.w.B.app.State.Epoch()
				for _, o := range before.All {
					oa, _ := types.Sender(o)
					if tx.Epoch == cur && o.Epoch == cur && oa == a && o.AccountNonce <= tx.AccountNonce && o.Hash() != tx.Hash() && r.validateErr(o, validation.MempoolTx) != nil {
						just = "by-nonce"
					}
				}
			}
		}
		if just == "" {
			r.failf("C14:accepted-lost", "accepted transaction %d (sender %d nonce %d epoch %d; chain epoch %d) is no longer retrievable although it was neither included nor made invalid", id, r.senderIdx(tx), tx.AccountNonce, tx.Epoch, r.w.B.app.State.Epoch())
		} else {
			r.hit("removed:" + just)
		}
		delete(r.accepted, id)
	}
	// after a reset outside the validation sessions (and through later submissions) every executable queue is
	// gap-free, continues the committed nonce and lies in the current epoch (theorem exec_consecutive)
	if r.clean {
		st := r.w.B.app.State
		for _, a := range r.sortedKeys(d.Exec) {
			q := d.Exec[a]
			cur := st.GetNonce(a)
			if st.GetEpoch(a) < st.Epoch() {
				cur = 0
			}
			for _, tx := range q {
				if tx.AccountNonce != cur+1 || tx.Epoch != st.Epoch() {
					r.failf("C14:exec-not-consecutive", "executable queue of sender %d holds nonce %d (epoch %d) after %d (epoch %d) outside the validation sessions",
						r.w.idx[a], tx.AccountNonce, tx.Epoch, cur, st.Epoch())
					break
				}
				cur = tx.AccountNonce
			}
		}
	}
	// outside the validation sessions no consumed nonce / past epoch remains
	if r.clean {
		for _, tx := range d.All {
			if r.stale(tx) {
				r.failf("C14:stale-remains", "transaction %d (sender %d nonce %d epoch %d) has a consumed nonce or a past epoch and is still in the pool (period %d)",
					r.label(tx), r.senderIdx(tx), tx.AccountNonce, tx.Epoch, r.w.B.app.State.ValidationPeriod())
			}
		}
	}
}

// checkList: the property's clauses on a list offered to the proposer.
func (r *c14run) checkList(what string, l []*types.Transaction) {
	st := r.w.B.app.State
	cur := map[common.Address]uint32{}
	seen := map[common.Hash]bool{}
	gas := uint64(0)
	for _, tx := range l {
		a, _ := types.Sender(tx)
		if _, ok := cur[a]; !ok {
			cur[a] = st.GetNonce(a)
			if st.GetEpoch(a) < st.Epoch() {
				cur[a] = 0
			}
		}
		if tx.Epoch != st.Epoch() {
			r.failf("C14:build-epoch", "%s offers transaction %d of epoch %d in epoch %d", what, r.label(tx), tx.Epoch, st.Epoch())
		}
		if tx.AccountNonce != cur[a]+1 {
			r.failf("C14:build-nonconsecutive", "%s: sender %d continues with nonce %d after %d", what, r.senderIdx(tx), tx.AccountNonce, cur[a])
		}
		cur[a] = tx.AccountNonce
		if seen[tx.Hash()] {
			r.failf("C14:build-dup", "%s offers transaction %d twice", what, r.label(tx))
		}
		seen[tx.Hash()] = true
		gas += uint64(fee.CalculateGas(tx))
		if r.w.B.pool.GetTx(tx.Hash()) == nil {
			r.failf("C14:build-foreign", "%s offers transaction %d which the pool does not hold", what, r.label(tx))
		}
	}
	if gas > r.w.gasCap {
		r.failf("C14:build-gas", "%s: %d gas offered, block cap %d", what, gas, r.w.gasCap)
	}
}

func (r *c14run) guard(what string, f func()) (panicked bool) {
	defer func() {
		if rec := recover(); rec != nil {
			panicked = true
			r.failf("C14:panic", "%s panicked: %v", what, rec)
		}
	}()
	f()
	return false
}

func (r *c14run) badLists(txs []*types.Transaction) (badM, badI []int) {
	seen := map[int]bool{}
	for _, tx := range txs {
		id := r.label(tx)
		if seen[id] {
			continue
		}
		seen[id] = true
		if !r.restOk(tx, validation.MempoolTx) {
			badM = append(badM, id)
		}
		if !r.restOk(tx, validation.InboundTx) {
			badI = append(badI, id)
		}
	}
	sort.Ints(badM)
	sort.Ints(badI)
	return
}

func (r *c14run) promoted(before, after *mempool.VerifPoolDump) []int {
	var tie []int
	for a, l := range before.Pend {
		in := map[common.Hash]bool{}
		for _, tx := range after.Exec[a] {
			in[tx.Hash()] = true
		}
		for _, tx := range l {
			if in[tx.Hash()] {
				tie = append(tie, r.label(tx))
			}
		}
	}
	sort.Ints(tie)
	return tie
}

func (r *c14run) fullReset() bool {
	return r.cs.Cfg.RIC || r.w.B.app.State.ValidationPeriod() <= 1
}

// exec runs one operation on the real nodes.
func (r *c14run) exec(op c14op) error {
	B := r.w.B
	r.hit("op:" + op.K)
	switch op.K {
	case "ext", "int":
		t := *op.Tx
		r.metaOf(t)
		if op.K == "ext" && strings.Contains(op.To, "a") {
			r.w.A.pool.AddExternalTxs(validation.InboundTx, r.mk(t))
			r.hit("to:" + op.To)
		}
		if op.K == "ext" && !strings.Contains(op.To, "b") {
			r.label(r.mk(t))
			return nil
		}
		tx := r.mk(t)
		id := r.label(tx)
		syncing := B.pool.IsSyncing()
		var err error
		if op.K == "ext" {
			txType := validation.InboundTx
			if op.Mp {
				txType = validation.MempoolTx
			}
			rest := r.restOk(tx, txType)
			if r.guard("AddExternalTxs", func() { err = B.pool.AddExternalTxs(txType, tx) }) {
				r.emit(fmt.Sprintf("ext %d %d %d", id, b2i(!op.Mp), b2i(rest)), "panic")
				return nil
			}
			r.emit(fmt.Sprintf("ext %d %d %d", id, b2i(!op.Mp), b2i(rest)), c14class(err))
			if err == nil && (!syncing || t.S == 0) {
				r.accepted[id] = true
			}
			if syncing && t.S != 0 {
				r.hit("add:deferred")
			} else {
				r.hit("add:" + c14class(err))
			}
		} else {
			rest := r.restOk(tx, validation.InboundTx)
			if r.guard("AddInternalTx", func() { err = B.pool.AddInternalTx(tx) }) {
				r.emit(fmt.Sprintf("int %d %d", id, b2i(rest)), "panic")
				return nil
			}
			r.emit(fmt.Sprintf("int %d %d", id, b2i(rest)), c14class(err))
			if err == nil && !syncing {
				r.accepted[id] = true
			}
			r.hit("addint:" + c14class(err))
		}
		r.afterOp(nil, nil)
	case "batch":
		var txs []*types.Transaction
		txType := validation.InboundTx
		if op.Mp {
			txType = validation.MempoolTx
		}
		var lines []string
		for _, t := range op.Txs {
			r.metaOf(t)
			tx := r.mk(t)
			id := r.label(tx)
			txs = append(txs, tx)
			lines = append(lines, fmt.Sprintf("extq %d %d %d", id, b2i(!op.Mp), b2i(r.restOk(tx, txType))))
		}
		var err error
		if r.guard("AddExternalTxs", func() { err = B.pool.AddExternalTxs(txType, txs...) }) {
			return nil
		}
		if err != nil && len(txs) > 1 {
			r.failf("C14:batch-error", "AddExternalTxs with %d transactions returned %v", len(txs), err)
		}
		for _, l := range lines {
			r.emit(l, "ok")
		}
		r.afterOp(nil, nil)
	case "mine":
		before := B.pool.VerifDump()
		syncing := before.Syncing
		blk, err := r.w.mine(op.Dt)
		if err != nil {
			if strings.HasPrefix(err.Error(), "panic") {
				r.failf("C14:panic", "%v", err)
				return nil
			}
			return err
		}
		r.emit(r.viewLine(), "ok")
		r.hit(fmt.Sprintf("period:%d", B.app.State.ValidationPeriod()))
		if B.app.State.Epoch() > 0 {
			r.hit("epoch>0")
		}
		blockIds := r.labels(blk.Body.Transactions)
		for _, id := range blockIds {
			r.included[id] = true
		}
		if len(blockIds) > 0 {
			r.hit("block:with-txs")
		}
		if syncing {
			r.clean = false
			r.hit("mine:while-syncing")
			r.afterOp(nil, nil)
			return nil
		}
		foreign := false
		inBefore := map[common.Hash]bool{}
		for _, tx := range before.All {
			inBefore[tx.Hash()] = true
		}
		for _, tx := range blk.Body.Transactions {
			if !inBefore[tx.Hash()] {
				foreign = true
			}
		}
		if foreign {
			r.hit("block:foreign-txs")
		}
		badM, _ := r.badLists(before.All)
		after := B.pool.VerifDump()
		r.emit(fmt.Sprintf("reset %s %s %s", idsTok(blockIds), idsTok(badM), idsTok(r.promoted(before, after))), "ok")
		r.clean = r.fullReset()
		if !r.clean {
			r.hit("reset:in-session")
		}
		if len(badM) > 0 {
			r.hit("reset:with-invalid")
			cur := B.app.State.Epoch()
			badSender := map[common.Address]bool{}
			for _, tx := range before.All {
				if tx.Epoch == cur && !r.restOk(tx, validation.MempoolTx) {
					a, _ := types.Sender(tx)
					badSender[a] = true
				}
			}
			for _, tx := range before.All {
				if a, _ := types.Sender(tx); tx.Epoch > cur && badSender[a] {
					r.hit("reset:next-epoch-tx-beside-failing-tx")
					break
				}
			}
		}
		r.afterOp(before, blk.Body.Transactions)
	case "build":
		var sorted, res []*types.Transaction
		if r.guard("BuildBlockTransactions", func() { sorted, res = B.pool.VerifBuild() }) {
			r.emit("build - -", "panic")
			return nil
		}
		var feeBad []int
		for _, tx := range sorted {
			if validation.ValidateFee(B.app, tx, validation.InBlockTx, B.app.State.FeePerGas()) != nil {
				feeBad = append(feeBad, r.label(tx))
			}
		}
		r.emit(fmt.Sprintf("build %s %s", idsTok(r.labels(sorted)), idsTok(feeBad)), "txs "+idsTok(r.labels(res)))
		r.checkList("the candidate list", res)
		var real []*types.Transaction
		if !r.guard("BuildBlockTransactions", func() { real = B.pool.BuildBlockTransactions() }) {
			r.checkList("BuildBlockTransactions", real)
			total := uint64(0)
			for _, tx := range sorted {
				total += uint64(fee.CalculateGas(tx))
			}
			if total <= r.w.gasCap {
				a, b := r.labels(res), r.labels(real)
				sort.Ints(a)
				sort.Ints(b)
				if idsTok(a) != idsTok(b) {
					r.failf("C14:build-unstable", "two consecutive builds below the gas cap offer different sets: %v vs %v", a, b)
				}
			} else {
				r.hit("build:over-cap")
			}
		}
		{ // does the priority phase alone want more than the cap? (chains up to each sender's last ceremony tx)
			lastPrio := map[common.Address]uint32{}
			for _, tx := range sorted {
				if tx.Type >= 5 && tx.Type <= 8 {
					a, _ := types.Sender(tx)
					if tx.AccountNonce > lastPrio[a] {
						lastPrio[a] = tx.AccountNonce
					}
				}
			}
			demand := uint64(0)
			for _, tx := range sorted {
				a, _ := types.Sender(tx)
				if tx.AccountNonce <= lastPrio[a] {
					demand += uint64(fee.CalculateGas(tx))
				}
			}
			if demand > r.w.gasCap {
				r.hit("build:priority-phase-over-cap")
			}
		}
		if len(res) > 0 {
			r.hit("build:non-empty")
		}
		if len(feeBad) > 0 {
			r.hit("build:fee-skip")
		}
		for _, tx := range res {
			if tx.Type >= 5 && tx.Type <= 8 {
				r.hit("build:priority-tx")
				break
			}
		}
		if len(res) < len(sorted) {
			r.hit("build:partial")
		}
	case "startsync":
		B.chain.StartSync()
		r.emit("startsync", "ok")
		r.afterOp(nil, nil)
	case "stopsync":
		before := B.pool.VerifDump()
		var blkTxs []*types.Transaction
		if b := B.chain.GetBlock(B.chain.Head.Hash()); b != nil && b.Body != nil {
			blkTxs = b.Body.Transactions
		}
		if r.guard("StopSync", func() { B.chain.StopSync() }) {
			return nil
		}
		badM, badI := r.badLists(append(append([]*types.Transaction{}, before.All...), before.Deferred...))
		after := B.pool.VerifDump()
		r.emit(fmt.Sprintf("stopsync %s %s %s %s", idsTok(r.labels(blkTxs)), idsTok(badM), idsTok(badI), idsTok(r.promoted(before, after))), "ok")
		r.clean = r.fullReset()
		if len(before.Deferred) > 0 {
			r.hit("stopsync:with-deferred")
		}
		r.afterOp(before, blkTxs)
	default:
		return fmt.Errorf("unknown op kind %q", op.K)
	}
	return nil
}

func (r *c14run) metaOf(t c14tx) {
	r.metaByID[r.label(r.mk(t))] = t
}

// c14play runs a whole case; `next` yields the operations (a recorded list or the generator).
func c14play(cs *c14case, next func(r *c14run, i int) *c14op, emit func(op, ans string), hit func(string)) (*c14run, error) {
	if emit == nil {
		emit = func(string, string) {}
	}
	if hit == nil {
		hit = func(string) {}
	}
	w, err := c14newWorld(cs)
	if err != nil {
		return nil, err
	}
	r := &c14run{w: w, cs: cs, emit: emit, hit: hit, ids: map[common.Hash]int{}, raw: map[c14tx][]byte{}, byID: map[int]*types.Transaction{},
		metaByID: map[int]c14tx{}, accepted: map[int]bool{}, included: map[int]bool{}, clean: true}
	emit(fmt.Sprintf("new %d %d %d %d %d %d 0", cs.Cfg.ES, cs.Cfg.QS, cs.Cfg.AEL, cs.Cfg.AQL, b2i(cs.Cfg.RIC), w.gasCap), "ok")
	// FeePerGas is nil until the first block
	if _, err := w.mine(0); err != nil {
		return nil, err
	}
	emit(r.viewLine(), "ok")
	r.afterOp(nil, nil)
	for i := 0; ; i++ {
		op := next(r, i)
		if op == nil {
			break
		}
		c14inflight(cs, i)
		if err := r.exec(*op); err != nil {
			return r, err
		}
	}
	return r, nil
}

func c14replayNext(cs *c14case) func(r *c14run, i int) *c14op {
	return func(r *c14run, i int) *c14op {
		if i < len(cs.Ops) {
			return &cs.Ops[i]
		}
		return nil
	}
}

// c14shrink drops operations while the same oracle failure signature reappears.
func c14shrink(cs c14case, sig string) c14case {
	fails := func(c c14case) bool {
		r, err := c14play(&c, c14replayNext(&c), nil, nil)
		return err == nil && r.fail != nil && r.fail.sig == sig
	}
	for changed, rounds := true, 0; changed && rounds < 4; rounds++ {
		changed = false
		for i := len(cs.Ops) - 1; i >= 0; i-- {
			t := cs
			t.Ops = append(append([]c14op{}, cs.Ops[:i]...), cs.Ops[i+1:]...)
			if fails(t) {
				cs, changed = t, true
			}
		}
	}
	return cs
}

func c14emitCase(c *hx.Ctx, cs *c14case, next func(r *c14run, i int) *c14op) error {
	r, err := c14play(cs, next, c.Line, c.Hit)
	if err != nil {
		return err
	}
	if r.fail != nil {
		c.Hit("oracle-failure:" + r.fail.sig)
		if !c.Distinct("failure-signature:" + r.fail.sig) {
			return nil // one shrunk witness per signature; further cases are only counted
		}
		small := c14shrink(*cs, r.fail.sig)
		detail := r.fail.detail
		if r2, err := c14play(&small, c14replayNext(&small), nil, nil); err == nil && r2.fail != nil {
			detail = r2.fail.detail
		}
		c.Fail(r.fail.sig, detail, small)
	}
	return nil
}

func init() {
	// the channel body runs in a re-exec'd child process: a fatal runtime error of the code under test (e.g. "unlock of
	// unlocked mutex") cannot be recovered and must be reported with the operation sequence that was in flight
	hx.Register("C14", func(c *hx.Ctx) error { return c14viaChild(c, "C14", c14sequential) })
}

func c14sequential(c *hx.Ctx) error {
	{
		defer os.RemoveAll("./testdata")
		defer os.RemoveAll("./testdata2")
		if c.Replay != "" {
			b, err := os.ReadFile(c.Replay)
			if err != nil {
				return err
			}
			if c14isConcReplay(b) {
				return nil // a replay of the concurrency channel (C14conc)
			}
			var wrap struct {
				Replay c14case `json:"replay"`
			}
			if err := json.Unmarshal(b, &wrap); err != nil {
				return err
			}
			cs := wrap.Replay
			c.Rep.Evaluations = 1
			return c14emitCase(c, &cs, c14replayNext(&cs))
		}
		n := c.Scale(500, 8000)
		if c.Tier == "search" {
			n = 1500
		}
		c.Rep.Rule = "state-aware random histories on the real TxPool of a follower node over a real two-node chain: external (Inbound/Mempool type), internal and batched submissions " +
			"(next/gapped/consumed/competing nonces, current/future/past epoch, exact duplicates, SendTx with small and large payloads, unaffordable amounts, ceremony types from candidate identities), " +
			"small random per-address and global limits, blocks really mined by the other node (with transactions the pool never saw), blocks applied while syncing, StartSync/StopSync with the deferred queue " +
			"(one flavour floods it past MaxDeferredTxs), virtual-time jumps through FlipLottery/ShortSession/LongSession/AfterLong into the next epoch, list building after any op; " +
			"distinct = distinct recorded histories; non-trivial = at least one accepted submission followed by a block or a build"
		for i := 0; i < n; i++ {
			cs, next := c14gen(c, i)
			if err := c14emitCase(c, cs, next); err != nil {
				return fmt.Errorf("case %d: %v", i, err)
			}
			c.Rep.Evaluations++
			key, _ := json.Marshal(cs)
			nontrivial, acc := false, false
			for _, op := range cs.Ops {
				switch op.K {
				case "ext", "int", "batch":
					acc = true
				case "mine", "build", "stopsync":
					if acc {
						nontrivial = true
					}
				}
			}
			if nontrivial && c.Distinct(string(key)) {
				c.Rep.Distinct++
			}
			if i < 2 {
				c.Sample(cs)
			}
		}
		return nil
	}
}
