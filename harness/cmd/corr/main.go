// corr <Cxx> -tier quick|thorough -seed N -out DIR [-replay FILE]
// Runs the real idena-go code (built from /repo's working tree through the overlay) on generated inputs,
// writes DIR/ops.txt (the operation lines for the Lean model), DIR/impl.txt (the implementation's canonical
// answers, line by line) and DIR/report.json (coverage + failures of the independent Go property oracle).
package main

import (
	"flag"
	"fmt"
	"os"

	"verifharness/internal/hx"
)

func main() {
	if len(os.Args) < 2 {
		fmt.Fprintln(os.Stderr, "usage: corr <Cxx> [flags]")
		os.Exit(2)
	}
	id := os.Args[1]
	fs := flag.NewFlagSet("corr", flag.ExitOnError)
	tier := fs.String("tier", "quick", "quick|thorough")
	seed := fs.Int64("seed", 1, "PRNG seed")
	out := fs.String("out", "", "output directory")
	replay := fs.String("replay", "", "replay file")
	fs.Parse(os.Args[2:])
	ch, ok := hx.Channels[id]
	if !ok {
		fmt.Fprintln(os.Stderr, "corr: unknown channel", id)
		os.Exit(2)
	}
	if *out == "" {
		fmt.Fprintln(os.Stderr, "corr: -out required")
		os.Exit(2)
	}
	c, err := hx.NewCtx(id, *tier, *seed, *out, *replay)
	if err != nil {
		fmt.Fprintln(os.Stderr, "corr:", err)
		os.Exit(2)
	}
	runErr := ch(c)
	if err := c.Close(); err != nil {
		fmt.Fprintln(os.Stderr, "corr:", err)
		os.Exit(2)
	}
	if runErr != nil {
		fmt.Fprintln(os.Stderr, "corr: channel error:", runErr)
		os.Exit(3)
	}
}
