package main

import (
	"bytes"
	"runtime"
	"strconv"
	"sync"

	dbm "github.com/tendermint/tm-db"
)

// curGID: id of the calling goroutine (from the stack header "goroutine N [").
func curGID() int64 {
	var buf [64]byte
	n := runtime.Stack(buf[:], false)
	f := bytes.Fields(buf[:n])
	if len(f) < 2 {
		return -1
	}
	id, _ := strconv.ParseInt(string(f[1]), 10, 64)
	return id
}

// crashDB wraps a tm-db database and counts write events (Set / Delete / a batch Write).  With a budget armed, every
// write event after the budget is dropped silently: the process "died" there, what reached the inner database before
// is what a restart finds.  A batch is one atomic event.
type crashDB struct {
	dbm.DB
	events int
	budget int // < 0: unlimited
	// owner != 0: only writes of that goroutine count and pass; writes of other goroutines (the node's asynchronous
	// clean-up of dropped databases) are discarded without counting, which keeps the event numbering deterministic
	owner int64
	mu    sync.Mutex
}

func newCrashDB(inner dbm.DB) *crashDB { return &crashDB{DB: inner, budget: -1} }

func (c *crashDB) allow() bool {
	c.mu.Lock()
	defer c.mu.Unlock()
	if c.owner != 0 && curGID() != c.owner {
		return false
	}
	if c.budget >= 0 && c.events >= c.budget {
		c.events++
		return false
	}
	c.events++
	return true
}

func (c *crashDB) Set(k, v []byte) error {
	if !c.allow() {
		return nil
	}
	return c.DB.Set(k, v)
}
func (c *crashDB) SetSync(k, v []byte) error {
	if !c.allow() {
		return nil
	}
	return c.DB.SetSync(k, v)
}
func (c *crashDB) Delete(k []byte) error {
	if !c.allow() {
		return nil
	}
	return c.DB.Delete(k)
}
func (c *crashDB) DeleteSync(k []byte) error {
	if !c.allow() {
		return nil
	}
	return c.DB.DeleteSync(k)
}
func (c *crashDB) NewBatch() dbm.Batch { return &crashBatch{Batch: c.DB.NewBatch(), c: c} }

type crashBatch struct {
	dbm.Batch
	c *crashDB
	n int
}

func (b *crashBatch) Set(k, v []byte) error { b.n++; return b.Batch.Set(k, v) }
func (b *crashBatch) Delete(k []byte) error { b.n++; return b.Batch.Delete(k) }
func (b *crashBatch) Write() error {
	if b.n == 0 {
		return b.Batch.Write()
	}
	if !b.c.allow() {
		return nil
	}
	return b.Batch.Write()
}
func (b *crashBatch) WriteSync() error {
	if b.n == 0 {
		return b.Batch.WriteSync()
	}
	if !b.c.allow() {
		return nil
	}
	return b.Batch.WriteSync()
}

func copyMemDB(src dbm.DB) dbm.DB {
	dst := dbm.NewMemDB()
	it, err := src.Iterator(nil, nil)
	if err != nil {
		panic(err)
	}
	defer it.Close()
	for ; it.Valid(); it.Next() {
		dst.Set(append([]byte{}, it.Key()...), append([]byte{}, it.Value()...))
	}
	return dst
}
