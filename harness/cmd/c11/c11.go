package main

// C11: sync artifacts (identity diffs, snapshots) reproduce the canonical state.
//
// Channel C11 has three kinds of cases (all driven by c.Rng / the case seed):
//
//	chain / f5  real chain histories (chainfx) with reorganisations through Chain.ResetTo.  Per block: the identity
//	            diff that block execution produced (real ValidateBlock → Precommit), what the repository stores for
//	            that height afterwards (Chain.GetIdentityDiff = what provideBlocks serves), and — as fast sync does
//	            (protocol/fast.go preConsuming / validateIdentityState / applyDeferredBlocks) — a replay of ALL stored
//	            diffs from genesis on a second IdentityStateDB (CreatePreliminaryCopy, AddDiff, Root, CommitTree).
//	snap        generated states (accounts, identities, contract stores, empty values, several versions) → real
//	            WriteSnapshot2 → bytes → RecoverSnapshot2 into a fresh database; then a corruption stream.
//	snapbig     a state with more than SnapshotBlockSize tree nodes (several archive chunks): round trip and
//	            chunk drop / duplicate / reorder.
//
// Correspondence (Lean model Model/SyncArtifacts.lean through Drivers/C11.lean): the block diffs, stored diffs, resets and
// replay results; the decoded node lists of every (corrupted) archive and the accept / reject / panic class.
// Independent oracle: replay root = header identity root for every canonical height; accepted import ⇒ advertised root,
// identical dump, identical point lookups; refused import ⇒ no key beyond the pre-import baseline; never a panic.
import (
	"bytes"
	"encoding/json"
	"errors"
	"fmt"
	"io"
	"io/ioutil"
	"math/big"
	"math/rand"
	"os"
	"sort"
	"strconv"
	"strings"
	"time"

	"github.com/golang/protobuf/proto"
	"github.com/idena-network/idena-go/blockchain/types"
	"github.com/idena-network/idena-go/common"
	"github.com/idena-network/idena-go/core/state"
	models "github.com/idena-network/idena-go/protobuf"
	"github.com/idena-network/idena-go/protocol"
	"github.com/mholt/archiver/v3"
	dbm "github.com/tendermint/tm-db"

	"verifharness/internal/chainfx"
	"verifharness/internal/hx"
)

type c11case struct {
	Kind    string `json:"kind"` // chain | f5 | fsync | snap | snapbig
	Seed    int64  `json:"seed"`
	Blocks  int    `json:"blocks,omitempty"`
	Reorgs  bool   `json:"reorgs,omitempty"`
	Leaves  int    `json:"leaves,omitempty"`
	Commits int    `json:"commits,omitempty"`
	// Corr: replay exactly one corruption of the archive of this case ("" = the tier's whole stream):
	// flip:<offset>:<xor mask> | set:<offset>:<byte> | trunc:<length> | chunks:<i,j,k,...> (new chunk order)
	Corr string `json:"corr,omitempty"`
	// SnapEvery: chain cases export/import a snapshot of the real chain state every k blocks (0 = at the end only)
	SnapEvery int `json:"snap_every,omitempty"`
	// Cut: fsync cases, only this cut of the switch sweep (k+1: the node dies before write event k of snapshot import + switch; 0 = all)
	Cut int `json:"cut,omitempty"`
}

/* ---------------------------------------------------------------------------------------------------------------
   identity diffs on real chains
   ------------------------------------------------------------------------------------------------------------- */

func diffStr(d *state.IdentityStateDiff) string {
	if d.Empty() {
		return "none"
	}
	var sb strings.Builder
	for i, v := range d.Values {
		if i > 0 {
			sb.WriteByte(',')
		}
		sb.WriteString(hx.Hex(v.Address[:])[1:])
		if v.Deleted {
			sb.WriteString(":D")
		} else {
			sb.WriteString(":" + hx.Hex(v.Value))
		}
	}
	return sb.String()
}

// dirtyStr renders the block's diff as the set of dirty identity objects Precommit started from (address, validated,
// online, encoding), in an order shuffled by r: the model has to sort and classify them itself.
func dirtyStr(d *state.IdentityStateDiff, r *rand.Rand) string {
	if d.Empty() {
		return "-"
	}
	items := make([]string, 0, len(d.Values))
	for _, v := range d.Values {
		if v.Deleted {
			items = append(items, hx.Hex(v.Address[:])[1:]+":0:0:x")
			continue
		}
		var ai state.ApprovedIdentity
		_ = ai.FromBytes(v.Value)
		items = append(items, fmt.Sprintf("%s:%d:%d:%s", hx.Hex(v.Address[:])[1:], b2i(ai.Validated), b2i(ai.Online), hx.Hex(v.Value)))
	}
	r.Shuffle(len(items), func(i, j int) { items[i], items[j] = items[j], items[i] })
	return strings.Join(items, ",")
}

func b2i(b bool) int {
	if b {
		return 1
	}
	return 0
}

func identityContents(ids *state.IdentityStateDB) string {
	var items []string
	ids.IterateIdentities(func(key, value []byte) bool {
		items = append(items, hx.Hex(key[1:])[1:]+"="+hx.Hex(value))
		return false
	})
	if len(items) == 0 {
		return "-"
	}
	return strings.Join(items, ",")
}

type c11chain struct {
	c   *hx.Ctx
	cs  c11case
	w   *chainfx.World
	n   *chainfx.Node
	rep *chainfx.Node // its identity state carries the replayed (preliminary) copy, as a fast-syncing node's does
	gen uint64        // genesis height
	// what block execution produced for each canonical height (independent of what is stored)
	actual map[uint64]*state.IdentityStateDiff
	// heights that at some point held an abandoned block
	abandoned map[uint64]bool
	failed    bool
	hasPrelim bool
	nReplays  int
	// while set, oracle failures of the served-diff replay are reported under this signature (crash sweep)
	sigOverride, sigNote string
	truth                *state.IdentityStateDB // identity state to compare a full replay with (default: the observed node's)
}

func (x *c11chain) fail(sig, detail string) {
	if x.sigOverride != "" && strings.HasPrefix(sig, "C11:") && sig != "C11:harness-replayer" {
		sig, detail = x.sigOverride, x.sigNote+detail
	}
	x.failed = true
	x.c.Fail(sig, detail, x.cs)
}

// replayAll: drop the preliminary copy, copy the genesis identity state and replay every diff the serving node has
// stored for the canonical heights gen+1..head, exactly with fast sync's calls.  Returns the protocol answer.
func (x *c11chain) replayAll(hostile bool) string {
	rs := x.rep.App.IdentityState
	if x.hasPrelim {
		// (DropPreliminary on a node that never had a preliminary copy would resolve the missing prefix record to the
		// prefix of the current identity state and clear that)
		rs.DropPreliminary()
	}
	x.hasPrelim = true
	ids, err := rs.CreatePreliminaryCopy(x.gen)
	if err != nil {
		x.fail("C11:harness-replayer", "CreatePreliminaryCopy: "+err.Error())
		return "broken"
	}
	head := x.n.Chain.Head.Height()
	if ph := x.n.Chain.PreliminaryHead; ph != nil && ph.Height() > head {
		head = ph.Height() // provideBlocks serves the fast-synced heights as well (canonical hash by height)
	}
	bad := uint64(0)
	for h := x.gen + 1; h <= head; h++ {
		hdr0 := x.n.Chain.GetBlockHeaderByHeight(h)
		if hdr0 == nil {
			x.fail("C11:canonical-header-missing", fmt.Sprintf("no canonical header at %d (head %d)", h, head))
			return "broken"
		}
		// what provideBlocks serves for this height, through the real BlocksRange wire encoding
		hdr, diff, err := protocol.VerifC11Wire(hdr0, x.n.Chain.GetIdentityDiff(h))
		if err != nil || hdr.Hash() != hdr0.Hash() {
			x.fail("C11:harness-wire", fmt.Sprintf("height %d: BlocksRange round trip failed: %v", h, err))
			return "broken"
		}
		if hostile && (!x.actual[h].Empty() || x.c.Rng.Intn(8) == 0) {
			x.hostileDiffs(ids, hdr, h)
		}
		var verr error
		func() {
			defer func() {
				if rec := recover(); rec != nil {
					x.fail("C11:replay-panic", fmt.Sprintf("validateIdentityState with the stored diff of height %d panicked: %v", h, rec))
					verr = fmt.Errorf("panic")
					ids.Reset()
				}
			}()
			// fast.go:295 validateIdentityState: AddDiff, Root() != header.IdentityRoot() => Reset + error
			verr = protocol.VerifC11ValidateIdentityState(ids, hdr, diff)
		}()
		if verr != nil {
			if bad == 0 {
				bad = h
				sig := "C11:replay-root-mismatch"
				act := x.actual[h]
				if x.abandoned[h] && act.Empty() && !diff.Empty() {
					sig = "C11:stale-identity-diff-after-reorg"
				}
				x.fail(sig, fmt.Sprintf("height %d (head %d): fast sync's validateIdentityState refuses the identity diff the node serves for this height [%s] on top of the replayed state of height %d (header identity root %s); the canonical block's own diff was [%s]",
					h, head, diffStr(diff), h-1, hdr.IdentityRoot().Hex(), diffStr(act)))
			}
			// a real fast sync stops here (peer banned); to keep replaying we continue from the block's own diff
			if err := protocol.VerifC11ValidateIdentityState(ids, hdr, x.actual[h]); err != nil {
				x.fail("C11:block-diff-does-not-reproduce-root", fmt.Sprintf("height %d: even the block's own diff [%s] does not reproduce the header's identity root", h, diffStr(x.actual[h])))
				return fmt.Sprintf("mismatch %d", bad)
			}
			if !x.actual[h].Empty() {
				ids.CommitTree(int64(h))
			}
			continue
		}
		// fast.go:150
		if !diff.Empty() {
			ids.CommitTree(int64(h))
		}
	}
	if bad != 0 {
		return fmt.Sprintf("mismatch %d", bad)
	}
	// the replayed state must also have the canonical contents
	got := identityContents(ids)
	truth := x.n.App.IdentityState
	if x.truth != nil {
		truth = x.truth
	}
	if want := identityContents(truth); got != want {
		x.fail("C11:replay-contents-differ", fmt.Sprintf("head %d: replayed identity state [%s] differs from the node's [%s]", head, got, want))
	}
	return fmt.Sprintf("ok %d %s", head, got)
}

// step = chainfx.History.Step with the block's identity diff captured between proposal and insertion.
func (x *c11chain) step(h *chainfx.History, b int, offer bool) (*types.Block, error) {
	if offer {
		h.OfferTxs(b)
	}
	chainfx.Advance(h.O.BlockStep)
	if !x.n.IsEligibleProposer() {
		return nil, chainfx.ErrNotEligible
	}
	p, err := x.n.Propose()
	if err != nil {
		return nil, err
	}
	return p.Block, x.add(p.Block)
}

// add inserts a block into the observed node and writes the protocol lines of the block.
func (x *c11chain) add(blk *types.Block) error {
	c := x.c
	diff, err := x.n.Chain.FxC11BlockDiff(blk)
	if err != nil {
		return fmt.Errorf("ValidateBlock: %w", err)
	}
	if err := x.n.Add(blk); err != nil {
		return fmt.Errorf("own block rejected: %w", err)
	}
	h := blk.Height()
	x.actual[h] = diff
	stored := x.n.Chain.GetIdentityDiff(h)
	ans := "diff " + diffStr(diff) + " stored " + diffStr(stored)
	c.Line(fmt.Sprintf("blk %d %s", h, dirtyStr(diff, c.Rng)), ans)
	if diff.Empty() {
		c.Hit("block:diff-empty")
		if x.abandoned[h] {
			c.Hit("block:diff-empty-at-abandoned-height")
		}
	} else {
		c.Hit("block:diff-nonempty")
		for _, v := range diff.Values {
			if v.Deleted {
				c.Hit("diff-value:deleted")
			} else {
				c.Hit("diff-value:set")
			}
		}
	}
	if blk.Header.Flags().HasFlag(types.IdentityUpdate) {
		c.Hit("block:flag-identity-update")
	}
	return nil
}

func (x *c11chain) served(h uint64) {
	x.c.Line(fmt.Sprintf("served %d", h), diffStr(x.n.Chain.GetIdentityDiff(h)))
}

func (x *c11chain) replayLine() {
	x.nReplays++
	x.c.Line("replay", x.replayAll(x.nReplays%4 == 1))
	x.c.Hit("full-replay")
}

// hostileDiffs: variants of the true diff of height h, as a peer could serve them, offered to fast sync's real
// validateIdentityState on the replayed state of height h-1.  Never a panic; accepted only with the canonical contents;
// after a refusal the state is back at height h-1 (so that an honest peer's diff is accepted afterwards).
func (x *c11chain) hostileDiffs(ids *state.IdentityStateDB, hdr *types.Header, h uint64) {
	c, r := x.c, x.c.Rng
	truth := x.actual[h]
	before := ids.Root()
	canonNext := ""
	mk := func(kind int) *state.IdentityStateDiff {
		d := &state.IdentityStateDiff{}
		if truth != nil {
			for _, v := range truth.Values {
				d.Values = append(d.Values, &state.IdentityStateDiffValue{Address: v.Address, Deleted: v.Deleted, Value: append([]byte(nil), v.Value...)})
			}
		}
		some := x.w.Addrs[r.Intn(len(x.w.Addrs))]
		n := len(d.Values)
		switch kind {
		case 0: // an entry that is neither a deletion nor carries a value
			d.Values = append(d.Values, &state.IdentityStateDiffValue{Address: some})
		case 1: // same, in front
			d.Values = append([]*state.IdentityStateDiffValue{{Address: some, Value: []byte{}}}, d.Values...)
		case 2: // drop an entry
			if n == 0 {
				return nil
			}
			i := r.Intn(n)
			d.Values = append(d.Values[:i], d.Values[i+1:]...)
		case 3: // flip deleted
			if n == 0 {
				return nil
			}
			v := d.Values[r.Intn(n)]
			v.Deleted = !v.Deleted
			if !v.Deleted {
				v.Value = []byte{8, 1}
			}
		case 4: // change a value byte
			if n == 0 {
				return nil
			}
			v := d.Values[r.Intn(n)]
			if len(v.Value) == 0 {
				return nil
			}
			v.Value[r.Intn(len(v.Value))] ^= byte(1 << uint(r.Intn(3)))
		case 5: // extra deletion of some identity
			d.Values = append(d.Values, &state.IdentityStateDiffValue{Address: some, Deleted: true})
		case 6: // extra set
			d.Values = append(d.Values, &state.IdentityStateDiffValue{Address: some, Value: []byte{8, byte(1 + r.Intn(7))}})
		case 7: // reversed order
			if n < 2 {
				return nil
			}
			for i, j := 0, n-1; i < j; i, j = i+1, j-1 {
				d.Values[i], d.Values[j] = d.Values[j], d.Values[i]
			}
		case 8: // duplicate an entry at the end
			if n == 0 {
				return nil
			}
			v := d.Values[r.Intn(n)]
			d.Values = append(d.Values, v)
		}
		return d
	}
	for kind := 0; kind <= 8; kind++ {
		d := mk(kind)
		if d == nil {
			continue
		}
		_, wd, err := protocol.VerifC11Wire(hdr, d)
		if err != nil {
			continue
		}
		if canonNext == "" {
			cs, err := x.n.App.IdentityState.Readonly(h)
			if err != nil {
				return
			}
			canonNext = identityContents(cs)
		}
		// (1) what AddDiff makes of it (contents before any root check), (2) fast sync's verdict
		ans, verdict, got := "", "", ""
		func() {
			defer func() {
				if rec := recover(); rec != nil {
					ans = "panic"
				}
				ids.Reset()
			}()
			ids.AddDiff(h, wd)
			got = identityContents(ids)
		}()
		func() {
			defer func() {
				if rec := recover(); rec != nil {
					ans, verdict = "panic", "panic"
					x.c.Fail("C11:hostile-diff-panic", fmt.Sprintf("height %d: fast sync's validateIdentityState panicked on a peer-supplied identity diff [%s]: %v", h, diffStrRaw(wd), rec), x.cs)
					ids.Reset()
				}
			}()
			if protocol.VerifC11ValidateIdentityState(ids, hdr, wd) == nil {
				verdict = "acc"
				ids.Reset()
			} else {
				verdict = "rej"
			}
		}()
		if ans != "panic" {
			ans = "differ"
			if got == canonNext {
				ans = "same"
			}
			if verdict == "acc" && ans == "differ" {
				x.c.Fail("C11:hostile-diff-accepted", fmt.Sprintf("height %d: altered identity diff [%s] accepted with contents [%s], canonical [%s]", h, diffStrRaw(wd), got, canonNext), x.cs)
			}
		}
		if ids.Root() != before {
			x.c.Fail("C11:refused-diff-leaves-state", fmt.Sprintf("height %d: after the diff [%s] was handled (%s) and reset, the replayed state is not back at the root of height %d", h, diffStrRaw(wd), verdict, h-1), x.cs)
			x.failed = true
			return
		}
		vt := verdict
		if ans == "same" {
			vt = "any" // same contents: acceptance depends on whether the history (hence the root) is the same too
		}
		c.Line(fmt.Sprintf("hostile %d %s", h, diffStrRaw(wd)), fmt.Sprintf("addDiff=%s verdict=%s", ans, vt))
		c.Hit(fmt.Sprintf("hostile-diff:kind%d:%s/%s", kind, ans, verdict))
		c.Rep.Evaluations++
	}
}

// diffStrRaw renders any diff (also malformed ones): a non-deleted entry without value is `addr:x`.
func diffStrRaw(d *state.IdentityStateDiff) string {
	if d == nil || len(d.Values) == 0 {
		return "-"
	}
	var sb strings.Builder
	for i, v := range d.Values {
		if i > 0 {
			sb.WriteByte(',')
		}
		sb.WriteString(hx.Hex(v.Address[:])[1:])
		if v.Deleted {
			sb.WriteString(":D")
		} else if len(v.Value) == 0 {
			sb.WriteString(":x")
		} else {
			sb.WriteString(":" + hx.Hex(v.Value))
		}
	}
	return sb.String()
}

func (x *c11chain) reset(target uint64) error {
	head := x.n.Chain.Head.Height()
	for h := target + 1; h <= head; h++ {
		x.abandoned[h] = true
		delete(x.actual, h)
	}
	if _, err := x.n.Chain.ResetTo(target); err != nil {
		return err
	}
	x.c.Line(fmt.Sprintf("reset %d", target), "ok")
	x.c.Hit("reorg")
	return nil
}

func c11start(c *hx.Ctx, cs c11case, ceremony bool) (*c11chain, *chainfx.History, error) {
	r := rand.New(rand.NewSource(cs.Seed))
	w := chainfx.NewWorld(cs.Seed, 8, 0, time.Date(2030, 1, 1, 0, 0, 0, 0, time.UTC))
	h, err := chainfx.Bootstrap(w, chainfx.HistoryOpts{Blocks: cs.Blocks, ShortEpochs: ceremony, TxPerBlock: 4}, r, ceremony)
	if err != nil {
		return nil, nil, err
	}
	rep, err := w.StartNode(nil, 0, false)
	if err != nil {
		return nil, nil, err
	}
	x := &c11chain{c: c, cs: cs, w: w, n: h.N, rep: rep, gen: h.N.Chain.Head.Height(), actual: map[uint64]*state.IdentityStateDiff{}, abandoned: map[uint64]bool{}}
	if rep.Chain.Head.Hash() != h.N.Chain.Head.Hash() {
		return nil, nil, fmt.Errorf("replica genesis differs")
	}
	c.Line(fmt.Sprintf("new chain %d %s", x.gen, identityContents(h.N.App.IdentityState)), "ok")
	return x, h, nil
}

func c11runChain(c *hx.Ctx, cs c11case) error {
	defer os.RemoveAll("./testdata")
	defer os.RemoveAll("./testdata2")
	x, h, err := c11start(c, cs, true)
	if err != nil {
		return err
	}
	r := h.R
	periodNone := map[uint64]bool{x.gen: true}
	quiet := 0         // blocks still to be proposed without offering transactions (right after a reorg)
	watch := uint64(0) // full replay after every block until the head has passed this height
	for b := 1; b <= cs.Blocks && !x.failed; b++ {
		blk, err := x.step(h, b, quiet == 0)
		if quiet > 0 {
			quiet--
		}
		if err == chainfx.ErrNotEligible {
			c.Hit("history-ended:proposer-not-eligible")
			break
		}
		if err != nil {
			x.fail("C11:history-broken", err.Error())
			return nil
		}
		hh := blk.Height()
		periodNone[hh] = x.n.App.State.ValidationPeriod() == 0 && !blk.Header.Flags().HasFlag(types.ValidationFinished)
		if hh <= watch+1 || b%16 == 0 || b == cs.Blocks {
			if hh <= watch {
				x.served(hh)
			}
			x.replayLine()
		}
		if cs.SnapEvery > 0 && b%cs.SnapEvery == 0 {
			c11chainSnapshot(x)
		}
		if cs.Reorgs && r.Intn(7) == 0 && hh > x.gen+4 {
			k := uint64(1 + r.Intn(3))
			ok := true
			for j := uint64(0); j <= k; j++ {
				ok = ok && periodNone[hh-j]
			}
			if ok {
				if err := x.reset(hh - k); err != nil {
					x.fail("C11:history-broken", "ResetTo: "+err.Error())
					return nil
				}
				h.S = chainfx.NewSender(x.w)
				if hh > watch {
					watch = hh
				}
				if r.Intn(2) == 0 {
					quiet = int(k) + r.Intn(2)
				}
			}
		}
	}
	if !x.failed {
		x.replayLine()
		for hgt := x.gen + 1; hgt <= x.n.Chain.Head.Height(); hgt++ {
			if x.abandoned[hgt] {
				x.served(hgt)
			}
		}
		c11chainSnapshot(x)
	}
	for k, v := range h.Stats {
		if strings.HasPrefix(k, "tx-ok:") {
			for i := 0; i < v; i++ {
				c.Hit(k)
			}
		}
	}
	return nil
}

// c11runF5: the scripted reorganisation of finding F5.  Block K kills a validated identity (diff stored); a second
// node builds a competing block K without any identity change; the first node switches to it (ResetTo(K-1) + AddBlock).
// scenarioErr: a scripted precondition could not be established for this seed (not a verdict about /repo).
type scenarioErr struct{ reason, detail string }

func (e scenarioErr) Error() string { return "scenario: " + e.reason + " " + e.detail }

func scn(reason, detail string) error { return scenarioErr{reason, detail} }

var c11built, c11skipped = map[string]int{}, map[string]int{}

// scripted runs a scripted case; when its preconditions cannot be built for the seed it retries with derived seeds
// (seed + 1000·k, k ≤ 5) and otherwise counts the case as skipped.
func scripted(c *hx.Ctx, cs c11case, run func(*hx.Ctx, c11case) error) error {
	reason := ""
	for k := 0; k <= 5; k++ {
		cs2 := cs
		cs2.Seed = cs.Seed + int64(1000*k)
		err := run(c, cs2)
		var se scenarioErr
		if errors.As(err, &se) {
			reason = se.reason
			c.Hit("retry:" + cs.Kind + ":" + reason)
			continue
		}
		if err == nil {
			c11built[cs.Kind]++
			c.Hit("built:" + cs.Kind)
		}
		return err
	}
	c11skipped[cs.Kind]++
	c.Hit("skipped:" + cs.Kind + ":" + reason)
	return nil
}

func c11runF5(c *hx.Ctx, cs c11case) error {
	defer os.RemoveAll("./testdata")
	defer os.RemoveAll("./testdata2")
	x, h, err := c11start(c, cs, false)
	if err != nil {
		return scn("fixture", err.Error())
	}
	var canon []*types.Block
	for b := 1; b <= 3; b++ {
		blk, err := x.step(h, b, true)
		if err != nil {
			if errors.Is(err, chainfx.ErrNotEligible) {
				return scn("proposer-not-eligible", "")
			}
			x.fail("C11:history-broken", err.Error())
			return nil
		}
		canon = append(canon, blk)
	}
	// the other node follows the same chain (it has no transactions of its own)
	other, err := x.w.StartNode(nil, 0, false)
	if err != nil {
		return scn("fixture", err.Error())
	}
	for _, blk := range canon {
		cb, _ := chainfx.CloneBlock(blk)
		if err := other.Add(cb); err != nil {
			return scn("follower-rejected-block", err.Error())
		}
	}
	victim := 1 + int(cs.Seed%2)*4 // key 1 or key 5: both Verified in chainfx.DefaultStates
	if !x.n.App.IdentityState.IsValidated(x.w.Addrs[victim]) {
		return scn("victim-not-validated", "")
	}
	if _, err := h.S.Send(x.n, victim, &types.Transaction{Type: types.KillTx}); err != nil {
		return scn("kill-tx-refused", err.Error())
	}
	chainfx.Advance(20 * time.Second)
	p, err := x.n.Propose()
	if err != nil {
		return scn("fixture", err.Error())
	}
	if err := x.add(p.Block); err != nil {
		if errors.Is(err, chainfx.ErrNotEligible) {
			return scn("proposer-not-eligible", "")
		}
		x.fail("C11:history-broken", err.Error())
		return nil
	}
	K := p.Block.Height()
	if x.n.Chain.GetIdentityDiff(K).Empty() || x.n.App.IdentityState.IsValidated(x.w.Addrs[victim]) {
		return scn("kill-block-without-diff", "")
	}
	c.Hit("f5:kill-block-diff-stored")
	x.replayLine()
	// competing block K without identity change
	p2, err := other.Propose()
	if err != nil {
		return scn("fixture", err.Error())
	}
	if len(p2.Block.Body.Transactions) != 0 {
		return scn("competing-block-has-txs", "")
	}
	if err := x.reset(K - 1); err != nil {
		x.fail("C11:history-broken", "ResetTo: "+err.Error())
		return nil
	}
	cb, _ := chainfx.CloneBlock(p2.Block)
	if err := x.add(cb); err != nil {
		if errors.Is(err, chainfx.ErrNotEligible) {
			return scn("proposer-not-eligible", "")
		}
		x.fail("C11:history-broken", err.Error())
		return nil
	}
	if !x.actual[K].Empty() {
		return scn("competing-block-changes-identities", "")
	}
	if p2.Block.IdentityRoot() != canon[len(canon)-1].IdentityRoot() {
		return scn("competing-block-root-differs", "")
	}
	c.Hit("f5:new-canonical-block-with-empty-diff")
	x.served(K)
	x.replayLine()
	// and the chain goes on
	for b := 0; b < 2 && !x.failed; b++ {
		if _, err := x.step(h, 10+b, true); err != nil {
			if errors.Is(err, chainfx.ErrNotEligible) {
				return scn("proposer-not-eligible", "")
			}
			x.fail("C11:history-broken", err.Error())
			return nil
		}
		x.replayLine()
	}
	return nil
}

// c11runFsync: reorganisation followed by fast sync over the abandoned heights, through the REAL fastSync applier
// (preConsuming + applyDeferredBlocks).  c = last common height.
//
//	observed node D, own fork: A(c+1) A(c+2)* A(c+3)              (* = kill of a validated identity: diff stored)
//	canonical (node S)       : B(c+1) b(c+2) B(c+3)* b(c+4) b(c+5) (b = no transactions, empty identity diff)
//
// D is reset to c and adopts B(c+1) (fork switch), then fast-syncs c+2..c+5 from what S serves; afterwards everything D
// serves (heights up to its preliminary head) is replayed from genesis.
func c11runFsync(c *hx.Ctx, cs c11case) error {
	defer os.RemoveAll("./testdata")
	defer os.RemoveAll("./testdata2")
	x, h, err := c11start(c, cs, false)
	if err != nil {
		return scn("fixture", err.Error())
	}
	r := h.R
	S, err := x.w.StartNode(nil, 0, false)
	if err != nil {
		return scn("fixture", err.Error())
	}
	common0 := 2 + r.Intn(3)
	for b := 1; b <= common0; b++ {
		blk, err := x.step(h, b, true)
		if err != nil {
			if errors.Is(err, chainfx.ErrNotEligible) {
				return scn("proposer-not-eligible", "")
			}
			x.fail("C11:history-broken", err.Error())
			return nil
		}
		cb, _ := chainfx.CloneBlock(blk)
		if err := S.Add(cb); err != nil {
			return scn("follower-rejected-block", err.Error())
		}
	}
	cH := x.n.Chain.Head.Height()
	// D's own fork; the kill lands at c+2
	var victims []int
	for i := 1; i < len(x.w.Keys); i++ {
		st := x.n.App.State.GetIdentityState(x.w.Addrs[i])
		if x.n.App.IdentityState.IsValidated(x.w.Addrs[i]) && (st == state.Verified || st == state.Human) {
			victims = append(victims, i)
		}
	}
	if len(victims) < 2 {
		return scn("no-victims", "")
	}
	r.Shuffle(len(victims), func(i, j int) { victims[i], victims[j] = victims[j], victims[i] })
	for k := 1; k <= 3; k++ {
		if k == 2 {
			if _, err := h.S.Send(x.n, victims[0], &types.Transaction{Type: types.KillTx}); err != nil {
				return scn("kill-tx-refused", err.Error())
			}
		}
		if _, err := x.step(h, 20+k, k != 2 && r.Intn(2) == 0); err != nil {
			if errors.Is(err, chainfx.ErrNotEligible) {
				return scn("proposer-not-eligible", "")
			}
			x.fail("C11:history-broken", err.Error())
			return nil
		}
	}
	if x.n.Chain.GetIdentityDiff(cH + 2).Empty() {
		return scn("fork-block-without-diff", "")
	}
	c.Hit("fsync:abandoned-fork-diff-stored")
	// the canonical chain on S
	sS := chainfx.NewSender(x.w)
	var canon []*types.Block
	sActual := map[uint64]*state.IdentityStateDiff{}
	for k := 1; k <= 6; k++ {
		if k == 3 || k == 4 { // two consecutive blocks that change the identity state
			if _, err := sS.Send(S, victims[4-k], &types.Transaction{Type: types.KillTx}); err != nil {
				return scn("kill-tx-refused", err.Error())
			}
		}
		chainfx.Advance(20 * time.Second)
		p, err := S.Propose()
		if err != nil {
			return scn("fixture", err.Error())
		}
		d, err := S.Chain.FxC11BlockDiff(p.Block)
		if err != nil {
			return scn("fixture", err.Error())
		}
		if err := S.Add(p.Block); err != nil {
			return scn("fixture", err.Error())
		}
		sActual[p.Block.Height()] = d
		canon = append(canon, p.Block)
	}
	top := cH + 6
	if !sActual[cH+2].Empty() || sActual[cH+3].Empty() || sActual[cH+4].Empty() {
		return scn("canonical-diffs-not-as-intended", "")
	}
	// fork switch of D: reset to the common block + B(c+1)
	if err := x.reset(cH); err != nil {
		x.fail("C11:history-broken", "ResetTo: "+err.Error())
		return nil
	}
	cb, _ := chainfx.CloneBlock(canon[0])
	if err := x.add(cb); err != nil {
		if errors.Is(err, chainfx.ErrNotEligible) {
			return scn("proposer-not-eligible", "")
		}
		x.fail("C11:history-broken", err.Error())
		return nil
	}
	pre := copyMemDB(x.n.DB) // D's database right before the fast sync (for the crash / resume sweep)
	// fast sync of c+2..c+6 with what S serves, through the real applier
	fs := protocol.VerifC11NewFastSync(x.n.Chain, x.n.App, x.n.Cfg)
	from, err := fs.PreConsuming(x.n.Chain.Head)
	if err != nil || from != cH+2 {
		return scn("preconsuming", fmt.Sprintf("from=%d err=%v", from, err))
	}
	var hdrs []*types.Header
	var certs []*types.BlockCert
	var diffs []*state.IdentityStateDiff
	for hh := from; hh <= top; hh++ {
		hdr, diff, err := protocol.VerifC11Wire(S.Chain.GetBlockHeaderByHeight(hh), S.Chain.GetIdentityDiff(hh))
		if err != nil {
			return scn("fixture", err.Error())
		}
		hdrs, certs, diffs = append(hdrs, hdr), append(certs, nil), append(diffs, diff)
	}
	if at, err := fs.Apply(hdrs, certs, diffs); err != nil {
		x.fail("C11:fast-sync-refused-honest-blocks", fmt.Sprintf("applyDeferredBlocks failed at %d: %v", at, err))
		return nil
	}
	if ph := x.n.Chain.PreliminaryHead; ph == nil || ph.Hash() != S.Chain.Head.Hash() {
		return scn("preliminary-head-not-reached", "")
	}
	for hh := from; hh <= top; hh++ {
		x.actual[hh] = sActual[hh]
		c.Line(fmt.Sprintf("fsync %d %s", hh, diffStrRaw(sActual[hh])), "stored "+diffStr(x.n.Chain.GetIdentityDiff(hh)))
		if sActual[hh].Empty() && x.abandoned[hh] {
			c.Hit("fsync:empty-diff-over-abandoned-height")
		}
	}
	x.truth = S.App.IdentityState
	for hh := cH + 1; hh <= top; hh++ {
		x.served(hh)
	}
	x.nReplays = 1 // no hostile stream here: the canonical contents of the fast-synced heights live on S
	x.replayLine()
	if x.failed {
		return nil
	}
	c11crashSweep(x, S, pre, cH+2, top, sActual)
	if x.failed {
		return nil
	}
	// the end of the fast sync on D: the snapshot S exports is imported into D's state — a state D has lived on and read
	// from — and D switches to it (the body of fastSync.postConsuming); then the contents are compared through accessors
	var snap bytes.Buffer
	if _, err := S.App.State.WriteSnapshot2(top, &snap); err != nil {
		return scn("fixture", err.Error())
	}
	addrs := unionAddrs(stateAddrs(S.App.State, 300), stateAddrs(x.n.App.State, 300), x.w.Addrs)
	c11switchSweep(x, S, copyMemDB(x.n.DB), snap.Bytes(), addrs, top)
	if x.failed {
		return nil
	}
	_ = accessorDump(x.n.App.State, addrs) // D reads its own (pre-switch) state, incl. accounts that exist only there
	if err := fs.Finish(snap.Bytes()); err != nil {
		x.fail("C11:fast-sync-refused-honest-blocks", "snapshot import / switch at the end of the fast sync: "+err.Error())
		return nil
	}
	c.Rep.Evaluations++
	if x.n.Chain.Head.Hash() != S.Chain.Head.Hash() || x.n.App.State.Root() != S.App.State.Root() || x.n.App.IdentityState.Root() != S.App.IdentityState.Root() {
		x.fail("C11:import-accepted-different-content", "after the fast sync completed, head / state root / identity root of the synced node differ from the serving node's")
		return nil
	}
	if d := firstDiff(accessorDump(S.App.State, addrs), accessorDump(x.n.App.State, addrs)); d != "" {
		x.fail("C11:import-accessors-differ", fmt.Sprintf("after the fast sync completed (snapshot of height %d imported, roots equal) the synced node reads other contents than the serving node: %s", top, d))
		return nil
	}
	if got, want := identityContents(x.n.App.IdentityState), identityContents(S.App.IdentityState); got != want {
		x.fail("C11:replay-contents-differ", "identity state after the switch differs from the serving node's")
		return nil
	}
	c.Hit("fsync:completed-and-switched")
	x.truth = nil
	// the chain goes on by two blocks on S
	var next []*types.Block
	for k := 0; k < 2; k++ {
		chainfx.Advance(20 * time.Second)
		p, err := S.Propose()
		if err != nil {
			break
		}
		if err := S.Add(p.Block); err != nil {
			break
		}
		next = append(next, p.Block)
	}
	if len(next) == 2 {
		c11secondSync(x, S, copyMemDB(x.n.DB), top, next)
		if x.failed {
			return nil
		}
	}
	// ... and the synced node goes on with the chain
	for _, b := range next {
		cb, _ := chainfx.CloneBlock(b)
		if err := x.add(cb); err != nil {
			x.fail("C11:synced-node-rejects-next-block", err.Error())
			return nil
		}
	}
	x.replayLine()
	return nil
}

// c11secondSync: a node whose IDENTITY state came from a snapshot import at its head height G (the predefined-genesis
// path: IdentityState.RecoverSnapshot2 + CommitSnapshot(G), live db prefix = prefix(G)) starts another fast sync while its
// head is still G.  Two variants: the sync is given up (the real dropPreliminaries) / the sync completes (switch).  Then the
// node is restarted: its identity state must load with the canonical root and contents, it must follow the chain, and what
// it serves must replay.  `base` = database of the node at head G.
func c11secondSync(x *c11chain, S *chainfx.Node, base dbm.DB, G uint64, next []*types.Block) {
	c := x.c
	top2 := next[len(next)-1].Height()
	fail := func(variant, detail string) {
		x.failed = true
		c.Fail("C11:preliminary-copy-aliases-live-state", fmt.Sprintf("node with its identity state imported from a snapshot at its head height %d starts a fast sync of %d..%d, which %s; then: %s", G, G+1, top2, variant, detail), x.cs)
	}
	// E: identity state imported from a snapshot at G, then restarted
	e0, err := chainfx.Start(base, x.w.Keys[0], x.w.Cfg(), false)
	if err != nil || e0.Chain.Head.Height() != G {
		c.Hit("second-sync:skipped")
		return
	}
	var ibuf bytes.Buffer
	iroot, err := state.WriteTreeTo2(e0.App.IdentityState.VerifC11Db(), G, &ibuf)
	if err != nil || iroot != e0.Chain.Head.IdentityRoot() {
		c.Hit("second-sync:skipped")
		return
	}
	if err := e0.App.IdentityState.RecoverSnapshot2(G, iroot, bytes.NewReader(ibuf.Bytes())); err != nil {
		c.Fail("C11:clean-import-refused", "identity tree import at the head height: "+err.Error(), x.cs)
		x.failed = true
		return
	}
	e0.App.IdentityState.CommitSnapshot(G)
	canonG := identityContents(e0.App.IdentityState)
	var snap bytes.Buffer
	if _, err := S.App.State.WriteSnapshot2(top2, &snap); err != nil {
		return
	}
	serve := func() (hdrs []*types.Header, certs []*types.BlockCert, diffs []*state.IdentityStateDiff) {
		for hh := G + 1; hh <= top2; hh++ {
			hdr, diff, _ := protocol.VerifC11Wire(S.Chain.GetBlockHeaderByHeight(hh), S.Chain.GetIdentityDiff(hh))
			hdrs, certs, diffs = append(hdrs, hdr), append(certs, nil), append(diffs, diff)
		}
		return
	}
	saveN := x.n
	defer func() { x.n = saveN }()
	for vi, variant := range []string{"is given up (dropPreliminaries)", "completes (switch)"} {
		db := copyMemDB(base)
		e1, err := chainfx.Start(db, x.w.Keys[0], x.w.Cfg(), false)
		if err != nil {
			fail(variant, "(before the sync) the node with the imported identity state does not start: "+err.Error())
			return
		}
		if e1.App.IdentityState.Root() != iroot || identityContents(e1.App.IdentityState) != canonG {
			fail(variant, "(before the sync) the imported identity state does not reload with the canonical root and contents")
			return
		}
		live, _ := e1.App.IdentityState.VerifC11PrefixHeights()
		fs := protocol.VerifC11NewFastSync(e1.Chain, e1.App, e1.Cfg)
		if lo, err := fs.PreConsuming(e1.Chain.Head); err != nil || lo != G+1 {
			fail(variant, fmt.Sprintf("preConsuming: from=%d err=%v", lo, err))
			return
		}
		_, prelim := e1.App.IdentityState.VerifC11PrefixHeights()
		if vi == 0 {
			ds := "distinct"
			if prelim == live {
				ds = "same"
			}
			c.Line(fmt.Sprintf("prelimprefix %d %d", live, G), fmt.Sprintf("prefix %d %s", prelim, ds))
		}
		if at, err := fs.Apply(serve()); err != nil {
			fail(variant, fmt.Sprintf("applyDeferredBlocks refused honest blocks at %d: %v", at, err))
			return
		}
		wantHead := G
		if vi == 0 {
			if err := fs.Drop(); err != nil {
				fail(variant, "dropPreliminaries: "+err.Error())
				return
			}
		} else {
			if err := fs.Finish(snap.Bytes()); err != nil {
				fail(variant, "snapshot import / switch: "+err.Error())
				return
			}
			time.Sleep(30 * time.Millisecond) // the switch clears the replaced databases asynchronously
			wantHead = top2
		}
		c.Rep.Evaluations++
		// restart
		e2, err := chainfx.Start(db, x.w.Keys[0], x.w.Cfg(), false)
		if err != nil {
			fail(variant, "the node does not start again: "+err.Error())
			return
		}
		if e2.Chain.Head.Height() != wantHead {
			fail(variant, fmt.Sprintf("after the restart the head is %d, expected %d", e2.Chain.Head.Height(), wantHead))
			return
		}
		if e2.App.IdentityState.Root() != e2.Chain.Head.IdentityRoot() || e2.App.IdentityState.Root() != S.Chain.GetBlockHeaderByHeight(wantHead).IdentityRoot() {
			fail(variant, "after the restart the identity state does not have the canonical root of the head")
			return
		}
		if vi == 0 && identityContents(e2.App.IdentityState) != canonG {
			fail(variant, "after the restart the identity state does not have the canonical contents")
			return
		}
		for _, b := range next {
			if b.Height() <= e2.Chain.Head.Height() {
				continue
			}
			cb, _ := chainfx.CloneBlock(b)
			if err := e2.Add(cb); err != nil {
				fail(variant, fmt.Sprintf("after the restart the node rejects canonical block %d: %v", b.Height(), err))
				return
			}
		}
		if e2.App.IdentityState.Root() != S.App.IdentityState.Root() || e2.App.State.Root() != S.App.State.Root() || identityContents(e2.App.IdentityState) != identityContents(S.App.IdentityState) {
			fail(variant, "at the canonical head the node's roots / identity contents differ from the serving node's")
			return
		}
		for hh := G + 1; hh <= top2; hh++ {
			if _, ok := x.actual[hh]; !ok {
				x.actual[hh] = S.Chain.GetIdentityDiff(hh) // S never reorganised: what it stores is its blocks' own diffs
				defer delete(x.actual, hh)
			}
		}
		x.n = e2
		x.sigOverride, x.sigNote = "C11:preliminary-copy-aliases-live-state", "second fast sync that "+variant+", restart; then: "
		ans := x.replayAll(false)
		x.sigOverride, x.sigNote = "", ""
		x.n = saveN
		if !strings.HasPrefix(ans, "ok") {
			return
		}
		c.Hit(fmt.Sprintf("second-sync:variant%d-ok", vi))
	}
}

// c11switchSweep: crash sweep over the end of the fast sync: snapshot import (RecoverSnapshot2 + SaveForcedVersion) and the
// real AtomicSwitchToPreliminary.  `mid` = D's database after the applier reached the canonical head.  D restarts over a
// copy, resumes (preConsuming), and dies before write event k of import + switch, for every k; it then restarts the way
// node.Start does (chainfx.Start: Initialize, EnsureIntegrity).  It must come up entirely before the switch (own head,
// preliminary head kept; finishing the sync then succeeds) or entirely after it, and in both cases end with the canonical
// head, roots, contents (accessors), identity state and served diffs.  Fact for the model: the switch is ONE write group.
func c11switchSweep(x *c11chain, S *chainfx.Node, mid dbm.DB, snap []byte, addrs []common.Address, top uint64) {
	c := x.c
	ownHead := x.n.Chain.Head.Height()
	type att struct {
		importEv, total int
		inner           dbm.DB
		ok              bool
	}
	attempt := func(budget int) (a att) {
		a.inner = copyMemDB(mid)
		cdb := newCrashDB(a.inner)
		n1, err := chainfx.Start(cdb, x.w.Keys[0], x.w.Cfg(), false)
		if err != nil {
			return
		}
		fs1 := protocol.VerifC11NewFastSync(n1.Chain, n1.App, n1.Cfg)
		if lo, err := fs1.PreConsuming(n1.Chain.Head); err != nil || lo != top+1 {
			return
		}
		cdb.events, cdb.budget, cdb.owner = 0, budget, curGID()
		err1 := fs1.FinishImport(snap)
		a.importEv = cdb.events
		if err1 == nil {
			fs1.FinishSwitch()
		}
		a.total = cdb.events
		cdb.budget, cdb.events = 0, 0 // the process is dead: nothing reaches the database any more
		a.ok = true
		return
	}
	dry := attempt(-1)
	if !dry.ok || dry.total == 0 {
		c.Hit("switch-sweep:skipped")
		return
	}
	c.Line("switchwrites", strconv.Itoa(dry.total-dry.importEv))
	c.Hit(fmt.Sprintf("switch-sweep:write-events import=%d switch=%d", dry.importEv, dry.total-dry.importEv))
	saveN := x.n
	defer func() { x.n = saveN }()
	for k := 0; k <= dry.total; k++ {
		if x.cs.Cut != 0 && x.cs.Cut != k+1 {
			continue
		}
		a := attempt(k)
		if !a.ok {
			continue
		}
		c.Rep.Evaluations++
		phase := "snapshot import"
		sig := "C11:fast-sync-resume-fails"
		if k >= dry.importEv && k < dry.total {
			phase, sig = fmt.Sprintf("switch (its write event %d of %d)", k-dry.importEv, dry.total-dry.importEv), "C11:fast-sync-switch-not-atomic"
		}
		fail := func(detail string) {
			rp := x.cs
			rp.Cut = k + 1
			x.failed = true
			c.Fail(sig, fmt.Sprintf("node dies before write event %d of %d of the end of the fast sync to height %d (%s), then restarts: %s", k, dry.total, top, phase, detail), rp)
		}
		n2, err := chainfx.Start(a.inner, x.w.Keys[0], x.w.Cfg(), false)
		if err != nil {
			fail("the node does not start again: " + err.Error())
			return
		}
		switch h := n2.Chain.Head.Height(); {
		case h == ownHead && n2.Chain.PreliminaryHead != nil && n2.Chain.PreliminaryHead.Height() == top:
			// entirely before the switch: the sync goes on and finishes
			fs2 := protocol.VerifC11NewFastSync(n2.Chain, n2.App, n2.Cfg)
			if lo, err := fs2.PreConsuming(n2.Chain.Head); err != nil || lo != top+1 {
				fail(fmt.Sprintf("preConsuming on restart: from=%d err=%v", lo, err))
				return
			}
			_ = accessorDump(n2.App.State, addrs)
			if err := fs2.Finish(snap); err != nil {
				fail("finishing the sync after the restart: " + err.Error())
				return
			}
			c.Hit("switch-sweep:came-up-before")
		case h == top && n2.Chain.PreliminaryHead == nil:
			c.Hit("switch-sweep:came-up-after")
		default:
			ph := "nil"
			if n2.Chain.PreliminaryHead != nil {
				ph = fmt.Sprint(n2.Chain.PreliminaryHead.Height())
			}
			fail(fmt.Sprintf("the node comes up half-switched: head %d (own head before the sync %d, snapshot height %d), preliminary head %s", h, ownHead, top, ph))
			return
		}
		if n2.Chain.Head.Hash() != S.Chain.Head.Hash() || n2.App.State.Root() != S.App.State.Root() || n2.App.IdentityState.Root() != S.App.IdentityState.Root() {
			fail("head / state root / identity root differ from the serving node's")
			return
		}
		if d := firstDiff(accessorDump(S.App.State, addrs), accessorDump(n2.App.State, addrs)); d != "" {
			fail("contents differ from the serving node's: " + d)
			return
		}
		if identityContents(n2.App.IdentityState) != identityContents(S.App.IdentityState) {
			fail("identity state differs from the serving node's")
			return
		}
		x.n = n2
		x.sigOverride, x.sigNote = sig, fmt.Sprintf("node dies before write event %d of %d of the end of the fast sync, restarts, sync finished; then: ", k, dry.total)
		ans := x.replayAll(false)
		x.sigOverride, x.sigNote = "", ""
		x.n = saveN
		if !strings.HasPrefix(ans, "ok") {
			return
		}
	}
}

// c11crashSweep: D dies after the k-th write event of the fast sync (preConsuming + applyDeferredBlocks), for every k
// (sampled in the quick tier); it restarts over what reached the database and resumes the fast sync like
// fastSync.preConsuming does (LoadPreliminary(PreliminaryHead.Height())).  The resumed sync must complete, end with the
// canonical identity state, and what the node serves afterwards must replay.
func c11crashSweep(x *c11chain, S *chainfx.Node, pre dbm.DB, from, top uint64, sActual map[uint64]*state.IdentityStateDiff) {
	c := x.c
	serve := func(lo uint64) (hdrs []*types.Header, certs []*types.BlockCert, diffs []*state.IdentityStateDiff) {
		for hh := lo; hh <= top; hh++ {
			hdr, diff, _ := protocol.VerifC11Wire(S.Chain.GetBlockHeaderByHeight(hh), S.Chain.GetIdentityDiff(hh))
			hdrs, certs, diffs = append(hdrs, hdr), append(certs, nil), append(diffs, diff)
		}
		return
	}
	attempt := func(budget int) (events int, inner dbm.DB, ok bool) {
		inner = copyMemDB(pre)
		cdb := newCrashDB(inner)
		n1, err := chainfx.Start(cdb, x.w.Keys[0], x.w.Cfg(), false)
		if err != nil {
			return 0, nil, false
		}
		cdb.events, cdb.budget = 0, budget
		fs1 := protocol.VerifC11NewFastSync(n1.Chain, n1.App, n1.Cfg)
		if lo, err := fs1.PreConsuming(n1.Chain.Head); err == nil {
			fs1.Apply(serve(lo))
		}
		return cdb.events, inner, true
	}
	total, _, ok := attempt(-1)
	if !ok || total == 0 {
		c.Hit("crash-sweep:skipped")
		return
	}
	stepK := 1
	if c.Tier != "thorough" && total > 24 {
		stepK = (total + 23) / 24
	}
	saveN := x.n
	defer func() { x.n = saveN }()
	for k := c.Rng.Intn(stepK); k < total; k += stepK {
		_, inner, ok := attempt(k)
		if !ok {
			continue
		}
		c.Rep.Evaluations++
		fail := func(detail string) {
			rp := x.cs
			x.failed = true
			c.Fail("C11:fast-sync-resume-fails", fmt.Sprintf("crash after write event %d of %d of the fast sync of heights %d..%d: %s", k, total, from, top, detail), rp)
		}
		n2, err := chainfx.Start(inner, x.w.Keys[0], x.w.Cfg(), false)
		if err != nil {
			fail("the node does not start again: " + err.Error())
			return
		}
		fs2 := protocol.VerifC11NewFastSync(n2.Chain, n2.App, n2.Cfg)
		lo, err := fs2.PreConsuming(n2.Chain.Head)
		if err != nil {
			fail("preConsuming on restart: " + err.Error())
			return
		}
		if ph := n2.Chain.PreliminaryHead; ph != nil && ph.Height() >= lo-1 {
			if got := fs2.PreliminaryIdentityState().Root(); got != S.Chain.GetBlockHeaderByHeight(lo-1).IdentityRoot() {
				fail(fmt.Sprintf("the resumed preliminary identity state (tree version %d) is not the one of the preliminary head %d", fs2.PreliminaryIdentityState().VerifC11TreeVersion(), lo-1))
				return
			}
		}
		if lo <= top {
			if at, err := fs2.Apply(serve(lo)); err != nil {
				fail(fmt.Sprintf("the resumed sync (from %d) is refused at height %d: %v", lo, at, err))
				return
			}
		}
		if ph := n2.Chain.PreliminaryHead; ph == nil || ph.Hash() != S.Chain.Head.Hash() {
			fail("the resumed sync does not reach the canonical head")
			return
		}
		pis := fs2.PreliminaryIdentityState()
		if pis.Root() != S.Chain.Head.IdentityRoot() || identityContents(pis) != identityContents(S.App.IdentityState) {
			fail("the identity state after the resumed sync differs from the canonical one")
			return
		}
		// what this node serves now
		x.n = n2
		x.sigOverride = "C11:served-diff-wrong-after-crash-in-fast-sync"
		x.sigNote = fmt.Sprintf("crash after write event %d of %d of the fast sync of heights %d..%d, restart, resumed sync completed; then: ", k, total, from, top)
		ans := x.replayAll(false)
		x.sigOverride, x.sigNote = "", ""
		x.n = saveN
		if !strings.HasPrefix(ans, "ok") {
			return
		}
		c.Hit("crash-sweep:resumed-ok")
	}
}

/* ---------------------------------------------------------------------------------------------------------------
   accessor-level comparison (what the node reads: typed getters and typed iterations, through the live-object caches)
   ------------------------------------------------------------------------------------------------------------- */

func bigStr(b *big.Int) string {
	if b == nil {
		return "nil"
	}
	return b.String()
}

// stateAddrs: every address the typed iterations of s yield (capped), sorted.
func stateAddrs(s *state.StateDB, limit int) []common.Address {
	seen := map[common.Address]bool{}
	s.IterateOverAccounts(func(a common.Address, _ state.Account) {
		if len(seen) < limit {
			seen[a] = true
		}
	})
	s.IterateOverIdentities(func(a common.Address, _ state.Identity) {
		if len(seen) < limit {
			seen[a] = true
		}
	})
	out := make([]common.Address, 0, len(seen))
	for a := range seen {
		out = append(out, a)
	}
	sort.Slice(out, func(i, j int) bool { return bytes.Compare(out[i][:], out[j][:]) < 0 })
	return out
}

func unionAddrs(ls ...[]common.Address) []common.Address {
	seen := map[common.Address]bool{}
	var out []common.Address
	for _, l := range ls {
		for _, a := range l {
			if !seen[a] {
				seen[a] = true
				out = append(out, a)
			}
		}
	}
	sort.Slice(out, func(i, j int) bool { return bytes.Compare(out[i][:], out[j][:]) < 0 })
	return out
}

var c11ckeys = func() [][]byte {
	var ks [][]byte
	for b := 0; b < 4; b++ {
		ks = append(ks, []byte{byte(b)})
		for b2 := 0; b2 < 2; b2++ {
			ks = append(ks, []byte{byte(b), byte(b2)})
		}
	}
	return ks
}()

// accessorDump reads the state the way the node does: every typed getter for the given addresses, the global getters
// and the typed iterations.  One labelled line per observation.
func accessorDump(s *state.StateDB, addrs []common.Address) []string {
	var out []string
	add := func(label string, v interface{}) { out = append(out, fmt.Sprintf("%s=%v", label, v)) }
	add("Epoch", s.Epoch())
	add("GodAddress", s.GodAddress().Hex())
	add("LastSnapshot", s.LastSnapshot())
	add("NextValidationTime", s.NextValidationTime().Unix())
	add("ValidationPeriod", s.ValidationPeriod())
	add("FeePerGas", bigStr(s.FeePerGas()))
	add("EpochBlock", s.EpochBlock())
	add("PrevEpochBlocks", s.PrevEpochBlocks())
	add("FlipWordsSeed", hx.Hex(func() []byte { x := s.FlipWordsSeed(); return x[:] }()))
	add("GodAddressInvites", s.GodAddressInvites())
	add("VrfProposerThreshold", s.VrfProposerThreshold())
	add("EmptyBlocksCount", s.EmptyBlocksCount())
	add("BlocksCntWithoutCeremonialTxs", s.BlocksCntWithoutCeremonialTxs())
	add("DiscriminationStakeThreshold", bigStr(s.DiscriminationStakeThreshold()))
	add("ShardsNum", s.ShardsNum())
	add("StatusSwitchAddresses", s.StatusSwitchAddresses())
	add("DiscriminationStatusSwitchAddresses", s.DiscriminationStatusSwitchAddresses())
	add("DelayedOfflinePenalties", s.DelayedOfflinePenalties())
	for _, d := range s.Delegations() {
		add("Delegation", fmt.Sprintf("%s->%s", d.Delegator.Hex(), d.Delegatee.Hex()))
	}
	for i, a := range addrs {
		p := a.Hex() + "."
		add(p+"AccountExists", s.AccountExists(a))
		add(p+"GetBalance", bigStr(s.GetBalance(a)))
		add(p+"GetNonce", s.GetNonce(a))
		add(p+"GetEpoch", s.GetEpoch(a))
		add(p+"GetIdentityState", s.GetIdentityState(a))
		add(p+"GetStakeBalance", bigStr(s.GetStakeBalance(a)))
		id := s.GetIdentity(a)
		ib, _ := id.ToBytes()
		add(p+"GetIdentity", hx.Hex(ib))
		add(p+"Delegatee", fmt.Sprint(s.Delegatee(a) != nil))
		add(p+"GetInvites", s.GetInvites(a))
		add(p+"GetRequiredFlips", s.GetRequiredFlips(a))
		add(p+"GetPenaltySeconds", s.GetPenaltySeconds(a))
		add(p+"ShardId", s.ShardId(a))
		if ch := s.GetCodeHash(a); ch != nil {
			add(p+"GetCodeHash", ch.Hex())
			add(p+"GetContractStake", bigStr(s.GetContractStake(a)))
		}
		if i < 48 {
			for _, k := range c11ckeys {
				if v := s.GetContractValue(a, k); v != nil {
					add(p+"GetContractValue."+hx.Hex(k), hx.Hex(v))
				}
			}
			s.IterateContractStore(a, nil, nil, func(k, v []byte) bool {
				add(p+"IterateContractStore."+hx.Hex(k), hx.Hex(v))
				return false
			})
		}
	}
	var accs, ids []string
	s.IterateOverAccounts(func(a common.Address, acc state.Account) {
		b, _ := acc.ToBytes()
		accs = append(accs, a.Hex()+":"+hx.Hex(b))
	})
	s.IterateOverIdentities(func(a common.Address, id state.Identity) {
		b, _ := id.ToBytes()
		ids = append(ids, a.Hex()+":"+hx.Hex(b))
	})
	sort.Strings(accs)
	sort.Strings(ids)
	add("IterateOverAccounts.count", len(accs))
	add("IterateOverIdentities.count", len(ids))
	if len(accs) <= 400 {
		out = append(out, accs...)
		out = append(out, ids...)
	}
	s.IterateBurntCoins(func(h uint64, v state.BurntCoins) { add(fmt.Sprintf("BurntCoins.%d", h), len(v.Items)) })
	return out
}

func firstDiff(a, b []string) string {
	for i := 0; i < len(a) || i < len(b); i++ {
		x, y := "<missing>", "<missing>"
		if i < len(a) {
			x = a[i]
		}
		if i < len(b) {
			y = b[i]
		}
		if x != y {
			if len(x) > 200 {
				x = x[:200]
			}
			if len(y) > 200 {
				y = y[:200]
			}
			return fmt.Sprintf("exporting state: %s | importing state: %s", x, y)
		}
	}
	return ""
}

// usedImport: the archive is imported into a StateDB that has a committed state of its own and has already been read
// from (as on a real node: fastSync.loadValidators reads GodAddress() before the switch), with the node's calls
// (RecoverSnapshot2 + CommitSnapshot); then the contents are compared through the accessors, before any further commit.
func usedImport(c *hx.Ctx, o *snapOrigin, data []byte, replay c11case, what string) {
	if o.src == nil {
		return
	}
	r := rand.New(rand.NewSource(int64(len(o.data))*7919 + int64(o.height)))
	dst, _, err := genState(r, 9, 2)
	if err != nil {
		panic(err)
	}
	addrs := unionAddrs(o.addrs, stateAddrs(dst, 100))
	_ = accessorDump(dst, addrs) // the importing node reads its own state first
	var ierr error
	func() {
		defer func() {
			if rec := recover(); rec != nil {
				ierr = fmt.Errorf("panic: %v", rec)
			}
		}()
		ierr = dst.RecoverSnapshot2(o.height, o.root, bytes.NewReader(data))
		if ierr == nil {
			dst.CommitSnapshot(o.height, nil)
		}
	}()
	c.Rep.Evaluations++
	if ierr != nil {
		c.Hit("used-import:refused")
		return // the fresh-database import of the same bytes carries the verdict about refusals
	}
	c.Hit("used-import:accepted")
	if dst.Root() != o.root {
		c.Fail("C11:import-accepted-different-content", what+": import into a used StateDB: root differs from the advertised one", replay)
	}
	want := accessorDump(o.src, addrs)
	got := accessorDump(dst, addrs)
	if d := firstDiff(want, got); d != "" {
		c.Fail("C11:import-accessors-differ", fmt.Sprintf("%s: import into a StateDB the node has already read from (root equal: %v): %s", what, dst.Root() == o.root, d), replay)
	}
}

/* ---------------------------------------------------------------------------------------------------------------
   snapshots
   ------------------------------------------------------------------------------------------------------------- */

type wnode struct { // a node as it is on the wire (ProtoSnapshotNodes_Node)
	Key     []byte
	Height  uint32
	Version uint64
	Value   []byte
	Empty   bool
}

func (n wnode) tok() string {
	return fmt.Sprintf("%s %d %d %s %d", hx.Hex(n.Key), n.Height, n.Version, hx.Hex(n.Value), b2i(n.Empty))
}

func (n wnode) eq(m wnode) bool {
	return hx.Hex(n.Key) == hx.Hex(m.Key) && n.Height == m.Height && n.Version == m.Version && hx.Hex(n.Value) == hx.Hex(m.Value) && n.Empty == m.Empty
}

type tarFile struct {
	name string
	data []byte
}

type decoded struct {
	openErr   bool
	decodeErr bool // ReadAll or proto.Unmarshal failed on some chunk (ReadTreeFrom2 clears and returns the error)
	chunks    [][]wnode
	files     []tarFile
}

func (d *decoded) nodes() []wnode {
	var out []wnode
	for _, ch := range d.chunks {
		out = append(out, ch...)
	}
	return out
}

// decodeArchive mirrors the decoding loop of ReadTreeFrom2 (util.go:104-131) with the same third-party calls.
func decodeArchive(data []byte) (d *decoded) {
	d = &decoded{}
	defer func() {
		if rec := recover(); rec != nil {
			d.decodeErr = true
		}
	}()
	tar := archiver.Tar{MkdirAll: true, OverwriteExisting: false, ImplicitTopLevelFolder: false}
	if err := tar.Open(bytes.NewReader(data), 0); err != nil {
		d.openErr = true
		return d
	}
	for file, err := tar.Read(); err == nil; file, err = tar.Read() {
		raw, err := ioutil.ReadAll(file)
		if err != nil {
			d.decodeErr = true
			return d
		}
		sb := new(models.ProtoSnapshotNodes)
		if err := proto.Unmarshal(raw, sb); err != nil {
			d.decodeErr = true
			return d
		}
		var ch []wnode
		for _, n := range sb.Nodes {
			ch = append(ch, wnode{n.Key, n.Height, n.Version, n.Value, n.EmptyValue})
		}
		d.chunks = append(d.chunks, ch)
		d.files = append(d.files, tarFile{file.Name(), raw})
	}
	return d
}

type fakeInfo struct {
	name string
	size int64
}

func (f *fakeInfo) Name() string       { return f.name }
func (f *fakeInfo) Size() int64        { return f.size }
func (f *fakeInfo) Mode() os.FileMode  { return 0600 }
func (f *fakeInfo) ModTime() time.Time { return time.Time{} }
func (f *fakeInfo) IsDir() bool        { return false }
func (f *fakeInfo) Sys() interface{}   { return nil }

type rc struct{ io.Reader }

func (rc) Close() error { return nil }

// buildArchive writes the given files with the same writer calls as WriteTreeTo2.
func buildArchive(files []tarFile) []byte {
	var buf bytes.Buffer
	tar := archiver.Tar{MkdirAll: true, OverwriteExisting: false, ImplicitTopLevelFolder: false}
	if err := tar.Create(&buf); err != nil {
		panic(err)
	}
	for _, f := range files {
		if err := tar.Write(archiver.File{FileInfo: archiver.FileInfo{CustomName: f.name, FileInfo: &fakeInfo{f.name, int64(len(f.data))}}, ReadCloser: rc{bytes.NewReader(f.data)}}); err != nil {
			panic(err)
		}
	}
	tar.Close()
	return buf.Bytes()
}

func dbKeys(db dbm.DB) int {
	it, err := db.Iterator(nil, nil)
	if err != nil {
		panic(err)
	}
	defer it.Close()
	n := 0
	for ; it.Valid(); it.Next() {
		n++
	}
	return n
}

type kv struct{ k, v []byte }

func dumpState(s *state.StateDB) []kv {
	var out []kv
	s.VerifC11Iterate(func(k, v []byte) bool {
		out = append(out, kv{append([]byte{}, k...), append([]byte{}, v...)})
		return false
	})
	return out
}

type snapOrigin struct {
	height uint64
	root   common.Hash
	data   []byte
	dec    *decoded
	nodes  []wnode
	dump   []kv
	probes [][]byte // keys looked up after an import: every original key and some absent neighbours
	gets   []string
	src    *state.StateDB   // the exporting state (accessor-level reference)
	addrs  []common.Address // addresses the accessor comparison reads
}

type importRes struct {
	class    string // ok-same | ok-forged | err | panic
	leftover int
	detail   string
}

// importArchive runs the real import into a fresh database and evaluates the property oracle on the outcome.
func importArchive(c *hx.Ctx, o *snapOrigin, data []byte, replay c11case, what string) importRes {
	db := dbm.NewMemDB()
	s, err := state.NewLazy(db)
	if err != nil {
		panic(err)
	}
	base := dbKeys(db) // state.NewLazy writes the prefix record
	var res importRes
	var ierr error
	func() {
		defer func() {
			if rec := recover(); rec != nil {
				res.class = "panic"
				res.detail = fmt.Sprint(rec)
			}
		}()
		ierr = s.RecoverSnapshot2(o.height, o.root, bytes.NewReader(data))
	}()
	res.leftover = dbKeys(db) - base
	fail := func(sig, detail string) {
		c.Fail(sig, what+": "+detail, replay)
	}
	switch {
	case res.class == "panic":
		fail("C11:import-panic", fmt.Sprintf("RecoverSnapshot2 panicked instead of refusing the archive: %s (keys left in the target beyond the baseline: %d)", res.detail, res.leftover))
		return res
	case ierr != nil:
		res.class = "err"
		if res.leftover != 0 {
			fail("C11:refused-import-leaves-keys", fmt.Sprintf("import refused (%v) but %d keys stay in the target database beyond the pre-import baseline", ierr, res.leftover))
		}
		return res
	}
	// accepted
	var cerr interface{}
	func() {
		defer func() { cerr = recover() }()
		s.CommitSnapshot(o.height, nil)
	}()
	if cerr != nil {
		res.class = "panic"
		fail("C11:import-panic", fmt.Sprintf("CommitSnapshot after an accepted import panicked: %v", cerr))
		return res
	}
	if s.Root() != o.root {
		fail("C11:import-accepted-different-content", fmt.Sprintf("accepted import has root %s, advertised %s", s.Root().Hex(), o.root.Hex()))
	}
	if !s.VerifC11ValidateTree() {
		fail("C11:import-accepted-different-content", "accepted import fails ValidateTree afterwards")
	}
	dump := dumpState(s)
	same := len(dump) == len(o.dump)
	for i := 0; same && i < len(dump); i++ {
		same = bytes.Equal(dump[i].k, o.dump[i].k) && bytes.Equal(dump[i].v, o.dump[i].v) && (dump[i].v == nil) == (o.dump[i].v == nil)
	}
	if !same {
		fail("C11:import-accepted-different-content", fmt.Sprintf("accepted import iterates %d entries, the exported state %d, or some entry differs", len(dump), len(o.dump)))
	}
	for i, k := range o.probes {
		if got := hx.Hex(s.VerifC11Get(k)); got != o.gets[i] {
			fail("C11:import-accepted-lookups-differ", fmt.Sprintf("accepted import (root equal: %v, iteration equal: %v): Get(%s) = %s, in the exported state %s", s.Root() == o.root, same, hx.Hex(k), got, o.gets[i]))
			break
		}
	}
	// exact class for the model: is the imported tree node for node the exported one?
	var buf bytes.Buffer
	if _, err := s.WriteSnapshot2(o.height, &buf); err != nil {
		panic(err)
	}
	re := decodeArchive(buf.Bytes()).nodes()
	res.class = "ok-same"
	if len(re) != len(o.nodes) {
		res.class = "ok-forged"
	} else {
		for i := range re {
			if !re[i].eq(o.nodes[i]) {
				res.class = "ok-forged"
				break
			}
		}
	}
	return res
}

// exportState writes the snapshot, decodes it, records the reference observations and emits the `o` / `oend` lines.
func exportState(c *hx.Ctx, s *state.StateDB, height uint64, cs c11case, what string) (*snapOrigin, error) {
	var buf bytes.Buffer
	root, err := s.WriteSnapshot2(height, &buf)
	if err != nil {
		return nil, err
	}
	o := &snapOrigin{height: height, root: root, data: buf.Bytes(), src: s, addrs: stateAddrs(s, 150)}
	if root != s.Root() {
		c.Fail("C11:export-root-differs", fmt.Sprintf("%s: WriteSnapshot2 returned root %s, the state's root is %s", what, root.Hex(), s.Root().Hex()), cs)
	}
	o.dec = decodeArchive(o.data)
	if o.dec.openErr || o.dec.decodeErr {
		c.Fail("C11:export-unreadable", what+": the exported archive cannot be decoded", cs)
		return nil, fmt.Errorf("export unreadable")
	}
	o.nodes = o.dec.nodes()
	o.dump = dumpState(s)
	seen := map[string]bool{}
	addProbe := func(k []byte) {
		if !seen[string(k)] {
			seen[string(k)] = true
			o.probes = append(o.probes, k)
			o.gets = append(o.gets, hx.Hex(s.VerifC11Get(k)))
		}
	}
	for _, e := range o.dump {
		addProbe(e.k)
	}
	for _, e := range o.dump {
		if len(o.probes) > 4*len(o.dump) || len(o.dump) > 2000 {
			break
		}
		up := append([]byte{}, e.k...)
		up[len(up)-1] ^= 1
		addProbe(up)
		addProbe(append(append([]byte{}, e.k...), 0))
	}
	c.Line(fmt.Sprintf("new snap %d", height), "ok")
	leaves, empties := 0, 0
	for _, n := range o.nodes {
		c.Line("o "+n.tok(), "ok")
		if n.Height == 0 {
			leaves++
		}
		if n.Empty {
			empties++
		}
	}
	sizes := make([]string, len(o.dec.chunks))
	for i, ch := range o.dec.chunks {
		sizes[i] = strconv.Itoa(len(ch))
	}
	// the model re-imports the node list, re-exports it, re-chunks it: node count, leaves (= entries the real tree iterates),
	// empty-value flags (= entries with an empty value in the real dump), chunk sizes
	realEmpty := 0
	for _, e := range o.dump {
		if len(e.v) == 0 {
			realEmpty++
		}
	}
	c.Line("oend", fmt.Sprintf("ok nodes=%d leaves=%d empty=%d chunks=%s reexport=same", len(o.nodes), len(o.dump), realEmpty, strings.Join(sizes, "/")))
	_ = leaves
	_ = empties
	c.Hit(fmt.Sprintf("archive:chunks=%d", len(o.dec.chunks)))
	if realEmpty > 0 {
		c.Hit("archive:has-empty-values")
	}
	return o, nil
}

// corruptLines: the decoded node list of a corrupted archive for the model, in the cheapest faithful form.
func corruptLines(c *hx.Ctx, o *snapOrigin, d *decoded, implClass string) {
	if d.openErr {
		c.Line("copenerr", implClass)
		return
	}
	ns := d.nodes()
	if !d.decodeErr && len(ns) == len(o.nodes) {
		diffAt, cnt := -1, 0
		for i := range ns {
			if !ns[i].eq(o.nodes[i]) {
				diffAt = i
				cnt++
			}
		}
		if cnt == 0 {
			c.Line("csame", implClass)
			return
		}
		if cnt == 1 {
			c.Line(fmt.Sprintf("cdelta %d %s", diffAt, ns[diffAt].tok()), implClass)
			return
		}
	}
	for _, n := range ns {
		c.Line("c "+n.tok(), "ok")
	}
	if d.decodeErr {
		c.Line("cend decodeerr", implClass)
	} else {
		c.Line("cend full", implClass)
	}
}

func applyCorr(o *snapOrigin, corr string) ([]byte, error) {
	p := strings.Split(corr, ":")
	atoi := func(s string) int { v, _ := strconv.Atoi(s); return v }
	switch {
	case p[0] == "flip" && len(p) == 3:
		d := append([]byte{}, o.data...)
		if atoi(p[1]) >= len(d) {
			return nil, fmt.Errorf("offset out of range")
		}
		d[atoi(p[1])] ^= byte(atoi(p[2]))
		return d, nil
	case p[0] == "set" && len(p) == 3:
		d := append([]byte{}, o.data...)
		if atoi(p[1]) >= len(d) {
			return nil, fmt.Errorf("offset out of range")
		}
		d[atoi(p[1])] = byte(atoi(p[2]))
		return d, nil
	case p[0] == "trunc" && len(p) == 2:
		if atoi(p[1]) > len(o.data) {
			return nil, fmt.Errorf("length out of range")
		}
		return append([]byte{}, o.data[:atoi(p[1])]...), nil
	case p[0] == "chunks" && len(p) == 2:
		var files []tarFile
		if p[1] != "" {
			for _, s := range strings.Split(p[1], ",") {
				i := atoi(s)
				if i >= len(o.dec.files) {
					return nil, fmt.Errorf("chunk out of range")
				}
				files = append(files, o.dec.files[i])
			}
		}
		return buildArchive(files), nil
	}
	return nil, fmt.Errorf("bad corruption %q", corr)
}

func oneCorruption(c *hx.Ctx, o *snapOrigin, cs c11case, corr, what string) {
	data, err := applyCorr(o, corr)
	if err != nil {
		return
	}
	rp := cs
	rp.Corr = corr
	res := importArchive(c, o, data, rp, what+" corruption "+corr)
	d := decodeArchive(data)
	corruptLines(c, o, d, res.class)
	c.Hit("import:" + strings.SplitN(corr, ":", 2)[0] + ":" + res.class)
	c.Rep.Evaluations++
	if strings.HasPrefix(res.class, "ok") && (cs.Corr != "" || c.Rng.Intn(8) == 0) && len(o.nodes) < 2000 {
		usedImport(c, o, data, rp, what+" corruption "+corr)
	}
	if bytes.Equal(data, o.data) {
		return
	}
	c.Distinct(fmt.Sprintf("%s|%d|%s", what, cs.Seed, corr))
}

func corruptionStream(c *hx.Ctx, o *snapOrigin, cs c11case, r *rand.Rand, what string, flips, others int, exhaustive bool) {
	if cs.Corr != "" {
		oneCorruption(c, o, cs, cs.Corr, what)
		return
	}
	L := len(o.data)
	if exhaustive {
		for off := 0; off < L; off++ {
			oneCorruption(c, o, cs, fmt.Sprintf("flip:%d:%d", off, 1<<uint(r.Intn(8))), what)
		}
	} else {
		// sampled; biased to the payload area of the archive (the zero padding of a tar is most of a small archive)
		var payload []int
		for i, b := range o.data {
			if b != 0 {
				payload = append(payload, i)
			}
		}
		for i := 0; i < flips; i++ {
			off := r.Intn(L)
			if len(payload) > 0 && i%4 != 0 {
				off = payload[r.Intn(len(payload))]
			}
			oneCorruption(c, o, cs, fmt.Sprintf("flip:%d:%d", off, 1<<uint(r.Intn(8))), what)
		}
	}
	// truncation at every tar block boundary (sampled when the archive is large) and at random lengths
	nb := L / 512
	stepB := 1
	if nb > 64 && !exhaustive {
		stepB = nb / 64
	}
	for b := 0; b <= nb; b += stepB {
		oneCorruption(c, o, cs, fmt.Sprintf("trunc:%d", b*512), what)
	}
	for i := 0; i < others; i++ {
		oneCorruption(c, o, cs, fmt.Sprintf("trunc:%d", r.Intn(L)), what)
		oneCorruption(c, o, cs, fmt.Sprintf("set:%d:%d", r.Intn(L), r.Intn(256)), what)
	}
	// chunk-level: drop / duplicate / reorder
	n := len(o.dec.files)
	idx := func(f func(i int) []int) string {
		var out []string
		for i := 0; i < n; i++ {
			for _, j := range f(i) {
				out = append(out, strconv.Itoa(j))
			}
		}
		return strings.Join(out, ",")
	}
	for k := 0; k < n; k++ {
		k := k
		oneCorruption(c, o, cs, "chunks:"+idx(func(i int) []int {
			if i == k {
				return nil
			}
			return []int{i}
		}), what) // drop k
		oneCorruption(c, o, cs, "chunks:"+idx(func(i int) []int {
			if i == k {
				return []int{i, i}
			}
			return []int{i}
		}), what) // duplicate k
		if k+1 < n {
			oneCorruption(c, o, cs, "chunks:"+idx(func(i int) []int {
				if i == k {
					return []int{k + 1}
				}
				if i == k+1 {
					return []int{k}
				}
				return []int{i}
			}), what) // swap k, k+1
		}
	}
	oneCorruption(c, o, cs, "chunks:"+idx(func(i int) []int { return []int{i} }), what) // re-packed, unchanged order
}

// roundTrip: clean export → import; the oracle demands acceptance with identical root, dump and lookups.
func roundTrip(c *hx.Ctx, o *snapOrigin, cs c11case, what string) {
	res := importArchive(c, o, o.data, cs, what+" clean round trip")
	c.Line("csame", res.class)
	c.Rep.Evaluations++
	if res.class != "ok-same" {
		c.Fail("C11:clean-import-refused", fmt.Sprintf("%s: importing the unmodified export gives %s %s", what, res.class, res.detail), cs)
	}
	c.Hit("import:clean:" + res.class)
	usedImport(c, o, o.data, cs, what+" clean round trip")
}

func addrOf(i int) common.Address {
	var a common.Address
	a[0] = byte(i >> 8)
	a[1] = byte(i)
	a[19] = byte(i * 7)
	return a
}

// genState builds a state directly with StateDB setters over several committed versions.
func genState(r *rand.Rand, leaves, commits int) (*state.StateDB, uint64, error) {
	s, err := state.NewLazy(dbm.NewMemDB())
	if err != nil {
		return nil, 0, err
	}
	states := []state.IdentityState{state.Verified, state.Newbie, state.Human, state.Suspended, state.Candidate, state.Zombie, state.Invite}
	pool := leaves
	if pool < 4 {
		pool = 4
	}
	for v := 1; v <= commits; v++ {
		nops := leaves
		if v > 1 {
			nops = 1 + leaves/3
		}
		for j := 0; j < nops; j++ {
			a := addrOf(r.Intn(pool))
			if v == 1 && leaves > 200 {
				a = addrOf(j) // bulk
				s.SetBalance(a, big.NewInt(int64(1+j)))
				continue
			}
			switch r.Intn(12) {
			case 0, 1, 2:
				s.SetBalance(a, big.NewInt(int64(r.Intn(1000))))
			case 3:
				s.SetNonce(a, uint32(r.Intn(5)))
				s.SetEpoch(a, uint16(r.Intn(3)))
			case 4:
				s.SetState(a, states[r.Intn(len(states))])
				s.AddStake(a, big.NewInt(int64(r.Intn(500))))
			case 5:
				s.SetState(a, state.Verified)
				s.SetBirthday(a, uint16(r.Intn(9)))
				s.SetPubKey(a, []byte{4, byte(r.Intn(256)), 3})
				s.AddFlip(a, []byte{1, 2, byte(j)}, uint8(r.Intn(3)))
			case 6:
				s.SetState(a, state.Killed) // deleted at commit
			case 7:
				s.DeployContract(a, common.Hash{byte(r.Intn(4))}, big.NewInt(int64(r.Intn(50))))
				s.SetContractValue(a, []byte{byte(r.Intn(4))}, []byte{byte(j), byte(v)})
			case 8:
				s.SetContractValue(a, []byte{byte(r.Intn(4)), byte(r.Intn(2))}, []byte{}) // empty value
			case 9:
				s.SetContractValue(a, []byte{byte(r.Intn(4))}, bytes.Repeat([]byte{byte(j)}, r.Intn(40)))
			case 10:
				s.RemoveContractValue(a, []byte{byte(r.Intn(4))})
			case 11:
				s.SetBalance(a, big.NewInt(0)) // may empty the account: deleted at commit
				s.SetNonce(a, 0)
			}
		}
		if v == 1 {
			s.SetGodAddress(addrOf(0))
			s.SetFeePerGas(big.NewInt(10))
		}
		if r.Intn(2) == 0 {
			s.AddBurntCoins(uint64(v), addrOf(r.Intn(pool)), "k", big.NewInt(int64(1+r.Intn(9))))
		}
		if _, _, _, err := s.Commit(true); err != nil {
			return nil, 0, err
		}
	}
	return s, uint64(commits), nil
}

func c11runSnap(c *hx.Ctx, cs c11case) error {
	r := rand.New(rand.NewSource(cs.Seed))
	s, height, err := genState(r, cs.Leaves, cs.Commits)
	if err != nil {
		return err
	}
	what := fmt.Sprintf("%s(seed %d)", cs.Kind, cs.Seed)
	o, err := exportState(c, s, height, cs, what)
	if err != nil {
		return nil
	}
	if cs.Corr == "" {
		roundTrip(c, o, cs, what)
	}
	if cs.Kind == "snapbig" {
		if cs.Corr == "" && len(o.dec.chunks) < 2 {
			return fmt.Errorf("snapbig: archive has a single chunk")
		}
		corruptionStream(c, o, cs, r, what, c.Scale(3, 40), c.Scale(1, 10), false)
		return nil
	}
	corruptionStream(c, o, cs, r, what, c.Scale(250, 0), c.Scale(20, 200), c.Tier == "thorough" && len(o.data) <= 64<<10)
	return nil
}

// c11chainSnapshot: snapshot of the real chain state (and of the identity state tree) at the head: round trip + a few corruptions.
func c11chainSnapshot(x *c11chain) {
	c := x.c
	head := x.n.Chain.Head.Height()
	what := fmt.Sprintf("chain(seed %d) state at height %d", x.cs.Seed, head)
	cs := x.cs
	o, err := exportState(c, x.n.App.State, head, cs, what)
	if err != nil {
		return
	}
	if o.root != x.n.Chain.Head.Root() {
		c.Fail("C11:export-root-differs", what+": exported root is not the head's state root", cs)
	}
	roundTrip(c, o, cs, what)
	r := rand.New(rand.NewSource(cs.Seed ^ int64(head)))
	for i := 0; i < c.Scale(12, 150); i++ {
		corr := fmt.Sprintf("flip:%d:%d", r.Intn(len(o.data)), 1<<uint(r.Intn(8)))
		if i%3 == 0 {
			corr = fmt.Sprintf("trunc:%d", r.Intn(len(o.data)))
		}
		// replay of these is by the whole history (the archive is a function of it)
		data, _ := applyCorr(o, corr)
		res := importArchive(c, o, data, cs, what+" corruption "+corr)
		corruptLines(c, o, decodeArchive(data), res.class)
		c.Hit("import:chain-" + strings.SplitN(corr, ":", 2)[0] + ":" + res.class)
		c.Rep.Evaluations++
	}
	c.Hit("chain-snapshot")
	// identity state tree through the same exporter / importer (IdentityStateDB.RecoverSnapshot2)
	ids := x.n.App.IdentityState
	var buf bytes.Buffer
	iroot, err := state.WriteTreeTo2(ids.VerifC11Db(), head, &buf)
	if err != nil {
		c.Fail("C11:identity-export-failed", what+": "+err.Error(), cs)
		return
	}
	if iroot != x.n.Chain.Head.IdentityRoot() {
		c.Fail("C11:export-root-differs", what+": exported identity root is not the head's identity root", cs)
	}
	fresh, err := state.NewLazyIdentityState(dbm.NewMemDB())
	if err != nil {
		panic(err)
	}
	var ierr error
	func() {
		defer func() {
			if rec := recover(); rec != nil {
				ierr = fmt.Errorf("panic: %v", rec)
			}
		}()
		ierr = fresh.RecoverSnapshot2(head, iroot, bytes.NewReader(buf.Bytes()))
		if ierr == nil {
			fresh.CommitSnapshot(head)
		}
	}()
	if ierr != nil {
		c.Fail("C11:clean-import-refused", what+": identity tree import: "+ierr.Error(), cs)
		return
	}
	if fresh.Root() != iroot || identityContents(fresh) != identityContents(ids) {
		c.Fail("C11:import-accepted-different-content", what+": identity tree import differs in root or contents", cs)
	}
	c.Rep.Evaluations++
}

/* ------------------------------------------------------------------------------------------------------------- */

func c11run(c *hx.Ctx, cs c11case) error {
	switch cs.Kind {
	case "chain":
		return c11runChain(c, cs)
	case "f5":
		return scripted(c, cs, c11runF5)
	case "fsync":
		return scripted(c, cs, c11runFsync)
	case "snap", "snapbig":
		return c11runSnap(c, cs)
	}
	return fmt.Errorf("unknown case kind %q", cs.Kind)
}

func init() {
	hx.Register("C11", func(c *hx.Ctx) error {
		if c.Replay != "" {
			b, err := os.ReadFile(c.Replay)
			if err != nil {
				return err
			}
			var wrap struct {
				Replay c11case `json:"replay"`
			}
			if err := json.Unmarshal(b, &wrap); err != nil {
				return err
			}
			return c11run(c, wrap.Replay)
		}
		c.Rep.Rule = "fsync: own fork with a stored diff at c+2, fork switch onto canonical B(c+1), fast sync of c+2..c+5 (canonical c+2 has an empty diff) through the real fastSync.preConsuming/applyDeferredBlocks, then replay of everything served; f5: scripted reorg (kill of a validated identity at height K, ResetTo(K-1), competing block K without identity change); chain: real histories (8 users + god, all ordinary tx kinds incl. kills/delegations/online switches, ceremonies with shrunk timeline, reorgs of 1-3 blocks in half of them, quiet blocks after half of the reorgs), per block the executed identity diff vs the stored one, full replays of all stored diffs from genesis with fast sync's calls after every block around a reorg / every 16 blocks / at the end, snapshot of the real state at the end; snap: generated states (accounts, identities, contract stores, empty values, deletions, 1-4 versions), clean round trip + corruption stream (single-byte flips sampled [quick] / every offset [thorough], truncation at every tar block, random truncations and byte replacements, chunk drop/duplicate/swap); snapbig: > SnapshotBlockSize nodes (several chunks). distinct = distinct (case, corruption) pairs whose bytes differ from the clean archive + histories"
		run := func(cs c11case) error {
			before := c.Lines
			if err := c11run(c, cs); err != nil {
				return fmt.Errorf("%+v: %w", cs, err)
			}
			c.Sample(cs)
			if cs.Kind == "chain" || cs.Kind == "f5" || cs.Kind == "fsync" {
				c.Rep.Evaluations++
				if c.Lines-before > 20 {
					c.Distinct(fmt.Sprintf("%s|%d", cs.Kind, cs.Seed))
				}
			}
			return nil
		}
		for i := 0; i < c.Scale(2, 6); i++ {
			if err := run(c11case{Kind: "f5", Seed: c.Seed*1000 + int64(i)}); err != nil {
				return err
			}
		}
		for i := 0; i < c.Scale(4, 40); i++ {
			if err := run(c11case{Kind: "fsync", Seed: c.Seed*1000 + int64(i)}); err != nil {
				return err
			}
		}
		for i := 0; i < c.Scale(12, 120); i++ {
			leaves := []int{1, 2, 3, 5, 8, 13, 21, 34}[i%8]
			if err := run(c11case{Kind: "snap", Seed: c.Seed*1000 + int64(i), Leaves: leaves, Commits: 1 + i%4}); err != nil {
				return err
			}
		}
		for i := 0; i < c.Scale(1, 3); i++ {
			if err := run(c11case{Kind: "snapbig", Seed: c.Seed*1000 + int64(i), Leaves: 5100 + 5000*(i%3), Commits: 1 + i%2}); err != nil {
				return err
			}
		}
		for i := 0; i < c.Scale(14, 200); i++ {
			cs := c11case{Kind: "chain", Seed: c.Seed*1000 + int64(i), Blocks: 100, Reorgs: i%4 != 3}
			if c.Tier == "thorough" && i%10 == 0 {
				cs.SnapEvery = 25
			}
			if err := run(cs); err != nil {
				return err
			}
		}
		for _, k := range []string{"f5", "fsync"} {
			if c11built[k] < c11skipped[k] {
				return fmt.Errorf("only %d of %d %s scenarios could be built", c11built[k], c11built[k]+c11skipped[k], k)
			}
		}
		c.Rep.Distinct = 0 // Close() fills it from the distinct keys
		return nil
	})
}

var _ = sort.Strings
