package main

// C03: a block with any inconsistent derived field is rejected, side-effect free.
// Two real replicas; for every valid block A produces (proposed and empty) every tampering operator on every derived
// header field, every timestamp-window violation, ineligible proposers and every body edit (with and without
// recomputing the transaction commitment) is offered to B's real ValidateBlock and AddBlock:
// it must be refused, B's head / roots / tree versions / database content must be byte-identical afterwards, and the
// honest original must still be insertable.
import (
	"bytes"
	"crypto/sha256"
	"encoding/json"
	"fmt"
	"go/ast"
	"go/parser"
	"go/token"
	"math"
	"math/big"
	"math/rand"
	"os"
	"path/filepath"
	"runtime"
	"strings"
	"time"

	"github.com/idena-network/idena-go/blockchain/types"
	"github.com/idena-network/idena-go/blockchain/validation"
	"github.com/idena-network/idena-go/common"
	"github.com/idena-network/idena-go/core/appstate"
	"github.com/idena-network/idena-go/crypto"
	"github.com/idena-network/idena-go/ipfs"
	"github.com/idena-network/idena-go/stats/collector"
	dbm "github.com/tendermint/tm-db"

	"verifharness/internal/chainfx"
	"verifharness/internal/hx"
	"verifharness/internal/pairfx"
)

type c03case struct {
	Seed   int64 `json:"seed"`
	Blocks int   `json:"blocks"`
	All    bool  `json:"all"`      // every operator on every block (else a sample per block, all on every 4th)
	God    bool  `json:"god_mode"` // nobody goes online: only the god address may propose; it hands the role over mid-history
}

type tamper struct {
	line  string // protocol op line
	apply func(b *types.Block) bool
}

func dbHash(db dbm.DB) (string, int) {
	it, err := db.Iterator(nil, nil)
	if err != nil {
		panic(err)
	}
	defer it.Close()
	h := sha256.New()
	n := 0
	for ; it.Valid(); it.Next() {
		h.Write(it.Key())
		h.Write([]byte{0})
		h.Write(it.Value())
		h.Write([]byte{1})
		n++
	}
	return fmt.Sprintf("%x", h.Sum(nil)[:12]), n
}

type obs struct {
	head, root, iroot common.Hash
	ver               int64
	db                string
	keys              int
}

func observe(n *chainfx.Node) obs {
	d, k := dbHash(n.DB)
	return obs{n.Chain.Head.Hash(), n.App.State.Root(), n.App.IdentityState.Root(), n.App.State.Version(), d, k}
}

func flip(b []byte) []byte {
	if len(b) == 0 {
		return []byte{1}
	}
	c := append([]byte{}, b...)
	c[len(c)/2] ^= 0x10
	return c
}

func flipHash(h common.Hash) common.Hash { h[7] ^= 0x04; return h }

func recompute(b *types.Block) {
	ph := b.Header.ProposedHeader
	ph.TxHash = types.DeriveSha(types.Transactions(b.Body.Transactions))
	c, _ := ipfs.NewMemoryIpfsProxy().Cid(b.Body.ToBytes())
	if c != ipfs.EmptyCid {
		ph.IpfsHash = c.Bytes()
	} else {
		ph.IpfsHash = nil
	}
}

func proposedTampers(p *pairfx.Pair, other *types.Block, foreign []*types.Transaction) []tamper {
	ph := func(b *types.Block) *types.ProposedHeader { return b.Header.ProposedHeader }
	var ts []tamper
	add := func(line string, f func(b *types.Block) bool) { ts = append(ts, tamper{line, f}) }
	add("tamper proposed ParentHash flip", func(b *types.Block) bool { ph(b).ParentHash = flipHash(ph(b).ParentHash); return true })
	add("tamper proposed ParentHash other", func(b *types.Block) bool {
		if other == nil || other.Hash() == ph(b).ParentHash {
			return false
		}
		ph(b).ParentHash = other.Hash()
		return true
	})
	add("tamper proposed Height plus1", func(b *types.Block) bool { ph(b).Height++; return true })
	add("tamper proposed Height minus1", func(b *types.Block) bool { ph(b).Height--; return true })
	add("tamper proposed Time early", func(b *types.Block) bool { ph(b).Time = p.B.Chain.Head.Time() + 1; return true })
	add("tamper proposed Time future", func(b *types.Block) bool { ph(b).Time = common.VerifNow().Unix() + 3600; return true })
	// the whole int64 range outside the window [parent + 10 s, now + 2 min] (a timestamp inside it is the proposer's free choice)
	pt := p.B.Chain.Head.Time()
	for _, tv := range []struct {
		name string
		v    int64
	}{{"parent", pt}, {"parent-plus9", pt + 9}, {"parent-minus1", pt - 1}, {"zero", 0}, {"negative", -(1 << 62)}, {"min-int64", math.MinInt64},
		{"min-int64-wrap9", math.MinInt64 + pt + 9}, {"min-int64-wrap10", math.MinInt64 + pt + 10}, {"min-int64-wrap", math.MinInt64 + pt - 1},
		{"future-edge", common.VerifNow().Unix() + 121}, {"max-int64", math.MaxInt64}, {"max-internal-wrap", math.MaxInt64 - 62135596800 + 1 + pt + 15}} {
		tv := tv
		add("tamper proposed Time "+tv.name, func(b *types.Block) bool { ph(b).Time = tv.v; return true })
	}
	add("tamper proposed TxHash flip", func(b *types.Block) bool { ph(b).TxHash = flipHash(ph(b).TxHash); return true })
	add("tamper proposed TxHash other", func(b *types.Block) bool {
		if other == nil || other.IsEmpty() || other.Header.ProposedHeader.TxHash == ph(b).TxHash {
			return false
		}
		ph(b).TxHash = other.Header.ProposedHeader.TxHash
		return true
	})
	add("tamper proposed Root flip", func(b *types.Block) bool { ph(b).Root = flipHash(ph(b).Root); return true })
	add("tamper proposed Root other", func(b *types.Block) bool {
		if other == nil || other.Root() == ph(b).Root {
			return false
		}
		ph(b).Root = other.Root()
		return true
	})
	add("tamper proposed IdentityRoot flip", func(b *types.Block) bool { ph(b).IdentityRoot = flipHash(ph(b).IdentityRoot); return true })
	for _, fl := range []types.BlockFlag{types.IdentityUpdate, types.FlipLotteryStarted, types.ShortSessionStarted, types.LongSessionStarted,
		types.AfterLongSessionStarted, types.ValidationFinished, types.Snapshot, types.NewGenesis, types.OfflineCommit} {
		fl := fl
		add(fmt.Sprintf("tamper proposed Flags toggle%d", fl), func(b *types.Block) bool { ph(b).Flags ^= fl; return true })
	}
	// every bit of the flags word, also the ones no flag is defined for, and the all-ones word
	for bit := 10; bit < 32; bit++ {
		fl := types.BlockFlag(1) << uint(bit)
		add(fmt.Sprintf("tamper proposed Flags togglebit%d", bit), func(b *types.Block) bool { ph(b).Flags ^= fl; return true })
	}
	add("tamper proposed Flags all-ones", func(b *types.Block) bool { ph(b).Flags = ^types.BlockFlag(0); return true })
	add("tamper proposed Flags undefined-bits-set", func(b *types.Block) bool { ph(b).Flags |= 0xfffffc00; return true })
	add("tamper proposed IpfsHash flip", func(b *types.Block) bool { ph(b).IpfsHash = flip(ph(b).IpfsHash); return true })
	add("tamper proposed IpfsHash nil", func(b *types.Block) bool {
		if ph(b).IpfsHash == nil {
			return false
		}
		ph(b).IpfsHash = nil
		return true
	})
	add("tamper proposed TxBloom flip", func(b *types.Block) bool { ph(b).TxBloom = flip(ph(b).TxBloom); return true })
	add("tamper proposed TxBloom nil", func(b *types.Block) bool {
		if len(ph(b).TxBloom) == 0 {
			return false
		}
		ph(b).TxBloom = nil
		return true
	})
	add("tamper proposed BlockSeed flip", func(b *types.Block) bool { ph(b).BlockSeed[3] ^= 1; return true })
	add("tamper proposed BlockSeed other", func(b *types.Block) bool {
		if other == nil || other.Seed() == ph(b).BlockSeed {
			return false
		}
		ph(b).BlockSeed = other.Seed()
		return true
	})
	add("tamper proposed SeedProof flip", func(b *types.Block) bool { ph(b).SeedProof = flip(ph(b).SeedProof); return true })
	add("tamper proposed SeedProof nil", func(b *types.Block) bool { ph(b).SeedProof = nil; return true })
	// pair edits: the seed a failed proof verification yields (the nil hash) together with a proof that does not verify
	add("tamper2 proposed BlockSeed+SeedProof zero-nil", func(b *types.Block) bool { ph(b).BlockSeed = types.Seed{}; ph(b).SeedProof = nil; return true })
	add("tamper2 proposed BlockSeed+SeedProof zero-garbage", func(b *types.Block) bool {
		ph(b).BlockSeed = types.Seed{}
		ph(b).SeedProof = []byte{1, 2, 3, 4, 5, 6, 7, 8, 9}
		return true
	})
	add("tamper2 proposed BlockSeed+SeedProof zero-truncated", func(b *types.Block) bool {
		if len(ph(b).SeedProof) < 2 {
			return false
		}
		ph(b).BlockSeed = types.Seed{}
		ph(b).SeedProof = append([]byte{}, ph(b).SeedProof[:len(ph(b).SeedProof)-1]...)
		return true
	})
	add("tamper2 proposed BlockSeed+SeedProof zero-flip", func(b *types.Block) bool { ph(b).BlockSeed = types.Seed{}; ph(b).SeedProof = flip(ph(b).SeedProof); return true })
	add("tamper2 proposed BlockSeed+SeedProof zero-zeros", func(b *types.Block) bool {
		ph(b).BlockSeed = types.Seed{}
		ph(b).SeedProof = make([]byte, len(ph(b).SeedProof))
		return true
	})
	add("tamper proposed FeePerGas plus1", func(b *types.Block) bool {
		if ph(b).FeePerGas == nil || ph(b).FeePerGas.Sign() == 0 {
			return false
		}
		ph(b).FeePerGas = new(big.Int).Add(ph(b).FeePerGas, big.NewInt(1))
		return true
	})
	add("tamper proposed TxReceiptsCid flip", func(b *types.Block) bool { ph(b).TxReceiptsCid = flip(ph(b).TxReceiptsCid); return true })
	add("tamper proposed ProposerPubKey ineligible", func(b *types.Block) bool {
		// a real key of an identity that is not online (offline user or an unknown key)
		for i := len(p.W.Keys) - 1; i > 0; i-- {
			if !p.B.App.ValidatorsCache.IsOnlineIdentity(p.W.Addrs[i]) {
				ph(b).ProposerPubKey = crypto.FromECDSAPub(&p.W.Keys[i].PublicKey)
				return true
			}
		}
		return false
	})
	add("tamper proposed ProposerPubKey garbage", func(b *types.Block) bool { ph(b).ProposerPubKey = flip(ph(b).ProposerPubKey); return true })
	// both header variants present (the wire decoder keeps both): the block must not be judged by one part while the node
	// stores / chains on the other
	add("tamper proposed EmptyBlockHeader attach", func(b *types.Block) bool {
		b.Header.EmptyBlockHeader = &types.EmptyBlockHeader{ParentHash: ph(b).ParentHash, Height: ph(b).Height, Root: flipHash(ph(b).Root),
			IdentityRoot: ph(b).IdentityRoot, BlockSeed: ph(b).BlockSeed, Time: ph(b).Time, Flags: ph(b).Flags}
		return true
	})
	add("tamper proposed EmptyBlockHeader attach-honest", func(b *types.Block) bool {
		eb := p.B.Chain.GenerateEmptyBlock()
		if eb == nil || eb.Header.EmptyBlockHeader == nil {
			return false
		}
		b.Header.EmptyBlockHeader = eb.Header.EmptyBlockHeader
		return true
	})
	// body edits, with (1) and without (0) recomputing the transaction commitment and body cid
	for _, rec := range []int{0, 1} {
		rec := rec
		fin := func(b *types.Block) bool {
			if rec == 1 {
				recompute(b)
			}
			return true
		}
		add(fmt.Sprintf("body drop %d", rec), func(b *types.Block) bool {
			if len(b.Body.Transactions) == 0 {
				return false
			}
			b.Body.Transactions = b.Body.Transactions[1:]
			return fin(b)
		})
		add(fmt.Sprintf("body duplicate %d", rec), func(b *types.Block) bool {
			if len(b.Body.Transactions) == 0 {
				return false
			}
			b.Body.Transactions = append(b.Body.Transactions, b.Body.Transactions[0])
			return fin(b)
		})
		add(fmt.Sprintf("body reorder %d", rec), func(b *types.Block) bool {
			t := b.Body.Transactions
			if len(t) < 2 || t[0].Hash() == t[1].Hash() {
				return false
			}
			t[0], t[1] = t[1], t[0]
			return fin(b)
		})
		for k, ftx := range foreign {
			ftx := ftx
			add(fmt.Sprintf("body append-foreign%d %d", k, rec), func(b *types.Block) bool {
				b.Body.Transactions = append(b.Body.Transactions, ftx)
				return fin(b)
			})
		}
	}
	// combinations: two or three single-field edits of derived fields at once (theorem accepted_derived_unique: no combination
	// of derived-field edits of an accepted header is accepted); chosen by the pair's PRNG, the line names the first field
	var derivedOps []tamper
	for _, t := range ts {
		f := strings.Fields(t.line)
		if len(f) >= 4 && f[0] == "tamper" && f[1] == "proposed" {
			switch f[2] {
			case "ParentHash", "Height", "TxHash", "Root", "IdentityRoot", "Flags", "IpfsHash", "TxBloom", "BlockSeed", "SeedProof", "TxReceiptsCid":
				derivedOps = append(derivedOps, t)
			}
		}
	}
	if len(derivedOps) > 3 {
		for k := 0; k < 4; k++ {
			n := 2 + p.R.Intn(2)
			var picked []tamper
			seen := map[string]bool{}
			for len(picked) < n {
				t := derivedOps[p.R.Intn(len(derivedOps))]
				fld := strings.Fields(t.line)[2]
				if seen[fld] {
					continue
				}
				seen[fld] = true
				picked = append(picked, t)
			}
			var names []string
			for _, t := range picked {
				ff := strings.Fields(t.line)
				names = append(names, ff[2]+"-"+ff[3])
			}
			pk := picked
			add(fmt.Sprintf("tamper proposed %s combo:%s", strings.Fields(picked[0].line)[2], strings.Join(names, "+")), func(b *types.Block) bool {
				any := false
				for _, t := range pk {
					if t.apply(b) {
						any = true
					}
				}
				return any
			})
		}
	}
	return ts
}

func emptyTampers(other *types.Block) []tamper {
	eh := func(b *types.Block) *types.EmptyBlockHeader { return b.Header.EmptyBlockHeader }
	return []tamper{
		{"tamper empty ProposedHeader attach", func(b *types.Block) bool {
			// an arbitrary proposed header next to the honest empty one (height and parent made to fit)
			ph := &types.ProposedHeader{ParentHash: eh(b).ParentHash, Height: eh(b).Height, Time: eh(b).Time, Root: flipHash(eh(b).Root),
				IdentityRoot: eh(b).IdentityRoot, BlockSeed: eh(b).BlockSeed, ProposerPubKey: []byte{4, 1, 2, 3}, TxHash: flipHash(eh(b).ParentHash)}
			if other != nil && !other.IsEmpty() {
				cp := *other.Header.ProposedHeader
				cp.ParentHash, cp.Height = eh(b).ParentHash, eh(b).Height
				ph = &cp
			}
			b.Header.ProposedHeader = ph
			return true
		}},
		{"tamper empty ParentHash", func(b *types.Block) bool { eh(b).ParentHash = flipHash(eh(b).ParentHash); return true }},
		{"tamper empty Height", func(b *types.Block) bool { eh(b).Height++; return true }},
		{"tamper empty Root", func(b *types.Block) bool { eh(b).Root = flipHash(eh(b).Root); return true }},
		{"tamper empty IdentityRoot", func(b *types.Block) bool { eh(b).IdentityRoot = flipHash(eh(b).IdentityRoot); return true }},
		{"tamper empty BlockSeed", func(b *types.Block) bool { eh(b).BlockSeed[5] ^= 2; return true }},
		{"tamper empty Time", func(b *types.Block) bool { eh(b).Time++; return true }},
		{"tamper empty Flags", func(b *types.Block) bool { eh(b).Flags ^= types.IdentityUpdate; return true }},
	}
}

// headerFields re-extracts the field lists of the two header structs from /repo's current types.go.
func headerFields() (map[string][]string, error) {
	_, self, _, _ := runtime.Caller(0)
	_ = self
	repo := os.Getenv("VERIF_REPO")
	if repo == "" {
		repo = "/repo"
	}
	fset := token.NewFileSet()
	f, err := parser.ParseFile(fset, filepath.Join(repo, "blockchain/types/types.go"), nil, 0)
	if err != nil {
		return nil, err
	}
	out := map[string][]string{}
	ast.Inspect(f, func(n ast.Node) bool {
		ts, ok := n.(*ast.TypeSpec)
		if !ok || (ts.Name.Name != "ProposedHeader" && ts.Name.Name != "EmptyBlockHeader") {
			return true
		}
		st, ok := ts.Type.(*ast.StructType)
		if !ok {
			return true
		}
		for _, fl := range st.Fields.List {
			for _, nm := range fl.Names {
				out[ts.Name.Name] = append(out[ts.Name.Name], nm.Name)
			}
		}
		return true
	})
	return out, nil
}

func eligibleOn(n *chainfx.Node, a common.Address) bool {
	vc := n.App.ValidatorsCache
	return vc.IsOnlineIdentity(a) || (a == n.App.State.GodAddress() && vc.OnlineSize() == 0)
}

// godModePair: as pairfx.NewPair, but nobody ever goes online, so only the god address may propose.
func godModePair(seed int64, nUsers int) (*pairfx.Pair, error) {
	r := rand.New(rand.NewSource(seed))
	w := chainfx.NewWorld(seed, nUsers, 0, time.Date(2030, 1, 1, 0, 0, 0, 0, time.UTC))
	chainfx.SetTime(w.T0)
	w.Opts.Validation = chainfx.ShortValidation()
	w.Opts.FirstCeremony = w.T0.Add(8 * time.Minute).Unix()
	a, err := w.StartNode(nil, 0, true)
	if err != nil {
		return nil, err
	}
	h := chainfx.NewHistory(w, a, r, chainfx.HistoryOpts{TxPerBlock: 4, NoOnline: true})
	b, err := w.StartNode(nil, 1, true)
	if err != nil {
		return nil, err
	}
	return &pairfx.Pair{W: w, A: a, B: b, H: h, R: r}, nil
}

func c03run(c *hx.Ctx, cs c03case) error {
	var p *pairfx.Pair
	var err error
	if cs.God {
		p, err = godModePair(cs.Seed, 8)
	} else {
		p, err = pairfx.NewPair(cs.Seed, true, 8)
	}
	if err != nil {
		return err
	}
	defer os.RemoveAll("./testdata")
	defer os.RemoveAll("./testdata2")
	A, B, r := p.A, p.B, p.R
	// a third full node whose key may not propose: its own ProposeBlock yields blocks that are consistent in every derived
	// field (seed proof, roots, commitments) and wrong only in who proposed them
	outIdx := len(p.W.Keys) - 1
	C, err := p.W.StartNode(nil, outIdx, true)
	if err != nil {
		return err
	}
	// a fourth node that follows on the sync route (see below)
	D, err := p.W.StartNode(nil, outIdx, true)
	if err != nil {
		return err
	}
	var dSync *appstate.AppState
	var dBorn map[common.Address]bool
	dAge := 0
	propIdx := 0
	handedOver := false
	fail := func(sig, detail string, extra interface{}) {
		c.Fail(sig, detail, map[string]interface{}{"case": cs, "at": extra})
	}
	c.Line("new", "ok")
	var prevBlocks []*types.Block
	for b := 1; b <= cs.Blocks; b++ {
		p.H.OfferTxs(b)
		if r.Intn(3) == 0 && !cs.God {
			p.OfferConflicts(b)
		}
		if cs.God && !handedOver && b >= cs.Blocks/2 && A.App.State.ValidationPeriod() == 0 {
			// the god address hands its role over to the third node's address (its own, honest transaction)
			to := p.W.Addrs[outIdx]
			if _, err := p.H.S.Send(A, propIdx, &types.Transaction{Type: types.ChangeGodAddressTx, To: &to}); err == nil {
				c.Hit("god-handover-tx-sent")
			}
		}
		chainfx.Advance(20 * time.Second)
		var blk *types.Block
		empty := r.Intn(7) == 0 && b > 3
		if empty {
			blk = A.Chain.GenerateEmptyBlock()
		} else {
			if !eligibleOn(A, A.Addr) {
				c.Hit("history-ended:proposer-not-eligible")
				break
			}
			prop, err := A.Propose()
			if err != nil {
				fail("C03:history-broken", err.Error(), b)
				return nil
			}
			blk = prop.Block
		}
		var other *types.Block
		if len(prevBlocks) > 0 {
			other = prevBlocks[r.Intn(len(prevBlocks))]
		}
		// foreign transactions: another epoch, unaffordable, replay of an included one
		var foreign []*types.Transaction
		if !empty {
			to := p.W.Addrs[2]
			i := 1 + r.Intn(len(p.W.Keys)-1)
			ftx, _ := types.SignTx(&types.Transaction{Type: types.SendTx, To: &to, Amount: chainfx.Dna(1), MaxFee: chainfx.Dna(200),
				Epoch: B.App.State.Epoch() + 1, AccountNonce: 1}, p.W.Keys[i])
			utx, _ := types.SignTx(&types.Transaction{Type: types.SendTx, To: &to, Amount: chainfx.Dna(90000000), MaxFee: chainfx.Dna(200),
				Epoch: B.App.State.Epoch(), AccountNonce: B.App.State.GetNonce(p.W.Addrs[i]) + 1}, p.W.Keys[i])
			foreign = []*types.Transaction{ftx, utx}
			for _, pb := range prevBlocks {
				if !pb.IsEmpty() && len(pb.Body.Transactions) > 0 {
					foreign = append(foreign, pb.Body.Transactions[0])
					break
				}
			}
		}
		before0 := observe(B)
		if !empty && !eligibleOn(B, C.Addr) {
			// (1) C's proposal as it is; (2) in god mode also with the current god's hand-over to C in its body: the proposer
			// must be judged on the state the block builds on, not on the state its own transactions produce
			for variant := 0; variant < 2; variant++ {
				var htx *types.Transaction
				if variant == 1 {
					if !cs.God || B.App.State.ValidationPeriod() != 0 || B.App.State.GodAddress() != p.W.Addrs[propIdx] {
						continue
					}
					nonce := uint32(1)
					if B.App.State.GetEpoch(p.W.Addrs[propIdx]) == B.App.State.Epoch() {
						nonce = B.App.State.GetNonce(p.W.Addrs[propIdx]) + 1
					}
					to := C.Addr
					htx, _ = types.SignTx(&types.Transaction{Type: types.ChangeGodAddressTx, To: &to, AccountNonce: nonce, Epoch: B.App.State.Epoch(),
						MaxFee: chainfx.Dna(200)}, p.W.Keys[propIdx])
					if err := C.Pool.AddExternalTxs(validation.InboundTx, htx); err != nil {
						c.Hit("outsider-handover-tx-refused-by-pool")
						continue
					}
				}
				op, perr := C.Propose()
				if htx != nil {
					C.Pool.Remove(htx)
				}
				if perr != nil || op == nil || op.Block == nil || op.Block.IsEmpty() {
					c.Hit("outsider-propose-failed")
					continue
				}
				if htx != nil {
					has := false
					for _, tx := range op.Block.Body.Transactions {
						has = has || tx.Hash() == htx.Hash()
					}
					if !has {
						c.Hit("outsider-handover-tx-not-in-block")
						continue
					}
				}
				ob, err := chainfx.CloneBlock(op.Block)
				if err != nil {
					continue
				}
				line := fmt.Sprintf("outsider %d", variant)
				accepted := false
				func() {
					defer func() {
						if rec := recover(); rec != nil {
							fail("C03:validation-panic", fmt.Sprintf("height %d %s: %v", ob.Height(), line, rec), b)
						}
					}()
					if _, verr := B.Chain.ValidateBlock(ob, nil, collector.NewStatsCollector()); verr == nil {
						accepted = true
					}
					if aerr := B.Chain.AddBlock(ob, nil, collector.NewStatsCollector()); aerr == nil {
						accepted = true
					}
				}()
				c.Rep.Evaluations++
				c.Hit("op:" + line)
				if accepted {
					c.Line(line, "acc")
					fail("C03:ineligible-proposer-accepted:"+line, fmt.Sprintf("height %d: a block proposed by %s (not online; god address %s, %d online) was accepted", ob.Height(),
						C.Addr.Hex(), B.App.State.GodAddress().Hex(), B.App.ValidatorsCache.OnlineSize()), b)
					return nil
				}
				c.Line(line, "rej")
				if after := observe(B); after != before0 {
					fail("C03:rejection-changed-node:"+line, fmt.Sprintf("height %d: after refusing (%s) the node differs", ob.Height(), line), b)
					return nil
				}
			}
		}
		var ts []tamper
		if empty {
			ts = emptyTampers(other)
		} else {
			ts = proposedTampers(p, other, foreign)
		}
		all := cs.All || b%4 == 0
		before := observe(B)
		for _, t := range ts {
			if !all && r.Intn(4) != 0 {
				continue
			}
			tb, err := chainfx.CloneBlock(blk)
			if err != nil {
				fail("C03:history-broken", "clone: "+err.Error(), b)
				return nil
			}
			if !t.apply(tb) {
				continue
			}
			tb2, err := chainfx.CloneBlock(tb) // through the wire: drops cached hashes
			if err != nil {
				c.Line(t.line, "rej") // not even encodable/decodable: refused at decoding
				c.Hit("tamper:undecodable")
				continue
			}
			if tb2.Hash() == blk.Hash() && bytes.Equal(tb2.Body.ToBytes(), blk.Body.ToBytes()) {
				continue // the operator did not change the block
			}
			accepted := false
			if t.line == "body reorder 1" {
				// with the commitment recomputed, a reordering of two commuting transactions is a consistent (different)
				// block: every derived field equals what the validator recomputes.  Acceptance is legitimate; only
				// ValidateBlock is called (AddBlock would adopt it) and the node must be unchanged either way.
				_, verr := B.Chain.ValidateBlock(tb2, nil, collector.NewStatsCollector())
				if verr == nil {
					c.Hit("reorder-recomputed:consistent-block-accepted")
				} else {
					c.Hit("reorder-recomputed:rejected")
				}
				if after := observe(B); after != before {
					fail("C03:validation-changed-node:"+t.line, fmt.Sprintf("height %d: validating (%s) changed the node", blk.Height(), t.line), b)
					return nil
				}
				c.Rep.Evaluations++
				continue
			}
			func() {
				defer func() {
					if rec := recover(); rec != nil {
						fail("C03:validation-panic", fmt.Sprintf("height %d %s: %v", blk.Height(), t.line, rec), b)
					}
				}()
				if _, verr := B.Chain.ValidateBlock(tb2, nil, collector.NewStatsCollector()); verr == nil {
					accepted = true
				}
				if aerr := B.Chain.AddBlock(tb2, nil, collector.NewStatsCollector()); aerr == nil {
					accepted = true
				}
			}()
			c.Rep.Evaluations++
			c.Hit("op:" + t.line)
			if accepted {
				c.Line(t.line, "acc")
				fail("C03:tampered-block-accepted:"+t.line, fmt.Sprintf("height %d (%d txs): %s was accepted", blk.Height(), len(blk.Body.Transactions), t.line), b)
				return nil
			}
			c.Line(t.line, "rej")
			after := observe(B)
			if after != before {
				fail("C03:rejection-changed-node:"+t.line, fmt.Sprintf("height %d: after refusing (%s) the node differs: before %+v after %+v", blk.Height(), t.line, before, after), b)
				return nil
			}
			if c.Distinct(fmt.Sprint(cs.Seed, b, t.line)) {
				c.Rep.Distinct++
			}
		}
		// sub-chain validation (the route of fork resolution and of a syncing node): A moves ahead by this block and proposes
		// the next one; B, still on the parent, evaluates the two as a fork with the real ValidateSubChain.  Without
		// certificates the honest pair must be refused only for the missing certificate (i.e. after both blocks were
		// evaluated), and a pair whose second block is tampered with must be refused earlier.
		aAdded := false
		if !empty && !blk.Header.Flags().HasFlag(types.IdentityUpdate) && (b <= 3 || b%5 == 0) {
			if err := A.Add(blk); err != nil {
				fail("C03:history-broken", "A.Add: "+err.Error(), b)
				return nil
			}
			aAdded = true
			if eligibleOn(A, A.Addr) {
				chainfx.Advance(20 * time.Second)
				p2, perr := A.Propose()
				if perr == nil && p2 != nil && !p2.Block.IsEmpty() {
					certErr := func(e error) bool {
						return e != nil && (strings.Contains(e.Error(), "cert is missing") || strings.Contains(e.Error(), "should have a certificate"))
					}
					sub := func(b2 *types.Block) (e error) {
						defer func() {
							if rec := recover(); rec != nil {
								e = fmt.Errorf("panic: %v", rec)
							}
						}()
						b1, _ := chainfx.CloneBlock(blk)
						return B.Chain.ValidateSubChain(B.Chain.Head.Height(), []types.BlockBundle{{Block: b1}, {Block: b2}})
					}
					beforeSub := observe(B)
					h2, _ := chainfx.CloneBlock(p2.Block)
					if e := sub(h2); !certErr(e) {
						fail("C03:honest-sub-chain-refused", fmt.Sprintf("heights %d,%d evaluated by a node on height %d: %v", blk.Height(), p2.Block.Height(), B.Chain.Head.Height(), e), b)
						return nil
					}
					c.Hit("sub-chain:honest-pair-evaluated")
					ph2 := func(x *types.Block) *types.ProposedHeader { return x.Header.ProposedHeader }
					subTampers := []tamper{
						{"sub FeePerGas plus1", func(x *types.Block) bool {
							if ph2(x).FeePerGas == nil {
								return false
							}
							ph2(x).FeePerGas = new(big.Int).Add(ph2(x).FeePerGas, big.NewInt(1))
							return true
						}},
						{"sub FeePerGas of-the-validators-head", func(x *types.Block) bool {
							hf := B.App.State.FeePerGas()
							if hf == nil || hf.Sign() == 0 || ph2(x).FeePerGas != nil && hf.Cmp(ph2(x).FeePerGas) == 0 {
								return false
							}
							ph2(x).FeePerGas = new(big.Int).Set(hf)
							return true
						}},
						{"sub Root flip", func(x *types.Block) bool { ph2(x).Root = flipHash(ph2(x).Root); return true }},
						{"sub IdentityRoot flip", func(x *types.Block) bool { ph2(x).IdentityRoot = flipHash(ph2(x).IdentityRoot); return true }},
						{"sub TxHash flip", func(x *types.Block) bool { ph2(x).TxHash = flipHash(ph2(x).TxHash); return true }},
						{"sub Flags toggle-snapshot", func(x *types.Block) bool { ph2(x).Flags ^= types.Snapshot; return true }},
						{"sub Height plus1", func(x *types.Block) bool { ph2(x).Height++; return true }},
						{"sub BlockSeed flip", func(x *types.Block) bool { ph2(x).BlockSeed[3] ^= 1; return true }},
					}
					for _, t := range subTampers {
						tb, _ := chainfx.CloneBlock(p2.Block)
						if !t.apply(tb) {
							continue
						}
						tb2, err := chainfx.CloneBlock(tb)
						if err != nil {
							continue
						}
						e := sub(tb2)
						c.Rep.Evaluations++
						c.Hit("op:" + t.line)
						if e == nil || certErr(e) {
							fail("C03:tampered-block-accepted-in-sub-chain:"+t.line, fmt.Sprintf("heights %d,%d: second block with (%s) passed the evaluation of ValidateSubChain (%v)", blk.Height(), p2.Block.Height(), t.line, e), b)
							return nil
						}
					}
					if after := observe(B); after != beforeSub {
						fail("C03:validation-changed-node:sub-chain", fmt.Sprintf("height %d: sub-chain evaluations changed the node", blk.Height()), b)
						return nil
					}
				}
				chainfx.Advance(-20 * time.Second)
			}
		}
		// the honest original is still insertable on B (through the wire) and on A
		orig, _ := chainfx.CloneBlock(blk)
		if err := B.Add(orig); err != nil {
			c.Line("orig", "rej")
			fail("C03:original-not-insertable", fmt.Sprintf("height %d: %v", blk.Height(), err), b)
			return nil
		}
		c.Line("orig", "acc")
		if !aAdded {
			if err := A.Add(blk); err != nil {
				fail("C03:history-broken", "A.Add: "+err.Error(), b)
				return nil
			}
		}
		if A.Chain.Head.Hash() != B.Chain.Head.Hash() || A.App.State.Root() != B.App.State.Root() {
			fail("C03:replicas-diverge", fmt.Sprintf("height %d", blk.Height()), b)
			return nil
		}
		cb, _ := chainfx.CloneBlock(blk)
		if err := C.Add(cb); err != nil {
			fail("C03:original-not-insertable", fmt.Sprintf("height %d on the third node: %v", blk.Height(), err), b)
			return nil
		}
		// a fourth node follows on the route of a syncing node: batches of blocks on ONE long-lived check state
		// (ForCheckWithOverwrite once, AddBlock(block, checkState) + FinalizePrecommit per block).  When a block of the batch
		// changes who may propose (an identity-update block: status switch, kill, end of a validation), a node that could
		// propose when the check state was created and cannot any more must be refused on that same check state.
		{
			if dSync == nil {
				dBorn = map[common.Address]bool{A.Addr: eligibleOn(D, A.Addr), B.Addr: eligibleOn(D, B.Addr), C.Addr: eligibleOn(D, C.Addr)}
				dAge = 0
			}
			db4, _ := chainfx.CloneBlock(blk)
			var derr error
			dSync, derr = D.AddSynced(db4, dSync)
			if derr != nil {
				fail("C03:original-not-insertable", fmt.Sprintf("height %d on the syncing node: %v", blk.Height(), derr), b)
				return nil
			}
			dAge++
			if dAge >= 2 && blk.Header.Flags().HasFlag(types.IdentityUpdate) {
				for _, X := range []*chainfx.Node{A, B, C} {
					if !dBorn[X.Addr] || eligibleOn(D, X.Addr) || X.Chain.Head.Hash() != D.Chain.Head.Hash() {
						continue
					}
					chainfx.Advance(20 * time.Second)
					op, perr := X.Propose()
					if perr == nil && op != nil && op.Block != nil && !op.Block.IsEmpty() {
						if ob, err := chainfx.CloneBlock(op.Block); err == nil {
							var aerr error
							func() {
								defer func() {
									if rec := recover(); rec != nil {
										aerr = fmt.Errorf("panic: %v", rec)
									}
								}()
								aerr = D.Chain.AddBlock(ob, dSync, collector.NewStatsCollector())
							}()
							c.Rep.Evaluations++
							c.Hit("op:sync-route lost-eligibility")
							if aerr == nil {
								fail("C03:ineligible-proposer-accepted:sync-route", fmt.Sprintf("height %d: %s could propose when the syncing node's check state was created (%d blocks ago), lost that with the identity-update block %d, and its block was accepted on that check state", ob.Height(), X.Addr.Hex(), dAge, blk.Height()), b)
								return nil
							}
						}
					}
					chainfx.Advance(-20 * time.Second)
					dSync = nil // a check state that refused a block is thrown away, as the syncing node does
					break
				}
			}
			if dAge >= 9 {
				dSync = nil
			}
		}
		if cs.God && !handedOver && B.App.State.GodAddress() == C.Addr {
			// the role moved: the third node proposes from now on, the old god's node is the one that may not
			handedOver = true
			A, C = C, A
			propIdx, outIdx = outIdx, propIdx
			p.A, p.H.N = A, A
			c.Hit("god-handover-done")
		}
		prevBlocks = append(prevBlocks, blk)
		if len(prevBlocks) > 12 {
			prevBlocks = prevBlocks[1:]
		}
		if empty {
			c.Hit("blocks:empty")
		} else {
			c.Hit("blocks:proposed")
		}
	}
	return nil
}

func init() {
	hx.Register("C03", func(c *hx.Ctx) error {
		if c.Replay != "" {
			b, err := os.ReadFile(c.Replay)
			if err != nil {
				return err
			}
			var wrap struct {
				Replay struct {
					Case c03case `json:"case"`
				} `json:"replay"`
			}
			if err := json.Unmarshal(b, &wrap); err != nil {
				return err
			}
			wrap.Replay.Case.All = true
			return c03run(c, wrap.Replay.Case)
		}
		// (G) header field census, re-extracted from types.go on every run
		fields, err := headerFields()
		if err != nil {
			return err
		}
		c.Line("new", "ok")
		expect := map[string]string{"ProposerPubKey": "free", "Time": "free", "OfflineAddr": "free", "Upgrade": "free"}
		for _, st := range []string{"ProposedHeader", "EmptyBlockHeader"} {
			if len(fields[st]) == 0 {
				return fmt.Errorf("header struct %s not found in types.go", st)
			}
			for _, f := range fields[st] {
				want := "derived"
				if st == "ProposedHeader" {
					if e, ok := expect[f]; ok {
						want = e
					}
				}
				c.Line(fmt.Sprintf("field %s %s", st, f), want)
			}
		}
		c.Rep.Coverage["header_fields"] = fields
		c.Rep.Rule = "two real replicas over multi-epoch histories; every valid block (proposed / empty) x tampering operators (bit flip, +-1, nil, value from another block on every derived header field; every persistent flag bit; timestamp window: early/future and the int64 extremes and wrap-around points; ineligible / garbage proposer key; a third full node's own (fully consistent) proposals while it may not propose, in god-mode histories also carrying the god's hand-over to it, and the real hand-over mid-history; body drop/duplicate/reorder/append foreign-epoch, unaffordable, replayed tx with and without recomputed TxHash+IpfsHash); evaluation = one tampered block through B's ValidateBlock and AddBlock + full database hash comparison; distinct = (history, block, operator)"
		nh := c.Scale(3, 60)
		for i := 0; i < nh; i++ {
			cs := c03case{Seed: c.Seed*1000 + int64(i), Blocks: 70, All: c.Tier == "thorough", God: i%3 == 2}
			if err := c03run(c, cs); err != nil {
				return err
			}
			c.Sample(cs)
		}
		return nil
	})
}
