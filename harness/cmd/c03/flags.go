package main

// C03flags: the derived header flags and the validation-period machine on real chain histories.
// For every block A builds (proposed or empty) the inputs of calculateFlags / applyGlobalParams are read from B's state
// before the block (period, next validation time, after-long counters, pending switches, snapshot height), the block goes
// through B's real AddBlock, and the flags the header carries plus the period / counters / snapshot height afterwards are
// the answer.  The Lean model (Model/Flags.lean) computes the same from the inputs.
import (
	"encoding/binary"
	"encoding/json"
	"fmt"
	"math"
	"math/big"
	"math/rand"
	"os"
	"sort"
	"strings"
	"time"

	"github.com/idena-network/idena-go/blockchain/fee"
	"github.com/idena-network/idena-go/blockchain/types"
	"github.com/idena-network/idena-go/common"
	"github.com/idena-network/idena-go/config"
	"github.com/idena-network/idena-go/core/state"
	"github.com/idena-network/idena-go/crypto"
	"github.com/shopspring/decimal"

	"verifharness/internal/chainfx"
	"verifharness/internal/hx"
	"verifharness/internal/pairfx"
)

type c03fcase struct {
	Seed   int64 `json:"seed"`
	Blocks int   `json:"blocks"`
	Shards int   `json:"shards"`
	Online int   `json:"online,omitempty"` // this many further users keep themselves online (more than two validators: the VRF threshold has room to move)
	Jump   bool  `json:"jump"` // the clock sometimes jumps minutes ahead between blocks (late chain: still one period per block)
}

func c03fRun(c *hx.Ctx, cs c03fcase) error {
	shape := func(w *chainfx.World, o *chainfx.HistoryOpts) {
		w.Opts.Tweak = func(cfg *config.Config) {
			cfg.Consensus.SnapshotRange = 17
			cfg.Consensus.StatusSwitchRange = 5
			cfg.Consensus.DelegationSwitchRange = 7
			cfg.Consensus.DiscriminationSwitchRange = 6
		}
		for k := 0; k < cs.Online; k++ {
			o.Always[2+k] = true
		}
		if cs.Shards > 1 {
			w.AddFresh(4)
			w.Sharded(cs.Shards)
			o.Onboard = true
		}
	}
	p, err := pairfx.NewPairWith(cs.Seed, true, 9, shape)
	if err != nil {
		return err
	}
	defer os.RemoveAll("./testdata")
	defer os.RemoveAll("./testdata2")
	A, B, r := p.A, p.B, p.R
	fail := func(sig, detail string, at interface{}) {
		c.Fail(sig, detail, map[string]interface{}{"case": cs, "at": at})
	}
	cfg := B.Cfg
	ids := map[common.Address]int{}
	idOf := func(a common.Address) int {
		if v, ok := ids[a]; ok {
			return v
		}
		ids[a] = len(ids) + 1
		return ids[a]
	}
	emptyStr := func() string {
		m := B.App.State.FxEmptyBlocksByShards()
		var ks []int
		for k := range m {
			ks = append(ks, int(k))
		}
		sort.Ints(ks)
		var parts []string
		for _, k := range ks {
			var ps []string
			for _, a := range m[common.ShardId(k)] {
				ps = append(ps, fmt.Sprint(idOf(a)))
			}
			l := "-"
			if len(ps) > 0 {
				l = strings.Join(ps, ".")
			}
			parts = append(parts, fmt.Sprintf("%d:%s", k, l))
		}
		if len(parts) == 0 {
			return "-"
		}
		return strings.Join(parts, ",")
	}
	b2 := func(b bool) int {
		if b {
			return 1
		}
		return 0
	}
	c.Line(fmt.Sprintf("new %d %d %d %d %d %d %d", int64(cfg.Validation.GetFlipLotteryDuration()), int64(cfg.Validation.GetShortSessionDuration()),
		cfg.Consensus.SnapshotRange, cfg.Consensus.StatusSwitchRange, cfg.Consensus.DelegationSwitchRange, cfg.Consensus.DiscriminationSwitchRange,
		b2(cfg.Consensus.GenerateGenesisAfterUpgrade)), "ok")
	sync := func() {
		st := B.App.State
		c.Line(fmt.Sprintf("sync %d %d %d %d %d %s", st.ValidationPeriod(), st.NextValidationTime().Unix(), st.BlocksCntWithoutCeremonialTxs(), st.ShardsNum(),
			st.LastSnapshot(), emptyStr()), "ok")
	}
	sync()
	vsync := func() { c.Line("vsync "+B.App.State.FxEmptyBlocksBits(), "ok") }
	vsync()
	for b := 1; b <= cs.Blocks; b++ {
		p.H.OfferTxs(b)
		if r.Intn(3) == 0 {
			p.OfferConflicts(b)
		}
		step := 20 * time.Second
		if cs.Jump && r.Intn(6) == 0 {
			step = time.Duration(1+r.Intn(9)) * time.Minute
		}
		chainfx.Advance(step)
		var blk *types.Block
		emptyOdds := 6
		if cs.Online > 0 {
			emptyOdds = 45 // the threshold leaves its floor only after a full window of non-empty blocks
		}
		empty := r.Intn(emptyOdds) == 0 && b > 3
		if !empty && !A.IsEligibleProposer() {
			if !B.IsEligibleProposer() {
				empty = true // nobody of the two may propose: the chain goes on with empty blocks
				c.Hit("empty-because-no-proposer")
			} else {
				p.A, p.B = p.B, p.A
				A, B = p.A, p.B
				p.H.N = A
			}
		}
		if empty {
			blk = A.Chain.GenerateEmptyBlock()
		} else {
			prop, err := A.Propose()
			if err != nil {
				fail("C03:history-broken", err.Error(), b)
				return nil
			}
			blk = prop.Block
		}
		// inputs, from B's state before the block
		st := B.App.State
		hasKill := false
		if blk.Body != nil {
			for _, tx := range blk.Body.Transactions {
				if tx.Type == types.KillTx || tx.Type == types.KillInviteeTx || tx.Type == types.KillDelegatorTx {
					hasKill = true
				}
			}
		}
		// applyGlobalParams reads the shards of the proposer and of the senders of ceremonial transactions from the state it
		// works on: for a validation-finishing block that is the state after applyNewEpoch (shards may have been merged)
		accountingInputs := func(sdb *state.StateDB) (cer string, proposer, proposerShard int, proposerValidated bool) {
			cerShards := map[int]bool{}
			var cerList []string
			if blk.Body != nil {
				for _, tx := range blk.Body.Transactions {
					if _, ok := types.CeremonialTxs[tx.Type]; ok {
						s, _ := types.Sender(tx)
						sid := sdb.GetIdentity(s)
						sh := int(sid.ShiftedShardId())
						if !cerShards[sh] {
							cerShards[sh] = true
							cerList = append(cerList, fmt.Sprint(sh))
						}
					}
				}
			}
			sort.Strings(cerList)
			cer = "-"
			if len(cerList) > 0 {
				cer = strings.Join(cerList, ".")
			}
			proposer, proposerShard = 0, 1
			if !blk.IsEmpty() {
				pa, _ := crypto.PubKeyBytesToAddress(blk.Header.ProposedHeader.ProposerPubKey)
				pid := sdb.GetIdentity(pa)
				proposer = idOf(pa)
				proposerShard = int(pid.ShiftedShardId())
				proposerValidated = pid.State.NewbieOrBetter()
				if len(cerShards) == 0 && !proposerValidated {
					// blockchain.go:1190: a proposer that is not validated counts for a shard drawn from the block seed
					randSeed := binary.LittleEndian.Uint64(blk.Seed().Bytes())
					random := rand.New(rand.NewSource(int64(randSeed)*77 + 55))
					proposerShard = 1 + random.Intn(int(sdb.ShardsNum()))
				}
			}
			return
		}
		cer, proposer, proposerShard, proposerValidated := accountingInputs(st)
		// the pending-switch lists are read by calculateFlags after the block's transactions were applied to the check state
		sw := st
		var usedGas uint64
		if !blk.IsEmpty() && len(blk.Body.Transactions) > 0 {
			if cs1, err := B.App.ForCheck(B.Chain.Head.Height()); err == nil {
				func() {
					defer func() { recover() }()
					_, _, _, g, _ := B.Chain.FxProcessTxs(cs1, blk.Header, blk.Body.Transactions)
					usedGas = g
				}()
				sw = cs1.State
			}
		}
		prevFee := "0"
		if f := st.FeePerGas(); f != nil {
			prevFee = f.String()
		}
		netSize := B.App.ValidatorsCache.NetworkSize()
		onlineBefore := B.App.ValidatorsCache.OnlineSize()
		longNs := int64(cfg.Validation.GetLongSessionDuration(B.App.ValidatorsCache.NetworkSize()))
		prevUpgrade := B.Chain.Head.ProposedHeader != nil && B.Chain.Head.ProposedHeader.Upgrade > 0
		mkLine := func() string {
			return fmt.Sprintf("blk %d %d %d %d %d %d %d %d %d %d %s %d %d %d %d", blk.Height(), blk.Header.Time(), b2(blk.IsEmpty()), b2(hasKill),
				longNs,
				b2(len(sw.StatusSwitchAddresses()) > 0), b2(len(sw.DelayedOfflinePenalties()) > 0), b2(len(sw.Delegations()) > 0), b2(len(sw.DiscriminationStatusSwitchAddresses()) > 0),
				b2(prevUpgrade), cer, proposer, proposerShard, b2(proposerValidated), onlineBefore)
		}
		line := mkLine()
		periodBefore := st.ValidationPeriod()
		thrBefore := st.VrfProposerThreshold()
		validatorsBefore := float64(B.App.ValidatorsCache.ValidatorsSize())
		clone, _ := chainfx.CloneBlock(blk)
		if err := B.Add(clone); err != nil {
			fail("C03:original-not-insertable", fmt.Sprintf("height %d: %v", blk.Height(), err), b)
			return nil
		}
		if err := A.Add(blk); err != nil {
			fail("C03:history-broken", "A.Add: "+err.Error(), b)
			return nil
		}
		st = B.App.State
		if blk.Header.Flags().HasFlag(types.ValidationFinished) {
			cer, proposer, proposerShard, proposerValidated = accountingInputs(st)
			line = mkLine()
		}
		flags := uint32(blk.Header.Flags()) &^ uint32(types.OfflinePropose|types.OfflineCommit)
		c.Line(line, fmt.Sprintf("flags=%d period=%d cnt=%d snap=%d empty=%s", flags, st.ValidationPeriod(), st.BlocksCntWithoutCeremonialTxs(), st.LastSnapshot(), emptyStr()))
		// the empty-block window and the direction of the VRF proposer threshold move (applyVrfProposerThreshold)
		c.Line(fmt.Sprintf("bits %d", b2(blk.IsEmpty())), fmt.Sprintf("bits=%s cnt=%d", st.FxEmptyBlocksBits(), st.EmptyBlocksCount()))
		{
			online := validatorsBefore
			if online == 0 {
				online = 1
			}
			minVrf := math.Max(cfg.Consensus.MinProposerThreshold, 1.0-5.0/online)
			maxVrf := math.Max(cfg.Consensus.MinProposerThreshold, 1.0-1.0/online)
			stepF := (maxVrf - minVrf) / 60
			after := st.VrfProposerThreshold()
			var match []int
			for _, d := range []int{1, 0, -1} {
				cand := thrBefore
				switch d {
				case 1:
					cand += stepF
				case -1:
					cand -= stepF
				}
				cand = math.Max(minVrf, math.Min(cand, maxVrf))
				if cand == after {
					match = append(match, d)
				}
			}
			switch len(match) {
			case 0:
				fail("C03:vrf-threshold-not-one-step", fmt.Sprintf("height %d: threshold %v -> %v with bounds [%v,%v] step %v", blk.Height(), thrBefore, after, minVrf, maxVrf, stepF), b)
			case 1:
				c.Line("vrfdir", fmt.Sprintf("dir=%d", match[0]))
				c.Hit(fmt.Sprintf("vrfdir:%d", match[0]))
			default:
				c.Hit("vrfdir:hidden-by-clamp")
			}
			if after < minVrf || after > maxVrf {
				fail("C03:vrf-threshold-outside-bounds", fmt.Sprintf("height %d: %v not in [%v,%v]", blk.Height(), after, minVrf, maxVrf), b)
			}
		}
		if !blk.IsEmpty() {
			// the fee rate the block leaves behind (calculateNextBlockFeePerGas; an empty block does not touch it)
			kd := decimal.NewFromFloat32(cfg.Consensus.FeeSensitivityCoef)
			kScale := new(big.Int).Exp(big.NewInt(10), big.NewInt(int64(-kd.Exponent())), nil)
			after := "0"
			if f := st.FeePerGas(); f != nil {
				after = f.String()
			}
			c.Line(fmt.Sprintf("fee %s %d %d %s %s %d", prevFee, usedGas, types.MaxBlockSize(cfg.Consensus.EnableUpgrade11), kd.Coefficient(), kScale, netSize), "fee "+after)
			switch {
			case after == prevFee:
				c.Hit("fee:unchanged")
			case usedGas > 0:
				c.Hit("fee:moved-by-a-block-with-gas")
			default:
				c.Hit("fee:moved")
			}
		}
		c.Rep.Evaluations++
		c.Hit(fmt.Sprintf("flags:%d", flags))
		c.Hit(fmt.Sprintf("period:%d->%d", periodBefore, st.ValidationPeriod()))
		// independent statement of the cycle: one step at most
		if d := (int(st.ValidationPeriod()) - int(periodBefore) + 5) % 5; d > 1 {
			fail("C03:period-skipped", fmt.Sprintf("height %d: period %d -> %d", blk.Height(), periodBefore, st.ValidationPeriod()), b)
		}
		if blk.Header.Flags().HasFlag(types.ValidationFinished) {
			if periodBefore != state.AfterLongSessionPeriod {
				fail("C03:finished-outside-after-long", fmt.Sprintf("height %d: ValidationFinished in period %d", blk.Height(), periodBefore), b)
			}
			sync() // next validation time and the number of shards are set by applyNewEpoch
		}
		if c.Distinct(fmt.Sprint(cs.Seed, flags, periodBefore)) {
			c.Rep.Distinct++
		}
	}
	return nil
}

func init() {
	hx.Register("C03flags", func(c *hx.Ctx) error {
		if c.Replay != "" {
			b, err := os.ReadFile(c.Replay)
			if err != nil {
				return err
			}
			var wrap struct {
				Replay struct {
					Case c03fcase `json:"case"`
				} `json:"replay"`
			}
			if err := json.Unmarshal(b, &wrap); err != nil {
				return err
			}
			return c03fRun(c, wrap.Replay.Case)
		}
		c.Rep.Rule = "two real replicas over multi-epoch histories (half of them sharded, a third with clock jumps of minutes between blocks, every sixth block empty, switch ranges 5/6/7, snapshot range 17); per block: the inputs of calculateFlags/applyGlobalParams read from the validator's state before the block, the header's flags (without the offline flags) and period / after-long counters / snapshot height after the real AddBlock; distinct = (history, flags, period)"
		// the floor of the fee rate for every network size that matters, directly on the exported function
		c.Line("new 1 1 1 1 1 1 0", "ok")
		for n := 0; n <= 3000; n++ {
			c.Line(fmt.Sprintf("minfee %d", n), "fee "+fee.GetFeePerGasForNetwork(n).String())
		}
		for k := 0; k < c.Scale(2000, 100000); k++ {
			n := c.Rng.Intn(1 << uint(1+c.Rng.Intn(40)))
			c.Line(fmt.Sprintf("minfee %d", n), "fee "+fee.GetFeePerGasForNetwork(n).String())
		}
		nh := c.Scale(6, 90)
		for i := 0; i < nh; i++ {
			cs := c03fcase{Seed: c.Seed*1000 + 500 + int64(i), Blocks: 150, Jump: i%3 == 1}
			if i%2 == 1 {
				cs.Shards = 2 + i%3
			}
			if i%3 == 2 {
				cs.Online = 2 + i%5
			}
			if err := c03fRun(c, cs); err != nil {
				return err
			}
			c.Sample(cs)
		}
		return nil
	})
}
