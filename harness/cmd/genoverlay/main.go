// genoverlay builds the `go build -overlay` file that lets the harness compile and call the real
// idena-go code of /repo's *current working tree* without any commit to /repo:
//   - /repo/ipfs/ipfs.go            -> stub without the kubo node (the tree does not compile otherwise)
//   - /repo/<pkg>/zz_verif_export.go -> add-only export shims from harness/shims/<pkg path with __>.go.tmpl
//   - virtual clock: mechanically rewritten copies of the listed files (time.Now/Since/Sleep/Until ->
//     common.VerifNow/...), regenerated from the current file contents on every run.
package main

import (
	"bytes"
	"encoding/json"
	"flag"
	"fmt"
	"go/ast"
	"go/parser"
	"go/printer"
	"go/token"
	"os"
	"path/filepath"
	"strconv"
	"strings"
)

var clockFiles = []string{
	"blockchain/blockchain.go",
	"blockchain/offline_detector.go",
	"common/pushpull/tracker.go",
	"core/mempool/txpool.go",
	"core/ceremony/ceremony.go",
}

var repl = map[string]string{"Now": "VerifNow", "Since": "VerifSince", "Sleep": "VerifSleep", "Until": "VerifUntil"}

func rewriteClock(src, dst string) (int, error) {
	fset := token.NewFileSet()
	f, err := parser.ParseFile(fset, src, nil, parser.ParseComments)
	if err != nil {
		return 0, err
	}
	timeName, commonName := "", ""
	for _, im := range f.Imports {
		p, _ := strconv.Unquote(im.Path.Value)
		if p == "time" {
			timeName = "time"
			if im.Name != nil {
				timeName = im.Name.Name
			}
		}
		if p == "github.com/idena-network/idena-go/common" {
			commonName = "common"
			if im.Name != nil {
				commonName = im.Name.Name
			}
		}
	}
	n := 0
	if timeName != "" && f.Name.Name != "common" {
		needImport := false
		if commonName == "" {
			commonName = "verifcommon"
			needImport = true
		}
		ast.Inspect(f, func(nd ast.Node) bool {
			se, ok := nd.(*ast.SelectorExpr)
			if !ok {
				return true
			}
			id, ok := se.X.(*ast.Ident)
			if !ok || id.Name != timeName || id.Obj != nil {
				return true
			}
			if to, ok := repl[se.Sel.Name]; ok {
				id.Name = commonName
				se.Sel.Name = to
				n++
			}
			return true
		})
		if n > 0 && needImport {
			f.Decls = append([]ast.Decl{&ast.GenDecl{Tok: token.IMPORT, Specs: []ast.Spec{&ast.ImportSpec{Name: ast.NewIdent(commonName), Path: &ast.BasicLit{Kind: token.STRING, Value: strconv.Quote("github.com/idena-network/idena-go/common")}}}}}, f.Decls...)
		}
	}
	var buf bytes.Buffer
	if err := printer.Fprint(&buf, fset, f); err != nil {
		return 0, err
	}
	out := buf.Bytes()
	if strings.HasSuffix(src, "blockchain/blockchain.go") {
		// genesis hook (instrumentation, overlay only): after the genesis allocation a harness may shape the genesis state
		// (several shards, flip history ...) identically on every replica; blockchain.VerifGenesisHook is declared in the
		// common shim.  Without the anchor line the hook is simply absent (VerifGenesisHookSite stays false).
		anchor := []byte("chain.appState.State.SetGodAddress(chain.config.GenesisConf.GodAddress)")
		if i := bytes.Index(out, anchor); i >= 0 {
			ins := []byte("\n\tVerifGenesisHookSite = true\n\tif VerifGenesisHook != nil {\n\t\tVerifGenesisHook(chain.appState)\n\t}\n")
			out = append(out[:i+len(anchor)], append(ins, out[i+len(anchor):]...)...)
			n++
		}
	}
	return n, os.WriteFile(dst, out, 0644)
}

func main() {
	repo := flag.String("repo", "/repo", "repository root")
	harness := flag.String("harness", "/verif/harness", "harness root")
	out := flag.String("out", "/verif/build/overlay", "output dir")
	noclock := flag.Bool("noclock", false, "do not rewrite clock calls")
	only := flag.String("only", "", "comma-separated shim tags to include (shims/<pkg>--<tag>.go.tmpl); empty = all")
	flag.Parse()
	os.RemoveAll(*out)
	if err := os.MkdirAll(*out, 0755); err != nil {
		panic(err)
	}
	replace := map[string]string{}
	cp := func(src, name string) string {
		b, err := os.ReadFile(src)
		if err != nil {
			panic(err)
		}
		dst := filepath.Join(*out, name)
		if err := os.WriteFile(dst, b, 0644); err != nil {
			panic(err)
		}
		return dst
	}
	replace[filepath.Join(*repo, "ipfs/ipfs.go")] = cp(filepath.Join(*harness, "overlay/ipfs_stub.go.tmpl"), "ipfs_stub.go")
	replace[filepath.Join(*repo, "common/zz_verifclock.go")] = cp(filepath.Join(*harness, "overlay/verifclock.go.tmpl"), "verifclock.go")
	shims, _ := filepath.Glob(filepath.Join(*harness, "shims/*.go.tmpl"))
	for _, s := range shims {
		base := strings.TrimSuffix(filepath.Base(s), ".go.tmpl") // e.g. core__ceremony or core__ceremony--2
		pkg := base
		suffix := ""
		tag := ""
		if i := strings.Index(base, "--"); i >= 0 {
			pkg, suffix, tag = base[:i], "_"+base[i+2:], base[i+2:]
		}
		if *only != "" && !strings.Contains(","+*only+",", ","+tag+",") {
			continue
		}
		pkgPath := strings.ReplaceAll(pkg, "__", "/")
		if _, err := os.Stat(filepath.Join(*repo, pkgPath)); err != nil {
			fmt.Fprintln(os.Stderr, "genoverlay: package dir missing for shim", s)
			os.Exit(2)
		}
		replace[filepath.Join(*repo, pkgPath, "zz_verif_export"+suffix+".go")] = cp(s, "shim_"+base+".go")
	}
	if !*noclock {
		for _, rel := range clockFiles {
			src := filepath.Join(*repo, rel)
			if _, err := os.Stat(src); err != nil {
				continue
			}
			dst := filepath.Join(*out, "clock_"+strings.ReplaceAll(rel, "/", "__"))
			n, err := rewriteClock(src, dst)
			if err != nil {
				fmt.Fprintln(os.Stderr, "genoverlay: cannot rewrite", rel, err)
				os.Exit(2)
			}
			if n > 0 {
				replace[src] = dst
			}
			fmt.Fprintf(os.Stderr, "genoverlay: %s clock rewrites: %d\n", rel, n)
		}
	}
	b, _ := json.MarshalIndent(map[string]interface{}{"Replace": replace}, "", " ")
	if err := os.WriteFile(filepath.Join(*out, "overlay.json"), b, 0644); err != nil {
		panic(err)
	}
}
