package main

// Independent property oracle for C20 (no knowledge of the Lean model): the predicates of the property statement,
// evaluated on the emitted pull requests and on before/after snapshots of the REAL tracker's state.
//
//	first-announcer-immediate   an announcement of an item that is not stored and has no live announcement counter is
//	                            answered by exactly one pull request to that peer, at once
//	parallel-cap                immediate pull requests per hash (per life of its counter) <= max(1, MaxParallelPulls-1)
//	deferred-after-delay        a deferred pull request for h at t: every earlier pull request for h is >= pullDelay older,
//	                            and h is not stored
//	request-for-stored-item     no immediate/deferred pull request for a stored item (until its cache entry expires)
//	known-announcement-ignored  announcing a stored item changes nothing and emits nothing
//	pending-entry-lost          a pending (peer,hash) disappears only if it was requested in that step, the item is stored,
//	                            or the hash has no active pull (arrival / 5-minute expiry)
//	announcer-not-recorded      an announcement beyond the cap for an item with an active pull is queued (with the pull's time)
//	duplicate-deferred-request  never more deferred requests to (peer,hash) than deferred announcements of (peer,hash)
//	active-pull-not-cleared     an arrival clears the hash's registered pull
//	pull-wrong-type             every pull request (immediate or relayed) carries the entry type of the item's holder
//	pending-unbounded / -unsorted / relay-mismatch / unexpected-output
import (
	"fmt"

	"github.com/idena-network/idena-go/common/pushpull"
)

type c20fail struct {
	Sig    string
	Detail string
}

type ph struct{ p, h int }

type c20oracle struct {
	typ        int // the entry type of this holder: every pull request for its items must carry it
	delay      int64
	cap        int
	maxPending int
	stored     map[int]bool  // arrived and not expired
	counter    map[int]bool  // a live announcement counter exists (announced since the last forget)
	imm        map[int]int   // immediate requests per hash since the counter was created
	lastReq    map[int]int64 // time of the latest pull request (any kind) per hash
	anyReq     map[int]bool
	deferred   map[ph]int // announcements that were queued
	decs       map[ph]int // deferred requests issued
	relay      []ph       // issued by the tracker, not yet relayed by the manager
}

func newOracle(typ int, delay int64, cap, maxPending int) *c20oracle {
	return &c20oracle{typ: typ, delay: delay, cap: cap, maxPending: maxPending, stored: map[int]bool{}, counter: map[int]bool{},
		imm: map[int]int{}, lastReq: map[int]int64{}, anyReq: map[int]bool{}, deferred: map[ph]int{}, decs: map[ph]int{}}
}

func pendCount(es []pushpull.VerifEntry) map[ph]int {
	m := map[ph]int{}
	for _, e := range es {
		m[ph{peerNo(e.Id), hashNo(e.Hash)}]++
	}
	return m
}

func (o *c20oracle) observe(i int, e c20ev, line string, out []c20out, before, after c20snap) *c20fail {
	fail := func(sig, f string, a ...interface{}) *c20fail {
		return &c20fail{"C20:" + sig, fmt.Sprintf("event %d (%s) at t=%d ms: ", i, line, before.Now) + fmt.Sprintf(f, a...)}
	}
	now := after.Now
	pb, pa := pendCount(before.Pending), pendCount(after.Pending)
	var first *c20fail
	set := func(f *c20fail) {
		if first == nil {
			first = f
		}
	}
	// outputs allowed for this kind of event
	want := map[string]string{"ann": "imm", "loop": "dec", "dlv": "fwd"}[e.K]
	for _, x := range out {
		if x.Ty != o.typ {
			set(fail("pull-wrong-type", "%s pull request to peer %d for hash %d carries push type %d, the item belongs to the holder of type %d (the announcer is asked for an item it never announced)", x.Kind, x.P, x.H, x.Ty, o.typ))
		}
		if x.Kind != want || x.T != now {
			set(fail("unexpected-output", "output %v", x))
		}
	}
	decsNow := map[ph]int{}
	for _, x := range out {
		switch x.Kind {
		case "dec":
			decsNow[ph{x.P, x.H}]++
		}
	}
	// --- no loss: a pending (peer,hash) may only disappear for one of the three legitimate reasons
	for k, nb := range pb {
		if na := pa[k]; na < nb {
			_, activeBefore := before.Active[hashOf(k.h)]
			if !(decsNow[k] >= nb-na || o.stored[k.h] || !activeBefore) {
				set(fail("pending-entry-lost", "pending push of hash %d by peer %d disappeared (%d -> %d) without a pull request to that peer, the item is not stored and its active pull is still registered", k.h, k.p, nb, na))
			}
		}
	}
	switch e.K {
	case "ann":
		k := ph{e.P, e.H}
		if o.stored[e.H] {
			if len(out) != 0 || fmt.Sprint(before.Pending) != fmt.Sprint(after.Pending) || fmt.Sprint(before.Active) != fmt.Sprint(after.Active) {
				set(fail("known-announcement-not-ignored", "the item is stored, yet the announcement had an effect (outputs %v)", out))
			}
			break
		}
		if !o.counter[e.H] {
			o.counter[e.H] = true
			o.imm[e.H] = 0
			if len(out) != 1 || out[0] != (c20out{"imm", o.typ, e.P, e.H, now}) {
				set(fail("first-announcer-not-immediate", "first announcement of an item the node lacks; outputs %v", out))
			}
		}
		for _, x := range out {
			if x.P != e.P || x.H != e.H {
				set(fail("unexpected-output", "request %v does not go to the announcer", x))
			}
		}
		if len(out) > 1 {
			set(fail("unexpected-output", "several requests for one announcement: %v", out))
		}
		if len(out) == 0 {
			_, active := before.Active[hashOf(e.H)]
			if active && len(before.Pending) <= o.maxPending {
				o.deferred[k]++
				ok := pa[k] == pb[k]+1
				if ok {
					ok = false
					for _, x := range after.Pending {
						if peerNo(x.Id) == e.P && hashNo(x.Hash) == e.H && x.Time.Equal(before.Active[hashOf(e.H)]) {
							ok = true
						}
					}
				}
				if !ok {
					set(fail("announcer-not-recorded", "announcement beyond the cap for an item with an active pull was neither requested nor queued with the pull's time"))
				}
			} else if pa[k] != pb[k] {
				set(fail("unexpected-queueing", "announcement queued although the hash has no active pull or the list is full"))
			}
		}
	case "arr":
		o.stored[e.H] = true
		if _, still := after.Active[hashOf(e.H)]; still {
			set(fail("active-pull-not-cleared", "the item arrived but its pull is still registered as active"))
		}
	case "exp":
		delete(o.stored, e.H)
	case "fgt":
		delete(o.counter, e.H)
	}
	for _, x := range out {
		k := ph{x.P, x.H}
		switch x.Kind {
		case "imm", "dec":
			if o.stored[x.H] {
				set(fail("request-for-stored-item", "%v although the item is stored", x))
			}
		}
		switch x.Kind {
		case "imm":
			o.imm[x.H]++
			lim := o.cap - 1
			if lim < 1 {
				lim = 1
			}
			if o.imm[x.H] > lim {
				set(fail("parallel-cap-exceeded", "%d immediate pull requests for hash %d (MaxParallelPulls %d)", o.imm[x.H], x.H, o.cap))
			}
		case "dec":
			if o.anyReq[x.H] && o.lastReq[x.H]+o.delay > x.T {
				set(fail("deferred-before-delay", "%v but the previous pull request for the hash was at %d (pullDelay %d)", x, o.lastReq[x.H], o.delay))
			}
			o.decs[k]++
			if o.decs[k] > o.deferred[k] {
				set(fail("duplicate-deferred-request", "%d deferred pull requests to peer %d for hash %d but only %d queued announcements", o.decs[k], x.P, x.H, o.deferred[k]))
			}
			o.relay = append(o.relay, k)
		case "fwd":
			if len(o.relay) == 0 || o.relay[0] != k {
				set(fail("relay-mismatch", "manager relayed %v which is not the tracker's oldest unrelayed request", x))
			} else {
				o.relay = o.relay[1:]
			}
		}
		o.anyReq[x.H] = true
		if x.T > o.lastReq[x.H] {
			o.lastReq[x.H] = x.T
		}
	}
	// --- bounded, sorted
	if len(after.Pending) > o.maxPending+1 {
		set(fail("pending-unbounded", "%d pending pushes", len(after.Pending)))
	}
	for j := 1; j < len(after.Pending); j++ {
		if after.Pending[j].Time.Before(after.Pending[j-1].Time) {
			set(fail("pending-unsorted", "pending list not ordered by pull time at index %d", j))
			break
		}
	}
	// an event that is not a slot of the tracker loop never removes or reorders pending pushes
	if e.K != "loop" && e.K != "ann" && fmt.Sprint(before.Pending) != fmt.Sprint(after.Pending) {
		set(fail("unexpected-pending-change", "pending list changed"))
	}
	return first
}
