package main

// Observation (thorough tier only, not part of the correspondence): the real manager + holder + tracker on the REAL
// clock (no blocking hook) with concurrent callers. Checked after quiescence: no panic, no stuck caller, the pending
// list is sorted, within its bound and — once every item has arrived — empty; the number of still-registered pulls is
// reported. (The harness binary is not built with -race by ./check; data-race freedom is not decided here.)
import (
	"fmt"
	"math/rand"
	"sync"
	"time"

	"github.com/idena-network/idena-go/common"
	"github.com/idena-network/idena-go/common/pushpull"
	"github.com/idena-network/idena-go/protocol"

	"verifharness/internal/hx"
)

func c20observe(c *hx.Ctx, rounds int) {
	common.VerifSleepHook = nil
	common.VerifSetTime(time.Unix(0, 0)) // un-freeze: VerifNow = time.Now
	for round := 0; round < rounds; round++ {
		delay := 15 * time.Millisecond
		tracker := pushpull.NewDefaultPushTracker(delay)
		holder := pushpull.NewDefaultHolder(3, tracker)
		mgr := protocol.NewPushPullManager()
		mgr.VerifAddEntryHolder(c20Type, holder)
		mgr.Run()
		const callers, hashes = 8, 40
		var wg sync.WaitGroup
		var mu sync.Mutex
		panics := 0
		stop := make(chan struct{})
		pulls := 0
		go func() { // the gossip handler's consumer of pull requests
			for {
				select {
				case <-stop:
					return
				default:
				}
				n := len(mgr.VerifDrain())
				mu.Lock()
				pulls += n
				mu.Unlock()
				time.Sleep(time.Millisecond)
			}
		}()
		seeds := make([]int64, callers)
		for i := range seeds {
			seeds[i] = c.Rng.Int63()
		}
		for g := 0; g < callers; g++ {
			wg.Add(1)
			go func(g int) {
				defer wg.Done()
				defer func() {
					if x := recover(); x != nil {
						mu.Lock()
						panics++
						mu.Unlock()
					}
				}()
				rng := rand.New(rand.NewSource(seeds[g]))
				for i := 0; i < 1500; i++ {
					h := 1 + rng.Intn(hashes)
					if rng.Intn(400) == 0 {
						mgr.VerifAddEntry(c20Type, hashOf(h), "item")
					} else {
						mgr.VerifAddPush(peerOf(g*100+rng.Intn(20)), c20Type, hashOf(h))
					}
					if i%50 == 0 {
						time.Sleep(time.Duration(rng.Intn(3)) * time.Millisecond)
					}
				}
			}(g)
		}
		done := make(chan struct{})
		go func() { wg.Wait(); close(done) }()
		select {
		case <-done:
		case <-time.After(30 * time.Second):
			c.Fail("C20:obs-caller-stuck", "a concurrent caller of addPush/AddEntry did not return within 30 s (real clock)", nil)
			close(stop)
			return
		}
		for h := 1; h <= hashes; h++ { // everything arrives
			mgr.VerifAddEntry(c20Type, hashOf(h), "item")
		}
		deadline := time.Now().Add(10 * time.Second)
		for tracker.VerifPendingLen() > 0 && time.Now().Before(deadline) {
			time.Sleep(5 * time.Millisecond)
		}
		time.Sleep(50 * time.Millisecond)
		close(stop)
		pend := tracker.VerifPending()
		for j := 1; j < len(pend); j++ {
			if pend[j].Time.Before(pend[j-1].Time) {
				c.Fail("C20:obs-pending-unsorted", "concurrent callers, real clock: pending list not ordered by pull time", nil)
				break
			}
		}
		if panics > 0 {
			c.Fail("C20:obs-panic", fmt.Sprintf("%d callers panicked under concurrency (real clock)", panics), nil)
		}
		if len(pend) > 0 {
			c.Fail("C20:obs-pending-not-drained", fmt.Sprintf("concurrent callers, real clock: %d pending pushes left 10 s after every item had arrived", len(pend)), nil)
		}
		mu.Lock()
		c.Rep.Notes = append(c.Rep.Notes, fmt.Sprintf("observation round %d (real clock, %d concurrent callers, %d hashes): %d pull requests, pending after quiescence %d, pulls still registered %d (a relay racing an arrival re-registers; gc clears after 5 min)",
			round, callers, hashes, pulls, len(pend), len(tracker.VerifActive())))
		mu.Unlock()
		c.Hit("observation-rounds")
	}
}
