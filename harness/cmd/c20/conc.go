package main

// Channel C20conc — OBSERVATION of real schedules (exploration, not a proof, no Lean side): the REAL
// PushPullManager + DefaultHolder + DefaultPushTracker on the REAL clock (no blocking-clock hook in this process)
// under concurrent callers; only safety counts are asserted, computed per item from the emitted pull requests.
//
// Part A (lost / duplicate announcers): per round, n hashes get their first pull at staggered times (first announcer,
// MaxParallelPulls = 1 as in TxPool/KeysPool); once all pulls are overdue, several goroutines announce further peers,
// newest pull first, so that each announcement sorts to the HEAD of the pending list while the tracker loop is
// draining it; a few items arrive meanwhile. After the tracker is drained: every (peer, hash) announced for an item
// that never arrived was asked exactly once (0 = C20:pending-entry-lost, >1 = C20:duplicate-deferred-request; for
// arrived items only "at most once"). Nothing can be dropped legitimately: no channel can fill (requests per round <
// 5000 = cap of PushPullManager.requests, pending << maxPendingPushes), gc does not run within the first minute.
// Part B (cap): first announcer, then a burst of goroutines announces the same hash at the same instant, pullDelay one
// hour, so every request is an immediate one and all fall into one pullDelay window: at most max(1, cap-1) = 2 per
// hash (C20:parallel-cap-exceeded). Half of the bursts use a holder whose MaxParallelPulls() takes 100 µs (a holder may
// look its limit up), which only widens scheduling windows.
// Timing is never asserted; waits are polling loops with a 60 s ceiling (C20:not-drained beyond it).
import (
	"encoding/json"
	"fmt"
	"os"
	"sort"
	"sync"
	"sync/atomic"
	"time"

	"github.com/idena-network/idena-go/common/pushpull"
	"github.com/idena-network/idena-go/protocol"

	"verifharness/internal/hx"
)

type concHolder struct {
	pushpull.Holder
	cap  uint32
	slow time.Duration
}

func (h *concHolder) MaxParallelPulls() uint32 {
	if h.slow > 0 {
		time.Sleep(h.slow)
	}
	if h.cap > 0 {
		return h.cap
	}
	return h.Holder.MaxParallelPulls()
}

var concWrongType int32 // pull requests that did not carry the type of the only holder that was given items

type concStamp struct {
	Peer int   `json:"peer"`
	Us   int64 `json:"us"`
}

type concItem struct {
	Conc       string      `json:"conc"`
	Round      int         `json:"round"`
	Hash       int         `json:"hash"`
	Delay      string      `json:"pullDelay"`
	Cap        int         `json:"maxParallelPulls"`
	Registered int64       `json:"first_pull_us"`
	Arrived    int64       `json:"arrived_us,omitempty"`
	Announced  []concStamp `json:"announced"`
	Requests   []concStamp `json:"pull_requests"`
}

type concTotals struct {
	announcers, lost, dup, arrived, over, bursts, worst int
}

func concCollector(mgr *protocol.PushPullManager, start time.Time) (stop func() map[ph][]int64) {
	got := map[ph][]int64{}
	quit, done := make(chan struct{}), make(chan struct{})
	take := func() {
		for _, q := range mgr.VerifDrain() {
			if q.Type != c20Type {
				atomic.AddInt32(&concWrongType, 1)
			}
			k := ph{peerNo(q.Peer), hashNo(q.Hash)}
			got[k] = append(got[k], time.Since(start).Microseconds())
		}
	}
	go func() {
		defer close(done)
		for {
			select {
			case <-quit:
				take()
				return
			default:
				take()
				time.Sleep(100 * time.Microsecond)
			}
		}
	}()
	return func() map[ph][]int64 { close(quit); <-done; return got }
}

func concRoundA(c *hx.Ctx, round, n, announcers int, delay time.Duration, tot *concTotals) {
	tracker := pushpull.NewDefaultPushTracker(delay)
	holder := pushpull.NewDefaultHolder(3, tracker) // SetHolder + Run
	wrap := &concHolder{Holder: holder, cap: 1}
	mgr := protocol.NewPushPullManager()
	mgr.VerifAddEntryHolder(c20Type, wrap)
	for _, ty := range []uint8{1, 2} { // other entry types registered before Run, as in the node; they get no items
		mgr.VerifAddEntryHolder(ty, pushpull.NewDefaultHolder(3, pushpull.NewDefaultPushTracker(delay)))
	}
	mgr.Run()
	start := time.Now()
	stop := concCollector(mgr, start)
	us := func() int64 { return time.Since(start).Microseconds() }

	reg := make([]int64, n)
	for i := 0; i < n; i++ { // first announcer: immediate pull, registered at strictly increasing times
		reg[i] = us()
		mgr.VerifAddPush(peerOf(0), c20Type, hashOf(i+1))
		for s := time.Now(); time.Since(s) < 2*time.Microsecond; {
		}
	}
	time.Sleep(delay + 10*time.Millisecond) // every registered pull is overdue

	arrives := map[int]bool{}
	for k := 0; k < n/20; k++ {
		arrives[c.Rng.Intn(n)] = true
	}
	arrivedAt := make([]int64, n)
	ann := make([][]concStamp, n)
	var panics int32
	var wg sync.WaitGroup
	guard := func(f func()) {
		wg.Add(1)
		go func() {
			defer wg.Done()
			defer func() {
				if recover() != nil {
					atomic.AddInt32(&panics, 1)
				}
			}()
			f()
		}()
	}
	for g := 0; g < announcers; g++ {
		g := g
		guard(func() { // newest pull first: each announcement sorts in front of what is queued
			for i := n - 1 - g; i >= 0; i -= announcers {
				ann[i] = append(ann[i], concStamp{1, us()})
				mgr.VerifAddPush(peerOf(1), c20Type, hashOf(i+1))
				if i%2 == 1 {
					ann[i] = append(ann[i], concStamp{2, us()})
					mgr.VerifAddPush(peerOf(2), c20Type, hashOf(i+1))
				}
			}
		})
	}
	guard(func() {
		for i := n - 1; i >= 0; i-- {
			if arrives[i] {
				arrivedAt[i] = us()
				mgr.VerifAddEntry(c20Type, hashOf(i+1), "item")
				time.Sleep(20 * time.Microsecond)
			}
		}
	})
	wg.Wait()

	// drained: nothing pending, nothing in the tracker's channel; polled, generous ceiling
	deadline := time.Now().Add(60 * time.Second)
	quiet := 0
	for quiet < 3 && time.Now().Before(deadline) {
		if tracker.VerifPendingLen() == 0 && len(tracker.Requests()) == 0 {
			quiet++
		} else {
			quiet = 0
		}
		time.Sleep(delay / 2)
	}
	left := tracker.VerifPendingLen()
	time.Sleep(20 * time.Millisecond)
	got := stop()

	if w := atomic.SwapInt32(&concWrongType, 0); w > 0 {
		c.Fail("C20:pull-wrong-type", fmt.Sprintf("round %d: %d pull requests carried a push type other than %d, the type of the only holder that was given items (3 holders registered before Run)", round, w, c20Type), nil)
	}
	if panics > 0 {
		c.Fail("C20:obs-panic", fmt.Sprintf("round %d: %d concurrent callers of addPush/AddEntry panicked", round, panics), nil)
	}
	if left > 0 {
		c.Fail("C20:not-drained", fmt.Sprintf("round %d: %d pushes still pending 60 s after the last announcement (real clock, pullDelay %v)", round, left, delay), nil)
		return
	}
	item := func(i int) concItem {
		it := concItem{Conc: "A", Round: round, Hash: i + 1, Delay: delay.String(), Cap: 1, Registered: reg[i], Arrived: arrivedAt[i],
			Announced: append([]concStamp{{0, reg[i]}}, ann[i]...)}
		for p := 0; p <= 2; p++ {
			for _, t := range got[ph{p, i + 1}] {
				it.Requests = append(it.Requests, concStamp{p, t})
			}
		}
		sort.Slice(it.Requests, func(a, b int) bool { return it.Requests[a].Us < it.Requests[b].Us })
		return it
	}
	for i := 0; i < n; i++ {
		if arrives[i] {
			tot.arrived++
		}
		for _, a := range append([]concStamp{{0, reg[i]}}, ann[i]...) {
			tot.announcers++
			k := len(got[ph{a.Peer, i + 1}])
			if k == 0 && !arrives[i] {
				tot.lost++
				c.Fail("C20:pending-entry-lost", fmt.Sprintf("concurrent callers, real clock: peer %d announced hash %d, the item never arrived, the tracker is drained, yet that peer was never asked", a.Peer, i+1), item(i))
			}
			if k > 1 {
				tot.dup++
				c.Fail("C20:duplicate-deferred-request", fmt.Sprintf("concurrent callers, real clock: peer %d announced hash %d once and was asked %d times", a.Peer, i+1, k), item(i))
			}
		}
	}
	for k := range got {
		if k.h < 1 || k.h > n || k.p < 0 || k.p > 2 || (k.p == 2 && (k.h-1)%2 == 0) {
			c.Fail("C20:unexpected-output", fmt.Sprintf("pull request to peer %d for hash %d which that peer never announced", k.p, k.h), nil)
		}
	}
}

func concPartB(c *hx.Ctx, hashes, burst int, slow time.Duration, tot *concTotals) {
	var mgr *protocol.PushPullManager
	var wrap *concHolder
	for i := 0; i < hashes; i++ {
		if i%400 == 0 {
			tracker := pushpull.NewDefaultPushTracker(time.Hour)
			wrap = &concHolder{Holder: pushpull.NewDefaultHolder(3, tracker), slow: slow}
			mgr = protocol.NewPushPullManager()
			mgr.VerifAddEntryHolder(c20Type, wrap)
			mgr.Run()
		}
		h := hashOf(i + 1)
		begin := time.Now()
		mgr.VerifAddPush(peerOf(0), c20Type, h)
		start := make(chan struct{})
		var wg, ready sync.WaitGroup
		for g := 1; g <= burst; g++ {
			wg.Add(1)
			ready.Add(1)
			g := g
			go func() {
				defer wg.Done()
				ready.Done()
				<-start // released together (no spinning: the box may be loaded)
				mgr.VerifAddPush(peerOf(g), c20Type, h)
			}()
		}
		ready.Wait()
		close(start)
		wg.Wait()
		var reqs []concStamp
		for _, q := range mgr.VerifDrain() {
			if hashNo(q.Hash) == i+1 {
				reqs = append(reqs, concStamp{peerNo(q.Peer), time.Since(begin).Microseconds()})
			}
		}
		tot.bursts++
		if len(reqs) > tot.worst {
			tot.worst = len(reqs)
		}
		limit := int(wrap.Holder.MaxParallelPulls()) - 1
		if limit < 1 {
			limit = 1
		}
		if len(reqs) > limit {
			tot.over++
			it := concItem{Conc: "B", Hash: i + 1, Delay: "1h0m0s", Cap: limit + 1, Requests: reqs}
			for g := 0; g <= burst; g++ {
				it.Announced = append(it.Announced, concStamp{g, 0})
			}
			c.Fail("C20:parallel-cap-exceeded", fmt.Sprintf("concurrent announcers, real clock: %d immediate pull requests for hash %d within %d µs (pullDelay 1 h), MaxParallelPulls %d allows %d", len(reqs), i+1, time.Since(begin).Microseconds(), limit+1, limit), it)
		}
	}
}

func init() {
	hx.Register("C20conc", func(c *hx.Ctx) error {
		if c.Replay != "" { // schedules are not replayable: a C20conc replay file re-runs the exploration
			b, err := os.ReadFile(c.Replay)
			if err != nil {
				return err
			}
			var wrap struct {
				Replay struct {
					Conc string `json:"conc"`
				} `json:"replay"`
			}
			if json.Unmarshal(b, &wrap) != nil || wrap.Replay.Conc == "" {
				return nil
			}
		}
		rounds, bursts := 40, 3000
		switch c.Tier {
		case "thorough":
			rounds, bursts = 200, 15000
		case "search":
			rounds, bursts = 80, 6000
		}
		var tot concTotals
		t0 := time.Now()
		for r := 0; r < rounds; r++ {
			// one announcing goroutine gives strictly head-first insertions (most hits of the loop's window when it is
			// unprotected: ~2 per round measured), 2 and 4 add contention among the announcers themselves
			concRoundA(c, r, 1500, []int{1, 1, 2, 4}[r%4], 30*time.Millisecond, &tot)
		}
		tA := time.Since(t0)
		concPartB(c, bursts/10, 8, 100*time.Microsecond, &tot)
		concPartB(c, bursts, 12, 0, &tot)
		c.Rep.Notes = append(c.Rep.Notes, fmt.Sprintf("part A %v, part B %v", tA.Round(time.Millisecond), (time.Since(t0)-tA).Round(time.Millisecond)))
		c.Rep.Evaluations = tot.announcers + tot.bursts
		c.Rep.Distinct = tot.announcers + tot.bursts
		c.Rep.Rule = "OBSERVATION of real schedules (not a proof): real manager+holder+tracker, real clock, concurrent callers; part A per round 1500 hashes with staggered first pulls, 1-4 goroutines announcing further peers newest-pull-first (head insertions racing the drain loop) + arrivals, per-(peer,hash) accounting asked-exactly-once after drain; part B bursts of 8-12 simultaneous announcers of one hash, immediate pulls per hash <= max(1, cap-1)"
		c.Hit(fmt.Sprintf("A:announcers=%d arrived-items=%d lost=%d dup=%d", tot.announcers, tot.arrived, tot.lost, tot.dup))
		c.Hit(fmt.Sprintf("B:bursts=%d worst=%d over-cap=%d", tot.bursts, tot.worst, tot.over))
		c.Sample(map[string]int{"announcers": tot.announcers, "lost": tot.lost, "dup": tot.dup, "bursts": tot.bursts, "over_cap": tot.over})
		return nil
	})
}
