package main

// C20: push/pull fetches each announced item once, falling back to the next announcer.
//   - correspondence: generated event traces (announcements from many peers for many hashes, arrivals, clock ticks,
//     scheduling slots of the tracker goroutines loop/gc and of the manager's relay goroutine, cache expiries) run on
//     the REAL PushPullManager + DefaultHolder + DefaultPushTracker under the blocking virtual clock (rig.go); every
//     event line, the emitted pull requests (kind:peer:hash:virtual time) and the tracker's sizes / full state go to
//     the Lean model (PushPull.step).
//   - independent oracle (oracle.go): the property's predicates evaluated on the emitted sequence and on before/after
//     snapshots of the real tracker's state.
import (
	"bytes"
	"encoding/json"
	"fmt"
	"os"
	"strings"

	"github.com/idena-network/idena-go/common/pushpull"

	"verifharness/internal/hx"
)

type c20ev struct {
	K string `json:"k"`           // ann arr tick loop gc dlv exp fgt state (+ pseudo-events fill, drain)
	L int    `json:"l,omitempty"` // lane (index into the case's lanes); tick and drain concern all lanes
	P int    `json:"p,omitempty"`
	H int    `json:"h,omitempty"`
	T int64  `json:"t,omitempty"`
}

func (e c20ev) line(ty int) string {
	switch e.K {
	case "ann":
		return fmt.Sprintf("ann %d %d %d", ty, e.P, e.H)
	case "arr", "exp", "fgt":
		return fmt.Sprintf("%s %d %d", e.K, ty, e.H)
	case "annq":
		return fmt.Sprintf("annq %d %d %d", ty, e.P, e.H)
	case "tick":
		return fmt.Sprintf("tick %d", e.T)
	case "drainq":
		return "drainq"
	case "loopstall":
		return fmt.Sprintf("loop %d", ty) // same event for the model: its queue is unbounded, a blocking send loses nothing
	}
	return fmt.Sprintf("%s %d", e.K, ty)
}

type c20case struct {
	Delay int64 `json:"delay"` // pullDelay, ms
	Cap   int   `json:"cap"`   // 0: the DefaultHolder's own MaxParallelPulls (3); >0: override (TxPool/KeysPool use 1)
	Light bool  `json:"light,omitempty"`
	// burst scenarios (full bounded queues), checked at the end of the run:
	//  "fallback-all": every queued announcement was requested exactly once (C20:fallback-pull-lost-on-full-queue)
	//  "served-within-delay": every announcement answered by no immediate pull is requested within pullDelay
	//                         (C20:item-stuck-without-active-pull)
	Expect string `json:"expect,omitempty"`
	// several entry types, each with its own holder + tracker, on one manager (all registered before Run);
	// empty: one lane of type 4 (pushFlip) with Delay/Cap above
	Lanes []c20lane `json:"lanes,omitempty"`
	Ev    []c20ev   `json:"ev"`
}

func (cs *c20case) lanes() []c20lane {
	if len(cs.Lanes) > 0 {
		return cs.Lanes
	}
	return []c20lane{{Ty: c20Type, Delay: cs.Delay, Cap: cs.Cap}}
}

type c20result struct {
	newLine string
	lines   [][2]string // op line, implementation answer
	fail    *c20fail
	decs    int
	outs    int
	maxPend int
	hits    map[string]int
	stalls  int
}

func fmtOuts(out []c20out) string {
	if len(out) == 0 {
		return "-"
	}
	s := make([]string, len(out))
	for i, o := range out {
		s[i] = o.String()
	}
	return strings.Join(s, " ")
}

// c20run executes a case on a fresh rig; `next` (optional) extends the case adaptively: it is called whenever the
// event list is exhausted and returns further events (used by the generator; replay and shrinking pass nil).
// The pseudo-event "drain" expands (adaptively, into concrete tick/loop/dlv lines) to a fair prompt schedule without
// further input until nothing is pending.
func c20run(cs *c20case, next func(r *rig) []c20ev) (res c20result, err error) {
	r, err := newRig(cs.lanes())
	if err != nil {
		return res, err
	}
	defer r.close()
	res.newLine = fmt.Sprintf("new %d 0", pushpull.VerifMaxPendingPushes)
	res.hits = map[string]int{}
	var ors []*c20oracle
	for _, l := range r.lanes {
		res.newLine += fmt.Sprintf(" %d:%d:%d", l.typ, l.delay, l.cap)
		ors = append(ors, newOracle(int(l.typ), l.delay, l.cap, pushpull.VerifMaxPendingPushes))
	}
	setFail := func(f *c20fail) {
		if f != nil && res.fail == nil {
			res.fail = f
		}
	}
	type annRec struct {
		l, p, h int
		t       int64
	}
	queued, issued := map[ph]int{}, map[ph]int{} // (single-lane burst scenarios) announcements not answered at once / deferred requests
	var annAt, issuedAt []annRec
	// do runs one concrete event; false = the rig is broken, stop
	do := func(i int, e c20ev) bool {
		if e.L < 0 || e.L >= len(r.lanes) {
			setFail(&c20fail{"C20:rig-error", fmt.Sprintf("event %d: no lane %d", i, e.L)})
			return false
		}
		l := r.lanes[e.L]
		ln := e.line(int(l.typ))
		if e.K == "state" {
			res.lines = append(res.lines, [2]string{ln, r.stateLine(l)})
			return true
		}
		var before c20snap
		if !cs.Light {
			before = r.snap(l)
		}
		out := r.exec(e)
		res.outs += len(out)
		for _, o := range out {
			if o.Kind == "dec" {
				res.decs++
			}
		}
		if r.err != "" {
			setFail(&c20fail{"C20:rig-error", fmt.Sprintf("event %d (%s): %s", i, ln, r.err)})
			res.lines = append(res.lines, [2]string{ln, "panic"})
			return false
		}
		switch e.K {
		case "ann":
			if len(out) == 0 {
				queued[ph{e.P, e.H}]++
				annAt = append(annAt, annRec{e.L, e.P, e.H, r.now()})
			}
		case "loop", "loopstall":
			for _, o := range out {
				issued[ph{o.P, o.H}]++
				issuedAt = append(issuedAt, annRec{e.L, o.P, o.H, o.T})
			}
		}
		if e.K == "tick" {
			res.lines = append(res.lines, [2]string{ln, "-"})
		} else if e.K == "annq" {
			res.lines = append(res.lines, [2]string{ln, fmt.Sprintf("M=%d | %s", r.mgr.VerifQueued(), r.sizes(l))})
		} else if e.K == "drainq" {
			var sb []string
			for _, o := range out {
				sb = append(sb, fmt.Sprintf("req:%d:%d:%d", o.Ty, o.P, o.H))
			}
			res.lines = append(res.lines, [2]string{ln, fmt.Sprintf("n=%d %s", len(out), strings.Join(sb, " "))})
		} else {
			res.lines = append(res.lines, [2]string{ln, fmtOuts(out) + " | " + r.sizes(l)})
		}
		n := l.tracker.VerifPendingLen()
		if n > res.maxPend {
			res.maxPend = n
		}
		if !cs.Light {
			after := r.snap(l)
			setFail(ors[e.L].observe(i, e, ln, out, before, after))
			switch {
			case e.K == "gc" && len(after.Active) < len(before.Active):
				res.hits["gc:expired-a-pull"]++
			case e.K == "ann" && len(out) == 0 && len(after.Pending) == len(before.Pending) && !l.holder.Has(hashOf(e.H)):
				res.hits["ann:dropped(no active pull)"]++
			case e.K == "ann" && len(out) == 0 && len(before.Pending) > 0 && len(after.Pending) > len(before.Pending) && after.Pending[0] != before.Pending[0]:
				res.hits["ann:queued-in-front"]++
			case e.K == "loop" && len(out) == 0 && len(after.Pending) < len(before.Pending):
				res.hits["loop:dropped(stored or no active pull)"]++
			case e.K == "dlv" && len(out) == 1 && l.holder.Has(hashOf(out[0].H)):
				res.hits["dlv:relay-after-arrival"]++
			}
			if e.K == "dlv" && len(out) == 1 && len(r.lanes) > 1 {
				res.hits["dlv:relay-with-several-holders"]++
			}
		} else if n > pushpull.VerifMaxPendingPushes+1 {
			setFail(&c20fail{"C20:pending-unbounded", fmt.Sprintf("event %d: %d pending pushes > maxPendingPushes+1", i, n)})
		}
		return true
	}
	busy := func() (n int) {
		for _, l := range r.lanes {
			n += l.tracker.VerifPendingLen() + len(l.fifo)
		}
		return
	}
	if next != nil && len(cs.Ev) == 0 {
		cs.Ev = append(cs.Ev, next(r)...)
	}
	for i := 0; i < len(cs.Ev); i++ {
		e := cs.Ev[i]
		if e.K == "fill" { // T announcements of hash H by peers P, P+1, …
			ok := true
			for k := int64(0); k < e.T && ok; k++ {
				ok = do(i, c20ev{K: "ann", L: e.L, P: e.P + int(k), H: e.H})
			}
			if !ok {
				break
			}
		} else if e.K == "fillh" || e.K == "fillhq" { // T announcements by peer P of hashes H, H+1, … (q: consumer stalled)
			ok := true
			for k := int64(0); k < e.T && ok; k++ {
				ok = do(i, c20ev{K: map[string]string{"fillh": "ann", "fillhq": "annq"}[e.K], L: e.L, P: e.P, H: e.H + int(k)})
			}
			if !ok {
				break
			}
		} else if e.K == "mqcap" { // tells the model driver the capacity of the manager's queue
			res.lines = append(res.lines, [2]string{fmt.Sprintf("mqcap %d", r.mgr.VerifQueueCap()), "ok"})
		} else if e.K == "drain" {
			rounds := 3*busy() + 8
			for busy() > 0 {
				if rounds--; rounds < 0 {
					setFail(&c20fail{"C20:not-drained", fmt.Sprintf("event %d: a fair prompt schedule without further input did not empty the pending lists (%d left)", i, busy())})
					break
				}
				for li, l := range r.lanes {
					if l.tracker.VerifPendingLen() == 0 && len(l.fifo) == 0 {
						continue
					}
					lw, _ := r.wakes(l)
					ok := true
					if lw > r.now() {
						ok = do(i, c20ev{K: "tick", T: lw})
					}
					ok = ok && do(i, c20ev{K: "loop", L: li}) && do(i, c20ev{K: "dlv", L: li})
					if !ok {
						return res, nil
					}
				}
			}
		} else if !do(i, e) {
			break
		}
		if next != nil && i == len(cs.Ev)-1 {
			cs.Ev = append(cs.Ev, next(r)...)
		}
	}
	res.stalls = r.stalls
	switch cs.Expect {
	case "fallback-all":
		for k, n := range queued {
			if issued[k] == 0 {
				setFail(&c20fail{"C20:fallback-pull-lost-on-full-queue", fmt.Sprintf("peer %d's announcement of hash %d was queued (the first announcer was asked and did not deliver), its pull delay passed while the consumer of the tracker's request channel was stalled (%d times the loop met the full channel), the consumer then took everything: that peer was never asked (%d of %d queued announcers asked)", k.p, k.h, r.stalls, len(issued), len(queued))})
				break
			}
			if issued[k] > n {
				setFail(&c20fail{"C20:duplicate-deferred-request", fmt.Sprintf("peer %d asked %d times for hash %d, announced %d times", k.p, issued[k], k.h, n)})
				break
			}
		}
	case "served-within-delay":
		for _, a := range annAt {
			ok := false
			for _, d := range issuedAt {
				if d.l == a.l && d.p == a.p && d.h == a.h && d.t <= a.t+r.lanes[a.l].delay {
					ok = true
				}
			}
			if !ok {
				setFail(&c20fail{"C20:item-stuck-without-active-pull", fmt.Sprintf("hash %d: the pulls to its first announcers were skipped because the manager's request queue was full; after the queue was drained peer %d announced it at t=%d ms and was neither asked at once nor within pullDelay (%d ms): the item has an announcement counter at the cap but no registered pull", a.h, a.p, a.t, r.lanes[a.l].delay)})
				break
			}
		}
	}
	return res, nil
}

func c20shrink(cs c20case, sig string) c20case {
	budget := 400000 // events executed while shrinking
	fails := func(c c20case) bool {
		if budget <= 0 {
			return false
		}
		res, err := c20run(&c, nil)
		budget -= len(res.lines) + 50
		return err == nil && res.fail != nil && res.fail.Sig == sig
	}
	for changed := true; changed && budget > 0; {
		changed = false
		for chunk := len(cs.Ev) / 2; chunk >= 1; chunk /= 2 {
			for i := 0; i+chunk <= len(cs.Ev); {
				t := c20case{Delay: cs.Delay, Cap: cs.Cap, Light: cs.Light, Lanes: cs.Lanes, Expect: cs.Expect}
				t.Ev = append(append([]c20ev{}, cs.Ev[:i]...), cs.Ev[i+chunk:]...)
				if fails(t) {
					cs, changed = t, true
				} else {
					i += chunk
				}
			}
		}
		for i := range cs.Ev { // shorten fills
			for cs.Ev[i].K == "fill" && cs.Ev[i].T > 1 {
				t := c20case{Delay: cs.Delay, Cap: cs.Cap, Light: cs.Light, Lanes: cs.Lanes, Expect: cs.Expect, Ev: append([]c20ev{}, cs.Ev...)}
				t.Ev[i].T = cs.Ev[i].T - (cs.Ev[i].T+9)/10
				if !fails(t) {
					break
				}
				cs, changed = t, true
			}
		}
	}
	return cs
}

func c20emit(c *hx.Ctx, cs c20case, res c20result) {
	c.Line(res.newLine, "ok")
	for _, l := range res.lines {
		c.Line(l[0], l[1])
		c.Hit("ev:" + strings.SplitN(l[0], " ", 2)[0])
		for _, k := range []string{"imm:", "dec:", "fwd:"} {
			if strings.Contains(l[1], k) {
				c.Hit("out:" + k[:3])
			}
		}
	}
	for k, n := range res.hits {
		for ; n > 0; n-- {
			c.Hit(k)
		}
	}
	if res.fail != nil && cs.Expect != "" {
		// a burst scenario is its own minimal input: its expectation only makes sense on the complete script
		c.Fail(res.fail.Sig, res.fail.Detail, cs)
	} else if res.fail != nil {
		small := c20shrink(cs, res.fail.Sig)
		r2, err := c20run(&small, nil)
		detail := res.fail.Detail
		if err == nil && r2.fail != nil {
			detail = r2.fail.Detail
		}
		c.Fail(res.fail.Sig, detail, small)
	}
}

// ---- generator ----------------------------------------------------------------------------------------------

var c20delays = []int64{50, 300, 500, 1000, 3000, 5000, 10000, 400000}

type c20gen struct {
	c        *hx.Ctx
	peers    int
	hashes   int
	prompt   bool // a well-behaved scheduler: due goroutines run at once, the manager relays at once
	long     bool // minute-scale jumps (gc)
	budget   int
	draining int
}

// next produces the events that follow (adaptive: looks at the rig's clock and parked goroutines).
func (g *c20gen) next(r *rig) []c20ev {
	rng := g.c.Rng
	if g.budget <= 0 {
		if g.draining == 0 {
			g.draining = 1
			return []c20ev{{K: "drain"}, {K: "state"}}
		}
		return nil
	}
	g.budget--
	now := r.now()
	li := rng.Intn(len(r.lanes)) // the lane this batch of events concerns
	l := r.lanes[li]
	lw, gw := r.wakes(l)
	var evs []c20ev
	x := rng.Intn(100)
	switch {
	case x < 38:
		evs = append(evs, c20ev{K: "ann", P: 1 + rng.Intn(g.peers), H: 1 + rng.Intn(g.hashes)})
		for rng.Intn(3) == 0 { // bursts: several peers announce the same hash
			evs = append(evs, c20ev{K: "ann", P: 1 + rng.Intn(g.peers), H: evs[0].H})
		}
	case x < 60:
		var t int64
		switch y := rng.Intn(12); {
		case y < 3:
			t = now + 1 + int64(rng.Intn(20))
		case y < 5 && lw >= 0:
			t = lw // exactly the loop's wake-up time
		case y < 6 && lw >= 0:
			t = lw - 1
		case y < 7:
			t = now + l.delay
		case y < 8:
			t = now + l.delay/2
		case y < 9:
			t = now + l.delay + 1 + int64(rng.Intn(30))
		case y < 10 && g.long:
			t = gw
		case y < 11 && g.long:
			t = now + 60000*int64(1+rng.Intn(6))
		case y == 11 && rng.Intn(4) == 0:
			t = now - int64(rng.Intn(50)) // the clock never goes back: ignored
		default:
			t = now + int64(rng.Intn(int(l.delay)+10))
		}
		if t < 0 {
			t = 0
		}
		evs = append(evs, c20ev{K: "tick", T: t})
		if g.prompt {
			if lw <= gw {
				evs = append(evs, c20ev{K: "loop"}, c20ev{K: "dlv"}, c20ev{K: "gc"})
			} else {
				evs = append(evs, c20ev{K: "gc"}, c20ev{K: "loop"}, c20ev{K: "dlv"})
			}
		}
	case x < 74:
		evs = append(evs, c20ev{K: "loop"})
		if g.prompt || rng.Intn(2) == 0 {
			evs = append(evs, c20ev{K: "dlv"})
		}
	case x < 82:
		evs = append(evs, c20ev{K: "dlv"})
	case x < 85:
		evs = append(evs, c20ev{K: "gc"})
	case x < 92:
		evs = append(evs, c20ev{K: "arr", H: 1 + rng.Intn(g.hashes)})
	case x < 94:
		evs = append(evs, c20ev{K: "exp", H: 1 + rng.Intn(g.hashes)})
	case x < 96:
		evs = append(evs, c20ev{K: "fgt", H: 1 + rng.Intn(g.hashes)})
	default:
		evs = append(evs, c20ev{K: "state"})
	}
	if len(l.fifo) > 200 { // keep the tracker's channel (capacity 1000) far from full: the manager does relay
		evs = append(evs, c20ev{K: "dlv"})
	}
	for i := range evs {
		evs[i].L = li
	}
	return evs
}

func c20generate(c *hx.Ctx, maxEv int) (c20case, c20result, error) {
	rng := c.Rng
	var cs c20case
	g := &c20gen{c: c, peers: 2 + rng.Intn(7), hashes: 1 + rng.Intn(6), prompt: rng.Intn(5) < 3, long: rng.Intn(4) == 0,
		budget: 10 + rng.Intn(maxEv)}
	// 1-3 entry types (1 vote, 2 block, 3 proof, 4 flip, 5 key package, 6 tx), each with its own holder, tracker,
	// pullDelay and MaxParallelPulls (0: the DefaultHolder's own 3), all on one manager; hash numbers are shared
	types := rng.Perm(6)
	for i, nl := 0, 1+rng.Intn(3); i < nl; i++ {
		lc := c20lane{Ty: 1 + types[i], Delay: c20delays[rng.Intn(len(c20delays))], Cap: rng.Intn(5)}
		if g.long && rng.Intn(2) == 0 {
			lc.Delay = 400000
		}
		cs.Lanes = append(cs.Lanes, lc)
	}
	res, err := c20run(&cs, g.next)
	return cs, res, err
}

// c20bound: more announcers than maxPendingPushes for one hash; the pending list must stop growing.
func c20bound() c20case {
	cs := c20case{Delay: 10000, Cap: 1, Light: true}
	cs.Ev = []c20ev{{K: "ann", P: 1, H: 1}, {K: "ann", P: 1, H: 2}, {K: "tick", T: 5},
		{K: "fill", P: 2, H: 1, T: int64(pushpull.VerifMaxPendingPushes) + 4},
		{K: "ann", P: 2, H: 2}, {K: "tick", T: 9}, {K: "loop"}, {K: "tick", T: 10}, {K: "loop"}}
	return cs
}

// c20burstTracker: n distinct items, each announced by two peers (MaxParallelPulls 1: the second is queued), the first
// pulls go out and nothing arrives; all fall-back delays become due while the consumer of tracker.Requests() (capacity
// 1000) is stalled; then it resumes. Every second announcer must have been asked exactly once.
func c20burstTracker(n int) c20case {
	return c20case{Delay: 500, Cap: 1, Light: true, Expect: "fallback-all", Ev: []c20ev{
		{K: "fillh", P: 1, H: 1, T: int64(n)}, {K: "tick", T: 5}, {K: "fillh", P: 2, H: 1, T: int64(n)},
		{K: "tick", T: 10}, {K: "loop"}, {K: "tick", T: 600}, {K: "loopstall"}, {K: "state"}, {K: "drain"}, {K: "state"}}}
}

// c20burstManager: a burst of first announcements fills the manager's request queue (5000) before its consumer runs;
// `items` further hashes are announced by their first MaxParallelPulls-1 = 2 peers inside that window (their pulls are
// skipped); the consumer then drains the queue, a third peer announces each item, the pull delay passes.
func c20burstManager(queueCap, items int) c20case {
	cs := c20case{Delay: 500, Cap: 3, Light: true, Expect: "served-within-delay"}
	first := 1000000
	cs.Ev = []c20ev{{K: "mqcap"}, {K: "fillhq", P: 1, H: 1, T: int64(queueCap)},
		{K: "fillhq", P: 1, H: first, T: int64(items)}, {K: "fillhq", P: 2, H: first, T: int64(items)}, {K: "drainq"},
		{K: "tick", T: 100}, {K: "fillh", P: 3, H: first, T: int64(items)}, {K: "state"},
		{K: "tick", T: 500}, {K: "loop"}, {K: "loop"}, {K: "tick", T: 600}, {K: "loop"}, {K: "drain"}, {K: "state"}}
	return cs
}

func init() {
	hx.Register("C20", func(c *hx.Ctx) error {
		if c.Replay != "" {
			b, err := os.ReadFile(c.Replay)
			if err != nil {
				return err
			}
			var wrap struct {
				Replay c20case `json:"replay"`
			}
			if err := json.Unmarshal(b, &wrap); err != nil {
				return err
			}
			if bytes.Contains(b, []byte(`"conc"`)) && len(wrap.Replay.Ev) == 0 {
				return nil // a replay of channel C20conc
			}
			res, err := c20run(&wrap.Replay, nil)
			if err != nil {
				return err
			}
			c20emit(c, wrap.Replay, res)
			c.Rep.Evaluations = 1
			return nil
		}
		n, maxEv := c.Scale(1500, 100000), 90
		if c.Tier == "thorough" {
			maxEv = 160
		}
		c.Rep.Rule = "random event traces (1-3 entry types each with its own holder+tracker on one manager registered before Run, 2-8 peers, 1-6 hashes shared by the types, pullDelay 50 ms-400 s, MaxParallelPulls 1-4; announcements in bursts, arrivals, cache expiries, clock ticks to/around the tracker's wake-up times and minute-scale jumps, scheduling slots of the tracker goroutines loop/gc and of the manager relay either prompt or arbitrarily delayed, final fair drain) on the real PushPullManager+DefaultHolder+DefaultPushTracker under the blocking virtual clock; plus one trace that overfills maxPendingPushes; distinct = distinct traces; non-trivial = at least one deferred pull request was issued by the tracker"
		for i := 0; i < n; i++ {
			cs, res, err := c20generate(c, maxEv)
			if err != nil {
				return err
			}
			c20emit(c, cs, res)
			c.Rep.Evaluations++
			if res.decs > 0 {
				key, _ := json.Marshal(cs)
				if c.Distinct(string(key)) {
					c.Rep.Distinct++
				}
			}
			for _, lc := range cs.Lanes {
				c.Hit(fmt.Sprintf("delay:%d", lc.Delay))
				c.Hit(fmt.Sprintf("cap:%d", lc.Cap))
			}
			c.Hit(fmt.Sprintf("holders:%d", len(cs.Lanes)))
			switch {
			case res.decs == 0:
				c.Hit("decs:0")
			case res.decs < 4:
				c.Hit("decs:1-3")
			default:
				c.Hit("decs:4+")
			}
			if res.maxPend >= 4 {
				c.Hit("pending>=4")
			}
			if i < 2 {
				c.Sample(cs)
			}
		}
		// the bound
		cs := c20bound()
		res, err := c20run(&cs, nil)
		if err != nil {
			return err
		}
		c20emit(c, cs, res)
		c.Rep.Evaluations++
		c.Hit(fmt.Sprintf("bound:maxPending=%d", res.maxPend))
		if res.maxPend != pushpull.VerifMaxPendingPushes+1 {
			c.Fail("C20:bound-not-reached", fmt.Sprintf("overfill trace reached %d pending pushes, expected maxPendingPushes+1", res.maxPend), nil)
		}
		// full bounded queues
		for _, b := range []c20case{c20burstTracker(1300), c20burstManager(5000, 40)} {
			res, err := c20run(&b, nil)
			if err != nil {
				return err
			}
			c20emit(c, b, res)
			c.Rep.Evaluations++
			c.Hit(fmt.Sprintf("burst:%s loop-met-full-channel=%d", b.Expect, res.stalls))
			if b.Expect == "fallback-all" && res.stalls == 0 && res.fail == nil {
				c.Fail("C20:burst-not-reached", "the tracker burst did not fill the tracker's request channel", nil)
			}
		}
		if c.Tier == "thorough" {
			c20observe(c, 3)
		}
		return nil
	})
}
