package main

// C20: push/pull fetches each announced item once, falling back to the next announcer.
//   - correspondence: generated event traces (announcements from many peers for many hashes, arrivals, clock ticks,
//     scheduling slots of the tracker goroutines loop/gc and of the manager's relay goroutine, cache expiries) run on
//     the REAL PushPullManager + DefaultHolder + DefaultPushTracker under the blocking virtual clock (rig.go); every
//     event line, the emitted pull requests (kind:peer:hash:virtual time) and the tracker's sizes / full state go to
//     the Lean model (PushPull.step).
//   - independent oracle (oracle.go): the property's predicates evaluated on the emitted sequence and on before/after
//     snapshots of the real tracker's state.
import (
	"bytes"
	"encoding/json"
	"fmt"
	"os"
	"strings"

	"github.com/idena-network/idena-go/common"
	"github.com/idena-network/idena-go/common/pushpull"

	"verifharness/internal/hx"
)

type c20ev struct {
	K string `json:"k"` // ann arr tick loop gc dlv exp fgt state
	P int    `json:"p,omitempty"`
	H int    `json:"h,omitempty"`
	T int64  `json:"t,omitempty"`
}

func (e c20ev) line() string {
	switch e.K {
	case "ann":
		return fmt.Sprintf("ann %d %d", e.P, e.H)
	case "arr", "exp", "fgt":
		return fmt.Sprintf("%s %d", e.K, e.H)
	case "tick":
		return fmt.Sprintf("tick %d", e.T)
	}
	return e.K
}

type c20case struct {
	Delay int64   `json:"delay"` // pullDelay, ms
	Cap   int     `json:"cap"`   // 0: the DefaultHolder's own MaxParallelPulls (3); >0: override (TxPool/KeysPool use 1)
	Light bool    `json:"light,omitempty"`
	Ev    []c20ev `json:"ev"`
}

type c20result struct {
	newLine string
	lines   [][2]string // op line, implementation answer
	fail    *c20fail
	decs    int
	outs    int
	maxPend int
	hits    map[string]int
}

func fmtOuts(out []c20out) string {
	if len(out) == 0 {
		return "-"
	}
	s := make([]string, len(out))
	for i, o := range out {
		s[i] = o.String()
	}
	return strings.Join(s, " ")
}

// c20run executes a case on a fresh rig; `next` (optional) extends the case adaptively: it is called whenever the
// event list is exhausted and returns further events (used by the generator; replay and shrinking pass nil).
// The pseudo-event "drain" expands (adaptively, into concrete tick/loop/dlv lines) to a fair prompt schedule without
// further input until nothing is pending.
func c20run(cs *c20case, next func(r *rig) []c20ev) (res c20result, err error) {
	r, err := newRig(cs.Delay, cs.Cap)
	if err != nil {
		return res, err
	}
	defer r.close()
	res.newLine = fmt.Sprintf("new %d %d %d 0", cs.Delay, r.cap, pushpull.VerifMaxPendingPushes)
	res.hits = map[string]int{}
	or := newOracle(cs.Delay, r.cap, pushpull.VerifMaxPendingPushes)
	setFail := func(f *c20fail) {
		if f != nil && res.fail == nil {
			res.fail = f
		}
	}
	// do runs one concrete event; false = the rig is broken, stop
	do := func(i int, e c20ev) bool {
		if e.K == "state" {
			res.lines = append(res.lines, [2]string{e.line(), r.stateLine()})
			return true
		}
		var before c20snap
		if !cs.Light {
			before = r.snap()
		}
		out := r.exec(e)
		res.outs += len(out)
		for _, o := range out {
			if o.Kind == "dec" {
				res.decs++
			}
		}
		if r.err != "" {
			setFail(&c20fail{"C20:rig-error", fmt.Sprintf("event %d (%s): %s", i, e.line(), r.err)})
			res.lines = append(res.lines, [2]string{e.line(), "panic"})
			return false
		}
		res.lines = append(res.lines, [2]string{e.line(), fmtOuts(out) + " | " + r.sizes()})
		n := r.tracker.VerifPendingLen()
		if n > res.maxPend {
			res.maxPend = n
		}
		if !cs.Light {
			after := r.snap()
			setFail(or.observe(i, e, out, before, after, r))
			switch {
			case e.K == "gc" && len(after.Active) < len(before.Active):
				res.hits["gc:expired-a-pull"]++
			case e.K == "ann" && len(out) == 0 && len(after.Pending) == len(before.Pending) && !r.holder.Has(hashOf(e.H)):
				res.hits["ann:dropped(no active pull)"]++
			case e.K == "ann" && len(out) == 0 && len(before.Pending) > 0 && len(after.Pending) > len(before.Pending) && after.Pending[0] != before.Pending[0]:
				res.hits["ann:queued-in-front"]++
			case e.K == "loop" && len(out) == 0 && len(after.Pending) < len(before.Pending):
				res.hits["loop:dropped(stored or no active pull)"]++
			case e.K == "dlv" && len(out) == 1 && r.holder.Has(hashOf(out[0].H)):
				res.hits["dlv:relay-after-arrival"]++
			}
		} else if n > pushpull.VerifMaxPendingPushes+1 {
			setFail(&c20fail{"C20:pending-unbounded", fmt.Sprintf("event %d: %d pending pushes > maxPendingPushes+1", i, n)})
		}
		return true
	}
	if next != nil && len(cs.Ev) == 0 {
		cs.Ev = append(cs.Ev, next(r)...)
	}
	for i := 0; i < len(cs.Ev); i++ {
		e := cs.Ev[i]
		if e.K == "fill" { // T announcements of hash H by peers P, P+1, …
			ok := true
			for k := int64(0); k < e.T && ok; k++ {
				ok = do(i, c20ev{K: "ann", P: e.P + int(k), H: e.H})
			}
			if !ok {
				break
			}
		} else if e.K == "drain" {
			rounds := 3*r.tracker.VerifPendingLen() + 3*len(r.fifo) + 8
			for r.tracker.VerifPendingLen() > 0 || len(r.fifo) > 0 {
				if rounds--; rounds < 0 {
					setFail(&c20fail{"C20:not-drained", fmt.Sprintf("event %d: a fair prompt schedule without further input did not empty the pending list (%d left)", i, r.tracker.VerifPendingLen())})
					break
				}
				lw, _ := c20wakes()
				ok := true
				if lw > r.now() {
					ok = do(i, c20ev{K: "tick", T: lw})
				}
				ok = ok && do(i, c20ev{K: "loop"}) && do(i, c20ev{K: "dlv"})
				if !ok {
					return res, nil
				}
			}
		} else if !do(i, e) {
			break
		}
		if next != nil && i == len(cs.Ev)-1 {
			cs.Ev = append(cs.Ev, next(r)...)
		}
	}
	return res, nil
}

func c20wakes() (loop, gc int64) {
	loop, gc = -1, -1
	for _, s := range common.VerifBlockingParked() {
		w := (s.Wake - c20T0.UnixNano()) / 1e6
		if s.Who == "loop" {
			loop = w
		} else if s.Who == "gc" {
			gc = w
		}
	}
	return
}

func c20shrink(cs c20case, sig string) c20case {
	budget := 400000 // events executed while shrinking
	fails := func(c c20case) bool {
		if budget <= 0 {
			return false
		}
		res, err := c20run(&c, nil)
		budget -= len(res.lines) + 50
		return err == nil && res.fail != nil && res.fail.Sig == sig
	}
	for changed := true; changed && budget > 0; {
		changed = false
		for chunk := len(cs.Ev) / 2; chunk >= 1; chunk /= 2 {
			for i := 0; i+chunk <= len(cs.Ev); {
				t := c20case{Delay: cs.Delay, Cap: cs.Cap, Light: cs.Light}
				t.Ev = append(append([]c20ev{}, cs.Ev[:i]...), cs.Ev[i+chunk:]...)
				if fails(t) {
					cs, changed = t, true
				} else {
					i += chunk
				}
			}
		}
		for i := range cs.Ev { // shorten fills
			for cs.Ev[i].K == "fill" && cs.Ev[i].T > 1 {
				t := c20case{Delay: cs.Delay, Cap: cs.Cap, Light: cs.Light, Ev: append([]c20ev{}, cs.Ev...)}
				t.Ev[i].T = cs.Ev[i].T - (cs.Ev[i].T+9)/10
				if !fails(t) {
					break
				}
				cs, changed = t, true
			}
		}
	}
	return cs
}

func c20emit(c *hx.Ctx, cs c20case, res c20result) {
	c.Line(res.newLine, "ok")
	for _, l := range res.lines {
		c.Line(l[0], l[1])
		c.Hit("ev:" + strings.SplitN(l[0], " ", 2)[0])
		for _, k := range []string{"imm:", "dec:", "fwd:"} {
			if strings.Contains(l[1], k) {
				c.Hit("out:" + k[:3])
			}
		}
	}
	for k, n := range res.hits {
		for ; n > 0; n-- {
			c.Hit(k)
		}
	}
	if res.fail != nil {
		small := c20shrink(cs, res.fail.Sig)
		r2, err := c20run(&small, nil)
		detail := res.fail.Detail
		if err == nil && r2.fail != nil {
			detail = r2.fail.Detail
		}
		c.Fail(res.fail.Sig, detail, small)
	}
}

// ---- generator ----------------------------------------------------------------------------------------------

var c20delays = []int64{50, 300, 500, 1000, 3000, 5000, 10000, 400000}

type c20gen struct {
	c        *hx.Ctx
	peers    int
	hashes   int
	prompt   bool // a well-behaved scheduler: due goroutines run at once, the manager relays at once
	long     bool // minute-scale jumps (gc)
	budget   int
	draining int
}

// next produces the events that follow (adaptive: looks at the rig's clock and parked goroutines).
func (g *c20gen) next(r *rig) []c20ev {
	rng := g.c.Rng
	if g.budget <= 0 {
		if g.draining == 0 {
			g.draining = 1
			return []c20ev{{K: "drain"}, {K: "state"}}
		}
		return nil
	}
	g.budget--
	now := r.now()
	lw, gw := c20wakes()
	var evs []c20ev
	x := rng.Intn(100)
	switch {
	case x < 38:
		evs = append(evs, c20ev{K: "ann", P: 1 + rng.Intn(g.peers), H: 1 + rng.Intn(g.hashes)})
		for rng.Intn(3) == 0 { // bursts: several peers announce the same hash
			evs = append(evs, c20ev{K: "ann", P: 1 + rng.Intn(g.peers), H: evs[0].H})
		}
	case x < 60:
		var t int64
		switch y := rng.Intn(12); {
		case y < 3:
			t = now + 1 + int64(rng.Intn(20))
		case y < 5 && lw >= 0:
			t = lw // exactly the loop's wake-up time
		case y < 6 && lw >= 0:
			t = lw - 1
		case y < 7:
			t = now + r.delay
		case y < 8:
			t = now + r.delay/2
		case y < 9:
			t = now + r.delay + 1 + int64(rng.Intn(30))
		case y < 10 && g.long:
			t = gw
		case y < 11 && g.long:
			t = now + 60000*int64(1+rng.Intn(6))
		case y == 11 && rng.Intn(4) == 0:
			t = now - int64(rng.Intn(50)) // the clock never goes back: ignored
		default:
			t = now + int64(rng.Intn(int(r.delay)+10))
		}
		if t < 0 {
			t = 0
		}
		evs = append(evs, c20ev{K: "tick", T: t})
		if g.prompt {
			if lw <= gw {
				evs = append(evs, c20ev{K: "loop"}, c20ev{K: "dlv"}, c20ev{K: "gc"})
			} else {
				evs = append(evs, c20ev{K: "gc"}, c20ev{K: "loop"}, c20ev{K: "dlv"})
			}
		}
	case x < 74:
		evs = append(evs, c20ev{K: "loop"})
		if g.prompt || rng.Intn(2) == 0 {
			evs = append(evs, c20ev{K: "dlv"})
		}
	case x < 82:
		evs = append(evs, c20ev{K: "dlv"})
	case x < 85:
		evs = append(evs, c20ev{K: "gc"})
	case x < 92:
		evs = append(evs, c20ev{K: "arr", H: 1 + rng.Intn(g.hashes)})
	case x < 94:
		evs = append(evs, c20ev{K: "exp", H: 1 + rng.Intn(g.hashes)})
	case x < 96:
		evs = append(evs, c20ev{K: "fgt", H: 1 + rng.Intn(g.hashes)})
	default:
		evs = append(evs, c20ev{K: "state"})
	}
	if len(r.fifo) > 200 { // keep the tracker's channel (capacity 1000) far from full: the manager does relay
		evs = append(evs, c20ev{K: "dlv"})
	}
	return evs
}

func c20generate(c *hx.Ctx, maxEv int) (c20case, c20result, error) {
	rng := c.Rng
	cs := c20case{Delay: c20delays[rng.Intn(len(c20delays))], Cap: rng.Intn(5)}
	g := &c20gen{c: c, peers: 2 + rng.Intn(7), hashes: 1 + rng.Intn(6), prompt: rng.Intn(5) < 3, long: rng.Intn(4) == 0,
		budget: 10 + rng.Intn(maxEv)}
	if g.long && rng.Intn(2) == 0 {
		cs.Delay = 400000
	}
	res, err := c20run(&cs, g.next)
	return cs, res, err
}

// c20bound: more announcers than maxPendingPushes for one hash; the pending list must stop growing.
func c20bound() c20case {
	cs := c20case{Delay: 10000, Cap: 1, Light: true}
	cs.Ev = []c20ev{{K: "ann", P: 1, H: 1}, {K: "ann", P: 1, H: 2}, {K: "tick", T: 5},
		{K: "fill", P: 2, H: 1, T: int64(pushpull.VerifMaxPendingPushes) + 4},
		{K: "ann", P: 2, H: 2}, {K: "tick", T: 9}, {K: "loop"}, {K: "tick", T: 10}, {K: "loop"}}
	return cs
}

func init() {
	hx.Register("C20", func(c *hx.Ctx) error {
		if c.Replay != "" {
			b, err := os.ReadFile(c.Replay)
			if err != nil {
				return err
			}
			var wrap struct {
				Replay c20case `json:"replay"`
			}
			if err := json.Unmarshal(b, &wrap); err != nil {
				return err
			}
			if bytes.Contains(b, []byte(`"conc"`)) && len(wrap.Replay.Ev) == 0 {
				return nil // a replay of channel C20conc
			}
			res, err := c20run(&wrap.Replay, nil)
			if err != nil {
				return err
			}
			c20emit(c, wrap.Replay, res)
			c.Rep.Evaluations = 1
			return nil
		}
		n, maxEv := c.Scale(1500, 100000), 90
		if c.Tier == "thorough" {
			maxEv = 160
		}
		c.Rep.Rule = "random event traces (2-8 peers, 1-6 hashes, pullDelay 50 ms-400 s, MaxParallelPulls 1-4; announcements in bursts, arrivals, cache expiries, clock ticks to/around the tracker's wake-up times and minute-scale jumps, scheduling slots of the tracker goroutines loop/gc and of the manager relay either prompt or arbitrarily delayed, final fair drain) on the real PushPullManager+DefaultHolder+DefaultPushTracker under the blocking virtual clock; plus one trace that overfills maxPendingPushes; distinct = distinct traces; non-trivial = at least one deferred pull request was issued by the tracker"
		for i := 0; i < n; i++ {
			cs, res, err := c20generate(c, maxEv)
			if err != nil {
				return err
			}
			c20emit(c, cs, res)
			c.Rep.Evaluations++
			if res.decs > 0 {
				key, _ := json.Marshal(cs)
				if c.Distinct(string(key)) {
					c.Rep.Distinct++
				}
			}
			c.Hit(fmt.Sprintf("delay:%d", cs.Delay))
			c.Hit(fmt.Sprintf("cap:%d", cs.Cap))
			switch {
			case res.decs == 0:
				c.Hit("decs:0")
			case res.decs < 4:
				c.Hit("decs:1-3")
			default:
				c.Hit("decs:4+")
			}
			if res.maxPend >= 4 {
				c.Hit("pending>=4")
			}
			if i < 2 {
				c.Sample(cs)
			}
		}
		// the bound
		cs := c20bound()
		res, err := c20run(&cs, nil)
		if err != nil {
			return err
		}
		c20emit(c, cs, res)
		c.Rep.Evaluations++
		c.Hit(fmt.Sprintf("bound:maxPending=%d", res.maxPend))
		if res.maxPend != pushpull.VerifMaxPendingPushes+1 {
			c.Fail("C20:bound-not-reached", fmt.Sprintf("overfill trace reached %d pending pushes, expected maxPendingPushes+1", res.maxPend), nil)
		}
		if c.Tier == "thorough" {
			c20observe(c, 3)
		}
		return nil
	})
}
