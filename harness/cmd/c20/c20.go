package main

import (
	"fmt"
	"os"

	"verifharness/internal/hx"
)

type c20ev struct {
	K string `json:"k"`
	P int    `json:"p,omitempty"`
	H int    `json:"h,omitempty"`
	T int64  `json:"t,omitempty"`
}

func init() {
	hx.Register("C20", func(c *hx.Ctx) error {
		r, err := newRig(500, 0)
		if err != nil {
			return err
		}
		evs := []c20ev{
			{K: "ann", P: 1, H: 1}, {K: "ann", P: 2, H: 1},
			{K: "tick", T: 100},
			{K: "ann", P: 1, H: 2}, {K: "ann", P: 2, H: 2}, {K: "ann", P: 3, H: 2},
			{K: "tick", T: 110}, {K: "loop"},
			{K: "tick", T: 200}, {K: "ann", P: 3, H: 1},
			{K: "tick", T: 600}, {K: "loop"}, {K: "dlv"},
			{K: "tick", T: 1100}, {K: "loop"}, {K: "dlv"},
			{K: "tick", T: 1700}, {K: "loop"}, {K: "dlv"},
			{K: "tick", T: 2700}, {K: "loop"}, {K: "dlv"},
		}
		for _, e := range evs {
			out := r.exec(e)
			fmt.Fprintln(os.Stderr, e, "->", out, "|", r.stateLine(), r.err)
		}
		r.close()
		return nil
	})
}
