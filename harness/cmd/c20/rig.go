package main

// The rig: the REAL protocol.PushPullManager + pushpull.DefaultHolder + pushpull.DefaultPushTracker (clock calls
// of tracker.go rewritten to the virtual clock by the overlay), driven single-threadedly and deterministically:
//   - the tracker's two goroutines (loop, gc) only ever block in VerifSleep; the blocking clock shim
//     (shims/common--c20.go.tmpl) parks them and the rig releases one at a time and waits until it is parked again;
//   - the manager's loop goroutine (protocol/pushpull.go:119) receives from holder.PushTracker().Requests(); the rig
//     hands the manager a holder wrapper whose PushTracker() is a proxy: Requests() is a rig-owned channel into
//     which the rig forwards the real tracker's requests one by one ("dlv" event = the moment the manager loop gets
//     scheduled), and RegisterPull counts calls so the rig knows when the manager loop has finished an item.
import (
	"encoding/binary"
	"fmt"
	"runtime"
	"sort"
	"strings"
	"sync/atomic"
	"time"

	"github.com/idena-network/idena-go/common"
	"github.com/idena-network/idena-go/common/pushpull"
	"github.com/idena-network/idena-go/protocol"
	"github.com/libp2p/go-libp2p-core/peer"
)

const c20Type = 4 // pushFlip

var c20T0 = time.Date(2030, 1, 1, 0, 0, 0, 0, time.UTC)

type proxyTracker struct {
	real  *pushpull.DefaultPushTracker
	fwd   chan pushpull.PendingPulls
	calls int64 // RegisterPull calls completed
	dead  int32
}

func (p *proxyTracker) RegisterPull(hash common.Hash128) {
	if atomic.LoadInt32(&p.dead) != 0 {
		runtime.Goexit() // tear-down: ends the manager's loop goroutine
	}
	p.real.RegisterPull(hash)
	atomic.AddInt64(&p.calls, 1)
}
func (p *proxyTracker) AddPendingPush(id peer.ID, hash common.Hash128) {
	p.real.AddPendingPush(id, hash)
}
func (p *proxyTracker) Requests() chan pushpull.PendingPulls { return p.fwd }
func (p *proxyTracker) Run()                                 {}
func (p *proxyTracker) SetHolder(holder pushpull.Holder)     {}
func (p *proxyTracker) RemovePull(hash common.Hash128)       { p.real.RemovePull(hash) }

// wrapHolder delegates everything to the real DefaultHolder except PushTracker() (proxy) and, when capOverride>0,
// MaxParallelPulls() (TxPool and KeysPool return 1, DefaultHolder returns 3).
type wrapHolder struct {
	pushpull.Holder
	proxy       *proxyTracker
	capOverride uint32
}

func (w *wrapHolder) PushTracker() pushpull.PendingPushTracker { return w.proxy }
func (w *wrapHolder) MaxParallelPulls() uint32 {
	if w.capOverride > 0 {
		return w.capOverride
	}
	return w.Holder.MaxParallelPulls()
}

type c20out struct {
	Kind string // imm dec fwd
	P, H int
	T    int64
}

func (o c20out) String() string { return fmt.Sprintf("%s:%d:%d:%d", o.Kind, o.P, o.H, o.T) }

type rig struct {
	tracker *pushpull.DefaultPushTracker
	holder  pushpull.Holder
	wrap    *wrapHolder
	proxy   *proxyTracker
	mgr     *protocol.PushPullManager
	fifo    []pushpull.PendingPulls // tracker decisions not yet handed to the manager loop
	cap     int
	delay   int64
	hashes  map[int]bool
	err     string
}

func peerOf(p int) peer.ID { return peer.ID(fmt.Sprintf("p%d", p)) }
func peerNo(id peer.ID) int {
	var n int
	if _, err := fmt.Sscanf(string(id), "p%d", &n); err != nil {
		return -1
	}
	return n
}
func hashOf(h int) common.Hash128 {
	var x common.Hash128
	binary.BigEndian.PutUint32(x[:4], uint32(h))
	x[15] = 0xc2
	return x
}
func hashNo(x common.Hash128) int { return int(binary.BigEndian.Uint32(x[:4])) }

func newRig(delayMs int64, capOverride int) (*rig, error) {
	common.VerifBlockingEnable(c20T0)
	r := &rig{hashes: map[int]bool{}, delay: delayMs}
	r.tracker = pushpull.NewDefaultPushTracker(time.Duration(delayMs) * time.Millisecond)
	r.holder = pushpull.NewDefaultHolder(3, r.tracker) // SetHolder + Run: goroutines loop and gc
	if !common.VerifBlockingWaitParked(2, 5*time.Second) {
		return nil, fmt.Errorf("tracker goroutines did not park")
	}
	r.proxy = &proxyTracker{real: r.tracker, fwd: make(chan pushpull.PendingPulls)}
	r.wrap = &wrapHolder{Holder: r.holder, proxy: r.proxy, capOverride: uint32(capOverride)}
	r.cap = int(r.wrap.MaxParallelPulls())
	r.mgr = protocol.NewPushPullManager()
	r.mgr.VerifAddEntryHolder(c20Type, r.wrap)
	r.mgr.Run()
	return r, nil
}

func (r *rig) close() {
	atomic.StoreInt32(&r.proxy.dead, 1)
	select {
	case r.proxy.fwd <- pushpull.PendingPulls{}:
	case <-time.After(2 * time.Second):
	}
	common.VerifBlockingKillParked()
}

func (r *rig) now() int64 { return common.VerifNow().Sub(c20T0).Milliseconds() }

func (r *rig) drain(kind string) []c20out {
	var out []c20out
	for _, q := range r.mgr.VerifDrain() {
		out = append(out, c20out{kind, peerNo(q.Peer), hashNo(q.Hash), r.now()})
	}
	return out
}

func (r *rig) collect() []c20out {
	var out []c20out
	for {
		select {
		case q := <-r.tracker.Requests():
			r.fifo = append(r.fifo, q)
			out = append(out, c20out{"dec", peerNo(q.Id), hashNo(q.Hash), r.now()})
		default:
			return out
		}
	}
}

// exec runs one event on the real code and returns the observable outputs of that event.
func (r *rig) exec(e c20ev) (out []c20out) {
	defer func() {
		if x := recover(); x != nil {
			r.err = fmt.Sprintf("panic %v", x)
		}
	}()
	switch e.K {
	case "ann":
		r.hashes[e.H] = true
		r.mgr.VerifAddPush(peerOf(e.P), c20Type, hashOf(e.H))
		return r.drain("imm")
	case "arr":
		r.hashes[e.H] = true
		r.mgr.VerifAddEntry(c20Type, hashOf(e.H), "item")
	case "exp":
		pushpull.VerifExpire(r.holder, hashOf(e.H))
	case "fgt":
		r.mgr.VerifForget(c20Type, hashOf(e.H))
	case "tick":
		if e.T >= r.now() {
			common.VerifSetTime(c20T0.Add(time.Duration(e.T) * time.Millisecond))
		}
	case "loop", "gc":
		if common.VerifBlockingRelease(e.K) {
			if !common.VerifBlockingWaitParked(2, 10*time.Second) {
				r.err = "tracker goroutine did not park again (blocked or dead)"
			}
			return r.collect()
		}
	case "dlv":
		if len(r.fifo) > 0 {
			q := r.fifo[0]
			r.fifo = r.fifo[1:]
			before := atomic.LoadInt64(&r.proxy.calls)
			r.proxy.fwd <- q
			for i := 0; atomic.LoadInt64(&r.proxy.calls) == before; i++ {
				if i < 1000 {
					runtime.Gosched()
				} else {
					time.Sleep(10 * time.Microsecond)
				}
				if i > 2000000 {
					r.err = "manager loop did not process the forwarded request"
					break
				}
			}
			return r.drain("fwd")
		}
	default:
		r.err = "bad event " + e.K
	}
	return nil
}

type c20snap struct {
	Now     int64
	Pending []pushpull.VerifEntry
	Active  map[common.Hash128]time.Time
}

func (r *rig) snap() c20snap {
	return c20snap{Now: r.now(), Pending: r.tracker.VerifPending(), Active: r.tracker.VerifActive()}
}

func (r *rig) ms(t time.Time) int64 { return t.Sub(c20T0).Milliseconds() }

func (r *rig) sizes() string {
	n := 0
	r.tracker.VerifActive()
	for range r.tracker.VerifActive() {
		n++
	}
	return fmt.Sprintf("P=%d A=%d Q=%d", r.tracker.VerifPendingLen(), n, len(r.fifo))
}

// stateLine: the full canonical state (everything the model keeps except the peeked object of a sleeping loop).
func (r *rig) stateLine() string {
	var sb strings.Builder
	fmt.Fprintf(&sb, "now=%d pend=", r.now())
	for i, e := range r.tracker.VerifPending() {
		if i > 0 {
			sb.WriteByte(',')
		}
		fmt.Fprintf(&sb, "%d:%d:%d", peerNo(e.Id), hashNo(e.Hash), r.ms(e.Time))
	}
	act := r.tracker.VerifActive()
	var hs []int
	for h := range act {
		hs = append(hs, hashNo(h))
	}
	sort.Ints(hs)
	sb.WriteString(" act=")
	for i, h := range hs {
		if i > 0 {
			sb.WriteByte(',')
		}
		fmt.Fprintf(&sb, "%d:%d", h, r.ms(act[hashOf(h)]))
	}
	hs = hs[:0]
	for h := range r.hashes {
		hs = append(hs, h)
	}
	sort.Ints(hs)
	sb.WriteString(" held=")
	first := true
	for _, h := range hs {
		if r.holder.Has(hashOf(h)) {
			if !first {
				sb.WriteByte(',')
			}
			first = false
			fmt.Fprintf(&sb, "%d", h)
		}
	}
	sb.WriteString(" cnt=")
	first = true
	for _, h := range hs {
		if c, ok := r.mgr.VerifCounter(c20Type, hashOf(h)); ok {
			if !first {
				sb.WriteByte(',')
			}
			first = false
			fmt.Fprintf(&sb, "%d:%d", h, c)
		}
	}
	sb.WriteString(" q=")
	for i, q := range r.fifo {
		if i > 0 {
			sb.WriteByte(',')
		}
		fmt.Fprintf(&sb, "%d:%d", peerNo(q.Id), hashNo(q.Hash))
	}
	lw, gw := int64(-1), int64(-1)
	for _, s := range common.VerifBlockingParked() {
		w := (s.Wake - c20T0.UnixNano()) / int64(time.Millisecond)
		switch s.Who {
		case "loop":
			lw = w
		case "gc":
			gw = w
		}
	}
	fmt.Fprintf(&sb, " loop=%d gc=%d", lw, gw)
	return sb.String()
}
