package main

// The rig: the REAL protocol.PushPullManager + pushpull.DefaultHolder + pushpull.DefaultPushTracker (clock calls
// of tracker.go rewritten to the virtual clock by the overlay), driven single-threadedly and deterministically:
//   - the tracker's two goroutines (loop, gc) only ever block in VerifSleep; the blocking clock shim
//     (shims/common--c20.go.tmpl) parks them and the rig releases one at a time and waits until it is parked again;
//   - the manager's loop goroutine (protocol/pushpull.go:119) receives from holder.PushTracker().Requests(); the rig
//     hands the manager a holder wrapper whose PushTracker() is a proxy: Requests() is a rig-owned channel into
//     which the rig forwards the real tracker's requests one by one ("dlv" event = the moment the manager loop gets
//     scheduled), and RegisterPull counts calls so the rig knows when the manager loop has finished an item;
//   - several "lanes" (entry type + its own holder + tracker, as the node registers six) hang on ONE manager and ONE
//     clock, all registered before Run; the goroutines of a lane are recognised by their goroutine ids. Every emitted
//     pull request is recorded with the push TYPE the manager put on it.
import (
	"encoding/binary"
	"fmt"
	"runtime"
	"sort"
	"strings"
	"sync/atomic"
	"time"

	"github.com/idena-network/idena-go/common"
	"github.com/idena-network/idena-go/common/pushpull"
	"github.com/idena-network/idena-go/protocol"
	"github.com/libp2p/go-libp2p-core/peer"
)

const c20Type = 4 // pushFlip (default lane)

var c20T0 = time.Date(2030, 1, 1, 0, 0, 0, 0, time.UTC)

type proxyTracker struct {
	real  *pushpull.DefaultPushTracker
	fwd   chan pushpull.PendingPulls
	calls int64 // RegisterPull calls completed
	dead  *int32
}

func (p *proxyTracker) RegisterPull(hash common.Hash128) {
	if atomic.LoadInt32(p.dead) != 0 {
		runtime.Goexit() // tear-down: ends the manager's loop goroutine
	}
	p.real.RegisterPull(hash)
	atomic.AddInt64(&p.calls, 1)
}
func (p *proxyTracker) AddPendingPush(id peer.ID, hash common.Hash128) {
	p.real.AddPendingPush(id, hash)
}
func (p *proxyTracker) Requests() chan pushpull.PendingPulls { return p.fwd }
func (p *proxyTracker) Run()                                 {}
func (p *proxyTracker) SetHolder(holder pushpull.Holder)     {}
func (p *proxyTracker) RemovePull(hash common.Hash128)       { p.real.RemovePull(hash) }

// wrapHolder delegates everything to the real DefaultHolder except PushTracker() (proxy) and, when capOverride>0,
// MaxParallelPulls() (TxPool and KeysPool return 1, DefaultHolder returns 3).
type wrapHolder struct {
	pushpull.Holder
	proxy       *proxyTracker
	capOverride uint32
}

func (w *wrapHolder) PushTracker() pushpull.PendingPushTracker { return w.proxy }
func (w *wrapHolder) MaxParallelPulls() uint32 {
	if w.capOverride > 0 {
		return w.capOverride
	}
	return w.Holder.MaxParallelPulls()
}

type c20out struct {
	Kind string // imm dec fwd
	Ty   int    // push type on the emitted request (dec: the lane's type, the tracker knows no types)
	P, H int
	T    int64
}

func (o c20out) String() string { return fmt.Sprintf("%s:%d:%d:%d:%d", o.Kind, o.Ty, o.P, o.H, o.T) }

type c20lane struct {
	Ty    int   `json:"type"`
	Delay int64 `json:"delay"`
	Cap   int   `json:"cap"`
}

type lane struct {
	typ     uint8
	tracker *pushpull.DefaultPushTracker
	holder  pushpull.Holder
	wrap    *wrapHolder
	proxy   *proxyTracker
	fifo    []pushpull.PendingPulls // tracker decisions not yet handed to the manager loop
	cap     int
	delay   int64
	hashes  map[int]bool
	gids    map[string]int64 // "loop", "gc" -> goroutine id
}

type rig struct {
	lanes  []*lane
	mgr    *protocol.PushPullManager
	dead   int32
	err    string
	stalls int // times the tracker loop was found blocked on its full request channel
}

func peerOf(p int) peer.ID { return peer.ID(fmt.Sprintf("p%d", p)) }
func peerNo(id peer.ID) int {
	var n int
	if _, err := fmt.Sscanf(string(id), "p%d", &n); err != nil {
		return -1
	}
	return n
}
func hashOf(h int) common.Hash128 {
	var x common.Hash128
	binary.BigEndian.PutUint32(x[:4], uint32(h))
	x[15] = 0xc2
	return x
}
func hashNo(x common.Hash128) int { return int(binary.BigEndian.Uint32(x[:4])) }

func newRig(cfg []c20lane) (*rig, error) {
	common.VerifBlockingEnable(c20T0)
	r := &rig{}
	r.mgr = protocol.NewPushPullManager()
	seen := map[int64]bool{}
	for i, lc := range cfg {
		l := &lane{typ: uint8(lc.Ty), delay: lc.Delay, hashes: map[int]bool{}, gids: map[string]int64{}}
		l.tracker = pushpull.NewDefaultPushTracker(time.Duration(lc.Delay) * time.Millisecond)
		l.holder = pushpull.NewDefaultHolder(3, l.tracker) // SetHolder + Run: goroutines loop and gc
		if !common.VerifBlockingWaitParked(2*(i+1), 5*time.Second) {
			return nil, fmt.Errorf("tracker goroutines did not park")
		}
		for _, s := range common.VerifBlockingParked() {
			if !seen[s.Gid] {
				seen[s.Gid] = true
				l.gids[s.Who] = s.Gid
			}
		}
		if l.gids["loop"] == 0 || l.gids["gc"] == 0 {
			return nil, fmt.Errorf("tracker goroutines not identified: %v", l.gids)
		}
		l.proxy = &proxyTracker{real: l.tracker, fwd: make(chan pushpull.PendingPulls), dead: &r.dead}
		l.wrap = &wrapHolder{Holder: l.holder, proxy: l.proxy, capOverride: uint32(lc.Cap)}
		l.cap = int(l.wrap.MaxParallelPulls())
		r.mgr.VerifAddEntryHolder(l.typ, l.wrap)
		r.lanes = append(r.lanes, l)
	}
	r.mgr.Run() // after ALL holders are registered, as in NewIdenaGossipHandler
	return r, nil
}

func (r *rig) close() {
	atomic.StoreInt32(&r.dead, 1)
	for _, l := range r.lanes {
		select {
		case l.proxy.fwd <- pushpull.PendingPulls{}:
		case <-time.After(2 * time.Second):
		}
	}
	common.VerifBlockingKillParked()
}

func (r *rig) now() int64 { return common.VerifNow().Sub(c20T0).Milliseconds() }

func (r *rig) drain(kind string) []c20out {
	var out []c20out
	for _, q := range r.mgr.VerifDrain() {
		out = append(out, c20out{kind, int(q.Type), peerNo(q.Peer), hashNo(q.Hash), r.now()})
	}
	return out
}

func (r *rig) collect(l *lane) []c20out {
	var out []c20out
	for {
		select {
		case q := <-l.tracker.Requests():
			l.fifo = append(l.fifo, q)
			out = append(out, c20out{"dec", int(l.typ), peerNo(q.Id), hashNo(q.Hash), r.now()})
		default:
			return out
		}
	}
}

// exec runs one event on the real code and returns the observable outputs of that event.
func (r *rig) exec(e c20ev) (out []c20out) {
	defer func() {
		if x := recover(); x != nil {
			r.err = fmt.Sprintf("panic %v", x)
		}
	}()
	if e.L < 0 || e.L >= len(r.lanes) {
		r.err = "bad lane"
		return nil
	}
	l := r.lanes[e.L]
	switch e.K {
	case "ann":
		l.hashes[e.H] = true
		r.mgr.VerifAddPush(peerOf(e.P), l.typ, hashOf(e.H))
		return r.drain("imm")
	case "annq": // the consumer of PushPullManager.Requests() is stalled: nothing is taken out
		l.hashes[e.H] = true
		r.mgr.VerifAddPush(peerOf(e.P), l.typ, hashOf(e.H))
	case "drainq": // the consumer runs again
		return r.drain("req")
	case "loopstall":
		// the tracker loop runs while the consumer of tracker.Requests() is stalled: it either parks again or blocks on
		// the full channel (capacity 1000); only then does the consumer resume and take requests until the loop parks
		if common.VerifBlockingReleaseGid(l.gids["loop"]) {
			n := 2 * len(r.lanes)
			ch := l.tracker.Requests()
			stable, lastP := 0, -1
			for i := 0; i < 200000 && stable < 20; i++ {
				if common.VerifBlockingWaitParked(n, 100*time.Microsecond) {
					break
				}
				if p := l.tracker.VerifPendingLen(); len(ch) == cap(ch) && p == lastP {
					stable++
				} else {
					stable, lastP = 0, p
				}
			}
			if stable >= 20 {
				r.stalls++
			}
			for i := 0; ; i++ {
				out = append(out, r.collect(l)...)
				if common.VerifBlockingWaitParked(n, 200*time.Microsecond) {
					break
				}
				if i > 100000 {
					r.err = "tracker loop did not park again after its consumer resumed"
					return out
				}
			}
			return append(out, r.collect(l)...)
		}
	case "arr":
		l.hashes[e.H] = true
		r.mgr.VerifAddEntry(l.typ, hashOf(e.H), "item")
	case "exp":
		pushpull.VerifExpire(l.holder, hashOf(e.H))
	case "fgt":
		r.mgr.VerifForget(l.typ, hashOf(e.H))
	case "tick":
		if e.T >= r.now() {
			common.VerifSetTime(c20T0.Add(time.Duration(e.T) * time.Millisecond))
		}
	case "loop", "gc":
		if common.VerifBlockingReleaseGid(l.gids[e.K]) {
			if !common.VerifBlockingWaitParked(2*len(r.lanes), 10*time.Second) {
				r.err = "tracker goroutine did not park again (blocked or dead)"
			}
			return r.collect(l)
		}
	case "dlv":
		if len(l.fifo) > 0 {
			q := l.fifo[0]
			l.fifo = l.fifo[1:]
			before := atomic.LoadInt64(&l.proxy.calls)
			l.proxy.fwd <- q
			for i := 0; atomic.LoadInt64(&l.proxy.calls) == before; i++ {
				if i < 1000 {
					runtime.Gosched()
				} else {
					time.Sleep(10 * time.Microsecond)
				}
				if i > 2000000 {
					r.err = "manager loop did not process the forwarded request"
					break
				}
			}
			return r.drain("fwd")
		}
	default:
		r.err = "bad event " + e.K
	}
	return nil
}

type c20snap struct {
	Now     int64
	Pending []pushpull.VerifEntry
	Active  map[common.Hash128]time.Time
}

func (r *rig) snap(l *lane) c20snap {
	return c20snap{Now: r.now(), Pending: l.tracker.VerifPending(), Active: l.tracker.VerifActive()}
}

func (r *rig) ms(t time.Time) int64 { return t.Sub(c20T0).Milliseconds() }

func (r *rig) sizes(l *lane) string {
	return fmt.Sprintf("P=%d A=%d Q=%d", l.tracker.VerifPendingLen(), len(l.tracker.VerifActive()), len(l.fifo))
}

// wakes: virtual wake-up times (ms) of the lane's two goroutines
func (r *rig) wakes(l *lane) (loop, gc int64) {
	loop, gc = -1, -1
	for _, s := range common.VerifBlockingParked() {
		w := (s.Wake - c20T0.UnixNano()) / int64(time.Millisecond)
		switch s.Gid {
		case l.gids["loop"]:
			loop = w
		case l.gids["gc"]:
			gc = w
		}
	}
	return
}

// stateLine: the lane's full canonical state (everything the model keeps except the peeked object of a sleeping loop).
func (r *rig) stateLine(l *lane) string {
	var sb strings.Builder
	fmt.Fprintf(&sb, "now=%d pend=", r.now())
	for i, e := range l.tracker.VerifPending() {
		if i > 0 {
			sb.WriteByte(',')
		}
		fmt.Fprintf(&sb, "%d:%d:%d", peerNo(e.Id), hashNo(e.Hash), r.ms(e.Time))
	}
	act := l.tracker.VerifActive()
	var hs []int
	for h := range act {
		hs = append(hs, hashNo(h))
	}
	sort.Ints(hs)
	sb.WriteString(" act=")
	for i, h := range hs {
		if i > 0 {
			sb.WriteByte(',')
		}
		fmt.Fprintf(&sb, "%d:%d", h, r.ms(act[hashOf(h)]))
	}
	hs = hs[:0]
	for h := range l.hashes {
		hs = append(hs, h)
	}
	sort.Ints(hs)
	sb.WriteString(" held=")
	first := true
	for _, h := range hs {
		if l.holder.Has(hashOf(h)) {
			if !first {
				sb.WriteByte(',')
			}
			first = false
			fmt.Fprintf(&sb, "%d", h)
		}
	}
	sb.WriteString(" cnt=")
	first = true
	for _, h := range hs {
		if c, ok := r.mgr.VerifCounter(l.typ, hashOf(h)); ok {
			if !first {
				sb.WriteByte(',')
			}
			first = false
			fmt.Fprintf(&sb, "%d:%d", h, c)
		}
	}
	sb.WriteString(" q=")
	for i, q := range l.fifo {
		if i > 0 {
			sb.WriteByte(',')
		}
		fmt.Fprintf(&sb, "%d:%d", peerNo(q.Id), hashNo(q.Hash))
	}
	lw, gw := r.wakes(l)
	fmt.Fprintf(&sb, " loop=%d gc=%d", lw, gw)
	return sb.String()
}
