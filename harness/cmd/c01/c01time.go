package main

// C01time: the next validation time must not depend on the host's time zone (F1).
//
// The harness evaluates the REAL config.ValidationConfig.GetNextValidationTime and common.NormalizedEpochDuration for a
// grid of instants (every weekday, hours around midnight and around 13:30/15:00 UTC) × zones (fixed offsets −12h…+14h,
// half-hour zones, Asia/Tokyo, Pacific/Auckland, America/Los_Angeles with their DST, UTC, time.Local) × network sizes ×
// Upgrade12 on/off, handing the function the instant as t.In(zone) — exactly what time.Unix(ts, 0) is on a host living
// in that zone.  Op line: `nvt <ts> <zone offset at ts> <n> <baseEpochDays from the real NetworkParams> <u12> <interval>`,
// implementation answer `<days> <next unix>`; the Lean model answers with `nextValidation_fixed`, which ignores the offset.
// `np <n>` lines compare the float formula round(n^0.33) (and the round(n^0.33/21)*21 clause) with the model's integer
// formula over a dense domain.
//
// Independent oracle: for each (ts, n, u12, interval) the real answers must be identical across all zones —
// failure signature C01:timezone-next-validation-time.
import (
	"encoding/json"
	"fmt"
	"math"
	"os"
	"sort"
	"time"
	_ "time/tzdata"

	"github.com/idena-network/idena-go/common"
	"github.com/idena-network/idena-go/config"

	"verifharness/internal/hx"
)

type c01zone struct {
	name string
	loc  *time.Location
}

type c01timeCase struct {
	Kind     string `json:"kind"` // "nvt"
	Ts       int64  `json:"ts"`
	N        int    `json:"n"`
	U12      bool   `json:"u12"`
	Interval int64  `json:"interval_s"`
	ZoneA    string `json:"zone_a,omitempty"`
	ZoneB    string `json:"zone_b,omitempty"`
}

func c01zones() ([]c01zone, error) {
	var zs []c01zone
	zs = append(zs, c01zone{"UTC", time.UTC})
	for h := -12; h <= 14; h++ {
		if h == 0 {
			continue
		}
		zs = append(zs, c01zone{fmt.Sprintf("fixed%+dh", h), time.FixedZone(fmt.Sprintf("F%+d", h), h*3600)})
	}
	for _, m := range []int{330, 345, -210, 765} { // +5:30, +5:45, −3:30, +12:45
		zs = append(zs, c01zone{fmt.Sprintf("fixed%+dm", m), time.FixedZone(fmt.Sprintf("M%+d", m), m*60)})
	}
	for _, name := range []string{"Asia/Tokyo", "Pacific/Auckland", "America/Los_Angeles", "Europe/London", "Australia/Lord_Howe"} {
		loc, err := time.LoadLocation(name)
		if err != nil {
			return nil, fmt.Errorf("LoadLocation(%s): %v", name, err)
		}
		zs = append(zs, c01zone{name, loc})
	}
	zs = append(zs, c01zone{"time.Local", time.Local})
	return zs, nil
}

// c01timeEval runs the real code for one (instant, network size, upgrade flag, interval) in every zone, writes the
// protocol lines and applies the cross-zone oracle.
func c01timeEval(c *hx.Ctx, zones []c01zone, cs c01timeCase) {
	type res struct {
		zone       string
		days, next int64
		panicked   bool
	}
	var all []res
	base, _ := common.NetworkParams(cs.N)
	u := 0
	if cs.U12 {
		u = 1
	}
	c.Line(fmt.Sprintf("new nvt ts=%d n=%d u12=%d", cs.Ts, cs.N, u), "ok")
	for _, z := range zones {
		t := time.Unix(cs.Ts, 0).In(z.loc)
		_, off := t.Zone()
		r := res{zone: z.name}
		func() {
			defer func() {
				if e := recover(); e != nil {
					r.panicked = true
				}
			}()
			cfg := &config.ValidationConfig{ValidationInterval: time.Duration(cs.Interval) * time.Second}
			r.days = int64(common.NormalizedEpochDuration(t, cs.N, cs.U12) / (24 * time.Hour))
			r.next = cfg.GetNextValidationTime(t, cs.N, cs.U12).Unix()
		}()
		ans := fmt.Sprintf("%d %d", r.days, r.next)
		if r.panicked {
			ans = "panic"
		}
		c.Line(fmt.Sprintf("nvt %d %d %d %d %d %d", cs.Ts, off, cs.N, base, u, cs.Interval), ans)
		all = append(all, r)
		c.Rep.Evaluations++
	}
	for _, r := range all[1:] {
		if r.days != all[0].days || r.next != all[0].next || r.panicked != all[0].panicked {
			bad := cs
			bad.Kind, bad.ZoneA, bad.ZoneB = "nvt", all[0].zone, r.zone
			c.Fail("C01:timezone-next-validation-time",
				fmt.Sprintf("validation at unix %d (%s), network size %d, upgrade12=%v: host in %s schedules the next validation at %d (%d days), host in %s at %d (%d days) — NextValidationTime enters the state root",
					cs.Ts, time.Unix(cs.Ts, 0).UTC().Format("Mon 2006-01-02 15:04 UTC"), cs.N, cs.U12, all[0].zone, all[0].next, all[0].days, r.zone, r.next, r.days), bad)
			break
		}
	}
	wd := time.Unix(cs.Ts, 0).UTC().Weekday().String()
	c.Hit("weekday:" + wd)
	c.Hit(fmt.Sprintf("base<7:%v base>=21:%v u12:%v", base < 7, base >= 21, cs.U12))
	c.Distinct(fmt.Sprintf("%d/%d/%v/%d", cs.Ts, cs.N, cs.U12, cs.Interval))
}

// satDays evaluates the float clause of NormalizedEpochDuration's last line through the real function
// (a Saturday, Upgrade12 off, base >= 21).
func c01satDays(n int) int64 {
	sat := time.Date(2023, 1, 7, 15, 0, 0, 0, time.UTC)
	return int64(common.NormalizedEpochDuration(sat, n, false) / (24 * time.Hour))
}

func c01npLine(c *hx.Ctx, n int) {
	base, _ := common.NetworkParams(n)
	ans := fmt.Sprintf("%d -", base)
	if base >= 21 {
		ans = fmt.Sprintf("%d %d", base, c01satDays(n))
	}
	c.Line(fmt.Sprintf("np %d", n), ans)
	c.Rep.Evaluations++
}

func c01time(c *hx.Ctx) error {
	zones, err := c01zones()
	if err != nil {
		return err
	}
	if c.Replay != "" {
		b, err := os.ReadFile(c.Replay)
		if err != nil {
			return err
		}
		var wrap struct {
			Replay c01timeCase `json:"replay"`
		}
		if err := json.Unmarshal(b, &wrap); err != nil || wrap.Replay.Kind != "nvt" {
			return nil // a replay of another C01 channel
		}
		c01timeEval(c, zones, wrap.Replay)
		return nil
	}
	// network sizes: both sides of every clause boundary of NormalizedEpochDuration (base 7, 18, 21, 25, float clause 31.5)
	sizes := []int{0, 1, 2, 10, 100, 300, 400, 1000, 3000, 9000}
	for _, d := range []float64{6.5, 17.5, 20.5, 24.5, 31.5, 45} {
		nb := int(math.Pow(d, 1/0.33))
		sizes = append(sizes, nb-2, nb, nb+3)
	}
	sort.Ints(sizes)
	// instants: every weekday of three weeks in different years/seasons, hours around midnight and around the 13:30 rule
	var instants []int64
	for _, start := range []time.Time{time.Date(2023, 1, 1, 0, 0, 0, 0, time.UTC), time.Date(2026, 6, 28, 0, 0, 0, 0, time.UTC),
		time.Date(2030, 3, 24, 0, 0, 0, 0, time.UTC), time.Date(2024, 11, 3, 0, 0, 0, 0, time.UTC)} { // the last two straddle DST switches
		for d := 0; d < 7; d++ {
			for _, hm := range [][2]int{{0, 0}, {0, 30}, {1, 59}, {4, 0}, {9, 59}, {11, 0}, {12, 0}, {13, 30}, {14, 0}, {15, 0}, {17, 30}, {20, 15}, {22, 0}, {23, 0}, {23, 59}} {
				instants = append(instants, start.AddDate(0, 0, d).Add(time.Duration(hm[0])*time.Hour+time.Duration(hm[1])*time.Minute).Unix())
			}
		}
	}
	instants = append(instants, 0, -1, -86400*3-1, 1673103600 /* F1 witness: Sat 2023-01-07 15:00 UTC */, 1<<31+12345)
	// targeted first: the F1 shape on every clause (Saturday afternoon UTC = Sunday in the east, Saturday night UTC−x = Friday/Saturday)
	done := 0
	for _, n := range sizes {
		for _, u12 := range []bool{true, false} {
			c01timeEval(c, zones, c01timeCase{Ts: 1673103600, N: n, U12: u12})
			done++
		}
	}
	c01timeEval(c, zones, c01timeCase{Ts: 1673103600, N: 3000, U12: true, Interval: 3600})
	total := c.Scale(900, len(instants)*len(sizes)*2)
	if c.Tier == "thorough" {
		for _, ts := range instants {
			for _, n := range sizes {
				for _, u12 := range []bool{true, false} {
					c01timeEval(c, zones, c01timeCase{Ts: ts, N: n, U12: u12})
				}
			}
		}
	} else {
		for ; done < total; done++ {
			cs := c01timeCase{Ts: instants[c.Rng.Intn(len(instants))], N: sizes[c.Rng.Intn(len(sizes))], U12: c.Rng.Intn(3) != 0}
			if c.Rng.Intn(40) == 0 {
				cs.Interval = int64(1 + c.Rng.Intn(100000))
			}
			if c.Rng.Intn(10) == 0 { // any second of 2020–2035
				cs.Ts = 1577836800 + c.Rng.Int63n(15*366*86400)
			}
			c01timeEval(c, zones, cs)
		}
	}
	// table: the float formula against the model's integer formula
	c.Line("new np", "ok")
	dense := c.Scale(60000, 2000000)
	for n := 0; n <= dense; n++ {
		c01npLine(c, n)
	}
	for d := 1; d <= 400; d++ { // both sides of every rounding boundary (d+0.5)^(1/0.33) up to epochs of 400 days
		nb := int(math.Pow(float64(d)+0.5, 1/0.33))
		for n := nb - 3; n <= nb+3; n++ {
			if n > dense {
				c01npLine(c, n)
			}
		}
	}
	for i := 0; i < c.Scale(2000, 200000); i++ {
		c01npLine(c, dense+c.Rng.Intn(1<<31-dense))
	}
	c.Rep.Rule = fmt.Sprintf("real GetNextValidationTime/NormalizedEpochDuration on (instant, size, upgrade12[, interval]) × %d zones (fixed −12h…+14h, half-hour zones, 5 tz-database zones with DST, UTC, time.Local): all weekdays × 15 times of day × 4 weeks, %d network sizes on both sides of every clause boundary; plus the table of NetworkParams / the float clause against the integer formula for every n ≤ %d, every rounding boundary up to 400 days, random n < 2^31", len(zones), len(sizes), dense)
	c.Sample(c01timeCase{Kind: "nvt", Ts: 1673103600, N: 3000, U12: true})
	return nil
}

func init() {
	hx.Register("C01time", c01time)
}
