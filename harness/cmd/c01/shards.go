package main

// C01shards: common.CalculateShardsNumber (the number of shards after an epoch) against the Lean model, on the boundaries of
// every regime (k·min·c and k·max·c ± 1 for the shard counts in use) and on random inputs.
import (
	"fmt"
	"go/ast"
	"go/parser"
	"go/token"
	"os"
	"path/filepath"
	"strings"

	"github.com/idena-network/idena-go/common"

	"verifharness/internal/hx"
)

// nodeStartSequence: the calls on the node's components inside StartWithHeight, in source order.
func nodeStartSequence() (string, error) {
	repo := os.Getenv("VERIF_REPO")
	if repo == "" {
		repo = "/repo"
	}
	fset := token.NewFileSet()
	// every source file of the package: the start-up function and the node's methods may live in any of them
	names, _ := filepath.Glob(filepath.Join(repo, "node", "*.go"))
	var decls []ast.Decl
	for _, name := range names {
		if strings.HasSuffix(name, "_test.go") {
			continue
		}
		pf, err := parser.ParseFile(fset, name, nil, 0)
		if err != nil {
			return "", err
		}
		decls = append(decls, pf.Decls...)
	}
	f := &ast.File{Decls: decls}
	// methods of *Node declared in node.go: a call `node.m()` of one of them is replaced by the calls its body makes, so
	// that moving a part of the start-up into a helper method (or back) leaves the sequence unchanged
	methods := map[string]*ast.FuncDecl{}
	for _, d := range f.Decls {
		if fd, ok := d.(*ast.FuncDecl); ok && fd.Recv != nil && fd.Body != nil {
			methods[fd.Name.Name] = fd
		}
	}
	var calls []string
	found := false
	var collect func(body ast.Node, depth int)
	collect = func(body ast.Node, depth int) {
		ast.Inspect(body, func(n ast.Node) bool {
			c, ok := n.(*ast.CallExpr)
			if !ok {
				return true
			}
			se, ok := c.Fun.(*ast.SelectorExpr)
			if !ok {
				return true
			}
			var parts []string
			var walk func(e ast.Expr)
			walk = func(e ast.Expr) {
				switch x := e.(type) {
				case *ast.SelectorExpr:
					walk(x.X)
					parts = append(parts, x.Sel.Name)
				case *ast.Ident:
					parts = append(parts, x.Name)
				}
			}
			walk(se)
			if len(parts) == 2 && parts[0] == "node" && depth < 4 {
				if m, ok := methods[parts[1]]; ok {
					for _, a := range c.Args {
						collect(a, depth)
					}
					collect(m.Body, depth+1)
					return false
				}
			}
			if len(parts) >= 2 && parts[0] == "node" && parts[1] != "log" && parts[1] != "config" {
				calls = append(calls, strings.Join(parts[1:], "."))
			}
			return true
		})
	}
	for _, d := range f.Decls {
		fd, ok := d.(*ast.FuncDecl)
		if !ok || fd.Name.Name != "StartWithHeight" || fd.Body == nil {
			continue
		}
		found = true
		collect(fd.Body, 0)
	}
	if !found {
		return "", fmt.Errorf("StartWithHeight not found in package node")
	}
	return strings.Join(calls, ","), nil
}

func init() {
	hx.Register("C01shards", func(c *hx.Ctx) error {
		c.Rep.Rule = "CalculateShardsNumber(min, max, networkSize, currentShards): the protocol constants (2400, 5000) and small / skewed (min, max) pairs; current shards 1..64 (powers of two and others); network sizes on every boundary min·c·2^j ± 1, max·c·2^j ± 1 and random; distinct = distinct input tuples"
		c.Line("new", "ok")
		// the start-up sequence of the node (node.StartWithHeight), re-extracted from node/node.go: the harness' chainfx.Start
		// re-states it on an injected database; a change of the node's own sequence has to be looked at
		seq, err := nodeStartSequence()
		if err != nil {
			return err
		}
		c.Line("fact node-start-sequence "+seq, "matches-chainfx-start")
		try := func(mi, ma, n, cur int) {
			if n < 0 || cur < 1 || ma < 1 || mi < 0 || n > 50000000 {
				return // cur = 0 does not terminate in the Go code (ShardsNum() never returns 0)
			}
			res := common.CalculateShardsNumber(mi, ma, n, cur)
			c.Line(fmt.Sprintf("shards %d %d %d %d", mi, ma, n, cur), fmt.Sprintf("num %d", res))
			c.Rep.Evaluations++
			if c.Distinct(fmt.Sprint(mi, ma, n, cur)) {
				c.Rep.Distinct++
			}
			switch {
			case res > cur:
				c.Hit("shards-added")
			case res < cur:
				c.Hit("shards-removed")
			default:
				c.Hit("shards-kept")
			}
			// the statement of shardsNum_stable on the real function (power-of-two counts, 2·min < max)
			if 2*mi < ma && cur&(cur-1) == 0 {
				if again := common.CalculateShardsNumber(mi, ma, n, res); again != res {
					c.Fail("C01:shard-count-not-stable", fmt.Sprintf("CalculateShardsNumber(%d,%d,%d,%d) = %d but from %d shards it gives %d", mi, ma, n, cur, res, res, again), []int{mi, ma, n, cur})
				}
			}
		}
		pairs := [][2]int{{common.MinShardSize, common.MaxShardSize}, {3, 7}, {1, 3}, {10, 21}, {5, 5}, {7, 3}, {0, 4}, {100, 250}}
		for _, pr := range pairs {
			for cur := 1; cur <= 64; cur++ {
				if cur > 9 && cur&(cur-1) != 0 && cur%7 != 0 {
					continue
				}
				for j := 0; j < 7; j++ {
					for _, base := range []int{pr[0] * cur, pr[1] * cur} {
						for d := -1; d <= 1; d++ {
							try(pr[0], pr[1], (base<<uint(j))+d, cur)
							try(pr[0], pr[1], (base>>uint(j))+d, cur)
						}
					}
				}
			}
		}
		n := c.Scale(3000, 200000)
		for i := 0; i < n; i++ {
			pr := pairs[c.Rng.Intn(len(pairs))]
			try(pr[0], pr[1], c.Rng.Intn(1+pr[1]*c.Rng.Intn(200)), 1<<uint(c.Rng.Intn(7)))
		}
		return nil
	})
}
