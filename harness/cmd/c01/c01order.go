package main

// C01order: the sorted-before-use idioms, the contract-store iteration and the epoch-result application of the REAL code
// against the Lean model (Model/Determinism.lean), on generated inputs.
//
//	sortaddr   real sortAddresses (blockchain.go:1343)                         ↔ isort
//	committee  real prepareBlockRewardCtx committee order (blockchain.go:538)  ↔ isort
//	precommit  real StateDB.Precommit diff sequence (statedb.go:1336)          ↔ precommitOps
//	idpre      real IdentityStateDB.Precommit diff sequence                    ↔ commitOps
//	iter       real StateDB.IterateContractStore callback trace, same-block cache over committed tree, early stop ↔ iterateFixed
//	epoch      real applyOnState applied in a given order to delegation chains ↔ applyEpoch (same order)
//
// Independent oracle (no model involved): every real computation is done TWICE on freshly built inputs — Go gives each
// map its own random iteration seed — and the two results must be identical (signature C01:map-order-dependence:<what>);
// a commit sequence must be strictly descending per kind and a sorted slice ascending (C01:unsorted:<what>).
import (
	"bytes"
	"encoding/json"
	"fmt"
	"math/big"
	"os"
	"sort"
	"strings"

	mapset "github.com/deckarep/golang-set"
	"github.com/idena-network/idena-go/blockchain"
	"github.com/idena-network/idena-go/common"
	"github.com/idena-network/idena-go/common/eventbus"
	"github.com/idena-network/idena-go/config"
	"github.com/idena-network/idena-go/core/appstate"
	"github.com/idena-network/idena-go/core/ceremony"
	"github.com/idena-network/idena-go/core/state"
	"github.com/idena-network/idena-go/core/validators"
	"github.com/idena-network/idena-go/crypto"
	dbm "github.com/tendermint/tm-db"

	"verifharness/internal/hx"
)

type c01orderCase struct {
	Kind string `json:"kind"` // sortaddr | committee | precommit | idpre | iter | epoch
	// sortaddr / committee: addresses (hex, 20 bytes)
	Addrs []string `json:"addrs,omitempty"`
	// precommit: per kind, keys with an "empty" flag
	Acc   []c01key `json:"acc,omitempty"`
	Ids   []c01key `json:"ids,omitempty"`
	Store []c01key `json:"store,omitempty"`
	Burnt []c01key `json:"burnt,omitempty"`
	Code  []string `json:"code,omitempty"` // contract codes (hex)
	// iter: committed tree keys, same-block cache entries, stop key (hex, 4-byte keys)
	Tree  []string `json:"tree,omitempty"`
	Cache []c01key `json:"cache,omitempty"`
	Stop  string   `json:"stop,omitempty"`
	// epoch
	U10    bool        `json:"u10,omitempty"`
	Epoch  uint16      `json:"epoch,omitempty"`
	Order  []int       `json:"order,omitempty"`
	People []c01person `json:"people,omitempty"`
}

type c01key struct {
	K     string `json:"k"`     // hex
	Empty bool   `json:"empty"` // object ends up empty / value removed
}

type c01person struct {
	Id        int  `json:"id"`        // address = 20 bytes big-endian of Id
	Deleg     int  `json:"deleg"`     // 0 = none
	DelegEp   int  `json:"deleg_epoch"`
	Pending   bool `json:"pending"`
	Validated bool `json:"validated"` // new state NewbieOrBetter
	PrevNonV  bool `json:"prev_nonv"` // previous state Suspended/Zombie/Candidate
}

func c01nat(b []byte) string { return new(big.Int).SetBytes(b).String() }

func c01hexb(s string) []byte {
	b := common.FromHex(s)
	return b
}

func c01addr(id int) common.Address {
	var a common.Address
	a[16], a[17], a[18], a[19] = byte(id>>24), byte(id>>16), byte(id>>8), byte(id)
	return a
}

func c01flagged(ks []c01key) string {
	if len(ks) == 0 {
		return "-"
	}
	var parts []string
	for _, k := range ks {
		p := c01nat(c01hexb(k.K))
		if k.Empty {
			p += "!"
		}
		parts = append(parts, p)
	}
	return strings.Join(parts, ",")
}

func c01join(parts []string) string {
	if len(parts) == 0 {
		return "-"
	}
	return strings.Join(parts, ",")
}

// ---- real-code evaluations (each builds everything afresh, so that every Go map gets a new iteration seed) ----

func c01realSortAddr(cs c01orderCase) string {
	set := mapset.NewSet()
	for _, a := range cs.Addrs {
		set.Add(common.BytesToAddress(c01hexb(a)))
	}
	var parts []string
	for _, a := range blockchain.VerifC01SortAddresses(set) {
		parts = append(parts, c01nat(a[:]))
	}
	return c01join(parts)
}

func c01newApp() (*appstate.AppState, error) {
	app, err := appstate.NewAppState(dbm.NewMemDB(), eventbus.New())
	if err != nil {
		return nil, err
	}
	if err := app.Initialize(0); err != nil {
		return nil, err
	}
	return app, nil
}

func c01realCommittee(cs c01orderCase) (string, string, error) {
	app, err := c01newApp()
	if err != nil {
		return "", "", err
	}
	set := mapset.NewSet()
	for i, a := range cs.Addrs {
		ad := common.BytesToAddress(c01hexb(a))
		app.State.AddStake(ad, new(big.Int).Mul(big.NewInt(int64(1+(i*7919)%977)), common.DnaBase))
		set.Add(ad)
	}
	conf := config.GetDefaultConsensusConfig()
	order, total := blockchain.VerifC01CommitteeOrder(c01addr(1), app, &validators.StepValidators{Original: set, Validators: set, ApprovedValidators: set}, conf)
	var parts []string
	for _, a := range order {
		parts = append(parts, c01nat(a[:]))
	}
	return c01join(parts), total, nil
}

func c01kindOfKey(key []byte) (int, []byte, bool) {
	if len(key) == 0 {
		return 0, nil, false
	}
	switch key[0] {
	case 0x1:
		return 0, key[1:], true
	case 0x2:
		return 1, key[1:], true
	case 0x5:
		return 2, key[1:], true
	case 0x8:
		return 3, key[1:], true
	case 0x9:
		return 4, key[1:], true
	}
	return 0, nil, false
}

func c01realPrecommit(cs c01orderCase) (string, error) {
	s, err := state.NewLazy(dbm.NewMemDB())
	if err != nil {
		return "", err
	}
	if err := s.Load(0); err != nil {
		return "", err
	}
	for _, k := range cs.Acc {
		a := common.BytesToAddress(c01hexb(k.K))
		if k.Empty {
			s.SetBalance(a, big.NewInt(5))
			s.SetBalance(a, big.NewInt(0))
		} else {
			s.SetBalance(a, big.NewInt(7))
		}
	}
	for _, k := range cs.Ids {
		a := common.BytesToAddress(c01hexb(k.K))
		if k.Empty {
			s.SetState(a, state.Killed)
		} else {
			s.SetState(a, state.Verified)
		}
	}
	for _, k := range cs.Store {
		kb := c01hexb(k.K) // contract address (20) + key (4)
		a := common.BytesToAddress(kb[:20])
		if k.Empty {
			s.RemoveContractValue(a, kb[20:])
		} else {
			s.SetContractValue(a, kb[20:], []byte{1, 2, 3})
		}
	}
	for _, k := range cs.Burnt {
		h := new(big.Int).SetBytes(c01hexb(k.K)).Uint64()
		s.AddBurntCoins(h, c01addr(9), "k", big.NewInt(3))
	}
	for i, code := range cs.Code {
		s.DeployWasmContract(c01addr(1000+i), c01hexb(code))
	}
	var parts []string
	for _, d := range s.Precommit(true) {
		kind, rest, ok := c01kindOfKey(d.Key)
		if !ok {
			continue
		}
		op := "s"
		if d.Deleted {
			op = "r"
		}
		parts = append(parts, fmt.Sprintf("%d:%s:%s", kind, c01nat(rest), op))
	}
	return c01join(parts), nil
}

func c01realIdPre(cs c01orderCase) (string, error) {
	s, err := state.NewLazyIdentityState(dbm.NewMemDB())
	if err != nil {
		return "", err
	}
	if err := s.Load(0); err != nil {
		return "", err
	}
	for _, k := range cs.Ids {
		a := common.BytesToAddress(c01hexb(k.K))
		if k.Empty {
			s.SetValidated(a, true)
			s.SetValidated(a, false)
		} else {
			s.SetValidated(a, true)
		}
	}
	var parts []string
	for _, v := range s.Precommit(true).Values {
		op := "s"
		if v.Deleted {
			op = "r"
		}
		parts = append(parts, fmt.Sprintf("5:%s:%s", c01nat(v.Address[:]), op))
	}
	return c01join(parts), nil
}

func c01realIter(cs c01orderCase) (string, error) {
	s, err := state.NewLazy(dbm.NewMemDB())
	if err != nil {
		return "", err
	}
	if err := s.Load(0); err != nil {
		return "", err
	}
	contract := c01addr(77)
	other := c01addr(78)
	for _, k := range cs.Tree {
		s.SetContractValue(contract, c01hexb(k), []byte{9})
	}
	s.SetContractValue(other, []byte{0, 0, 0, 1}, []byte{9}) // a neighbour contract's data must never show up
	if _, _, _, err := s.Commit(true); err != nil {
		return "", err
	}
	for _, k := range cs.Cache {
		if k.Empty {
			s.RemoveContractValue(contract, c01hexb(k.K))
		} else {
			s.SetContractValue(contract, c01hexb(k.K), []byte{8})
		}
	}
	s.SetContractValue(other, []byte{0, 0, 0, 2}, []byte{8})
	var parts []string
	stop := c01hexb(cs.Stop)
	s.IterateContractStore(contract, nil, nil, func(key []byte, value []byte) bool {
		parts = append(parts, c01nat(key))
		return cs.Stop != "" && bytes.Equal(key, stop)
	})
	return c01join(parts), nil
}

func c01personState(p c01person) string {
	d := "-"
	if p.Deleg != 0 {
		d = fmt.Sprint(p.Deleg)
	}
	pn := 0
	if p.Pending {
		pn = 1
	}
	return fmt.Sprintf("%d:%s:%d:%d:0", p.Id, d, p.DelegEp, pn)
}

func c01realEpoch(cs c01orderCase) (string, string, error) {
	app, err := c01newApp()
	if err != nil {
		return "", "", err
	}
	conf := config.GetDefaultConsensusConfig()
	conf.EnableUpgrade10 = cs.U10
	for i := 0; i < int(cs.Epoch); i++ {
		app.State.IncEpoch()
	}
	byId := map[int]c01person{}
	for _, p := range cs.People {
		byId[p.Id] = p
		a := c01addr(p.Id)
		app.State.SetState(a, state.Suspended)
		if p.Deleg != 0 {
			app.State.SetDelegatee(a, c01addr(p.Deleg))
			app.State.SetDelegationEpoch(a, uint16(p.DelegEp))
			if p.Pending {
				app.State.SetPendingUndelegation(a)
			}
		}
	}
	// the values are computed from the state before anything is applied (ceremony.go:1088-1190) …
	type val struct {
		newState, prev state.IdentityState
		deleg          *common.Address
	}
	vals := map[int]val{}
	var valParts []string
	for _, p := range cs.People {
		v := val{newState: state.Suspended, prev: state.Verified}
		if p.Validated {
			v.newState = state.Verified
		}
		if p.PrevNonV {
			v.prev = state.Suspended
		}
		idn0 := app.State.GetIdentity(c01addr(p.Id))
		v.deleg = idn0.Delegatee()
		vals[p.Id] = v
		d := "-"
		if v.deleg != nil {
			d = c01nat(v.deleg[:])
		}
		b := func(x bool) int {
			if x {
				return 1
			}
			return 0
		}
		valParts = append(valParts, fmt.Sprintf("%d:%d:%d:%s", p.Id, b(p.Validated), b(p.PrevNonV), d))
	}
	// … and applied in the given order
	for _, id := range cs.Order {
		v := vals[id]
		ceremony.VerifC01ApplyOnState(conf, app, cs.Epoch, c01addr(id), v.newState, v.prev, v.deleg)
	}
	var parts []string
	for _, p := range cs.People {
		idn := app.State.GetIdentity(c01addr(p.Id))
		d := "-"
		// raw delegatee field: visible through Delegatee() or, while pending, through PendingUndelegation()
		if x := idn.Delegatee(); x != nil {
			d = c01nat(x[:])
		} else if x := idn.PendingUndelegation(); x != nil {
			d = c01nat(x[:])
		}
		pn := 0
		if idn.PendingUndelegation() != nil {
			pn = 1
		}
		vd := 0
		if idn.State.NewbieOrBetter() {
			vd = 1
		}
		parts = append(parts, fmt.Sprintf("%d:%s:%d:%d:%d:%d", p.Id, d, idn.DelegationEpoch, pn, idn.UndelegationEpoch(), vd))
	}
	return c01join(parts), c01join(valParts), nil
}

// ---- emit one case: protocol line(s) + oracle ----

func c01orderEmit(c *hx.Ctx, cs c01orderCase) error {
	c.Line("new "+cs.Kind, "ok")
	twice := func(what string, f func() (string, error)) (string, error) {
		a, err := f()
		if err != nil {
			return "", err
		}
		for i := 0; i < 3; i++ {
			b, err := f()
			if err != nil {
				return "", err
			}
			if a != b {
				c.Fail("C01:map-order-dependence:"+what, fmt.Sprintf("two evaluations of the real %s on identically built inputs differ:\n  %s\n  %s", what, a, b), cs)
				break
			}
		}
		return a, nil
	}
	var natsOf = func(hexes []string) string {
		var p []string
		for _, h := range hexes {
			p = append(p, c01nat(c01hexb(h)))
		}
		return c01join(p)
	}
	sortedAsc := func(ans string) bool {
		if ans == "-" {
			return true
		}
		var prev *big.Int
		for _, t := range strings.Split(ans, ",") {
			x, _ := new(big.Int).SetString(t, 10)
			if prev != nil && prev.Cmp(x) > 0 {
				return false
			}
			prev = x
		}
		return true
	}
	switch cs.Kind {
	case "sortaddr":
		ans, err := twice("sortAddresses", func() (string, error) { return c01realSortAddr(cs), nil })
		if err != nil {
			return err
		}
		c.Line("isort "+natsOf(cs.Addrs), ans)
		if !sortedAsc(ans) {
			c.Fail("C01:unsorted:sortAddresses", ans, cs)
		}
	case "committee":
		var totals []string
		ans, err := twice("prepareBlockRewardCtx.committee", func() (string, error) {
			a, t, e := c01realCommittee(cs)
			totals = append(totals, t)
			return a, e
		})
		if err != nil {
			return err
		}
		c.Line("isort "+natsOf(cs.Addrs), ans)
		if !sortedAsc(ans) {
			c.Fail("C01:unsorted:committee", ans, cs)
		}
		for _, t := range totals[1:] {
			if t != totals[0] {
				c.Hit("F10:totalStakeWeight-last-bits-differ") // documented latent (F10): not a failure, no observable differs
				break
			}
		}
	case "precommit":
		ans, err := twice("StateDB.Precommit", func() (string, error) { return c01realPrecommit(cs) })
		if err != nil {
			return err
		}
		// the accounts of the deployed contracts are dirty accounts too
		acc := append([]c01key{}, cs.Acc...)
		var codeKeys []c01key
		for i, code := range cs.Code {
			a := c01addr(1000 + i)
			acc = append(acc, c01key{K: common.Bytes2Hex(a[:])})
			h := crypto.Hash(c01hexb(code))
			codeKeys = append(codeKeys, c01key{K: common.Bytes2Hex(h[:])})
		}
		c.Line(fmt.Sprintf("precommit %s %s %s %s %s", c01flagged(acc), c01flagged(cs.Ids), c01flagged(cs.Store), c01flagged(cs.Burnt), c01flagged(codeKeys)), ans)
		// independent: strictly descending within each kind, kinds in the fixed order
		if ans != "-" {
			lastKind, var_prev := -1, (*big.Int)(nil)
			for _, t := range strings.Split(ans, ",") {
				f := strings.Split(t, ":")
				var kind int
				fmt.Sscan(f[0], &kind)
				x, _ := new(big.Int).SetString(f[1], 10)
				if kind < lastKind || (kind == lastKind && var_prev.Cmp(x) <= 0) {
					c.Fail("C01:unsorted:Precommit", ans, cs)
					break
				}
				lastKind, var_prev = kind, x
			}
		}
	case "idpre":
		ans, err := twice("IdentityStateDB.Precommit", func() (string, error) { return c01realIdPre(cs) })
		if err != nil {
			return err
		}
		// the model's identity precommit is commitOps with kind 5; reuse the `precommit` op shape through isortdesc + flags
		c.Line("idprecommit "+c01flagged(cs.Ids), ans)
	case "iter":
		ans, err := twice("IterateContractStore", func() (string, error) { return c01realIter(cs) })
		if err != nil {
			return err
		}
		tree := append([]string{}, cs.Tree...)
		sort.Slice(tree, func(i, j int) bool { return bytes.Compare(c01hexb(tree[i]), c01hexb(tree[j])) < 0 })
		stop := "-"
		if cs.Stop != "" {
			stop = c01nat(c01hexb(cs.Stop))
		}
		c.Line(fmt.Sprintf("iter %s %s %s", stop, c01flagged(cs.Cache), natsOf(tree)), ans)
	case "epoch":
		var vals string
		ans, err := twice("applyOnState", func() (string, error) {
			a, v, e := c01realEpoch(cs)
			vals = v
			return a, e
		})
		if err != nil {
			return err
		}
		var st, ord []string
		for _, p := range cs.People {
			st = append(st, c01personState(p))
		}
		for _, id := range cs.Order {
			ord = append(ord, fmt.Sprint(id))
		}
		u := 0
		if cs.U10 {
			u = 1
		}
		c.Line(fmt.Sprintf("epoch %d %d %s %s %s", u, cs.Epoch, c01join(ord), c01join(st), vals), ans)
	default:
		return nil
	}
	c.Rep.Evaluations++
	c.Hit("kind:" + cs.Kind)
	return nil
}

// ---- generator ----

func c01randHex(c *hx.Ctx, n int, smallSpace bool) string {
	b := make([]byte, n)
	if smallSpace { // collisions in the high bytes, differences in the low ones
		b[n-1] = byte(c.Rng.Intn(256))
		if c.Rng.Intn(2) == 0 {
			b[0] = byte(c.Rng.Intn(3))
		}
	} else {
		c.Rng.Read(b)
	}
	return common.Bytes2Hex(b)
}

func c01distinct(c *hx.Ctx, n, size int) []string {
	seen := map[string]bool{}
	var out []string
	small := c.Rng.Intn(3) == 0
	for len(out) < n {
		h := c01randHex(c, size, small)
		if !seen[h] {
			seen[h] = true
			out = append(out, h)
		}
	}
	return out
}

func c01keys(c *hx.Ctx, hexes []string) []c01key {
	var out []c01key
	for _, h := range hexes {
		out = append(out, c01key{K: h, Empty: c.Rng.Intn(3) == 0})
	}
	return out
}

func c01orderGen(c *hx.Ctx, i int) c01orderCase {
	switch i % 6 {
	case 0:
		return c01orderCase{Kind: "sortaddr", Addrs: c01distinct(c, c.Rng.Intn(40), 20)}
	case 1:
		return c01orderCase{Kind: "committee", Addrs: c01distinct(c, 1+c.Rng.Intn(30), 20)}
	case 2:
		cs := c01orderCase{Kind: "precommit"}
		cs.Acc = c01keys(c, c01distinct(c, c.Rng.Intn(12), 20))
		cs.Ids = c01keys(c, c01distinct(c, c.Rng.Intn(12), 20))
		contracts := c01distinct(c, 1+c.Rng.Intn(3), 20)
		for _, k := range c01distinct(c, c.Rng.Intn(10), 4) {
			cs.Store = append(cs.Store, c01key{K: contracts[c.Rng.Intn(len(contracts))] + k, Empty: c.Rng.Intn(3) == 0})
		}
		for _, k := range c01distinct(c, c.Rng.Intn(5), 8) {
			cs.Burnt = append(cs.Burnt, c01key{K: k})
		}
		cs.Code = c01distinct(c, c.Rng.Intn(4), 6)
		return cs
	case 3:
		return c01orderCase{Kind: "idpre", Ids: c01keys(c, c01distinct(c, c.Rng.Intn(20), 20))}
	case 4:
		cs := c01orderCase{Kind: "iter"}
		pool := c01distinct(c, 2+c.Rng.Intn(12), 4)
		for _, k := range pool {
			r := c.Rng.Intn(4)
			if r == 0 || r == 1 { // committed
				cs.Tree = append(cs.Tree, k)
			}
			if r == 1 || r == 2 || r == 3 { // written or removed in the same block
				cs.Cache = append(cs.Cache, c01key{K: k, Empty: c.Rng.Intn(4) == 0})
			}
		}
		if c.Rng.Intn(2) == 0 {
			cs.Stop = pool[c.Rng.Intn(len(pool))]
		}
		return cs
	default:
		cs := c01orderCase{Kind: "epoch", U10: c.Rng.Intn(5) != 0, Epoch: uint16(5 + c.Rng.Intn(20))}
		n := 2 + c.Rng.Intn(6)
		for id := 1; id <= n; id++ {
			p := c01person{Id: id, Validated: c.Rng.Intn(5) != 0, PrevNonV: c.Rng.Intn(5) != 0}
			switch c.Rng.Intn(4) {
			case 0: // chain i → i+1
				if id < n {
					p.Deleg = id + 1
				}
			case 1, 2: // anybody else (cycles included)
				if d := 1 + c.Rng.Intn(n); d != id {
					p.Deleg = d
				}
			}
			if p.Deleg != 0 {
				p.DelegEp = 1 + c.Rng.Intn(4)
				p.Pending = c.Rng.Intn(8) == 0
			}
			cs.People = append(cs.People, p)
		}
		if c.Rng.Intn(3) == 0 { // the F8 shape: one long chain, everybody promoted
			for k := range cs.People {
				cs.People[k].Validated, cs.People[k].PrevNonV, cs.People[k].Pending = true, true, false
				cs.People[k].Deleg, cs.People[k].DelegEp = 0, 0
				if k+1 < len(cs.People) {
					cs.People[k].Deleg, cs.People[k].DelegEp = cs.People[k+1].Id, 2
				}
			}
		}
		cs.Order = c.Rng.Perm(n)
		for k := range cs.Order {
			cs.Order[k]++
		}
		return cs
	}
}

func c01order(c *hx.Ctx) error {
	if c.Replay != "" {
		b, err := os.ReadFile(c.Replay)
		if err != nil {
			return err
		}
		var wrap struct {
			Replay c01orderCase `json:"replay"`
		}
		if err := json.Unmarshal(b, &wrap); err != nil {
			return nil
		}
		return c01orderEmit(c, wrap.Replay)
	}
	n := c.Scale(1500, 60000)
	for i := 0; i < n; i++ {
		cs := c01orderGen(c, i)
		if err := c01orderEmit(c, cs); err != nil {
			return err
		}
		key, _ := json.Marshal(cs)
		nontrivial := len(cs.Addrs) > 1 || len(cs.Acc)+len(cs.Ids)+len(cs.Store) > 1 || len(cs.Cache) > 1 || len(cs.Order) > 1
		if nontrivial {
			c.Distinct(string(key))
		}
		if i < 6 {
			c.Sample(cs)
		}
	}
	c.Rep.Rule = "real sortAddresses / prepareBlockRewardCtx / StateDB.Precommit / IdentityStateDB.Precommit / StateDB.IterateContractStore / applyOnState on generated key sets (random 20-byte addresses and clustered ones, empty and non-empty objects, same-block cache over committed tree with removals and early stop, delegation graphs incl. chains and cycles applied in random orders); every real computation repeated 4× on freshly built maps; distinct = cases with at least two keys"
	return nil
}

func init() {
	hx.Register("C01order", c01order)
}
