package main

// C01 (replica differential): the state transition must not depend on anything node-local.
// One generator process per history produces blocks with the real code (and proposes every block twice on the same head:
// all derived header fields must be equal).  Follower processes — one per environment: host time zone (TZ of the
// process), wall-clock skew, restart from the database every k blocks, reorg-and-return every k blocks, repetitions (Go's
// random map iteration) — insert the same blocks with the real AddBlock (which recomputes roots, flags, receipts and
// compares them with the header) and trace (root, identity root, next validation time, epoch, fee rate) per height.
// Any rejection or any trace difference is a violation.
import (
	"hash/fnv"
	"bufio"
	"encoding/hex"
	"encoding/json"
	"fmt"
	"math/rand"
	"os"
	"os/exec"
	"path/filepath"
	"sort"
	"strings"
	"sync"
	"time"

	"github.com/idena-network/idena-go/blockchain/types"
	"github.com/idena-network/idena-go/blockchain/validation"
	"github.com/idena-network/idena-go/common"
	"github.com/idena-network/idena-go/config"
	"github.com/idena-network/idena-go/core/appstate"
	"github.com/idena-network/idena-go/core/ceremony"
	"github.com/idena-network/idena-go/core/state"
	"github.com/idena-network/idena-go/crypto"
	"github.com/idena-network/idena-go/ipfs"
	dbm "github.com/tendermint/tm-db"

	"verifharness/internal/chainfx"
	"verifharness/internal/hx"
	"verifharness/internal/pairfx"
)

type c01params struct {
	Mode         string `json:"mode"` // gen | follow
	Seed         int64  `json:"seed"`
	Blocks       int    `json:"blocks"`
	TzScenario   bool   `json:"tz_scenario"` // 400 dummy identities, default epoch normalisation, Saturday 14:50 UTC start
	BlocksFile   string `json:"blocks_file"`
	TraceFile    string `json:"trace_file"`
	RestartEvery int    `json:"restart_every"`
	DBDir        string `json:"db_dir"`   // follower: directory of its on-disk database (a restart is a new process over it)
	StartAt      int    `json:"start_at"` // follower: lines of the blocks file already consumed by earlier processes
	Seg          int    `json:"seg"`      // follower: number of this process in the follower's life
	Batch        int    `json:"batch"`    // follower: > 0: blocks are inserted on the full-sync route, in batches of this many on one check state
	Fork         int    `json:"fork"`     // follower: 0 = skip side blocks; 1 = insert every side block, then reset to its parent; 2 = and restart right after the reset
	ReorgEvery   int    `json:"reorg_every"`
	SkewSec      int    `json:"skew_sec"`
	Label        string `json:"label"`
}

func c01world(p c01params) (*chainfx.World, chainfx.HistoryOpts) {
	if p.TzScenario {
		t0 := time.Date(2030, 1, 5, 14, 50, 0, 0, time.UTC) // a Saturday
		w := chainfx.NewWorld(p.Seed, 8, 400, t0)
		w.Opts.Validation = &config.ValidationConfig{FlipLotteryDuration: 2 * time.Minute, ShortSessionDuration: time.Minute, LongSessionDuration: 2 * time.Minute}
		w.Opts.FirstCeremony = t0.Add(8 * time.Minute).Unix()
		// nobody takes part: the validation fails, all 409 identities stay, and the next validation time is normalised by weekday
		return w, chainfx.HistoryOpts{TxPerBlock: 3, Participate: -1}
	}
	// genesis identities that can survive their first ceremonies (a genesis Verified has no flip history and is killed by the
	// first qualified one): Humans (authors with extra flips), Suspended / Zombie (come back as Verified), candidates, newbies
	w := chainfx.NewWorldStates(p.Seed, 10, 0, time.Date(2030, 1, 1, 0, 0, 0, 0, time.UTC), state.Human,
		[]state.IdentityState{state.Human, state.Human, state.Suspended, state.Zombie, state.Newbie, state.Candidate, state.Human, state.Suspended, state.Candidate, state.Newbie})
	// epochs of 18 minutes (54 blocks): several validation ceremonies within one history, the later ones with flips
	w.Opts.Validation = &config.ValidationConfig{ValidationInterval: 18 * time.Minute, FlipLotteryDuration: 2 * time.Minute,
		ShortSessionDuration: time.Minute, LongSessionDuration: 2 * time.Minute}
	w.Opts.FirstCeremony = w.T0.Add(8 * time.Minute).Unix()
	// key holders without identity (fresh or terminated) are invited and activate; every other history starts as a network
	// of three equally sized shards (ties for the minimal shard, per-shard lotteries)
	w.AddFresh(4)
	if p.Seed%2 == 1 {
		w.Sharded(3)
	}
	return w, chainfx.HistoryOpts{TxPerBlock: 4, WithFlips: true, MoreFlips: true, Onboard: true, OnlineAtOnce: true, Contracts: true, MoreTypes: true, Always: map[int]bool{0: true}}
}

func traceLine(n *chainfx.Node) string {
	s := n.App.State
	return fmt.Sprintf("%d %x %x next=%d epoch=%d fee=%v period=%d", n.Chain.Head.Height(), s.Root().Bytes()[:10], n.App.IdentityState.Root().Bytes()[:10],
		s.NextValidationTime().Unix(), s.Epoch(), s.FeePerGas(), s.ValidationPeriod())
}

func derived(b *types.Block) string {
	if b.IsEmpty() {
		return "empty"
	}
	h := b.Header.ProposedHeader
	var txs []string
	for _, tx := range b.Body.Transactions {
		txs = append(txs, tx.Hash().Hex()[2:10])
	}
	return fmt.Sprintf("root=%x iroot=%x flags=%d txhash=%x bloom=%x cid=%x rcid=%x seed=%x fee=%v txs=%s", h.Root.Bytes()[:8], h.IdentityRoot.Bytes()[:8], h.Flags,
		h.TxHash.Bytes()[:8], h.TxBloom, h.IpfsHash, h.TxReceiptsCid, h.BlockSeed.Bytes()[:8], h.FeePerGas, strings.Join(txs, ","))
}

func txSeq(b *types.Block) string {
	var sb strings.Builder
	if b.Body != nil {
		for _, tx := range b.Body.Transactions {
			sb.WriteString(tx.Hash().Hex())
		}
	}
	return sb.String()
}

// the REAL ceremony object on every node of this check (see shims/core__ceremony--c01.go.tmpl)
func c01realCeremony() {
	chainfx.RealAttach = func(n *chainfx.Node) *ceremony.ValidationCeremony {
		return ceremony.FxAttachReal(n.Chain, n.App, n.DB, n.Cfg, n.Sec, n.Bus, n.Pool)
	}
	chainfx.RealAfterAdd = func(n *chainfx.Node, b *types.Block) {
		if b.Header.Flags().HasFlag(types.FlipLotteryStarted) && !n.VC.FxWaitLottery() {
			// not a verdict on the code: the harness could not synchronise with the asynchronous lottery computation
			fmt.Fprintln(os.Stderr, "harness: flip lottery computation did not finish in time")
			os.Exit(3)
		}
	}
}

func isCeremonyTx(t uint16) bool {
	return t == types.SubmitAnswersHashTx || t == types.SubmitShortAnswersTx || t == types.SubmitLongAnswersTx || t == types.EvidenceTx
}

// ---- protocol lines of a follower (model: lean/IdenaModel/Model/CeremonyEpoch.lean, driver oracle_c01h) -------------
func payloadId(b []byte) uint32 {
	h := crypto.Hash(b)
	return uint32(h[0])<<16 | uint32(h[1])<<8 | uint32(h[2])
}

func recKind(t uint16) int {
	switch t {
	case types.SubmitLongAnswersTx:
		return 0
	case types.SubmitShortAnswersTx:
		return 1
	case types.SubmitAnswersHashTx:
		return 2
	case types.EvidenceTx:
		return 3
	}
	return -1
}

// blkLine: the ceremony transactions of a block as the model sees them
func blkLine(w *chainfx.World, b *types.Block) string {
	var parts []string
	if b.Body != nil {
		for _, tx := range b.Body.Transactions {
			k := recKind(tx.Type)
			if k < 0 {
				continue
			}
			s, _ := types.Sender(tx)
			pl := tx.Payload
			if k == 2 {
				pl = common.BytesToHash(tx.Payload).Bytes()
			}
			parts = append(parts, fmt.Sprintf("%d:%d:%d", w.Index(s)+1, k, payloadId(pl)))
		}
	}
	f := 0
	if b.Header.Flags().HasFlag(types.ValidationFinished) {
		f = 1
	}
	if len(parts) == 0 {
		return fmt.Sprintf("blk %d -", f)
	}
	return fmt.Sprintf("blk %d %s", f, strings.Join(parts, ","))
}

// ansLine: what the node's ceremony object holds
// candDigest: a number for a set of identities (indices in the world), order-free
func candDigest(idx []int) uint32 {
	sort.Ints(idx)
	h := fnv.New32a()
	for _, i := range idx {
		h.Write([]byte{byte(i), byte(i >> 8), 0xff})
	}
	return h.Sum32()
}

// lotLine: for a block that starts the flip lottery, the identities that are ceremony candidates in the state after it
// (independent of the ceremony object: read from the node's state), to be sent before the block's own line
func lotLine(w *chainfx.World, n *chainfx.Node) string {
	var idx []int
	n.App.State.IterateOverIdentities(func(a common.Address, id state.Identity) {
		if state.IsCeremonyCandidate(id) {
			idx = append(idx, w.Index(a))
		}
	})
	return fmt.Sprintf("lot %d", candDigest(idx))
}

// candsLine: the candidates the node's ceremony object holds
func candsLine(w *chainfx.World, n *chainfx.Node) string {
	ok, addrs := n.VC.FxCandidates()
	if !ok {
		return "none"
	}
	var idx []int
	for _, a := range addrs {
		idx = append(idx, w.Index(a))
	}
	return fmt.Sprint(candDigest(idx))
}

func ansLine(w *chainfx.World, n *chainfx.Node) string {
	ep, recs := n.VC.FxRecords()
	type e struct {
		a, k int
		p    uint32
	}
	var es []e
	for _, r := range recs {
		es = append(es, e{w.Index(r.Addr) + 1, r.Kind, payloadId(r.Payload)})
	}
	sort.Slice(es, func(i, j int) bool { return es[i].a < es[j].a || es[i].a == es[j].a && es[i].k < es[j].k })
	var parts []string
	for _, x := range es {
		parts = append(parts, fmt.Sprintf("%d:%d:%d", x.a, x.k, x.p))
	}
	if len(parts) == 0 {
		return fmt.Sprintf("e=%d -", ep)
	}
	return fmt.Sprintf("e=%d %s", ep, strings.Join(parts, ","))
}

// child: generator
func c01gen(c *hx.Ctx, p c01params) error {
	w, o := c01world(p)
	r := rand.New(rand.NewSource(p.Seed))
	chainfx.SetTime(w.T0)
	n, err := w.StartNode(nil, 0, true)
	if err != nil {
		return err
	}
	h := chainfx.NewHistory(w, n, r, o)
	if _, err := h.S.Send(n, 0, chainfx.OnlineTx(true)); err != nil {
		return err
	}
	pr := &pairfx.Pair{W: w, A: n, B: nil, H: h, R: r}
	bf, _ := os.Create(p.BlocksFile)
	defer bf.Close()
	tf, _ := os.Create(p.TraceFile)
	defer tf.Close()
	for b := 1; b <= p.Blocks; b++ {
		h.OfferTxs(b)
		if r.Intn(3) == 0 {
			pr.OfferConflicts(b)
		}
		chainfx.Advance(20 * time.Second)
		if !n.IsEligibleProposer() {
			c.Hit(fmt.Sprintf("history-ended:proposer-not-eligible:online=%d,god-validated=%v,epoch=%d", n.App.ValidatorsCache.OnlineSize(), n.App.ValidatorsCache.IsValidated(n.Addr), n.App.State.Epoch()))
			break
		}
		p1, err := n.Propose()
		if err != nil {
			c.Fail("C01:propose-panic", err.Error(), p)
			return nil
		}
		// the order in which the pool offers transactions of different senders is the proposer's free choice (and varies);
		// the comparison applies to proposals with the same transaction sequence
		var p2 *types.BlockProposal
		for try := 0; try < 6; try++ {
			p2, err = n.Propose()
			if err != nil {
				c.Fail("C01:propose-panic", err.Error(), p)
				return nil
			}
			if txSeq(p2.Block) == txSeq(p1.Block) {
				break
			}
			p2 = nil
		}
		if p2 == nil {
			c.Hit("propose-twice:no-equal-tx-order-in-6-tries")
		} else if d1, d2 := derived(p1.Block), derived(p2.Block); d1 != d2 {
			c.Fail("C01:same-proposer-same-head-different-block", fmt.Sprintf("height %d: two ProposeBlock calls on the same head and mempool differ:\n%s\n%s", p1.Block.Height(), d1, d2), p)
			return nil
		}
		// a side block: the proposal as it is becomes an abandoned fork block; the canonical block of this height is proposed
		// again after one participant's pending ceremony transactions were dropped (they are never mined on the canonical
		// chain).  Followers in the fork environments insert the side block first and are then reset to its parent.
		if !p.TzScenario && p1.Block.Body != nil && r.Intn(3) == 0 {
			var victims []int
			for _, tx := range p1.Block.Body.Transactions {
				if s, _ := types.Sender(tx); isCeremonyTx(tx.Type) {
					if i := w.Index(s); i > 0 {
						victims = append(victims, i)
					}
				}
			}
			if len(victims) > 0 {
				v := victims[r.Intn(len(victims))]
				for _, tx := range n.Pool.GetPendingByAddress(w.Addrs[v]) {
					n.Pool.Remove(tx)
				}
				h.S.Resync(n, v)
				p3, err := n.Propose()
				if err != nil {
					c.Fail("C01:propose-panic", err.Error(), p)
					return nil
				}
				clean := true
				for _, tx := range p3.Block.Body.Transactions {
					if s, _ := types.Sender(tx); s == w.Addrs[v] {
						clean = false
					}
				}
				if clean {
					raw, _ := p1.Block.ToBytes()
					fmt.Fprintln(bf, "S "+hex.EncodeToString(raw))
					c.Hit(fmt.Sprintf("side-block:period-%d", n.App.State.ValidationPeriod()))
					p1 = p3
				}
			}
		}
		// a second kind of side block, in the after-long-session period: the abandoned block differs from the canonical one by
		// an ordinary transfer only, so both branches hold the same ceremony transactions and a node on the side block can
		// evaluate the canonical continuation through the validation-finishing block as a fork (see c01follow).
		if !p.TzScenario && n.App.State.ValidationPeriod() == 4 && r.Intn(3) == 0 {
			hasCer := false
			for _, tx := range p1.Block.Body.Transactions {
				hasCer = hasCer || isCeremonyTx(tx.Type)
			}
			from := 1 + r.Intn(len(w.Keys)-1)
			if !hasCer && n.App.State.GetBalance(w.Addrs[from]).Cmp(chainfx.Dna(500)) > 0 {
				to := w.Addrs[0]
				stx := h.S.Sign(n, from, &types.Transaction{Type: types.SendTx, To: &to, Amount: chainfx.Dna(1)})
				if n.Pool.AddExternalTxs(validation.InboundTx, stx) == nil {
					pS, err := n.Propose()
					n.Pool.Remove(stx)
					if err == nil && pS != nil {
						has := false
						for _, tx := range pS.Block.Body.Transactions {
							has = has || tx.Hash() == stx.Hash()
						}
						if has {
							raw, _ := pS.Block.ToBytes()
							fmt.Fprintln(bf, "S "+hex.EncodeToString(raw))
							c.Hit("side-block:transfer-only:period-4")
						}
					}
				}
			}
		}
		// a third kind, outside the ceremony: the abandoned block carries a KillTx of a validated identity that the canonical
		// chain never mines.  A node on the side block has a smaller network than the canonical branch: everything a fork
		// evaluation derives from the network size (minimal fee rate, fee floor of the next block) must come from the state the
		// fork is evaluated on, not from the node's head.
		if !p.TzScenario && n.App.State.ValidationPeriod() == 0 && r.Intn(4) == 0 {
			var cands []int
			for i := 2; i < len(w.Keys); i++ {
				if st := n.App.State.GetIdentityState(w.Addrs[i]); (st == state.Verified || st == state.Human) && !h.O.Always[i] &&
					len(n.Pool.GetPendingByAddress(w.Addrs[i])) == 0 && n.App.State.GetBalance(w.Addrs[i]).Cmp(chainfx.Dna(10)) > 0 {
					cands = append(cands, i)
				}
			}
			if len(cands) > 0 {
				v := cands[r.Intn(len(cands))]
				stx := h.S.Sign(n, v, &types.Transaction{Type: types.KillTx, MaxFee: chainfx.Dna(5)})
				if n.Pool.AddExternalTxs(validation.InboundTx, stx) == nil {
					pS, err := n.Propose()
					n.Pool.Remove(stx)
					h.S.Resync(n, v)
					if err == nil && pS != nil {
						has := false
						for _, tx := range pS.Block.Body.Transactions {
							has = has || tx.Hash() == stx.Hash()
						}
						if has {
							raw, _ := pS.Block.ToBytes()
							fmt.Fprintln(bf, "S "+hex.EncodeToString(raw))
							c.Hit("side-block:kill-of-validated:period-0")
						}
					}
				}
			}
		}
		if err := n.Add(p1.Block); err != nil {
			c.Fail("C01:own-block-rejected", fmt.Sprintf("height %d: %v", p1.Block.Height(), err), p)
			return nil
		}
		raw, _ := p1.Block.ToBytes()
		fmt.Fprintln(bf, hex.EncodeToString(raw))
		fmt.Fprintln(tf, traceLine(n))
		c.Hit(fmt.Sprintf("gen-block-flags:%d", p1.Block.Header.Flags()))
		if p1.Block.Header.Flags().HasFlag(types.AfterLongSessionStarted) && os.Getenv("C01_DEBUG") != "" {
			id := n.App.State.GetIdentity(w.Addrs[0])
			sh, lo := n.VC.FxAnswerCounts()
			ns, nl := n.VC.FxFlipsToSolve(w.Addrs[0])
			fmt.Fprintln(os.Stderr, "after-long: god flips", len(id.Flips), "required", id.RequiredFlips, "state", id.State, "answers short/long", sh, lo, "god to solve", ns, nl, "hasShort", n.App.State.HasValidationTx(w.Addrs[0], types.SubmitShortAnswersTx), "hasLong", n.App.State.HasValidationTx(w.Addrs[0], types.SubmitLongAnswersTx), "hasHash", n.App.State.HasValidationTx(w.Addrs[0], types.SubmitAnswersHashTx))
		}
		if p1.Block.Header.Flags().HasFlag(types.ValidationFinished) && os.Getenv("C01_DEBUG") != "" {
			var st []string
			for i, a := range w.Addrs {
				id := n.App.State.GetIdentity(a)
				st = append(st, fmt.Sprintf("%d:%d/f%d/r%d", i, id.State, len(id.Flips), id.RequiredFlips))
			}
			fmt.Fprintln(os.Stderr, "epoch", n.App.State.Epoch(), strings.Join(st, " "))
		}
		if p.TzScenario && p1.Block.Header.Flags().HasFlag(types.ValidationFinished) && b+3 < p.Blocks {
			p.Blocks = b + 3
		}
	}
	for k, v := range h.Stats {
		c.Rep.Coverage[k] = v
	}
	return nil
}

// child: follower in some environment
// c01ahead: the canonical blocks that follow line `after` of the blocks file (side blocks skipped), up to `max` of them and
// not beyond the first identity-update block (a fork block of that kind needs a certificate).
func c01ahead(file string, after, max int) []*types.Block {
	f, err := os.Open(file)
	if err != nil {
		return nil
	}
	defer f.Close()
	sc := bufio.NewScanner(f)
	sc.Buffer(make([]byte, 1<<20), 64<<20)
	var res []*types.Block
	ln := 0
	for sc.Scan() && len(res) < max {
		ln++
		line := sc.Text()
		if ln <= after || strings.HasPrefix(line, "S ") {
			continue
		}
		raw, err := hex.DecodeString(line)
		if err != nil {
			break
		}
		b := new(types.Block)
		if b.FromBytes(raw) != nil {
			break
		}
		res = append(res, b)
		if b.Header.Flags().HasFlag(types.IdentityUpdate) {
			break
		}
	}
	return res
}

// c01progress is what a follower process leaves for its successor.
type c01progress struct {
	Next int  `json:"next"` // lines consumed
	Done bool `json:"done"`
}

func c01follow(c *hx.Ctx, p c01params) error {
	w, _ := c01world(p)
	chainfx.SetTime(w.T0)
	// the node's database is on disk and its ipfs store is saved next to it: a restart is the end of this process and
	// the start of another one over the same files (no goroutine, cache or object of the old process survives)
	db, err := dbm.NewGoLevelDB("chain", p.DBDir)
	if err != nil {
		return err
	}
	ipfsFile := filepath.Join(p.DBDir, "ipfs.json")
	if b, err := os.ReadFile(ipfsFile); err == nil {
		data := map[string][]byte{}
		if json.Unmarshal(b, &data) == nil {
			ipfs.VerifLoad(chainfx.IpfsOf(db), data)
		}
	}
	var n *chainfx.Node
	if p.Seg == 0 {
		n, err = w.StartNode(db, 1, true)
	} else {
		n, err = chainfx.Start(db, w.Keys[1], w.Cfg(), true)
	}
	if err != nil {
		if p.Seg > 0 {
			c.Fail("C01:restart-failed:"+p.Label, fmt.Sprintf("process %d (after %d lines): %v", p.Seg, p.StartAt, err), p)
			return nil
		}
		return err
	}
	f, err := os.Open(p.BlocksFile)
	if err != nil {
		return err
	}
	defer f.Close()
	tf, _ := os.OpenFile(p.TraceFile, os.O_CREATE|os.O_WRONLY|os.O_APPEND, 0644)
	defer tf.Close()
	sc := bufio.NewScanner(f)
	sc.Buffer(make([]byte, 1<<20), 64<<20)
	if p.Seg == 0 {
		c.Line("new", "ok")
	} else {
		c.Hit("restarts")
		c.Line("restart", "ok")
		c.Line("ans", ansLine(w, n))
		c.Line("cands", candsLine(w, n))
	}
	var blocks []*types.Block
	var syncState *appstate.AppState // the check state of the running full-sync batch
	i := 0
	lineNo := 0
	restartDue := false
	finish := func(done bool) error {
		b, _ := json.Marshal(ipfs.VerifDump(chainfx.IpfsOf(db)))
		os.WriteFile(ipfsFile, b, 0644)
		pb, _ := json.Marshal(c01progress{Next: lineNo, Done: done})
		os.WriteFile(filepath.Join(c.Out, "progress.json"), pb, 0644)
		return db.Close()
	}
	restart := func(before uint64) bool {
		restartDue = true
		return true
	}
	for sc.Scan() {
		if restartDue {
			return finish(false)
		}
		line := sc.Text()
		lineNo++
		side := strings.HasPrefix(line, "S ")
		if lineNo <= p.StartAt {
			// consumed by an earlier process of this follower: only the list of canonical blocks is rebuilt
			if !side {
				if raw, err := hex.DecodeString(line); err == nil {
					blk := new(types.Block)
					if blk.FromBytes(raw) == nil {
						blocks = append(blocks, blk)
						i++
					}
				}
			}
			continue
		}
		if side {
			line = line[2:]
			if p.Fork == 0 {
				continue
			}
		}
		raw, err := hex.DecodeString(line)
		if err != nil {
			return err
		}
		blk := new(types.Block)
		if err := blk.FromBytes(raw); err != nil {
			return err
		}
		if side {
			// the abandoned fork block: accepted (it is a valid block on this head), then the node is switched back
			chainfx.SetTime(time.Unix(blk.Header.Time()+int64(p.SkewSec), 0))
			if err := n.Add(blk); err != nil {
				c.Fail("C01:replica-rejects-block:"+p.Label, fmt.Sprintf("side block at height %d: %v", blk.Height(), err), p)
				return nil
			}
			if blk.Header.Flags().HasFlag(types.FlipLotteryStarted) {
				c.Line(lotLine(w, n), "ok")
			}
			c.Line(blkLine(w, blk), "ok")
			c.Line("ans", ansLine(w, n))
			c.Line("cands", candsLine(w, n))
			// standing on the abandoned branch, the node evaluates the canonical continuation as a fork (the real
			// ValidateSubChain on a check state of the common block): the same blocks must evaluate to the same roots as on a
			// node that is on the canonical chain.  No certificates are supplied, so the only acceptable refusals are the two
			// about a missing certificate, which come after the blocks themselves were evaluated.
			if ahead := c01ahead(p.BlocksFile, lineNo, 24); len(ahead) > 0 {
				var bundles []types.BlockBundle
				for _, ab := range ahead {
					bundles = append(bundles, types.BlockBundle{Block: ab})
				}
				var verr error
				func() {
					defer func() {
						if rec := recover(); rec != nil {
							verr = fmt.Errorf("panic: %v", rec)
						}
					}()
					// the fork reaches the node when its last block exists
					chainfx.SetTime(time.Unix(ahead[len(ahead)-1].Header.Time()+int64(p.SkewSec), 0))
					verr = n.Chain.ValidateSubChain(blk.Height()-1, bundles)
					chainfx.SetTime(time.Unix(blk.Header.Time()+int64(p.SkewSec), 0))
				}()
				c.Hit("fork-evaluations-from-side-branch")
				throughFinish := bundles[len(bundles)-1].Block.Header.Flags().HasFlag(types.ValidationFinished)
				sideCer := false
				for _, tx := range blk.Body.Transactions {
					sideCer = sideCer || isCeremonyTx(tx.Type)
				}
				if verr == nil || !(strings.Contains(verr.Error(), "cert is missing") || strings.Contains(verr.Error(), "should have a certificate")) {
					sideFinished := blk.Header.Flags().HasFlag(types.ValidationFinished) // the node's own branch has already closed the epoch
					// diagnosis: the same evaluation block by block on a fresh check state of the common block; which block is
					// refused, and does the fork hold ceremony transactions the node's branch (common chain + side block) lacks?
					onSide := map[common.Hash]bool{}
					for _, tx := range blk.Body.Transactions {
						onSide[tx.Hash()] = true
					}
					forkOnlyCer, failedAt, failedFlags := 0, uint64(0), types.BlockFlag(0)
					for _, bb := range bundles {
						for _, tx := range bb.Block.Body.Transactions {
							if isCeremonyTx(tx.Type) && !onSide[tx.Hash()] {
								forkOnlyCer++
							}
						}
					}
					if cs, e := n.App.ForCheckWithOverwrite(blk.Height() - 1); e == nil {
						prev := n.Chain.GetBlockHeaderByHeight(blk.Height() - 1)
						chainfx.SetTime(time.Unix(ahead[len(ahead)-1].Header.Time()+int64(p.SkewSec), 0))
						for _, bb := range bundles {
							var e2 error
							func() {
								defer func() {
									if rec := recover(); rec != nil {
										e2 = fmt.Errorf("panic: %v", rec)
									}
								}()
								e2 = n.Chain.VerifC01ValidateOn(cs, bb.Block, prev)
							}()
							if e2 != nil {
								failedAt, failedFlags = bb.Block.Height(), bb.Block.Header.Flags()
								break
							}
							if cs.FinalizePrecommit(bb.Block) != nil {
								break
							}
							prev = bb.Block.Header
						}
						chainfx.SetTime(time.Unix(blk.Header.Time()+int64(p.SkewSec), 0))
					}
					diag := fmt.Sprintf(" [re-evaluated block by block: refused at %d (flags %v); ceremony transactions of the fork that the node's branch lacks: %d; side block: %d txs, flags %v]", failedAt, failedFlags, forkOnlyCer, len(blk.Body.Transactions), blk.Header.Flags())
					atFinish := failedAt != 0 && failedFlags.HasFlag(types.ValidationFinished)
					if throughFinish && atFinish && (sideCer || sideFinished || forkOnlyCer > 0) && verr != nil && strings.Contains(verr.Error(), "invalid block roots") {
						// known finding F37: the epoch is evaluated with the answers the node collected on ITS branch (the side block
						// carries a ceremony transaction the canonical chain does not have, or the fork carries ceremony transactions
						// the node never saw on its branch, or the node has already closed the epoch)
						c.Fail("C01:fork-through-validation-finished-evaluated-with-own-branch-answers", fmt.Sprintf("node on side block %d (whose branch and the fork differ in ceremony transactions, or which is itself a validation-finishing block) evaluating the %d canonical blocks up to the validation-finishing block %d as a fork: %v%s",
							blk.Height(), len(bundles), bundles[len(bundles)-1].Block.Height(), verr, diag), p)
					} else {
						c.Fail("C01:fork-evaluated-differently-from-side-branch:"+p.Label, fmt.Sprintf("node on side block %d evaluating the %d canonical blocks from height %d as a fork: %v%s", blk.Height(), len(bundles), blk.Height(), verr, diag), p)
						return nil
					}
				}
				if throughFinish && !sideCer && !blk.Header.Flags().HasFlag(types.ValidationFinished) {
					c.Hit("fork-evaluations-through-validation-finished:same-ceremony-content")
				}
			}
			if _, err := n.Chain.ResetTo(blk.Height() - 1); err != nil {
				c.Fail("C01:reset-failed:"+p.Label, err.Error(), p)
				return nil
			}
			syncState = nil
			c.Line("reset 1", "ok")
			c.Line("ans", ansLine(w, n))
			c.Line("cands", candsLine(w, n))
			c.Hit("fork-switches")
			if p.Fork == 2 && !restart(blk.Height()) {
				return nil
			}
			continue
		}
		blocks = append(blocks, blk)
		i++
		chainfx.SetTime(time.Unix(blk.Header.Time()+int64(p.SkewSec), 0))
		justFinished := len(blocks) > 4 && blocks[len(blocks)-2].Header.Flags().HasFlag(types.ValidationFinished)
		if p.ReorgEvery > 0 && (i%p.ReorgEvery == 0 || justFinished) && len(blocks) > 4 {
			k := 1 + i%3
			if _, err := n.Chain.ResetTo(n.Chain.Head.Height() - uint64(k)); err != nil {
				c.Fail("C01:reset-failed:"+p.Label, err.Error(), p)
				return nil
			}
			syncState = nil
			c.Line(fmt.Sprintf("reset %d", k), "ok")
			c.Line("ans", ansLine(w, n))
			c.Line("cands", candsLine(w, n))
			for _, rb := range blocks[len(blocks)-1-k : len(blocks)-1] {
				cb, _ := chainfx.CloneBlock(rb)
				fin := rb.Header.Flags().HasFlag(types.ValidationFinished)
				if fin {
					c.Hit("reorgs-across-validation-finished")
				}
				if err := n.Add(cb); err != nil {
					sig := "C01:replica-rejects-block:" + p.Label
					if fin {
						sig = "C01:validation-finishing-block-rejected-after-rollback"
					}
					c.Fail(sig, fmt.Sprintf("re-adding height %d (flags %d) after reset: %v", rb.Height(), rb.Header.Flags(), err), p)
					return nil
				}
				if cb.Header.Flags().HasFlag(types.FlipLotteryStarted) {
					c.Line(lotLine(w, n), "ok")
				}
				c.Line(blkLine(w, cb), "ok")
				c.Line("ans", ansLine(w, n))
				c.Line("cands", candsLine(w, n))
			}
			c.Hit("reorgs")
		}
		var aerr error
		if p.Batch > 0 {
			// the full-sync route: one check state (ForCheckWithOverwrite) per batch of blocks
			if i%p.Batch == 1 || p.Batch == 1 {
				syncState = nil
			}
			syncState, aerr = n.AddSynced(blk, syncState)
			c.Hit("blocks-on-sync-route")
		} else {
			aerr = n.Add(blk)
		}
		if err := aerr; err != nil {
			c.Fail("C01:replica-rejects-block:"+p.Label, fmt.Sprintf("height %d (flags %d, %d txs) in environment %s (TZ=%s): %v", blk.Height(), blk.Header.Flags(), len(blk.Body.Transactions), p.Label, os.Getenv("TZ"), err), p)
			return nil
		}
		fmt.Fprintln(tf, traceLine(n))
		if blk.Header.Flags().HasFlag(types.FlipLotteryStarted) {
			c.Line(lotLine(w, n), "ok")
		}
		c.Line(blkLine(w, blk), "ok")
		c.Line("ans", ansLine(w, n))
		c.Line("cands", candsLine(w, n))
		if p.RestartEvery > 0 && i%p.RestartEvery == 0 {
			restart(blk.Height())
		}
	}
	return finish(true)
}

type c01env struct {
	label        string
	tz           string
	restartEvery int
	reorgEvery   int
	skew         int
	fork         int
	batch        int
}

func c01parent(c *hx.Ctx) error {
	self, err := os.Executable()
	if err != nil {
		return err
	}
	c.Rep.Rule = "per history: a generator process builds the chain with the real code (every block proposed twice on the same head and compared) and follower processes insert the same blocks in different environments: host time zone (UTC, Asia/Tokyo, Pacific/Auckland, America/Los_Angeles), wall clock skew +90 s, restart (a new process over the on-disk database) every 7 blocks, reset-and-return every 9 blocks (also over validation-finishing blocks), insertion of every side block followed by a fork evaluation of the canonical continuation and a reset, the full-sync route (batches of 4/5/7 blocks on one ForCheckWithOverwrite check state, with restarts / reorgs / side blocks), plain repetitions (map iteration order); per height (root, identity root, next validation time, epoch, fee rate, period) compared with the generator; distinct = (history, environment); the tz scenario has 408 identities (epoch length normalisation by weekday active)"
	envs := []c01env{
		{"utc", "UTC", 0, 0, 0, 0, 0}, {"tokyo", "Asia/Tokyo", 0, 0, 0, 0, 0}, {"auckland", "Pacific/Auckland", 0, 0, 0, 0, 0}, {"los-angeles", "America/Los_Angeles", 0, 0, 0, 0, 0},
		{"skew+90s", "UTC", 0, 0, 90, 0, 0}, {"restart7", "UTC", 7, 0, 0, 0, 0}, {"reorg9", "UTC", 0, 9, 0, 0, 0}, {"restart5+reorg11-tokyo", "Asia/Tokyo", 5, 11, 0, 0, 0},
		{"fork", "UTC", 0, 0, 0, 1, 0}, {"fork+restart", "UTC", 0, 0, 0, 2, 0}, {"fork+restart6", "UTC", 6, 0, 0, 1, 0},
		{"sync-batch7", "UTC", 0, 0, 0, 0, 7}, {"sync-batch4+restart9+fork", "UTC", 9, 0, 0, 1, 4}, {"sync-batch5+reorg13", "UTC", 0, 13, 0, 0, 5},
	}
	nh := c.Scale(3, 40)
	type job struct {
		p   c01params
		env []string
	}
	childDir := func(p c01params) string {
		return filepath.Join(c.Out, fmt.Sprintf("child-%d-%s-%s-%d", p.Seed, p.Mode, p.Label, p.Seg))
	}
	var mu sync.Mutex
	runChild := func(p c01params, tz string) (*hx.Report, error) {
		dir := childDir(p)
		os.MkdirAll(dir, 0755)
		pf := filepath.Join(dir, "params.json")
		b, _ := json.Marshal(map[string]interface{}{"replay": p})
		os.WriteFile(pf, b, 0644)
		cmd := exec.Command(self, "C01child", "-out", dir, "-seed", fmt.Sprint(p.Seed), "-tier", c.Tier, "-replay", pf)
		cmd.Env = append(os.Environ(), "TZ="+tz)
		cmd.Dir = dir
		out, err := cmd.CombinedOutput()
		if err != nil {
			o := string(out)
			if i := strings.Index(o, "panic:"); i >= 0 {
				o = o[i:]
			} else if i := strings.Index(o, "fatal error:"); i >= 0 {
				o = o[i:]
			}
			if len(o) > 2500 {
				o = o[:1500] + "\n...\n" + tail(o, 900)
			}
			return nil, fmt.Errorf("child %s/%s (process %d) failed: %v\n%s", p.Mode, p.Label, p.Seg, err, o)
		}
		rb, err := os.ReadFile(filepath.Join(dir, "report.json"))
		if err != nil {
			return nil, err
		}
		var rep hx.Report
		if err := json.Unmarshal(rb, &rep); err != nil {
			return nil, err
		}
		mu.Lock()
		if p.Mode == "follow" {
			// the follower's protocol lines are kept (rep.Notes: op, answer, op, answer, …) and emitted by the caller in one
			// piece once the follower's life is over, so that the cases of different followers do not interleave
			ob, _ := os.ReadFile(filepath.Join(dir, "ops.txt"))
			ib, _ := os.ReadFile(filepath.Join(dir, "impl.txt"))
			ol, il := strings.Split(strings.TrimRight(string(ob), "\n"), "\n"), strings.Split(strings.TrimRight(string(ib), "\n"), "\n")
			rep.Notes = nil
			if len(ol) == len(il) {
				for k := range ol {
					if ol[k] != "" {
						rep.Notes = append(rep.Notes, ol[k], il[k])
					}
				}
			}
		}
		if d, ok := rep.Coverage["distribution"].(map[string]interface{}); ok {
			for k, v := range d {
				if f, ok := v.(float64); ok {
					c.HitN(p.Mode+":"+k, int(f))
				}
			}
		}
		mu.Unlock()
		return &rep, nil
	}
	var only *struct {
		Seed int64 `json:"seed"`
		Tz   bool  `json:"tz_scenario"`
	}
	if c.Replay != "" {
		b, err := os.ReadFile(c.Replay)
		if err != nil {
			return err
		}
		var wrap struct {
			Replay struct {
				Seed int64 `json:"seed"`
				Tz   bool  `json:"tz_scenario"`
			} `json:"replay"`
		}
		if err := json.Unmarshal(b, &wrap); err != nil {
			return err
		}
		only = &struct {
			Seed int64 `json:"seed"`
			Tz   bool  `json:"tz_scenario"`
		}{wrap.Replay.Seed, wrap.Replay.Tz}
		nh = 1
	}
	for i := 0; i < nh; i++ {
		seed := c.Seed*1000 + int64(i)
		tzs := i%3 == 0
		if only != nil {
			seed, tzs = only.Seed, only.Tz
		}
		blocks := 290
		if tzs {
			blocks = 70
		}
		base := c01params{Mode: "gen", Seed: seed, Blocks: blocks, TzScenario: tzs, Label: "gen",
			BlocksFile: filepath.Join(c.Out, fmt.Sprintf("blocks-%d.txt", seed)), TraceFile: filepath.Join(c.Out, fmt.Sprintf("trace-%d-gen.txt", seed))}
		rep, err := runChild(base, "UTC")
		if err != nil {
			// as for followers: a generator process that dies is run once more before it counts as an error
			c.Hit("generator-process-died:retried")
			c.Rep.Notes = append(c.Rep.Notes, fmt.Sprintf("generator of history %d died: %s", seed, tail(err.Error(), 1200)))
			rep, err = runChild(base, "UTC")
		}
		if err != nil {
			return err
		}
		c.Rep.Evaluations++
		for _, f := range rep.Failures {
			c.Fail(f.Signature, f.Detail, f.Replay)
		}
		gen, _ := os.ReadFile(base.TraceFile)
		genLines := strings.Split(strings.TrimSpace(string(gen)), "\n")
		c.Hit(fmt.Sprintf("history-blocks>=%d", (len(genLines)/20)*20))
		if len(rep.Failures) > 0 {
			continue
		}
		// followers in parallel
		type res struct {
			env c01env
			rep *hx.Report
			err error
			tr  string
		}
		ch := make(chan res, len(envs))
		for _, e := range envs {
			e := e
			go func() {
				p := base
				p.Mode, p.Label, p.RestartEvery, p.ReorgEvery, p.SkewSec, p.Fork, p.Batch = "follow", e.label, e.restartEvery, e.reorgEvery, e.skew, e.fork, e.batch
				p.TraceFile = filepath.Join(c.Out, fmt.Sprintf("trace-%d-%s.txt", seed, e.label))
				p.DBDir = filepath.Join(c.Out, fmt.Sprintf("db-%d-%s", seed, e.label))
				os.RemoveAll(p.DBDir)
				os.MkdirAll(p.DBDir, 0755)
				os.Remove(p.TraceFile)
				// the life of a follower: one process per stretch between restarts, all over the same on-disk database.
				// A process that dies (not a refused block: a crash of the node, e.g. a data race between the node's own
				// goroutines) is no verdict on the state transition: the follower's whole life is run once more from a new
				// database, the crash is recorded (coverage bucket and note), and only a second death is an error.
				var all *hx.Report
				var err error
				for attempt := 0; attempt < 2; attempt++ {
					all = &hx.Report{}
					err = nil
					p.StartAt, p.Seg = 0, 0
					os.RemoveAll(p.DBDir)
					os.MkdirAll(p.DBDir, 0755)
					os.Remove(p.TraceFile)
					for seg := 0; seg < 1000; seg++ {
						p.Seg = seg
						var rp *hx.Report
						rp, err = runChild(p, e.tz)
						if err != nil {
							break
						}
						all.Failures = append(all.Failures, rp.Failures...)
						all.Notes = append(all.Notes, rp.Notes...)
						var pr c01progress
						pb, rerr := os.ReadFile(filepath.Join(childDir(p), "progress.json"))
						if rerr != nil || json.Unmarshal(pb, &pr) != nil || pr.Done || len(rp.Failures) > 0 {
							break
						}
						if pr.Next <= p.StartAt && seg > 0 {
							err = fmt.Errorf("follower %s made no progress after line %d", e.label, p.StartAt)
							break
						}
						p.StartAt = pr.Next
						os.RemoveAll(childDir(p))
					}
					if err == nil {
						break
					}
					mu.Lock()
					c.Hit("follower-process-died:retried")
					c.Rep.Notes = append(c.Rep.Notes, fmt.Sprintf("follower %s of history %d died (attempt %d): %s", e.label, seed, attempt+1, tail(err.Error(), 1200)))
					mu.Unlock()
				}
				os.RemoveAll(p.DBDir)
				mu.Lock()
				for k := 0; k+1 < len(all.Notes); k += 2 {
					c.Line(all.Notes[k], all.Notes[k+1])
				}
				mu.Unlock()
				all.Notes = nil
				tr, _ := os.ReadFile(p.TraceFile)
				ch <- res{e, all, err, string(tr)}
			}()
		}
		for range envs {
			r := <-ch
			if r.err != nil {
				return r.err
			}
			c.Rep.Evaluations++
			c.Hit("env:" + r.env.label)
			for _, f := range r.rep.Failures {
				c.Fail(f.Signature, f.Detail, f.Replay)
			}
			if len(r.rep.Failures) == 0 {
				fl := strings.Split(strings.TrimSpace(r.tr), "\n")
				for k := range genLines {
					if k >= len(fl) || fl[k] != genLines[k] {
						got := "<missing>"
						if k < len(fl) {
							got = fl[k]
						}
						c.Fail("C01:replica-trace-differs:"+r.env.label, fmt.Sprintf("seed %d env %s: generator %q, replica %q", seed, r.env.label, genLines[k], got),
							map[string]interface{}{"seed": seed, "tz_scenario": tzs, "env": r.env.label})
						break
					}
				}
				if len(genLines) > 30 && c.Distinct(fmt.Sprint(seed, r.env.label)) {
					c.Rep.Distinct++
				}
			}
		}
		c.Sample(map[string]interface{}{"seed": seed, "tz_scenario": tzs, "blocks": len(genLines), "last": genLines[len(genLines)-1]})
		os.Remove(base.BlocksFile)
	}
	return nil
}

func tail(s string, n int) string {
	if len(s) > n {
		return s[len(s)-n:]
	}
	return s
}

func init() {
	hx.Register("C01", c01parent)
	hx.Register("C01child", func(c *hx.Ctx) error {
		b, err := os.ReadFile(c.Replay)
		if err != nil {
			return err
		}
		var wrap struct {
			Replay c01params `json:"replay"`
		}
		if err := json.Unmarshal(b, &wrap); err != nil {
			return err
		}
		defer os.RemoveAll("./testdata")
		defer os.RemoveAll("./testdata2")
		c01realCeremony()
		if wrap.Replay.Mode == "gen" {
			return c01gen(c, wrap.Replay)
		}
		return c01follow(c, wrap.Replay)
	})
}
