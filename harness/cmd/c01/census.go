package main

// C01 (G) census of node-local nondeterminism sources, regenerated from the repository's CURRENT source on every run.
//
// The harness binary type-checks the consensus-path packages of the repository (go/packages + go/types, through the
// same build overlay the binary itself was compiled with) and lists every syntactic site at which the result of a Go
// computation can depend on something node-local:
//
//	range-map            `for … := range m` with m of map type (Go randomises the start offset)
//	mapset.<M>           golang-set ToSlice / Each / Pop / Iter / Iterator / String (backed by a Go map)
//	syncmap.Range        sync.Map.Range
//	reflect-map.<M>      reflect.Value.MapKeys / MapRange
//	time.<F>             time.Now / Since / Until / After / Tick / NewTimer / NewTicker / Sleep / AfterFunc (wall clock)
//	time-zone.<M>        zone-sensitive methods of time.Time (Weekday, Hour, Format, …), time.Local, time.LoadLocation
//	global-rand.<F>      math/rand package-level functions (the process-global, unseeded or time-seeded source)
//	crypto-rand.<F>      crypto/rand
//	host.<F>             os.Getenv / Hostname / Getpid, runtime.NumCPU / GOMAXPROCS / NumGoroutine
//	go-stmt              `go f()` (schedule dependence)
//	select               `select` with more than one communication clause
//
// One op line per site: `site <kind> <file> <func> <expr>#<occurrence> <guard>` — no line numbers, they drift.
// `guard` = the number of sorting calls in the same function (package sort — Slice, SliceStable, Strings, Search-based
// sorted insertion — or one of the repository's own sorting helpers); for the time-zone kinds the number of `.UTC()`
// conversions instead.  The reviewed table records the number present when the site was classified `sorted-after` /
// `utc-normalised`; fewer now means a sort / conversion was removed.  The implementation-side answer is the classification from the committed, hand-reviewed
// table census_expect.json; the Lean driver holds the same table (Drivers/C01Census.lean) and answers `unclassified`
// for anything it does not know and `unsorted` / `not-utc` for a guarded site whose guard count dropped.  A NEW
// map range / time.Now / rand call in those packages therefore breaks the correspondence until someone reviews and
// classifies it, and the independent oracle below reports it with a concrete file/function.
import (
	_ "embed"
	"encoding/json"
	"fmt"
	"go/ast"
	"go/parser"
	"go/token"
	"go/types"
	"os"
	"path/filepath"
	"sort"
	"strings"

	"golang.org/x/tools/go/packages"

	"verifharness/internal/hx"
)

//go:embed census_expect.json
var censusExpectJSON []byte

//go:embed census_file_sorts.json
var censusFileSortsJSON []byte

type censusEntry struct {
	Kind   string `json:"kind"`
	File   string `json:"file"`
	Func   string `json:"func"`
	Expr   string `json:"expr"` // normalised expression + "#" + occurrence
	Class  string `json:"class"`
	Guard  int    `json:"guard,omitempty"` // sorted-after: least number of sorting calls in the function; utc-normalised: of .UTC() calls
	Lemma  string `json:"lemma,omitempty"`
	Reason string `json:"reason"`
}

// packages on the consensus path (relative to the repository root)
var censusPkgs = []string{
	"./blockchain", "./blockchain/validation", "./blockchain/fee", "./blockchain/types", "./blockchain/attachments",
	"./core/state", "./core/state/snapshot", "./core/appstate", "./core/validators", "./core/ceremony", "./core/upgrade",
	"./vm/...", "./common", "./common/math", "./config",
}

var censusClasses = map[string]bool{
	"sorted-after": true, "per-key-commutative": true, "set-membership-only": true, "order-free-aggregate": true,
	"not-on-consensus-path": true, "seeded-prng-input": true, "virtual-clock-non-state": true, "utc-normalised": true,
}

func censusRepo() (repo, overlay string) {
	repo = os.Getenv("VERIF_REPO")
	if repo == "" {
		repo = "/repo"
	}
	repo, _ = filepath.Abs(repo)
	verif := os.Getenv("VERIF_ROOT")
	if verif == "" {
		verif = "/verif"
	}
	build := filepath.Join(verif, "build")
	if repo != "/repo" {
		build = filepath.Join(build, "alt_"+filepath.Base(repo))
	}
	return repo, filepath.Join(build, "overlay_c01", "overlay.json")
}

type censusSite struct {
	pkg, kind, file, fn, expr string
	guard                     int // number of sorting calls (time-zone kinds: of .UTC() conversions) in the enclosing function
	pos                       token.Pos
}

func normExpr(e ast.Expr) string {
	if e == nil {
		return "-"
	}
	s := types.ExprString(e)
	s = strings.Join(strings.Fields(s), "")
	if len(s) > 120 {
		s = s[:120] + "…"
	}
	if s == "" {
		return "-"
	}
	return s
}

var zoneMethods = map[string]bool{"Weekday": true, "Hour": true, "Minute": true, "Day": true, "YearDay": true, "Format": true,
	"Date": true, "Clock": true, "Month": true, "Year": true, "ISOWeek": true, "String": true, "Local": true, "Zone": true,
	"Location": true, "AppendFormat": true, "GoString": true}
var clockFuncs = map[string]bool{"Now": true, "Since": true, "Until": true, "After": true, "Tick": true, "NewTimer": true,
	"NewTicker": true, "Sleep": true, "AfterFunc": true}
var hostFuncs = map[string]map[string]bool{
	"os":      {"Getenv": true, "LookupEnv": true, "Environ": true, "Hostname": true, "Getpid": true, "Getwd": true},
	"runtime": {"NumCPU": true, "GOMAXPROCS": true, "NumGoroutine": true},
}

// the repository's own helpers that return / leave their argument sorted
var sortHelpers = map[string]bool{"sortAddresses": true, "getOrderedObjectsKeys": true, "getOrderedUint64Keys": true,
	"newSortedAddresses": true}

func isSortCall(info *types.Info, c *ast.CallExpr) bool {
	switch f := c.Fun.(type) {
	case *ast.SelectorExpr:
		if id, ok := f.X.(*ast.Ident); ok {
			if pn, ok := info.Uses[id].(*types.PkgName); ok && pn.Imported().Path() == "sort" {
				return true
			}
		}
		return sortHelpers[f.Sel.Name]
	case *ast.Ident:
		return sortHelpers[f.Name]
	}
	return false
}

// censusPkg is one type-checked package.
type censusPkg struct {
	PkgPath string
	Types   *types.Package
	Info    *types.Info
	Syntax  []*ast.File
	Errors  []string
}

type censusLoader struct {
	fset *token.FileSet
	ov   map[string][]byte
	done map[string]*censusPkg
	root map[string]bool
}

type censusImporter struct {
	ld *censusLoader
	p  *packages.Package
}

func (im censusImporter) Import(path string) (*types.Package, error) {
	if path == "unsafe" {
		return types.Unsafe, nil
	}
	dep, ok := im.p.Imports[path]
	if !ok {
		return nil, fmt.Errorf("import %q not in the package graph of %s", path, im.p.PkgPath)
	}
	cp := im.ld.check(dep)
	if cp.Types == nil {
		return nil, fmt.Errorf("import %q: not type-checked", path)
	}
	return cp.Types, nil
}

func (ld *censusLoader) check(p *packages.Package) *censusPkg {
	if cp, ok := ld.done[p.ID]; ok {
		return cp
	}
	cp := &censusPkg{PkgPath: p.PkgPath}
	ld.done[p.ID] = cp // (import cycles do not occur in a buildable graph)
	isRoot := ld.root[p.ID]
	for _, e := range p.Errors {
		cp.Errors = append(cp.Errors, e.Error())
	}
	for _, fn := range p.CompiledGoFiles {
		// cgo output lives in the build cache under extension-less names (`<hash>-d`)
		if !strings.HasSuffix(fn, ".go") && strings.Contains(filepath.Base(fn), ".") {
			continue
		}
		var src interface{}
		if b, ok := ld.ov[fn]; ok {
			src = b
		}
		f, err := parser.ParseFile(ld.fset, fn, src, parser.SkipObjectResolution)
		if err != nil {
			cp.Errors = append(cp.Errors, err.Error())
			if f == nil {
				continue
			}
		}
		cp.Syntax = append(cp.Syntax, f)
	}
	conf := types.Config{Importer: censusImporter{ld, p}, Sizes: types.SizesFor("gc", "amd64"), IgnoreFuncBodies: !isRoot,
		FakeImportC: false, Error: func(err error) { cp.Errors = append(cp.Errors, err.Error()) }}
	if isRoot {
		cp.Info = &types.Info{Types: map[ast.Expr]types.TypeAndValue{}, Uses: map[*ast.Ident]types.Object{}, Defs: map[*ast.Ident]types.Object{},
			Selections: map[*ast.SelectorExpr]*types.Selection{}}
	}
	tp, _ := conf.Check(p.PkgPath, ld.fset, cp.Syntax, cp.Info)
	cp.Types = tp
	if !isRoot {
		cp.Syntax = nil
		cp.Errors = nil // errors of dependencies (the stubbed-out ipfs world) do not blind the census of the listed packages
	}
	return cp
}

func censusCollect(repo, overlayPath string) ([]censusSite, []string, error) {
	censusFileSorts = map[string]int{}
	// the overlay entries that ADD or STUB files are handed to go/packages (and by it to `go list -overlay`); the
	// virtual-clock rewrites are not: the census reads the repository's own text of those files
	ov := map[string][]byte{}
	if b, err := os.ReadFile(overlayPath); err == nil {
		var oj struct{ Replace map[string]string }
		if err := json.Unmarshal(b, &oj); err != nil {
			return nil, nil, fmt.Errorf("overlay %s: %v", overlayPath, err)
		}
		for dst, src := range oj.Replace {
			if strings.HasPrefix(filepath.Base(src), "clock_") {
				continue
			}
			sb, err := os.ReadFile(src)
			if err != nil {
				return nil, nil, err
			}
			ov[dst] = sb
		}
	} else {
		return nil, nil, fmt.Errorf("overlay %s: %v (run ./check first)", overlayPath, err)
	}
	env := append(os.Environ(), "GOFLAGS=-mod=mod", "GOPROXY=off", "GOSUMDB=off", "GOTOOLCHAIN=local")
	// go/packages is used for the package graph only (`go list -deps -compiled`): the type checker of x/tools v0.1.11
	// cannot be used with this Go release (it hands go/types a nil *StdSizes), so the packages are type-checked here,
	// from source, dependencies without function bodies.
	cfg := &packages.Config{
		Mode: packages.NeedName | packages.NeedFiles | packages.NeedImports | packages.NeedDeps | packages.NeedCompiledGoFiles,
		Dir:  repo, Env: env, Overlay: ov}
	roots, err := packages.Load(cfg, censusPkgs...)
	if err != nil {
		return nil, nil, err
	}
	ld := &censusLoader{fset: token.NewFileSet(), ov: ov, done: map[string]*censusPkg{}, root: map[string]bool{}}
	for _, p := range roots {
		ld.root[p.ID] = true
	}
	var pkgs []*censusPkg
	for _, p := range roots {
		pkgs = append(pkgs, ld.check(p))
	}
	var sites []censusSite
	var errs []string
	for _, p := range pkgs {
		for _, e := range p.Errors {
			errs = append(errs, p.PkgPath+": "+e)
		}
		info := p.Info
		if info == nil {
			errs = append(errs, p.PkgPath+": no type information")
			continue
		}
		pkgName := func(id *ast.Ident) string {
			if pn, ok := info.Uses[id].(*types.PkgName); ok {
				return pn.Imported().Path()
			}
			return ""
		}
		for _, f := range p.Syntax {
			fname := ld.fset.Position(f.Pos()).Filename
			if strings.HasSuffix(fname, "_test.go") || strings.HasPrefix(filepath.Base(fname), "zz_verif") {
				continue
			}
			rel, err := filepath.Rel(repo, fname)
			if err != nil || strings.HasPrefix(rel, "..") {
				continue
			}
			for _, d := range f.Decls {
				fn := "<pkg-init>"
				var body ast.Node = d
				if fd, ok := d.(*ast.FuncDecl); ok {
					fn = fd.Name.Name
					if fd.Recv != nil && len(fd.Recv.List) > 0 {
						fn = strings.Join(strings.Fields(types.ExprString(fd.Recv.List[0].Type)), "") + "." + fn
					}
					if fd.Body == nil {
						continue
					}
				}
				// sorting calls and `.UTC()` conversions in this declaration
				var sortPos []token.Pos
				utcCalls := 0
				ast.Inspect(body, func(n ast.Node) bool {
					if c, ok := n.(*ast.CallExpr); ok {
						if isSortCall(info, c) {
							sortPos = append(sortPos, c.Pos())
						}
						if se, ok := c.Fun.(*ast.SelectorExpr); ok && se.Sel.Name == "UTC" && len(c.Args) == 0 {
							utcCalls++
						}
					}
					return true
				})
				censusFileSorts[rel] += len(sortPos)
				add := func(kind string, e ast.Expr, pos token.Pos) {
					s := censusSite{pkg: p.PkgPath, kind: kind, file: rel, fn: fn, expr: normExpr(e), pos: pos}
					s.guard = len(sortPos)
					if strings.HasPrefix(kind, "time-zone.") {
						s.guard = utcCalls
					}
					sites = append(sites, s)
				}
				ast.Inspect(body, func(n ast.Node) bool {
					switch x := n.(type) {
					case *ast.RangeStmt:
						if tv, ok := info.Types[x.X]; ok && tv.Type != nil {
							if _, isMap := tv.Type.Underlying().(*types.Map); isMap {
								add("range-map", x.X, x.Pos())
							}
						}
					case *ast.GoStmt:
						add("go-stmt", x.Call.Fun, x.Pos())
					case *ast.SelectStmt:
						n := 0
						for _, cl := range x.Body.List {
							if cc, ok := cl.(*ast.CommClause); ok && cc.Comm != nil {
								n++
							}
						}
						if n > 1 {
							add("select", nil, x.Pos())
						}
					case *ast.SelectorExpr:
						// time.Local (a value, not a call)
						if id, ok := x.X.(*ast.Ident); ok && pkgName(id) == "time" && x.Sel.Name == "Local" {
							add("time-zone.Local", nil, x.Pos())
						}
						if id, ok := x.X.(*ast.Ident); ok && pkgName(id) == "crypto/rand" && x.Sel.Name == "Reader" {
							add("crypto-rand.Reader", nil, x.Pos())
						}
					case *ast.CallExpr:
						se, ok := x.Fun.(*ast.SelectorExpr)
						if !ok {
							return true
						}
						name := se.Sel.Name
						if id, ok := se.X.(*ast.Ident); ok {
							switch pp := pkgName(id); pp {
							case "time":
								if clockFuncs[name] {
									add("time."+name, nil, x.Pos())
								}
								if name == "LoadLocation" {
									add("time-zone.LoadLocation", nil, x.Pos())
								}
							case "math/rand":
								if name != "New" && name != "NewSource" && name != "NewZipf" {
									add("global-rand."+name, nil, x.Pos())
								}
							case "crypto/rand":
								add("crypto-rand."+name, nil, x.Pos())
							case "os", "runtime":
								if hostFuncs[pp][name] {
									add("host."+pp+"."+name, nil, x.Pos())
								}
							}
							if pkgName(id) != "" {
								return true
							}
						}
						if tv, ok := info.Types[se.X]; ok && tv.Type != nil {
							ts := tv.Type.String()
							switch {
							case strings.Contains(ts, "golang-set"):
								if name == "ToSlice" || name == "Each" || name == "Pop" || name == "Iter" || name == "Iterator" || name == "String" {
									add("mapset."+name, se.X, x.Pos())
								}
							case strings.HasSuffix(ts, "sync.Map"):
								if name == "Range" {
									add("syncmap.Range", se.X, x.Pos())
								}
							case ts == "reflect.Value":
								if name == "MapKeys" || name == "MapRange" {
									add("reflect-map."+name, se.X, x.Pos())
								}
							case ts == "time.Time" || ts == "*time.Time":
								if zoneMethods[name] {
									add("time-zone."+name, se.X, x.Pos())
								}
							}
						}
					}
					return true
				})
			}
		}
	}
	// canonical order + occurrence numbers (source order within one (kind,file,func,expr))
	sort.SliceStable(sites, func(i, j int) bool {
		a, b := sites[i], sites[j]
		if a.file != b.file {
			return a.file < b.file
		}
		if a.fn != b.fn {
			return a.fn < b.fn
		}
		if a.kind != b.kind {
			return a.kind < b.kind
		}
		if a.expr != b.expr {
			return a.expr < b.expr
		}
		return a.pos < b.pos
	})
	occ := map[string]int{}
	for i := range sites {
		k := sites[i].kind + "\x00" + sites[i].file + "\x00" + sites[i].fn + "\x00" + sites[i].expr
		occ[k]++
		sites[i].expr = fmt.Sprintf("%s#%d", sites[i].expr, occ[k])
	}
	return sites, errs, nil
}

// sorting calls per source file of the last collection
var censusFileSorts = map[string]int{}

func censusKey(kind, file, fn, expr string) string { return kind + " " + file + " " + fn + " " + expr }

func c01census(c *hx.Ctx) error {
	var table []censusEntry
	if err := json.Unmarshal(censusExpectJSON, &table); err != nil {
		return fmt.Errorf("census_expect.json: %v", err)
	}
	expect := map[string]censusEntry{}
	for _, e := range table {
		if !censusClasses[e.Class] {
			return fmt.Errorf("census_expect.json: unknown class %q for %s %s", e.Class, e.Func, e.Expr)
		}
		expect[censusKey(e.Kind, e.File, e.Func, e.Expr)] = e
	}
	repo, overlay := censusRepo()
	sites, errs, err := censusCollect(repo, overlay)
	if err != nil {
		return err
	}
	if os.Getenv("C01_CENSUS_DUMP") != "" {
		var sb strings.Builder
		for _, s := range sites {
			fmt.Fprintf(&sb, "%s\t%s\t%s\t%s\t%d\t%s\n", s.kind, s.file, s.fn, s.expr, s.guard, s.pkg)
		}
		os.WriteFile(os.Getenv("C01_CENSUS_DUMP"), []byte(sb.String()), 0644)
	}
	// type errors inside the listed packages would make the census blind (a range over an untyped expression is not
	// recognised as a map range): they are a machinery error, except in packages outside the list (ipfs stub deps)
	for _, e := range errs {
		c.Rep.Notes = append(c.Rep.Notes, "load: "+e)
	}
	if len(errs) > 0 {
		return fmt.Errorf("census: %d package errors while loading %s, first: %s", len(errs), repo, errs[0])
	}
	if len(sites) < 50 {
		return fmt.Errorf("census: only %d sites found in %s — extractor blind?", len(sites), repo)
	}
	seen := map[string]bool{}
	lastPkg := ""
	// a site that moved into another function of the same file (extract-method / inline refactorings) keeps its review:
	// an unreviewed site takes over the row of the one reviewed site with the same kind, file and expression whose own
	// function no longer holds it.
	present := map[string]bool{}
	for _, s := range sites {
		present[censusKey(s.kind, s.file, s.fn, s.expr)] = true
	}
	baseExpr := func(e string) string {
		if i := strings.LastIndex(e, "#"); i >= 0 {
			return e[:i]
		}
		return e
	}
	taken := map[string]bool{}
	for i := range sites {
		s := &sites[i]
		if _, ok := expect[censusKey(s.kind, s.file, s.fn, s.expr)]; ok {
			continue
		}
		var cands []censusEntry
		// first the same function in another file of the package (the function was moved), then the same file, then the package
		for pass := 0; pass < 3 && len(cands) == 0; pass++ {
			for _, e := range table {
				ek := censusKey(e.Kind, e.File, e.Func, e.Expr)
				if e.Kind != s.kind || baseExpr(e.Expr) != baseExpr(s.expr) || present[ek] || taken[ek] {
					continue
				}
				switch pass {
				case 0:
					if filepath.Dir(e.File) == filepath.Dir(s.file) && e.Func == s.fn {
						cands = append(cands, e)
					}
				case 1:
					if e.File == s.file {
						cands = append(cands, e)
					}
				case 2:
					if filepath.Dir(e.File) == filepath.Dir(s.file) {
						cands = append(cands, e)
					}
				}
			}
		}
		if len(cands) == 1 {
			taken[censusKey(cands[0].Kind, cands[0].File, cands[0].Func, cands[0].Expr)] = true
			c.Rep.Notes = append(c.Rep.Notes, fmt.Sprintf("site moved within package: %s %s from %s:%s to %s:%s (review carried over)", s.kind, s.expr, cands[0].File, cands[0].Func, s.file, s.fn))
			c.Hit("site-moved-within-file")
			s.file, s.fn, s.expr = cands[0].File, cands[0].Func, cands[0].Expr
		}
	}
	// the guard of a `sorted-after` site is the number of sorting calls in its function.  When code moves between functions
	// of one file the count of a function can drop although no sort was removed: as long as the FILE still holds at least
	// as many sorting calls as when the table was reviewed (census_file_sorts.json), a lower function count is reported as
	// the reviewed one (note `sorts moved within file`); a file whose total dropped gets no such allowance.
	var fileSortsReviewed map[string]int
	if err := json.Unmarshal(censusFileSortsJSON, &fileSortsReviewed); err != nil {
		return fmt.Errorf("census_file_sorts.json: %v", err)
	}
	if os.Getenv("C01_CENSUS_DUMP") != "" {
		b, _ := json.MarshalIndent(censusFileSorts, "", " ")
		os.WriteFile(os.Getenv("C01_CENSUS_DUMP")+".filesorts.json", b, 0644)
	}
	for i := range sites {
		s := &sites[i]
		if e, ok := expect[censusKey(s.kind, s.file, s.fn, s.expr)]; ok && e.Class == "sorted-after" && s.guard < e.Guard {
			// (totals per package directory: functions also move between the files of a package)
			rev, now := 0, 0
			for f, n := range fileSortsReviewed {
				if filepath.Dir(f) == filepath.Dir(s.file) {
					rev += n
				}
			}
			for f, n := range censusFileSorts {
				if filepath.Dir(f) == filepath.Dir(s.file) {
					now += n
				}
			}
			if rev > 0 && now >= rev {
				c.Rep.Notes = append(c.Rep.Notes, fmt.Sprintf("sorts moved within file %s: %s has %d sorting call(s), reviewed with %d; the package still holds %d (reviewed %d)", s.file, s.fn, s.guard, e.Guard, now, rev))
				c.Hit("sorts-moved-within-file")
				s.guard = e.Guard
			}
		}
	}
	for _, s := range sites {
		if s.pkg != lastPkg {
			c.Line("new "+s.pkg, "ok")
			lastPkg = s.pkg
		}
		k := censusKey(s.kind, s.file, s.fn, s.expr)
		seen[k] = true
		// the implementation side states the reviewer's claim; for a site nobody reviewed there is none (`unreviewed`),
		// while the model side answers `unclassified`: the two disagree until the site is classified in both tables
		ans := "unreviewed"
		if e, ok := expect[k]; ok {
			ans = e.Class
		}
		c.Line(fmt.Sprintf("site %s %s %s %s %d", s.kind, s.file, s.fn, s.expr, s.guard), ans)
		c.Rep.Evaluations++
		c.Distinct(k)
		c.Hit("kind:" + strings.SplitN(s.kind, ".", 2)[0])
		c.Hit("class:" + ans)
		// independent oracle: every site must have been reviewed, and a site whose order-freedom rests on a later sort
		// must still be followed by a sorting call
		if ans == "unreviewed" {
			// not a failing input by itself: the line above disagrees with the model's table (`unclassified`), which breaks
			// the correspondence; whether the new site makes replicas diverge is what the replica channel searches for
			c.Hit("unreviewed-site")
			c.Rep.Notes = append(c.Rep.Notes, fmt.Sprintf("unreviewed site: %s in %s (%s), expression %s (classify it in harness/cmd/c01/census_expect.json after review)", s.kind, s.fn, s.file, s.expr))
		} else if ans == "utc-normalised" && s.guard < expect[k].Guard {
			c.Fail("C01:utc-conversion-removed:"+s.fn,
				fmt.Sprintf("%s in %s (%s) on %s is classified utc-normalised with %d .UTC() conversion(s) in the function, now there are %d", s.kind, s.fn, s.file, s.expr, expect[k].Guard, s.guard),
				map[string]string{"kind": s.kind, "file": s.file, "func": s.fn, "expr": s.expr})
		} else if ans == "sorted-after" && s.guard < expect[k].Guard {
			c.Fail("C01:sort-removed:"+s.fn,
				fmt.Sprintf("%s in %s (%s), expression %s is classified sorted-after with %d sorting call(s) in the function, now there are %d", s.kind, s.fn, s.file, s.expr, expect[k].Guard, s.guard),
				map[string]string{"kind": s.kind, "file": s.file, "func": s.fn, "expr": s.expr})
		}
	}
	stale := 0
	for k := range expect {
		if !seen[k] {
			stale++
			c.Rep.Notes = append(c.Rep.Notes, "stale expectation (site no longer in the source): "+k)
		}
	}
	sort.Strings(c.Rep.Notes)
	c.Rep.Rule = fmt.Sprintf("every map range / set iteration / clock / zone / PRNG / goroutine site of %d consensus-path package patterns, regenerated from %s; %d sites, %d stale table rows", len(censusPkgs), repo, len(sites), stale)
	c.Sample(map[string]interface{}{"sites": len(sites), "first": fmt.Sprintf("%s %s %s %s", sites[0].kind, sites[0].file, sites[0].fn, sites[0].expr)})
	return nil
}

func init() {
	hx.Register("C01census", c01census)
}
