package main

// C01balance: the REAL balanceShards (blockchain.go:939, called from applyNewEpoch) with appendToTop and
// calculateDiscriminationStakeThreshold against the Lean model (Model/ShardBalance.lean, driver Drivers/C01B.lean).
//
// The chain histories of channel C01 have about 14 identities, so the multi-shard relocation never runs there.  Here a synthetic
// appstate.AppState on a memdb is filled with N identities (N around the thresholds of CalculateShardsNumber: 2400·c, 5000·c, up to
// ~12000), committed, partly modified again (live objects replace tree values in IterateOverIdentities), the per-shard counters are
// computed as setNewIdentitiesAttributes does, and the real function is called through the export shim.  The protocol lines carry
// the inputs (identities in the real iteration order, counters, the three permutations reproduced with the same
// rand.New(rand.NewSource(int64(total))) sequence) and the answers (new shards number, SetShardSize values, threshold, the shard of
// every identity afterwards).
//
// Independent oracle (no model involved): the same population is built in two separately constructed app states (different
// insertion order into the state, counter maps filled in a different order) and must give the same root, assignment, sizes and
// threshold (C01:balance-replicas-differ); every identity of the three kinds ends in 1..newShardsNum
// (C01:balance-shard-out-of-range); with exact counters the recorded sizes are the actual sizes and sum to the total
// (C01:balance-size-mismatch); identities of other kinds keep their shard (C01:balance-frame); the top-stakes slice is the
// descending list of the `limit` largest stakes (C01:top-stakes-wrong).
import (
	"encoding/json"
	"fmt"
	"math/big"
	"math/rand"
	"os"
	"sort"
	"strings"

	"github.com/idena-network/idena-go/blockchain"
	"github.com/idena-network/idena-go/common"
	"github.com/idena-network/idena-go/common/eventbus"
	"github.com/idena-network/idena-go/core/appstate"
	"github.com/idena-network/idena-go/core/state"
	dbm "github.com/tendermint/tm-db"

	"verifharness/internal/hx"
)

type c01balCase struct {
	Kind    string `json:"kind"`    // "balance" | "top"
	Gen     int64  `json:"gen"`     // PRNG seed of the population
	Total   int    `json:"total"`   // identities of the three kinds in the tree
	Others  int    `json:"others"`  // identities of other states in the tree
	Prev    int    `json:"prev"`    // SetShardsNum before (0 reads as 1)
	Layout  string `json:"layout"`  // prior shards: uniform | skewed | empty | above | single | zero
	Mix     string `json:"mix"`     // kinds: even | verified | newbies | nosuspended | onlysuspended
	Stakes  string `json:"stakes"`  // nil | zero | equal | small | large | mixed
	Live    int    `json:"live"`    // identities changed after the commit (state / shard / stake), so that live objects are iterated
	Fresh   int    `json:"fresh"`   // identities created after the commit (IterateOverIdentities does not visit them)
	Perturb int    `json:"perturb"` // 0 = counters and totals exactly as setNewIdentitiesAttributes computes them; k = k of them changed
	// top
	Limit int      `json:"limit,omitempty"`
	Elems []string `json:"elems,omitempty"`
}

type c01balIdent struct {
	addr  common.Address
	st    state.IdentityState
	shard uint32   // raw ShardId (0 reads as shard 1)
	stake *big.Int // nil = never set
	zero  bool     // stake set and taken again: a non-nil zero
}

type c01balMod struct {
	idx   int // index into the population
	what  int // 0 state, 1 shard, 2 stake, 3 kill
	st    state.IdentityState
	shard uint32
	stake *big.Int
}

func c01balKind(s state.IdentityState) int {
	switch s {
	case state.Verified, state.Human:
		return 0
	case state.Newbie:
		return 1
	case state.Suspended, state.Zombie:
		return 2
	}
	return 3
}

var c01balStates = [4][]state.IdentityState{
	{state.Verified, state.Human}, {state.Newbie}, {state.Suspended, state.Zombie}, {state.Undefined, state.Invite, state.Candidate}}

func c01balStake(r *rand.Rand, mode string) (*big.Int, bool) {
	switch mode {
	case "nil":
		return nil, false
	case "zero":
		if r.Intn(2) == 0 {
			return nil, true
		}
		return nil, false
	case "equal":
		return big.NewInt(123456), false
	case "small":
		if r.Intn(5) == 0 {
			return nil, r.Intn(2) == 0
		}
		return big.NewInt(int64(r.Intn(40))), false
	case "large":
		v := new(big.Int).Rand(r, new(big.Int).Exp(big.NewInt(10), big.NewInt(int64(3+r.Intn(26))), nil))
		return v, false
	}
	switch r.Intn(5) {
	case 0:
		return nil, r.Intn(3) == 0
	case 1:
		return big.NewInt(int64(r.Intn(1000))), false
	case 2:
		return big.NewInt(1000 * int64(1+r.Intn(50))), false // many ties
	default:
		return new(big.Int).Rand(r, new(big.Int).Exp(big.NewInt(10), big.NewInt(int64(3+r.Intn(24))), nil)), false
	}
}

// the population of a case: identities committed to the tree, changes made afterwards, identities created afterwards
func c01balPopulation(cs c01balCase) ([]c01balIdent, []c01balMod, []c01balIdent) {
	r := rand.New(rand.NewSource(cs.Gen))
	if cs.Layout == "witness" {
		// the witness of Props/C01Balance.lean `top_stakes_only_relocated` at real size: two shards stay two shards, shard 1 holds
		// exactly the desired number of verified identities (nobody leaves it) with stake 1e6, shard 2 (emptied and refilled: the
		// condition is `shard >= newShardsNum`) holds the same number with stake 1000
		pop := make([]c01balIdent, 0, cs.Total)
		for i := 0; i < cs.Total; i++ {
			var a common.Address
			r.Read(a[:])
			id := c01balIdent{addr: a, st: state.Verified, shard: 1, stake: big.NewInt(1000000)}
			if i%2 == 1 {
				id.shard, id.stake = 2, big.NewInt(1000)
			}
			pop = append(pop, id)
		}
		return pop, nil, nil
	}
	prev := cs.Prev
	if prev < 1 {
		prev = 1
	}
	// shards an identity may sit in before
	allowed := []uint32{}
	for s := 1; s <= prev; s++ {
		allowed = append(allowed, uint32(s))
	}
	switch cs.Layout {
	case "empty":
		if len(allowed) > 1 {
			k := 1 + r.Intn(len(allowed)-1)
			r.Shuffle(len(allowed), func(i, j int) { allowed[i], allowed[j] = allowed[j], allowed[i] })
			allowed = allowed[:k]
		}
	case "above":
		for s := prev + 1; s <= prev+1+r.Intn(3); s++ {
			allowed = append(allowed, uint32(s))
		}
	case "single":
		allowed = []uint32{allowed[r.Intn(len(allowed))]}
	case "zero":
		allowed = []uint32{0}
	}
	heavy := allowed[r.Intn(len(allowed))]
	shard := func() uint32 {
		if cs.Layout == "skewed" && r.Intn(10) < 7 {
			return heavy
		}
		s := allowed[r.Intn(len(allowed))]
		if s == 1 && r.Intn(4) == 0 {
			return 0 // the raw id 0 reads as shard 1
		}
		return s
	}
	kind := func() int {
		x := r.Intn(100)
		switch cs.Mix {
		case "verified":
			if x < 85 {
				return 0
			}
			return 1 + x%2
		case "newbies":
			if x < 80 {
				return 1
			}
			return (x % 2) * 2
		case "nosuspended":
			return x % 2
		case "onlysuspended":
			return 2
		}
		return x % 3
	}
	seen := map[common.Address]struct{}{}
	addr := func() common.Address {
		for {
			var a common.Address
			r.Read(a[:])
			if r.Intn(6) == 0 {
				a[0], a[1] = 0x7f, byte(r.Intn(3)) // clustered prefixes
			}
			if _, ok := seen[a]; !ok {
				seen[a] = struct{}{}
				return a
			}
		}
	}
	mk := func(k int) c01balIdent {
		sts := c01balStates[k]
		st, z := c01balStake(r, cs.Stakes)
		return c01balIdent{addr: addr(), st: sts[r.Intn(len(sts))], shard: shard(), stake: st, zero: z}
	}
	pop := make([]c01balIdent, 0, cs.Total+cs.Others)
	for i := 0; i < cs.Total; i++ {
		pop = append(pop, mk(kind()))
	}
	for i := 0; i < cs.Others; i++ {
		pop = append(pop, mk(3))
	}
	r.Shuffle(len(pop), func(i, j int) { pop[i], pop[j] = pop[j], pop[i] })
	var mods []c01balMod
	if len(pop) > 0 {
		used := map[int]bool{}
		for i := 0; i < cs.Live; i++ {
			idx := r.Intn(len(pop))
			if used[idx] {
				continue
			}
			used[idx] = true
			m := c01balMod{idx: idx, what: r.Intn(4)}
			switch m.what {
			case 0: // the state changes, possibly to another kind (what the epoch transition did just before)
				sts := c01balStates[r.Intn(4)]
				m.st = sts[r.Intn(len(sts))]
			case 1:
				m.shard = shard()
			case 2:
				m.stake = big.NewInt(int64(1 + r.Intn(100000)))
			}
			mods = append(mods, m)
		}
	}
	var fresh []c01balIdent
	for i := 0; i < cs.Fresh; i++ {
		fresh = append(fresh, mk(r.Intn(4)))
	}
	return pop, mods, fresh
}

func c01balBuild(cs c01balCase, pop []c01balIdent, mods []c01balMod, fresh []c01balIdent, order *rand.Rand) (*appstate.AppState, error) {
	app, err := appstate.NewAppState(dbm.NewMemDB(), eventbus.New())
	if err != nil {
		return nil, err
	}
	put := func(id c01balIdent) {
		app.State.SetState(id.addr, id.st)
		app.State.SetShardId(id.addr, common.ShardId(id.shard))
		if id.stake != nil {
			app.State.AddStake(id.addr, id.stake)
		} else if id.zero {
			app.State.AddStake(id.addr, big.NewInt(7))
			app.State.SubStake(id.addr, big.NewInt(7))
		}
	}
	idx := make([]int, len(pop))
	for i := range idx {
		idx[i] = i
	}
	if order != nil {
		order.Shuffle(len(idx), func(i, j int) { idx[i], idx[j] = idx[j], idx[i] })
	}
	for _, i := range idx {
		put(pop[i])
	}
	app.State.SetShardsNum(uint32(cs.Prev))
	if err := app.Commit(nil); err != nil {
		return nil, err
	}
	mi := make([]int, len(mods))
	for i := range mi {
		mi[i] = i
	}
	if order != nil {
		order.Shuffle(len(mi), func(i, j int) { mi[i], mi[j] = mi[j], mi[i] })
	}
	for _, i := range mi {
		m := mods[i]
		a := pop[m.idx].addr
		switch m.what {
		case 0:
			app.State.SetState(a, m.st)
		case 1:
			app.State.SetShardId(a, common.ShardId(m.shard))
		case 2:
			app.State.AddStake(a, m.stake)
		case 3:
			app.State.SetState(a, state.Killed)
		}
	}
	fi := make([]int, len(fresh))
	for i := range fi {
		fi[i] = i
	}
	if order != nil {
		order.Shuffle(len(fi), func(i, j int) { fi[i], fi[j] = fi[j], fi[i] })
	}
	for _, i := range fi {
		put(fresh[i])
	}
	return app, nil
}

type c01balSeen struct {
	addr  common.Address
	kind  int
	shard uint32 // ShiftedShardId
	stake *big.Int
}

func c01balIterate(app *appstate.AppState) []c01balSeen {
	var res []c01balSeen
	app.State.IterateOverIdentities(func(addr common.Address, identity state.Identity) {
		st := identity.Stake
		if st == nil {
			st = common.Big0
		}
		res = append(res, c01balSeen{addr, c01balKind(identity.State), uint32(identity.ShiftedShardId()), new(big.Int).Set(st)})
	})
	return res
}

// the counters as setNewIdentitiesAttributes computes them (blockchain.go:876, :884, :907), the maps filled in the given order
func c01balCounters(seen []c01balSeen, order *rand.Rand) (tot [3]int, maps [3]map[common.ShardId]int) {
	for k := range maps {
		maps[k] = map[common.ShardId]int{}
	}
	idx := make([]int, len(seen))
	for i := range idx {
		idx[i] = i
	}
	if order != nil {
		order.Shuffle(len(idx), func(i, j int) { idx[i], idx[j] = idx[j], idx[i] })
	}
	for _, i := range idx {
		s := seen[i]
		if s.kind < 3 {
			maps[s.kind][common.ShardId(s.shard)]++
			tot[s.kind]++
		}
	}
	return
}

func c01balCopyMaps(m [3]map[common.ShardId]int, order *rand.Rand) (res [3]map[common.ShardId]int) {
	for k := range m {
		keys := make([]int, 0, len(m[k]))
		for s := range m[k] {
			keys = append(keys, int(s))
		}
		sort.Ints(keys)
		if order != nil {
			order.Shuffle(len(keys), func(i, j int) { keys[i], keys[j] = keys[j], keys[i] })
		}
		res[k] = make(map[common.ShardId]int)
		for _, s := range keys {
			res[k][common.ShardId(s)] = m[k][common.ShardId(s)]
		}
	}
	return
}

func c01balMapToken(m map[common.ShardId]int) string {
	keys := make([]int, 0, len(m))
	for s := range m {
		keys = append(keys, int(s))
	}
	sort.Ints(keys)
	if len(keys) == 0 {
		return "-"
	}
	parts := make([]string, len(keys))
	for i, s := range keys {
		parts[i] = fmt.Sprintf("%d=%d", s, m[common.ShardId(s)])
	}
	return strings.Join(parts, ",")
}

func c01balInts(l []int) string {
	if len(l) == 0 {
		return "-"
	}
	var b strings.Builder
	for i, v := range l {
		if i > 0 {
			b.WriteByte(',')
		}
		fmt.Fprintf(&b, "%d", v)
	}
	return b.String()
}

// how many identities of each kind the selection loop appends to its relocation slice.  Needed only to reproduce the three
// rnd.Perm(len) calls; the Lean model recomputes the lengths itself and answers `outside-domain` when they differ.
func c01balRelocationLens(seen []c01balSeen, tot [3]int, maps [3]map[common.ShardId]int, newNum int) (lens [3]int) {
	cnt := c01balCopyMaps(maps, nil)
	for _, s := range seen {
		if s.kind > 2 {
			continue
		}
		if cnt[s.kind][common.ShardId(s.shard)] > tot[s.kind]/newNum || int(s.shard) >= newNum {
			lens[s.kind]++
			cnt[s.kind][common.ShardId(s.shard)]--
		}
	}
	return
}

type c01balResult struct {
	num    int
	sizes  []int
	thr    string
	after  map[common.Address]c01balSeen
	order  []c01balSeen
	root   common.Hash
	failed string
}

func c01balCall(app *appstate.AppState, tot [3]int, maps [3]map[common.ShardId]int) (res c01balResult) {
	defer func() {
		if r := recover(); r != nil {
			res.failed = fmt.Sprint("panic: ", r)
		}
	}()
	thr := blockchain.VerifC01BalanceShards(app, tot[1], tot[0], tot[2], maps[1], maps[0], maps[2])
	res.thr = "nil"
	if thr != nil {
		res.thr = thr.String()
	}
	res.num = int(app.State.ShardsNum())
	sizes := app.State.ShardSizes()
	for i := 1; i <= res.num; i++ {
		res.sizes = append(res.sizes, int(sizes[common.ShardId(i)]))
	}
	res.order = c01balIterate(app)
	res.after = make(map[common.Address]c01balSeen, len(res.order))
	for _, s := range res.order {
		res.after[s.addr] = s
	}
	if err := app.Commit(nil); err != nil {
		res.failed = "commit: " + err.Error()
		return
	}
	res.root = app.State.Root()
	return
}

func c01balEmit(c *hx.Ctx, cs c01balCase) error {
	if cs.Kind == "top" {
		c01topEmit(c, cs)
		return nil
	}
	pop, mods, fresh := c01balPopulation(cs)
	appA, err := c01balBuild(cs, pop, mods, fresh, nil)
	if err != nil {
		return err
	}
	before := c01balIterate(appA)
	tot, maps := c01balCounters(before, nil)
	// the counters as passed: exact, or a few of them off (the model takes them as data)
	pr := rand.New(rand.NewSource(cs.Gen ^ 0x5bd1e995))
	for i := 0; i < cs.Perturb; i++ {
		k := pr.Intn(3)
		switch pr.Intn(3) {
		case 0:
			tot[k] += pr.Intn(7)
		case 1:
			if tot[k] > 0 {
				tot[k] -= 1 + pr.Intn(min(tot[k], 5))
			}
		default:
			s := common.ShardId(1 + pr.Intn(cs.Prev+2))
			maps[k][s] += pr.Intn(9) - 4
		}
	}
	prev := int(appA.State.ShardsNum())
	total := tot[0] + tot[1] + tot[2]
	newNum := common.CalculateShardsNumber(common.MinShardSize, common.MaxShardSize, total, prev)
	lens := c01balRelocationLens(before, tot, maps, newNum)
	rnd := rand.New(rand.NewSource(int64(total)))
	perms := [3][]int{rnd.Perm(lens[0]), rnd.Perm(lens[1]), rnd.Perm(lens[2])}

	c.Line(fmt.Sprintf("new %d %d %d %d", prev, tot[0], tot[1], tot[2]), "ok")
	csJson, _ := json.Marshal(cs)
	c.Line("case "+string(csJson), "ok") // {"replay": <this>} in a file re-runs the case with --replay
	for k := 0; k < 3; k++ {
		c.Line(fmt.Sprintf("cnt %d %s", k, c01balMapToken(maps[k])), "ok")
	}
	const idChunk = 400
	for i := 0; i < len(before); i += idChunk {
		e := min(i+idChunk, len(before))
		var b strings.Builder
		b.WriteString("ids")
		for _, s := range before[i:e] {
			fmt.Fprintf(&b, " %d:%d:%s", s.kind, s.shard, s.stake.String())
		}
		c.Line(b.String(), fmt.Sprintf("ok %d", e))
	}
	const permChunk = 1000
	for k := 0; k < 3; k++ {
		for i := 0; i < len(perms[k]); i += permChunk {
			e := min(i+permChunk, len(perms[k]))
			c.Line(fmt.Sprintf("perm %d %s", k, c01balInts(perms[k][i:e])), fmt.Sprintf("ok %d", e))
		}
	}

	// the real function, on replica A and on a replica built in another order
	mapsB := c01balCopyMaps(maps, rand.New(rand.NewSource(cs.Gen+1)))
	resA := c01balCall(appA, tot, c01balCopyMaps(maps, nil))
	appB, err := c01balBuild(cs, pop, mods, fresh, rand.New(rand.NewSource(cs.Gen+2)))
	if err != nil {
		return err
	}
	resB := c01balCall(appB, tot, mapsB)
	c.Rep.Evaluations += 2
	if resA.failed != "" {
		c.Fail("C01:balance-crash", resA.failed, cs)
		c.Line("run", "crash")
		return nil
	}
	c.Line("run", fmt.Sprintf("num %d sizes %s thr %s rel %d,%d,%d", resA.num, c01balInts(resA.sizes), resA.thr, lens[0], lens[1], lens[2]))
	const outChunk = 1000
	for i := 0; i < len(before); i += outChunk {
		e := min(i+outChunk, len(before))
		sh := make([]int, 0, e-i)
		for _, s := range before[i:e] {
			sh = append(sh, int(resA.after[s.addr].shard))
		}
		c.Line(fmt.Sprintf("out %d %d", i, e-i), c01balInts(sh))
	}

	// ---- independent oracle ----
	if resB.failed != "" {
		c.Fail("C01:balance-replicas-differ", "second replica: "+resB.failed, cs)
		return nil
	}
	if c.Replay != "" {
		// a replay builds four more replicas: an order-dependent result shows with two replicas only now and then
		for k := int64(3); k < 7 && resA.root == resB.root; k++ {
			appC, err := c01balBuild(cs, pop, mods, fresh, rand.New(rand.NewSource(cs.Gen+k)))
			if err != nil {
				return err
			}
			if resC := c01balCall(appC, tot, c01balCopyMaps(maps, rand.New(rand.NewSource(cs.Gen+10+k)))); resC.failed == "" {
				resB = resC
			}
			c.Rep.Evaluations++
		}
	}
	if resA.root != resB.root || resA.num != resB.num || resA.thr != resB.thr || fmt.Sprint(resA.sizes) != fmt.Sprint(resB.sizes) || len(resA.order) != len(resB.order) {
		c.Fail("C01:balance-replicas-differ", fmt.Sprintf("two app states with the same identities (inserted in different orders): root %x / %x, shards %d / %d, threshold %s / %s, sizes %v / %v",
			resA.root[:6], resB.root[:6], resA.num, resB.num, resA.thr, resB.thr, resA.sizes, resB.sizes), cs)
	} else {
		for i, s := range resA.order {
			if t := resB.order[i]; t.addr != s.addr || t.shard != s.shard {
				c.Fail("C01:balance-replicas-differ", fmt.Sprintf("identity %s ends in shard %d on one replica and %d on the other", s.addr.Hex(), s.shard, resB.after[s.addr].shard), cs)
				break
			}
		}
	}
	actual := map[uint32]int{}
	moved := 0
	for _, s := range before {
		a := resA.after[s.addr]
		if a.shard != s.shard {
			moved++
		}
		if s.kind == 3 {
			if a.shard != s.shard {
				c.Fail("C01:balance-frame", fmt.Sprintf("identity %s of a state outside the three balanced kinds moved from shard %d to %d", s.addr.Hex(), s.shard, a.shard), cs)
			}
			continue
		}
		actual[a.shard]++
		if a.shard < 1 || int(a.shard) > resA.num {
			c.Fail("C01:balance-shard-out-of-range", fmt.Sprintf("identity %s (kind %d, shard before %d) ends in shard %d, shards 1..%d exist", s.addr.Hex(), s.kind, s.shard, a.shard, resA.num), cs)
		}
	}
	if cs.Perturb == 0 {
		sum := 0
		for i, sz := range resA.sizes {
			sum += sz
			if sz != actual[uint32(i+1)] {
				c.Fail("C01:balance-size-mismatch", fmt.Sprintf("SetShardSize(%d, %d) but %d identities of the three kinds are in that shard afterwards", i+1, sz, actual[uint32(i+1)]), cs)
			}
		}
		if sum != total {
			c.Fail("C01:balance-size-mismatch", fmt.Sprintf("recorded shard sizes sum to %d, %d identities were counted", sum, total), cs)
		}
		// observation only (not a C01 matter, no theorem): the remainder loops share one shard id, so sizes differ by at most one
		lo, hi := total, 0
		for _, sz := range resA.sizes {
			lo, hi = min(lo, sz), max(hi, sz)
		}
		if hi-lo <= 1 {
			c.Hit("sizes-within-one")
		} else {
			c.Hit("sizes-apart-more-than-one")
		}
	}
	if cs.Layout == "witness" {
		// what the threshold would be if the stakes of ALL validated identities were offered to appendToTop
		var all []*big.Int
		for _, s := range before {
			if s.kind < 2 {
				all = append(all, s.stake)
			}
		}
		sort.SliceStable(all, func(i, j int) bool { return all[i].Cmp(all[j]) > 0 })
		if len(all) > 100 {
			all = all[:100]
		}
		c.Rep.Notes = append(c.Rep.Notes, fmt.Sprintf("witness top_stakes_only_relocated on the real balanceShards: %d verified identities, %d shards before and after, %d relocated; returned threshold %s, threshold over the 100 largest stakes of all validated identities %s (only identities being relocated are offered to appendToTop; deterministic, not a C01 violation)",
			total, resA.num, lens[0]+lens[1]+lens[2], resA.thr, blockchain.VerifC01DiscriminationStakeThreshold(all)))
	}
	switch {
	case resA.num > prev:
		c.Hit("shards-added")
	case resA.num < prev:
		c.Hit("shards-removed")
	default:
		c.Hit("shards-kept")
	}
	c.Hit(fmt.Sprintf("new-shards-%d", resA.num))
	c.Hit("layout-" + cs.Layout)
	c.Hit("stakes-" + cs.Stakes)
	if cs.Perturb > 0 {
		c.Hit("counters-perturbed")
	}
	if resA.thr == "nil" {
		c.Hit("threshold-nil")
	} else if resA.thr == "0" {
		c.Hit("threshold-zero")
	} else {
		c.Hit("threshold-positive")
	}
	c.HitN("identities", len(before))
	c.HitN("relocated", lens[0]+lens[1]+lens[2])
	c.HitN("moved-to-another-shard", moved)
	key, _ := json.Marshal(cs)
	c.Distinct(string(key))
	return nil
}

// appendToTop / calculateDiscriminationStakeThreshold directly
func c01topEmit(c *hx.Ctx, cs c01balCase) {
	elems := make([]*big.Int, len(cs.Elems))
	for i, e := range cs.Elems {
		elems[i], _ = new(big.Int).SetString(e, 10)
	}
	tok := "-"
	if len(cs.Elems) > 0 {
		tok = strings.Join(cs.Elems, ",")
	}
	show := func(l []*big.Int) string {
		if len(l) == 0 {
			return "-"
		}
		p := make([]string, len(l))
		for i, v := range l {
			p[i] = v.String()
		}
		return strings.Join(p, ",")
	}
	data := make([]*big.Int, 0, cs.Limit)
	for _, e := range elems {
		data = blockchain.VerifC01AppendToTop(data, e, cs.Limit)
	}
	c.Line(fmt.Sprintf("new 1 0 0 0"), "ok")
	c.Line(fmt.Sprintf("top %d %s", cs.Limit, tok), show(data))
	thr := blockchain.VerifC01DiscriminationStakeThreshold(data)
	ans := "nil"
	if thr != nil {
		ans = thr.String()
	}
	c.Line("thr "+show(data), ans)
	c.Rep.Evaluations++
	// oracle: the descending list of the `limit` largest
	sorted := append([]*big.Int{}, elems...)
	sort.SliceStable(sorted, func(i, j int) bool { return sorted[i].Cmp(sorted[j]) > 0 })
	if len(sorted) > cs.Limit {
		sorted = sorted[:cs.Limit]
	}
	if show(sorted) != show(data) {
		c.Fail("C01:top-stakes-wrong", fmt.Sprintf("appendToTop with limit %d over %d stakes gives %s, the largest are %s", cs.Limit, len(elems), show(data), show(sorted)), cs)
	}
	if len(data) > 0 {
		var med *big.Int
		if n := len(data); n%2 == 0 {
			med = new(big.Int).Add(data[n/2-1], data[n/2])
			med.Quo(med, big.NewInt(2))
		} else {
			med = new(big.Int).Set(data[n/2])
		}
		med.Mul(med, big.NewInt(5)).Quo(med, big.NewInt(1000))
		if thr == nil || med.Cmp(thr) != 0 {
			c.Fail("C01:top-stakes-wrong", fmt.Sprintf("threshold of %s is %s, median·5/1000 is %s", show(data), ans, med), cs)
		}
	} else if thr != nil {
		c.Fail("C01:top-stakes-wrong", "threshold of no stakes is not nil", cs)
	}
	c.Hit("top-direct")
	key, _ := json.Marshal(cs)
	c.Distinct(string(key))
}

func c01balGen(c *hx.Ctx, total, prev int, i int) c01balCase {
	r := c.Rng
	layouts := []string{"uniform", "uniform", "skewed", "empty", "above", "single", "zero"}
	mixes := []string{"even", "even", "verified", "newbies", "nosuspended", "onlysuspended"}
	stakes := []string{"mixed", "mixed", "large", "small", "equal", "nil", "zero"}
	cs := c01balCase{Kind: "balance", Gen: r.Int63(), Total: total, Prev: prev, Layout: layouts[r.Intn(len(layouts))], Mix: mixes[r.Intn(len(mixes))],
		Stakes: stakes[r.Intn(len(stakes))]}
	cs.Others = r.Intn(1 + total/20 + 5)
	if total > 0 {
		cs.Live = r.Intn(1 + min(total/4, 300))
	}
	cs.Fresh = r.Intn(20)
	if i%5 == 4 {
		cs.Perturb = 1 + r.Intn(4)
	}
	return cs
}

// (previous shards, total) pairs: the boundaries of CalculateShardsNumber that matter for that number of shards
// (removal: total <= 2400·prev, then halving while total <= 2400·c; addition: total >= 5000·prev, doubling while total >= 5000·c)
func c01balPair(r *rand.Rand, maxTotal int) (prev, total int) {
	prev = []int{1, 1, 2, 2, 2, 3, 4, 4, 4, 5, 6, 8, 8, 16}[r.Intn(14)]
	var bounds []int
	for _, b := range []int{common.MinShardSize * prev, common.MinShardSize * (prev / 2), common.MinShardSize * (prev / 4), common.MinShardSize * (prev / 8),
		common.MaxShardSize * prev, common.MaxShardSize * prev * 2} {
		if b > 0 && b <= maxTotal {
			bounds = append(bounds, b)
		}
	}
	if len(bounds) > 0 && r.Intn(10) < 6 {
		return prev, bounds[r.Intn(len(bounds))] + r.Intn(5) - 2
	}
	if r.Intn(3) == 0 {
		return prev, maxTotal - r.Intn(maxTotal/4)
	}
	return prev, 500 + r.Intn(maxTotal-500)
}

func c01balance(c *hx.Ctx) error {
	c.Rep.Rule = "balanceShards on synthetic app states: totals of the three kinds on the boundaries of CalculateShardsNumber (2400·c, 5000·c ± few for the shard counts in use), tiny and random sizes up to ~12000; previous shards fitting the size, halved, doubled or arbitrary (0..8); prior shards uniform / 70% in one shard / some shards empty / shards above the previous number / one shard / raw id 0; kinds even or dominated by one; stakes nil / non-nil zero / equal / small with ties / up to 1e29; live objects over tree values (state, shard, stake changed after the commit, killed), identities not yet in the tree; every fifth case with counters or totals off by a few (the model takes them as data); appendToTop / threshold directly on random stake lists with limits 0..12 and 100; distinct = distinct cases"
	if c.Replay != "" {
		b, err := os.ReadFile(c.Replay)
		if err != nil {
			return err
		}
		var wrap struct {
			Replay c01balCase `json:"replay"`
		}
		if err := json.Unmarshal(b, &wrap); err != nil || (wrap.Replay.Kind != "balance" && wrap.Replay.Kind != "top") {
			return nil // a replay of another C01 channel
		}
		return c01balEmit(c, wrap.Replay)
	}
	if err := c01balEmit(c, c01balCase{Kind: "balance", Gen: 7, Total: 6000, Prev: 2, Layout: "witness", Mix: "verified", Stakes: "witness"}); err != nil {
		return err
	}
	small := []int{0, 1, 2, 3, 7, 40, 101, 250}
	nBig := c.Scale(16, 400)
	nSmall := c.Scale(15, 400)
	nTop := c.Scale(150, 5000)
	maxTotal := 12500
	idx := 0
	for i := 0; i < nBig; i++ {
		if c.Tier != "quick" && i%25 == 24 {
			maxTotal = 21000 // eight shards need more than 19200 identities
		} else {
			maxTotal = 12500
		}
		prev, total := c01balPair(c.Rng, maxTotal)
		for try := 0; try < 6 && i%4 != 3 && common.CalculateShardsNumber(common.MinShardSize, common.MaxShardSize, total, prev) < 2; try++ {
			prev, total = c01balPair(c.Rng, maxTotal) // three cases in four end with several shards
		}
		cs := c01balGen(c, total, prev, idx)
		idx++
		if err := c01balEmit(c, cs); err != nil {
			return err
		}
		c.Sample(cs)
	}
	for i := 0; i < nSmall; i++ {
		total := small[c.Rng.Intn(len(small))]
		if c.Rng.Intn(3) == 0 {
			total = c.Rng.Intn(700)
		}
		cs := c01balGen(c, total, []int{0, 1, 1, 2, 3, 4, 5, 8}[c.Rng.Intn(8)], idx)
		idx++
		if err := c01balEmit(c, cs); err != nil {
			return err
		}
	}
	for i := 0; i < nTop; i++ {
		cs := c01balCase{Kind: "top", Limit: []int{0, 1, 2, 3, 4, 5, 7, 12, 100}[c.Rng.Intn(9)]}
		n := c.Rng.Intn(30)
		if cs.Limit == 100 {
			n = 80 + c.Rng.Intn(60)
		}
		mode := []string{"mixed", "small", "large", "equal"}[c.Rng.Intn(4)]
		for j := 0; j < n; j++ {
			v, _ := c01balStake(c.Rng, mode)
			if v == nil {
				v = big.NewInt(0)
			}
			cs.Elems = append(cs.Elems, v.String())
		}
		c01topEmit(c, cs)
		if i == 0 {
			c.Sample(cs)
		}
	}
	return nil
}

func init() {
	hx.Register("C01balance", c01balance)
}
