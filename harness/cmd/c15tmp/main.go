package main

import (
	"fmt"
	"math/big"
	"math/rand"
	"os"

	"github.com/idena-network/idena-go/blockchain/attachments"
	"github.com/idena-network/idena-go/blockchain/types"
	"github.com/idena-network/idena-go/common"
	"github.com/idena-network/idena-go/common/eventbus"
	"github.com/idena-network/idena-go/config"
	"github.com/idena-network/idena-go/core/appstate"
	"github.com/idena-network/idena-go/core/state"
	"github.com/idena-network/idena-go/crypto"
	"github.com/idena-network/idena-go/vm/wasm"
	"github.com/idena-network/idena-go/vm/wasm/testdata"
	dbm "github.com/tendermint/tm-db"
)

func cfg() *config.Config {
	return &config.Config{Network: 0x99, Consensus: config.ConsensusVersions[config.ConsensusV12],
		GenesisConf: &config.GenesisConf{Alloc: map[common.Address]config.GenesisAllocation{}},
		Blockchain: &config.BlockchainConfig{}, OfflineDetection: config.GetDefaultOfflineDetectionConfig(), IsDebug: true}
}

func hdr() *types.Header {
	return &types.Header{ProposedHeader: &types.ProposedHeader{Height: 1, Time: 1}}
}

var nonce = uint32(1)

func main() {
	devnull, _ := os.OpenFile("/dev/null", os.O_WRONLY, 0)
	_ = devnull
	rnd := rand.New(rand.NewSource(1))
	key, _ := crypto.GenerateKeyFromSeed(rnd)
	addr := crypto.PubkeyToAddress(key.PublicKey)
	mk := func() *appstate.AppState {
		a, _ := appstate.NewAppState(dbm.NewMemDB(), eventbus.New())
		a.Initialize(0)
		return a
	}
	deploy := func(a *appstate.AppState, code []byte, args ...[]byte) *types.TxReceipt {
		vm := wasm.NewWasmVM(a, nil, hdr(), cfg(), true, nil)
		p, _ := attachments.CreateDeployContractAttachment(common.Hash{}, code, nil, args...).ToBytes()
		tx, _ := types.SignTx(&types.Transaction{AccountNonce: nonce, Type: types.DeployContractTx, Payload: p, Amount: big.NewInt(0)}, key)
		nonce++
		return vm.Run(tx, 50000000)
	}
	call := func(a *appstate.AppState, c common.Address, gas uint64, method string, args ...[]byte) *types.TxReceipt {
		vm := wasm.NewWasmVM(a, nil, hdr(), cfg(), true, nil)
		p, _ := attachments.CreateCallContractAttachment(method, args...).ToBytes()
		tx, _ := types.SignTx(&types.Transaction{AccountNonce: nonce, To: &c, Type: types.CallContractTx, Payload: p, Amount: big.NewInt(0)}, key)
		nonce++
		return vm.Run(tx, gas)
	}
	dump := func(a *appstate.AppState, cs ...common.Address) string {
		s := ""
		for _, c := range cs {
			s += fmt.Sprintf("[%x code=%v bal=%v:", c[:3], a.State.GetCodeHash(c) != nil, a.State.GetBalance(c))
			a.State.IterateContractStore(c, nil, nil, func(k, v []byte) bool {
				if len(v) > 12 {
					v = v[:12]
				}
				s += fmt.Sprintf(" %s=%x", k, v)
				return false
			})
			s += "]"
		}
		return s
	}
	which := os.Args[1]
	switch which {
	case "wallet":
		code, _ := testdata.SharedFungibleToken()
		second := common.Address{111, 16, 67, 101, 164, 106, 165, 108, 212, 68, 160, 27, 240, 49, 207, 98, 95, 98, 34, 6}
		last := ""
		for gas := uint64(1000000); gas <= 80000000; gas += 250000 {
			a := mk()
			rc := deploy(a, code, addr.Bytes(), common.Address{0xA}.Bytes())
			first := rc.ContractAddress
			a.State.SetContractValue(first, []byte("b"), big.NewInt(1000).Bytes())
			a.Commit(nil)
			before := dump(a, first, second)
			rc = call(a, first, gas, "transferTo", common.Address{0x3}.Bytes(), big.NewInt(100).Bytes())
			after := dump(a, first, second)
			line := fmt.Sprintf("success=%v changed=%v err=%v", rc.Success, before != after, rc.Error)
			if line != last {
				fmt.Fprintf(os.Stderr, "gas=%d used=%d %s\n   before %s\n   after  %s\n", gas, rc.GasUsed, line, before, after)
				last = line
			}
		}
	case "cases":
		code, _ := testdata.TestCases()
		code2, _ := testdata.SumFunc()
		last := ""
		for tc := uint32(0); tc < 8; tc++ {
			for gas := uint64(1000000); gas <= 80000000; gas += 250000 {
				a := mk()
				rc := deploy(a, code)
				first := rc.ContractAddress
				a.State.SetBalance(first, new(big.Int).Mul(big.NewInt(1000000), common.DnaBase))
				a.Commit(nil)
				var accts []common.Address
				sumB := func() string {
					t := new(big.Int)
					n := 0
					a.State.IterateOverAccounts(func(ad common.Address, ac state.Account) {
						n++
						if ac.Balance != nil {
							t.Add(t, ac.Balance)
						}
					})
					return fmt.Sprintf("accounts=%d total=%s", n, t)
				}
				_ = accts
				before := dump(a, first) + sumB()
				rc = call(a, first, gas, "test", common.ToBytes(tc), code2)
				after := dump(a, first) + sumB()
				line := fmt.Sprintf("tc=%d success=%v changed=%v err=%v", tc, rc.Success, before != after, rc.Error)
				if line != last {
					fmt.Fprintf(os.Stderr, "gas=%d used=%d %s\n   before %s\n   after  %s\n", gas, rc.GasUsed, line, before, after)
					last = line
				}
			}
		}
	}
}
