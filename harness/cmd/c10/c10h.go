package main

// C10H (D-history): a real single-node chain (shared fixture chainfx: real ProposeBlock/AddBlock, real mempool and
// transaction validation, attached real validation ceremony with short epochs, virtual clock) is driven through
// generated histories rich in online/offline switches, delegations, undelegations, kills and epoch changes.
// After EVERY block:
//   (a) the node's own ValidatorsCache (maintained incrementally by RefreshIfUpdated) must answer every getter like a
//       fresh NewValidatorsCache+Load on the node's IdentityStateDB (what a restarted / fast-synced node builds);
//   (b) the stored registry must agree with the identity ledger: validated <=> status Newbie/Verified/Human; the
//       delegatee of a validated entry = Identity.Delegatee(); online => validated or pool; no empty entry; and the
//       well-formedness invariant of the Lean development (a delegator is validated and offline) holds;
//   (c) correspondence: the stored identity diff of the block is handed to the Lean model (adddiff / upd inc /
//       load fresh) and every getter of both caches is compared with the model's answer.
import (
	"crypto/ecdsa"
	"encoding/binary"
	"encoding/json"
	"fmt"
	"math/rand"
	"os"
	"sort"
	"strconv"
	"strings"
	"time"

	"github.com/idena-network/idena-go/blockchain/types"
	"github.com/idena-network/idena-go/blockchain/validation"
	"github.com/idena-network/idena-go/common"
	"github.com/idena-network/idena-go/config"
	"github.com/idena-network/idena-go/core/state"
	"github.com/idena-network/idena-go/core/validators"
	"github.com/idena-network/idena-go/core/appstate"
	"github.com/idena-network/idena-go/crypto"
	"github.com/idena-network/idena-go/stats/collector"

	"verifharness/internal/chainfx"
	"verifharness/internal/hx"
)

type c10hcase struct {
	Seed   int64  `json:"seed"`
	Users  int    `json:"users"`
	Blocks int    `json:"blocks"`
	World  string `json:"world,omitempty"`  // "epochs": survivable genesis states (Human/Suspended/Zombie/Newbie/Candidate), 14-minute epochs with consistent ceremony plans: three validations per history, non-validated identities delegate before their validation
	Resets bool   `json:"resets,omitempty"` // the node rolls back (chain.ResetTo, as the fork resolver / integrity recovery do) across delegation-switch blocks and at random
	Script string `json:"script,omitempty"`
	// script "invitee-pool": a pool whose owner is not validated. Variant 0: the owner stays an Invite, two validated
	// identities delegate to it, it goes online, its inviter terminates it (KillInviteeTx); 1: the same with an activated
	// Candidate; 2: the Candidate pool terminates its delegators one by one (KillDelegatorTx, pool becomes empty);
	// 3: a validated pool owner goes online and terminates itself (KillTx)
	// script "pool-emptied": genesis (epoch 1) has an ONLINE pool owned by a funded address without identity, with
	// validated delegators of epoch 0.  Variant 0: all (2-3) delegators send UndelegateTx, applied together at one
	// delegation-switch height in a proposed block; 1: the same, but the block of the switch height is an EMPTY block;
	// 2: all delegators but one terminate themselves (KillTx) in one block while the last one's undelegation is pending
	// (flushed by the same identity-update block); 3: a single delegator, undelegation applied in an empty block
	Variant int `json:"variant,omitempty"` // "identityless-pool": one or two validated identities delegate to a funded address without identity record, which goes online; then the ceremonies decide
}

func c10hNat(a common.Address) uint32 { return binary.BigEndian.Uint32(a[:4]) }

type c10hrun struct {
	c      *hx.Ctx
	cs     c10hcase
	h      *chainfx.History
	w      *chainfx.World
	r      *rand.Rand
	xkeys  []*ecdsa.PrivateKey // extra keyed addresses without identity record (pool owners without ledger entry)
	xaddrs []common.Address
	byNat  map[uint32]common.Address
	lean   bool // addresses embed injectively into uint32: emit model lines
	failed map[string]bool
	resets int
	scriptDone bool
	emptyAt    uint64
	killAt     uint64
	chk    *appstate.AppState // long-lived check state, maintained the way the sync / fork-validation paths do
	prev   *types.Header
	kills  int
}

func (x *c10hrun) fail(sig, detail string) {
	if x.failed[sig] {
		return
	}
	x.failed[sig] = true
	x.c.Fail(sig, detail, x.cs)
}

func (x *c10hrun) note(a common.Address) {
	n := c10hNat(a)
	if b, ok := x.byNat[n]; ok && b != a {
		x.lean = false
		x.c.Hit("history:address-prefix-collision(model lines off)")
	}
	x.byNat[n] = a
}

func (x *c10hrun) line(op, ans string) {
	if x.lean {
		x.c.Line(op, ans)
	}
}

func (x *c10hrun) tree() map[common.Address]c10entry {
	m := map[common.Address]c10entry{}
	x.h.N.App.IdentityState.IterateIdentities(func(key []byte, value []byte) bool {
		if key == nil {
			return true
		}
		var a common.Address
		a.SetBytes(key[1:])
		var d state.ApprovedIdentity
		if err := d.FromBytes(value); err != nil {
			return false
		}
		e := c10entry{deleg: -1}
		if d.Validated {
			e.flags |= 1
		}
		if d.Online {
			e.flags |= 2
		}
		if d.Discriminated {
			e.flags |= 4
		}
		if d.Delegatee != nil {
			x.note(*d.Delegatee)
			e.deleg = int64(c10hNat(*d.Delegatee))
		}
		x.note(a)
		m[a] = e
		return false
	})
	return m
}

func (x *c10hrun) universe(tree map[common.Address]c10entry) []uint32 {
	set := map[uint32]bool{}
	for _, a := range x.w.Addrs {
		set[c10hNat(a)] = true
	}
	for _, a := range x.xaddrs {
		set[c10hNat(a)] = true
	}
	for a, e := range tree {
		set[c10hNat(a)] = true
		if e.deleg >= 0 {
			set[uint32(e.deleg)] = true
		}
	}
	var out []uint32
	for n := range set {
		out = append(out, n)
	}
	sort.Slice(out, func(i, j int) bool { return out[i] < out[j] })
	return out
}

// onlineOK: the list of online addresses that are neither validated nor a pool (registry level), as the model prints it
func (x *c10hrun) onlineOK(v *validators.ValidatorsCache) string {
	var bad []uint32
	for _, it := range v.GetAllOnlineValidators().ToSlice() {
		a := it.(common.Address)
		if !v.IsValidated(a) && !v.IsPool(a) {
			bad = append(bad, c10hNat(a))
		}
	}
	sort.Slice(bad, func(i, j int) bool { return bad[i] < bad[j] })
	var it []string
	for _, b := range bad {
		it = append(it, strconv.FormatUint(uint64(b), 10))
	}
	return "[" + strings.Join(it, ",") + "]"
}

// a c10world view over the node's caches so that query/snapshot code is shared with the unit channel
func (x *c10hrun) view(fresh *validators.ValidatorsCache, univ []uint32) *c10world {
	return &c10world{inc: x.h.N.App.ValidatorsCache, fresh: fresh, univ: univ, buckets: map[string]int{}, everDel: map[uint32]bool{}}
}

// c10hAddr maps the embedded number back to the full address (queries are made with full addresses)
func (x *c10hrun) queryLines(w *c10world, univ []uint32) {
	for _, which := range []string{"inc", "fresh"} {
		v := w.inc
		if which == "fresh" {
			v = w.fresh
		}
		x.line("q "+which+" sizes", fmt.Sprintf("net=%d onl=%d vals=%d fork=%d", v.NetworkSize(), v.OnlineSize(), v.ValidatorsSize(), v.ForkCommitteeSize()))
		var sl []string
		for _, a := range v.VerifSortedValidators() {
			sl = append(sl, strconv.FormatUint(uint64(c10hNat(a)), 10))
		}
		x.line("q "+which+" sorted", "["+strings.Join(sl, ",")+"]")
		for _, n := range univ {
			a, ok := x.byNat[n]
			if !ok {
				continue
			}
			b := func(t bool) string {
				if t {
					return "1"
				}
				return "0"
			}
			dl := "-"
			if d := v.Delegator(a); !d.IsEmpty() {
				dl = strconv.FormatUint(uint64(c10hNat(d)), 10)
			}
			x.line(fmt.Sprintf("q %s a %d", which, n), fmt.Sprintf("v%s o%s d%s p%s ps%d dl%s", b(v.IsValidated(a)), b(v.IsOnlineIdentity(a)), b(v.IsDiscriminated(a)), b(v.IsPool(a)), v.PoolSize(a), dl))
			if dels, appr, ok := v.VerifPool(a); ok {
				var ds, as []string
				for _, d := range dels {
					ds = append(ds, strconv.FormatUint(uint64(c10hNat(d)), 10))
				}
				an := make([]uint32, 0, len(appr))
				for _, p := range appr {
					an = append(an, c10hNat(p))
				}
				sort.Slice(an, func(i, j int) bool { return an[i] < an[j] })
				for _, p := range an {
					as = append(as, strconv.FormatUint(uint64(p), 10))
				}
				x.line(fmt.Sprintf("q %s pool %d", which, n), "dels=["+strings.Join(ds, ",")+"] appr=["+strings.Join(as, ",")+"]")
			}
		}
		// committee for the real seed of the head, as block production uses it
		head := x.h.N.Chain.Head
		nv := v.ValidatorsSize()
		for _, lim := range []int{nv, (nv + 1) / 2} {
			round, step := head.Height()+1, uint8(types.Final)
			perm := c10perm(head.Seed(), round, step, nv)
			ps := "-"
			if len(perm) > 0 {
				var it []string
				for _, p := range perm {
					it = append(it, strconv.Itoa(p))
				}
				ps = strings.Join(it, ",")
			}
			sv := v.GetOnlineValidators(head.Seed(), round, step, lim)
			ans := "nil"
			if sv != nil {
				f := func(s interface{ ToSlice() []interface{} }) string {
					var ns []uint32
					for _, e := range s.ToSlice() {
						ns = append(ns, c10hNat(e.(common.Address)))
					}
					sort.Slice(ns, func(i, j int) bool { return ns[i] < ns[j] })
					var it []string
					for _, n := range ns {
						it = append(it, strconv.FormatUint(uint64(n), 10))
					}
					return "[" + strings.Join(it, ",") + "]"
				}
				ans = "orig=" + f(sv.Original) + " vals=" + f(sv.Validators) + " appr=" + f(sv.ApprovedValidators)
			}
			x.line(fmt.Sprintf("q %s com %d %d %s", which, c10hNat(x.h.N.App.State.GodAddress()), lim, ps), ans)
		}
	}
}

// full-address snapshot of every getter (oracle (a); independent of the embedding)
func c10hSnapshot(v *validators.ValidatorsCache, addrs []common.Address, head *types.Header) string {
	var sb strings.Builder
	fmt.Fprintf(&sb, "net=%d onl=%d vals=%d fork=%d sorted=", v.NetworkSize(), v.OnlineSize(), v.ValidatorsSize(), v.ForkCommitteeSize())
	for _, a := range v.VerifSortedValidators() {
		sb.WriteString(a.Hex()[:10] + ",")
	}
	for _, a := range addrs {
		fmt.Fprintf(&sb, " | %s v%v o%v d%v p%v ps%d dl%s", a.Hex()[:10], v.IsValidated(a), v.IsOnlineIdentity(a), v.IsDiscriminated(a), v.IsPool(a), v.PoolSize(a), v.Delegator(a).Hex()[:10])
		if dels, _, ok := v.VerifPool(a); ok {
			for _, d := range dels {
				sb.WriteString(" del:" + d.Hex()[:10])
			}
			for nonce := uint32(0); nonce <= uint32(len(dels)); nonce++ {
				s, k := v.FindSubIdentity(a, nonce)
				fmt.Fprintf(&sb, " sub%d=%s/%d", nonce, s.Hex()[:10], k)
			}
			fmt.Fprintf(&sb, " pse=%d", v.PoolSizeExceptNodes(a, dels[:1]))
		}
	}
	nv := v.ValidatorsSize()
	for _, lim := range []int{0, 1, nv, (nv + 1) / 2, nv + 1} {
		for _, step := range []uint8{1, uint8(types.Final)} {
			sv := v.GetOnlineValidators(head.Seed(), head.Height()+1, step, lim)
			if sv == nil {
				fmt.Fprintf(&sb, " com%d/%d=nil", lim, step)
				continue
			}
			f := func(s interface{ ToSlice() []interface{} }) string {
				var it []string
				for _, e := range s.ToSlice() {
					it = append(it, e.(common.Address).Hex()[:10])
				}
				sort.Strings(it)
				return strings.Join(it, ",")
			}
			fmt.Fprintf(&sb, " com%d/%d=%s;%s;%s", lim, step, f(sv.Original), f(sv.Validators), f(sv.ApprovedValidators))
		}
	}
	return sb.String()
}

func (x *c10hrun) signExtra(i int, tx *types.Transaction) *types.Transaction {
	st := x.h.N.App.State
	ep := st.Epoch()
	nonce := uint32(0)
	if st.GetEpoch(x.xaddrs[i]) == ep {
		nonce = st.GetNonce(x.xaddrs[i])
	}
	tx.AccountNonce, tx.Epoch, tx.MaxFee = nonce+1, ep, chainfx.Dna(200)
	stx, err := types.SignTx(tx, x.xkeys[i])
	if err != nil {
		panic(err)
	}
	return stx
}

// extra traffic aimed at the registry: delegations (also to addresses without identity), undelegations, online
// switches of identities and pools, kills of delegators and of identities
func (x *c10hrun) offer(b int) {
	n, r, w := x.h.N, x.r, x.w
	if n.App.State.ValidationPeriod() != state.NonePeriod {
		return
	}
	nU := len(w.Keys) - 1
	send := func(i int, what string, tx *types.Transaction) {
		if _, err := x.h.S.Send(n, i, tx); err == nil {
			x.c.Hit("offer-ok:" + what)
		} else {
			x.c.Hit("offer-rej:" + what)
			if strings.HasPrefix(what, "delegate-before") {
				x.c.Hit("offer-rej:" + what + ":" + err.Error())
			}
		}
	}
	if b == 2 {
		for i := range x.xaddrs {
			to := x.xaddrs[i]
			send(0, "fund-extra", &types.Transaction{Type: types.SendTx, To: &to, Amount: chainfx.Dna(2000)})
		}
	}
	if x.cs.Script == "invitee-pool" {
		x.inviteePool(b, send)
		return
	}
	if x.cs.Script == "pool-emptied" {
		x.poolEmptied(b, send)
		return
	}
	if x.cs.Script == "identityless-pool" {
		if b == 3 || b == 4 {
			i := 1 + int(x.cs.Seed%2)*4 // user 1 (Verified) or user 5 (Verified)
			if b == 4 {
				i = 3 // Human
			}
			if b == 3 || x.cs.Seed%3 == 0 {
				to := x.xaddrs[0]
				send(i, "delegate", &types.Transaction{Type: types.DelegateTx, To: &to})
			}
		}
		if b >= 6 && n.App.ValidatorsCache.IsPool(x.xaddrs[0]) && !n.App.ValidatorsCache.IsOnlineIdentity(x.xaddrs[0]) && !n.App.State.HasStatusSwitchAddresses(x.xaddrs[0]) {
			if err := n.Pool.AddExternalTxs(validation.InboundTx, x.signExtra(0, chainfx.OnlineTx(true))); err == nil {
				x.c.Hit("offer-ok:online-by-identityless-pool")
			}
		}
		return
	}
	// directed (multi-epoch world): identities that are not validated yet (Candidate / Suspended / Zombie: no registry
	// entry) delegate before their validation; the epoch pass alone can put that delegation into the registry
	if x.cs.World == "epochs" && b >= 3 && b <= 16 {
		for i := 1; i <= nU; i++ {
			ids := n.App.State.GetIdentityState(w.Addrs[i])
			if !ids.NewbieOrBetter() && n.App.State.Delegatee(w.Addrs[i]) == nil && n.App.State.DelegationSwitch(w.Addrs[i]) == nil &&
				!n.App.ValidatorsCache.IsPool(w.Addrs[i]) && r.Intn(3) == 0 {
				pools := []int{0, 0, 1, 2, 7}
				to := w.Addrs[pools[r.Intn(len(pools))]]
				if n.App.State.Delegatee(to) == nil && n.App.State.DelegationSwitch(to) == nil {
					send(i, "delegate-before-validation", &types.Transaction{Type: types.DelegateTx, To: &to})
				}
			}
		}
	}
	// directed: a go-online request left pending, then the same identity kills itself before the next status-switch
	// block (StatusSwitchRange = 3): both txs go into the next block (height % 3 == 1) or the kill one block later
	if next := n.Chain.Head.Height() + 1; next%3 == 1 && x.kills < 3 && b > 3 && r.Intn(3) == 0 {
		for _, i := range r.Perm(nU) {
			i++
			a := w.Addrs[i]
			ids := n.App.State.GetIdentityState(a)
			if (ids == state.Verified || ids == state.Human) && !n.App.ValidatorsCache.IsOnlineIdentity(a) && !n.App.ValidatorsCache.IsPool(a) &&
				!n.App.State.HasStatusSwitchAddresses(a) && n.App.State.Delegatee(a) == nil && n.App.State.DelegationSwitch(a) == nil {
				send(i, "online-then-self-kill:online", chainfx.OnlineTx(true))
				send(i, "online-then-self-kill:kill", &types.Transaction{Type: types.KillTx})
				x.kills++
				break
			}
		}
	}
	for j, k := 0, r.Intn(4); j < k; j++ {
		i := 1 + r.Intn(nU)
		switch r.Intn(10) {
		case 0, 1, 2:
			var to common.Address
			switch r.Intn(4) {
			case 0:
				to = x.xaddrs[r.Intn(len(x.xaddrs))]
			default:
				to = w.Addrs[r.Intn(len(w.Addrs))]
			}
			send(i, "delegate", &types.Transaction{Type: types.DelegateTx, To: &to})
		case 3:
			send(i, "undelegate", &types.Transaction{Type: types.UndelegateTx})
		case 4, 5:
			on := !n.App.ValidatorsCache.IsOnlineIdentity(w.Addrs[i])
			if r.Intn(5) == 0 {
				on = !on
			}
			send(i, "online", chainfx.OnlineTx(on))
		case 6:
			// a pool without identity record switches itself online / offline
			xi := r.Intn(len(x.xaddrs))
			on := !n.App.ValidatorsCache.IsOnlineIdentity(x.xaddrs[xi])
			stx := x.signExtra(xi, chainfx.OnlineTx(on))
			if err := n.Pool.AddExternalTxs(validation.InboundTx, stx); err == nil {
				x.c.Hit("offer-ok:online-by-identityless-pool")
			} else {
				x.c.Hit("offer-rej:online-by-identityless-pool")
			}
		case 7:
			// pool owner kills one of its delegators
			for _, a := range w.Addrs {
				if d := n.App.State.Delegatee(a); d != nil && *d == w.Addrs[i] {
					to := a
					send(i, "kill-delegator", &types.Transaction{Type: types.KillDelegatorTx, To: &to})
					break
				}
			}
		case 8:
			if r.Intn(3) == 0 {
				send(i, "kill", &types.Transaction{Type: types.KillTx})
			}
		default:
			to := w.Addrs[r.Intn(len(w.Addrs))]
			send(i, "replenish", &types.Transaction{Type: types.ReplenishStakeTx, To: &to, Amount: chainfx.Dna(int64(1 + r.Intn(30)))})
		}
	}
}

// poolEmptied: see c10hcase ("pool-emptied").  The transactions are offered so that they are included at a height
// ≡ 1 (mod 3) and stay pending until the switch height ≡ 0 (mod 3); x.emptyAt tells step() to let that height be an
// empty block.
func (x *c10hrun) poolEmptied(b int, send func(i int, what string, tx *types.Transaction)) {
	n, w := x.h.N, x.w
	if x.killAt != 0 && n.Chain.Head.Height()+1 == x.killAt {
		dels := c10hScriptDelegators(x.cs)
		for _, d := range dels[:len(dels)-1] {
			send(d, "script:delegators-kill-themselves-in-one-block", &types.Transaction{Type: types.KillTx})
		}
		x.killAt = 0
	}
	if x.scriptDone || b < 3 {
		return
	}
	pool := x.xaddrs[0]
	if !n.App.ValidatorsCache.IsOnlineIdentity(pool) {
		// the pool (an address without identity) switches itself online first
		if !n.App.State.HasStatusSwitchAddresses(pool) && len(n.Pool.GetPendingByAddress(pool)) == 0 {
			if err := n.Pool.AddExternalTxs(validation.InboundTx, x.signExtra(0, chainfx.OnlineTx(true))); err == nil {
				x.c.Hit("offer-ok:script:identityless-pool-online")
			} else {
				x.c.Hit("offer-rej:script:identityless-pool-online:" + err.Error())
			}
		}
		return
	}
	next := n.Chain.Head.Height() + 1
	if next%3 != 1 {
		return
	}
	dels := c10hScriptDelegators(x.cs)
	x.scriptDone = true
	switch x.cs.Variant {
	case 0, 1, 3:
		for _, d := range dels {
			send(d, "script:undelegate-all-at-one-switch", &types.Transaction{Type: types.UndelegateTx})
		}
		if x.cs.Variant != 0 {
			x.emptyAt = next + 2
		}
	case 2:
		last := dels[len(dels)-1]
		send(last, "script:undelegate-pending", &types.Transaction{Type: types.UndelegateTx})
		x.killAt = next + 1
	}
	_ = w
}

// inviteePool drives the scripted scenario family (see c10hcase.Variant) by polling the node's state every block.
func (x *c10hrun) inviteePool(b int, send func(i int, what string, tx *types.Transaction)) {
	n, w := x.h.N, x.w
	st, vc := n.App.State, n.App.ValidatorsCache
	sendX := func(what string, tx *types.Transaction) {
		if err := n.Pool.AddExternalTxs(validation.InboundTx, x.signExtra(1, tx)); err == nil {
			x.c.Hit("offer-ok:" + what)
		} else {
			x.c.Hit("offer-rej:" + what + ":" + err.Error())
		}
	}
	pending := func(a common.Address) bool { return len(n.Pool.GetPendingByAddress(a)) > 0 }
	dels := []int{1, 3}
	if x.cs.Variant == 3 {
		// validated owner: user 9 (Human)
		owner := w.Addrs[9]
		if st.GetIdentityState(owner) == state.Killed {
			return
		}
		for _, d := range dels {
			if st.Delegatee(w.Addrs[d]) == nil && st.DelegationSwitch(w.Addrs[d]) == nil && !pending(w.Addrs[d]) && b >= 3 {
				to := owner
				send(d, "script:delegate-to-validated-owner", &types.Transaction{Type: types.DelegateTx, To: &to})
			}
		}
		if vc.IsPool(owner) && vc.PoolSize(owner) >= 3 && !pending(owner) {
			if !vc.IsOnlineIdentity(owner) {
				if !st.HasStatusSwitchAddresses(owner) {
					send(9, "script:owner-online", chainfx.OnlineTx(true))
				}
			} else {
				send(9, "script:online-pool-owner-kills-itself", &types.Transaction{Type: types.KillTx})
			}
		}
		return
	}
	X := x.xaddrs[1]
	switch st.GetIdentityState(X) {
	case state.Undefined:
		if b >= 3 && !pending(w.Addrs[0]) {
			to := X
			send(0, "script:invite", &types.Transaction{Type: types.InviteTx, To: &to, Amount: chainfx.Dna(300)})
		}
		return
	case state.Killed:
		return
	case state.Invite:
		if x.cs.Variant != 0 {
			if !pending(X) {
				to := X
				sendX("script:activate", &types.Transaction{Type: types.ActivationTx, To: &to, Payload: crypto.FromECDSAPub(&x.xkeys[1].PublicKey)})
			}
			return
		}
	}
	// X is the intended pool owner (Invite for variant 0, Candidate otherwise)
	for _, d := range dels {
		if st.GetIdentityState(w.Addrs[d]).NewbieOrBetter() && st.Delegatee(w.Addrs[d]) == nil && st.DelegationSwitch(w.Addrs[d]) == nil && !pending(w.Addrs[d]) {
			to := X
			send(d, "script:delegate-to-invitee", &types.Transaction{Type: types.DelegateTx, To: &to})
		}
	}
	if !vc.IsPool(X) || pending(X) {
		return
	}
	if !vc.IsOnlineIdentity(X) {
		if vc.PoolSize(X) >= 2 && !st.HasStatusSwitchAddresses(X) {
			sendX("script:invitee-pool-online", chainfx.OnlineTx(true))
		}
		return
	}
	x.c.Hit("script:invitee-pool-is-online")
	if x.cs.Variant == 2 {
		for _, d := range dels {
			if dd := st.Delegatee(w.Addrs[d]); dd != nil && *dd == X {
				to := w.Addrs[d]
				sendX("script:pool-kills-delegator", &types.Transaction{Type: types.KillDelegatorTx, To: &to})
				return
			}
		}
		return
	}
	if inv := st.GetInviter(X); inv != nil && inv.Address == w.Addrs[0] && !pending(w.Addrs[0]) {
		to := X
		send(0, "script:inviter-kills-online-invitee-pool", &types.Transaction{Type: types.KillInviteeTx, To: &to})
	}
}

func (x *c10hrun) check(blk *types.Block, fresh *validators.ValidatorsCache, tree map[common.Address]c10entry) {
	n := x.h.N
	height := blk.Height()
	// (a) incremental vs rebuilt
	addrSet := map[common.Address]bool{}
	for _, a := range x.w.Addrs {
		addrSet[a] = true
	}
	for _, a := range x.xaddrs {
		addrSet[a] = true
	}
	for a := range tree {
		addrSet[a] = true
	}
	var addrs []common.Address
	for a := range addrSet {
		addrs = append(addrs, a)
	}
	sort.Slice(addrs, func(i, j int) bool { return strings.Compare(string(addrs[i][:]), string(addrs[j][:])) < 0 })
	x.checkReused(blk, addrs)
	a1 := c10hSnapshot(n.App.ValidatorsCache, addrs, n.Chain.Head)
	a2 := c10hSnapshot(fresh, addrs, n.Chain.Head)
	x.c.Hit("oracle:incremental-vs-rebuild evaluated")
	if a1 != a2 {
		x.fail("C10H:incremental-differs-from-rebuild", fmt.Sprintf("height %d flags %v:\n  node's cache %s\n  rebuilt      %s", height, blk.Header.Flags(), a1, a2))
	}
	// (b) registry vs ledger
	st := n.App.State
	for a, e := range tree {
		id := st.GetIdentity(a)
		if e.empty() {
			x.fail("C10H:empty-entry-stored", fmt.Sprintf("height %d: %s stored with flags %d", height, a.Hex(), e.flags))
		}
		if e.validated() != id.State.NewbieOrBetter() {
			x.fail("C10H:registry-validated-but-ledger-status-differs", fmt.Sprintf("height %d: %s registry validated=%v, ledger status %d", height, a.Hex(), e.validated(), id.State))
		}
		if e.validated() {
			ld := int64(-1)
			if d := id.Delegatee(); d != nil {
				ld = int64(c10hNat(*d))
			}
			if ld != e.deleg {
				x.fail("C10H:registry-delegatee-differs-from-ledger", fmt.Sprintf("height %d: %s registry delegatee %d, ledger %d", height, a.Hex(), e.deleg, ld))
			}
		}
		if e.online() && !e.validated() && !fresh.IsPool(a) {
			x.fail("C10H:online-but-neither-validated-nor-pool", fmt.Sprintf("height %d: %s is stored online, not validated, and nobody delegates to it (ledger status %d)", height, a.Hex(), id.State))
		}
		if e.deleg >= 0 && !e.validated() {
			x.fail("C10H:stored-nonvalidated-entry-with-delegatee(nonWF)", fmt.Sprintf("height %d: %s flags %d delegatee %d", height, a.Hex(), e.flags, e.deleg))
		}
		if e.deleg >= 0 && e.online() {
			x.c.Hit("registry:online-delegator(WF2 broken, WFReg may still hold)")
			x.fail("C10H:online-delegator", fmt.Sprintf("height %d: %s flags %d delegatee %d", height, a.Hex(), e.flags, e.deleg))
		}
	}
	// the ledger clause, stated independently of registry and caches: whoever is online is a validated identity of the
	// ledger or has at least one delegator in the ledger
	ledgerPools := map[common.Address]bool{}
	st.IterateOverIdentities(func(a common.Address, id state.Identity) {
		if d := id.Delegatee(); d != nil {
			ledgerPools[*d] = true
		}
	})
	onlineSets := map[string][]common.Address{"registry": nil, "node's cache": nil, "rebuilt cache": nil}
	for a, e := range tree {
		if e.online() {
			onlineSets["registry"] = append(onlineSets["registry"], a)
		}
	}
	for _, it := range n.App.ValidatorsCache.GetAllOnlineValidators().ToSlice() {
		onlineSets["node's cache"] = append(onlineSets["node's cache"], it.(common.Address))
	}
	for _, it := range fresh.GetAllOnlineValidators().ToSlice() {
		onlineSets["rebuilt cache"] = append(onlineSets["rebuilt cache"], it.(common.Address))
	}
	for where, as := range onlineSets {
		for _, a := range as {
			if !st.GetIdentityState(a).NewbieOrBetter() && !ledgerPools[a] {
				x.fail("C10H:online-address-neither-validated-nor-pool", fmt.Sprintf("height %d (empty block: %v, flags %v): %s is online in the %s, its ledger status is %d and no identity of the ledger delegates to it", height, blk.IsEmpty(), blk.Header.Flags(), a.Hex(), where, st.GetIdentityState(a)))
			}
		}
	}
	x.c.Hit("oracle:ledger-clause(online => validated or pool) evaluated")
	st.IterateOverIdentities(func(a common.Address, id state.Identity) {
		if id.State.NewbieOrBetter() {
			if e, ok := tree[a]; !ok || !e.validated() {
				x.fail("C10H:ledger-validated-but-registry-not", fmt.Sprintf("height %d: %s ledger status %d, registry entry %v", height, a.Hex(), id.State, ok))
			}
		}
	})
	x.c.Hit("oracle:registry-vs-ledger evaluated")
}

// step: one block.  Even seeds take the full-sync path of protocol/full.go (AddBlock(block, checkState) on the
// long-lived check state, then checkState.FinalizePrecommit(block)); odd seeds insert normally and then treat the
// block as ValidateSubChain does (validateBlock on the long-lived check state, FinalizePrecommit).
func (x *c10hrun) step(b int) (*types.Block, error) {
	h, n := x.h, x.h.N
	h.OfferTxs(b)
	chainfx.Advance(h.O.BlockStep)
	if !n.IsEligibleProposer() {
		return nil, chainfx.ErrNotEligible
	}
	var blk *types.Block
	if x.emptyAt != 0 && n.Chain.Head.Height()+1 == x.emptyAt {
		// nobody proposed in this round: the network agrees on the empty block
		blk = n.Chain.GenerateEmptyBlock()
		x.emptyAt = 0
		x.c.Hit("blocks:empty-block-at-switch-height")
	} else {
		p, err := n.Propose()
		if err != nil {
			return nil, err
		}
		blk = p.Block
	}
	syncPath := x.chk != nil && x.cs.Seed%2 == 0
	guard := func(f func() error) (err error) {
		defer func() {
			if r := recover(); r != nil {
				err = fmt.Errorf("panic: %v", r)
			}
		}()
		return f()
	}
	dropChk := func(err error) {
		x.fail("C10:reused-check-state-rejects-canonical-block", fmt.Sprintf("height %d: %v", blk.Height(), err))
		x.chk = nil
	}
	if x.chk != nil && !syncPath {
		// as ValidateSubChain: the block is validated on the long-lived check state against the previous header
		// (before the ceremony object sees the block, as on a node that validates a fork)
		if err := guard(func() error { return n.Chain.VerifValidateBlockOn(x.chk, blk, x.prev) }); err != nil {
			dropChk(err)
		}
	}
	var cs *appstate.AppState
	if syncPath {
		cs = x.chk
	}
	if err := guard(func() error { return n.Chain.AddBlock(blk, cs, collector.NewStatsCollector()) }); err != nil {
		return nil, fmt.Errorf("own block rejected (check state reused=%v): %w", syncPath, err)
	}
	if n.VC != nil {
		n.VC.FxOnBlock(blk)
	}
	h.Height = int(blk.Height())
	if x.chk != nil {
		if err := guard(func() error { return x.chk.FinalizePrecommit(blk) }); err != nil {
			dropChk(err)
		}
		x.prev = blk.Header
	}
	return blk, nil
}

// the long-lived check state must carry the same validator view as a rebuild from its own stored state and as the node
func (x *c10hrun) checkReused(blk *types.Block, addrs []common.Address) {
	if x.chk == nil {
		return
	}
	n := x.h.N
	re := validators.NewValidatorsCache(x.chk.IdentityState, x.chk.State.GodAddress())
	re.Load()
	a0 := c10hSnapshot(x.chk.ValidatorsCache, addrs, n.Chain.Head)
	a1 := c10hSnapshot(re, addrs, n.Chain.Head)
	a2 := c10hSnapshot(n.App.ValidatorsCache, addrs, n.Chain.Head)
	x.c.Hit("oracle:reused-check-state evaluated")
	if a0 != a1 {
		x.fail("C10:reused-check-state-cache-stale", fmt.Sprintf("height %d flags %v: validator view of the reused check state differs from a rebuild of its own stored state:\n  check state %s\n  rebuilt     %s", blk.Height(), blk.Header.Flags(), a0, a1))
	} else if a0 != a2 {
		x.fail("C10:reused-check-state-cache-stale:vs-node", fmt.Sprintf("height %d flags %v: validator view of the reused check state differs from the node's:\n  check state %s\n  node        %s", blk.Height(), blk.Header.Flags(), a0, a2))
	}
}

func (x *c10hrun) allAddrs(tree map[common.Address]c10entry) []common.Address {
	set := map[common.Address]bool{}
	for _, a := range x.w.Addrs {
		set[a] = true
	}
	for _, a := range x.xaddrs {
		set[a] = true
	}
	for a := range tree {
		set[a] = true
	}
	for _, a := range x.byNat {
		set[a] = true
	}
	var addrs []common.Address
	for a := range set {
		addrs = append(addrs, a)
	}
	sort.Slice(addrs, func(i, j int) bool { return strings.Compare(string(addrs[i][:]), string(addrs[j][:])) < 0 })
	return addrs
}

// rollback: chain.ResetTo (fork resolver switching branches, EnsureIntegrity, full-sync error recovery) reloads the
// node's long-lived cache IN PLACE; it must then answer like a cache rebuilt from the restored state.
func (x *c10hrun) rollback(target uint64) (map[common.Address]c10entry, error) {
	n := x.h.N
	from := n.Chain.Head.Height()
	if _, err := n.Chain.ResetTo(target); err != nil {
		return nil, err
	}
	x.resets++
	x.h.Height = int(target)
	x.c.Hit(fmt.Sprintf("rollback:depth-%d", from-target))
	tree := x.tree()
	fresh := validators.NewValidatorsCache(n.App.IdentityState, n.App.State.GodAddress())
	fresh.Load()
	addrs := x.allAddrs(tree)
	a1 := c10hSnapshot(n.App.ValidatorsCache, addrs, n.Chain.Head)
	a2 := c10hSnapshot(fresh, addrs, n.Chain.Head)
	x.c.Hit("oracle:cache-after-rollback evaluated")
	if a1 != a2 {
		x.fail("C10:cache-after-rollback-differs-from-rebuild", fmt.Sprintf("ResetTo(%d) from height %d: the node's reloaded validator view differs from a rebuild of the restored state:\n  node's cache %s\n  rebuilt      %s", target, from, a1, a2))
	}
	if chk, err := n.App.ForCheckWithOverwrite(target); err == nil {
		x.chk, x.prev = chk, n.Chain.Head
	} else {
		x.chk = nil
	}
	// new synchronisation point with the model
	var gen []c10diffval
	for a, e := range tree {
		gen = append(gen, c10diffval{addr: c10hNat(a), e: e})
	}
	sort.Slice(gen, func(i, j int) bool { return gen[i].addr < gen[j].addr })
	x.line("new", "ok")
	x.line("adddiff "+c10showDiff(gen), "ok")
	x.line("load inc", "ok")
	return tree, nil
}

func c10hScriptDelegators(cs c10hcase) []int {
	if cs.Variant == 3 {
		return []int{1}
	}
	if cs.Seed%2 == 0 {
		return []int{1, 3, 5} // Verified, Human, Verified
	}
	return []int{1, 3}
}

func c10hOpts(cs c10hcase) chainfx.HistoryOpts {
	o := chainfx.HistoryOpts{Blocks: cs.Blocks, ShortEpochs: true, TxPerBlock: 2, WithFlips: cs.Seed%3 != 0}
	if cs.World == "epochs" {
		return chainfx.HistoryOpts{Blocks: cs.Blocks, TxPerBlock: 2, WithFlips: true, MoreFlips: true, Always: map[int]bool{0: true}}
	}
	if cs.Script == "identityless-pool" {
		o.WithFlips, o.TxPerBlock = true, 1
	}
	if cs.Script == "pool-emptied" {
		// no ceremony, nobody sends random transactions (a stray kill would flush the pending switch early)
		al := map[int]bool{}
		for i := 1; i <= cs.Users; i++ {
			al[i] = true
		}
		return chainfx.HistoryOpts{Blocks: cs.Blocks, TxPerBlock: 1, Always: al}
	}
	if cs.Script == "invitee-pool" {
		// no ceremony within the history (first ceremony in 2099); the scripted identities send no random transactions
		return chainfx.HistoryOpts{Blocks: cs.Blocks, TxPerBlock: 1, Always: map[int]bool{1: true, 3: true, 9: true}}
	}
	return o
}

func before0(prev map[common.Address]c10entry, byNat map[uint32]common.Address, n uint32) (c10entry, bool) {
	a, ok := byNat[n]
	if !ok {
		return c10entry{}, false
	}
	e, ok := prev[a]
	return e, ok
}

func fresh0IsPool(m map[common.Address]bool, a common.Address) bool { return m[a] }

func c10hRun(c *hx.Ctx, cs c10hcase) error {
	r := rand.New(rand.NewSource(cs.Seed))
	w := chainfx.NewWorld(cs.Seed, cs.Users, 0, time.Date(2030, 1, 1, 0, 0, 0, 0, time.UTC))
	if cs.World == "epochs" {
		w = chainfx.NewWorldStates(cs.Seed, cs.Users, 0, time.Date(2030, 1, 1, 0, 0, 0, 0, time.UTC), state.Human,
			[]state.IdentityState{state.Human, state.Human, state.Suspended, state.Zombie, state.Newbie, state.Candidate, state.Human, state.Suspended, state.Candidate, state.Newbie})
		w.Opts.Validation = &config.ValidationConfig{ValidationInterval: 14 * time.Minute, FlipLotteryDuration: 2 * time.Minute,
			ShortSessionDuration: time.Minute, LongSessionDuration: 2 * time.Minute}
		w.Opts.FirstCeremony = w.T0.Add(8 * time.Minute).Unix()
	}
	var scriptPool common.Address
	if cs.Script == "pool-emptied" {
		k := chainfx.DetKey(cs.Seed, 1000)
		scriptPool = crypto.PubkeyToAddress(k.PublicKey)
		dels := c10hScriptDelegators(cs)
		w.Genesis = func(app *appstate.AppState) {
			app.State.SetGlobalEpoch(1)
			app.State.SetBalance(scriptPool, chainfx.Dna(5000))
			for _, d := range dels {
				app.State.SetDelegatee(w.Addrs[d], scriptPool)
				app.State.SetDelegationEpoch(w.Addrs[d], 0)
				app.IdentityState.SetDelegatee(w.Addrs[d], scriptPool)
			}
		}
	}
	h, err := chainfx.Bootstrap(w, c10hOpts(cs), r, true)
	if err != nil {
		return err
	}
	defer os.RemoveAll("./testdata")
	defer os.RemoveAll("./testdata2")
	x := &c10hrun{c: c, cs: cs, h: h, w: w, r: r, byNat: map[uint32]common.Address{}, lean: true, failed: map[string]bool{}}
	for i := 0; i < 2; i++ {
		k := chainfx.DetKey(cs.Seed, 1000+i)
		x.xkeys = append(x.xkeys, k)
		x.xaddrs = append(x.xaddrs, crypto.PubkeyToAddress(k.PublicKey))
	}
	for _, a := range append(append([]common.Address{}, w.Addrs...), x.xaddrs...) {
		x.note(a)
	}
	x.note(h.N.App.State.GodAddress())
	// synchronisation point with the model: the registry after genesis
	tree := x.tree()
	var gen []c10diffval
	for a, e := range tree {
		gen = append(gen, c10diffval{addr: c10hNat(a), e: e})
	}
	sort.Slice(gen, func(i, j int) bool { return gen[i].addr < gen[j].addr })
	x.line("new", "ok")
	x.line("adddiff "+c10showDiff(gen), "ok")
	x.line("load inc", "ok")
	prevTree := tree
	prevPools := map[common.Address]bool{}
	if chk, err := h.N.App.ForCheckWithOverwrite(h.N.Chain.Head.Height()); err == nil {
		x.chk, x.prev = chk, h.N.Chain.Head
	} else {
		x.fail("C10H:history-broken", "ForCheckWithOverwrite: "+err.Error())
	}
	type hinfo struct {
		epoch uint16
		none  bool
	}
	hist := map[uint64]hinfo{}
	for b := 1; b <= cs.Blocks; b++ {
		x.offer(b)
		blk, err := x.step(b)
		if err == chainfx.ErrNotEligible {
			c.Hit("history-ended:proposer-not-eligible")
			break
		}
		if err != nil {
			x.fail("C10H:history-broken", err.Error())
			break
		}
		c.Hit("blocks")
		fresh := validators.NewValidatorsCache(h.N.App.IdentityState, h.N.App.State.GodAddress())
		fresh.Load()
		for _, tx := range blk.Body.Transactions {
			c.Hit(fmt.Sprintf("included-tx-type:%d", tx.Type))
		}
		flags := blk.Header.Flags()
		if flags.HasFlag(types.ValidationFinished) {
			c.Hit("blocks:epoch-change")
			for a, e := range prevTree {
				if e.validated() && !h.N.App.State.GetIdentityState(a).NewbieOrBetter() {
					c.Hit("epoch:identity-lost-validated-status")
					if e.deleg >= 0 {
						c.Hit("epoch:delegator-lost-validated-status")
					}
					if h.N.App.ValidatorsCache.IsPool(a) || fresh0IsPool(prevPools, a) {
						c.Hit("epoch:pool-owner-lost-validated-status")
					}
				}
			}
			for _, a := range x.xaddrs {
				if prevPools[a] && !fresh.IsPool(a) {
					c.Hit("epoch:identityless-pool-lost-all-delegators")
					if e, ok := prevTree[a]; ok && e.online() {
						c.Hit("epoch:identityless-pool-lost-all-delegators-while-online")
					}
				}
			}
			for _, a := range w.Addrs {
				if _, ok := prevTree[a]; !ok && h.N.App.State.GetIdentityState(a).NewbieOrBetter() {
					c.Hit("epoch:identity-gained-validated-status")
				}
			}
		}
		if flags.HasFlag(types.IdentityUpdate) {
			c.Hit("blocks:identity-update")
		}
		tree = x.tree()
		delegChanged := false
		diff := h.N.Chain.GetIdentityDiff(blk.Height())
		if diff != nil && len(diff.Values) > 0 {
			c.Hit("blocks:non-empty-identity-diff")
			var vals []c10diffval
			for _, v := range diff.Values {
				x.note(v.Address)
				dv := c10diffval{addr: c10hNat(v.Address), deleted: v.Deleted, e: c10entry{deleg: -1}}
				if !v.Deleted {
					var d state.ApprovedIdentity
					if err := d.FromBytes(v.Value); err == nil {
						if d.Validated {
							dv.e.flags |= 1
						}
						if d.Online {
							dv.e.flags |= 2
						}
						if d.Discriminated {
							dv.e.flags |= 4
						}
						if d.Delegatee != nil {
							x.note(*d.Delegatee)
							dv.e.deleg = int64(c10hNat(*d.Delegatee))
						}
					}
				}
				vals = append(vals, dv)
			}
			for _, v := range vals {
				old, had := before0(prevTree, x.byNat, v.addr)
				if (!v.deleted && v.e.deleg >= 0 && (!had || old.deleg != v.e.deleg)) || (had && old.deleg >= 0 && (v.deleted || v.e.deleg != old.deleg)) {
					delegChanged = true
				}
			}
			if !c10diffWF(vals) {
				c.Hit("blocks:nonWF-diff")
				x.fail("C10H:chain-emitted-nonWF-diff", fmt.Sprintf("height %d: %s", blk.Height(), c10showDiff(vals)))
			}
			// distribution of diff shapes (same buckets as the unit channel)
			before := map[uint32]c10entry{}
			for a, e := range prevTree {
				before[c10hNat(a)] = e
			}
			sh := &c10world{buckets: map[string]int{}, everDel: map[uint32]bool{}}
			sh.noteDiffShape(vals, before)
			for k, n := range sh.buckets {
				for i := 0; i < n; i++ {
					c.Hit("chain-" + k)
				}
			}
			x.line("adddiff "+c10showDiff(vals), "ok")
			if flags.HasFlag(types.IdentityUpdate) {
				x.line("upd inc", "ok")
			} else {
				c.Hit("blocks:identity-diff-without-IdentityUpdate-flag")
			}
			x.line("load fresh", "ok")
			x.line("q fresh onlineok", x.onlineOK(fresh))
			x.queryLines(x.view(fresh, nil), x.universe(tree))
		}
		x.check(blk, fresh, tree)
		hist[blk.Height()] = hinfo{h.N.App.State.Epoch(), h.N.App.State.ValidationPeriod() == state.NonePeriod}
		if cs.Resets && x.resets < 4 && b > 5 && b < cs.Blocks-3 && hist[blk.Height()].none && ((delegChanged && r.Intn(2) == 0) || r.Intn(30) == 0) {
			target := blk.Height() - uint64(1+r.Intn(3))
			ok := target >= 2
			for hh := target; ok && hh <= blk.Height(); hh++ {
				if i, seen := hist[hh]; !seen || !i.none || i.epoch != hist[blk.Height()].epoch {
					ok = false
				}
			}
			if ok {
				if delegChanged {
					c.Hit("rollback:across-delegation-change")
				}
				t2, err := x.rollback(target)
				if err != nil {
					x.fail("C10H:history-broken", "ResetTo: "+err.Error())
					break
				}
				tree = t2
			}
		}
		prevTree = tree
		prevPools = map[common.Address]bool{}
		for _, e := range tree {
			if e.deleg >= 0 {
				if a, ok := x.byNat[uint32(e.deleg)]; ok {
					prevPools[a] = true
				}
			}
		}
	}
	for k, v := range h.Stats {
		for i := 0; i < v; i++ {
			c.Hit("fixture-" + k)
		}
	}
	return nil
}

func init() {
	hx.Register("C10H", func(c *hx.Ctx) error {
		if c.Replay != "" {
			b, err := os.ReadFile(c.Replay)
			if err != nil {
				return err
			}
			var wrap struct {
				Replay c10hcase `json:"replay"`
			}
			if err := json.Unmarshal(b, &wrap); err != nil {
				return err
			}
			c.Rep.Evaluations = 1
			return c10hRun(c, wrap.Replay)
		}
		n := c.Scale(11, 132)
		c.Rep.Rule = "real single-node chains (chainfx: real mempool, ProposeBlock, AddBlock, attached ceremony, short epochs, StatusSwitchRange=DelegationSwitchRange=3) with 9-12 keyed identities of mixed status plus two funded addresses without identity record; per block up to 2 fixture txs + up to 3 registry-directed txs (delegate to identities / identity-less addresses, undelegate, online on/off by identities and by identity-less pools, kill-delegator, kill, replenish); after every block: node's incremental ValidatorsCache vs fresh Load, stored registry vs identity ledger; every stored identity diff replayed in the Lean model; distinct = distinct (seed, users, blocks)"
		for i := 0; i < n; i++ {
			cs := c10hcase{Seed: c.Seed*1000 + int64(i), Users: 9 + c.Rng.Intn(4), Blocks: 150}
			if c.Tier == "thorough" {
				cs.Blocks = 260
			}
			switch i % 11 {
			case 7, 8, 9, 10:
				cs.Script, cs.Users, cs.Blocks, cs.Variant = "pool-emptied", 10, 22, i%11-7
			case 5, 6:
				// both kill-invitee variants and one of the other two within one quick run
				cs.Script, cs.Users, cs.Blocks = "invitee-pool", 10, 45
				cs.Variant = int(c.Seed+int64(i/11)) % 2
				if i%11 == 6 {
					cs.Variant = 2 + int(c.Seed+int64(i/11))%2
				}
			case 4:
				cs.Script, cs.Blocks = "identityless-pool", 90
			case 1, 3:
				cs.World, cs.Users, cs.Blocks = "epochs", 10, 135 // three ceremonies (blocks ~42, ~84, ~126)
				cs.Resets = i%5 == 3
			case 0, 2:
				cs.Resets = true
			}
			if err := c10hRun(c, cs); err != nil {
				return err
			}
			c.Rep.Evaluations++
			if c.Distinct(fmt.Sprint(cs)) {
				c.Rep.Distinct++
			}
			if i < 1 {
				c.Sample(cs)
			}
		}
		return nil
	})
}
