package main

// C10 (D-unit): the real state.IdentityStateDB (writes, Commit(true), AddDiff+CommitTree) and the real
// validators.ValidatorsCache (Load, UpdateFromIdentityStateDiff, Clone, every getter) on generated registries and diffs.
//
//   - correspondence: every op line and the implementation's canonical answer go to the Lean model
//     (IdState.commit / applyDiff / load / update / getters, Drivers/C10.lean); ./check diffs the two streams.
//   - independent oracle (this file, no Lean involved):
//       (a) after every UpdateFromIdentityStateDiff the incrementally maintained cache must answer every getter like a
//           fresh NewValidatorsCache+Load on the same IdentityStateDB — claimed whenever the incremental cache was loaded
//           from the tree and every diff applied since is well formed (a non-deleted value that carries a delegatee is
//           validated; theorem update_eq_load_diffWF).  Diffs that are not well formed are generated on purpose in a
//           separate stream; divergences there are counted (bucket nonwf:divergence), never reported.
//       (b) Commit(true) contract: tree-after = tree-before ⊕ diff, no empty entry stored, diff in descending address
//           order without repeated addresses, a Clone answers like the original.
import (
	"encoding/binary"
	"encoding/json"
	"fmt"
	"os"
	"sort"
	"strconv"
	"strings"

	"github.com/idena-network/idena-go/blockchain/types"
	"github.com/idena-network/idena-go/common"
	"github.com/idena-network/idena-go/core/state"
	"github.com/idena-network/idena-go/core/validators"
	"github.com/idena-network/idena-go/crypto"
	dbm "github.com/tendermint/tm-db"

	"math/rand"

	"verifharness/internal/hx"
)

type c10case struct {
	Mode string   `json:"mode"`
	Univ []uint32 `json:"univ"`
	Ops  []string `json:"ops"`
}

const c10god = uint32(4000000000)

// order-preserving embedding of a natural number into an address: big-endian in the first four bytes
func c10addr(n uint32) common.Address {
	var a common.Address
	binary.BigEndian.PutUint32(a[:4], n)
	return a
}

func c10nat(a common.Address) uint32 { return binary.BigEndian.Uint32(a[:4]) }

type c10entry struct {
	flags uint32 // 1 validated, 2 online, 4 discriminated
	deleg int64  // -1 none
}

func (e c10entry) validated() bool { return e.flags&1 != 0 }
func (e c10entry) online() bool    { return e.flags&2 != 0 }
func (e c10entry) empty() bool     { return e.flags&3 == 0 }
func (e c10entry) String() string {
	if e.deleg < 0 {
		return fmt.Sprintf("%d:-", e.flags)
	}
	return fmt.Sprintf("%d:%d", e.flags, e.deleg)
}

func c10decode(b []byte) (c10entry, error) {
	var d state.ApprovedIdentity
	if err := d.FromBytes(b); err != nil {
		return c10entry{}, err
	}
	e := c10entry{deleg: -1}
	if d.Validated {
		e.flags |= 1
	}
	if d.Online {
		e.flags |= 2
	}
	if d.Discriminated {
		e.flags |= 4
	}
	if d.Delegatee != nil {
		e.deleg = int64(c10nat(*d.Delegatee))
	}
	return e, nil
}

func c10encode(e c10entry) []byte {
	d := state.ApprovedIdentity{Validated: e.flags&1 != 0, Online: e.flags&2 != 0, Discriminated: e.flags&4 != 0}
	if e.deleg >= 0 {
		a := c10addr(uint32(e.deleg))
		d.Delegatee = &a
	}
	b, _ := d.ToBytes()
	return b
}

type c10diffval struct {
	addr    uint32
	deleted bool
	e       c10entry
}

func c10showDiff(vals []c10diffval) string {
	if len(vals) == 0 {
		return "-"
	}
	var it []string
	for _, v := range vals {
		if v.deleted {
			it = append(it, fmt.Sprintf("%d:D", v.addr))
		} else {
			it = append(it, fmt.Sprintf("%d:%s", v.addr, v.e))
		}
	}
	return strings.Join(it, ",")
}

func c10parseDiff(s string) ([]c10diffval, error) {
	if s == "-" {
		return nil, nil
	}
	var out []c10diffval
	for _, it := range strings.Split(s, ",") {
		f := strings.Split(it, ":")
		a, err := strconv.ParseUint(f[0], 10, 32)
		if err != nil {
			return nil, err
		}
		if len(f) == 2 && f[1] == "D" {
			out = append(out, c10diffval{addr: uint32(a), deleted: true, e: c10entry{deleg: -1}})
			continue
		}
		if len(f) != 3 {
			return nil, fmt.Errorf("bad diff item %q", it)
		}
		fl, err := strconv.ParseUint(f[1], 10, 32)
		if err != nil {
			return nil, err
		}
		e := c10entry{flags: uint32(fl), deleg: -1}
		if f[2] != "-" {
			p, err := strconv.ParseUint(f[2], 10, 32)
			if err != nil {
				return nil, err
			}
			e.deleg = int64(p)
		}
		out = append(out, c10diffval{addr: uint32(a), e: e})
	}
	return out, nil
}

func c10diffWF(vals []c10diffval) bool {
	for _, v := range vals {
		if !v.deleted && v.e.deleg >= 0 && !v.e.validated() {
			return false
		}
	}
	return true
}

// c10world is the real code under test for one case.
type c10world struct {
	s         *state.IdentityStateDB
	inc       *validators.ValidatorsCache
	fresh     *validators.ValidatorsCache
	incPanic  bool
	lastDiff  *state.IdentityStateDiff
	lastVals  []c10diffval
	incSound  bool // inc was loaded from the tree and only well-formed diffs were applied since
	pending   int  // tree changes (Commit / AddDiff) not yet applied to inc
	univ      []uint32
	failure   string
	sig       string
	nonwfDiv  int
	wfChecked int
	buckets   map[string]int
	everDel   map[uint32]bool
}

func c10newWorld(univ []uint32) *c10world {
	db := dbm.NewMemDB()
	s, err := state.NewLazyIdentityState(db)
	if err != nil {
		panic(err)
	}
	if err := s.Load(0); err != nil {
		panic(err)
	}
	w := &c10world{s: s, univ: univ, buckets: map[string]int{}, everDel: map[uint32]bool{}}
	w.inc = validators.NewValidatorsCache(s, c10addr(c10god))
	w.fresh = validators.NewValidatorsCache(s, c10addr(c10god))
	return w
}

func (w *c10world) fail(sig, detail string) {
	if w.failure == "" {
		w.failure, w.sig = detail, sig
	}
}

func (w *c10world) tree() map[uint32]c10entry {
	m := map[uint32]c10entry{}
	w.s.IterateIdentities(func(key []byte, value []byte) bool {
		if key == nil {
			return true
		}
		var a common.Address
		a.SetBytes(key[1:])
		e, err := c10decode(value)
		if err != nil {
			return false
		}
		m[c10nat(a)] = e
		return false
	})
	return m
}

func c10showTree(m map[uint32]c10entry) string {
	if len(m) == 0 {
		return "-"
	}
	keys := make([]uint32, 0, len(m))
	for k := range m {
		keys = append(keys, k)
	}
	sort.Slice(keys, func(i, j int) bool { return keys[i] < keys[j] })
	var it []string
	for _, k := range keys {
		it = append(it, fmt.Sprintf("%d:%s", k, m[k]))
	}
	return strings.Join(it, ",")
}

func c10list(as []common.Address, sorted bool) string {
	ns := make([]uint32, len(as))
	for i, a := range as {
		ns[i] = c10nat(a)
	}
	if sorted {
		sort.Slice(ns, func(i, j int) bool { return ns[i] < ns[j] })
	}
	var it []string
	for _, n := range ns {
		it = append(it, strconv.FormatUint(uint64(n), 10))
	}
	return "[" + strings.Join(it, ",") + "]"
}

func c10setList(s interface{ ToSlice() []interface{} }) string {
	var as []common.Address
	for _, x := range s.ToSlice() {
		as = append(as, x.(common.Address))
	}
	return c10list(as, true)
}

// the permutation GetOnlineValidators draws for (seed, round, step) over n sorted validators (validators.go:100-104)
func c10perm(seed types.Seed, round uint64, step uint8, n int) []int {
	rndSeed := crypto.Hash([]byte(fmt.Sprintf("%v-%v-%v", common.Bytes2Hex(seed[:]), round, step)))
	randSeed := binary.LittleEndian.Uint64(rndSeed[:])
	return rand.New(rand.NewSource(int64(randSeed))).Perm(n)
}

func c10seed(k uint32) types.Seed {
	var s types.Seed
	binary.BigEndian.PutUint32(s[:4], k)
	s[31] = byte(k * 7)
	return s
}

func (w *c10world) query(v *validators.ValidatorsCache, args []string) (ans string) {
	defer func() {
		if r := recover(); r != nil {
			ans = "panic"
		}
	}()
	switch args[0] {
	case "sizes":
		return fmt.Sprintf("net=%d onl=%d vals=%d fork=%d", v.NetworkSize(), v.OnlineSize(), v.ValidatorsSize(), v.ForkCommitteeSize())
	case "sorted":
		return c10list(v.VerifSortedValidators(), false)
	case "a":
		n, _ := strconv.ParseUint(args[1], 10, 32)
		a := c10addr(uint32(n))
		b := func(x bool) string {
			if x {
				return "1"
			}
			return "0"
		}
		dl := "-"
		if d := v.Delegator(a); !d.IsEmpty() {
			dl = strconv.FormatUint(uint64(c10nat(d)), 10)
		}
		return fmt.Sprintf("v%s o%s d%s p%s ps%d dl%s", b(v.IsValidated(a)), b(v.IsOnlineIdentity(a)), b(v.IsDiscriminated(a)), b(v.IsPool(a)), v.PoolSize(a), dl)
	case "pool":
		n, _ := strconv.ParseUint(args[1], 10, 32)
		dels, appr, ok := v.VerifPool(c10addr(uint32(n)))
		if !ok {
			return "-"
		}
		return "dels=" + c10list(dels, false) + " appr=" + c10list(appr, true)
	case "sub":
		p, _ := strconv.ParseUint(args[1], 10, 32)
		nonce, _ := strconv.ParseUint(args[2], 10, 32)
		x, k := v.FindSubIdentity(c10addr(uint32(p)), uint32(nonce))
		return fmt.Sprintf("%d %d", c10nat(x), k)
	case "pse":
		p, _ := strconv.ParseUint(args[1], 10, 32)
		var ex []common.Address
		if args[2] != "-" {
			for _, t := range strings.Split(args[2], ",") {
				n, _ := strconv.ParseUint(t, 10, 32)
				ex = append(ex, c10addr(uint32(n)))
			}
		}
		return strconv.Itoa(v.PoolSizeExceptNodes(c10addr(uint32(p)), ex))
	case "com":
		// q X com <god> <limit> <perm> # <seedkey> <round> <step>   (the part after # is ignored by the model)
		if len(args) < 8 {
			return "bad-op"
		}
		limit, _ := strconv.Atoi(args[2])
		sk, _ := strconv.ParseUint(args[5], 10, 32)
		round, _ := strconv.ParseUint(args[6], 10, 64)
		step, _ := strconv.ParseUint(args[7], 10, 8)
		sv := v.GetOnlineValidators(c10seed(uint32(sk)), round, uint8(step), limit)
		if sv == nil {
			return "nil"
		}
		return "orig=" + c10setList(sv.Original) + " vals=" + c10setList(sv.Validators) + " appr=" + c10setList(sv.ApprovedValidators)
	}
	return "bad-op"
}

// snapshot: every getter over the universe (+ god, + an address outside), used by the incremental-vs-rebuilt oracle
func (w *c10world) snapshot(v *validators.ValidatorsCache) string {
	var sb strings.Builder
	sb.WriteString(w.query(v, []string{"sizes"}))
	sb.WriteString(" sorted=" + w.query(v, []string{"sorted"}))
	addrs := append(append([]uint32{}, w.univ...), c10god, 77777)
	for _, a := range addrs {
		as := strconv.FormatUint(uint64(a), 10)
		sb.WriteString(" | " + as + ": " + w.query(v, []string{"a", as}))
		if v.IsPool(c10addr(a)) {
			dels, _, _ := v.VerifPool(c10addr(a))
			sb.WriteString(" dels=" + c10list(dels, false))
			for nonce := 0; nonce <= len(dels)+1; nonce++ {
				sb.WriteString(" sub" + w.query(v, []string{"sub", as, strconv.Itoa(nonce)}))
			}
			if len(dels) > 0 {
				sb.WriteString(" pse" + strconv.Itoa(v.PoolSizeExceptNodes(c10addr(a), []common.Address{dels[0], c10addr(a)})))
			}
		}
	}
	n := v.ValidatorsSize()
	for _, lim := range []int{0, 1, n - 1, n, n + 1, (n + 1) / 2} {
		if lim < 0 {
			continue
		}
		for k := uint32(1); k <= 3; k++ {
			sv := v.GetOnlineValidators(c10seed(k), uint64(10+k), uint8(k), lim)
			if sv == nil {
				sb.WriteString(fmt.Sprintf(" com%d/%d=nil", lim, k))
			} else {
				sb.WriteString(fmt.Sprintf(" com%d/%d=%s;%s;%s", lim, k, c10setList(sv.Original), c10setList(sv.Validators), c10setList(sv.ApprovedValidators)))
			}
		}
	}
	return sb.String()
}

func (w *c10world) safeSnapshot(v *validators.ValidatorsCache) (s string) {
	defer func() {
		if r := recover(); r != nil {
			s = fmt.Sprintf("panic: %v", r)
		}
	}()
	return w.snapshot(v)
}

func (w *c10world) noteDiffShape(vals []c10diffval, before map[uint32]c10entry) {
	pos := map[uint32]int{}
	for i, v := range vals {
		pos[v.addr] = i
	}
	for i, v := range vals {
		if v.deleted {
			w.everDel[v.addr] = true
			if old, ok := before[v.addr]; ok && old.deleg >= 0 {
				w.buckets["diff:delegator-deleted"]++
			}
			if _, ok := before[v.addr]; !ok {
				w.buckets["diff:delete-of-absent"]++
			}
			continue
		}
		if w.everDel[v.addr] {
			if _, ok := before[v.addr]; !ok {
				w.buckets["diff:deleted-then-recreated"]++
			}
		}
		if old, ok := before[v.addr]; ok {
			if (old.flags^v.e.flags)&4 != 0 {
				w.buckets["diff:discrimination-toggled"]++
			}
			if old.deleg >= 0 && v.e.deleg >= 0 && old.deleg != v.e.deleg {
				w.buckets["diff:delegatee-changed"]++
			}
			if old.deleg >= 0 && v.e.deleg < 0 {
				w.buckets["diff:undelegated"]++
			}
			if old.validated() && !v.e.validated() {
				w.buckets["diff:invalidated-kept-online"]++
			}
		}
		if v.e.deleg >= 0 {
			if v.e.deleg == int64(v.addr) {
				w.buckets["diff:self-delegation"]++
			}
			if j, ok := pos[uint32(v.e.deleg)]; ok {
				if j < i {
					w.buckets["diff:pool-owner-seen-before-delegator"]++
				} else if j > i {
					w.buckets["diff:pool-owner-seen-after-delegator"]++
				}
				if vals[j].deleted {
					w.buckets["diff:delegation-to-deleted-owner"]++
				}
			} else if _, ok := before[uint32(v.e.deleg)]; !ok {
				w.buckets["diff:pool-owner-without-entry"]++
			}
			if !v.e.validated() {
				w.buckets["diff:nonvalidated-with-delegatee(nonWF)"]++
			}
		}
	}
	// delegator invalidated/removed in the same diff in which its pool changes
	for _, v := range vals {
		if old, ok := before[v.addr]; ok && old.deleg >= 0 && (v.deleted || v.e.deleg != old.deleg) {
			if _, ok := pos[uint32(old.deleg)]; ok {
				w.buckets["diff:delegator-leaves-and-owner-changes"]++
			}
		}
	}
}

func (w *c10world) afterTreeChange(kind string, vals []c10diffval, before map[uint32]c10entry, strictOrder bool) {
	after := w.tree()
	want := map[uint32]c10entry{}
	for k, v := range before {
		want[k] = v
	}
	seen := map[uint32]bool{}
	for i, v := range vals {
		if v.deleted {
			delete(want, v.addr)
		} else {
			want[v.addr] = v.e
		}
		if strictOrder {
			if seen[v.addr] {
				w.fail("C10:precommit-diff-repeats-address", fmt.Sprintf("%s: address %d twice in %s", kind, v.addr, c10showDiff(vals)))
			}
			if i > 0 && vals[i-1].addr <= v.addr {
				w.fail("C10:precommit-diff-order", fmt.Sprintf("%s: diff not in descending address order: %s", kind, c10showDiff(vals)))
			}
			if !v.deleted && v.e.empty() {
				w.fail("C10:precommit-stores-empty-entry", fmt.Sprintf("%s: empty entry kept for %d: %s", kind, v.addr, c10showDiff(vals)))
			}
		}
		seen[v.addr] = true
	}
	if a, b := c10showTree(after), c10showTree(want); a != b {
		w.fail("C10:tree-differs-from-diff-replay", fmt.Sprintf("%s: tree after = %s, tree before ⊕ diff = %s (diff %s)", kind, a, b, c10showDiff(vals)))
	}
	w.noteDiffShape(vals, before)
}

// exec runs one op line on the real code and returns the canonical answer.
func (w *c10world) exec(op string) (ans string) {
	f := strings.Fields(op)
	defer func() {
		if r := recover(); r != nil {
			ans = "panic"
			if f[0] != "q" && f[0] != "upd" {
				w.fail("C10:unexpected-panic", fmt.Sprintf("op %q panicked: %v", op, r))
			}
		}
	}()
	u32 := func(s string) uint32 { n, _ := strconv.ParseUint(s, 10, 32); return uint32(n) }
	switch f[0] {
	case "new":
		return "ok"
	case "w":
		a := c10addr(u32(f[2]))
		switch f[1] {
		case "val":
			w.s.SetValidated(a, f[3] == "1")
		case "onl":
			w.s.SetOnline(a, f[3] == "1")
		case "dis":
			w.s.SetDiscriminated(a, f[3] == "1")
		case "dlg":
			w.s.SetDelegatee(a, c10addr(u32(f[3])))
		case "undlg":
			w.s.RemoveDelegatee(a)
		case "rm":
			w.s.Remove(a)
		default:
			return "bad-op"
		}
		return "ok"
	case "r":
		a := c10addr(u32(f[1]))
		b := func(x bool) string {
			if x {
				return "1"
			}
			return "0"
		}
		d := "-"
		if p := w.s.Delegatee(a); p != nil {
			d = strconv.FormatUint(uint64(c10nat(*p)), 10)
		}
		return fmt.Sprintf("v%s o%s d%s", b(w.s.IsValidated(a)), b(w.s.IsOnline(a)), d)
	case "commit":
		before := w.tree()
		_, _, diff, err := w.s.Commit(true)
		if err != nil {
			return "err"
		}
		var vals []c10diffval
		for _, v := range diff.Values {
			dv := c10diffval{addr: c10nat(v.Address), deleted: v.Deleted, e: c10entry{deleg: -1}}
			if !v.Deleted {
				e, err := c10decode(v.Value)
				if err != nil {
					return "err"
				}
				dv.e = e
			}
			vals = append(vals, dv)
		}
		w.lastDiff, w.lastVals = diff, vals
		w.pending++
		w.afterTreeChange("Commit(true)", vals, before, true)
		return c10showDiff(vals)
	case "adddiff":
		vals, err := c10parseDiff(f[1])
		if err != nil {
			return "bad-op"
		}
		before := w.tree()
		diff := &state.IdentityStateDiff{}
		for _, v := range vals {
			dv := &state.IdentityStateDiffValue{Address: c10addr(v.addr), Deleted: v.deleted}
			if !v.deleted {
				dv.Value = c10encode(v.e)
			}
			diff.Values = append(diff.Values, dv)
		}
		h := w.s.Version() + 1
		w.s.AddDiff(h, diff)
		if _, _, err := w.s.CommitTree(int64(h)); err != nil {
			return "err"
		}
		w.lastDiff, w.lastVals = diff, vals
		w.pending++
		w.afterTreeChange("AddDiff", vals, before, false)
		return "ok"
	case "tree":
		return c10showTree(w.tree())
	case "load":
		if f[1] == "inc" {
			w.inc.Load()
			w.incPanic, w.incSound, w.pending = false, true, 0
		} else {
			w.fresh = validators.NewValidatorsCache(w.s, c10addr(c10god))
			w.fresh.Load()
			w.compare()
		}
		return "ok"
	case "clone":
		c := w.inc.Clone()
		if !w.incPanic {
			if a, b := w.safeSnapshot(w.inc), w.safeSnapshot(c); a != b {
				w.fail("C10:clone-differs", fmt.Sprintf("Clone() answers differently:\n  original %s\n  clone    %s", a, b))
			}
		}
		w.inc = c
		return "ok"
	case "upd":
		if w.incPanic {
			return "panic"
		}
		if !c10diffWF(w.lastVals) || w.pending > 1 || w.lastDiff == nil {
			w.incSound = false // outside the claim: non-WF diff, or a diff was skipped
		}
		w.pending = 0
		if w.lastDiff == nil {
			w.lastDiff = &state.IdentityStateDiff{}
		}
		func() {
			defer func() {
				if r := recover(); r != nil {
					w.incPanic = true
					if w.incSound {
						w.fail("C10:update-panics", fmt.Sprintf("UpdateFromIdentityStateDiff panicked on a well-formed diff %s: %v", c10showDiff(w.lastVals), r))
					}
				}
			}()
			w.inc.UpdateFromIdentityStateDiff(w.lastDiff)
		}()
		if w.incPanic {
			return "panic"
		}
		return "ok"
	case "q":
		v := w.inc
		if f[1] == "fresh" {
			v = w.fresh
		} else if w.incPanic {
			return "panic"
		}
		return w.query(v, f[2:])
	}
	return "bad-op"
}

// orderOK is oracle (c): sortedValidators strictly descending, every pool's delegator list strictly ascending
// (committee selection indexes into the former, FindSubIdentity into the latter).
func (w *c10world) orderOK(which string, v *validators.ValidatorsCache) {
	sv := v.VerifSortedValidators()
	for i := 1; i < len(sv); i++ {
		if strings.Compare(string(sv[i-1][:]), string(sv[i][:])) <= 0 {
			w.fail("C10:sortedValidators-not-strictly-descending", fmt.Sprintf("%s cache: %s", which, c10list(sv, false)))
		}
	}
	for _, a := range w.univ {
		if dels, _, ok := v.VerifPool(c10addr(a)); ok {
			if len(dels) == 0 {
				w.fail("C10:empty-pool-kept", fmt.Sprintf("%s cache: pool %d has no delegators", which, a))
			}
			for i := 1; i < len(dels); i++ {
				if strings.Compare(string(dels[i-1][:]), string(dels[i][:])) >= 0 {
					w.fail("C10:pool-delegators-not-strictly-ascending", fmt.Sprintf("%s cache: pool %d: %s", which, a, c10list(dels, false)))
				}
			}
		}
	}
}

// compare is oracle (a): called after every rebuild of `fresh`.
func (w *c10world) compare() {
	w.orderOK("rebuilt", w.fresh)
	if w.incPanic {
		return
	}
	if w.incSound && w.pending == 0 {
		w.orderOK("incremental", w.inc)
	}
	if w.pending != 0 {
		return // the incremental cache has not been given the last diff yet
	}
	a, b := w.safeSnapshot(w.inc), w.safeSnapshot(w.fresh)
	if w.incSound {
		w.wfChecked++
		if a != b {
			w.fail("C10:incremental-differs-from-rebuild", fmt.Sprintf("after diff %s (tree now %s):\n  incremental %s\n  rebuilt     %s", c10showDiff(w.lastVals), c10showTree(w.tree()), a, b))
		}
	} else if a != b {
		w.nonwfDiv++
	}
}

type c10result struct {
	answers   []string
	failure   string
	sig       string
	nonwfDiv  int
	wfChecked int
	buckets   map[string]int
}

func c10run(cs c10case) c10result {
	w := c10newWorld(cs.Univ)
	var res c10result
	for _, op := range cs.Ops {
		res.answers = append(res.answers, w.exec(op))
	}
	res.failure, res.sig, res.nonwfDiv, res.wfChecked, res.buckets = w.failure, w.sig, w.nonwfDiv, w.wfChecked, w.buckets
	return res
}

func c10shrink(cs c10case, sig string) c10case {
	fails := func(c c10case) bool { r := c10run(c); return r.failure != "" && r.sig == sig }
	for changed := true; changed; {
		changed = false
		for i := 0; i < len(cs.Ops); i++ {
			if strings.HasPrefix(cs.Ops[i], "q ") {
				continue
			}
			t := c10case{Mode: cs.Mode, Univ: cs.Univ, Ops: append(append([]string{}, cs.Ops[:i]...), cs.Ops[i+1:]...)}
			if fails(t) {
				cs, changed = t, true
				i--
			}
		}
	}
	// drop the query lines that are not needed to fail (the oracle does not depend on them)
	var ops []string
	for _, op := range cs.Ops {
		if !strings.HasPrefix(op, "q ") {
			ops = append(ops, op)
		}
	}
	t := c10case{Mode: cs.Mode, Univ: cs.Univ, Ops: ops}
	if fails(t) {
		cs = t
	}
	return cs
}

// ---------------------------------------------------------------- generators

var c10pool = []uint32{1, 2, 3, 200, 255, 256, 257, 511, 65535, 65536, 65537, 70000, 16777215, 16777216, 16777300, 3000000000}

type c10gen struct {
	r    *rand.Rand
	w    *c10world // the real code, stepped while generating (guards read the real state)
	cs   c10case
	univ []uint32
}

func (g *c10gen) emit(op string) string {
	g.cs.Ops = append(g.cs.Ops, op)
	return g.w.exec(op)
}

func (g *c10gen) pick() uint32 { return g.univ[g.r.Intn(len(g.univ))] }

func (g *c10gen) b() string {
	if g.r.Intn(2) == 0 {
		return "0"
	}
	return "1"
}

// queries after a step: the whole observable surface for both caches
func (g *c10gen) queries(light bool) {
	for _, x := range []string{"inc", "fresh"} {
		v := g.w.inc
		if x == "fresh" {
			v = g.w.fresh
		}
		g.emit("q " + x + " sizes")
		g.emit("q " + x + " sorted")
		for _, a := range g.univ {
			as := strconv.FormatUint(uint64(a), 10)
			g.emit("q " + x + " a " + as)
			if !light || g.r.Intn(3) == 0 {
				g.emit("q " + x + " pool " + as)
			}
		}
		if x == "inc" && g.w.incPanic {
			continue
		}
		n := v.ValidatorsSize()
		lims := []int{n, g.r.Intn(n + 2)}
		if !light {
			lims = append(lims, 0, n+1)
		}
		for _, lim := range lims {
			sk, round, step := uint32(1+g.r.Intn(50)), uint64(g.r.Intn(1000)), uint8(g.r.Intn(5))
			perm := c10perm(c10seed(sk), round, step, n)
			ps := "-"
			if len(perm) > 0 {
				var it []string
				for _, p := range perm {
					it = append(it, strconv.Itoa(p))
				}
				ps = strings.Join(it, ",")
			}
			g.emit(fmt.Sprintf("q %s com %d %d %s # %d %d %d", x, c10god, lim, ps, sk, round, step))
		}
		a := g.pick()
		g.emit(fmt.Sprintf("q %s sub %d %d", x, a, g.r.Intn(4)))
		b, c := g.pick(), g.pick()
		g.emit(fmt.Sprintf("q %s pse %d %d,%d,%d", x, a, b, c, b))
	}
}

func (g *c10gen) step(light bool) {
	if g.r.Intn(6) == 0 {
		g.emit("clone inc")
	}
	if g.r.Intn(8) == 0 {
		g.emit("load inc") // in-place reload of the used cache instead of the update (AppState.ResetTo, AtomicSwitchToPreliminary)
	} else {
		g.emit("upd inc")
	}
	g.emit("load fresh")
	g.queries(light)
}

// raw writes; when wf is set, dirty entries are repaired before the commit so that the diff is well formed
func (g *c10gen) rawBlock(wf bool) {
	touched := map[uint32]bool{}
	for i, n := 0, 1+g.r.Intn(5); i < n; i++ {
		a := g.pick()
		touched[a] = true
		switch g.r.Intn(12) {
		case 0, 1:
			g.emit(fmt.Sprintf("w val %d %s", a, g.b()))
		case 2, 3:
			g.emit(fmt.Sprintf("w onl %d %s", a, g.b()))
		case 4:
			g.emit(fmt.Sprintf("w dis %d %s", a, g.b()))
		case 5, 6, 7:
			p := g.pick()
			if p == a && g.r.Intn(4) != 0 {
				p = g.pick()
			}
			g.emit(fmt.Sprintf("w dlg %d %d", a, p))
			if g.r.Intn(2) == 0 {
				g.emit(fmt.Sprintf("w val %d 1", a))
			}
		case 8:
			g.emit(fmt.Sprintf("w undlg %d", a))
		case 9:
			g.emit(fmt.Sprintf("w rm %d", a))
		case 10:
			g.emit(fmt.Sprintf("w val %d 1", a))
			g.emit(fmt.Sprintf("w onl %d 1", a))
		default:
			g.emit(fmt.Sprintf("r %d", a))
		}
	}
	if wf {
		keys := make([]uint32, 0, len(touched))
		for a := range touched {
			keys = append(keys, a)
		}
		sort.Slice(keys, func(i, j int) bool { return keys[i] < keys[j] })
		for _, a := range keys {
			ad := c10addr(a)
			if g.w.s.Delegatee(ad) != nil && !g.w.s.IsValidated(ad) {
				switch g.r.Intn(3) {
				case 0:
					g.emit(fmt.Sprintf("w val %d 1", a))
				case 1:
					g.emit(fmt.Sprintf("w undlg %d", a))
				default:
					g.emit(fmt.Sprintf("w onl %d 0", a)) // empty entry: deleted by Precommit
				}
			}
		}
	}
	g.emit("commit")
}

// a diff delivered through AddDiff (what a syncing node gets from a peer), any order, optionally repeated addresses
func (g *c10gen) addDiffBlock(wf bool) {
	var vals []c10diffval
	for i, n := 0, 1+g.r.Intn(5); i < n; i++ {
		a := g.pick()
		if g.r.Intn(4) == 0 {
			vals = append(vals, c10diffval{addr: a, deleted: true, e: c10entry{deleg: -1}})
			continue
		}
		e := c10entry{flags: uint32(1 + g.r.Intn(7)), deleg: -1}
		if g.r.Intn(2) == 0 {
			e.deleg = int64(g.pick())
		}
		if e.flags&3 == 0 {
			e.flags |= 1 << uint(g.r.Intn(2)) // a stored value is never empty
		}
		if wf && e.deleg >= 0 {
			e.flags |= 1
		}
		vals = append(vals, c10diffval{addr: a, e: e})
	}
	g.emit("adddiff " + c10showDiff(vals))
}

// chain-shaped events in the order of applyBlockOnState (kills, status switch, penalties, delegation switch,
// discrimination switch, epoch, pools to offline); `ledger` is the delegatee the identity ledger would hold.
func (g *c10gen) eventBlock(ledger map[uint32]int64, shuffle bool) {
	isVal := func(a uint32) bool { return g.w.s.IsValidated(c10addr(a)) }
	phases := []func(){
		func() { // kill transactions (blockchain.go:1575,1601,1627)
			for i, n := 0, g.r.Intn(2); i < n; i++ {
				a := g.pick()
				g.emit(fmt.Sprintf("w rm %d", a))
				ledger[a] = -1
			}
		},
		func() { // applyStatusSwitch (blockchain.go:1836); the tx is refused for identities with a delegatee
			for i, n := 0, g.r.Intn(3); i < n; i++ {
				a := g.pick()
				if ledger[a] >= 0 {
					continue
				}
				if g.w.s.IsOnline(c10addr(a)) {
					g.emit(fmt.Sprintf("w onl %d 0", a))
				} else if isVal(a) || g.w.inc.IsPool(c10addr(a)) {
					g.emit(fmt.Sprintf("w onl %d 1", a))
				}
			}
		},
		func() { // delayed offline penalties
			if g.r.Intn(4) == 0 {
				g.emit(fmt.Sprintf("w onl %d 0", g.pick()))
			}
		},
		func() { // applyDelegationSwitch (blockchain.go:1864)
			newPools := map[uint32]bool{}
			for i, n := 0, g.r.Intn(3); i < n; i++ {
				a := g.pick()
				if ledger[a] >= 0 && g.r.Intn(2) == 0 { // undelegation
					g.emit(fmt.Sprintf("w undlg %d", a))
					if g.r.Intn(4) == 0 {
						g.emit(fmt.Sprintf("w onl %d 0", a))
					}
					g.emit(fmt.Sprintf("w dis %d %s", a, g.b()))
					ledger[a] = -1
					continue
				}
				p := g.pick()
				if p == a || ledger[a] >= 0 || ledger[p] >= 0 || newPools[a] || g.w.inc.IsPool(c10addr(a)) {
					continue
				}
				g.emit(fmt.Sprintf("w dlg %d %d", a, p))
				g.emit(fmt.Sprintf("w dis %d %s", a, g.b()))
				g.emit(fmt.Sprintf("w onl %d 0", a))
				ledger[a] = int64(p)
				newPools[p] = true
			}
		},
		func() { // applyDiscriminationStatusSwitch
			if g.r.Intn(3) == 0 {
				g.emit(fmt.Sprintf("w dis %d %s", g.pick(), g.b()))
			}
		},
		func() { // applyNewEpoch: setNewIdentitiesAttributes (blockchain.go:824) + applyDiscriminationStakeThreshold
			if g.r.Intn(4) != 0 {
				return
			}
			newVal := map[uint32]bool{}
			for _, a := range g.univ {
				newVal[a] = g.r.Intn(3) != 0
			}
			pools := map[uint32]bool{}
			for _, a := range g.univ {
				if newVal[a] && ledger[a] >= 0 {
					pools[uint32(ledger[a])] = true
				}
			}
			for _, a := range g.univ {
				if g.r.Intn(6) == 0 {
					continue // no identity record: not visited by IterateOverIdentities
				}
				if newVal[a] {
					g.emit(fmt.Sprintf("w val %d 1", a))
					if ledger[a] >= 0 {
						g.emit(fmt.Sprintf("w dlg %d %d", a, ledger[a]))
					}
				} else {
					g.emit(fmt.Sprintf("w val %d 0", a))
					if !pools[a] {
						g.emit(fmt.Sprintf("w onl %d 0", a))
					}
				}
			}
			for _, a := range g.univ {
				if newVal[a] && g.r.Intn(2) == 0 {
					g.emit(fmt.Sprintf("w dis %d %s", a, g.b()))
				}
			}
		},
		func() { // switchPoolsToOffline
			if g.r.Intn(4) == 0 {
				g.emit(fmt.Sprintf("w onl %d 0", g.pick()))
			}
		},
	}
	if shuffle {
		g.r.Shuffle(len(phases), func(i, j int) { phases[i], phases[j] = phases[j], phases[i] })
	}
	for _, ph := range phases {
		ph()
	}
	g.emit("commit")
}

func c10generate(r *rand.Rand, mode string, steps int, light bool) (c10case, *c10world) {
	n := 3 + r.Intn(6)
	perm := r.Perm(len(c10pool))
	univ := make([]uint32, 0, n)
	for i := 0; i < n; i++ {
		univ = append(univ, c10pool[perm[i]])
	}
	sort.Slice(univ, func(i, j int) bool { return univ[i] < univ[j] })
	g := &c10gen{r: r, w: c10newWorld(univ), univ: univ}
	g.cs = c10case{Mode: mode, Univ: univ}
	g.cs.Ops = append(g.cs.Ops, "new")
	ledger := map[uint32]int64{}
	for _, a := range univ {
		ledger[a] = -1
	}
	// initial registry
	switch mode {
	case "events", "events-shuffled":
		for _, a := range univ {
			if r.Intn(3) != 0 {
				g.emit(fmt.Sprintf("w val %d 1", a))
				if r.Intn(3) == 0 {
					g.emit(fmt.Sprintf("w onl %d 1", a))
				}
				if r.Intn(5) == 0 {
					g.emit(fmt.Sprintf("w dis %d 1", a))
				}
			}
		}
		g.emit("commit")
	case "adddiff-wf":
		g.addDiffBlock(true)
	case "adddiff-nonwf":
		g.addDiffBlock(false)
	case "raw-wf":
		g.rawBlock(true)
		if r.Intn(2) == 0 {
			g.rawBlock(true)
		}
	default:
		g.rawBlock(false)
	}
	g.emit("tree")
	g.emit("load inc")
	g.emit("load fresh")
	if r.Intn(4) == 0 {
		g.queries(light)
	}
	for s := 0; s < steps; s++ {
		switch mode {
		case "events":
			g.eventBlock(ledger, false)
		case "events-shuffled":
			g.eventBlock(ledger, true)
		case "adddiff-wf":
			g.addDiffBlock(true)
		case "adddiff-nonwf":
			g.addDiffBlock(false)
		case "raw-wf":
			g.rawBlock(true)
		default:
			g.rawBlock(false)
		}
		if r.Intn(5) == 0 {
			g.emit("tree")
		}
		g.step(light)
		if mode == "raw-nonwf" || mode == "adddiff-nonwf" || mode == "events-shuffled" {
			if !g.w.incSound && r.Intn(3) == 0 {
				g.emit("load inc") // back under the claim
			}
		}
	}
	return g.cs, g.w
}

func c10emit(c *hx.Ctx, cs c10case) c10result {
	res := c10run(cs)
	for i, op := range cs.Ops {
		line := op
		if j := strings.Index(line, " # "); j >= 0 {
			line = line[:j]
		}
		c.Line(line, res.answers[i])
		f := strings.Fields(op)
		if f[0] == "q" {
			c.Hit("op:q " + f[2])
		} else if f[0] == "w" {
			c.Hit("op:w " + f[1])
		} else {
			c.Hit("op:" + f[0])
		}
		if res.answers[i] == "panic" {
			c.Hit("answer:panic")
		}
		if res.answers[i] == "nil" {
			c.Hit("answer:committee-nil")
		}
	}
	for k, n := range res.buckets {
		for i := 0; i < n; i++ {
			c.Hit(k)
		}
	}
	for i := 0; i < res.nonwfDiv; i++ {
		c.Hit("nonwf:divergence(expected, not reported)")
	}
	for i := 0; i < res.wfChecked; i++ {
		c.Hit("oracle:incremental-vs-rebuild evaluated")
	}
	if res.failure != "" {
		small := c10shrink(cs, res.sig)
		r2 := c10run(small)
		detail := r2.failure
		if detail == "" {
			detail = res.failure
			small = cs
		}
		c.Fail(res.sig, detail, small)
	}
	return res
}

func init() {
	hx.Register("C10", func(c *hx.Ctx) error {
		if c.Replay != "" {
			b, err := os.ReadFile(c.Replay)
			if err != nil {
				return err
			}
			var wrap struct {
				Replay c10case `json:"replay"`
			}
			if err := json.Unmarshal(b, &wrap); err != nil {
				return err
			}
			if len(wrap.Replay.Ops) == 0 || wrap.Replay.Ops[0] != "new" {
				wrap.Replay.Ops = append([]string{"new"}, wrap.Replay.Ops...)
			}
			c10emit(c, wrap.Replay)
			c.Rep.Evaluations = 1
			return nil
		}
		n := c.Scale(2400, 120000)
		c.Rep.Rule = "registries and diffs over 3-8 addresses (byte-boundary values) through the real IdentityStateDB and ValidatorsCache; six streams: chain-shaped events in applyBlockOnState order, the same with shuffled phases, raw writes repaired to well-formed diffs, raw writes unrepaired (non-WF, divergence expected and only counted), diffs through AddDiff in arbitrary order with repeated addresses (WF / non-WF); after every diff: UpdateFromIdentityStateDiff vs fresh Load, all getters + internal pool state + committees for real seeds; distinct = distinct op sequences with at least one non-empty diff applied incrementally"
		modes := []string{"events", "events", "events-shuffled", "raw-wf", "raw-wf", "raw-nonwf", "adddiff-wf", "adddiff-nonwf"}
		for i := 0; i < n; i++ {
			mode := modes[i%len(modes)]
			steps := 1 + c.Rng.Intn(4)
			cs, _ := c10generate(c.Rng, mode, steps, i%4 != 0)
			res := c10emit(c, cs)
			c.Rep.Evaluations++
			c.Hit("mode:" + mode)
			nontrivial := false
			for j, op := range cs.Ops {
				if op == "upd inc" && j > 0 {
					for k := j - 1; k >= 0; k-- {
						if cs.Ops[k] == "commit" || strings.HasPrefix(cs.Ops[k], "adddiff") {
							if res.answers[k] != "-" && cs.Ops[k] != "adddiff -" {
								nontrivial = true
							}
							break
						}
					}
				}
			}
			if nontrivial && c.Distinct(strings.Join(cs.Ops, ";")) {
				c.Rep.Distinct++
			}
			if i < 2 {
				c.Sample(map[string]interface{}{"mode": cs.Mode, "univ": cs.Univ, "ops": cs.Ops[:min(len(cs.Ops), 40)]})
			}
		}
		return nil
	})
}
