package main

// C05, pipeline part: the same question — "who pays for a transaction, and did he sign it?" — asked of the real
// node pipeline: transaction object or wire bytes → TxPool (AddExternalTxs / AddInternalTx) → ProposeBlock → AddBlock.
// The signer is never taken from types.Sender: it is dtx.WireSigner (recovery from the serialised bytes, fresh object)
// cross-checked with the key the scenario signed with.  Worlds give the zero address coins (genesis hook), because that
// is the account a transaction without a recoverable signature would be charged to.
//
// Oracle per mined block (all transactions of the block are plain transfers offered by this scenario):
//   - a transaction whose bytes nobody signed is in a block / was admitted to the pool  ⇒ C05:unsigned-tx-accepted
//   - an account whose balance went down or whose nonce moved is not the wire signer of any transaction of the block
//     ⇒ C05:debited-account-is-not-the-signer
import (
	"fmt"
	"math/big"
	"math/rand"
	"strings"
	"time"

	"github.com/idena-network/idena-go/blockchain/types"
	"github.com/idena-network/idena-go/blockchain/validation"
	"github.com/idena-network/idena-go/common"
	"github.com/idena-network/idena-go/core/appstate"

	"verifharness/internal/chainfx"
	"verifharness/internal/dtx"
	"verifharness/internal/hx"
)

type pipeTx struct {
	Kind   string `json:"kind"`   // signed | resigned | badsig
	Key    int    `json:"key"`    // world key index of the signer (payer)
	PreKey int    `json:"preKey"` // resigned: the key that signed the object first
	BadSig string `json:"badSig,omitempty"`
	To     int    `json:"to"`
	Amount int64  `json:"amountDna"`
	Via    string `json:"via"` // wire-inbound | object-inbound | object-internal
}

type pipeCase struct {
	Seed     int64    `json:"seed"`
	ZeroDna  int64    `json:"zeroAddressDna"`
	Txs      []pipeTx `json:"txs"`
	Pipeline bool     `json:"pipeline"` // marks the replay format of this part
	// Contracts: instead of Txs, a generated history of Blocks blocks with real embedded contracts (chainfx contracts.go:
	// deploy / fund / transfer / vote / terminate, and failing-then-succeeding contract transactions in one block)
	Contracts bool `json:"contracts,omitempty"`
	Blocks    int  `json:"blocks,omitempty"`
}

func badSigBytes(kind string, valid []byte) []byte {
	sig := make([]byte, 65)
	copy(sig, valid)
	switch kind {
	case "recid9":
		sig[64] = 9
	case "zero65":
		sig = make([]byte, 65)
	case "short10":
		sig = sig[:10]
	case "rzero":
		for i := 0; i < 32; i++ {
			sig[i] = 0
		}
	case "len66":
		sig = append(sig, 1)
	}
	return sig
}

var pipeMined, pipeRejected int

// runContractCase: a history with real embedded contracts; per block, a balance may go down only
//   - for a key-holder's account: if that key is the wire signer of a transaction of the block,
//   - for an embedded contract (TimeLock / Multisig deployed by the history): if a transaction of the block addressed to
//     it has a successful receipt — a failed transaction moves nothing but its signer's fee.
func runContractCase(pc *pipeCase) (fails []dtx.Finding, evals int, err error) {
	t0 := time.Unix(1700000000, 0)
	w := chainfx.NewWorld(pc.Seed, 5, 3, t0)
	r := rand.New(rand.NewSource(pc.Seed))
	h, err := chainfx.Bootstrap(w, chainfx.HistoryOpts{Blocks: pc.Blocks, TxPerBlock: 2, Contracts: true, NoOnline: true}, r, false)
	if err != nil {
		return nil, 0, err
	}
	n := h.N
	for b := 1; b <= pc.Blocks; b++ {
		// the contracts known before the block (a contract deployed in this block cannot be debited before it exists)
		type acc struct {
			addr     common.Address
			contract bool
		}
		var watch []acc
		for _, a := range w.Addrs {
			watch = append(watch, acc{a, false})
		}
		for _, c := range h.Contracts {
			if c.Kind == "timelock" || c.Kind == "multisig" {
				watch = append(watch, acc{c.Addr, true})
			}
		}
		pre := map[common.Address]*big.Int{}
		for _, a := range watch {
			pre[a.addr] = new(big.Int).Set(n.App.State.GetBalance(a.addr))
		}
		blk, err := h.Step(b)
		if err != nil {
			return fails, evals, fmt.Errorf("block %d: %v", b, err)
		}
		evals++
		signers := map[common.Address]bool{}
		okTo := map[common.Address]bool{}
		nFailed := 0
		for _, tx := range blk.Body.Transactions {
			if a, ok := dtx.WireSigner(tx); ok {
				signers[a] = true
			}
			if tx.Type == types.CallContractTx || tx.Type == types.TerminateContractTx || tx.Type == types.DeployContractTx {
				rc := n.Chain.GetReceipt(tx.Hash())
				if rc != nil && rc.Success && tx.To != nil {
					okTo[*tx.To] = true
				}
				if rc != nil && !rc.Success {
					nFailed++
					pipeFailedContractTxs++
				}
				pipeContractTxs++
			}
		}
		for _, a := range watch {
			if a.addr == n.Addr {
				continue
			}
			post := n.App.State.GetBalance(a.addr)
			if post.Cmp(pre[a.addr]) >= 0 {
				continue
			}
			if a.contract && !okTo[a.addr] {
				fails = append(fails, dtx.Finding{Sig: "C05:failed-tx-moved-funds", OpIdx: b,
					Detail: fmt.Sprintf("block %d (%d transactions, %d failed contract transactions): embedded contract %s went from %s to %s although no transaction addressed to it succeeded in this block",
						blk.Height(), len(blk.Body.Transactions), nFailed, a.addr.Hex(), pre[a.addr], post)})
			}
			if !a.contract && !signers[a.addr] {
				fails = append(fails, dtx.Finding{Sig: "C05:debited-account-is-not-the-signer", OpIdx: b,
					Detail: fmt.Sprintf("block %d: key %d signed no transaction of the block, balance %s -> %s", blk.Height(), w.Index(a.addr), pre[a.addr], post)})
			}
		}
		if len(fails) > 0 {
			break
		}
	}
	for k, v := range h.Stats {
		if strings.HasPrefix(k, "contract:out-of-gas-after-send") {
			pipeTightPairs += v
		}
	}
	return fails, evals, nil
}

var pipeContractTxs, pipeFailedContractTxs, pipeTightPairs int

func runPipeCase(pc *pipeCase) (fails []dtx.Finding, evals int, err error) {
	if pc.Contracts {
		return runContractCase(pc)
	}
	t0 := time.Unix(1700000000, 0)
	w := chainfx.NewWorld(pc.Seed, 4, 2, t0)
	zero := common.Address{}
	if pc.ZeroDna > 0 {
		w.Genesis = func(app *appstate.AppState) { app.State.SetBalance(zero, chainfx.Dna(pc.ZeroDna)) }
	}
	chainfx.SetTime(t0)
	n, err := w.StartNode(nil, 0, false)
	if err != nil {
		return nil, 0, err
	}
	mine := func() (*types.Block, error) {
		chainfx.Advance(20 * time.Second)
		p, err := n.Propose()
		if err != nil {
			return nil, err
		}
		return p.Block, n.Add(p.Block)
	}
	if _, err := mine(); err != nil { // FeePerGas is set by the first block
		return nil, 0, err
	}
	watch := append([]common.Address{zero}, w.Addrs...)
	for ti, pt := range pc.Txs {
		st := n.App.State
		nonceOf := func(a common.Address) uint32 {
			if st.GetEpoch(a) == st.Epoch() {
				return st.GetNonce(a)
			}
			return 0
		}
		to := w.Addrs[pt.To]
		base := &types.Transaction{Type: types.SendTx, To: &to, Amount: chainfx.Dna(pt.Amount), MaxFee: chainfx.Dna(2), Epoch: st.Epoch()}
		var obj *types.Transaction
		switch pt.Kind {
		case "signed":
			base.AccountNonce = nonceOf(w.Addrs[pt.Key]) + 1
			obj, _ = types.SignTx(base, w.Keys[pt.Key])
		case "resigned":
			// both accounts are at the same nonce, so a node charging the first signer would not stumble over the nonce
			base.AccountNonce = nonceOf(w.Addrs[pt.Key]) + 1
			first, _ := types.SignTx(base, w.Keys[pt.PreKey])
			types.Sender(first)
			first.Hash()
			obj, _ = types.SignTx(first, w.Keys[pt.Key])
		case "badsig":
			base.AccountNonce = nonceOf(zero) + 1
			valid, _ := types.SignTx(base, w.Keys[pt.Key])
			base.Signature = badSigBytes(pt.BadSig, valid.Signature)
			obj = base
		default:
			return nil, evals, fmt.Errorf("unknown kind %q", pt.Kind)
		}
		signer, signed := dtx.WireSigner(obj)
		if pt.Kind != "badsig" && (!signed || signer != w.Addrs[pt.Key]) {
			fails = append(fails, dtx.Finding{Sig: "C05:wire-signature-is-not-the-signing-keys", OpIdx: ti,
				Detail: fmt.Sprintf("tx %d (%s) signed with key %d: wire bytes recover to %s (recoverable %v)", ti, pt.Kind, pt.Key, signer.Hex(), signed)})
		}
		if pt.Kind == "badsig" && signed {
			continue // the corruption happened to be recoverable: not a case
		}
		offered := obj
		if pt.Via == "wire-inbound" {
			b, e := obj.ToBytes()
			if e != nil {
				return nil, evals, e
			}
			offered = new(types.Transaction)
			if e := offered.FromBytes(b); e != nil {
				return nil, evals, e
			}
		}
		var perr error
		func() {
			defer func() {
				if r := recover(); r != nil {
					perr = fmt.Errorf("panic: %v", r)
				}
			}()
			if pt.Via == "object-internal" {
				perr = n.Pool.AddInternalTx(offered)
			} else {
				perr = n.Pool.AddExternalTxs(validation.InboundTx, offered)
			}
		}()
		evals++
		if perr == nil && !signed {
			fails = append(fails, dtx.Finding{Sig: "C05:unsigned-tx-accepted", OpIdx: ti,
				Detail: fmt.Sprintf("the pool admitted tx %d (%s, %s): %d signature bytes that recover to nobody", ti, pt.BadSig, pt.Via, len(obj.Signature))})
		}
		type snap struct {
			bal   *big.Int
			nonce uint32
		}
		pre := map[common.Address]snap{}
		for _, a := range watch {
			pre[a] = snap{new(big.Int).Set(st.GetBalance(a)), nonceOf(a)}
		}
		blk, err := mine()
		if err != nil {
			return fails, evals, fmt.Errorf("block after tx %d: %v", ti, err)
		}
		evals++
		signers := map[common.Address]bool{}
		pipeMined += len(blk.Body.Transactions)
		if perr != nil {
			pipeRejected++
		}
		for _, btx := range blk.Body.Transactions {
			if a, ok := dtx.WireSigner(btx); ok {
				signers[a] = true
			} else {
				fails = append(fails, dtx.Finding{Sig: "C05:unsigned-tx-accepted", OpIdx: ti,
					Detail: fmt.Sprintf("block %d carries a transaction whose signature recovers to nobody (tx %d, %s)", blk.Height(), ti, pt.BadSig)})
			}
		}
		for _, a := range watch {
			if a == n.Addr {
				continue // the proposer is paid the block reward
			}
			postBal, postNonce := n.App.State.GetBalance(a), nonceOf(a)
			if (postBal.Cmp(pre[a].bal) < 0 || postNonce != pre[a].nonce) && !signers[a] {
				who := "the zero address"
				if i := w.Index(a); i >= 0 {
					who = fmt.Sprintf("key %d", i)
				}
				fails = append(fails, dtx.Finding{Sig: "C05:debited-account-is-not-the-signer", OpIdx: ti,
					Detail: fmt.Sprintf("block %d (tx %d: %s via %s, signed by key %d): %s did not sign any transaction of the block, balance %s -> %s, nonce %d -> %d",
						blk.Height(), ti, pt.Kind, pt.Via, pt.Key, who, pre[a].bal, postBal, pre[a].nonce, postNonce)})
			}
		}
	}
	return fails, evals, nil
}

func runContractWorlds(c *hx.Ctx) error {
	worlds := c.Scale(2, 16)
	if c.Tier == "search" {
		worlds = 4
	}
	for wi := 0; wi < worlds; wi++ {
		pc := &pipeCase{Seed: c.Seed*1000 + 500 + int64(wi), Contracts: true, Blocks: 70, Pipeline: true}
		fs, ev, err := runPipeCase(pc)
		if err != nil {
			return fmt.Errorf("contract world %d: %v", wi, err)
		}
		c.Rep.Evaluations += ev
		c.Hit("pipeline:contract-worlds")
		c.Rep.Coverage["pipeline_contract_txs_mined"] = pipeContractTxs
		c.Rep.Coverage["pipeline_failed_contract_txs_mined"] = pipeFailedContractTxs
		c.Rep.Coverage["pipeline_out_of_gas_after_send_then_success_offers"] = pipeTightPairs
		seen := map[string]bool{}
		for _, f := range fs {
			if seen[f.Sig] {
				continue
			}
			seen[f.Sig] = true
			c.Fail(f.Sig, f.Detail, &pipeCase{Seed: pc.Seed, Contracts: true, Blocks: f.OpIdx, Pipeline: true})
		}
	}
	return nil
}

func runPipeline(c *hx.Ctx) error {
	if err := runContractWorlds(c); err != nil {
		return err
	}
	worlds := c.Scale(3, 30)
	if c.Tier == "search" {
		worlds = 6
	}
	vias := []string{"wire-inbound", "object-inbound", "object-internal"}
	bads := []string{"recid9", "zero65", "short10", "rzero", "len66"}
	for wi := 0; wi < worlds; wi++ {
		pc := &pipeCase{Seed: c.Seed*1000 + int64(wi), ZeroDna: []int64{1000, 1000, 0}[c.Rng.Intn(3)], Pipeline: true}
		for k := 0; k < 5; k++ {
			a := 1 + c.Rng.Intn(4)
			b := 1 + (a+c.Rng.Intn(3))%4
			if b == a {
				b = 1 + a%4
			}
			pt := pipeTx{Key: a, To: 1 + (b % 4), Amount: int64(100 + c.Rng.Intn(400)), Via: vias[c.Rng.Intn(3)]}
			switch k % 3 {
			case 0:
				pt.Kind = "resigned"
				pt.PreKey = b
			case 1:
				pt.Kind = "badsig"
				pt.BadSig = bads[c.Rng.Intn(len(bads))]
			default:
				pt.Kind = "signed"
			}
			pc.Txs = append(pc.Txs, pt)
		}
		fs, ev, err := runPipeCase(pc)
		if err != nil {
			return fmt.Errorf("pipeline world %d: %v", wi, err)
		}
		c.Rep.Evaluations += ev
		c.Hit("pipeline:worlds")
		c.Rep.Coverage["pipeline_txs_mined"] = pipeMined
		c.Rep.Coverage["pipeline_txs_refused_by_pool"] = pipeRejected
		for _, pt := range pc.Txs {
			c.Hit("pipeline:" + pt.Kind + ":" + pt.Via)
		}
		seen := map[string]bool{}
		for _, f := range fs {
			if seen[f.Sig] {
				continue
			}
			seen[f.Sig] = true
			small := &pipeCase{Seed: pc.Seed, ZeroDna: pc.ZeroDna, Txs: []pipeTx{pc.Txs[f.OpIdx]}, Pipeline: true}
			if sf, _, err := runPipeCase(small); err == nil {
				for _, y := range sf {
					if y.Sig == f.Sig {
						c.Fail(f.Sig, y.Detail, small)
						small = nil
						break
					}
				}
			}
			if small != nil {
				c.Fail(f.Sig, f.Detail, pc)
			}
		}
	}
	return nil
}
