package main

// C05 — "a transaction can only spend its signer's funds".
//   - correspondence (D-tx): generated (state, tx) pairs through the REAL validation.ValidateTx and the REAL
//     Blockchain.applyTxOnState (export shim), every verdict and every post-state compared with the Lean model
//     M-Ledger (lean/IdenaModel/Model/{Ledger,TxValidate,TxApply}.lean), which the theorems of Props/C05.lean,
//     Props/C04Tx.lean and Props/C06Tx.lean are about;
//   - independent oracle: per validated+applied tx, per-address (balance, stake) deltas over every live object of
//     the real state: an address other than the recovered signer is lowered only in the three named exceptions.
// The machinery lives in internal/dtx so that the C04 / C06 channels can reuse it.
import (
	"encoding/json"
	"os"

	"verifharness/internal/dtx"
	"verifharness/internal/hx"
)

func init() {
	hx.Register("C05", func(c *hx.Ctx) error {
		if c.Replay != "" { // a replay of the pipeline part carries {"pipeline": true, ...}
			if b, err := os.ReadFile(c.Replay); err == nil {
				var w struct {
					Replay *pipeCase `json:"replay"`
				}
				if json.Unmarshal(b, &w) == nil && w.Replay != nil && w.Replay.Pipeline {
					fs, ev, err := runPipeCase(w.Replay)
					if err != nil {
						return err
					}
					c.Rep.Evaluations = ev
					c.Distinct("pipeline-replay")
					for _, f := range fs {
						c.Fail(f.Sig, f.Detail, w.Replay)
					}
					return nil
				}
			}
			return dtx.Run(c, "C05")
		}
		// the pipeline part first: its few findings must not be crowded out by the report's failure cap
		if err := runPipeline(c); err != nil {
			return err
		}
		return dtx.Run(c, "C05")
	})
}
