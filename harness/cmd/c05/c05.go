package main

// C05 — "a transaction can only spend its signer's funds".
//   - correspondence (D-tx): generated (state, tx) pairs through the REAL validation.ValidateTx and the REAL
//     Blockchain.applyTxOnState (export shim), every verdict and every post-state compared with the Lean model
//     M-Ledger (lean/IdenaModel/Model/{Ledger,TxValidate,TxApply}.lean), which the theorems of Props/C05.lean,
//     Props/C04Tx.lean and Props/C06Tx.lean are about;
//   - independent oracle: per validated+applied tx, per-address (balance, stake) deltas over every live object of
//     the real state: an address other than the recovered signer is lowered only in the three named exceptions.
// The machinery lives in internal/dtx so that the C04 / C06 channels can reuse it.
import (
	"verifharness/internal/dtx"
	"verifharness/internal/hx"
)

func init() {
	hx.Register("C05", func(c *hx.Ctx) error { return dtx.Run(c, "C05") })
}
