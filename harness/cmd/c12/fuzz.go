package main

// Search, not proof: byte-level mutational fuzz from valid encodings into Decode -> Msg.FromBytes -> handle (real
// handler with all its consumers) and into FromBytes -> IsValid -> accessors -> validation per wire type, with the same
// three observations (panic, hang, allocation).

import (
	"encoding/hex"
	"math/rand"

	"github.com/idena-network/idena-go/blockchain/types"
	"github.com/idena-network/idena-go/core/state/snapshot"
	"github.com/idena-network/idena-go/crypto"
	"github.com/idena-network/idena-go/protocol"
)

func mutate(r *rand.Rand, seed []byte, other []byte) []byte {
	b := append([]byte{}, seed...)
	for k := 0; k < 1+r.Intn(3); k++ {
		if len(b) == 0 {
			b = make([]byte, 1+r.Intn(24))
			r.Read(b)
			continue
		}
		switch r.Intn(9) {
		case 0: // bit flips
			for j := 0; j < 1+r.Intn(3); j++ {
				b[r.Intn(len(b))] ^= byte(1 << uint(r.Intn(8)))
			}
		case 1: // truncate
			b = b[:r.Intn(len(b)+1)]
		case 2: // delete a byte
			p := r.Intn(len(b))
			b = append(b[:p], b[p+1:]...)
		case 3: // insert a byte
			p := r.Intn(len(b) + 1)
			b = append(b[:p], append([]byte{byte(r.Intn(256))}, b[p:]...)...)
		case 4: // random short string
			b = make([]byte, r.Intn(24))
			r.Read(b)
		case 5: // interesting byte values
			b[r.Intn(len(b))] = []byte{0, 1, 0x7f, 0x80, 0xff, 0x0a, 0x12, 0x08}[r.Intn(8)]
		case 6: // delete a chunk
			p := r.Intn(len(b))
			q := p + r.Intn(len(b)-p+1)
			b = append(b[:p], b[q:]...)
		case 7: // splice with another valid encoding
			if len(other) > 0 {
				p, q := r.Intn(len(b)+1), r.Intn(len(other)+1)
				b = append(append([]byte{}, b[:p]...), other[q:]...)
			}
		case 8: // duplicate a chunk (repeated fields, longer lengths)
			p := r.Intn(len(b))
			q := p + r.Intn(len(b)-p+1)
			chunk := append([]byte{}, b[p:q]...)
			b = append(b[:q], append(chunk, b[q:]...)...)
		}
	}
	if len(b) > 1<<20 {
		b = b[:1<<20]
	}
	return b
}

type fuzzSeed struct {
	code    uint64
	payload []byte
}

func (G *gen) fuzz(fx *fixture, nMsg, nObj int) {
	r, n, w := G.r, fx.n, fx.w
	head := n.Chain.Head.Height()
	prop := fx.ownProposal()
	if !usableProposal(prop) {
		return
	}
	txs := hostileTxSample(fx, r, 6)
	okTx, _ := types.SignTx(&types.Transaction{Type: types.SendTx, AccountNonce: n.App.State.GetNonce(w.Addrs[1]) + 1, Epoch: n.App.State.Epoch(),
		To: &w.Addrs[2], Amount: dna(1), MaxFee: dna(10)}, w.Keys[1])
	txs = append(txs, okTx)
	vote := &types.Vote{Header: &types.VoteHeader{Round: head + 1, Step: 1, ParentHash: n.Chain.Head.Hash(), VotedHash: prop.Hash()}}
	signVote(vote, w.Keys[0])
	pp := &types.ProofProposal{Proof: prop.Proof, Round: head + 1}
	hh := crypto.SignatureHash(pp)
	pp.Signature, _ = crypto.Sign(hh[:], w.Keys[0])
	fk, _ := types.SignFlipKey(&types.PublicFlipKey{Key: make([]byte, 32), Epoch: n.App.State.Epoch()}, w.Keys[0])
	pkg, _ := types.SignFlipKeysPackage(&types.PrivateFlipKeysPackage{Data: []byte{1, 2, 3, 4}, Epoch: n.App.State.Epoch()}, w.Keys[0])
	cert := &types.BlockCert{Round: head + 1, Step: 255, VotedHash: prop.Hash(), Signatures: []*types.BlockCertSignature{{Signature: vote.Signature}, {Signature: make([]byte, 65), TurnOffline: true}}}
	man := &snapshot.Manifest{Height: 5, CidV2: []byte{1, 2, 3}}
	var items []protocol.VerifC12RangeItem
	for i := 0; i < 3 && i < len(fx.canon); i++ {
		hb, _ := fx.canon[i].Header.ToBytes()
		items = append(items, protocol.VerifC12RangeItem{Header: hb, Cert: mustBytes(cert.ToBytes())})
	}
	rng := protocol.VerifC12BlockRange(7, items)
	flipMsg := &types.Flip{Tx: okTx, PublicPart: []byte{1, 2}, PrivatePart: []byte{3}}
	h16 := make([]byte, 16)
	seeds := []fuzzSeed{
		{protocol.ProposeBlock, mustBytes(prop.ToBytes())}, {protocol.ProposeProof, mustBytes(pp.ToBytes())}, {protocol.Vote, mustBytes(vote.ToBytes())},
		{protocol.Block, mustBytes(prop.Block.ToBytes())}, {protocol.BlocksRange, rng}, {protocol.FlipBody, mustBytes(flipMsg.ToBytes())},
		{protocol.FlipKey, mustBytes(fk.ToBytes())}, {protocol.FlipKeysPackage, mustBytes(pkg.ToBytes())}, {protocol.SnapshotManifest, mustBytes(man.ToBytes())},
		{protocol.Push, protocol.VerifC12PushHash(6, h16)}, {protocol.Pull, protocol.VerifC12PushHash(1, h16)},
		{protocol.BatchPush, protocol.VerifC12Batch([][]byte{protocol.VerifC12PushHash(2, h16), protocol.VerifC12PushHash(5, h16)})},
		{protocol.BatchFlipKey, protocol.VerifC12Batch([][]byte{mustBytes(fk.ToBytes()), mustBytes(fk.ToBytes())})},
		{protocol.UpdateShardId, protocol.VerifC12UpdateShard(3)}, {protocol.Disconnect, protocol.VerifC12Disconnect("bye")},
	}
	for _, t := range txs {
		seeds = append(seeds, fuzzSeed{protocol.NewTx, mustBytes(t.ToBytes())})
	}
	for i := 0; i < nMsg && !G.stop; i++ {
		s := seeds[r.Intn(len(seeds))]
		o := seeds[r.Intn(len(seeds))]
		var frame []byte
		switch r.Intn(5) {
		case 0: // mutate the whole transport frame
			frame = mutate(r, protocol.VerifC12WrapMsg(s.code, s.payload, r.Intn(2) == 0), o.payload)
		case 1: // valid payload under another code
			frame = protocol.VerifC12WrapMsg(o.code, s.payload, false)
		default: // mutate the payload, keep the envelope
			frame = protocol.VerifC12WrapMsg(s.code, mutate(r, s.payload, o.payload), r.Intn(4) == 0)
		}
		cs := c12case{Section: "fuzz-msg", State: fx.kind, Seed: G.seed, Hex: hex.EncodeToString(frame)}
		if s.code == protocol.BlocksRange && r.Intn(2) == 0 {
			cs.Batch = 64
		}
		res := G.exec(fx, cs, len(frame), "", allocBound(effectiveLen(frame)), nil)
		cls := res.Class
		if j := indexByte(cls, ' '); j > 0 {
			cls = cls[:j]
		}
		G.c.Hit("fuzz-msg:" + cls)
	}
	objSeeds := map[string][][]byte{
		"tx": {}, "block": {mustBytes(prop.Block.ToBytes())}, "cert": {mustBytes(cert.ToBytes())}, "manifest": {mustBytes(man.ToBytes())},
		"flipkey": {mustBytes(fk.ToBytes())}, "keypkg": {mustBytes(pkg.ToBytes())}, "range": {rng},
	}
	for _, t := range txs {
		objSeeds["tx"] = append(objSeeds["tx"], mustBytes(t.ToBytes()))
	}
	if len(fx.canon) > 0 {
		objSeeds["block"] = append(objSeeds["block"], mustBytes(fx.canon[len(fx.canon)-1].ToBytes()))
	}
	kinds := []string{"tx", "tx", "tx", "block", "block", "cert", "manifest", "flipkey", "keypkg", "range"}
	for i := 0; i < nObj && !G.stop; i++ {
		k := kinds[r.Intn(len(kinds))]
		ss := objSeeds[k]
		b := mutate(r, ss[r.Intn(len(ss))], ss[r.Intn(len(ss))])
		cs := c12case{Section: "fuzz-obj", State: fx.kind, Seed: G.seed, Entry: k, Hex: hex.EncodeToString(b)}
		res := G.exec(fx, cs, len(b), "", allocBound(len(b)), nil)
		G.c.Hit("fuzz-obj:" + k + ":" + res.Class)
	}
}

func indexByte(s string, c byte) int {
	for i := 0; i < len(s); i++ {
		if s[i] == c {
			return i
		}
	}
	return -1
}
