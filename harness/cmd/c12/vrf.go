package main

// Structured mutations of a 129-byte VRF proof  s (32) | t (32) | VRF point (65, uncompressed):  scalars at and beyond the
// borders of [1, N-1], points that are not on the curve / at infinity / badly tagged, and the algebraic relations that
// make the verifier add a point to itself or to its negative (t = ±s·k for the signer's own key k).

import (
	"crypto/ecdsa"
	"math/big"
	"math/rand"
	"sort"

	"github.com/idena-network/idena-go/crypto/secp256k1"
)

type vrfVariant struct {
	what  string
	proof []byte
}

func pad32(b []byte) []byte {
	out := make([]byte, 32)
	if len(b) > 32 {
		b = b[len(b)-32:]
	}
	copy(out[32-len(b):], b)
	return out
}

// vrfVariants: honest = a proof the key really produced (nil: a well-formed random one is used as base)
func vrfVariants(honest []byte, key *ecdsa.PrivateKey, r *rand.Rand) []vrfVariant {
	N := secp256k1.S256().N
	base := make([]byte, 129)
	if len(honest) == 129 {
		copy(base, honest)
	} else {
		r.Read(base)
		base[0] &= 0x7f
		base[32] &= 0x7f
		base[64] = 4
		gx, gy := secp256k1.S256().Gx, secp256k1.S256().Gy
		copy(base[65:97], pad32(gx.Bytes()))
		copy(base[97:129], pad32(gy.Bytes()))
	}
	mk := func(s, t, pt []byte) []byte {
		p := append([]byte{}, base...)
		if s != nil {
			copy(p[0:32], pad32(s))
		}
		if t != nil {
			copy(p[32:64], pad32(t))
		}
		if pt != nil {
			copy(p[64:129], pt)
		}
		return p
	}
	zero := make([]byte, 32)
	ff := make([]byte, 32)
	for i := range ff {
		ff[i] = 0xff
	}
	nm1 := new(big.Int).Sub(N, big.NewInt(1)).Bytes()
	np1 := new(big.Int).Add(N, big.NewInt(1)).Bytes()
	m := map[string][]byte{
		"t-zero": mk(nil, zero, nil), "s-zero": mk(zero, nil, nil), "s-and-t-zero": mk(zero, zero, nil),
		"t-N": mk(nil, N.Bytes(), nil), "s-N": mk(N.Bytes(), nil, nil), "t-N-plus-1": mk(nil, np1, nil), "s-N-plus-1": mk(np1, nil, nil),
		"t-N-minus-1": mk(nil, nm1, nil), "s-N-minus-1": mk(nm1, nil, nil), "t-one": mk(nil, []byte{1}, nil), "s-one": mk([]byte{1}, nil, nil),
		"t-max": mk(nil, ff, nil), "s-max": mk(ff, nil, nil), "all-zero": make([]byte, 129),
	}
	{
		pt := make([]byte, 65)
		r.Read(pt)
		pt[0] = 4
		m["point-not-on-curve"] = mk(nil, nil, pt)
		inf := make([]byte, 65)
		inf[0] = 4
		m["point-infinity"] = mk(nil, nil, inf)
		bad := append([]byte{}, base[64:129]...)
		bad[0] = 2
		m["point-tag-2"] = mk(nil, nil, bad)
		big1 := make([]byte, 65)
		for i := range big1 {
			big1[i] = 0xff
		}
		big1[0] = 4
		m["point-coordinates-max"] = mk(nil, nil, big1)
		g := make([]byte, 65)
		g[0] = 4
		copy(g[1:33], pad32(secp256k1.S256().Gx.Bytes()))
		copy(g[33:65], pad32(secp256k1.S256().Gy.Bytes()))
		m["point-generator"] = mk(nil, nil, g)
	}
	if key != nil {
		s := new(big.Int).SetBytes(base[0:32])
		s.Mod(s, N)
		if s.Sign() == 0 {
			s.SetInt64(7)
		}
		sk := new(big.Int).Mul(s, key.D)
		sk.Mod(sk, N)
		m["t-equals-s-times-key"] = mk(s.Bytes(), sk.Bytes(), nil)                            // [t]G = [s]([k]G): the verifier adds a point to itself
		m["t-equals-minus-s-times-key"] = mk(s.Bytes(), new(big.Int).Sub(N, sk).Bytes(), nil) // … to its negative (sum at infinity)
	}
	if len(honest) != 129 {
		// no honest proof to stay close to: every scalar variant gets its own on-curve point, so that receivers that remember
		// the VRF point of a proof (pengings: proposeCache keyed by its hash) do not drop the variants as duplicates
		for k, p := range m {
			if (k[0] == 't' || k[0] == 's') && k[1] == '-' {
				kb := make([]byte, 32)
				r.Read(kb)
				kb[0] &= 0x7f
				kb[31] |= 1
				if x, y := secp256k1.S256().ScalarBaseMult(kb); x != nil {
					p[64] = 4
					copy(p[65:97], pad32(x.Bytes()))
					copy(p[97:129], pad32(y.Bytes()))
				}
			}
		}
	}
	var names []string
	for k := range m {
		names = append(names, k)
	}
	sort.Strings(names)
	var out []vrfVariant
	for _, k := range names {
		out = append(out, vrfVariant{k, m[k]})
	}
	return out
}
