package main

// C12: no message from the network can crash the node.
//
// One run = (G) dereference census of the current sources, the transport-frame stream, and — per node state (empty,
// populated, inside a validation ceremony, after the first epoch) — the structured-hostile streams for every message
// kind (through the REAL gossip handler), every transaction type (ValidateTx in three modes, pool, processTxs,
// applyTxOnState), blocks assembled from decodable parts (ValidateBlock) and fork block lists (ForkResolver), followed
// by byte-level mutational fuzzing.  Every case runs under recover(), a timeout and allocation accounting (the
// independent oracle); the abstract description of the modelled cases goes to the Lean model, which predicts the
// outcome class.

import (
	"encoding/json"
	"fmt"
	"math/rand"
	"os"
	"runtime/debug"
	"runtime/pprof"
	"strings"
	"time"

	"verifharness/internal/hx"
)

func debugFreeOSMemory() { debug.FreeOSMemory() }

func caseTimeout() time.Duration {
	if os.Getenv("C12_CHILD") != "" {
		return 120 * time.Second // one flood = hundreds of messages
	}
	return 10 * time.Second
}

func (G *gen) census() error {
	cs, err := runCensus(repoRoot())
	if err != nil {
		return err
	}
	G.cap = cs.Cap
	if dump := os.Getenv("C12_CENSUS_DUMP"); dump != "" { // maintenance aid: current rows for derefs_classify.py
		var sb strings.Builder
		for _, row := range cs.Rows {
			fmt.Fprintf(&sb, "%s\t%s\t%s\t%s\t%d\t%d\n", row.Fn, row.Field, row.Kind, row.File, row.Unguarded, row.Guarded)
		}
		os.WriteFile(dump, []byte(sb.String()), 0644)
	}
	exp := loadExpectations()
	G.c.Line("new census -", "ok")
	gate := "0"
	if cs.Gates["Decode:DecodedLen"] && cs.Gates["Decode:maxDecodedMsgSize"] {
		gate = "1"
	}
	G.c.Line(fmt.Sprintf("cap %s %s", cs.Cap, gate), "ok")
	for _, cr := range classify(cs.Rows, exp, cs.Callers) {
		row := cr.Row
		fn, cls, want := row.Fn, "unclassified", 0
		if cr.Exp != nil {
			fn, cls, want = cr.Exp.Fn, cr.Exp.Class, cr.Exp.Unguarded // a moved site is reported under the name the list (and the model) knows
		} else if row.Unguarded == 0 {
			cls = "nil-checked" // every dereference of the pair is dominated by a nil test: safe by construction
		}
		G.c.Line(fmt.Sprintf("site %s %s %s %d %d %s", fn, row.Field, row.Kind, row.Unguarded, want, cls), "ok")
		G.c.Hit("census:" + cls)
		if row.MovedFrom != "" {
			G.c.Hit("census:moved-or-extracted")
		}
		if row.Unguarded < want {
			G.c.Hit("census:fewer-unguarded-than-pinned")
		}
	}
	G.c.Line(fmt.Sprintf("census-end %d", len(cs.Rows)), "ok")
	fields := map[string][]string{}
	for k, v := range cs.Fields {
		fields[k] = v
	}
	G.c.Rep.Coverage["optional_fields"] = fields
	G.c.Rep.Coverage["deref_pairs"] = len(cs.Rows)
	G.c.Rep.Coverage["decoded_len_cap"] = cs.Cap
	return nil
}

var stateOrder = []string{"empty", "populated", "ceremony", "epoch1", "populated+emptyhead", "epoch1+emptyhead", "ceremony2"}

func runGenerated(c *hx.Ctx) error {
	G := &gen{c: c, r: rand.New(rand.NewSource(c.Seed*104729 + 11)), g: newGuard(caseTimeout()), seed: c.Seed}
	c.Rep.Rule = "census of every (function, optional field) dereference pair of the handler/validation path; hostile transport frames (claimed lengths up to 2^64-1); per node state " +
		"(empty, populated, in-ceremony, epoch 1): every message kind with absent members / nil parts / both headers / hostile heights, rounds, lengths, signatures through the real handler, " +
		"tx type x recipient x payload family x big-int family x signer into ValidateTx(3 modes)/pool/processTxs/applyTxOnState, blocks with nil parts and ~45 header tamperings into ValidateBlock (gated and raw), " +
		"fork block lists (gaps, duplicates, height 0/1/max, own blocks) into ForkResolver.processBlocks; then byte-level mutational fuzz; distinct = distinct abstract shapes (state, kind, nil-ness, lengths, type/recipient/payload family)"
	if err := G.census(); err != nil {
		return err
	}
	G.frames()
	scale := func(quick, thorough int) int { // the search tier stays well below the check's per-run timeout
		switch c.Tier {
		case "thorough":
			return thorough
		case "search":
			return quick * 2
		}
		return quick
	}
	txBudget := scale(1500, 12000)
	reps := 1
	if c.Tier == "thorough" {
		reps = 3
	}
	secs := map[string]float64{}
	defer func() {
		for k, v := range secs {
			c.Rep.Coverage["seconds:"+k] = fmt.Sprintf("%.1f", v)
		}
	}()
	for i, kind := range stateOrder {
		if G.stop {
			break
		}
		fx, err := findFixture(c.Seed, kind)
		if err != nil {
			return fmt.Errorf("harness: %v", err) // a machinery error, never a property verdict
		}
		c.Rep.Coverage["world-seed:"+kind] = fx.seed
		c.Rep.Coverage["height:"+kind] = fx.n.Chain.Head.Height()
		c.Rep.Coverage["period:"+kind] = fmt.Sprint(fx.n.App.State.ValidationPeriod())
		c.Rep.Coverage["pools:"+kind] = fmt.Sprint(fx.pools())
		timed := func(name string, f func()) {
			t0 := time.Now()
			f()
			secs[name] += time.Since(t0).Seconds()
		}
		timed("messages", func() { G.messages(fx) })
		timed("blocks", func() { G.blocks(fx) })
		timed("forks", func() { G.forks(fx) })
		b := txBudget
		if i >= 2 {
			b = txBudget / 2
		}
		if i >= 4 {
			b = txBudget / 6 // empty-head states: the block / proposal / header streams are the point
		}
		timed("txs", func() {
			for rep := 0; rep < reps; rep++ { // thorough: every (type, recipient, payload) combination, three draws of the rest
				G.txStream(fx, b)
			}
		})
		if kind == "populated" || (c.Tier != "quick" && i < 4) {
			timed("fuzz", func() { G.fuzz(fx, scale(20000, 300000), scale(28000, 450000)) })
		}
		if kind == "populated" {
			worldSeed := fx.seed
			fx.close()
			var ferr error
			timed("floods", func() { ferr = G.floods(worldSeed) })
			if ferr != nil {
				return ferr
			}
			continue
		}
		fx.close()
	}
	return nil
}

func runReplay(c *hx.Ctx) error {
	b, err := os.ReadFile(c.Replay)
	if err != nil {
		return err
	}
	var wrap struct {
		Replay c12case `json:"replay"`
	}
	if err := json.Unmarshal(b, &wrap); err != nil {
		return err
	}
	cs := wrap.Replay
	if cs.Section == "flood" && os.Getenv("C12_CHILD") == "" {
		// a flood may end in a runtime fatal error: run it in a child process also when it is replayed
		G := &gen{c: c, r: rand.New(rand.NewSource(1)), g: newGuard(caseTimeout()), seed: cs.Seed, cap: "-"}
		return G.floodChild(cs)
	}
	G := &gen{c: c, r: rand.New(rand.NewSource(1)), g: newGuard(caseTimeout()), seed: cs.Seed, cap: "-"}
	var fx *fixture
	if cs.State != "-" && cs.State != "" {
		fx, err = newFixture(cs.Seed, cs.State)
		if err != nil {
			return err
		}
		defer fx.close()
	}
	bound := allocBound(len(cs.Hex) / 2)
	switch cs.Section {
	case "frame", "fuzz-frame":
		bound = frameCapOracle + 64*uint64(len(cs.Hex)/2)
	case "msg", "fuzz-msg":
		bound = allocBound(effectiveLen(unhex(cs.Hex)))
	case "flood":
		bound = 0 // hundreds of messages and a few mined blocks: no per-input allocation bound
	}
	r := G.exec(fx, cs, len(cs.Hex)/2, "", bound, nil)
	c.Rep.Notes = append(c.Rep.Notes, fmt.Sprintf("replay: class=%q panic=%q site=%s line=%s hang=%v alloc=%d ms=%d", r.Class, r.Panic, r.Site, r.Line, r.Hang, r.Alloc, r.Millis))
	return nil
}

func init() {
	hx.Register("C12", func(c *hx.Ctx) error {
		debug.SetGCPercent(100)
		if pf := os.Getenv("C12_PROF"); pf != "" { // maintenance aid
			f, _ := os.Create(pf)
			pprof.StartCPUProfile(f)
			defer pprof.StopCPUProfile()
		}
		if c.Replay != "" {
			return runReplay(c)
		}
		return runGenerated(c)
	})
}
