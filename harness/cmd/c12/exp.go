package main

import (
	"fmt"

	"verifharness/internal/hx"
)

func init() {
	hx.Register("C12", func(c *hx.Ctx) error {
		cs, err := runCensus(repoRoot())
		if err != nil {
			return err
		}
		fmt.Println("CAP", cs.Cap, cs.Gates)
		for k, v := range cs.Fields {
			fmt.Println("FIELD", k, v)
		}
		for _, r := range cs.Rows {
			fmt.Printf("ROW\t%s\t%s\t%d\n", r.Fn, r.Field, r.Count)
		}
		return nil
	})
}
