#!/usr/bin/env python3
"""Maintenance aid for derefs_expected.tsv (not used by the check).

  C12_CENSUS_DUMP=/tmp/rows.tsv /verif/build/corr_c12 C12 -out /tmp/x      # current (function, field, sites) rows
  python3 derefs_classify.py /tmp/rows.tsv > derefs_expected.tsv            # then REVIEW every changed line

The rules below record why each pair got its class when the list was first reviewed; a new pair falls into `post-gate`
only if it really is reached behind one of the IsValid gates — check the call path before accepting the regenerated file.
"""
import sys

def cls(fn, fld, kind="field"):
    if kind == "star":
        fld = "*" + fld
    pkg, f = fn.split(":")
    modelled = {
     ("blockchain/types:Header.Height","ProposedHeader"),("blockchain/types:Header.Height","EmptyBlockHeader"),
     ("blockchain/types:Header.Hash","ProposedHeader"),("blockchain/types:Header.Hash","EmptyBlockHeader"),
     ("blockchain/types:Header.ParentHash","ProposedHeader"),("blockchain/types:Header.ParentHash","EmptyBlockHeader"),
     ("blockchain/types:Block.Height","Header"),("blockchain/types:Block.Height","EmptyBlockHeader"),("blockchain/types:Block.Height","ProposedHeader"),
     ("blockchain/types:Block.Hash","Header"),("blockchain/types:Block.IsEmpty","Header"),
     ("blockchain/types:Block.IsValid","Header"),("blockchain/types:Block.IsValid","Body"),
     ("blockchain/types:BlockProposal.IsValid","Block"),("blockchain/types:BlockProposal.IsValid","Header"),("blockchain/types:BlockProposal.IsValid","ProposedHeader"),
     ("protocol:blockRange.IsValid","Header"),("protocol:IdenaGossipHandler.handle","Header"),("protocol:IdenaGossipHandler.handle","Block"),
     ("pengings:Votes.AddVote","Header"),("pengings:Proposals.AddProposedBlock","Header"),("pengings:Proposals.AddProposedBlock","ProposedHeader"),
     ("core/flip:Flipper.addNewFlip","Tx"),
     ("blockchain:Blockchain.validateBlock","Header"),("blockchain:Blockchain.validateBlock","ProposedHeader"),("blockchain:Blockchain.validateBlock","Body"),
     ("consensus:ForkResolver.checkForkSize","Block"),("consensus:ForkResolver.processBlocks","Block"),("consensus:sortBlocks","Block"),
    }
    for a in ["Flags","Seed","Root","IdentityRoot","Time"]:
        modelled.add(("blockchain/types:Header."+a,"EmptyBlockHeader")); modelled.add(("blockchain/types:Header."+a,"ProposedHeader"))
    for a in ["Coinbase","FeePerGas","IpfsHash","OfflineAddr"]:
        modelled.add(("blockchain/types:Header."+a,"ProposedHeader"))
    if (fn,fld) in modelled:
        return "modelled", "accessor / handler step with this dereference as an explicit panic point in Model/Messages.lean"
    if pkg=="blockchain/validation":
        return "tx-validator", "per-type tx validator: recipient dereferences are clauses of Model/TxValidate.lean (validateTx_no_panic) and exercised by the hostile tx stream"
    if f=="Blockchain.applyTxOnState":
        return "post-validate", "applyTxOnState runs after ValidateTx accepted the tx (processTxs :1370, filterTxs); recipient presence per type is established there"
    if f in ("Block.ToBytes","BlockProposal.ToBytes","BlockProposal.ToSignatureBytes","Flip.ToBytes","Header.ToProto","Transaction.ToProto","Transaction.ToSignatureBytes","Vote.ToBytes","blockRange.ToBytes","ProposedHeader.ToProto"):
        return "encoder", "encoder: the field is tested for nil immediately before it is selected through"
    if f=="Header.FromProto":
        return "nil-checked", "selects through the proto message member of the same name inside `if protoHeader.ProposedHeader != nil`"
    if f=="BlockProposal.FromBytes":
        return "local-object", "decoder writes through the Block it has just allocated (p.Block = &Block{})"
    if f=="SavedTransaction.ToBytes" or f.startswith("indexer."):
        return "not-network", "database record / own-transaction index, not fed by network messages"
    if f=="calculateTxBloom" and fld=="To":
        return "nil-checked", "tx.To tested for nil on the line before"
    if fld in ("Cert","IdentityDiff"):
        return "nil-safe-callee", "only (*BlockCert).Empty / (*IdentityStateDiff).Empty|Validate / nil tests / pass-through: callee accepts a nil receiver"
    if f in ("Blockchain.ProposeBlock","Blockchain.generateEmptyBlock","Blockchain.ValidateBlockCert","Engine.proposeBlock","Engine.vote","KeysPool.Initialize","NewTxPool","NewVotes","OfflineDetector.Start","OfflineDetector.VoteForOffline"):
        return "local-object", "object built by the node itself (own proposal / empty block / locally assembled vote / own AddBlock event)"
    if f in ("Blockchain.GetBlock","Blockchain.GetTx","Blockchain.ReadBlockForForkedPeer","Blockchain.ResetTo","OfflineDetector.processBlock","TxPool.ResetTo","IdenaGossipHandler.provideForkBlocks","Blockchain.IsPermanentCert"):
        return "stored-chain", "block / header read back from the node's own database or already inserted into the chain"
    return "post-gate", "reached only with objects that passed Header.IsValid / Block.IsValid / BlockProposal.IsValid / Vote.IsValid / blockRange.IsValid (the gates of Model/Messages.lean); see DESIGN C12"

out = ["# C12 dereference census expectation: function<TAB>field<TAB>kind (field x.F.g | call x.F.m() | star *x.F)<TAB>file<TAB>distinct UNGUARDED access paths (pinned)<TAB>nil-guarded ones (informational)<TAB>class<TAB>reason",
       "# unguarded = not dominated by a nil test of the same access path in the function (see census.go); predecessors (prevBlock.ProposedHeader…) must stay guarded: an unguarded one changes the pinned count",
       "# classes: modelled (must be in Msg.modelledSites) | nil-checked | nil-safe-callee | post-gate | local-object | stored-chain | encoder | tx-validator | post-validate | not-network | type-expr"]
for l in open(sys.argv[1]):
    fn, fld, kind, file, n, g = l.rstrip("\n").split("\t")
    c, why = cls(fn, fld, kind)
    out.append("\t".join([fn, fld, kind, file, n, g, c, why]))
print("\n".join(out))
