package main

// Guarded execution of one case against the real code: recover() (panic), a per-case timeout (hang) and allocation
// accounting (bytes allocated while the case ran vs. a bound in the size of the input).

import (
	"fmt"
	"os"
	"path/filepath"
	"runtime/debug"
	"runtime/metrics"
	"strings"
	"time"
)

type result struct {
	Class  string // what the case function returned ("" when it did not return)
	Panic  string // recovered value ("" = no panic)
	Site   string // innermost /repo function on the panicking stack (pkg.Func)
	Line   string // file:line of that frame
	Hang   bool
	Alloc  uint64
	Millis int64
}

type guard struct {
	req     chan func() string
	res     chan result
	timeout time.Duration
	repo    string
	sample  []metrics.Sample
}

func repoRoot() string {
	if r := os.Getenv("VERIF_REPO"); r != "" {
		if a, err := filepath.Abs(r); err == nil {
			return a
		}
		return r
	}
	return "/repo"
}

func newGuard(timeout time.Duration) *guard {
	g := &guard{timeout: timeout, repo: repoRoot()}
	g.spawn()
	return g
}

func allocBytes() uint64 {
	s := []metrics.Sample{{Name: "/gc/heap/allocs:bytes"}}
	metrics.Read(s)
	if s[0].Value.Kind() == metrics.KindUint64 {
		return s[0].Value.Uint64()
	}
	return 0
}

func (g *guard) spawn() {
	req, res := make(chan func() string), make(chan result, 1)
	g.req, g.res = req, res
	go func() {
		for f := range req {
			res <- g.exec(f)
		}
	}()
}

func (g *guard) exec(f func() string) (r result) {
	t0 := time.Now()
	a0 := allocBytes()
	defer func() {
		if rec := recover(); rec != nil {
			r.Panic = fmt.Sprint(rec)
			if len(r.Panic) > 300 {
				r.Panic = r.Panic[:300]
			}
			st := string(debug.Stack())
			if os.Getenv("C12_STACK") != "" {
				fmt.Fprintln(os.Stderr, st)
			}
			r.Site, r.Line = panicSite(st, g.repo)
		}
		r.Alloc = allocBytes() - a0
		r.Millis = time.Since(t0).Milliseconds()
	}()
	r.Class = f()
	return
}

// run executes f on the worker goroutine; if it does not come back within the timeout the worker is abandoned
// (it cannot be killed) and a fresh one is started.
func (g *guard) run(f func() string) result {
	g.req <- f
	t := time.NewTimer(g.timeout)
	defer t.Stop()
	select {
	case r := <-g.res:
		return r
	case <-t.C:
		g.spawn()
		return result{Hang: true, Millis: g.timeout.Milliseconds()}
	}
}

// panicSite: the first stack frame below the runtime's panic frames that lies in the repository under test
// (overlay-added shim files excluded).
func panicSite(stack, repo string) (fn, line string) {
	lines := strings.Split(stack, "\n")
	seenPanic := false
	for i := 0; i+1 < len(lines); i++ {
		l := lines[i]
		if strings.HasPrefix(l, "panic(") {
			seenPanic = true
			continue
		}
		if !seenPanic {
			continue
		}
		loc := strings.TrimSpace(lines[i+1])
		if strings.HasPrefix(loc, repo+"/") && !strings.Contains(loc, "zz_verif_export") {
			name := l
			if k := strings.LastIndex(name, "("); k > 0 {
				name = name[:k]
			}
			name = strings.TrimPrefix(name, "github.com/idena-network/idena-go/")
			name = strings.NewReplacer("(*", "", ")", "").Replace(name)
			if k := strings.Index(loc, " +0x"); k > 0 {
				loc = loc[:k]
			}
			return name, strings.TrimPrefix(loc, repo+"/")
		}
	}
	return "?", "?"
}

// allocation bound: a fixed slack (background goroutines of the node allocate too) plus a factor of the input size.
const allocSlack = 8 << 20
const allocFactor = 256

func allocBound(inputLen int) uint64 { return allocSlack + allocFactor*uint64(inputLen) }
