package main

// Hostile transaction stream (every type code 0..0x18, absent / zero / special recipients, nil / huge / negative big
// ints, empty / truncated / oversized attachments, good and bad signatures) into the real ValidateTx (three modes),
// TxPool.Validate, TxPool.AddExternalTxs, processTxs and applyTxOnState; blocks assembled from decodable parts into
// ValidateBlock; fork block lists into ForkResolver.processBlocks.

import (
	"bytes"
	"encoding/hex"
	"fmt"
	"math/big"
	"math/rand"
	"strings"

	"github.com/idena-network/idena-go/blockchain/attachments"
	"github.com/idena-network/idena-go/blockchain/types"
	"github.com/idena-network/idena-go/blockchain/validation"
	"github.com/idena-network/idena-go/common"
	"github.com/idena-network/idena-go/crypto"
	"github.com/idena-network/idena-go/vm/embedded"
)

type txDesc struct {
	tx  *types.Transaction
	neg string
	key string // canonical description for the distinct count
}

func payloadFamilies(fx *fixture, r *rand.Rand) [][]byte {
	w := fx.w
	pubInvite := crypto.FromECDSAPub(&w.Keys[len(w.Keys)-1].PublicKey) // the last user is an Invite identity (DefaultStates)
	var hash common.Hash
	r.Read(hash[:])
	var codeHashes []common.Hash
	for h := range embedded.AvailableContracts {
		codeHashes = append(codeHashes, h)
	}
	var emb common.Hash
	for _, h := range codeHashes { // deterministic choice
		if emb == (common.Hash{}) || strings.Compare(h.Hex(), emb.Hex()) < 0 {
			emb = h
		}
	}
	cidOk, _ := fx.ipfs.Cid([]byte("some-flip"))
	la := &attachments.LongAnswerAttachment{Answers: []byte{1, 2}, Proof: make([]byte, 129), Key: []byte{1}, Salt: []byte{5}}
	manyArgs := make([][]byte, 2000)
	for i := range manyArgs {
		manyArgs[i] = []byte{byte(i)}
	}
	ps := [][]byte{nil, {}, {1}, {0xff, 0xff, 0xff}, {0x0a, 0xff, 0xff, 0xff, 0xff, 0x0f}, pubInvite, pubInvite[:33], make([]byte, 65),
		hash[:], make([]byte, 31), make([]byte, 33),
		attachments.CreateOnlineStatusAttachment(true), attachments.CreateOnlineStatusAttachment(false),
		attachments.CreateFlipSubmitAttachment(cidOk.Bytes(), 1), attachments.CreateFlipSubmitAttachment([]byte{1, 2, 3}, 255), attachments.CreateFlipSubmitAttachment(nil, 0),
		mustBytes(attachments.CreateDeployContractAttachment(emb, nil, nil).ToBytes()),
		mustBytes(attachments.CreateDeployContractAttachment(emb, nil, nil, manyArgs...).ToBytes()),
		mustBytes(attachments.CreateDeployContractAttachment(common.Hash{1}, []byte{0, 0x61, 0x73, 0x6d, 1, 0, 0, 0}, []byte{1}).ToBytes()),
		mustBytes(attachments.CreateDeployContractAttachment(common.Hash{}, []byte{1, 2, 3}, nil).ToBytes()),
		mustBytes(attachments.CreateCallContractAttachment("m").ToBytes()), mustBytes(attachments.CreateCallContractAttachment("", manyArgs...).ToBytes()),
		mustBytes(attachments.CreateTerminateContractAttachment().ToBytes()), mustBytes(attachments.CreateTerminateContractAttachment(manyArgs[:50]...).ToBytes()),
		attachments.CreateStoreToIpfsAttachment(cidOk.Bytes(), 10), attachments.CreateStoreToIpfsAttachment([]byte{1, 2}, 1<<32-1), attachments.CreateStoreToIpfsAttachment(nil, 0),
		attachments.CreateChangeProfileAttachment([]byte{1}), attachments.CreateChangeProfileAttachment(nil),
		attachments.CreateShortAnswerAttachment([]byte{1}, 5, 1), attachments.CreateShortAnswerAttachment(nil, 1<<64-1, 255),
		mustBytes(la.ToBytes()), mustBytes((&attachments.LongAnswerAttachment{}).ToBytes()),
		attachments.CreateBurnAttachment("k"), attachments.CreateBurnAttachment(""), attachments.CreateBurnAttachment(strings.Repeat("k", 3000)),
		attachments.CreateDeleteFlipAttachment([]byte{1}), attachments.CreateDeleteFlipAttachment(cidOk.Bytes()),
		make([]byte, 3*1024), make([]byte, 3*1024+1), make([]byte, 3*1024*1024+1),
	}
	// truncated encodings of a few attachments
	for _, p := range [][]byte{ps[13], ps[16], ps[31]} {
		if len(p) > 2 {
			ps = append(ps, p[:len(p)/2], p[:len(p)-1])
		}
	}
	{ // evidence bitmap
		bm := common.NewBitmap(20)
		bm.Add(3)
		ps = append(ps, mustBytes(bitmapBytes(bm)))
	}
	return ps
}

func bitmapBytes(bm *common.Bitmap) ([]byte, error) {
	buf := new(bytes.Buffer)
	bm.WriteTo(buf)
	return buf.Bytes(), nil
}

func bigFamilies() []*big.Int {
	return []*big.Int{nil, big.NewInt(0), big.NewInt(1), dna(5), dna(1000000000), new(big.Int).Lsh(big.NewInt(1), 256), new(big.Int).Lsh(big.NewInt(1), 20000)}
}

// mkHostileTx draws one structured-hostile transaction.
func mkHostileTx(fx *fixture, r *rand.Rand, typ uint16, toIdx, payIdx int, pays [][]byte) txDesc {
	return mkHostileTx2(fx, r, typ, toIdx, payIdx, pays, false)
}

// clean = everything except (type, recipient, payload) is well formed: funded known signer, next nonce, current epoch,
// affordable fee — so that the common clauses pass and the per-type validator is reached.
func mkHostileTx2(fx *fixture, r *rand.Rand, typ uint16, toIdx, payIdx int, pays [][]byte, clean bool) txDesc {
	w, n := fx.w, fx.n
	var contract common.Address
	r.Read(contract[:])
	tos := []*common.Address{nil, {}, &w.Addrs[0], &w.Addrs[1], &w.Addrs[len(w.Addrs)-1], &w.Addrs[6], &contract}
	to := tos[toIdx%len(tos)]
	bigs := bigFamilies()
	pick := func(bias int) *big.Int {
		if r.Intn(3) == 0 {
			return bigs[r.Intn(len(bigs))]
		}
		return bigs[bias]
	}
	ki := r.Intn(len(w.Keys) + 1)
	ep := n.App.State.Epoch()
	tx := &types.Transaction{Type: typ, To: to, Amount: pick(0), MaxFee: pick(3), Tips: pick(0), Payload: pays[payIdx%len(pays)], Epoch: ep, UseRlp: r.Intn(12) == 0}
	if clean {
		ki = r.Intn(len(w.Keys))
		tx.Amount, tx.MaxFee, tx.Tips, tx.UseRlp = nil, dna(60), nil, false
		if r.Intn(3) == 0 {
			tx.Amount = big.NewInt(0)
		}
	}
	switch dev(r, 8, clean) {
	case 0:
		tx.Epoch = ep + 1
	case 1:
		tx.Epoch = 0xffff
	case 2:
		if ep > 0 {
			tx.Epoch = ep - 1
		}
	}
	neg := ""
	if r.Intn(14) == 0 && tx.Amount != nil && tx.Amount.Sign() > 0 {
		neg += "a"
	}
	if r.Intn(20) == 0 && tx.MaxFee != nil && tx.MaxFee.Sign() > 0 {
		neg += "f"
	}
	if r.Intn(20) == 0 && tx.Tips != nil && tx.Tips.Sign() > 0 {
		neg += "t"
	}
	var stx *types.Transaction
	if ki < len(w.Keys) {
		base := n.App.State.GetNonce(w.Addrs[ki])
		if n.App.State.GetEpoch(w.Addrs[ki]) < ep {
			base = 0
		}
		tx.AccountNonce = base + 1
		switch dev(r, 8, clean) {
		case 0:
			tx.AccountNonce = 0
		case 1:
			tx.AccountNonce = 1<<32 - 1
		case 2:
			tx.AccountNonce = base + 2
		}
		stx, _ = types.SignTx(tx, w.Keys[ki])
	} else {
		stx = tx
		tx.AccountNonce = 1
		switch r.Intn(4) {
		case 0:
			stx.Signature = nil
		case 1:
			stx.Signature = make([]byte, 65)
			r.Read(stx.Signature)
		case 2:
			stx.Signature = []byte{1, 2, 3}
		default:
			kb := make([]byte, 32) // unknown, unfunded sender (derived from the PRNG directly: ecdsa.GenerateKey reads a random number of bytes)
			r.Read(kb)
			kb[0] &= 0x7f
			k, err := crypto.ToECDSA(kb)
			if err != nil {
				k = fx.w.Keys[1]
			}
			stx, _ = types.SignTx(tx, k)
		}
	}
	stx.UseRlp = tx.UseRlp
	key := fmt.Sprintf("%d|to%d|p%d|a%v|f%v|t%v|k%d|e%d|n%d|%s", typ, toIdx%len(tos), payIdx%len(pays), sz(tx.Amount), sz(tx.MaxFee), sz(tx.Tips), ki, int(tx.Epoch)-int(ep), tx.AccountNonce, neg)
	return txDesc{stx, neg, key}
}

// dev draws a deviation selector; none (an index no case uses) for clean objects
func dev(r *rand.Rand, n int, clean bool) int {
	v := r.Intn(n)
	if clean {
		return 99
	}
	return v
}

func sz(b *big.Int) string {
	if b == nil {
		return "nil"
	}
	return fmt.Sprint(b.BitLen())
}

func hostileTxSample(fx *fixture, r *rand.Rand, k int) []*types.Transaction {
	pays := payloadFamilies(fx, r)
	var out []*types.Transaction
	for i := 0; i < k; i++ {
		d := mkHostileTx(fx, r, uint16(r.Intn(0x19)), r.Intn(7), r.Intn(len(pays)-3), pays)
		out = append(out, d.tx)
	}
	return out
}

func (G *gen) txCase(fx *fixture, d txDesc, entry string, mode int) {
	raw := mustBytes(d.tx.ToBytes())
	cs := c12case{Section: "tx", State: fx.kind, Seed: G.seed, Hex: hex.EncodeToString(raw), Entry: entry, Mode: mode, Neg: d.neg}
	if strings.HasPrefix(d.key, "long-answers-vrf") {
		cs.Note = d.key
	}
	r := G.exec(fx, cs, len(raw), "", allocBound(len(raw)), nil)
	cls := r.Class
	if r.Panic != "" {
		cls = "panic"
	}
	G.c.Hit("tx:" + entry + ":" + cls)
}

func (G *gen) txStream(fx *fixture, budget int) {
	r := G.r
	pays := payloadFamilies(fx, r)
	nTo := 7
	count := 0
	// systematic part: type x recipient x payload family, everything else drawn
	stride := (0x19*nTo*len(pays))/budget + 1
	idx := 0
	for typ := uint16(0); typ <= 0x18; typ++ {
		for to := 0; to < nTo; to++ {
			for p := 0; p < len(pays); p++ {
				idx++
				// the cases the three earlier findings live in are always kept; the rest is strided by the budget
				always := (to == 0 || to == 3) && (p == 5 || p == 2 || p == 13 || p == 0)
				if !always && (idx+int(G.seed))%stride != 0 {
					continue
				}
				if len(pays[p]) > 1<<20 && r.Intn(6) != 0 {
					continue
				}
				d := mkHostileTx2(fx, r, typ, to, p, pays, always || r.Intn(2) == 0)
				G.c.Distinct("tx:" + d.key)
				G.c.Hit("txtype:" + txName(typ))
				G.txCase(fx, d, "touch", 0)
				for _, mode := range []int{validation.InBlockTx, validation.MempoolTx, validation.InboundTx} {
					G.txCase(fx, d, "validate", mode)
				}
				G.txCase(fx, d, "pool-validate", 0)
				if count%3 == 0 {
					G.txCase(fx, d, "process", 0)
					G.txCase(fx, d, "apply", 0)
				}
				if count%5 == 0 {
					G.txCase(fx, d, "pool-add", validation.InboundTx)
				}
				if count == 7 {
					G.c.Sample(c12case{Section: "tx", State: fx.kind, Seed: G.seed, Hex: hex.EncodeToString(mustBytes(d.tx.ToBytes())), Entry: "validate", Mode: 1})
				}
				count++
				if G.stop {
					return
				}
			}
		}
	}
	// SubmitLongAnswersTx whose attachment carries a structured VRF proof (validateSubmitLongAnswersTx -> ProofToHash; the
	// proof is looked at from the second epoch on, inside a ceremony), by candidates of the ceremony and others
	ep := fx.n.App.State.Epoch()
	for ki := 0; ki < len(fx.w.Keys) && !G.stop; ki += 2 {
		for _, v := range vrfVariants(nil, fx.w.Keys[ki], r) {
			la := &attachments.LongAnswerAttachment{Answers: []byte{1, 2}, Proof: v.proof, Key: []byte{1}, Salt: []byte{5}}
			nonce := fx.n.App.State.GetNonce(fx.w.Addrs[ki]) + 1
			if fx.n.App.State.GetEpoch(fx.w.Addrs[ki]) < ep {
				nonce = 1
			}
			tx, _ := types.SignTx(&types.Transaction{Type: types.SubmitLongAnswersTx, AccountNonce: nonce, Epoch: ep, Payload: mustBytes(la.ToBytes())}, fx.w.Keys[ki])
			d := txDesc{tx: tx, key: fmt.Sprintf("long-answers-vrf|%s|k%d", v.what, ki)}
			G.c.Distinct("tx:" + d.key)
			G.c.Hit("txtype:long-answers-vrf")
			for _, mode := range []int{validation.InBlockTx, validation.MempoolTx, validation.InboundTx} {
				G.txCase(fx, d, "validate", mode)
			}
			G.txCase(fx, d, "pool-validate", 0)
			G.txCase(fx, d, "process", 0)
		}
	}
	G.c.Hit(fmt.Sprintf("txstream:%s:objects", fx.kind))
}

// ---------------------------------------------------------------- blocks

func sem01(b bool) string {
	if b {
		return "1"
	}
	return "0"
}

func (G *gen) blocks(fx *fixture) {
	G.c.Line("new block "+fx.kind, "ok")
	r, w := G.r, fx.w
	base := fx.ownProposal()
	if !usableProposal(base) {
		G.c.Hit("block:skipped-no-base:" + fx.kind)
		return
	}
	head := fx.n.Chain.Head.Height()
	intact := G.g.run(func() string {
		_, err := fx.n.Chain.ValidateBlock(base.Block, nil, nil)
		return verdictOf(err)
	})
	baseOk := intact.Class == "acc"
	G.c.Hit("block:own-proposal-valid=" + sem01(baseOk))
	type bc struct {
		what    string
		b       *types.Block
		preBody bool // header, fee rate and proposer checks pass (by construction: untouched header of a block that validates)
	}
	var bs []bc
	add := func(what string, b *types.Block, pre bool) { bs = append(bs, bc{what, b, pre && baseOk}) }
	ph := base.Header.ProposedHeader
	eh := &types.EmptyBlockHeader{Height: head + 1, ParentHash: fx.n.Chain.Head.Hash()}
	add("intact", base.Block, true)
	add("all-absent", &types.Block{}, false)
	add("header-absent", &types.Block{Body: base.Body}, false)
	add("header-absent-body-absent", &types.Block{}, false)
	add("body-absent-valid-header", &types.Block{Header: base.Header}, true)
	{
		h := cloneProposed(ph)
		h.Height += 5
		add("body-absent-wrong-height", &types.Block{Header: &types.Header{ProposedHeader: h}}, false)
	}
	add("header-without-parts", &types.Block{Header: &types.Header{}, Body: &types.Body{}}, false)
	add("header-without-parts-no-body", &types.Block{Header: &types.Header{}}, false)
	add("both-headers", &types.Block{Header: &types.Header{EmptyBlockHeader: eh, ProposedHeader: ph}, Body: base.Body}, false)
	add("both-headers-no-body", &types.Block{Header: &types.Header{EmptyBlockHeader: eh, ProposedHeader: ph}}, false)
	add("empty-forged", &types.Block{Header: &types.Header{EmptyBlockHeader: eh}, Body: &types.Body{}}, false)
	add("empty-forged-no-body", &types.Block{Header: &types.Header{EmptyBlockHeader: eh}}, false)
	add("empty-height-0", &types.Block{Header: &types.Header{EmptyBlockHeader: &types.EmptyBlockHeader{}}, Body: &types.Body{}}, false)
	if gen := fx.n.Chain.GenerateEmptyBlock(); gen != nil {
		add("empty-genuine", gen, false)
		add("empty-genuine-with-txs", &types.Block{Header: gen.Header, Body: base.Body}, false)
	}
	zero := common.Address{}
	var unknown common.Address
	r.Read(unknown[:])
	muts := map[string]func(h *types.ProposedHeader){
		"offline-commit-no-addr":  func(h *types.ProposedHeader) { h.Flags |= types.OfflineCommit; h.OfflineAddr = nil },
		"offline-propose-no-addr": func(h *types.ProposedHeader) { h.Flags |= types.OfflinePropose; h.OfflineAddr = nil },
		"offline-both-no-addr": func(h *types.ProposedHeader) {
			h.Flags |= types.OfflinePropose | types.OfflineCommit
			h.OfflineAddr = nil
		},
		"offline-commit-zero":       func(h *types.ProposedHeader) { h.Flags |= types.OfflineCommit; h.OfflineAddr = &zero },
		"offline-commit-unknown":    func(h *types.ProposedHeader) { h.Flags |= types.OfflineCommit; h.OfflineAddr = &unknown },
		"offline-commit-user":       func(h *types.ProposedHeader) { h.Flags |= types.OfflineCommit; h.OfflineAddr = &w.Addrs[1] },
		"offline-propose-god":       func(h *types.ProposedHeader) { h.Flags |= types.OfflinePropose; h.OfflineAddr = &w.Addrs[0] },
		"offline-addr-without-flag": func(h *types.ProposedHeader) { h.OfflineAddr = &w.Addrs[2] },
		"flags-all":                 func(h *types.ProposedHeader) { h.Flags = 0xffffffff },
		"flags-all-with-addr":       func(h *types.ProposedHeader) { h.Flags = 0xffffffff; h.OfflineAddr = &w.Addrs[1] },
		"flag-identity-update":      func(h *types.ProposedHeader) { h.Flags ^= types.IdentityUpdate },
		"flag-validation-finished":  func(h *types.ProposedHeader) { h.Flags |= types.ValidationFinished },
		"flag-new-genesis":          func(h *types.ProposedHeader) { h.Flags |= types.NewGenesis },
		"flag-snapshot":             func(h *types.ProposedHeader) { h.Flags |= types.Snapshot },
		"upgrade-11":                func(h *types.ProposedHeader) { h.Upgrade = 11 },
		"upgrade-12":                func(h *types.ProposedHeader) { h.Upgrade = 12 },
		"upgrade-max":               func(h *types.ProposedHeader) { h.Upgrade = 1<<32 - 1 },
		"fee-nil":                   func(h *types.ProposedHeader) { h.FeePerGas = nil },
		"fee-zero":                  func(h *types.ProposedHeader) { h.FeePerGas = big.NewInt(0) },
		"fee-huge":                  func(h *types.ProposedHeader) { h.FeePerGas = new(big.Int).Lsh(big.NewInt(1), 5000) },
		"bloom-3-bytes":             func(h *types.ProposedHeader) { h.TxBloom = []byte{1, 2, 3} },
		"bloom-nil":                 func(h *types.ProposedHeader) { h.TxBloom = nil },
		"ipfs-nil":                  func(h *types.ProposedHeader) { h.IpfsHash = nil },
		"ipfs-garbage":              func(h *types.ProposedHeader) { h.IpfsHash = []byte{0xff} },
		"receipts-garbage":          func(h *types.ProposedHeader) { h.TxReceiptsCid = []byte{1} },
		"txhash-zero":               func(h *types.ProposedHeader) { h.TxHash = common.Hash{} },
		"root-zero":                 func(h *types.ProposedHeader) { h.Root = common.Hash{} },
		"identity-root-zero":        func(h *types.ProposedHeader) { h.IdentityRoot = common.Hash{} },
		"seed-zero":                 func(h *types.ProposedHeader) { h.BlockSeed = types.Seed{} },
		"seedproof-nil":             func(h *types.ProposedHeader) { h.SeedProof = nil },
		"seedproof-short":           func(h *types.ProposedHeader) { h.SeedProof = cut(h.SeedProof, len(h.SeedProof)/2) },
		"seedproof-long":            func(h *types.ProposedHeader) { h.SeedProof = append(append([]byte{}, h.SeedProof...), 1) },
		"pubkey-nil":                func(h *types.ProposedHeader) { h.ProposerPubKey = nil },
		"pubkey-short":              func(h *types.ProposedHeader) { h.ProposerPubKey = cut(h.ProposerPubKey, 20) },
		"pubkey-garbage":            func(h *types.ProposedHeader) { h.ProposerPubKey = make([]byte, 65) },
		"pubkey-user":               func(h *types.ProposedHeader) { h.ProposerPubKey = crypto.FromECDSAPub(&w.Keys[1].PublicKey) },
		"time-past":                 func(h *types.ProposedHeader) { h.Time = 0 },
		"time-min":                  func(h *types.ProposedHeader) { h.Time = -1 << 63 },
		"time-max":                  func(h *types.ProposedHeader) { h.Time = 1<<63 - 1 },
		"height-0":                  func(h *types.ProposedHeader) { h.Height = 0 },
		"height-max":                func(h *types.ProposedHeader) { h.Height = 1<<64 - 1 },
		"height-plus-1":             func(h *types.ProposedHeader) { h.Height++ },
		"parent-zero":               func(h *types.ProposedHeader) { h.ParentHash = common.Hash{} },
	}
	var names []string
	for k := range muts {
		names = append(names, k)
	}
	sortStrings(names)
	for _, k := range names {
		h := cloneProposed(ph)
		muts[k](h)
		add("header:"+k, &types.Block{Header: &types.Header{ProposedHeader: h}, Body: base.Body}, false)
	}
	// structured VRF seed proofs under an otherwise own header (ValidateHeader -> ProofToHash)
	for _, v := range vrfVariants(ph.SeedProof, w.Keys[0], r) {
		h := cloneProposed(ph)
		h.SeedProof = v.proof
		add("header:vrf-seed-proof:"+v.what, &types.Block{Header: &types.Header{ProposedHeader: h}, Body: base.Body}, false)
	}
	// two mutations at once (pairs drawn)
	for i := 0; i < 40; i++ {
		a, b := names[r.Intn(len(names))], names[r.Intn(len(names))]
		h := cloneProposed(ph)
		muts[a](h)
		muts[b](h)
		add("header:"+a+"+"+b, &types.Block{Header: &types.Header{ProposedHeader: h}, Body: base.Body}, false)
	}
	// hostile bodies under the own header (tx hash no longer matches) and with a recomputed tx hash
	for i, tx := range hostileTxSample(fx, r, 40) {
		body := &types.Body{Transactions: []*types.Transaction{tx}}
		if i%2 == 0 {
			add("body:hostile-tx", &types.Block{Header: base.Header, Body: body}, false)
		} else {
			h := cloneProposed(ph)
			h.TxHash = types.DeriveSha(types.Transactions(body.Transactions))
			add("body:hostile-tx-hash-fixed", &types.Block{Header: &types.Header{ProposedHeader: h}, Body: body}, false)
		}
	}
	{ // the activation tx without recipient (F2 shape) inside a block whose tx hash is right
		tx, _ := types.SignTx(&types.Transaction{Type: types.ActivationTx, AccountNonce: 1, Epoch: fx.n.App.State.Epoch(),
			Payload: crypto.FromECDSAPub(&w.Keys[len(w.Keys)-1].PublicKey), MaxFee: dna(10)}, w.Keys[len(w.Keys)-1])
		body := &types.Body{Transactions: []*types.Transaction{tx}}
		h := cloneProposed(ph)
		h.TxHash = types.DeriveSha(types.Transactions(body.Transactions))
		add("body:activation-without-recipient", &types.Block{Header: &types.Header{ProposedHeader: h}, Body: body}, false)
		many := &types.Body{}
		for i := 0; i < 3000; i++ {
			many.Transactions = append(many.Transactions, tx)
		}
		add("body:3000-txs", &types.Block{Header: base.Header, Body: many}, false)
	}
	for _, b := range bs {
		raw := mustBytes(b.b.ToBytes())
		for _, entry := range []string{"gated", "raw"} {
			if entry == "raw" && b.what == "body-absent-valid-header" && !baseOk {
				continue // whether the checks in front of the body access pass is not known by construction
			}
			cs := c12case{Section: "block", State: fx.kind, Seed: G.seed, Hex: hex.EncodeToString(raw), Entry: entry, Note: b.what}
			op := fmt.Sprintf("vb %s %s %s", entry, blockShape(b.b), sem01(b.preBody))
			res := G.exec(fx, cs, len(raw), op, allocBound(len(raw)), nil)
			_ = res
			G.c.Hit("block:" + entry + ":" + strings.SplitN(b.what, ":", 2)[0])
			G.c.Distinct("block:" + fx.kind + ":" + entry + ":" + b.what)
		}
	}
}

func sortStrings(s []string) {
	for i := 1; i < len(s); i++ {
		for j := i; j > 0 && s[j] < s[j-1]; j-- {
			s[j], s[j-1] = s[j-1], s[j]
		}
	}
}

// ---------------------------------------------------------------- fork block lists

func (G *gen) forks(fx *fixture) {
	n, r := fx.n, G.r
	head := n.Chain.Head.Height()
	// the own chain as checkForkSize sees it
	var own strings.Builder
	for h := uint64(1); h <= head; h++ {
		b := n.Chain.GetBlockByHeight(h)
		switch {
		case b == nil:
			own.WriteByte('?')
		case b.IsEmpty():
			own.WriteByte('E')
		default:
			own.WriteByte('P')
		}
	}
	ownStr := own.String()
	if ownStr == "" {
		ownStr = "_"
	}
	G.c.Line(fmt.Sprintf("new fork %s %d %s", fx.kind, head, ownStr), "ok")
	var hi, lo types.Seed
	for i := range hi {
		hi[i] = 0xff
	}
	forged := func(h uint64, empty bool, better bool) *types.Block {
		seed := lo
		if better {
			seed = hi
		}
		if empty {
			return &types.Block{Header: &types.Header{EmptyBlockHeader: &types.EmptyBlockHeader{Height: h, BlockSeed: seed}}, Body: &types.Body{}}
		}
		return &types.Block{Header: &types.Header{ProposedHeader: &types.ProposedHeader{Height: h, BlockSeed: seed,
			ProposerPubKey: crypto.FromECDSAPub(&fx.w.Keys[0].PublicKey)}}, Body: &types.Body{}}
	}
	type fk struct {
		what   string
		blocks []*types.Block
		certs  []bool
		better bool
	}
	var fs []fk
	add := func(what string, better bool, bl ...*types.Block) { fs = append(fs, fk{what, bl, nil, better}) }
	addH := func(what string, empty, better bool, hs ...uint64) {
		var bl []*types.Block
		for _, h := range hs {
			bl = append(bl, forged(h, empty, better))
		}
		fs = append(fs, fk{what, bl, nil, better})
	}
	add("no-blocks", false)
	for _, better := range []bool{false, true} {
		for _, empty := range []bool{true, false} {
			addH("height-0", empty, better, 0)
			addH("height-0-and-above-head", empty, better, 0, head+1)
			addH("height-1", empty, better, 1)
			addH("height-1-and-above-head", empty, better, 1, head+1)
			addH("height-2-and-above-head", empty, better, 2, head+1)
			addH("gap-below-head", empty, better, 2, 4)
			addH("gap-3-5", empty, better, 3, 5)
			addH("duplicate-heights", empty, better, 2, 2, 3)
			addH("unsorted", empty, better, 4, 2, 3)
			addH("descending-above-then-below-head", empty, better, head+5, head-1)
			addH("descending-above-then-at-head", empty, better, head+2, head)
			addH("descending-far-above-then-1", empty, better, head+1000, 1)
			addH("descending-all-above", empty, better, head+3, head+2, head+1)
			addH("descending-all-below", empty, better, 4, 3, 2)
			addH("shuffled-around-head", empty, better, head+1, head-1, head+2, head)
			addH("duplicates-descending", empty, better, head+1, head+1, head, head)
			addH("head", empty, better, head)
			addH("head-plus-1", empty, better, head+1)
			addH("head-plus-2", empty, better, head+2)
			addH("far-above", empty, better, head+1000)
			addH("max-height", empty, better, 1<<64-1)
			addH("max-and-low", empty, better, 2, 1<<64-1)
			if head >= 3 {
				addH("last-three", empty, better, head-2, head-1, head)
				addH("last-three-plus-one", empty, better, head-2, head-1, head, head+1)
				addH("tail-from-2", empty, better, seq(2, head)...)
				addH("tail-from-1", empty, better, seq(1, head)...)
			}
		}
	}
	// the own canonical blocks (a peer echoing our chain), contiguous and with gaps
	if len(fx.canon) >= 6 {
		add("own-contiguous", false, fx.canon[1], fx.canon[2], fx.canon[3])
		add("own-with-gap", false, fx.canon[1], fx.canon[3])
		add("own-reversed", false, fx.canon[3], fx.canon[2], fx.canon[1])
		add("own-tail", false, fx.canon[len(fx.canon)-3:]...)
		add("own-tail-plus-forged", true, append(append([]*types.Block{}, fx.canon[len(fx.canon)-2:]...), forged(head+1, true, true))...)
	}
	for i := 0; i < 25; i++ { // random height multisets around the own chain
		k := 1 + r.Intn(5)
		var hs []uint64
		for j := 0; j < k; j++ {
			hs = append(hs, uint64(r.Intn(int(head)+4)))
		}
		addH("random", r.Intn(2) == 0, r.Intn(2) == 0, hs...)
	}
	for i, f := range fs {
		var items []forkItem
		var desc []string
		inLen := 0
		for j, b := range f.blocks {
			raw := mustBytes(b.ToBytes())
			inLen += len(raw)
			cert := i%3 == 0 && j == len(f.blocks)-1
			items = append(items, forkItem{Block: hex.EncodeToString(raw), HasCert: cert})
			e := "P"
			if b.IsEmpty() {
				e = "E"
			}
			desc = append(desc, fmt.Sprint(b.Height(), ":", e))
		}
		d := "_"
		if len(desc) > 0 {
			d = strings.Join(desc, ",")
		}
		// seed comparison (fork_resolver.go:147) by construction: forged blocks carry the all-ones or the all-zero seed;
		// echoed own blocks compare equal (not better)
		cs := c12case{Section: "fork", State: fx.kind, Seed: G.seed, Fork: items, Note: f.what}
		op := fmt.Sprintf("fork %s %s", d, sem01(f.better))
		G.exec(fx, cs, inLen, op, allocBound(inLen)+uint64(head)*(64<<10), nil)
		G.c.Hit("fork:" + f.what)
		G.c.Distinct("fork:" + fx.kind + ":" + d + sem01(f.better))
	}
}

func seq(a, b uint64) []uint64 {
	var s []uint64
	for x := a; x <= b; x++ {
		s = append(s, x)
	}
	return s
}
