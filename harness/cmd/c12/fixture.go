package main

// Node fixture for C12: a real node (chainfx) at a chosen point of a generated history plus everything the gossip
// handler feeds: pending proposals / votes (pengings), flipper, flip-key pool, and a real IdenaGossipHandler with one
// registered peer whose transport is a one-frame buffer (protocol shim).

import (
	"fmt"
	"math/rand"
	"os"
	"strings"
	"time"

	"github.com/idena-network/idena-go/blockchain"
	"github.com/idena-network/idena-go/blockchain/types"
	"github.com/idena-network/idena-go/config"
	"github.com/idena-network/idena-go/core/flip"
	"github.com/idena-network/idena-go/core/mempool"
	"github.com/idena-network/idena-go/core/state"
	"github.com/idena-network/idena-go/core/upgrade"
	"github.com/idena-network/idena-go/ipfs"
	"github.com/idena-network/idena-go/pengings"
	"github.com/idena-network/idena-go/protocol"
	"github.com/idena-network/idena-go/stats/collector"

	"verifharness/internal/chainfx"
)

type fixture struct {
	kind       string // empty | populated | ceremony | epoch1
	seed       int64
	blocks     int
	w          *chainfx.World
	h          *chainfx.History
	n          *chainfx.Node
	proposals  *pengings.Proposals
	votes      *pengings.Votes
	flipper    *flip.Flipper
	keys       *mempool.KeysPool
	gossip     *protocol.VerifC12Gossip
	ipfs       ipfs.Proxy
	canon      []*types.Block // canonical blocks produced by the history (index = height-2)
	sinceEpoch int            // blocks since the last epoch change
}

// State kinds are defined by what the state IS (derived from the node), not by block numbers of the shared history
// generator: the history is advanced block by block until the predicate holds.
type stateKind struct {
	minBlocks int
	maxBlocks int
	reached   func(f *fixture, blocks int) bool
}

var stateKinds = map[string]stateKind{
	"empty": {0, 0, func(f *fixture, b int) bool { return true }},
	"populated": {14, 60, func(f *fixture, b int) bool {
		return f.n.App.State.ValidationPeriod() == state.NonePeriod && (len(f.pools()) > 0 || b >= 17) // pools preferred, not required
	}},
	"ceremony": {15, 120, func(f *fixture, b int) bool { return f.n.App.State.ValidationPeriod() == state.LongSessionPeriod }},
	"ceremony2": {60, 400, func(f *fixture, b int) bool { // a ceremony of a LATER epoch (VRF proofs of long answers are checked from epoch 1 on)
		return f.n.App.State.Epoch() >= 1 && f.n.App.State.ValidationPeriod() == state.LongSessionPeriod
	}},
	"epoch1": {20, 200, func(f *fixture, b int) bool {
		return f.n.App.State.Epoch() >= 1 && f.n.App.State.ValidationPeriod() == state.NonePeriod && f.sinceEpoch >= 5
	}},
}

const nUsers = 12

func baseKind(kind string) (string, bool) {
	if strings.HasSuffix(kind, "+emptyhead") {
		return strings.TrimSuffix(kind, "+emptyhead"), true
	}
	return kind, false
}

// usableProposal: a proposal the edit closures may start from
func usableProposal(p *types.BlockProposal) bool {
	return p != nil && p.Block != nil && p.Block.Header != nil && p.Block.Header.ProposedHeader != nil && p.Block.Body != nil &&
		len(p.Block.Header.ProposedHeader.ProposerPubKey) > 0 && len(p.Signature) > 0
}

// newFixture builds world `seed` and advances its history until the state is of kind `kind` (deterministic in
// seed+kind); an error means this world does not get there or the node cannot propose a valid block there.
func newFixture(seed int64, kind string) (*fixture, error) {
	bk, emptyHead := baseKind(kind)
	sk, ok := stateKinds[bk]
	if !ok {
		return nil, fmt.Errorf("unknown state kind %q", kind)
	}
	r := rand.New(rand.NewSource(seed*7919 + 1))
	w := chainfx.NewWorld(seed, nUsers, 0, time.Date(2030, 1, 1, 0, 0, 0, 0, time.UTC))
	h, err := chainfx.Bootstrap(w, chainfx.HistoryOpts{Blocks: sk.maxBlocks, ShortEpochs: true, TxPerBlock: 4, WithFlips: true}, r, true)
	if err != nil {
		return nil, err
	}
	f := &fixture{kind: kind, seed: seed, w: w, h: h, n: h.N}
	if sk.maxBlocks > 0 {
		// make user 1 a pool with several delegators and the god identity a pool as well (proposer-side code paths that
		// depend on the pool size); the delegations take effect at the next delegation switch
		for _, d := range [][2]int{{2, 1}, {3, 1}, {5, 1}, {9, 1}, {10, 0}, {11, 0}} {
			to := w.Addrs[d[1]]
			h.S.Send(h.N, d[0], &types.Transaction{Type: types.DelegateTx, To: &to})
		}
	}
	epoch := f.n.App.State.Epoch()
	b := 0
	for ; b < sk.maxBlocks && !(b >= sk.minBlocks && sk.reached(f, b)); b++ {
		blk, err := h.Step(b + 1)
		if err != nil {
			return nil, fmt.Errorf("history step %d: %v", b+1, err)
		}
		f.canon = append(f.canon, blk)
		if e := f.n.App.State.Epoch(); e != epoch {
			epoch, f.sinceEpoch = e, 0
		} else {
			f.sinceEpoch++
		}
	}
	f.blocks = b
	if !(b >= sk.minBlocks && sk.reached(f, b)) {
		return nil, fmt.Errorf("state %s not reached within %d blocks", bk, sk.maxBlocks)
	}
	if emptyHead {
		// the head is an EMPTY block (a round without proposal): predecessors without ProposedHeader
		chainfx.Advance(25 * time.Second)
		eb := h.N.Chain.GenerateEmptyBlock()
		if err := h.N.Add(eb); err != nil {
			return nil, fmt.Errorf("empty block on top: %v", err)
		}
		f.canon = append(f.canon, eb)
		chainfx.Advance(20 * time.Second)
	}
	// the streams start from the node's own proposal: it must exist and validate here
	if !f.n.IsEligibleProposer() {
		return nil, fmt.Errorf("node is not an eligible proposer in state %s", kind)
	}
	var perr error
	func() {
		defer func() {
			if rec := recover(); rec != nil {
				perr = fmt.Errorf("own proposal panicked: %v", rec)
			}
		}()
		p := f.ownProposal()
		if !usableProposal(p) {
			perr = fmt.Errorf("node cannot propose in state %s", kind)
			return
		}
		if _, err := f.n.Chain.ValidateBlock(p.Block, nil, nil); err != nil {
			perr = fmt.Errorf("own proposal does not validate in state %s: %v", kind, err)
		}
	}()
	if perr != nil {
		return nil, perr
	}
	f.attach()
	return f, nil
}

// findFixture tries world seeds seed, seed+1000, … until one reaches a usable state of the kind.
func findFixture(seed int64, kind string) (*fixture, error) {
	var last error
	for k := int64(0); k < 6; k++ {
		f, err := newFixture(seed+1000*k, kind)
		if err == nil {
			return f, nil
		}
		last = err
		os.RemoveAll("./testdata")
		os.RemoveAll("./testdata2")
	}
	return nil, fmt.Errorf("no usable world for state %s (seeds %d, %d, …): %v", kind, seed, seed+1000, last)
}

// attach builds the consumers of network messages on top of the node, with the node's own constructors.
func (f *fixture) attach() {
	n := f.n
	offline := blockchain.NewOfflineDetector(n.Cfg, n.DB, n.App, n.Sec, n.Bus)
	up := upgrade.NewUpgrader(n.Cfg, n.App, n.DB)
	f.ipfs = ipfs.NewMemoryIpfsProxy()
	f.keys = mempool.NewKeysPool(n.DB, n.App, n.Bus, n.Sec)
	f.keys.Initialize(n.Chain.Head)
	f.flipper = flip.NewFlipper(n.DB, f.ipfs, f.keys, n.Pool, n.Sec, n.App, n.Bus)
	f.flipper.Initialize()
	f.proposals, _ = pengings.NewProposals(n.Chain, n.App, offline, up, collector.NewStatsCollector())
	f.votes = pengings.NewVotes(n.App, n.Bus, offline, up)
	f.votes.Initialize(n.Chain.Head)
	f.gossip = protocol.VerifC12NewGossip(config.P2P{}, n.Chain, f.proposals, f.votes, n.Pool, f.flipper, n.Bus, f.keys)
}

// pools: key indices whose identity is currently a pool of size > 1
func (f *fixture) pools() []int {
	var r []int
	vc := f.n.App.ValidatorsCache
	for i, a := range f.w.Addrs {
		if vc.IsPool(a) && vc.PoolSize(a) > 1 {
			r = append(r, i)
		}
	}
	return r
}

func (f *fixture) close() {
	os.RemoveAll("./testdata")
	os.RemoveAll("./testdata2")
}
