package main

// Node fixture for C12: a real node (chainfx) at a chosen point of a generated history plus everything the gossip
// handler feeds: pending proposals / votes (pengings), flipper, flip-key pool, and a real IdenaGossipHandler with one
// registered peer whose transport is a one-frame buffer (protocol shim).

import (
	"fmt"
	"math/rand"
	"os"
	"strings"
	"time"

	"github.com/idena-network/idena-go/blockchain"
	"github.com/idena-network/idena-go/blockchain/types"
	"github.com/idena-network/idena-go/config"
	"github.com/idena-network/idena-go/core/flip"
	"github.com/idena-network/idena-go/core/mempool"
	"github.com/idena-network/idena-go/core/upgrade"
	"github.com/idena-network/idena-go/ipfs"
	"github.com/idena-network/idena-go/pengings"
	"github.com/idena-network/idena-go/protocol"
	"github.com/idena-network/idena-go/stats/collector"

	"verifharness/internal/chainfx"
)

type fixture struct {
	kind      string // empty | populated | ceremony | epoch1
	seed      int64
	blocks    int
	w         *chainfx.World
	h         *chainfx.History
	n         *chainfx.Node
	proposals *pengings.Proposals
	votes     *pengings.Votes
	flipper   *flip.Flipper
	keys      *mempool.KeysPool
	gossip    *protocol.VerifC12Gossip
	ipfs      ipfs.Proxy
	canon     []*types.Block // canonical blocks produced by the history (index = height-2)
}

var stateKinds = map[string]int{"empty": 0, "populated": 14, "ceremony": 29, "epoch1": 40, "populated+emptyhead": 14, "epoch1+emptyhead": 40}

const nUsers = 12

// newFixture builds world `seed` and advances its history to the block count of `kind` (deterministic in seed+kind).
func newFixture(seed int64, kind string) (*fixture, error) {
	nb, ok := stateKinds[kind]
	if !ok {
		return nil, fmt.Errorf("unknown state kind %q", kind)
	}
	r := rand.New(rand.NewSource(seed*7919 + 1))
	w := chainfx.NewWorld(seed, nUsers, 0, time.Date(2030, 1, 1, 0, 0, 0, 0, time.UTC))
	h, err := chainfx.Bootstrap(w, chainfx.HistoryOpts{Blocks: nb, ShortEpochs: true, TxPerBlock: 4, WithFlips: true}, r, true)
	if err != nil {
		return nil, err
	}
	f := &fixture{kind: kind, seed: seed, blocks: nb, w: w, h: h, n: h.N}
	if nb > 0 {
		// make user 1 a pool with several delegators and the god identity a pool as well (proposer-side code paths that
		// depend on the pool size); the delegations take effect at the next delegation switch (every 3 blocks here)
		for _, d := range [][2]int{{2, 1}, {3, 1}, {5, 1}, {9, 1}, {10, 0}, {11, 0}} {
			to := w.Addrs[d[1]]
			h.S.Send(h.N, d[0], &types.Transaction{Type: types.DelegateTx, To: &to})
		}
	}
	for b := 1; b <= nb; b++ {
		blk, err := h.Step(b)
		if err != nil {
			return nil, fmt.Errorf("history step %d: %v", b, err)
		}
		f.canon = append(f.canon, blk)
	}
	if strings.HasSuffix(kind, "+emptyhead") {
		// the head is an EMPTY block (a round without proposal): predecessors without ProposedHeader
		chainfx.Advance(25 * time.Second)
		eb := h.N.Chain.GenerateEmptyBlock()
		if err := h.N.Add(eb); err != nil {
			return nil, fmt.Errorf("empty block on top: %v", err)
		}
		f.canon = append(f.canon, eb)
		chainfx.Advance(20 * time.Second)
	}
	f.attach()
	return f, nil
}

// attach builds the consumers of network messages on top of the node, with the node's own constructors.
func (f *fixture) attach() {
	n := f.n
	offline := blockchain.NewOfflineDetector(n.Cfg, n.DB, n.App, n.Sec, n.Bus)
	up := upgrade.NewUpgrader(n.Cfg, n.App, n.DB)
	f.ipfs = ipfs.NewMemoryIpfsProxy()
	f.keys = mempool.NewKeysPool(n.DB, n.App, n.Bus, n.Sec)
	f.keys.Initialize(n.Chain.Head)
	f.flipper = flip.NewFlipper(n.DB, f.ipfs, f.keys, n.Pool, n.Sec, n.App, n.Bus)
	f.flipper.Initialize()
	f.proposals, _ = pengings.NewProposals(n.Chain, n.App, offline, up, collector.NewStatsCollector())
	f.votes = pengings.NewVotes(n.App, n.Bus, offline, up)
	f.votes.Initialize(n.Chain.Head)
	f.gossip = protocol.VerifC12NewGossip(config.P2P{}, n.Chain, f.proposals, f.votes, n.Pool, f.flipper, n.Bus, f.keys)
}

// pools: key indices whose identity is currently a pool of size > 1
func (f *fixture) pools() []int {
	var r []int
	vc := f.n.App.ValidatorsCache
	for i, a := range f.w.Addrs {
		if vc.IsPool(a) && vc.PoolSize(a) > 1 {
			r = append(r, i)
		}
	}
	return r
}

func (f *fixture) close() {
	os.RemoveAll("./testdata")
	os.RemoveAll("./testdata2")
}
