package main

// Generators of the structured-hostile streams (frames, messages of every kind, blocks assembled from decodable parts,
// fork block lists) together with the abstract description of each object that goes to the Lean model.

import (
	"crypto/ecdsa"
	"encoding/binary"
	"encoding/hex"
	"encoding/json"
	"fmt"
	"math/big"
	"math/rand"
	"os"
	"strings"
	"time"

	"github.com/golang/protobuf/proto"
	"github.com/idena-network/idena-go/blockchain/attachments"
	"github.com/idena-network/idena-go/blockchain/types"
	"github.com/idena-network/idena-go/common"
	"github.com/idena-network/idena-go/core/flip"
	"github.com/idena-network/idena-go/core/state/snapshot"
	"github.com/idena-network/idena-go/crypto"
	models "github.com/idena-network/idena-go/protobuf"
	"github.com/idena-network/idena-go/protocol"
	"github.com/klauspost/compress/s2"

	"verifharness/internal/hx"
)

type gen struct {
	c     *hx.Ctx
	r     *rand.Rand
	g     *guard
	seed  int64
	cap   string
	stop  bool // several hangs were observed: the node may hold locks, stop feeding it
	hangs int
}

func hx16(b []byte) string {
	if len(b) > 16 {
		b = b[:16]
	}
	return "x" + hex.EncodeToString(b)
}

// exec runs one case under the guard, applies the oracle (panic / hang / allocation) and, when op != "", writes the
// correspondence line. suffix (optional) computes a tail of the implementation answer from the result.
func (G *gen) exec(fx *fixture, cs c12case, inputLen int, op string, bound uint64, suffix func(result) string) result {
	if G.stop {
		return result{}
	}
	if fx != nil {
		cs.Seed = fx.seed // the world seed the fixture was actually built from (a replay rebuilds exactly that world)
	}
	if pat := os.Getenv("C12_DUMP_CASES"); pat != "" && strings.Contains(cs.Note, pat) { // maintenance aid (corpus files)
		b, _ := json.Marshal(map[string]interface{}{"replay": cs})
		os.WriteFile(fmt.Sprintf("/tmp/c12case-%s-%s-%d.json", cs.Section, cs.State, G.c.Rep.Evaluations), b, 0644)
	}
	r := G.g.run(func() string { return runCase(fx, cs) })
	G.c.Rep.Evaluations++
	ans := r.Class
	switch {
	case r.Hang:
		ans = "hang"
		G.c.Fail("C12:hang:"+cs.Section+sfx(cs.Entry), fmt.Sprintf("case did not return within %v", G.g.timeout), cs)
		G.hangs++
		if G.hangs >= 3 {
			G.stop = true // the abandoned goroutines keep running (and may hold locks of the node): stop feeding it
		}
	case r.Panic != "":
		ans = "panic"
	}
	if r.Panic != "" && !(cs.Section == "block" && cs.Entry == "raw") {
		// a raw (ungated) validateBlock call is not reachable from the network: its panics are model predictions only
		G.c.Hit("panic|" + cs.Section + sfx(cs.Entry) + "|" + cs.Note + "|" + r.Site) // the failure list is capped; the histogram is not
		G.c.Fail(panicSignature(cs, r), fmt.Sprintf("panic %q at %s (%s), state %s", r.Panic, r.Site, r.Line, cs.State), cs)
	}
	if bound > 0 && r.Alloc > bound {
		sig := "C12:alloc-out-of-proportion:" + cs.Section + sfx(cs.Entry)
		if cs.Section == "frame" || cs.Section == "fuzz-frame" {
			sig = "C12:frame-alloc-out-of-proportion"
		}
		G.c.Fail(sig, fmt.Sprintf("%d bytes allocated for an input of %d bytes (bound %d)", r.Alloc, inputLen, bound), cs)
	}
	if op != "" {
		if strings.HasPrefix(ans, "verdict ") {
			ans = "verdict" // accept / reject of a block is a semantic question (C03), the class is what the model predicts
		}
		if suffix != nil {
			ans += suffix(r)
		}
		G.c.Line(op, ans)
	}
	if r.Alloc > 64<<20 {
		freeMem()
	}
	return r
}

func sfx(s string) string {
	if s == "" {
		return ""
	}
	return ":" + s
}

// ---------------------------------------------------------------- frames

const frameCapOracle = 128<<20 + 16<<20 // independent of the constant in the source

func uvarint(v uint64) []byte {
	b := make([]byte, binary.MaxVarintLen64)
	return b[:binary.PutUvarint(b, v)]
}

func (G *gen) frames() {
	G.c.Line("new frame -", "ok")
	type fr struct {
		b      []byte
		bodyOk bool
		what   string
	}
	var fs []fr
	add := func(what string, ok bool, b []byte) { fs = append(fs, fr{b, ok, what}) }
	add("empty", false, []byte{})
	add("plain-0", true, []byte{0})
	for _, n := range []int{1, 17, 385, 386, 5000} {
		p := make([]byte, n)
		G.r.Read(p)
		add("plain", true, append([]byte{0}, p...))
	}
	for _, k := range []byte{2, 3, 0x7f, 0x80, 0xff} {
		add("unknown-compression", false, []byte{k, 1, 2, 3})
	}
	add("s2-no-header", false, []byte{1})
	add("s2-truncated-varint", false, []byte{1, 0x80})
	add("s2-truncated-varint", false, []byte{1, 0xff, 0xff, 0xff})
	add("s2-varint-11-bytes", false, append([]byte{1}, 0xff, 0xff, 0xff, 0xff, 0xff, 0xff, 0xff, 0xff, 0xff, 0xff, 0x01))
	add("s2-varint-overflow", false, append([]byte{1}, 0xff, 0xff, 0xff, 0xff, 0xff, 0xff, 0xff, 0xff, 0xff, 0x02))
	add("s2-claimed-0-empty", true, []byte{1, 0})
	claimed := []uint64{0, 1, 100, 64 << 10, 256 << 10, 4 << 20, 24 << 20, 96 << 20, 128<<20 - 1, 128 << 20, 128<<20 + 1, 192 << 20, 1 << 30,
		1<<32 - 1, 1 << 32, 1 << 40, 1<<63 - 1, 1 << 63, 1<<64 - 1}
	for _, cl := range claimed {
		add("s2-claimed-garbage", false, append(append([]byte{1}, uvarint(cl)...), 0xfe, 0xff, 0xff))
		add("s2-claimed-nothing", cl == 0, append([]byte{1}, uvarint(cl)...))
	}
	for _, n := range []int{1, 386, 4096, 65536, 1 << 20, 3 << 20} {
		p := make([]byte, n) // zeros: compresses to a few bytes, i.e. a legitimately high expansion
		add("s2-valid-zeros", true, append([]byte{1}, s2.Encode(nil, p)...))
		if n <= 65536 {
			G.r.Read(p)
			add("s2-valid-random", true, append([]byte{1}, s2.Encode(nil, p)...))
		}
	}
	{ // valid stream whose header claims more than it delivers
		enc := s2.Encode(nil, make([]byte, 4096))
		_, hl := binary.Uvarint(enc)
		add("s2-header-inflated", false, append(append([]byte{1}, uvarint(20<<20)...), enc[hl:]...))
		add("s2-header-deflated", false, append(append([]byte{1}, uvarint(10)...), enc[hl:]...))
	}
	allocFailed := false
	for _, f := range fs {
		if allocFailed && strings.HasPrefix(f.what, "s2-claimed") {
			continue // claimed lengths ascend: once one is out of proportion the larger ones only endanger the machine
		}
		nf := len(G.c.Rep.Failures)
		cs := c12case{Section: "frame", State: "-", Seed: G.seed, Hex: hex.EncodeToString(f.b), Note: f.what}
		ok := 0
		if f.bodyOk {
			ok = 1
		}
		op := fmt.Sprintf("frame %s %d %s %d", G.cap, len(f.b), hx16(f.b), ok)
		G.exec(nil, cs, len(f.b), op, frameCapOracle+64*uint64(len(f.b)), func(r result) string {
			if r.Alloc >= 1<<20 {
				return " big=1"
			}
			return " big=0"
		})
		if len(G.c.Rep.Failures) > nf {
			allocFailed = true
		}
		G.c.Hit("frame:" + f.what)
		G.c.Distinct("frame:" + f.what + fmt.Sprint(len(f.b)))
	}
}

// ---------------------------------------------------------------- messages

func hdrShape(h *types.Header) string {
	if h == nil {
		return "n"
	}
	e, p := "-", "-"
	if h.EmptyBlockHeader != nil {
		e = fmt.Sprint(h.EmptyBlockHeader.Height)
	}
	if h.ProposedHeader != nil {
		p = fmt.Sprint(h.ProposedHeader.Height)
	}
	return "e" + e + "p" + p
}

func blockShape(b *types.Block) string {
	if b == nil {
		return "n"
	}
	body := "n"
	if b.Body != nil {
		body = fmt.Sprint(len(b.Body.Transactions))
	}
	return hdrShape(b.Header) + "/" + body
}

func signProposal(p *types.BlockProposal, key *ecdsa.PrivateKey) {
	h := crypto.SignatureHash(p)
	p.Signature, _ = crypto.Sign(h[:], key)
}

func signVote(v *types.Vote, key *ecdsa.PrivateKey) {
	h := crypto.SignatureHash(v)
	v.Signature, _ = crypto.Sign(h[:], key)
}

func mustBytes(b []byte, _ error) []byte { return b }

func cloneProposed(h *types.ProposedHeader) *types.ProposedHeader {
	c := *h
	return &c
}

type msgCase struct {
	code    uint64
	payload []byte
	op      string // model line ("" = none: third-party decode failure etc.)
	what    string
	batch   int
	twice   bool
}

// proposal for the next round built by the node itself (valid VRF proof, signed with the node key)
func (fx *fixture) ownProposal() *types.BlockProposal {
	_, proof := fx.n.Chain.GetProposerSortition()
	return fx.n.Chain.ProposeBlock(proof)
}

func (G *gen) messages(fx *fixture) {
	G.c.Line("new msg "+fx.kind, "ok")
	hs := fx.gossip.PushHolders()
	var hstr []string
	for _, h := range hs {
		hstr = append(hstr, fmt.Sprint(h))
	}
	G.c.Line("holders "+strings.Join(hstr, ","), "ok")
	n, w, r := fx.n, fx.w, G.r
	head := n.Chain.Head.Height()
	god := w.Keys[0]
	other := w.Keys[1]
	var ms []msgCase
	add := func(m msgCase) { ms = append(ms, m) }
	b01 := func(b bool) string {
		if b {
			return "1"
		}
		return "0"
	}
	heights := []uint64{0, 1, head, head + 1, head + 2, head + 29, head + 30, head + 31, 1<<63 + 5, 1<<64 - 1}

	// ---- ProposeBlock
	base := fx.ownProposal()
	if !usableProposal(base) {
		G.c.Hit("msg:skipped-no-base:" + fx.kind) // cannot happen for fixtures from findFixture; never edit an empty base
		return
	}
	propCase := func(what string, p *types.BlockProposal, raw []byte, rec, match bool, twice bool) {
		payload := raw
		if payload == nil {
			payload = mustBytes(p.ToBytes())
		}
		blk := "n"
		if p.Block != nil {
			blk = blockShape(p.Block)
		}
		add(msgCase{code: protocol.ProposeBlock, payload: payload, what: "proposeBlock:" + what, twice: twice,
			op: fmt.Sprintf("msg proposeBlock %s %s %d %s %s", b01(twice), blk, len(p.Signature), b01(rec), b01(match))})
	}
	propCase("valid-own", base, nil, true, true, false)
	propCase("valid-own-twice", base, nil, true, true, true)
	propCase("data-absent", &types.BlockProposal{Signature: base.Signature}, mustBytes(proto.Marshal(&models.ProtoBlockProposal{Signature: base.Signature})), false, false, false)
	propCase("all-absent", &types.BlockProposal{}, []byte{}, false, false, false)
	{
		p := &types.BlockProposal{Block: &types.Block{Body: base.Body}, Proof: base.Proof}
		signProposal(p, god)
		propCase("header-absent", p, nil, true, false, false)
		p = &types.BlockProposal{Block: &types.Block{Header: base.Header}, Proof: base.Proof}
		signProposal(p, god)
		propCase("body-absent", p, nil, true, true, false)
		p = &types.BlockProposal{Block: &types.Block{Header: &types.Header{}, Body: base.Body}, Proof: base.Proof}
		signProposal(p, god)
		propCase("header-without-parts", p, nil, true, false, false)
		p = &types.BlockProposal{Block: &types.Block{Header: &types.Header{ProposedHeader: base.Header.ProposedHeader, EmptyBlockHeader: &types.EmptyBlockHeader{Height: head + 1}}, Body: base.Body}, Proof: base.Proof}
		signProposal(p, god)
		propCase("both-headers", p, nil, true, true, false)
		p = &types.BlockProposal{Block: &types.Block{Header: &types.Header{EmptyBlockHeader: &types.EmptyBlockHeader{Height: head + 1}}, Body: &types.Body{}}, Proof: base.Proof}
		signProposal(p, god)
		propCase("empty-header-only", p, nil, true, false, false)
		p = &types.BlockProposal{Block: base.Block, Proof: base.Proof}
		propCase("signature-absent", p, nil, false, false, false)
		p = &types.BlockProposal{Block: base.Block, Proof: base.Proof, Signature: []byte{1, 2, 3}}
		propCase("signature-short", p, nil, false, false, false)
		garbage := make([]byte, 65)
		r.Read(garbage)
		p = &types.BlockProposal{Block: base.Block, Proof: base.Proof, Signature: garbage}
		propCase("signature-garbage", p, nil, false, false, false)
		p = &types.BlockProposal{Block: base.Block, Proof: base.Proof}
		signProposal(p, other)
		propCase("signed-by-other-key", p, nil, true, false, false)
	}
	// self-consistent proposals (signature matches the key in the header) with hostile header fields: these pass
	// IsValid and reach Proposals.AddProposedBlock (current round, future rounds -> pending set, far future, past)
	type hmut struct {
		what string
		f    func(h *types.ProposedHeader)
	}
	zeroAddr := common.Address{}
	muts := []hmut{
		{"pubkey-empty", func(h *types.ProposedHeader) { h.ProposerPubKey = nil }},
		{"pubkey-short", func(h *types.ProposedHeader) { h.ProposerPubKey = cut(h.ProposerPubKey, 33) }},
		{"pubkey-other", func(h *types.ProposedHeader) { h.ProposerPubKey = crypto.FromECDSAPub(&other.PublicKey) }},
		{"offline-propose-no-addr", func(h *types.ProposedHeader) { h.Flags |= types.OfflinePropose; h.OfflineAddr = nil }},
		{"offline-commit-no-addr", func(h *types.ProposedHeader) { h.Flags |= types.OfflineCommit; h.OfflineAddr = nil }},
		{"offline-commit-addr", func(h *types.ProposedHeader) { h.Flags |= types.OfflineCommit; h.OfflineAddr = &w.Addrs[1] }},
		{"offline-both-flags", func(h *types.ProposedHeader) {
			h.Flags |= types.OfflineCommit | types.OfflinePropose
			h.OfflineAddr = &zeroAddr
		}},
		{"all-flags", func(h *types.ProposedHeader) { h.Flags = 0xffffffff }},
		{"all-flags-but-offline", func(h *types.ProposedHeader) {
			h.Flags = 0xffffffff &^ uint32ToFlag(uint32(types.OfflinePropose|types.OfflineCommit))
		}},
		{"flag-new-genesis", func(h *types.ProposedHeader) { h.Flags |= types.NewGenesis }},
		{"flag-new-genesis-upgrade", func(h *types.ProposedHeader) { h.Flags |= types.NewGenesis; h.Upgrade = 11 }},
		{"flag-snapshot", func(h *types.ProposedHeader) { h.Flags |= types.Snapshot }},
		{"flag-identity-update", func(h *types.ProposedHeader) { h.Flags ^= types.IdentityUpdate }},
		{"flag-validation-finished", func(h *types.ProposedHeader) { h.Flags |= types.ValidationFinished }},
		{"flag-flip-lottery", func(h *types.ProposedHeader) { h.Flags ^= types.FlipLotteryStarted }},
		{"flag-short-session", func(h *types.ProposedHeader) { h.Flags ^= types.ShortSessionStarted }},
		{"flag-long-session", func(h *types.ProposedHeader) { h.Flags ^= types.LongSessionStarted }},
		{"flag-after-long", func(h *types.ProposedHeader) { h.Flags ^= types.AfterLongSessionStarted }},
		{"offline-propose-god", func(h *types.ProposedHeader) { h.Flags |= types.OfflinePropose; h.OfflineAddr = &w.Addrs[0] }},
		{"upgrade-10", func(h *types.ProposedHeader) { h.Upgrade = 10 }},
		{"upgrade-12", func(h *types.ProposedHeader) { h.Upgrade = 12 }},
		{"upgrade-set", func(h *types.ProposedHeader) { h.Upgrade = 11 }},
		{"upgrade-max", func(h *types.ProposedHeader) { h.Upgrade = 0xffffffff }},
		{"fee-nil", func(h *types.ProposedHeader) { h.FeePerGas = nil }},
		{"fee-huge", func(h *types.ProposedHeader) { h.FeePerGas = new(big.Int).Lsh(big.NewInt(1), 4000) }},
		{"seedproof-empty", func(h *types.ProposedHeader) { h.SeedProof = nil }},
		{"seedproof-long", func(h *types.ProposedHeader) { h.SeedProof = make([]byte, 4000) }},
		{"time-min", func(h *types.ProposedHeader) { h.Time = -1 << 63 }},
		{"time-max", func(h *types.ProposedHeader) { h.Time = 1<<63 - 1 }},
		{"bloom-odd", func(h *types.ProposedHeader) { h.TxBloom = []byte{1, 2, 3} }},
		{"ipfs-garbage", func(h *types.ProposedHeader) { h.IpfsHash = []byte{0xff, 0xfe} }},
		{"parent-zero", func(h *types.ProposedHeader) { h.ParentHash = common.Hash{} }},
	}
	for _, ht := range heights {
		muts = append(muts, hmut{fmt.Sprint("height-", ht), func(h *types.ProposedHeader) { h.Height = ht }})
	}
	for _, m := range muts {
		for _, proofKind := range []string{"valid", "short", "garbage129"} {
			if proofKind != "valid" && r.Intn(3) != 0 {
				continue
			}
			h := cloneProposed(base.Header.ProposedHeader)
			m.f(h)
			p := &types.BlockProposal{Block: &types.Block{Header: &types.Header{ProposedHeader: h}, Body: base.Body}, Proof: base.Proof}
			switch proofKind {
			case "short":
				p.Proof = []byte{1, 2}
			case "garbage129":
				p.Proof = make([]byte, 129)
				r.Read(p.Proof)
			}
			signProposal(p, god)
			match := strings.HasPrefix(m.what, "pubkey-") == false
			propCase("self-signed:"+m.what+":proof-"+proofKind, p, nil, true, match, false)
		}
	}
	{ // hostile transactions inside an otherwise own proposal (IsValid does not look at them)
		for _, tx := range hostileTxSample(fx, r, 12) {
			p := &types.BlockProposal{Block: &types.Block{Header: base.Header, Body: &types.Body{Transactions: []*types.Transaction{tx}}}, Proof: base.Proof}
			signProposal(p, god)
			propCase("hostile-tx-in-body", p, nil, true, true, false)
		}
	}

	// ---- ProposeProof (no gate)
	proofCase := func(what string, round uint64, proof, sig []byte, raw []byte, twice bool) {
		payload := raw
		if payload == nil {
			payload = mustBytes((&types.ProofProposal{Proof: proof, Round: round, Signature: sig}).ToBytes())
		}
		add(msgCase{code: protocol.ProposeProof, payload: payload, what: "proposeProof:" + what, twice: twice,
			op: fmt.Sprintf("msg proposeProof %s %d", b01(twice), round)})
	}
	proofCase("data-absent", 0, nil, nil, mustBytes(proto.Marshal(&models.ProtoProposeProof{Signature: []byte{1}})), false)
	proofCase("all-absent", 0, nil, nil, []byte{}, false)
	for _, rd := range heights {
		for _, pl := range []int{0, 1, 128, 129, 130, 5000} {
			if r.Intn(2) == 0 && pl != 129 {
				continue
			}
			pr := make([]byte, pl)
			r.Read(pr)
			if pl == 129 && r.Intn(2) == 0 {
				pr = base.Proof
			}
			pp := &types.ProofProposal{Proof: pr, Round: rd}
			hh := crypto.SignatureHash(pp)
			sig, _ := crypto.Sign(hh[:], god)
			if r.Intn(4) == 0 {
				sig = make([]byte, 65)
			}
			proofCase(fmt.Sprintf("round-%d:proof-%d", rd, pl), rd, pr, sig, nil, rd == head+1 && pl == 129)
		}
	}

	// proofs signed by the key of a pool (the proposer-side arithmetic depends on the pool size): valid-length garbage,
	// current and next round (the latter is parked and replayed by ProcessPendingProofs)
	pools := fx.pools()
	G.c.Hit(fmt.Sprintf("pools:%s:%d", fx.kind, len(pools)))
	for _, pi := range pools {
		for _, rd := range []uint64{head + 1, head + 2} {
			for _, pk := range []string{"garbage129", "own-valid", "zeros129"} {
				pr := make([]byte, 129)
				switch pk {
				case "garbage129":
					r.Read(pr)
				case "own-valid":
					pr = base.Proof
				}
				pp := &types.ProofProposal{Proof: pr, Round: rd}
				hh := crypto.SignatureHash(pp)
				sig, _ := crypto.Sign(hh[:], w.Keys[pi])
				proofCase(fmt.Sprintf("pool-signer-%d:round+%d:%s", pi, rd-head, pk), rd, pr, sig, nil, false)
			}
		}
		// a proposal of a pool with a proof that does not verify
		hd := cloneProposed(base.Header.ProposedHeader)
		hd.ProposerPubKey = crypto.FromECDSAPub(&w.Keys[pi].PublicKey)
		p := &types.BlockProposal{Block: &types.Block{Header: &types.Header{ProposedHeader: hd}, Body: base.Body}, Proof: make([]byte, 129)}
		r.Read(p.Proof)
		signProposal(p, w.Keys[pi])
		propCase(fmt.Sprintf("pool-signer-%d:proof-garbage129", pi), p, nil, true, true, false)
	}

	// structured VRF-proof mutations (scalars at the borders of [1, N-1], points off the curve / at infinity, t = ±s·k):
	// as proposer proof of a ProposeProof (current and next round) and of a ProposeBlock, and as seed proof of the header
	for _, signer := range []int{0, 1} {
		for _, v := range vrfVariants(nil, w.Keys[signer], r) {
			for _, rd := range []uint64{head + 1, head + 2} {
				if rd == head+2 && signer == 1 {
					continue
				}
				pp := &types.ProofProposal{Proof: v.proof, Round: rd}
				hh := crypto.SignatureHash(pp)
				sig, _ := crypto.Sign(hh[:], w.Keys[signer])
				proofCase(fmt.Sprintf("vrf:%s:signer-%d:round+%d", v.what, signer, rd-head), rd, v.proof, sig, nil, false)
			}
			if signer == 0 {
				p := &types.BlockProposal{Block: base.Block, Proof: v.proof}
				signProposal(p, god)
				propCase("vrf-proposer-proof:"+v.what, p, nil, true, true, false)
			}
		}
	}
	for _, v := range vrfVariants(base.Header.ProposedHeader.SeedProof, god, r) {
		hd := cloneProposed(base.Header.ProposedHeader)
		hd.SeedProof = v.proof
		p := &types.BlockProposal{Block: &types.Block{Header: &types.Header{ProposedHeader: hd}, Body: base.Body}, Proof: base.Proof}
		signProposal(p, god)
		propCase("vrf-seed-proof:"+v.what, p, nil, true, true, false)
	}

	// ---- Vote
	voteCase := func(what string, v *types.Vote, raw []byte, twice bool) {
		payload := raw
		if payload == nil {
			payload = mustBytes(v.ToBytes())
		}
		rd := "n"
		if v.Header != nil {
			rd = fmt.Sprint(v.Header.Round)
		}
		add(msgCase{code: protocol.Vote, payload: payload, what: "vote:" + what, twice: twice, op: fmt.Sprintf("msg vote %s %s", b01(twice), rd)})
	}
	voteCase("data-absent", &types.Vote{Signature: make([]byte, 65)}, nil, false)
	voteCase("all-absent", &types.Vote{}, []byte{}, false)
	for _, rd := range heights {
		for k := 0; k < 3; k++ {
			v := &types.Vote{Header: &types.VoteHeader{Round: rd, Step: uint8(r.Intn(256)), ParentHash: n.Chain.Head.Hash(), VotedHash: base.Hash(),
				TurnOffline: r.Intn(2) == 0, Upgrade: uint32(r.Intn(3)) * 11}}
			what := "signed"
			switch k {
			case 0:
				signVote(v, god)
			case 1:
				signVote(v, w.Keys[1+r.Intn(nUsers)])
				what = "signed-by-user"
			default:
				v.Signature = make([]byte, r.Intn(70))
				r.Read(v.Signature)
				what = "sig-garbage"
			}
			voteCase(fmt.Sprintf("round-%d:%s", rd, what), v, nil, k == 0 && rd == head+1)
		}
	}

	// ---- Block (answer to GetBlockByHash)
	blockCase := func(what string, b *types.Block, raw []byte, twice bool) {
		payload := raw
		if payload == nil {
			payload = mustBytes(b.ToBytes())
		}
		add(msgCase{code: protocol.Block, payload: payload, what: "block:" + what, twice: twice, op: fmt.Sprintf("msg block %s %s", b01(twice), blockShape(b))})
	}
	eh := &types.EmptyBlockHeader{Height: head + 1}
	blockCase("own-proposed", base.Block, nil, false)
	blockCase("own-proposed-twice", base.Block, nil, true)
	blockCase("all-absent", &types.Block{}, []byte{}, false)
	blockCase("header-absent", &types.Block{Body: base.Body}, nil, false)
	blockCase("body-absent", &types.Block{Header: base.Header}, nil, false)
	blockCase("header-without-parts", &types.Block{Header: &types.Header{}, Body: &types.Body{}}, nil, false)
	blockCase("both-headers", &types.Block{Header: &types.Header{EmptyBlockHeader: eh, ProposedHeader: base.Header.ProposedHeader}, Body: base.Body}, nil, false)
	blockCase("empty-header", &types.Block{Header: &types.Header{EmptyBlockHeader: eh}, Body: &types.Body{}}, nil, false)
	blockCase("empty-header-no-body", &types.Block{Header: &types.Header{EmptyBlockHeader: eh}}, nil, false)

	// ---- BlocksRange
	rangeCase := func(what string, hdrs []*types.Header, certs []bool, batch int) {
		var items []protocol.VerifC12RangeItem
		var shapes []string
		for i, h := range hdrs {
			it := protocol.VerifC12RangeItem{}
			if h != nil {
				it.Header = mustBytes(proto.Marshal(h.ToProto()))
				if it.Header == nil {
					it.Header = []byte{}
				}
			}
			if certs != nil && certs[i] {
				it.Cert = mustBytes((&types.BlockCert{Round: 1, Step: 255, Signatures: []*types.BlockCertSignature{{Signature: make([]byte, 65)}}}).ToBytes())
				// hostile identity diffs ride along (decoded by blockRange.FromBytes): empty value, garbage value, odd address
				it.Diff = mustBytes(proto.Marshal(&models.ProtoIdentityStateDiff{Values: []*models.ProtoIdentityStateDiff_IdentityStateDiffValue{
					{Address: make([]byte, 20)}, {Address: []byte{1}, Value: []byte{0xff, 0xff}}, {Address: make([]byte, 40), Deleted: true}, {}}}))
			}
			items = append(items, it)
			shapes = append(shapes, hdrShape(h))
		}
		sh := "_"
		if len(shapes) > 0 {
			sh = strings.Join(shapes, ",")
		}
		add(msgCase{code: protocol.BlocksRange, payload: protocol.VerifC12BlockRange(7, items), what: "blocksRange:" + what, batch: batch,
			op: fmt.Sprintf("msg blocksRange %s %s", b01(batch > 0), sh)})
	}
	ownHdr := func(i int) *types.Header {
		if i < len(fx.canon) {
			return fx.canon[i].Header
		}
		return base.Header
	}
	hostileHdrs := []*types.Header{nil, {}, {EmptyBlockHeader: eh, ProposedHeader: base.Header.ProposedHeader}, {EmptyBlockHeader: &types.EmptyBlockHeader{Height: 1<<64 - 1}},
		{EmptyBlockHeader: &types.EmptyBlockHeader{Height: 0}}, {ProposedHeader: &types.ProposedHeader{Height: 77}}, base.Header, ownHdr(0)}
	for _, batch := range []int{0, 64} {
		rangeCase("empty-list", nil, nil, batch)
		for i, h := range hostileHdrs {
			rangeCase(fmt.Sprint("single-", i), []*types.Header{h}, []bool{i%2 == 0}, batch)
			rangeCase(fmt.Sprint("valid-then-", i), []*types.Header{ownHdr(0), ownHdr(1), h}, []bool{false, true, false}, batch)
		}
		var many []*types.Header
		for i := 0; i < 60; i++ {
			many = append(many, &types.Header{EmptyBlockHeader: &types.EmptyBlockHeader{Height: uint64(r.Intn(1000))}})
		}
		rangeCase("sixty-forged-empty", many, nil, batch)
		var vrfHdrs []*types.Header
		for _, v := range vrfVariants(base.Header.ProposedHeader.SeedProof, god, r) {
			hd := cloneProposed(base.Header.ProposedHeader)
			hd.SeedProof = v.proof
			vrfHdrs = append(vrfHdrs, &types.Header{ProposedHeader: hd})
		}
		rangeCase("vrf-seed-proofs", vrfHdrs, nil, batch)
	}

	// ---- Flip
	flipCase := func(what string, f *types.Flip, raw []byte) {
		payload := raw
		if payload == nil {
			payload = mustBytes(f.ToBytes())
		}
		add(msgCase{code: protocol.FlipBody, payload: payload, what: "flip:" + what, op: fmt.Sprintf("msg flipBody 0 %s", b01(f.Tx != nil))})
	}
	flipCase("tx-absent", &types.Flip{PublicPart: []byte{1}, PrivatePart: []byte{2}}, nil)
	flipCase("all-absent", &types.Flip{}, []byte{})
	for i, tx := range hostileTxSample(fx, r, 40) {
		pub, priv := []byte{1, 2, 3}, []byte{4}
		if i%7 == 0 {
			pub = make([]byte, common.MaxFlipSize+10)
		}
		flipCase("hostile-tx", &types.Flip{Tx: tx, PublicPart: pub, PrivatePart: priv}, nil)
	}
	// consistent flips: the tx payload is the flip-submit attachment of exactly this flip body, so that the flipper goes
	// all the way to TxPool.Validate (no recover there) — with every tx type and absent recipients
	for typ := uint16(0); typ <= 0x18; typ++ {
		for _, ki := range []int{0, 1, 2, 6} {
			for _, toNil := range []bool{true, false} {
				if r.Intn(3) != 0 && !(typ == types.ActivationTx && toNil) && typ != types.SubmitFlipTx {
					continue
				}
				key := w.Keys[ki%len(w.Keys)]
				pub, priv := []byte{byte(typ), 1, 2, 3}, []byte{4, 5}
				ipf := &flip.IpfsFlip{PublicPart: pub, PrivatePart: priv, PubKey: crypto.FromECDSAPub(&key.PublicKey)}
				data, _ := ipf.ToBytes()
				cid, _ := fx.ipfs.Cid(data)
				tx := &types.Transaction{Type: typ, AccountNonce: n.App.State.GetNonce(w.Addrs[ki%len(w.Addrs)]) + 1, Epoch: n.App.State.Epoch(),
					Payload: attachments.CreateFlipSubmitAttachment(cid.Bytes(), uint8(r.Intn(4))), MaxFee: dna(50)}
				if !toNil {
					tx.To = &w.Addrs[3]
				}
				stx, _ := types.SignTx(tx, key)
				flipCase(fmt.Sprintf("consistent:%s:to-nil=%v", txName(typ), toNil), &types.Flip{Tx: stx, PublicPart: pub, PrivatePart: priv}, nil)
			}
		}
	}

	// ---- NewTx
	add(msgCase{code: protocol.NewTx, payload: []byte{}, what: "newTx:all-absent", op: "msg newTx 0"})
	for i, tx := range hostileTxSample(fx, r, 60) {
		add(msgCase{code: protocol.NewTx, payload: mustBytes(tx.ToBytes()), what: "newTx:hostile", twice: i == 0, op: "msg newTx " + b01(i == 0)})
	}

	// ---- flip keys, key packages
	ep := n.App.State.Epoch()
	for _, kl := range []int{0, 1, 31, 32, 33, 4096} {
		for _, e := range []uint16{ep, ep + 1, 0xffff} {
			for _, signer := range []int{0, 1, 5, -1} {
				if r.Intn(2) == 0 && kl != 32 {
					continue
				}
				k := &types.PublicFlipKey{Key: make([]byte, kl), Epoch: e}
				r.Read(k.Key)
				if signer >= 0 {
					k, _ = types.SignFlipKey(k, w.Keys[signer])
				} else {
					k.Signature = make([]byte, 65)
					r.Read(k.Signature)
				}
				add(msgCase{code: protocol.FlipKey, payload: mustBytes(k.ToBytes()), what: fmt.Sprintf("flipKey:len-%d", kl), op: "msg flipKey 0"})
			}
		}
	}
	add(msgCase{code: protocol.FlipKey, payload: mustBytes(proto.Marshal(&models.ProtoFlipKey{Signature: make([]byte, 65)})), what: "flipKey:data-absent", op: "msg flipKey 0"})
	add(msgCase{code: protocol.FlipKey, payload: []byte{}, what: "flipKey:all-absent", op: "msg flipKey 0"})
	for _, dl := range []int{0, 1, 100, 1024 * 100, 1024*100 + 1, 1 << 20} {
		for _, signer := range []int{0, 2, -1} {
			k := &types.PrivateFlipKeysPackage{Data: make([]byte, dl), Epoch: ep}
			r.Read(k.Data)
			if signer >= 0 {
				k, _ = types.SignFlipKeysPackage(k, w.Keys[signer])
			} else {
				k.Signature = []byte{1}
			}
			add(msgCase{code: protocol.FlipKeysPackage, payload: mustBytes(k.ToBytes()), what: fmt.Sprintf("keysPackage:len-%d", dl), op: "msg flipKeysPackage 0"})
		}
	}
	add(msgCase{code: protocol.FlipKeysPackage, payload: []byte{}, what: "keysPackage:all-absent", op: "msg flipKeysPackage 0"})
	{ // batches of flip keys: good, with an undecodable member, large
		good, _ := types.SignFlipKey(&types.PublicFlipKey{Key: make([]byte, 32), Epoch: ep}, god)
		gb := mustBytes(good.ToBytes())
		bad := []byte{0xff, 0xff, 0xff}
		mk := func(what string, items [][]byte, flags string) {
			add(msgCase{code: protocol.BatchFlipKey, payload: protocol.VerifC12Batch(items), what: "batchFlipKey:" + what, op: "msg batchFlipKey " + flags})
		}
		mk("empty", nil, "_")
		mk("good", [][]byte{gb, gb}, "1,1")
		mk("bad-last", [][]byte{gb, bad}, "1,0")
		mk("bad-first", [][]byte{bad, gb}, "0,1")
		mk("empty-items", [][]byte{{}, {}}, "1,1")
		var many [][]byte
		fl := make([]string, 0, 3000)
		for i := 0; i < 3000; i++ {
			many = append(many, gb)
			fl = append(fl, "1")
		}
		mk("3000-items", many, strings.Join(fl, ","))
	}

	// ---- snapshot manifest
	for _, mh := range []uint64{0, 1, head, 1<<64 - 1} {
		for _, cl := range []int{0, 3, 34, 100000} {
			m := &snapshot.Manifest{Height: mh, CidV2: make([]byte, cl)}
			r.Read(m.CidV2)
			add(msgCase{code: protocol.SnapshotManifest, payload: mustBytes(m.ToBytes()), what: "manifest", op: fmt.Sprintf("msg snapshotManifest %d", mh)})
		}
	}
	add(msgCase{code: protocol.SnapshotManifest, payload: mustBytes(proto.Marshal(&models.ProtoManifest{Root: make([]byte, 100), Height: 5})), what: "manifest:long-root", op: "msg snapshotManifest 5"})

	// ---- push / pull hashes
	var knownHash []byte
	if pend := n.Pool.GetPendingTransaction(true, true, common.MultiShard, false); len(pend) > 0 {
		h := pend[0].Hash128()
		knownHash = h[:]
	}
	rawTypes := []uint32{0, 1, 2, 3, 4, 5, 6, 7, 8, 255, 256, 257, 262, 263, 511, 65537, 1<<32 - 1, 1<<32 - 250}
	for _, t := range rawTypes {
		for _, hl := range []int{0, 15, 16, 17, 64} {
			if hl != 16 && r.Intn(3) != 0 {
				continue
			}
			h := make([]byte, hl)
			r.Read(h)
			if hl == 0 {
				h = nil
			}
			add(msgCase{code: protocol.Push, payload: protocol.VerifC12PushHash(t, h), what: fmt.Sprint("push:type-", t), op: fmt.Sprint("msg push ", t)})
			add(msgCase{code: protocol.Pull, payload: protocol.VerifC12PushHash(t, h), what: fmt.Sprint("pull:type-", t), op: fmt.Sprint("msg pull ", t)})
		}
	}
	if knownHash != nil {
		add(msgCase{code: protocol.Pull, payload: protocol.VerifC12PushHash(6, knownHash), what: "pull:known-tx", op: "msg pull 6"})
		add(msgCase{code: protocol.Push, payload: protocol.VerifC12PushHash(6, knownHash), what: "push:known-tx", op: "msg push 6"})
	}
	{
		h := make([]byte, 16)
		mk := func(what string, items [][]byte, desc string) {
			add(msgCase{code: protocol.BatchPush, payload: protocol.VerifC12Batch(items), what: "batchPush:" + what, op: "msg batchPush " + desc})
		}
		mk("empty", nil, "_")
		mk("good", [][]byte{protocol.VerifC12PushHash(1, h), protocol.VerifC12PushHash(6, h)}, "1,6")
		mk("invalid-type-last", [][]byte{protocol.VerifC12PushHash(2, h), protocol.VerifC12PushHash(9, h)}, "2,9")
		mk("undecodable-middle", [][]byte{protocol.VerifC12PushHash(2, h), {0xff, 0xff}, protocol.VerifC12PushHash(9, h)}, "2,u,9")
		mk("type-wraps", [][]byte{protocol.VerifC12PushHash(257, h)}, "257")
		mk("empty-item", [][]byte{{}}, "0")
		var many [][]byte
		var ds []string
		for i := 0; i < 5000; i++ {
			r.Read(h)
			many = append(many, protocol.VerifC12PushHash(uint32(1+i%6), h))
			ds = append(ds, fmt.Sprint(1+i%6))
		}
		mk("5000-items", many, strings.Join(ds, ","))
	}

	// ---- requests, shard updates, disconnect, unknown codes
	for _, hl := range []int{0, 5, 32, 100} {
		add(msgCase{code: protocol.GetBlockByHash, payload: mustBytes(proto.Marshal(&models.ProtoGetBlockByHashRequest{Hash: make([]byte, hl)})), what: "getBlockByHash", op: "msg getBlockByHash"})
	}
	add(msgCase{code: protocol.GetBlockByHash, payload: mustBytes(proto.Marshal(&models.ProtoGetBlockByHashRequest{Hash: n.Chain.Head.Hash().Bytes()})), what: "getBlockByHash:head", op: "msg getBlockByHash"})
	for _, ft := range [][2]uint64{{0, 0}, {0, 1<<64 - 1}, {1, 1<<64 - 1}, {head, head}, {head + 1, head + 5}, {5, 2}, {1<<64 - 1, 1<<64 - 1}} {
		add(msgCase{code: protocol.GetBlocksRange, payload: mustBytes(proto.Marshal(&models.ProtoGetBlocksRangeRequest{BatchId: 3, From: ft[0], To: ft[1]})), what: "getBlocksRange", op: "msg getBlocksRange"})
	}
	for _, cnt := range []int{0, 1, 100, 5000} {
		q := &models.ProtoGetForkBlockRangeRequest{BatchId: 4}
		for i := 0; i < cnt; i++ {
			hh := make([]byte, 32)
			if i == cnt/2 {
				copy(hh, n.Chain.Head.Hash().Bytes())
			} else {
				r.Read(hh)
			}
			if i%50 == 3 {
				hh = hh[:7]
			}
			q.Blocks = append(q.Blocks, hh)
		}
		add(msgCase{code: protocol.GetForkBlockRange, payload: mustBytes(proto.Marshal(q)), what: fmt.Sprint("getForkBlockRange:", cnt), op: "msg getForkBlockRange"})
	}
	for _, s := range []uint32{0, 1, 2, 1<<32 - 1} {
		add(msgCase{code: protocol.UpdateShardId, payload: protocol.VerifC12UpdateShard(s), what: "updateShardId", op: fmt.Sprint("msg updateShardId ", s)})
	}
	add(msgCase{code: protocol.Disconnect, payload: protocol.VerifC12Disconnect(strings.Repeat("x", 10000)), what: "disconnect", op: "msg disconnect"})
	for _, code := range []uint64{0, protocol.Handshake, 0x15, 0x100, 1<<64 - 1} {
		p := make([]byte, r.Intn(40))
		r.Read(p)
		add(msgCase{code: code, payload: p, what: "unknown-code", op: "msg other"})
	}
	// ---- payloads that do not decode, for every code (third-party decoder: no model line beyond `decode`)
	for code := uint64(2); code <= 0x14; code++ {
		for _, junk := range [][]byte{{0xff}, {0x0a, 0xff, 0xff, 0xff, 0xff, 0x0f}, {0x08}, {0x0a, 0x05, 1}} {
			add(msgCase{code: code, payload: junk, what: "undecodable", op: "msg-undecodable"})
		}
	}

	for i, m := range ms {
		compress := i%2 == 0
		frame := protocol.VerifC12WrapMsg(m.code, m.payload, compress)
		cs := c12case{Section: "msg", State: fx.kind, Seed: G.seed, Hex: hex.EncodeToString(frame), Batch: m.batch, Twice: m.twice, Note: m.what}
		G.exec(fx, cs, len(frame), m.op, allocBound(effectiveLen(frame)), nil)
		kind := m.what
		if j := strings.Index(kind, ":"); j > 0 {
			kind = kind[:j]
		}
		G.c.Hit("msg:" + kind)
		G.c.Distinct("msg:" + fx.kind + ":" + m.op + ":" + m.what)
		if i == 3 {
			G.c.Sample(cs)
		}
	}
	G.syncing(fx, ms)
	time.Sleep(50 * time.Millisecond) // let the node's own queues drain before the next section touches the pools
}

// syncing: the same routes while the node is SYNCING (blockchain.StartSync -> txpool.StartSync: incoming transactions are
// deferred instead of validated): every tx type x {own coinbase, another known sender, unknown sender, garbage
// signature} as NewTx frames, and a sample of the proposals / votes / blocks / flips / flip keys / key packages / block
// ranges of the synced stream, through the real handler.
func (G *gen) syncing(fx *fixture, ms []msgCase) {
	if G.stop {
		return
	}
	n, w, r := fx.n, fx.w, G.r
	n.Chain.StartSync()
	defer func() {
		// StopSync replays the deferred transactions into the pool; under the guard like everything else
		cs := c12case{Section: "syncstop", State: fx.kind, Seed: fx.seed}
		res := G.g.run(func() string { n.Chain.StopSync(); return "ok" })
		G.c.Rep.Evaluations++
		if res.Panic != "" {
			G.c.Fail("C12:sync-stop-panic:"+res.Site, fmt.Sprintf("panic %q at %s (%s) when the deferred transactions were replayed, state %s", res.Panic, res.Site, res.Line, fx.kind), cs)
		} else if res.Hang {
			G.c.Fail("C12:hang:sync-stop", "StopSync did not return", cs)
			G.stop = true
		}
	}()
	if !n.Pool.IsSyncing() {
		G.c.Hit("syncing:not-entered")
		return
	}
	ep := n.App.State.Epoch()
	pays := payloadFamilies(fx, r)
	run := func(m msgCase, i int) {
		frame := protocol.VerifC12WrapMsg(m.code, m.payload, i%2 == 0)
		cs := c12case{Section: "msg", State: fx.kind, Seed: fx.seed, Hex: hex.EncodeToString(frame), Batch: m.batch, Twice: m.twice, Syncing: true, Note: "syncing:" + m.what}
		G.exec(fx, cs, len(frame), m.op, allocBound(effectiveLen(frame)), nil)
		kind := m.what
		if j := strings.Index(kind, ":"); j > 0 {
			kind = kind[:j]
		}
		G.c.Hit("msg-syncing:" + kind)
		G.c.Distinct("msg-syncing:" + fx.kind + ":" + m.op + ":" + m.what)
	}
	i := 0
	for typ := uint16(0); typ <= 0x18; typ++ {
		for _, signer := range []string{"own-coinbase", "other", "unknown", "garbage-sig", "no-sig"} {
			payload := pays[r.Intn(len(pays)-3)]
			if typ >= types.SubmitAnswersHashTx && typ <= types.EvidenceTx && r.Intn(2) == 0 {
				payload = make([]byte, 32)
			}
			tx := &types.Transaction{Type: typ, AccountNonce: 1, Epoch: ep, Payload: payload, MaxFee: dna(60)}
			if r.Intn(2) == 0 {
				tx.To = &w.Addrs[2]
			}
			switch signer {
			case "own-coinbase":
				tx.AccountNonce = n.App.State.GetNonce(w.Addrs[0]) + 1
				tx, _ = types.SignTx(tx, w.Keys[0])
			case "other":
				ki := 1 + r.Intn(nUsers)
				tx.AccountNonce = n.App.State.GetNonce(w.Addrs[ki]) + 1
				tx, _ = types.SignTx(tx, w.Keys[ki])
			case "unknown":
				kb := make([]byte, 32)
				r.Read(kb)
				kb[0] &= 0x7f
				if k, err := crypto.ToECDSA(kb); err == nil {
					tx, _ = types.SignTx(tx, k)
				}
			case "garbage-sig":
				tx.Signature = make([]byte, 65)
				r.Read(tx.Signature)
			}
			run(msgCase{code: protocol.NewTx, payload: mustBytes(tx.ToBytes()), what: fmt.Sprintf("newTx:%s:%s", txName(typ), signer), op: "msg newTx 0"}, i)
			i++
		}
	}
	// a sample of every other kind of the synced stream, now while syncing
	perKind := map[string]int{}
	for _, m := range ms {
		kind := m.what
		if j := strings.Index(kind, ":"); j > 0 {
			kind = kind[:j]
		}
		if kind == "undecodable" || kind == "newTx" {
			continue
		}
		perKind[kind]++
		if perKind[kind] > 12 && perKind[kind]%9 != 0 {
			continue
		}
		run(m, i)
		i++
	}
}

// effectiveLen: the size the frame legitimately decompresses to (bounded by the frame oracle's cap), else its length.
// Whether a frame may claim that much is the frame section's question; what is done with the decoded bytes is bounded
// in the decoded size here.
func effectiveLen(frame []byte) int {
	if len(frame) > 1 && frame[0] == 1 {
		if n, err := s2.DecodedLen(frame[1:]); err == nil && n > len(frame) && n <= frameCapOracle {
			return n
		}
	}
	return len(frame)
}

// cut is total: the first n bytes, or everything if there are fewer (edit closures must work on any header)
func cut(b []byte, n int) []byte {
	if n < 0 {
		n = 0
	}
	if len(b) <= n {
		return b
	}
	return b[:n]
}

func uint32ToFlag(v uint32) types.BlockFlag { return types.BlockFlag(v) }

func dna(n int64) *big.Int { return new(big.Int).Mul(big.NewInt(n), common.DnaBase) }

func freeMem() { debugFreeOSMemory() }
