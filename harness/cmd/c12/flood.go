package main

// Message floods: many VALID transactions up to and beyond the mempool limits, delivered as NewTx frames through the real
// handler.  The interesting failures here are Go runtime fatal errors (e.g. "sync: unlock of unlocked mutex"), which no
// recover() can catch: the section therefore runs in a CHILD process (the harness binary re-executed on one replay
// case); the parent observes the death of the child as C12:node-killed:<class> with the case as replay.

import (
	"bytes"
	"encoding/json"
	"fmt"
	"math/rand"
	"os"
	"os/exec"
	"path/filepath"
	"strings"
	"sync"
	"sync/atomic"
	"time"

	"github.com/idena-network/idena-go/blockchain/types"
	"github.com/idena-network/idena-go/common"
	"github.com/idena-network/idena-go/crypto"
	"github.com/idena-network/idena-go/protocol"

	"verifharness/internal/chainfx"
)

var floodKinds = []string{"one-sender-future-nonces", "one-sender-sequential-nonces", "many-senders-pending", "concurrent-proposals"}

// runFlood executes one flood on the fixture (in the child process). Mode = number of transactions / senders.
func runFlood(fx *fixture, cs c12case) string {
	n, w := fx.n, fx.w
	ep := n.App.State.Epoch()
	acc, rej := 0, 0
	deliver := func(tx *types.Transaction) {
		frame := protocol.VerifC12WrapMsg(protocol.NewTx, mustBytes(tx.ToBytes()), false)
		fx.gossip.Reset()
		before := len(n.Pool.GetPendingTransaction(true, true, common.MultiShard, false))
		fx.gossip.Handle(frame)
		if len(n.Pool.GetPendingTransaction(true, true, common.MultiShard, false)) > before {
			acc++
		} else {
			rej++
		}
	}
	nonceOf := func(i int) uint32 {
		if n.App.State.GetEpoch(w.Addrs[i]) < ep {
			return 0
		}
		return n.App.State.GetNonce(w.Addrs[i])
	}
	switch cs.Entry {
	case "one-sender-future-nonces", "one-sender-sequential-nonces":
		const ki = 4
		first := nonceOf(ki) + 1
		if cs.Entry == "one-sender-future-nonces" {
			first++ // a gap: nothing is executable, everything queues for the address
		}
		for k := 0; k < cs.Mode; k++ {
			tx, _ := types.SignTx(&types.Transaction{Type: types.SendTx, AccountNonce: first + uint32(k), Epoch: ep, To: &w.Addrs[2], Amount: dna(1), MaxFee: dna(60)}, w.Keys[ki])
			deliver(tx)
		}
	case "many-senders-pending":
		// fund cs.Mode fresh accounts from the world's keys (<= 24 per funder: below the per-address limit), mine, then let
		// every fresh account send one transaction with a FUTURE nonce: one pending slot per sender
		var keys []int
		for i := 0; i < cs.Mode; i++ {
			keys = append(keys, 5000+i)
		}
		sent := 0
		for i, k := range keys {
			a := crypto.PubkeyToAddress(chainfx.DetKey(fx.seed, k).PublicKey)
			if _, err := fx.h.S.Send(n, i%len(w.Keys), &types.Transaction{Type: types.SendTx, To: &a, Amount: dna(150)}); err == nil {
				sent++
			}
			if (i+1)%(24*len(w.Keys)) == 0 {
				if _, err := fx.h.Step(fx.blocks + 1 + i); err != nil {
					return "fixture:" + err.Error()
				}
			}
		}
		for b := 0; b < 2; b++ {
			if _, err := fx.h.Step(fx.blocks + 1000 + b); err != nil {
				return "fixture:" + err.Error()
			}
		}
		if n.App.State.ValidationPeriod() != 0 {
			return "fixture:left-the-quiet-period"
		}
		funded := 0
		for _, k := range keys {
			key := chainfx.DetKey(fx.seed, k)
			a := crypto.PubkeyToAddress(key.PublicKey)
			if n.App.State.GetBalance(a).Sign() == 0 {
				continue
			}
			funded++
			tx, _ := types.SignTx(&types.Transaction{Type: types.SendTx, AccountNonce: 2, Epoch: n.App.State.Epoch(), To: &w.Addrs[2], Amount: dna(1), MaxFee: dna(60)}, key)
			deliver(tx)
		}
		return fmt.Sprintf("funded=%d acc=%d rej=%d", funded, acc, rej)
	case "concurrent-proposals":
		return concurrentProposals(fx, cs)
	default:
		return "bad-entry"
	}
	return fmt.Sprintf("acc=%d rej=%d", acc, rej)
}

// concurrentProposals: 12 connected peers, each with its own reader goroutine (as in the real node), deliver ProposeProof
// and ProposeBlock frames of the current and the next round — junk with valid signatures, which is refused only after the
// comparison with the round's best proof — through the real handler, while the node side records best proofs of the round
// (setBestHash, what a valid proposal does) and completes rounds (CompleteRound).  Mode = duration in milliseconds.
// Unsynchronised access to the shared maps ends in a Go runtime fatal error, i.e. in the death of this child process.
func concurrentProposals(fx *fixture, cs c12case) string {
	n := fx.n
	head := n.Chain.Head.Height()
	base := fx.ownProposal()
	if !usableProposal(base) {
		return "fixture:no-proposal"
	}
	deadline := time.Now().Add(time.Duration(cs.Mode) * time.Millisecond)
	var wg sync.WaitGroup
	var handled, writes uint64
	for i := 0; i < 12; i++ {
		g := fx.gossip.AddPeer(fmt.Sprint("flood-peer-", i))
		key := chainfx.DetKey(fx.seed, 7000+i)
		r := rand.New(rand.NewSource(fx.seed*131 + int64(i)))
		wg.Add(1)
		go func() {
			defer wg.Done()
			for k := 0; time.Now().Before(deadline); k++ {
				round := head + 1
				if k%5 == 4 {
					round = head + 2
				}
				var frame []byte
				if k%8 == 7 {
					hd := cloneProposed(base.Header.ProposedHeader)
					hd.ProposerPubKey = crypto.FromECDSAPub(&key.PublicKey)
					hd.Height = round
					r.Read(hd.TxHash[:])
					p := &types.BlockProposal{Block: &types.Block{Header: &types.Header{ProposedHeader: hd}, Body: &types.Body{}}, Proof: make([]byte, 129)}
					r.Read(p.Proof)
					signProposal(p, key)
					frame = protocol.VerifC12WrapMsg(protocol.ProposeBlock, mustBytes(p.ToBytes()), false)
				} else {
					pp := &types.ProofProposal{Proof: make([]byte, 129), Round: round}
					r.Read(pp.Proof)
					if k%16 == 0 {
						pp.Proof = base.Proof // the one honest proof of the round (accepted once, then a duplicate)
					}
					hh := crypto.SignatureHash(pp)
					pp.Signature, _ = crypto.Sign(hh[:], key)
					frame = protocol.VerifC12WrapMsg(protocol.ProposeProof, mustBytes(pp.ToBytes()), false)
				}
				g.Handle(frame)
				atomic.AddUint64(&handled, 1)
			}
		}()
	}
	wg.Add(1)
	go func() { // the node side: best proofs of valid proposals, finished rounds
		defer wg.Done()
		r := rand.New(rand.NewSource(fx.seed*977 + 5))
		pub := crypto.FromECDSAPub(&fx.w.Keys[0].PublicKey)
		for k := 0; time.Now().Before(deadline); k++ {
			var h common.Hash
			r.Read(h[:])
			fx.proposals.VerifC12SetBestHash(head+1+uint64(k%2), h, pub, 1+k%3)
			if k%4 == 3 {
				fx.proposals.CompleteRound(head + 2)
			}
			atomic.AddUint64(&writes, 1)
			if k%64 == 0 {
				time.Sleep(50 * time.Microsecond)
			}
		}
	}()
	wg.Wait()
	return fmt.Sprintf("handled=%v writes=%v", handled > 100, writes > 100)
}

// floodChild runs one flood case in a child process and reports what happened to it.
func (G *gen) floodChild(cs c12case) error {
	exe, err := os.Executable()
	if err != nil {
		return err
	}
	dir, err := os.MkdirTemp("", "c12flood")
	if err != nil {
		return err
	}
	defer os.RemoveAll(dir)
	b, _ := json.Marshal(map[string]interface{}{"replay": cs})
	casePath := filepath.Join(dir, "case.json")
	os.WriteFile(casePath, b, 0644)
	cwd := filepath.Join(dir, "cwd")
	os.MkdirAll(cwd, 0755)
	cmd := exec.Command(exe, "C12", "-tier", "quick", "-seed", fmt.Sprint(G.seed), "-out", filepath.Join(dir, "out"), "-replay", casePath)
	cmd.Dir = cwd
	cmd.Env = append(os.Environ(), "C12_CHILD=1")
	var stderr bytes.Buffer
	cmd.Stderr = &stderr
	cmd.Stdout = nil
	done := make(chan error, 1)
	if err := cmd.Start(); err != nil {
		return err
	}
	go func() { done <- cmd.Wait() }()
	G.c.Rep.Evaluations++
	var werr error
	select {
	case werr = <-done:
	case <-time.After(150 * time.Second):
		cmd.Process.Kill()
		<-done
		G.c.Fail("C12:hang:flood:"+cs.Entry, "child process did not finish within 150 s", cs)
		return nil
	}
	errText := stderr.String()
	if werr != nil {
		killed := ""
		for _, l := range strings.Split(errText, "\n") {
			if strings.HasPrefix(l, "fatal error:") || strings.HasPrefix(l, "panic:") {
				killed = l
				break
			}
		}
		if killed != "" {
			site := ""
			for _, l := range strings.Split(errText, "\n") {
				l = strings.TrimSpace(l)
				if strings.HasPrefix(l, repoRoot()+"/") && !strings.Contains(l, "zz_verif_export") {
					site = strings.TrimPrefix(l, repoRoot()+"/")
					if k := strings.Index(site, " +0x"); k > 0 {
						site = site[:k]
					}
					break
				}
			}
			sig := "C12:node-killed:newTx-flood:" + cs.Entry
			if cs.Entry == "concurrent-proposals" {
				sig = "C12:node-died-under-concurrent-proposals"
			}
			G.c.Fail(sig, fmt.Sprintf("the process handling the messages died: %q (first repository frame: %s), state %s", killed, site, cs.State), cs)
			return nil
		}
		tail := errText
		if len(tail) > 600 {
			tail = tail[len(tail)-600:]
		}
		return fmt.Errorf("harness: flood child failed without a runtime crash (%v): %s", werr, tail)
	}
	// the child survived: take over what its own oracle found (recoverable panics, hangs, allocation)
	var rep struct {
		Failures []struct {
			Signature string      `json:"signature"`
			Detail    string      `json:"detail"`
			Replay    interface{} `json:"replay"`
		} `json:"failures"`
		Notes []string `json:"notes"`
	}
	if rb, err := os.ReadFile(filepath.Join(dir, "out", "report.json")); err == nil && json.Unmarshal(rb, &rep) == nil {
		for _, f := range rep.Failures {
			G.c.Fail(f.Signature, f.Detail, cs)
		}
		for _, nt := range rep.Notes {
			if i := strings.Index(nt, "class="); i >= 0 {
				G.c.Hit("flood:" + cs.Entry + ":" + strings.SplitN(nt[i:], " panic=", 2)[0])
			}
		}
	}
	return nil
}

func (G *gen) floods(seed int64) error {
	for _, k := range floodKinds {
		mode := 70
		switch k {
		case "many-senders-pending":
			mode = 262
		case "concurrent-proposals":
			mode = 3000 // milliseconds
			if G.c.Tier == "thorough" {
				mode = 20000
			}
		}
		cs := c12case{Section: "flood", State: "populated", Seed: seed, Entry: k, Mode: mode}
		if err := G.floodChild(cs); err != nil {
			return err
		}
		G.c.Distinct("flood:" + k)
	}
	return nil
}
