package main

// Case descriptors (JSON-serialisable: a failing case is replayed from exactly this) and their interpreter: every case
// of every section is run by runCase on a fixture in a given state.

import (
	"encoding/hex"
	"encoding/json"
	"fmt"
	"math/big"
	"sort"
	"strings"
	"time"

	"github.com/idena-network/idena-go/blockchain/attachments"
	"github.com/idena-network/idena-go/blockchain/fee"
	"github.com/idena-network/idena-go/blockchain/types"
	"github.com/idena-network/idena-go/blockchain/validation"
	"github.com/idena-network/idena-go/consensus"
	"github.com/idena-network/idena-go/core/state/snapshot"
	"github.com/idena-network/idena-go/protocol"
	"github.com/pkg/errors"
)

type forkItem struct {
	Block   string `json:"block"` // hex of Block.ToBytes
	HasCert bool   `json:"cert,omitempty"`
}

type c12case struct {
	Section string `json:"section"` // frame | msg | tx | block | fork | fuzz-frame | fuzz-obj
	State   string `json:"state"`   // empty | populated | ceremony | epoch1 ("-" for the frame section)
	Seed    int64  `json:"seed"`    // world seed of the fixture
	Hex     string `json:"hex,omitempty"`
	// msg
	Batch   int  `json:"batch,omitempty"`   // register a pending block-range batch of this capacity (id 7) first
	Twice   bool `json:"twice,omitempty"`   // deliver the frame twice (second delivery = already processed)
	Syncing bool `json:"syncing,omitempty"` // the node is syncing while the frame is handled (blockchain.StartSync)
	// tx
	Entry string `json:"entry,omitempty"` // tx: validate|pool-validate|pool-add|process|apply ; block: gated|raw ; fuzz-obj: kind
	Mode  int    `json:"mode,omitempty"`
	Neg   string `json:"neg,omitempty"` // tx: which big ints are negated after decoding ("a","f","t" letters)
	// fork
	Fork []forkItem `json:"fork,omitempty"`
	Note string     `json:"note,omitempty"`
}

func (cs c12case) json() string {
	b, _ := json.Marshal(cs)
	return string(b)
}

func unhex(s string) []byte {
	b, err := hex.DecodeString(s)
	if err != nil {
		panic("bad hex in case: " + err.Error())
	}
	return b
}

func txFromCase(cs c12case) *types.Transaction {
	tx := new(types.Transaction)
	if err := tx.FromBytes(unhex(cs.Hex)); err != nil {
		return nil
	}
	for _, ch := range cs.Neg {
		switch ch {
		case 'a':
			if tx.Amount != nil {
				tx.Amount = new(big.Int).Neg(tx.Amount)
			}
		case 'f':
			if tx.MaxFee != nil {
				tx.MaxFee = new(big.Int).Neg(tx.MaxFee)
			}
		case 't':
			if tx.Tips != nil {
				tx.Tips = new(big.Int).Neg(tx.Tips)
			}
		}
	}
	return tx
}

func verdictOf(err error) string {
	if err == nil {
		return "acc"
	}
	return "rej"
}

var sentinels = map[error]string{
	validation.NodeAlreadyActivated: "NodeAlreadyActivated", validation.InvalidSignature: "InvalidSignature", validation.InvalidNonce: "InvalidNonce",
	validation.InvalidEpoch: "InvalidEpoch", validation.InvalidAmount: "InvalidAmount", validation.InsufficientFunds: "InsufficientFunds",
	validation.InsufficientInvites: "InsufficientInvites", validation.RecipientRequired: "RecipientRequired", validation.InvitationIsMissing: "InvitationIsMissing",
	validation.EmptyPayload: "EmptyPayload", validation.InvalidPayload: "InvalidPayload", validation.InvalidRecipient: "InvalidRecipient",
	validation.EarlyTx: "EarlyTx", validation.LateTx: "LateTx", validation.NotCandidate: "NotCandidate", validation.InsufficientFlips: "InsufficientFlips",
	validation.IsAlreadyOnline: "IsAlreadyOnline", validation.IsAlreadyOffline: "IsAlreadyOffline", validation.DuplicatedFlip: "DuplicatedFlip",
	validation.DuplicatedFlipPair: "DuplicatedFlipPair", validation.BigFee: "BigFee", validation.InvalidMaxFee: "InvalidMaxFee", validation.TooHighMaxFee: "TooHighMaxFee",
	validation.InvalidSender: "InvalidSender", validation.FlipIsMissing: "FlipIsMissing", validation.DuplicatedTx: "DuplicatedTx", validation.NegativeValue: "NegativeValue",
	validation.SenderHasDelegatee: "SenderHasDelegatee", validation.SenderHasNoDelegatee: "SenderHasNoDelegatee", validation.WrongEpoch: "WrongEpoch",
	validation.InvalidDeployAmount: "InvalidDeployAmount", validation.SenderHasPenalty: "SenderHasPenalty",
}

// reasonOf maps a ValidateTx error to the name of its sentinel (identity, not text); only used for the coverage histogram
func reasonOf(err error) string {
	if err == nil {
		return "acc"
	}
	if n, ok := sentinels[errors.Cause(err)]; ok {
		return "rej:" + n
	}
	return "rej:other"
}

// syncConsumer runs, synchronously and before the frame is handed to the real handler, the one consumer that the handler
// only feeds through a queue of its own: the flipper's write loop (flip -> TxPool.Validate, no recover on that path).  A
// panic there would otherwise kill the whole process from a goroutine of the node — which is exactly what happens to a
// real node, but leaves no replayable case.  (The tx pool and the key pool are called directly by the handler here, see
// the protocol shim.)  For transactions the pool's Validate (the flip path's entry, no recover) is run as well.
func syncConsumer(fx *fixture, frame []byte) string {
	data, err := protocol.Decode(frame)
	if err != nil {
		return "frame"
	}
	msg := new(protocol.Msg)
	if err := msg.FromBytes(data); err != nil {
		return "frame"
	}
	switch msg.Code {
	case protocol.NewTx:
		tx := new(types.Transaction)
		if tx.FromBytes(msg.Payload) != nil {
			return "decode"
		}
		return "tx:" + verdictOf(fx.n.Pool.Validate(tx))
	case protocol.FlipBody:
		f := new(types.Flip)
		if f.FromBytes(msg.Payload) != nil {
			return "decode"
		}
		if !f.IsValid() {
			return "invalid"
		}
		return "flip:" + verdictOf(fx.flipper.VerifC12AddNewFlipSync(f))
	}
	return "-"
}

// quiesce waits until the flipper's write loop has finished what the handler queued (bounded wait).
func quiesce(fx *fixture) {
	for i := 0; i < 2000; i++ {
		if fx.flipper.VerifC12Idle() {
			return
		}
		time.Sleep(time.Millisecond)
	}
}

func obsString(o protocol.VerifC12PeerObs) string {
	z := func(v uint64) string {
		if v == 0 {
			return "-"
		}
		return fmt.Sprint(v)
	}
	m := "-"
	if o.HasManifest {
		m = fmt.Sprint(o.ManifestHeight)
	}
	return fmt.Sprintf("k=%s p=%s m=%s s=%s", z(o.Known), z(o.Potential), m, z(uint64(o.ShardId)))
}

// runCase interprets one case on the fixture. It returns the canonical implementation answer of the case (the string
// compared with the Lean model where the section has a model line).  It runs inside the guard (recover / timeout /
// allocation accounting are the caller's).
func runCase(fx *fixture, cs c12case) string {
	switch cs.Section {
	case "frame", "fuzz-frame":
		out, err := protocol.Decode(unhex(cs.Hex))
		if err != nil {
			return "rej"
		}
		if cs.Section == "fuzz-frame" {
			m := new(protocol.Msg)
			if m.FromBytes(out) != nil {
				return "rej"
			}
			return "ok"
		}
		return fmt.Sprint("ok ", len(out))
	case "msg", "fuzz-msg":
		frame := unhex(cs.Hex)
		if cs.Syncing && !fx.n.Pool.IsSyncing() { // replay of a case of the syncing stream
			fx.n.Chain.StartSync()
		}
		fx.gossip.Reset()
		if cs.Batch > 0 {
			fx.gossip.RegisterBatch(7, cs.Batch)
		}
		pre := syncConsumer(fx, frame)
		cls, _ := fx.gossip.Handle(frame)
		if cs.Twice {
			fx.gossip.ResetObs()
			cls, _ = fx.gossip.Handle(frame)
		}
		_ = pre
		quiesce(fx)
		return cls + " " + obsString(fx.gossip.Obs())
	case "tx":
		tx := txFromCase(cs)
		if tx == nil {
			return "undecodable"
		}
		n := fx.n
		height := n.Chain.Head.Height()
		switch cs.Entry {
		case "validate":
			as, err := n.App.Readonly(height)
			if err != nil {
				return "nostate"
			}
			return reasonOf(validation.ValidateTx(as, tx, fee.GetFeePerGasForNetwork(as.ValidatorsCache.NetworkSize()), cs.Mode))
		case "pool-validate":
			return verdictOf(n.Pool.Validate(tx))
		case "pool-add":
			return verdictOf(n.Pool.AddExternalTxs(cs.Mode, tx))
		case "process":
			as, err := n.App.ForCheck(height)
			if err != nil {
				return "nostate"
			}
			_, _, _, _, e := n.Chain.FxProcessTxs(as, n.Chain.Head, []*types.Transaction{tx})
			return verdictOf(e)
		case "apply":
			as, err := n.App.ForCheck(height)
			if err != nil {
				return "nostate"
			}
			// what processTxs does: apply only after validation accepted
			if validation.ValidateTx(as, tx, fee.GetFeePerGasForNetwork(as.ValidatorsCache.NetworkSize()), validation.InBlockTx) != nil {
				return "rej"
			}
			_, _, e := n.Chain.FxApplyTx(as, n.Chain.Head, tx)
			return verdictOf(e)
		case "touch":
			// first-touch accessors used by pools, fee calculation and every attachment parser
			types.Sender(tx)
			types.SenderPubKey(tx)
			tx.Hash()
			tx.Hash128()
			tx.Size()
			fee.CalculateGas(tx)
			fee.CalculateMaxCost(tx)
			attachments.ParseFlipSubmitAttachment(tx)
			attachments.ParseShortAnswerAttachment(tx)
			attachments.ParseLongAnswerAttachment(tx)
			attachments.ParseDeployContractAttachment(tx)
			attachments.ParseCallContractAttachment(tx)
			attachments.ParseTerminateContractAttachment(tx)
			attachments.ParseStoreToIpfsAttachment(tx)
			attachments.ParseOnlineStatusAttachment(tx)
			attachments.ParseBurnAttachment(tx)
			attachments.ParseChangeProfileAttachment(tx)
			attachments.ParseDeleteFlipAttachment(tx)
			return "ok"
		}
		return "bad-entry"
	case "block":
		b := new(types.Block)
		if err := b.FromBytes(unhex(cs.Hex)); err != nil {
			return "undecodable"
		}
		if cs.Entry == "gated" && !b.IsValid() {
			return "gate-rej"
		}
		_, err := fx.n.Chain.ValidateBlock(b, nil, nil)
		if err == nil {
			return "verdict acc"
		}
		return "verdict rej"
	case "fork":
		var bundles, bundles2 []types.BlockBundle
		for _, it := range cs.Fork {
			b := new(types.Block)
			if err := b.FromBytes(unhex(it.Block)); err != nil {
				return "undecodable"
			}
			// what fullSync.SeekForkedBlocks hands over: a header that passed blockRange.IsValid and a body the node built
			if !b.Header.IsValid() {
				return "gate-rej"
			}
			if b.Body == nil {
				b.Body = &types.Body{}
			}
			var cert *types.BlockCert
			if it.HasCert {
				cert = &types.BlockCert{Round: b.Height(), Step: types.Final, VotedHash: b.Hash(),
					Signatures: []*types.BlockCertSignature{{Signature: make([]byte, 65)}}}
			}
			bundles = append(bundles, types.BlockBundle{Block: b, Cert: cert})
			bundles2 = append(bundles2, types.BlockBundle{Block: b, Cert: cert})
		}
		// checkForkSize is specified on lists in ascending height order: the direct call gets a stably sorted COPY; the
		// list in the order the peer delivered it goes through the real processBlocks below (order is part of the input)
		sort.SliceStable(bundles2, func(i, j int) bool { return bundles2[i].Block.Height() < bundles2[j].Block.Height() })
		cfs := "ok"
		if len(bundles2) == 0 {
			cfs = "err"
		} else if consensus.VerifC12CheckForkSize(fx.n.Chain, bundles2) != nil {
			cfs = "err"
		}
		err, applicable := consensus.VerifC12ProcessForkBlocks(fx.n.Chain, bundles)
		pb := "rejected"
		if err == nil && applicable {
			pb = "applicable"
		}
		return "cfs=" + cfs + " pb=" + pb
	case "fuzz-obj":
		return fuzzObject(fx, cs.Entry, unhex(cs.Hex))
	case "flood":
		return runFlood(fx, cs)
	}
	return "bad-section"
}

// fuzzObject: FromBytes -> IsValid -> first-touch accessors -> validation entry point, per wire type.
func fuzzObject(fx *fixture, kind string, b []byte) string {
	n := fx.n
	switch kind {
	case "tx":
		t := new(types.Transaction)
		if t.FromBytes(b) != nil {
			return "undecodable"
		}
		runCase(fx, c12case{Section: "tx", Entry: "touch", Hex: hex.EncodeToString(b)})
		as, err := n.App.Readonly(n.Chain.Head.Height())
		if err != nil {
			return "nostate"
		}
		mf := fee.GetFeePerGasForNetwork(as.ValidatorsCache.NetworkSize())
		r := ""
		for _, m := range []int{validation.InBlockTx, validation.MempoolTx, validation.InboundTx} {
			r += verdictOf(validation.ValidateTx(as, t, mf, m))
		}
		return r
	case "block":
		x := new(types.Block)
		if x.FromBytes(b) != nil {
			return "undecodable"
		}
		if !x.IsValid() {
			return "gate-rej"
		}
		x.Hash()
		x.Height()
		x.IsEmpty()
		x.Header.Flags()
		x.Header.Coinbase()
		x.Hash128()
		_, err := n.Chain.ValidateBlock(x, nil, nil)
		return verdictOf(err)
	case "cert":
		x := new(types.BlockCert)
		if x.FromBytes(b) != nil {
			return "undecodable"
		}
		if x.Empty() {
			return "empty"
		}
		return verdictOf(n.Chain.ValidateBlockCertOnHead(n.Chain.Head, x))
	case "manifest":
		x := new(snapshot.Manifest)
		if x.FromBytes(b) != nil {
			return "undecodable"
		}
		return "ok"
	case "flipkey":
		x := new(types.PublicFlipKey)
		if x.FromBytes(b) != nil {
			return "undecodable"
		}
		types.SenderFlipKey(x)
		x.Hash()
		return verdictOf(fx.keys.AddPublicFlipKey(x, false))
	case "keypkg":
		x := new(types.PrivateFlipKeysPackage)
		if x.FromBytes(b) != nil {
			return "undecodable"
		}
		types.SenderFlipKeysPackage(x)
		x.Hash128()
		return verdictOf(fx.keys.AddPrivateKeysPackage(x, false))
	case "range":
		dec, valid, items := protocol.VerifC12DecodeRange(b)
		return fmt.Sprint(dec, valid, len(items))
	}
	return "bad-kind"
}

func txName(t uint16) string {
	names := map[uint16]string{0: "send", 1: "activation", 2: "invite", 3: "kill", 4: "flip", 5: "answers-hash", 6: "short-answers",
		7: "long-answers", 8: "evidence", 9: "online", 0xA: "kill-invitee", 0xB: "change-god", 0xC: "burn", 0xD: "profile", 0xE: "delete-flip",
		0xF: "deploy", 0x10: "call", 0x11: "terminate", 0x12: "delegate", 0x13: "undelegate", 0x14: "kill-delegator", 0x15: "store-ipfs", 0x16: "replenish"}
	if n, ok := names[t]; ok {
		return n
	}
	return fmt.Sprint("type-", t)
}

// failure signature of a panic: C12:<site>-panic:<detail>
func panicSignature(cs c12case, r result) string {
	fn := r.Site
	if i := strings.LastIndex(fn, "/"); i >= 0 {
		fn = fn[i+1:]
	}
	switch cs.Section {
	case "tx":
		tx := txFromCase(cs)
		detail := fn
		if tx != nil {
			if tx.To == nil && strings.Contains(r.Panic, "nil pointer") && strings.Contains(r.Site, "validation.") {
				detail = txName(tx.Type) + "-nil-recipient"
			} else {
				detail = txName(tx.Type) + ":" + fn
			}
		}
		site := "validate-tx"
		if cs.Entry == "apply" && !strings.Contains(r.Site, "validation.") {
			site = "apply-tx"
		} else if cs.Entry == "touch" {
			site = "tx-accessor"
		}
		return "C12:" + site + "-panic:" + detail
	case "block":
		return "C12:validate-block-panic:" + fn
	case "fork":
		return "C12:fork-block-list-panic:" + fn
	case "flood":
		return "C12:handler-panic:newTx-flood:" + fn
	case "msg", "fuzz-msg":
		return "C12:handler-panic:" + fn
	case "frame", "fuzz-frame":
		return "C12:frame-decode-panic:" + fn
	case "fuzz-obj":
		return "C12:decode-validate-panic:" + cs.Entry + ":" + fn
	}
	return "C12:panic:" + fn
}
