package main

// (G) dereference census, recomputed from the repository's current sources on every run with go/parser + go/ast:
//   - every pointer-typed (optional) field of the wire / consensus structs;
//   - every function of the handler / validation path that selects THROUGH such a field (x.F.g, x.F.m(), *x.F);
//     name based (no type information), i.e. an over-approximation;
//   - the decoded-length cap of protocol.Decode.
// Every (function, field) pair with its site count goes to the Lean driver as an op line together with the class the
// expectation list (derefs_expected.tsv, embedded) gives it; a pair that is not in the list is `unclassified`, a
// changed count is `count-changed`: both make the driver answer differ from `ok` (the obligation fails loudly).

import (
	_ "embed"
	"fmt"
	"go/ast"
	"go/constant"
	"go/parser"
	"go/token"
	"go/types"
	"os"
	"path/filepath"
	"sort"
	"strings"
)

//go:embed derefs_expected.tsv
var derefsExpected string

var censusStructs = map[string][]string{
	"blockchain/types/types.go": {"Transaction", "Header", "ProposedHeader", "Block", "BlockProposal", "Vote", "Flip", "BlockBundle",
		"BlockCert", "FullBlockCert", "Body", "ProofProposal", "PublicFlipKey", "PrivateFlipKeysPackage"},
	"protocol/batch.go":                {"block", "blockRange", "blockPeer"},
	"protocol/types.go":                {"Msg", "pushPullHash", "msgBatch", "batchItem"},
	"core/state/snapshot/snapshot.go":  {"Manifest"},
	"core/state/snapshot/manifest.go":  {"Manifest"},
	"core/state/snapshot/snapshot2.go": {"Manifest"},
}

var censusDirs = []string{"protocol", "blockchain/types", "blockchain/validation", "blockchain/attachments", "blockchain/fee",
	"blockchain", "pengings", "consensus", "core/mempool", "core/flip", "core/upgrade"}

type censusRow struct {
	Fn, Field, Root string // Root: the variable the selection starts from (e.g. prevBlock in prevBlock.ProposedHeader.Upgrade)
	Count           int    // dereference sites
	Guards          int    // comparisons of Root…Field with nil in the same function (==, !=)
}

type census struct {
	Fields map[string][]string // optional field -> structs declaring it
	Rows   []censusRow
	Cap    string // value of maxDecodedMsgSize ("-" if the constant does not exist)
	Gates  map[string]bool
}

func funcName(fd *ast.FuncDecl) string {
	name := fd.Name.Name
	if fd.Recv != nil && len(fd.Recv.List) > 0 {
		t := fd.Recv.List[0].Type
		if s, ok := t.(*ast.StarExpr); ok {
			t = s.X
		}
		if id, ok := t.(*ast.Ident); ok {
			name = id.Name + "." + name
		}
	}
	return name
}

func runCensus(repo string) (*census, error) {
	fset := token.NewFileSet()
	cs := &census{Fields: map[string][]string{}, Cap: "-", Gates: map[string]bool{}}
	for f, names := range censusStructs {
		af, err := parser.ParseFile(fset, filepath.Join(repo, f), nil, 0)
		if err != nil {
			continue // the file list is a superset; a missing struct shows up as a missing field below
		}
		want := map[string]bool{}
		for _, n := range names {
			want[n] = true
		}
		ast.Inspect(af, func(n ast.Node) bool {
			ts, ok := n.(*ast.TypeSpec)
			if !ok || !want[ts.Name.Name] {
				return true
			}
			st, ok := ts.Type.(*ast.StructType)
			if !ok {
				return true
			}
			for _, fl := range st.Fields.List {
				se, isPtr := fl.Type.(*ast.StarExpr)
				if !isPtr {
					continue
				}
				if len(fl.Names) == 0 {
					if id, ok := se.X.(*ast.Ident); ok {
						cs.Fields[id.Name] = append(cs.Fields[id.Name], ts.Name.Name+"(embedded)")
					}
					continue
				}
				for _, nm := range fl.Names {
					cs.Fields[nm.Name] = append(cs.Fields[nm.Name], ts.Name.Name)
				}
			}
			return true
		})
	}
	if len(cs.Fields) == 0 {
		return nil, fmt.Errorf("census: no optional fields found under %s", repo)
	}
	pairs := map[[3]string]int{}
	guards := map[[3]string]int{}
	for _, d := range censusDirs {
		ents, err := os.ReadDir(filepath.Join(repo, d))
		if err != nil {
			return nil, fmt.Errorf("census: %v", err)
		}
		for _, e := range ents {
			nm := e.Name()
			if e.IsDir() || !strings.HasSuffix(nm, ".go") || strings.HasSuffix(nm, "_test.go") || strings.HasSuffix(nm, "_mocks.go") ||
				strings.HasPrefix(nm, "zz_verif") {
				continue
			}
			af, err := parser.ParseFile(fset, filepath.Join(repo, d, nm), nil, 0)
			if err != nil {
				return nil, fmt.Errorf("census: %v", err)
			}
			for _, decl := range af.Decls {
				switch x := decl.(type) {
				case *ast.GenDecl:
					if d == "protocol" && x.Tok == token.CONST {
						for _, sp := range x.Specs {
							vs := sp.(*ast.ValueSpec)
							for i, id := range vs.Names {
								if id.Name == "maxDecodedMsgSize" && i < len(vs.Values) {
									if tv, err := types.Eval(fset, nil, token.NoPos, exprString(vs.Values[i])); err == nil && tv.Value != nil {
										if v, ok := constant.Uint64Val(constant.ToInt(tv.Value)); ok {
											cs.Cap = fmt.Sprint(v)
										}
									}
								}
							}
						}
					}
				case *ast.FuncDecl:
					if x.Body == nil {
						continue
					}
					fn := d + ":" + funcName(x)
					ast.Inspect(x.Body, func(n ast.Node) bool {
						switch y := n.(type) {
						case *ast.SelectorExpr:
							if in, ok := y.X.(*ast.SelectorExpr); ok {
								if _, isOpt := cs.Fields[in.Sel.Name]; isOpt {
									pairs[[3]string{fn, in.Sel.Name, rootIdent(in.X)}]++
								}
							}
							// Decode's use of the cap and DecodedLen (the allocation gate)
							if fn == "protocol:Decode" {
								if y.Sel.Name == "DecodedLen" {
									cs.Gates["Decode:DecodedLen"] = true
								}
							}
						case *ast.StarExpr:
							if in, ok := y.X.(*ast.SelectorExpr); ok {
								if _, isOpt := cs.Fields[in.Sel.Name]; isOpt {
									pairs[[3]string{fn, "*" + in.Sel.Name, rootIdent(in.X)}]++
								}
							}
						case *ast.BinaryExpr:
							if y.Op == token.EQL || y.Op == token.NEQ {
								for _, pr := range [][2]ast.Expr{{y.X, y.Y}, {y.Y, y.X}} {
									if id, ok := pr[1].(*ast.Ident); ok && id.Name == "nil" {
										if se, ok := pr[0].(*ast.SelectorExpr); ok {
											if _, isOpt := cs.Fields[se.Sel.Name]; isOpt {
												guards[[3]string{fn, se.Sel.Name, rootIdent(se.X)}]++
											}
										}
									}
								}
							}
						case *ast.Ident:
							if fn == "protocol:Decode" && y.Name == "maxDecodedMsgSize" {
								cs.Gates["Decode:maxDecodedMsgSize"] = true
							}
						}
						return true
					})
				}
			}
		}
	}
	for k, v := range pairs {
		g := guards[[3]string{k[0], strings.TrimPrefix(k[1], "*"), k[2]}]
		cs.Rows = append(cs.Rows, censusRow{k[0], k[1], k[2], v, g})
	}
	sort.Slice(cs.Rows, func(i, j int) bool {
		a, b := cs.Rows[i], cs.Rows[j]
		if a.Fn != b.Fn {
			return a.Fn < b.Fn
		}
		if a.Field != b.Field {
			return a.Field < b.Field
		}
		return a.Root < b.Root
	})
	return cs, nil
}

// rootIdent: the identifier an access path starts from (x in x.a.b, x.f().c, x[i].d); "_" if there is none
func rootIdent(e ast.Expr) string {
	for {
		switch x := e.(type) {
		case *ast.Ident:
			return x.Name
		case *ast.SelectorExpr:
			e = x.X
		case *ast.CallExpr:
			e = x.Fun
		case *ast.IndexExpr:
			e = x.X
		case *ast.ParenExpr:
			e = x.X
		case *ast.StarExpr:
			e = x.X
		case *ast.TypeAssertExpr:
			e = x.X
		default:
			return "_"
		}
	}
}

func exprString(e ast.Expr) string {
	switch x := e.(type) {
	case *ast.BasicLit:
		return x.Value
	case *ast.BinaryExpr:
		return "(" + exprString(x.X) + x.Op.String() + exprString(x.Y) + ")"
	case *ast.ParenExpr:
		return "(" + exprString(x.X) + ")"
	}
	return "0/0"
}

type expectation struct {
	Class  string
	Count  int
	Guards int
	Reason string
}

func loadExpectations() map[[3]string]expectation {
	m := map[[3]string]expectation{}
	for _, l := range strings.Split(derefsExpected, "\n") {
		if l == "" || strings.HasPrefix(l, "#") {
			continue
		}
		p := strings.SplitN(l, "\t", 7)
		if len(p) < 7 {
			continue
		}
		var n, g int
		fmt.Sscan(p[3], &n)
		fmt.Sscan(p[4], &g)
		m[[3]string{p[0], p[1], p[2]}] = expectation{Class: p[5], Count: n, Guards: g, Reason: p[6]}
	}
	return m
}
