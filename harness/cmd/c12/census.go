package main

// (G) dereference census, recomputed from the repository's current sources on every run with go/parser + go/ast:
//   - every pointer-typed (optional) field of the wire / consensus structs;
//   - every function of the handler / validation path that selects THROUGH such a field (x.F.g, x.F.m(), *x.F);
//     name based (no type information), i.e. an over-approximation;
//   - for every such dereference whether a nil test of the SAME access path dominates it (`p.F != nil && p.F.x`,
//     `p.F == nil || p.F.x`, inside `if p.F != nil {…}`, in the else branch of `if p.F == nil`, after a guard clause
//     `if p.F == nil || … { return }`): guarded dereferences are safe by construction, the UNGUARDED ones are what the
//     expectation list classifies and pins, per (function, field);
//   - the decoded-length cap of protocol.Decode.
// The key of a row is (function, field): no local variable name, no line number — renaming a variable, dropping an
// `else` after `return`, turning a nested `if` into a guard clause or adding guarded dereferences does not change a row.
// A row whose function is new but whose file had an expected row of the same field and the same count in a function
// that no longer has it is a site that MOVED within the file (extract-function refactoring): it inherits the class.
// A pair that is not in the list is `unclassified`, a changed number of unguarded dereferences is `count-changed`: both
// make the driver answer differ from `ok` (the obligation fails loudly).

import (
	_ "embed"
	"fmt"
	"go/ast"
	"go/constant"
	"go/parser"
	"go/token"
	"go/types"
	"os"
	"path/filepath"
	"sort"
	"strconv"
	"strings"
)

//go:embed derefs_expected.tsv
var derefsExpected string

var censusStructs = map[string][]string{
	"blockchain/types/types.go": {"Transaction", "Header", "ProposedHeader", "Block", "BlockProposal", "Vote", "Flip", "BlockBundle",
		"BlockCert", "FullBlockCert", "Body", "ProofProposal", "PublicFlipKey", "PrivateFlipKeysPackage"},
	"protocol/batch.go":                {"block", "blockRange", "blockPeer"},
	"protocol/types.go":                {"Msg", "pushPullHash", "msgBatch", "batchItem"},
	"core/state/snapshot/snapshot.go":  {"Manifest"},
	"core/state/snapshot/manifest.go":  {"Manifest"},
	"core/state/snapshot/snapshot2.go": {"Manifest"},
}

var censusDirs = []string{"protocol", "blockchain/types", "blockchain/validation", "blockchain/attachments", "blockchain/fee",
	"blockchain", "pengings", "consensus", "core/mempool", "core/flip", "core/upgrade"}

type censusRow struct {
	Fn, Field string // Fn = <dir>:<Receiver.>Func
	Kind      string // field (x.F.g), call (x.F.m(): the callee may accept a nil receiver), star (*x.F)
	File      string // base name of the source file
	Unguarded int    // DISTINCT access paths with a dereference not dominated by a nil test of the same path
	Guarded   int    // distinct paths whose dereferences are all dominated (informational, not pinned)
	MovedFrom string // expectation row this one inherits from (site moved within the file)
}

type census struct {
	Fields map[string][]string // optional field -> structs declaring it
	Rows   []censusRow
	Cap    string // value of maxDecodedMsgSize ("-" if the constant does not exist)
	Gates  map[string]bool
	// Callers: function key -> keys of the same-directory functions that call it (by bare name; ambiguous names left out)
	Callers map[string][]string
}

func funcName(fd *ast.FuncDecl) string {
	name := fd.Name.Name
	if fd.Recv != nil && len(fd.Recv.List) > 0 {
		t := fd.Recv.List[0].Type
		if s, ok := t.(*ast.StarExpr); ok {
			t = s.X
		}
		if id, ok := t.(*ast.Ident); ok {
			name = id.Name + "." + name
		}
	}
	return name
}

func runCensus(repo string) (*census, error) {
	fset := token.NewFileSet()
	cs := &census{Fields: map[string][]string{}, Cap: "-", Gates: map[string]bool{}}
	for f, names := range censusStructs {
		af, err := parser.ParseFile(fset, filepath.Join(repo, f), nil, 0)
		if err != nil {
			continue // the file list is a superset; a missing struct shows up as a missing field below
		}
		want := map[string]bool{}
		for _, n := range names {
			want[n] = true
		}
		ast.Inspect(af, func(n ast.Node) bool {
			ts, ok := n.(*ast.TypeSpec)
			if !ok || !want[ts.Name.Name] {
				return true
			}
			st, ok := ts.Type.(*ast.StructType)
			if !ok {
				return true
			}
			for _, fl := range st.Fields.List {
				se, isPtr := fl.Type.(*ast.StarExpr)
				if !isPtr {
					continue
				}
				if len(fl.Names) == 0 {
					if id, ok := se.X.(*ast.Ident); ok {
						cs.Fields[id.Name] = append(cs.Fields[id.Name], ts.Name.Name+"(embedded)")
					}
					continue
				}
				for _, nm := range fl.Names {
					cs.Fields[nm.Name] = append(cs.Fields[nm.Name], ts.Name.Name)
				}
			}
			return true
		})
	}
	if len(cs.Fields) == 0 {
		return nil, fmt.Errorf("census: no optional fields found under %s", repo)
	}
	type acc struct {
		file       string
		ung, guard map[string]bool // access paths (used for counting only: the names in them never reach a key)
	}
	pairs := map[[3]string]*acc{}
	cs.Callers = map[string][]string{}
	for _, d := range censusDirs {
		ents, err := os.ReadDir(filepath.Join(repo, d))
		if err != nil {
			return nil, fmt.Errorf("census: %v", err)
		}
		type parsed struct {
			nm string
			af *ast.File
		}
		var files []parsed
		for _, e := range ents {
			nm := e.Name()
			if e.IsDir() || !strings.HasSuffix(nm, ".go") || strings.HasSuffix(nm, "_test.go") || strings.HasSuffix(nm, "_mocks.go") ||
				strings.HasPrefix(nm, "zz_verif") {
				continue
			}
			af, err := parser.ParseFile(fset, filepath.Join(repo, d, nm), nil, 0)
			if err != nil {
				return nil, fmt.Errorf("census: %v", err)
			}
			files = append(files, parsed{nm, af})
		}
		// same-package boolean helpers (one level): `func h(p…) bool { return <expr> }` or if/return-constant chains
		helpers := map[string]*boolHelper{}
		for _, pf := range files {
			for _, decl := range pf.af.Decls {
				if fd, ok := decl.(*ast.FuncDecl); ok {
					if h := asBoolHelper(fd); h != nil {
						helpers[fd.Name.Name] = h
					}
				}
			}
		}
		bareToKey := map[string]string{} // bare function name -> key, "" if ambiguous in this directory
		for _, pf := range files {
			for _, decl := range pf.af.Decls {
				if fd, ok := decl.(*ast.FuncDecl); ok {
					if _, dup := bareToKey[fd.Name.Name]; dup {
						bareToKey[fd.Name.Name] = ""
					} else {
						bareToKey[fd.Name.Name] = d + ":" + funcName(fd)
					}
				}
			}
		}
		for _, pf := range files {
			nm, af := pf.nm, pf.af
			pkgNames := map[string]bool{}
			for _, im := range af.Imports {
				pth, _ := strconv.Unquote(im.Path.Value)
				name := pth[strings.LastIndex(pth, "/")+1:]
				if im.Name != nil {
					name = im.Name.Name
				}
				pkgNames[name] = true
			}
			for _, decl := range af.Decls {
				switch x := decl.(type) {
				case *ast.GenDecl:
					if d == "protocol" && x.Tok == token.CONST {
						for _, sp := range x.Specs {
							vs := sp.(*ast.ValueSpec)
							for i, id := range vs.Names {
								if id.Name == "maxDecodedMsgSize" && i < len(vs.Values) {
									if tv, err := types.Eval(fset, nil, token.NoPos, exprString(vs.Values[i])); err == nil && tv.Value != nil {
										if v, ok := constant.Uint64Val(constant.ToInt(tv.Value)); ok {
											cs.Cap = fmt.Sprint(v)
										}
									}
								}
							}
						}
					}
				case *ast.FuncDecl:
					if x.Body == nil {
						continue
					}
					fn := d + ":" + funcName(x)
					if fn == "protocol:Decode" {
						ast.Inspect(x.Body, func(n ast.Node) bool {
							switch y := n.(type) {
							case *ast.SelectorExpr:
								if y.Sel.Name == "DecodedLen" {
									cs.Gates["Decode:DecodedLen"] = true
								}
							case *ast.Ident:
								if y.Name == "maxDecodedMsgSize" {
									cs.Gates["Decode:maxDecodedMsgSize"] = true
								}
							}
							return true
						})
					}
					w := &derefWalker{fields: cs.Fields, pkgNames: pkgNames, helpers: helpers, hit: func(field, kind, path string, guarded bool) {
						k := [3]string{fn, field, kind}
						a := pairs[k]
						if a == nil {
							a = &acc{file: nm, ung: map[string]bool{}, guard: map[string]bool{}}
							pairs[k] = a
						}
						if guarded {
							a.guard[path] = true
						} else {
							a.ung[path] = true
						}
					}}
					w.stmts(x.Body.List, map[string]bool{})
					seenCallee := map[string]bool{}
					ast.Inspect(x.Body, func(n ast.Node) bool {
						if call, ok := n.(*ast.CallExpr); ok {
							name := ""
							switch f := call.Fun.(type) {
							case *ast.Ident:
								name = f.Name
							case *ast.SelectorExpr:
								name = f.Sel.Name
							}
							if key := bareToKey[name]; key != "" && key != fn && !seenCallee[key] {
								seenCallee[key] = true
								cs.Callers[key] = append(cs.Callers[key], fn)
							}
						}
						return true
					})
				}
			}
		}
	}
	for k, v := range pairs {
		g := 0
		for p := range v.guard {
			if !v.ung[p] {
				g++
			}
		}
		cs.Rows = append(cs.Rows, censusRow{Fn: k[0], Field: k[1], Kind: k[2], File: v.file, Unguarded: len(v.ung), Guarded: g})
	}
	sort.Slice(cs.Rows, func(i, j int) bool {
		a, b := cs.Rows[i], cs.Rows[j]
		if a.Fn != b.Fn {
			return a.Fn < b.Fn
		}
		if a.Field != b.Field {
			return a.Field < b.Field
		}
		return a.Kind < b.Kind
	})
	return cs, nil
}

// derefWalker walks a function body keeping the set of access paths known to be non-nil at each point.
type derefWalker struct {
	fields   map[string][]string
	pkgNames map[string]bool
	hit      func(field, kind, path string, guarded bool)
	helpers  map[string]*boolHelper
}

// boolHelper: a package-level function whose result is a Boolean expression over its parameters
type boolHelper struct {
	params []string
	expr   ast.Expr
}

func constBool(e ast.Expr) (bool, bool) {
	if id, ok := unparen(e).(*ast.Ident); ok && (id.Name == "true" || id.Name == "false") {
		return id.Name == "true", true
	}
	return false, false
}

// asBoolHelper recognises `func h(a T, b U) bool { return <expr> }` and chains `if c { return true|false } … return <expr>`
// (no receiver, no init statements, no else): the chain is folded into one expression (c || rest, !c && rest).
func asBoolHelper(fd *ast.FuncDecl) *boolHelper {
	if fd.Recv != nil || fd.Body == nil || fd.Type.Results == nil || len(fd.Type.Results.List) != 1 {
		return nil
	}
	if id, ok := fd.Type.Results.List[0].Type.(*ast.Ident); !ok || id.Name != "bool" || len(fd.Type.Results.List[0].Names) > 0 {
		return nil
	}
	var params []string
	for _, f := range fd.Type.Params.List {
		if len(f.Names) == 0 {
			return nil
		}
		for _, n := range f.Names {
			params = append(params, n.Name)
		}
	}
	list := fd.Body.List
	if len(list) == 0 || len(list) > 6 {
		return nil
	}
	last, ok := list[len(list)-1].(*ast.ReturnStmt)
	if !ok || len(last.Results) != 1 {
		return nil
	}
	expr := last.Results[0]
	for i := len(list) - 2; i >= 0; i-- {
		ifs, ok := list[i].(*ast.IfStmt)
		if !ok || ifs.Init != nil || ifs.Else != nil || len(ifs.Body.List) != 1 {
			return nil
		}
		ret, ok := ifs.Body.List[0].(*ast.ReturnStmt)
		if !ok || len(ret.Results) != 1 {
			return nil
		}
		v, isConst := constBool(ret.Results[0])
		if !isConst {
			return nil
		}
		if v {
			expr = &ast.BinaryExpr{X: &ast.ParenExpr{X: ifs.Cond}, Op: token.LOR, Y: &ast.ParenExpr{X: expr}}
		} else {
			expr = &ast.BinaryExpr{X: &ast.UnaryExpr{Op: token.NOT, X: &ast.ParenExpr{X: ifs.Cond}}, Op: token.LAND, Y: &ast.ParenExpr{X: expr}}
		}
	}
	return &boolHelper{params: params, expr: expr}
}

// simplePath: an identifier or a chain of field selections from one (the only argument shapes that are substituted)
func simplePath(e ast.Expr) bool {
	switch x := unparen(e).(type) {
	case *ast.Ident:
		return true
	case *ast.SelectorExpr:
		return simplePath(x.X)
	}
	return false
}

// throughHelper: cond is a call of a same-package Boolean helper with simple arguments -> the paths its body makes
// non-nil, with the parameters replaced by the arguments; nil (nothing known) in every other case
func (w *derefWalker) throughHelper(cond ast.Expr, truth bool) []string {
	call, ok := unparen(cond).(*ast.CallExpr)
	if !ok || w.helpers == nil {
		return nil
	}
	id, ok := call.Fun.(*ast.Ident)
	if !ok {
		return nil
	}
	h := w.helpers[id.Name]
	if h == nil || len(call.Args) != len(h.params) {
		return nil
	}
	args := map[string]string{}
	for i, a := range call.Args {
		if !simplePath(a) {
			return nil
		}
		args[h.params[i]] = types.ExprString(unparen(a))
	}
	inner := &derefWalker{} // one level only: no helpers inside the helper
	var out []string
	for _, p := range inner.nonNilWhen(h.expr, truth) {
		root, rest := p, ""
		if i := strings.Index(p, "."); i >= 0 {
			root, rest = p[:i], p[i:]
		}
		if a, ok := args[root]; ok {
			out = append(out, a+rest)
		} // a path that does not start at a parameter says nothing about the caller's variables
	}
	return out
}

func copySet(m map[string]bool, extra []string) map[string]bool {
	if len(extra) == 0 {
		return m
	}
	c := make(map[string]bool, len(m)+len(extra))
	for k := range m {
		c[k] = true
	}
	for _, e := range extra {
		c[e] = true
	}
	return c
}

func unparen(e ast.Expr) ast.Expr {
	for {
		p, ok := e.(*ast.ParenExpr)
		if !ok {
			return e
		}
		e = p.X
	}
}

// nilTest: e is `P == nil` / `P != nil` (either side) -> (path of P, op)
func nilTest(e ast.Expr) (string, token.Token, bool) {
	b, ok := unparen(e).(*ast.BinaryExpr)
	if !ok || (b.Op != token.EQL && b.Op != token.NEQ) {
		return "", 0, false
	}
	for _, pr := range [][2]ast.Expr{{b.X, b.Y}, {b.Y, b.X}} {
		if id, ok := unparen(pr[1]).(*ast.Ident); ok && id.Name == "nil" {
			return types.ExprString(unparen(pr[0])), b.Op, true
		}
	}
	return "", 0, false
}

// nonNilWhen: access paths that are non-nil when cond evaluates to `truth`
func (w *derefWalker) nonNilWhen(cond ast.Expr, truth bool) []string {
	cond = unparen(cond)
	if u, ok := cond.(*ast.UnaryExpr); ok && u.Op == token.NOT {
		return w.nonNilWhen(u.X, !truth)
	}
	if b, ok := cond.(*ast.BinaryExpr); ok {
		if (truth && b.Op == token.LAND) || (!truth && b.Op == token.LOR) {
			return append(w.nonNilWhen(b.X, truth), w.nonNilWhen(b.Y, truth)...)
		}
	}
	if _, ok := cond.(*ast.CallExpr); ok {
		return w.throughHelper(cond, truth)
	}
	if p, op, ok := nilTest(cond); ok {
		if (truth && op == token.NEQ) || (!truth && op == token.EQL) {
			return []string{p}
		}
	}
	return nil
}

func terminates(list []ast.Stmt) bool {
	if len(list) == 0 {
		return false
	}
	switch x := list[len(list)-1].(type) {
	case *ast.ReturnStmt:
		return true
	case *ast.BranchStmt:
		return x.Tok == token.CONTINUE || x.Tok == token.BREAK || x.Tok == token.GOTO
	case *ast.ExprStmt:
		if c, ok := x.X.(*ast.CallExpr); ok {
			if id, ok := c.Fun.(*ast.Ident); ok && id.Name == "panic" {
				return true
			}
		}
	case *ast.BlockStmt:
		return terminates(x.List)
	}
	return false
}

// stmts walks a statement list; a guard clause (`if c { …; return }`) extends the known set for what follows
func (w *derefWalker) stmts(list []ast.Stmt, known map[string]bool) {
	for _, st := range list {
		w.node(st, known)
		if ifs, ok := st.(*ast.IfStmt); ok {
			bodyEnds := terminates(ifs.Body.List)
			elseEnds := false
			if eb, ok := ifs.Else.(*ast.BlockStmt); ok {
				elseEnds = terminates(eb.List)
			}
			switch {
			case bodyEnds && !elseEnds:
				known = copySet(known, w.nonNilWhen(ifs.Cond, false))
			case elseEnds && !bodyEnds && ifs.Else != nil:
				known = copySet(known, w.nonNilWhen(ifs.Cond, true))
			}
		}
	}
}

func directChildren(n ast.Node) []ast.Node {
	var out []ast.Node
	first := true
	ast.Inspect(n, func(c ast.Node) bool {
		if c == nil {
			return false
		}
		if first {
			first = false
			return true
		}
		out = append(out, c)
		return false
	})
	return out
}

func (w *derefWalker) optional(sel *ast.SelectorExpr) bool {
	_, ok := w.fields[sel.Sel.Name]
	return ok
}

func (w *derefWalker) node(n ast.Node, known map[string]bool) {
	switch x := n.(type) {
	case nil:
		return
	case *ast.BlockStmt:
		w.stmts(x.List, known)
	case *ast.CaseClause:
		for _, e := range x.List {
			w.node(e, known)
		}
		w.stmts(x.Body, known)
	case *ast.CommClause:
		w.node(x.Comm, known)
		w.stmts(x.Body, known)
	case *ast.IfStmt:
		if x.Init != nil {
			w.node(x.Init, known)
		}
		w.node(x.Cond, known)
		w.stmts(x.Body.List, copySet(known, w.nonNilWhen(x.Cond, true)))
		if x.Else != nil {
			w.node(x.Else, copySet(known, w.nonNilWhen(x.Cond, false)))
		}
	case *ast.BinaryExpr:
		w.node(x.X, known)
		switch x.Op {
		case token.LAND:
			w.node(x.Y, copySet(known, w.nonNilWhen(x.X, true)))
		case token.LOR:
			w.node(x.Y, copySet(known, w.nonNilWhen(x.X, false)))
		default:
			w.node(x.Y, known)
		}
	case *ast.CallExpr:
		if sel, ok := unparen(x.Fun).(*ast.SelectorExpr); ok {
			if in, ok := unparen(sel.X).(*ast.SelectorExpr); ok && w.optional(in) {
				p := types.ExprString(in)
				w.hit(in.Sel.Name, "call", p, known[p]) // method call through the optional field
				w.node(in.X, known)
			} else {
				w.node(sel.X, known)
			}
		} else {
			w.node(x.Fun, known)
		}
		for _, a := range x.Args {
			w.node(a, known)
		}
	case *ast.SelectorExpr:
		if in, ok := unparen(x.X).(*ast.SelectorExpr); ok && w.optional(in) {
			p := types.ExprString(in)
			w.hit(in.Sel.Name, "field", p, known[p])
		}
		w.node(x.X, known)
	case *ast.StarExpr:
		if in, ok := unparen(x.X).(*ast.SelectorExpr); ok && w.optional(in) {
			if id, isId := in.X.(*ast.Ident); !(isId && w.pkgNames[id.Name]) { // *types.Block is a type, not a dereference
				p := types.ExprString(in)
				w.hit(in.Sel.Name, "star", p, known[p])
			}
		}
		w.node(x.X, known)
	default:
		for _, c := range directChildren(n) {
			w.node(c, known)
		}
	}
}

func exprString(e ast.Expr) string {
	switch x := e.(type) {
	case *ast.BasicLit:
		return x.Value
	case *ast.BinaryExpr:
		return "(" + exprString(x.X) + x.Op.String() + exprString(x.Y) + ")"
	case *ast.ParenExpr:
		return "(" + exprString(x.X) + ")"
	}
	return "0/0"
}

type expectation struct {
	Fn, Field, Kind, File string
	Class                 string
	Unguarded             int
	Reason                string
}

// loadExpectations: rows fn, field, kind, file, unguarded, guarded (informational), class, reason
func loadExpectations() map[[3]string]expectation {
	m := map[[3]string]expectation{}
	for _, l := range strings.Split(derefsExpected, "\n") {
		if l == "" || strings.HasPrefix(l, "#") {
			continue
		}
		p := strings.SplitN(l, "\t", 8)
		if len(p) < 8 {
			continue
		}
		var n int
		fmt.Sscan(p[4], &n)
		m[[3]string{p[0], p[1], p[2]}] = expectation{Fn: p[0], Field: p[1], Kind: p[2], File: p[3], Class: p[6], Unguarded: n, Reason: p[7]}
	}
	return m
}

// classify attaches the expectation to every census row; rows of functions the list does not know inherit from an
// expected row of the same directory, file, field and count whose function no longer has that field (moved site).
func classify(rows []censusRow, exp map[[3]string]expectation, callers map[string][]string) []struct {
	Row censusRow
	Exp *expectation
} {
	present := map[[3]string]bool{}
	for _, r := range rows {
		present[[3]string{r.Fn, r.Field, r.Kind}] = true
	}
	used := map[[3]string]bool{}
	out := make([]struct {
		Row censusRow
		Exp *expectation
	}, len(rows))
	for i, r := range rows {
		out[i].Row = r
		if e, ok := exp[[3]string{r.Fn, r.Field, r.Kind}]; ok {
			ec := e
			out[i].Exp = &ec
		}
	}
	var keys [][3]string
	for k := range exp {
		keys = append(keys, k)
	}
	sort.Slice(keys, func(i, j int) bool { return strings.Join(keys[i][:], "|") < strings.Join(keys[j][:], "|") })
	for i, r := range rows {
		if out[i].Exp != nil {
			continue
		}
		dir := r.Fn[:strings.Index(r.Fn, ":")+1]
		for _, k := range keys {
			e := exp[k]
			if present[k] || used[k] || e.Field != r.Field || e.Kind != r.Kind || e.File != r.File || !strings.HasPrefix(e.Fn, dir) || e.Unguarded != r.Unguarded {
				continue
			}
			ec := e
			out[i].Exp = &ec
			out[i].Row.MovedFrom = e.Fn
			used[k] = true
			break
		}
	}
	// extracted helper: a function the list does not know at all, all of whose callers (same directory) are known and
	// agree on one class for that field (or, if they have no row for the field, on one class altogether), is reached
	// only through them: it inherits that class (and the caller's name, which is what the model's table knows)
	knownFn := map[string]bool{}
	for k := range exp {
		knownFn[k[0]] = true
	}
	for i, r := range rows {
		if out[i].Exp != nil || knownFn[r.Fn] || len(callers[r.Fn]) == 0 {
			continue
		}
		classes, any := map[string]string{}, map[string]string{}
		ok := true
		for _, c := range callers[r.Fn] {
			if !knownFn[c] {
				ok = false
				break
			}
			for _, k := range keys {
				if k[0] != c {
					continue
				}
				any[exp[k].Class] = c
				if k[1] == r.Field {
					classes[exp[k].Class] = c
				}
			}
		}
		if !ok {
			continue
		}
		pick := classes
		if len(pick) == 0 {
			pick = any
		}
		if len(pick) == 1 {
			for cls, caller := range pick {
				out[i].Exp = &expectation{Fn: caller, Field: r.Field, Kind: r.Kind, File: r.File, Class: cls, Unguarded: r.Unguarded, Reason: "extracted from " + caller}
				out[i].Row.MovedFrom = caller
			}
		}
	}
	return out
}
